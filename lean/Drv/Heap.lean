import Drv.Index
import Drv.C345
import NpsVerif.Model.Heap
namespace Drv.HeapD
open Lean Drv Model Model.Heap

def parseValueI (j : Json) : Value Int :=
  match fldStr j "t" with
  | "scalar" => .scalar (fldInt j "v")
  | "flat" => .flat (jIntList (fld j "v"))
  | "column" => .column (jIntList (fld j "v"))
  | _ => .ragged (jIntRows (fld j "v"))

def parseStmt (j : Json) : Stmt :=
  match fldStr j "s" with
  | "new" => .new (jIntRows (fld j "rows"))
  | "select" => .select (fldNat j "x") (parseIndex (fld j "idx"))
  | "alias" => .alias (fldNat j "x")
  | "add_scalar" => .addScalar (fldNat j "x") (fldInt j "c")
  | "add_arrays" => .addArrays (fldNat j "x") (fldNat j "y")
  | "concat" => .concat (fldNat j "x") (fldNat j "y")
  | "sort" => .sort (fldNat j "x")
  | "cumsum" => .cumsum (fldNat j "x")
  | "unique" => .unique (fldNat j "x")
  | "diff" => .diff (fldNat j "x")
  | "assign" => .assign (fldNat j "x") (parseIndex (fld j "idx")) (parseValueI (fld j "val"))
  | "read_idx" => .readIdx (fldNat j "x") (parseIndex (fld j "idx"))
  | "read_sum" => .readSum (fldNat j "x")
  | "poke" => .poke (fldNat j "x") (fldNat j "k") (fldInt j "v")
  | _ => .read (fldNat j "x")

def obsJ : Obs → Json
  | .made b => toJson b
  | .rows none => refuse
  | .rows (some r) => toJson r
  | .res r => resJ r
  | .sums none => refuse
  | .sums (some l) => toJson l

/-- op `Heap.run`: a straight-line program on the heap model (L) and on the store of rows (S) -/
def run (j : Json) : Json :=
  let prog := (jArr (fld j "prog")).map parseStmt
  obj [("L", Json.arr ((Heap.run Heap.init prog).map obsJ).toArray),
       ("S", Json.arr ((Heap.runS Heap.initS prog).map obsJ).toArray)]
end Drv.HeapD
