import Drv.Json
import NpsVerif.Gen.Cur
import NpsVerif.Gen.CurW
import NpsVerif.Gen.Ref
/-! Evaluation of the generated kernels `Gen.Cur.*` for the translator validation
(`tools/kernel_validate.py`: real method vs generated kernel on an integer box). -/
namespace Drv.KD
open Lean Drv Gen

def t3 (t : Int × Int × Int) : Json := toJson [t.1, t.2.1, t.2.2]

def w3 (t : W32 × W32 × W32) : Json := toJson [t.1.v, t.2.1.v, t.2.2.v]

/-- the wrapping 32-bit kernels `Gen.CurW.*` (inputs already inside the int32 range) -/
def evalW (j : Json) : Json :=
  let len := W32.lift (fldInt j "len"); let s0 := W32.lift (fldInt j "s0"); let c := W32.lift (fldInt j "c")
  let a := (jOptInt (fld j "a")).map W32.lift; let b := (jOptInt (fld j "b")).map W32.lift
  let k := (jOptInt (fld j "k")).map W32.lift
  match fldStr j "kernel" with
  | "w32.view2_ends" => toJson (CurW.view2_ends len s0 c).v
  | "w32.calc_lengths" => toJson (CurW.calc_lengths len a b k).v
  | "w32.pos_col_slice" => w3 (CurW.pos_col_slice len s0 c a b (k.getD 1))
  | "w32.col_slice_slice" => w3 (CurW.col_slice_slice len s0 c a b k)
  | "w32.col_slice_int" => match CurW.col_slice_int len s0 c (W32.lift (fldInt j "idx")) with
      | none => refuse
      | some p => toJson [p.1.v, p.2.v]
  | _ => obj [("error", "bad kernel")]

/-- C19 view-kernel cases: a column selector applied to every row `[start, len]` of a unit-step view, by the wrapping
32-bit kernels generated from the current source (`L`) and by the committed reference kernels over unbounded integers (`S`, the kernels the C02 theorems are about); an integer column refuses as a whole when
one row refuses -/
def evalView (j : Json) : Json :=
  let rows := (jIntRows (fld j "rows")).map fun r => (r.getD 0 0, r.getD 1 0)
  match fld j "idx" with
  | .null =>
    let a := jOptInt (fld j "a"); let b := jOptInt (fld j "b"); let k := jOptInt (fld j "k")
    if k == some 0 then obj [("L", refuse), ("S", refuse)] else
    let l := rows.map fun (s0, len) => w3 (CurW.col_slice_slice (.lift len) (.lift s0) (.lift 1) (a.map .lift) (b.map .lift) (k.map .lift))
    let s := rows.map fun (s0, len) => t3 (Ref.col_slice_slice len s0 1 a b k)
    obj [("L", toJson l), ("S", toJson s)]
  | ji =>
    let idx := (jInt? ji).getD 0
    let l := rows.map fun (s0, len) => CurW.col_slice_int (.lift len) (.lift s0) (.lift 1) (.lift idx)
    let s := rows.map fun (s0, len) => Ref.col_slice_int len s0 1 idx
    let lj := if l.any Option.isNone then refuse else toJson (l.filterMap fun o => o.map fun p => [p.1.v, p.2.v, 1])
    let sj := if s.any Option.isNone then refuse else toJson (s.filterMap fun o => o.map fun p => [p.1, p.2, 1])
    obj [("L", lj), ("S", sj)]

def eval (j : Json) : Json :=
  if (fldStr j "kernel").startsWith "w32." then evalW j else
  let len := fldInt j "len"; let s0 := fldInt j "s0"; let c := fldInt j "c"
  let a := jOptInt (fld j "a"); let b := jOptInt (fld j "b"); let k := jOptInt (fld j "k")
  match fldStr j "kernel" with
  | "view2_ends" => toJson (Cur.view2_ends len s0 c)
  | "calc_lengths" => if Cur.calc_lengths_pre len a b k then toJson (Cur.calc_lengths len a b k) else refuse
  | "pos_col_slice" => if Cur.pos_col_slice_pre len s0 c a b (k.getD 1) then t3 (Cur.pos_col_slice len s0 c a b (k.getD 1)) else refuse
  | "col_slice_slice" => if Cur.col_slice_slice_pre len s0 c a b k then t3 (Cur.col_slice_slice len s0 c a b k) else refuse
  | "col_slice_int" => match Cur.col_slice_int len s0 c (fldInt j "idx") with
      | none => refuse
      | some p => toJson [p.1, p.2]
  | "rl_slice_bounds" =>
      let t := Cur.rl_slice_bounds (fldInt j "n") a b k
      toJson [toJson t.1, toJson t.2.1, toJson t.2.2.1, toJson t.2.2.2]
  | "ht_hash" => toJson (Cur.ht_hash (fldInt j "m") (fldInt j "key"))
  | "ht_mod" => toJson (Cur.ht_mod (fldInt j "n"))
  | "bit_addr" => let t := Cur.bit_addr (fldInt j "off") (fldInt j "npr") (fldInt j "idx"); toJson [t.1, t.2]
  | _ => obj [("error", "bad kernel")]
end Drv.KD
