import Drv.Json
import NpsVerif.Gen.Cur
/-! Evaluation of the generated kernels `Gen.Cur.*` for the translator validation
(`tools/kernel_validate.py`: real method vs generated kernel on an integer box). -/
namespace Drv.KD
open Lean Drv Gen

def t3 (t : Int × Int × Int) : Json := toJson [t.1, t.2.1, t.2.2]

def eval (j : Json) : Json :=
  let len := fldInt j "len"; let s0 := fldInt j "s0"; let c := fldInt j "c"
  let a := jOptInt (fld j "a"); let b := jOptInt (fld j "b"); let k := jOptInt (fld j "k")
  match fldStr j "kernel" with
  | "view2_ends" => toJson (Cur.view2_ends len s0 c)
  | "calc_lengths" => if Cur.calc_lengths_pre len a b k then toJson (Cur.calc_lengths len a b k) else refuse
  | "pos_col_slice" => if Cur.pos_col_slice_pre len s0 c a b (k.getD 1) then t3 (Cur.pos_col_slice len s0 c a b (k.getD 1)) else refuse
  | "col_slice_slice" => if Cur.col_slice_slice_pre len s0 c a b k then t3 (Cur.col_slice_slice len s0 c a b k) else refuse
  | "col_slice_int" => match Cur.col_slice_int len s0 c (fldInt j "idx") with
      | none => refuse
      | some p => toJson [p.1, p.2]
  | "rl_slice_bounds" =>
      let t := Cur.rl_slice_bounds (fldInt j "n") a b k
      toJson [toJson t.1, toJson t.2.1, toJson t.2.2.1, toJson t.2.2.2]
  | "ht_hash" => toJson (Cur.ht_hash (fldInt j "m") (fldInt j "key"))
  | "ht_mod" => toJson (Cur.ht_mod (fldInt j "n"))
  | "bit_addr" => let t := Cur.bit_addr (fldInt j "off") (fldInt j "npr") (fldInt j "idx"); toJson [t.1, t.2]
  | _ => obj [("error", "bad kernel")]
end Drv.KD
