import Drv.Json
import NpsVerif.Np.Basic
import NpsVerif.Spec.Py
import NpsVerif.Model.Ufunc
import NpsVerif.Model.Reduce
import NpsVerif.Model.BitArray
/-! N-layer validation: every numpy primitive of the model is exposed for differential testing
against numpy itself (`tools/nlayer_validate.py`). -/
namespace Drv.NpD
open Lean Drv Model

def eval (j : Json) : Json :=
  let a := jIntList (fld j "a")
  match fldStr j "p" with
  | "cumsum" => toJson (Np.cumsum a)
  | "diff" => toJson (Np.diff a)
  | "gather" => optJ (Np.gather a (jIntList (fld j "idx")))
  | "scatter" => toJson (Np.scatterSet a ((jNatList (fld j "idx")).zip (jIntList (fld j "vals"))))
  | "xor_scatter" => toJson (xorScatter (jNatList (fld j "a")) (jNatList (fld j "idx")) (jNatList (fld j "vals")))
  | "flatnonzero" => toJson (Np.flatnonzero (jBoolList (fld j "m")))
  | "searchsorted_right" => toJson (Np.searchsortedRight a (fldInt j "v"))
  | "searchsorted_left" => toJson (Np.searchsortedLeft a (fldInt j "v"))
  | "bincount" => toJson (Np.bincount (jNatList (fld j "a")) (fldNat j "m"))
  | "repeat" => toJson (Np.repeatEach a (jNatList (fld j "counts")))
  | "slice" => match jOptInt (fld j "k") with
      | some 0 => refuse
      | k => toJson (Py.slice a (jOptInt (fld j "s")) (jOptInt (fld j "e")) (k.getD 1))
  | "slice_len" => toJson (Py.sliceLen (fldInt j "n") (jOptInt (fld j "s")) (jOptInt (fld j "e")) (fldInt j "k"))
  | "index" => optJ (Py.index a (fldInt j "i"))
  | "reduceat_add" => optJ (reduceat List.sum a (jNatList (fld j "idx")))
  | "shl64" => toJson (BitArray.shl64 (fldNat j "x") (fldNat j "s"))
  | "stable_argsort" => toJson (RLA.stableArgsort (jNatList (fld j "a")))
  | "delete" => toJson (RLA.deleteIdx a (jNatList (fld j "idx")))
  | "xor_accumulate" => toJson (RLA.xorAccumulate (jNatList (fld j "a")))
  | _ => obj [("error", "bad primitive")]
end Drv.NpD
