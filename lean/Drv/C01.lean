import Drv.Json
import NpsVerif.Model.Shape
import NpsVerif.Model.Equals
namespace Drv.C01
open Lean Drv Model

/-- op `C01.shape`: geometry of `RaggedShape(lens)` — model (L) and spec (S) side by side. -/
def shape (j : Json) : Json :=
  let ls := jNatList (fld j "lens")
  let sh := Shape.ofLens ls
  let n := ls.sum
  let unr := (List.range n).map (fun p => optJ ((sh.unravelIdx p).map (fun rc => [rc.1, rc.2])))
  -- S: exclusive prefix sums; (row, col) of flat position p by definition
  let sStarts := (List.range ls.length).map (fun i => (ls.take i).sum)
  let sEnds := (List.range ls.length).map (fun i => (ls.take (i+1)).sum)
  let sUnr : List (List Nat) := ((List.range ls.length).zip ls).flatMap
      (fun (r, l) => (List.range l).map (fun c => [r, c]))
  -- the legacy `offsets` form of `from_dict`, from base 0 and from base 5: [starts, lengths] of each (L: the model's `ofOffsets`
  -- on the offsets; S: the geometry of the lengths, whatever the base)
  let offs (base : Int) : List Int := base :: Np.cumsumFrom base (ls.map Int.ofNat)
  let lOff : Json := Json.arr (([0, 5] : List Int).map (fun b => match Shape.ofOffsets (offs b) with
      | some s => toJson [s.starts, s.lengths]
      | none => obj [("refuse", toJson true)])).toArray
  let sOff : Json := toJson [[sStarts, ls], [sStarts, ls]]
  obj [("L", obj [("starts", toJson sh.starts), ("ends", toJson sh.ends), ("lengths", toJson sh.lengths),
                  ("offsets_form", lOff),
                  ("size", toJson sh.size), ("n_rows", toJson sh.nRows),
                  ("unravel", Json.arr unr.toArray), ("index_array", toJson sh.indexArray)]),
       ("S", obj [("starts", toJson sStarts), ("ends", toJson sEnds), ("lengths", toJson ls),
                  ("offsets_form", sOff),
                  ("size", toJson n), ("n_rows", toJson ls.length),
                  ("unravel", toJson sUnr), ("index_array", toJson (sUnr.map (·.headD 0)))])]

/-- op `C01.rows`: build from a list of rows (cells are integer ids) and read back. -/
def rows (j : Json) : Json :=
  let rs := jIntRows (fld j "rows")
  let a := RA.ofRows rs
  -- `equals` against: the same rows built again (both ways round), the same rows with the LAST cell replaced (when there is
  -- a cell), the same cells cut by the reversed row lengths (when the first and the last row differ in length)
  let ieq : Int → Int → Bool := fun x y => x == y
  let lens := rs.map List.length
  let chg : List Bool := match rs.flatten.reverse with
    | [] => []
    | _ :: _ => ((RA.ofFlat (rs.flatten.dropLast ++ [-1]) lens).map (fun b => [a.equals ieq b])).getD []
  let rev : List Bool := if lens.length ≥ 2 ∧ lens.head? ≠ lens.getLast? then
      ((RA.ofFlat rs.flatten lens.reverse).map (fun b => [a.equals ieq b])).getD [] else []
  let lEq : List Bool := [a.equals ieq (RA.ofRows rs), (RA.ofRows rs).equals ieq a] ++ chg ++ rev
  let sEq : List Bool := [true, true] ++ (if rs.flatten.isEmpty then [] else [false])
      ++ (if lens.length ≥ 2 ∧ lens.head? ≠ lens.getLast? then [false] else [])
  obj [("L", obj [("rows", toJson a.rows), ("len", toJson a.len), ("size", toJson a.size),
                  ("lengths", toJson a.shape.lengths), ("ravel", toJson a.ravel), ("equals", toJson lEq),
                  ("to_numpy", optJ a.toNumpy)]),
       ("S", obj [("rows", toJson rs), ("len", toJson rs.length), ("size", toJson (rs.map List.length).sum),
                  ("lengths", toJson (rs.map List.length)), ("ravel", toJson rs.flatten), ("equals", toJson sEq),
                  ("to_numpy", match rs with
                     | [] => toJson ([] : List (List Int))
                     | r :: rest => if rest.all (·.length == r.length) then toJson rs else refuse)])]

/-- op `C01.flat`: build from flat data + lengths. -/
def flat (j : Json) : Json :=
  let data := jIntList (fld j "data")
  let ls := jNatList (fld j "lens")
  let l : Json := match RA.ofFlat data ls with
    | none => refuse
    | some a => obj [("rows", toJson a.rows), ("ravel", toJson a.ravel)]
  let s : Json := if ls.sum = data.length then
      obj [("rows", toJson ((List.range ls.length).map (fun i =>
              (data.drop (ls.take i).sum).take (ls.getD i 0)))), ("ravel", toJson data)]
    else refuse
  obj [("L", l), ("S", s)]

end Drv.C01
