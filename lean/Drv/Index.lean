import Drv.Json
import NpsVerif.Model.Index
namespace Drv
open Lean Model

def parseRowSel (j : Json) : RowSel :=
  match fldStr j "t" with
  | "int" => .int (fldInt j "i")
  | "slice" => .slice (jOptInt (fld j "a")) (jOptInt (fld j "b")) (jOptInt (fld j "k"))
  | "list" => .list (jIntList (fld j "is"))
  | "mask" => .mask (jBoolList (fld j "bs"))
  | _ => .all

def parseColSel (j : Json) : Option ColSel :=
  match fldStr j "t" with
  | "int" => some (.int (fldInt j "i"))
  | "slice" => some (.slice (jOptInt (fld j "a")) (jOptInt (fld j "b")) (jOptInt (fld j "k")))
  | _ => none

def parseIndex (j : Json) : Index :=
  match parseColSel (fld j "c") with
  | none => .rows (parseRowSel (fld j "r"))
  | some c => .rowcol (parseRowSel (fld j "r")) c

def resJ {α} [ToJson α] : Option (Res α) → Json
  | none => refuse
  | some (.scalar x) => obj [("t", "scalar"), ("v", toJson x)]
  | some (.vec xs) => obj [("t", "vec"), ("v", toJson xs)]
  | some (.ragged rs) => obj [("t", "ragged"), ("v", toJson rs)]

namespace C02
/-- op `C02.getitem`: `RaggedArray(rows)[idx]` — model L and specification S -/
def getitem (j : Json) : Json :=
  let rows := jIntRows (fld j "rows")
  let idx := parseIndex (fld j "idx")
  obj [("L", resJ (Model.getitem (RA.ofRows rows) idx)), ("S", resJ (Py.getitem rows idx))]
end C02
end Drv
