import Lean.Data.Json
/-! JSON helpers for the line-protocol driver (no proofs here, not part of the verified library). -/
namespace Drv
open Lean

def jInt? (j : Json) : Option Int := (j.getInt?).toOption
def jNat? (j : Json) : Option Nat := (j.getNat?).toOption
def jBool? (j : Json) : Option Bool := (j.getBool?).toOption
/-- `null` ↦ `none`, integer ↦ `some`. -/
def jOptInt (j : Json) : Option Int := match j with | .null => none | _ => jInt? j
def jArr (j : Json) : List Json := match j with | .arr a => a.toList | _ => []
def jIntList (j : Json) : List Int := (jArr j).filterMap jInt?
def jNatList (j : Json) : List Nat := (jArr j).filterMap jNat?
def jBoolList (j : Json) : List Bool := (jArr j).filterMap jBool?
def jIntRows (j : Json) : List (List Int) := (jArr j).map jIntList
def jNatRows (j : Json) : List (List Nat) := (jArr j).map jNatList
def jBoolRows (j : Json) : List (List Bool) := (jArr j).map jBoolList
def fld (j : Json) (k : String) : Json := j.getObjValD k
def fldStr (j : Json) (k : String) : String := ((fld j k).getStr?).toOption.getD ""
def fldInt (j : Json) (k : String) : Int := (jInt? (fld j k)).getD 0
def fldNat (j : Json) (k : String) : Nat := (jNat? (fld j k)).getD 0

def refuse : Json := Json.mkObj [("refuse", true)]
def optJ {α} [ToJson α] : Option α → Json
  | none => refuse
  | some a => toJson a
def obj (kvs : List (String × Json)) : Json := Json.mkObj kvs

end Drv
