import Drv.Json
import NpsVerif.Model.HashTable
namespace Drv.HTd
open Lean Drv Model.HT

def parseOp (j : Json) : Op :=
  match fldStr j "t" with
  | "get1" => .get1 (fldInt j "k")
  | "getvec" => .getVec (jIntList (fld j "ks"))
  | "setscalar" => .setScalar (jIntList (fld j "ks")) (fldInt j "x")
  | "seteach" => .setEach (jIntList (fld j "ks")) (jIntList (fld j "xs"))
  | "fill" => .fill (fldInt j "x")
  | "contains" => .contains (jIntList (fld j "ks"))
  | "count" => .count (jIntList (fld j "s"))
  | _ => .items

def obsJ : Obs → Json
  | .vals none => refuse
  | .vals (some l) => toJson l
  | .bools l => toJson l
  | .done b => toJson b
  | .pairs l => toJson (l.map (fun p => [p.1, p.2]))

/-- op `HT.run`: build a table and run a history on the model and on the dictionary -/
def run (j : Json) : Json :=
  let keys := jIntList (fld j "keys")
  let vals : Sum Int (List Int) := match fld j "vals" with
    | .arr a => .inr (a.toList.filterMap jInt?)
    | x => .inl ((jInt? x).getD 0)
  let mod := match fld j "mod" with
    | .null => defaultMod keys.length
    | m => (jNat? m).getD 1
  let ops := (jArr (fld j "ops")).map parseOp
  let args := stableArgsort (keys.map (hashOf mod))
  let d0 : Spec.Dict Int := match vals with
    | .inl s => keys.map (fun k => (k, s))
    | .inr vs => keys.zip vs
  let l : Json := match build keys vals mod args with
    | none => refuse
    | some t => Json.arr ((Model.HT.run t ops).map obsJ).toArray
  obj [("L", l), ("S", Json.arr ((Spec.Dict.run d0 ops).map obsJ).toArray)]

end Drv.HTd
