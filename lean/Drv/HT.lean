import Drv.Json
import NpsVerif.Model.HashTable
namespace Drv.HTd
open Lean Drv Model.HT

def parseOp (j : Json) : Op :=
  match fldStr j "t" with
  | "get1" => .get1 (fldInt j "k")
  | "getvec" => .getVec (jIntList (fld j "ks"))
  | "setscalar" => .setScalar (jIntList (fld j "ks")) (fldInt j "x")
  | "seteach" => .setEach (jIntList (fld j "ks")) (jIntList (fld j "xs"))
  | "fill" => .fill (fldInt j "x")
  | "contains" => .contains (jIntList (fld j "ks"))
  | "count" => .count (jIntList (fld j "s"))
  | _ => .items

def obsJ : Obs → Json
  | .vals none => refuse
  | .vals (some l) => toJson l
  | .bools l => toJson l
  | .done b => toJson b
  | .pairs l => toJson (l.map (fun p => [p.1, p.2]))

/-- op `HT.run`: build a table and run a history on the model and on the dictionary -/
def run (j : Json) : Json :=
  let keys := jIntList (fld j "keys")
  let vals : Sum Int (List Int) := match fld j "vals" with
    | .arr a => .inr (a.toList.filterMap jInt?)
    | x => .inl ((jInt? x).getD 0)
  let mod := match fld j "mod" with
    | .null => defaultMod keys.length
    | m => (jNat? m).getD 1
  let ops := (jArr (fld j "ops")).map parseOp
  let args := stableArgsort (keys.map (hashOf mod))
  let d0 : Spec.Dict Int := match vals with
    | .inl s => keys.map (fun k => (k, s))
    | .inr vs => keys.zip vs
  let l : Json := match build keys vals mod args with
    | none => refuse
    | some t => Json.arr ((Model.HT.run t ops).map obsJ).toArray
  obj [("L", l), ("S", Json.arr ((Spec.Dict.run d0 ops).map obsJ).toArray)]

/-! ### extended histories: the whole-table functions (`likeWith`, `addNum`, `addTable`, `tableEq`) next to the
operations of `Model.HT.Op`; L = the table model, S = the dictionary -/

def pairsJ (l : List (Int × Int)) : Json := toJson ((sortPairs l).map (fun p => [p.1, p.2]))

structure XState where
  t : Table Int
  d : Spec.Dict Int

/-- one JSON operation on (table, dictionary): new state, L observation, S observation (`null` = not modelled) -/
def stepX (keys : List Int) (mod : Nat) (args : List Nat) (st : XState) (j : Json) : XState × Json × Json :=
  let t := st.t; let d := st.d
  let mk (vals : Sum Int (List Int)) : Option (Table Int) := build keys vals mod args
  match fldStr j "t" with
  | "zeros_like" => (st, pairsJ (items (likeWith t 0)), pairsJ (d.map (fun p => (p.1, 0))))
  | "ones_like" => (st, pairsJ (items (likeWith t 1)), pairsJ (d.map (fun p => (p.1, 1))))
  | "like_set" =>
      let c : Int := if fldStr j "like" == "zeros" then 0 else 1
      let ks := jIntList (fld j "ks"); let x := fldInt j "x"
      let l := match setVec (likeWith t c) ks (.inl x) with
        | some r => pairsJ (items r)
        | none => refuse
      let d0 : Spec.Dict Int := d.map (fun p => (p.1, c))
      let s := if ks.all (Spec.Dict.mem d0) then pairsJ (ks.foldl (fun (acc : Spec.Dict Int) k => Spec.Dict.assign acc k x) d0) else refuse
      (st, l, s)
  | "iadd_num" =>
      let x := fldInt j "x"
      (⟨addNum t x, d.map (fun p => (p.1, p.2 + x))⟩, toJson true, toJson true)
  | "iadd_table" =>
      let xs := jIntList (fld j "xs")
      let vals : Sum Int (List Int) := if (fld j "scalar").getBool?.toOption.getD false then .inl (xs.headD 0) else .inr xs
      let dv : List Int := match vals with | .inl s => keys.map (fun _ => s) | .inr vs => vs
      let d2 := keys.zip dv
      match mk vals with
      | none => (st, refuse, refuse)
      | some u => match addTable t u with
        | none => (st, refuse, pairsJ d2)
        | some r => (⟨r, d.map (fun p => (p.1, p.2 + ((Spec.Dict.lookup d2 p.1).getD 0)))⟩, pairsJ (items u), pairsJ d2)
  | "add_self" =>
      let l := match addTable t t with | some r => pairsJ (items r) | none => refuse
      (st, l, pairsJ (d.map (fun p => (p.1, p.2 + p.2))))
  | "eq_self" => (st, toJson (tableEq t t), toJson true)
  | "eq_other" =>
      let i := fldNat j "i"; let delta := fldInt j "delta"
      let cur := keys.map (fun k => (Spec.Dict.lookup d k).getD 0)
      let cur' := cur.set i ((cur.getD i 0) + delta)
      let l := match mk (.inr cur') with | some u => toJson (tableEq t u) | none => refuse
      (st, l, toJson (decide (delta = 0)))
  | "eq_big" =>
      match jInt? (fld j "base") with
      | none => (st, Json.null, Json.null)
      | some b =>
        let i := fldNat j "i"; let delta := fldInt j "delta"
        let v1 : List Int := (List.range keys.length).map (fun (n : Nat) => b + 3 * (n : Int))
        let v2 := v1.set i ((v1.getD i 0) + delta)
        let l := match mk (.inr v1), mk (.inr v2) with
          | some a, some c => toJson (tableEq a c)
          | _, _ => refuse
        (st, l, toJson (decide (delta = 0)))
  | "hs_contains1" =>
      let k := fldInt j "k"
      (st, toJson (findKey t k).isSome, toJson (Spec.Dict.mem d k))
  | "add_perm" => (st, Json.null, Json.null)
  | _ =>
      let op := parseOp j
      let r := Model.HT.step t op
      let r' := Spec.Dict.step d op
      (⟨r.1, r'.1⟩, obsJ r.2, obsJ r'.2)

/-- op `HT.runx`: like `HT.run`, with the whole-table functions -/
def runX (j : Json) : Json :=
  let keys := jIntList (fld j "keys")
  let vals : Sum Int (List Int) := match fld j "vals" with
    | .arr a => .inr (a.toList.filterMap jInt?)
    | x => .inl ((jInt? x).getD 0)
  let mod := match fld j "mod" with
    | .null => defaultMod keys.length
    | m => (jNat? m).getD 1
  let args := stableArgsort (keys.map (hashOf mod))
  let d0 : Spec.Dict Int := match vals with
    | .inl s => keys.map (fun k => (k, s))
    | .inr vs => keys.zip vs
  match build keys vals mod args with
  | none => obj [("L", refuse), ("S", refuse)]
  | some t =>
    let res := (jArr (fld j "ops")).foldl (fun (acc : XState × List Json × List Json) op =>
      let r := stepX keys mod args acc.1 op
      (r.1, acc.2.1 ++ [r.2.1], acc.2.2 ++ [r.2.2])) (⟨t, d0⟩, [], [])
    obj [("L", Json.arr res.2.1.toArray), ("S", Json.arr res.2.2.toArray)]

end Drv.HTd
