import Drv.Json
import NpsVerif.Model.RunLength
namespace Drv.RL
open Lean Drv Model Model.RLA

def neI (nan : Option Int) (x y : Int) : Bool := x != y || (some x == nan)
def eqI (nan : Option Int) (x y : Int) : Bool := x == y && !(some x == nan)

def rlaJ {α} [ToJson α] (r : RLA α) : Json :=
  obj [("events", toJson r.events), ("values", toJson r.values), ("valid", toJson r.validB),
       ("decoded", toJson r.decode), ("len", toJson r.len)]
def optRlaJ {α} [ToJson α] : Option (RLA α) → Json
  | none => refuse
  | some r => rlaJ r

/-- op `RL.encode`: from_array / to_array; values are natural-number bit patterns; `nan` = the
pattern that is unequal to itself -/
def encode (j : Json) : Json :=
  let a := jNatList (fld j "a")
  let nan := jOptInt (fld j "nan")
  let ne := fun (x y : Nat) => neI nan x y
  let r := fromArray ne a
  let sEvents := (List.range (a.length + 1)).filter (fun i =>
      i == 0 || i == a.length || (match a[i-1]?, a[i]? with | some x, some y => ne x y | _, _ => true))
  obj [("L", obj [("events", toJson r.events), ("values", toJson r.values), ("valid", toJson r.validB),
                  ("to_array", toJson r.toArray), ("len", toJson r.len)]),
       ("S", obj [("events", toJson sEvents), ("values", toJson (sEvents.dropLast.filterMap (a[·]?))),
                  ("valid", toJson true), ("to_array", toJson a), ("len", toJson a.length)])]

def optListJ (o : Option (List Int)) : Json := optJ o

/-- op `RL.index`: index the encoding of `a` -/
def index (j : Json) : Json :=
  let a := jIntList (fld j "a")
  let r := fromArray (fun x y => x != y) a
  let eq := fun (x y : Int) => x == y
  match fldStr j "kind" with
  | "int" =>
    let i := fldInt j "i"
    obj [("L", optJ (r.getPosition i)), ("S", optJ (Py.index a i))]
  | "list" =>
    let is := jIntList (fld j "is")
    obj [("L", optListJ (is.mapM r.getPosition)), ("S", optListJ (is.mapM (Py.index a)))]
  | "slice" =>
    let x := jOptInt (fld j "a0"); let y := jOptInt (fld j "b0"); let k := jOptInt (fld j "k")
    let s : Json := if k == some 0 then refuse else
      obj [("decoded", toJson (Py.slice a x y (k.getD 1))), ("valid", toJson true)]
    obj [("L", optRlaJ (r.getSlice eq x y k)), ("S", s)]
  | "windows" =>
    let ss := jNatList (fld j "ss"); let es := jNatList (fld j "es")
    let w := r.windows ss es
    obj [("L", toJson (w.map (fun p => (RLA.mk p.1 p.2).decode))),
         ("S", toJson (List.zipWith (fun s e => (a.drop s).take (e - s)) ss es))]
  | "mask" =>
    let bs := jBoolList (fld j "bs")
    -- "lv" present: the mask is `from_array(lv) > 0`, which keeps the run boundaries of `lv` (adjacent runs may be equal)
    let lv := jIntList (fld j "lv")
    let m := if lv.isEmpty then fromArray (fun x y => x != y) bs
      else ((fromArray (fun (x y : Int) => x != y) lv).mapValues (fun v => decide (v > 0))).getD (fromArray (fun x y => x != y) bs)
    obj [("L", optRlaJ (r.getitemBool m)),
         ("S", obj [("decoded", toJson ((a.zip bs).filterMap (fun p => if p.2 then some p.1 else none))), ("valid", toJson true)])]
  | _ => obj [("error", "bad kind")]

def fOf (name : String) : Int → Int → Int :=
  match name with
  | "add" => (· + ·)
  | "subtract" => (· - ·)
  | "multiply" => (· * ·)
  | "maximum" => max
  | "minimum" => min
  | "less" => fun x y => if x < y then 1 else 0
  | "equal" => fun x y => if x == y then 1 else 0
  | "not_equal" => fun x y => if x != y then 1 else 0
  | "bitwise_and" => fun x y => ((x.toNat &&& y.toNat : Nat) : Int)
  | "bitwise_or" => fun x y => ((x.toNat ||| y.toNat : Nat) : Int)
  | "bitwise_xor" => fun x y => ((x.toNat ^^^ y.toNat : Nat) : Int)
  | _ => fun x _ => x

/-- op `RL.binop`: ufunc of two encoded arrays (or an array and a scalar) -/
def binop (j : Json) : Json :=
  let a := jIntList (fld j "a")
  let f := fOf (fldStr j "f")
  let x := fromArray (fun p q => p != q) a
  let eq := fun (p q : Int) => p == q
  match fldStr j "kind" with
  | "arrays" =>
    let b := jIntList (fld j "b")
    let y := fromArray (fun p q => p != q) b
    let s : Json := if a.length != b.length then refuse else
      obj [("decoded", toJson (List.zipWith f a b)), ("valid", toJson true)]
    obj [("L", optRlaJ (RLA.binop f eq x y)), ("S", s)]
  | "scalar_right" =>
    let c := fldInt j "c"
    obj [("L", optRlaJ (x.mapValues (fun v => f v c))), ("S", obj [("decoded", toJson (a.map (fun v => f v c))), ("valid", toJson true)])]
  | "scalar_left" =>
    let c := fldInt j "c"
    obj [("L", optRlaJ (x.mapValues (fun v => f c v))), ("S", obj [("decoded", toJson (a.map (fun v => f c v))), ("valid", toJson true)])]
  | "sum" =>
    obj [("L", toJson x.sum), ("S", toJson a.sum)]
  | "hist" =>     -- np.histogram(rla, bins=3, range=(0, 3)) on values 0, 1, 2: one bin per value
    obj [("L", toJson ([0, 1, 2].map (fun (c : Int) => x.weightedCount (fun v => v == c)))),
         ("S", toJson ([0, 1, 2].map (fun (c : Int) => a.countP (fun v => v == c))))]
  | "concat" =>
    let parts := jIntRows (fld j "parts")
    let rs := parts.map (fromArray (fun p q => p != q))
    obj [("L", optRlaJ (RLA.concat rs)), ("S", obj [("decoded", toJson parts.flatten), ("valid", toJson true)])]
  | _ => obj [("error", "bad kind")]

end Drv.RL
