import Drv.Index
import NpsVerif.Model.DataClass
namespace Drv.DCd
open Lean Drv Model Model.DC

def parseTable (j : Json) : List (String × List (List Int)) :=
  (jArr j).map (fun c => (fldStr c "n", jIntRows (fld c "v")))

def tableJ (t : Table (List Int)) : Json :=
  obj [("entries", toJson (entries t)), ("len", toJson (len t)), ("names", toJson (t.cols.map (·.1)))]
def optT : Option (Table (List Int)) → Json
  | none => refuse
  | some t => tableJ t

/-- spec side: entries of raw columns (all equally long) -/
def rawEntries (cols : List (String × List (List Int))) : List (List (List Int)) :=
  let n := (cols.head?.map (·.2.length)).getD 0
  (List.range n).map (fun i => cols.filterMap (fun c => c.2[i]?))
def okCols (cols : List (String × List (List Int))) : Bool :=
  match cols with | [] => false | c :: rest => rest.all (fun d => d.2.length == c.2.length)

/-- op `DC.run`: cells are integer lists (a 1-D field's cell is a singleton) -/
def run (j : Json) : Json :=
  let cols := parseTable (fld j "cols")
  match fldStr j "f" with
  | "ctor" =>
    obj [("L", optT (mk? cols)),
         ("S", if okCols cols then obj [("entries", toJson (rawEntries cols)), ("len", toJson ((cols.head?.map (·.2.length)).getD 0)), ("names", toJson (cols.map (·.1)))] else refuse)]
  | "getitem" =>
    let sel := parseRowSel (fld j "sel")
    let l : Json := match mk? cols with
      | none => refuse
      | some t => match sel with
        | .int i => optJ (getitemInt t i)
        | _ => optT (getitem t sel)
    let s : Json := if !okCols cols then refuse else match sel with
      | .int i => optJ (Py.index (rawEntries cols) i)
      | _ => match Py.selectRows (rawEntries cols) sel with
        | none => refuse
        | some es => obj [("entries", toJson es), ("len", toJson es.length), ("names", toJson (cols.map (·.1)))]
    obj [("L", l), ("S", s)]
  | "iter" =>
    obj [("L", match mk? cols with | none => refuse | some t => optJ (iter t)), ("S", if okCols cols then toJson (rawEntries cols) else refuse)]
  | "concat" =>
    let tabs := (jArr (fld j "tables")).map parseTable
    let l : Json := match tabs.mapM mk? with
      | none => refuse
      | some ts => optT (concat ts)
    let s : Json := if tabs.all okCols && !tabs.isEmpty then
        obj [("entries", toJson (tabs.map rawEntries).flatten), ("len", toJson ((tabs.map rawEntries).flatten.length)),
             ("names", toJson ((tabs.head?.map (·.map (·.1))).getD []))] else refuse
    obj [("L", l), ("S", s)]
  | "astype" =>
    let names := (jArr (fld j "names")).filterMap (fun x => x.getStr?.toOption)
    let l : Json := match mk? cols with | none => refuse | some t => optT (astype t names)
    let s : Json := if okCols cols && names.all (fun n => cols.any (fun c => c.1 == n)) && !names.isEmpty then
        obj [("entries", toJson ((rawEntries cols).map (fun e => names.filterMap (fun n => (cols.findIdx? (fun c => c.1 == n)).bind (e[·]?))))),
             ("len", toJson ((cols.head?.map (·.2.length)).getD 0)), ("names", toJson names)] else refuse
    obj [("L", l), ("S", s)]
  | "eq" =>
    let cols2 := parseTable (fld j "cols2")
    let l : Json := match mk? cols, mk? cols2 with
      | some t, some u => toJson (DC.eq t u)
      | _, _ => refuse
    let s : Json := if okCols cols && okCols cols2 then toJson (decide (rawEntries cols = rawEntries cols2)) else refuse
    obj [("L", l), ("S", s)]
  | "varlen" =>
    let ms := (jArr (fld j "mats")).map (fun m => (jIntRows (fld m "rows"), fldNat m "w"))
    let w := ms.foldl (fun m p => max m p.2) 0
    obj [("L", toJson (varlenConcat ([] : List Int) (ms.map (fun p => (p.1.map (fun r => r.map (fun x => [x])), p.2))))),
         ("S", toJson ((ms.map (fun p => p.1.map (fun r => (List.replicate (w - p.2) ([] : List Int)) ++ r.map (fun x => [x])))).flatten))]
  | _ => obj [("error", "bad f")]
end Drv.DCd
