import Drv.Json
import NpsVerif.Model.BitArray
namespace Drv.C13
open Lean Drv Model.BitArray

/-- op `C13.all`: pack / unpack / getitem / list getitem / sliding windows of one array -/
def all (j : Json) : Json :=
  let a := jNatList (fld j "a")
  let b := fldNat j "b"
  let is := jNatList (fld j "is")
  let ws := jNatList (fld j "ws")
  let data := pack a b
  let st := stream b a
  let L := obj [("data", toJson data), ("unpack", toJson (unpack data b a.length)),
                ("getitem", toJson ((List.range a.length).map (fun i => (getitemK data b i).getD (2^64)))),
                ("getlist", optJ ((getitemList data b is).map (fun d => unpack d b is.length))),
                ("windows", toJson (ws.map (fun w => slidingWindow data b a.length w)))]
  let n := 64 / b
  let S := obj [("data", toJson ((List.range ((a.length + n - 1) / n)).map (fun r => (st >>> (64 * r)) % 2^64))),
                ("unpack", toJson a),
                ("getitem", toJson a),
                ("getlist", optJ (is.mapM (a[·]?))),
                ("windows", toJson (ws.map (fun w => (List.range (a.length - w + 1)).map (fun i => (st >>> (b * i)) % 2^(w*b)))))]
  obj [("L", L), ("S", S)]
end Drv.C13
