import Drv.Index
import NpsVerif.Model.SetItem
import NpsVerif.Model.Reduce
import NpsVerif.Model.ArgReduce
namespace Drv
open Lean Model

def parseValue (j : Json) : Value Nat :=
  match fldStr j "t" with
  | "scalar" => .scalar (fldNat j "v")
  | "flat" => .flat (jNatList (fld j "v"))
  | "column" => .column (jNatList (fld j "v"))
  | _ => .ragged (jNatRows (fld j "v"))

namespace C03
/-- op `C03.setitem`: cells and values are natural-number ids -/
def setitem (j : Json) : Json :=
  let rows := jNatRows (fld j "rows")
  let v := parseValue (fld j "val")
  match fld j "mask" with
  | .null =>
    let idx := parseIndex (fld j "idx")
    obj [("L", optJ ((Model.setitem (RA.ofRows rows) idx v).map RA.rows)), ("S", optJ (Py.setitem rows idx v))]
  | m =>
    let mask := jBoolRows m
    obj [("L", optJ ((Model.setitemMask (RA.ofRows rows) mask v).map RA.rows)), ("S", optJ (Py.setitemMask rows mask v))]
end C03

namespace C04
/-- op `C04.ufunc`: the result cell is the pair [left id, right id] -/
def ufunc (j : Json) : Json :=
  let rows := jNatRows (fld j "rows")
  let a := RA.ofRows rows
  let pair : Nat → Nat → List Nat := fun x y => [x, y]
  let side := fldStr j "side"          -- "right": ufunc(ra, x); "left": ufunc(x, ra)
  let kind := fldStr j "kind"
  match kind with
  | "unary" =>
    obj [("L", toJson (Model.ufunc1 (fun x => [x]) a).rows), ("S", toJson (rows.map (·.map (fun x => [x]))))]
  | "scalar" =>
    let s := fldNat j "s"
    let l := if side == "right" then (Model.ufuncRight pair a (.scalar s)).map RA.rows
             else (Model.ufuncLeft pair a (.scalar s)).map RA.rows
    obj [("L", optJ l), ("S", toJson (rows.map (·.map (fun x => if side == "right" then [x, s] else [s, x]))))]
  | "column" =>
    let col := jNatList (fld j "col")
    let l := if side == "right" then (Model.ufuncRight pair a (.column col)).map RA.rows
             else (Model.ufuncLeft pair a (.column col)).map RA.rows
    let s : Json :=
      if col.length == 1 then toJson (rows.map (·.map (fun x => if side == "right" then [x, col.headD 0] else [col.headD 0, x])))
      else if col.length != rows.length then refuse
      else toJson (List.zipWith (fun r c => r.map (fun x => if side == "right" then [x, c] else [c, x])) rows col)
    obj [("L", optJ l), ("S", s)]
  | _ =>
    let other := jNatRows (fld j "other")
    let l := (Model.ufuncRight pair a (.ragged (RA.ofRows other))).map RA.rows
    let s : Json := if other.map List.length != rows.map List.length then refuse
      else toJson (List.zipWith (fun r o => List.zipWith pair r o) rows other)
    obj [("L", optJ l), ("S", s)]
end C04

namespace C05
/-- op `C05.reduce`: `red` = identity on the list of cell ids of a segment -/
def reduce (j : Json) : Json :=
  let rows := jNatRows (fld j "rows")
  let a := RA.ofRows rows
  let hasId := (fld j "identity").getBool?.toOption.getD true
  let l := Model.reduceRows (fun seg => seg) (if hasId then some [] else none) [] a
  obj [("L", optJ l), ("S", toJson rows)]

/-- op `C05.argred`: argmax / argmin along rows on integer cell values; S = first position of the row's
extremum (0 for an empty row: unspecified, masked by the harness) -/
def argred (j : Json) : Json :=
  let rows := jIntRows (fld j "rows")
  let isMin := (fld j "min").getBool?.toOption.getD false
  let a := RA.ofRows rows
  let l := if isMin then Model.argminRows a else Model.argmaxRows a
  let s := rows.map (fun r => (r.findIdx? (fun x => x == (if isMin then Model.minOf r else Model.maxOf r))).getD 0)
  obj [("L", optJ l), ("S", toJson s)]
end C05
end Drv
