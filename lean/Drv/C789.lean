import Drv.Index
import NpsVerif.Model.Structural
import NpsVerif.Spec.Rows
namespace Drv
open Lean Model

def ixor (x y : Int) : Int := ((x.toNat ^^^ y.toNat : Nat) : Int)

namespace C07
def scan (j : Json) : Json :=
  let rows := jIntRows (fld j "rows")
  let a := RA.ofRows rows
  match fldStr j "f" with
  | "cumsum" => obj [("L", toJson (cumsumRows a).rows), ("S", toJson (rows.map Spec.prefixSums))]
  | "add" => obj [("L", toJson (rowAccumulate (· + ·) (· - ·) (· + ·) a).rows), ("S", toJson (rows.map (Spec.accumulate (· + ·))))]
  | "subtract" => obj [("L", toJson (rowAccumulate (· - ·) (· - ·) (· + ·) a).rows), ("S", toJson (rows.map (Spec.accumulate (· - ·))))]
  | "bitwise_xor" => obj [("L", toJson (rowAccumulate ixor ixor ixor a).rows), ("S", toJson (rows.map (Spec.accumulate ixor)))]
  | "sort" =>
    obj [("L", toJson (sortRows (fun (x y : Int) => decide (x ≤ y)) a).rows),
         ("S", toJson (rows.map (fun r => r.mergeSort (fun x y => decide (x ≤ y)))))]
  | "unique" =>
    let l := uniqueRows (fun (x y : Int) => decide (x ≤ y)) (fun x y => x != y) a
    let s := rows.map (fun r => Spec.dedupCounts (fun (x y : Int) => x != y) (r.mergeSort (fun x y => decide (x ≤ y))))
    obj [("L", match l with | none => refuse | some p => obj [("values", toJson p.1), ("counts", toJson p.2)]),
         ("S", obj [("values", toJson (s.map (·.map (·.1)))), ("counts", toJson (s.map (·.map (·.2))))])]
  | "diff" =>
    let n := fldNat j "n"
    obj [("L", optJ (diffRows n a)), ("S", toJson (rows.map (Spec.diffN n)))]
  | _ => obj [("error", "bad f")]
end C07

namespace C08
def optRows {α} [ToJson α] (o : Option (RA α)) : Json := optJ (o.map RA.rows)

def struct (j : Json) : Json :=
  match fldStr j "f" with
  | "concat_rows" =>
    let arrs := (jArr (fld j "arrays")).map jIntRows
    obj [("L", optRows (concatRows (arrs.map RA.ofRows))), ("S", if arrs.isEmpty then refuse else toJson arrs.flatten)]
  | "concat_cols" =>
    let arrs := (jArr (fld j "arrays")).map jIntRows
    let n := (arrs.map List.length).foldl min ((arrs.head?.map List.length).getD 0)
    obj [("L", optRows (concatCols (arrs.map RA.ofRows))),
         ("S", if arrs.isEmpty then refuse else toJson ((List.range n).map (fun i => (arrs.map (fun a => a.getD i [])).flatten)))]
  | "like" =>
    let rows := jIntRows (fld j "rows")
    let c := fldInt j "c"
    obj [("L", toJson (fullLike (RA.ofRows rows) c).rows), ("S", toJson (rows.map (·.map (fun _ => c))))]
  | "nonzero" =>
    let rows := jBoolRows (fld j "rows")
    let s := Spec.nonzeroCoords rows
    obj [("L", match nonzero (RA.ofRows rows) with | none => refuse | some p => toJson [p.1, p.2]),
         ("S", toJson [s.map (·.1), s.map (·.2)])]
  | "where" =>
    let mask := jBoolRows (fld j "mask")
    let x := jIntRows (fld j "x")
    let isCol := (fld j "column").getBool?.toOption.getD false
    let y : Sum (RA Int) Int := match fld j "y" with
      | .arr _ => .inl (RA.ofRows (jIntRows (fld j "y")))
      | v => .inr ((jInt? v).getD 0)
    let l := if isCol then whereRows ⟨mask.flatten, Shape.ofLens (mask.map List.length)⟩ true (RA.ofRows x) y
             else whereRows (RA.ofRows mask) false (RA.ofRows x) y
    let m2 : List (List Bool) := if isCol then List.zipWith (fun r (b : List Bool) => r.map (fun _ => b.headD false)) x mask else mask
    let yr : List (List Int) := match y with | .inl ya => ya.rows | .inr c => x.map (·.map (fun _ => c))
    let s : Json := if m2.map List.length == x.map List.length && yr.map List.length == x.map List.length
      then toJson (List.zipWith (fun (mr : List Bool) (xy : List Int × List Int) =>
             (mr.zip (xy.1.zip xy.2)).map (fun t => if t.1 then t.2.1 else t.2.2)) m2 (x.zip yr))
      else refuse
    obj [("L", optRows l), ("S", s)]
  | "subset" =>
    let rows := jIntRows (fld j "rows"); let mask := jBoolRows (fld j "mask")
    obj [("L", optRows (subset (RA.ofRows rows) (RA.ofRows mask))),
         ("S", toJson (List.zipWith (fun (r : List Int) (m : List Bool) => (r.zip m).filterMap (fun p => if p.2 then some p.1 else none)) rows mask))]
  | "mask_index" =>
    let rows := jIntRows (fld j "rows"); let mask := jBoolRows (fld j "mask")
    obj [("L", optJ (maskIndex (RA.ofRows rows) (RA.ofRows mask))),
         ("S", toJson ((rows.flatten.zip mask.flatten).filterMap (fun p => if p.2 then some p.1 else none)))]
  | "ragged_slice" =>
    let rows := jIntRows (fld j "rows")
    let ss := match fld j "starts" with | .null => none | v => some (jIntList v)
    let es := match fld j "ends" with | .null => none | v => some (jIntList v)
    let n := rows.length
    let sAt (i : Nat) : Option Int := ss.map (fun l => l.getD i 0)
    let eAt (i : Nat) : Option Int := es.map (fun l => l.getD i 0)
    obj [("L", optJ (raggedSlice (RA.ofRows rows) ss es)),
         ("S", toJson (((List.range n).zip rows).map (fun ir => Spec.window ir.2 (sAt ir.1) (eAt ir.1))))]
  | "ragged_slice_1d" =>
    let a := jIntList (fld j "a"); let ss := jIntList (fld j "starts"); let es := jIntList (fld j "ends")
    obj [("L", optJ (raggedSlice1d a ss es)),
         ("S", toJson ((ss.zip es).map (fun se => Spec.window a (some se.1) (some se.2))))]
  | "ragged_slice_2d" =>
    let rows := jIntRows (fld j "rows"); let ss := jIntList (fld j "starts"); let es := jIntList (fld j "ends")
    obj [("L", optJ (raggedSlice2d rows (fldNat j "c") ss es)),
         ("S", toJson (List.zipWith (fun (r : List Int) (se : Int × Int) => Spec.window r (some se.1) (some se.2)) rows (ss.zip es)))]
  | "padded" =>
    let rows := jIntRows (fld j "rows")
    let fill := fldInt j "fill"
    let right := fldStr j "side" != "left"
    let w := (rows.map List.length).foldl max 0
    obj [("L", optJ (paddedMatrix (RA.ofRows rows) fill right)), ("S", toJson (rows.map (Spec.padRow w fill right)))]
  | _ => obj [("error", "bad f")]
end C08

namespace C09
def cols (j : Json) : Json :=
  let rows := jIntRows (fld j "rows")
  let a := RA.ofRows rows
  match fldStr j "f" with
  | "sum" => obj [("L", optJ (colSum a)), ("S", toJson (Spec.colSum rows))]
  | "counts" => obj [("L", toJson (colCounts a)), ("S", toJson (Spec.colCounts rows))]
  | "column" =>
    let c := fldNat j "j"
    obj [("L", resJ (columnValues a c)),
         ("S", if rows.any (fun r => decide (r.length > c)) || true then obj [("t", "vec"), ("v", toJson (rows.filterMap (·[c]?)))] else refuse)]
  | _ => obj [("error", "bad f")]
end C09
end Drv
