import Drv.Index
import NpsVerif.Model.RunLength2d
import NpsVerif.Model.RunLength2dArg
import NpsVerif.Model.RunLength2dAny
import NpsVerif.Spec.Rows
namespace Drv.RL2d
open Lean Drv Model Model.RL2

def neI (x y : Int) : Bool := x != y

def mk (j : Json) : RL2 Int × List (List Int) :=
  match fldStr j "kind" with
  | "matrix" =>
    let m := jIntRows (fld j "rows")
    (fromMatrix neI m (fldNat j "ncols"), m)
  | "intervals" =>
    let ivs := (jArr (fld j "ivs")).map (fun p => let l := jNatList p; (l.getD 0 0, l.getD 1 0))
    let L := fldNat j "L"
    (fromIntervals 0 1 ivs L, ivs.map (fun se => (List.range L).map (fun (c : Nat) => if se.1 ≤ c ∧ c < se.2 then (1 : Int) else 0)))
  | _ =>
    let rows := jIntRows (fld j "rows")
    (fromRagged neI rows, rows)

def optRowsJ (o : Option (List (List Int))) : Json := optJ o
def rlaDec (o : Option (RLA Int)) : Json := optJ (o.map RLA.decode)

/-- op `RL2.run`: build a 2-D / ragged run-length array and apply one operation -/
def run (j : Json) : Json :=
  let (r, dense) := mk j
  let lockstep : Bool := (r.indices.zip r.values).all (fun iv =>
      match r.rowLen with
      | some _ => iv.1.length == iv.2.length
      | none => iv.1.length == iv.2.length + 1)
  match fldStr j "f" with
  | "to_array" =>
    obj [("L", obj [("rows", optRowsJ r.toRows), ("len", toJson r.len), ("lockstep", toJson lockstep)]),
         ("S", obj [("rows", toJson dense), ("len", toJson dense.length), ("lockstep", toJson true)])]
  | "rows" =>
    let sel := parseRowSel (fld j "sel")
    obj [("L", optRowsJ ((r.selectRows sel).bind RL2.toRows)), ("S", optRowsJ (Py.selectRows dense sel))]
  | "row_int" =>
    let i := fldInt j "i"
    obj [("L", optJ ((Np.normIdx r.len i).bind (fun i' => (r.row i').map RLA.decode))), ("S", optJ (Py.index dense i))]
  | "element" =>
    let i := fldInt j "i"; let c := fldInt j "j"
    obj [("L", optJ (r.element i c)), ("S", optJ ((Py.index dense i).bind (fun row => Py.index row c)))]
  | "col_int" =>
    let c := fldInt j "j"
    obj [("L", toJson (r.columnInt c)), ("S", optJ (dense.mapM (fun row => Py.index row c)))]
  | "col_range" =>
    let sel := parseRowSel (fld j "rsel")
    let a := jOptInt (fld j "a"); let b := jOptInt (fld j "b"); let st := (jOptInt (fld j "s")).getD 1
    obj [("L", optRowsJ ((r.colRange sel a b st).bind RL2.toRows)),
         ("S", optRowsJ ((Py.selectRows dense sel).map (fun rows => rows.map (fun row => Py.slice row a b st))))]
  | "sum" => obj [("L", toJson r.rowSums), ("S", toJson (dense.map List.sum))]
  | "max" => obj [("L", toJson (r.rowReduce (fun l => l.foldl max (l.headD 0)))), ("S", toJson (dense.map (fun l => l.foldl max (l.headD 0))))]
  | "any" => obj [("L", toJson (r.rowReduce (fun l => l.any (· != 0)))), ("S", toJson (dense.map (fun l => l.any (· != 0))))]
  | "all" => obj [("L", toJson (r.rowReduce (fun l => l.all (· != 0)))), ("S", toJson (dense.map (fun l => l.all (· != 0))))]
  | "argmax" =>
    obj [("L", optJ r.argmax),
         ("S", toJson (dense.map (fun row => (row.findIdx? (fun x => x == Model.maxOf row)).getD 0)))]
  | "col_any" =>    -- the model works on boolean run values (the implementation's astype(bool))
    let thr := fldInt j "thr"     -- the harness calls (rl > thr).any(axis=0): same run boundaries, boolean values
    let rb : RL2 Bool := ⟨r.indices, r.values.map (·.map (fun v => decide (v > thr))), r.rowLen⟩
    let ncols := (dense.head?.map List.length).getD (r.rowLen.getD 0)
    obj [("L", optJ (rb.colAny.map RLA.decode)),
         ("S", toJson ((List.range ncols).map (fun c => dense.any (fun row => decide ((row[c]?.getD 0) > thr)))))]
  | "col_sum" => obj [("L", rlaDec r.colSum), ("S", toJson (Spec.colSum dense))]
  | "col_counts" => obj [("L", rlaDec r.colCounts), ("S", toJson (Spec.colCounts dense))]
  | "ravel" => obj [("L", rlaDec r.ravel), ("S", toJson dense.flatten)]
  | "concat" => obj [("L", optRowsJ (RL2.concat [r, r]).toRows), ("S", toJson (dense ++ dense))]
  | "unary" => obj [("L", optRowsJ (r.mapValues (fun _ v => -v)).toRows), ("S", toJson (dense.map (·.map (fun v => -v))))]
  | "scalar" =>
    let c := fldInt j "c"; let left := fldStr j "side" == "left"
    let g : Int → Int := fun v => if left then c - v else v - c
    obj [("L", optRowsJ (r.mapValues (fun _ v => g v)).toRows), ("S", toJson (dense.map (·.map g)))]
  | "column" =>
    let col := jIntList (fld j "col"); let left := fldStr j "side" == "left"
    let g : Nat → Int → Int := fun i v => if left then col.getD i 0 - v else v - col.getD i 0
    obj [("L", optRowsJ (r.mapValues g).toRows),
         ("S", toJson (((List.range dense.length).zip dense).map (fun ir => ir.2.map (g ir.1))))]
  | _ => obj [("error", "bad f")]
end Drv.RL2d
