/-!
# N layer: a small executable model of the numpy primitives npstructures relies on

Arrays are `List`s.  Every definition here is total and computable; reads outside a buffer are
`none` (a refusal), never a default value.  The definitions are validated against numpy itself by
`tools/nlayer_validate.py` (differential, exhaustive small scope + random) — they are part of the
trusted base, not proved.
-/
namespace Np

/-- `np.cumsum` with an explicit accumulator (inclusive prefix sums). -/
def cumsumFrom (acc : Int) : List Int → List Int
  | [] => []
  | x :: xs => (acc + x) :: cumsumFrom (acc + x) xs

/-- `np.cumsum` on integers. -/
def cumsum (l : List Int) : List Int := cumsumFrom 0 l

/-- `np.cumsum` on naturals (row lengths). -/
def cumsumNatFrom (acc : Nat) : List Nat → List Nat
  | [] => []
  | x :: xs => (acc + x) :: cumsumNatFrom (acc + x) xs

def cumsumNat (l : List Nat) : List Nat := cumsumNatFrom 0 l

/-- exclusive prefix sums: `[0, l0, l0+l1, …]` (same length as the input). -/
def exclScanFrom (acc : Nat) : List Nat → List Nat
  | [] => []
  | x :: xs => acc :: exclScanFrom (acc + x) xs

def exclScan (l : List Nat) : List Nat := exclScanFrom 0 l

/-- numpy's index rule for one integer index into an axis of length `n`:
valid iff `-n ≤ i < n`; negative indices address `n + i`. -/
def normIdx (n : Nat) (i : Int) : Option Nat :=
  if 0 ≤ i then (if i < (n : Int) then some i.toNat else none)
  else (if -(n : Int) ≤ i then some ((n : Int) + i).toNat else none)

/-- `a[i]` for an integer `i` (numpy/Python semantics, refusal outside `[-n, n)`). -/
def getIdx {α} (a : List α) (i : Int) : Option α :=
  (normIdx a.length i).bind (a[·]?)

/-- `a[idx]` for an integer index array (fancy indexing, negative wrap, refusal). -/
def gather {α} (a : List α) (idx : List Int) : Option (List α) :=
  idx.mapM (getIdx a)

/-- gather with natural indices. -/
def gatherNat {α} (a : List α) (idx : List Nat) : Option (List α) :=
  idx.mapM (a[·]?)

/-- `a[idx] = vals` (sequential, last write wins), natural targets. Out-of-range writes are
ignored by `List.set`; callers that must refuse check bounds explicitly. -/
def scatterSet {α} (a : List α) : List (Nat × α) → List α
  | [] => a
  | (i, v) :: ws => scatterSet (a.set i v) ws

/-- `np.flatnonzero` of a boolean array. -/
def flatnonzeroFrom (i : Nat) : List Bool → List Nat
  | [] => []
  | b :: bs => if b then i :: flatnonzeroFrom (i + 1) bs else flatnonzeroFrom (i + 1) bs

def flatnonzero (m : List Bool) : List Nat := flatnonzeroFrom 0 m

/-- `np.searchsorted(a, v, side="right")` for a sorted `a`: number of entries `≤ v`. -/
def searchsortedRight (a : List Int) (v : Int) : Nat := a.countP (· ≤ v)

/-- `np.searchsorted(a, v, side="left")` for a sorted `a`: number of entries `< v`. -/
def searchsortedLeft (a : List Int) (v : Int) : Nat := a.countP (· < v)

def searchsortedRightNat (a : List Nat) (v : Nat) : Nat := a.countP (· ≤ v)
def searchsortedLeftNat (a : List Nat) (v : Nat) : Nat := a.countP (· < v)

/-- `np.bincount(xs, minlength=m)`. -/
def bincount (xs : List Nat) (m : Nat) : List Nat :=
  let n := max m (xs.foldl (fun a x => max a (x + 1)) 0)
  (List.range n).map (fun k => xs.count k)

/-- `np.repeat(vals, counts)`. -/
def repeatEach {α} : List α → List Nat → List α
  | v :: vs, c :: cs => List.replicate c v ++ repeatEach vs cs
  | _, _ => []

/-- `a[start:stop]` for naturals already clamped (Python basic slice with unit step). -/
def sliceNat {α} (a : List α) (s e : Nat) : List α := (a.drop s).take (e - s)

/-- `np.diff` on integers. -/
def diff : List Int → List Int
  | x :: y :: rest => (y - x) :: diff (y :: rest)
  | _ => []

end Np
