import NpsVerif.Model.Index
import NpsVerif.Model.Ufunc
/-!
# L layer: assignment `ra[index] = value` (property C03)

Transliteration of `IndexableArray.__setitem__` and `RaggedBase._set_data_range`: resolve the index
exactly as for reading (same geometry operations, same generated kernels) into flat buffer
positions, bring the value into flat form according to its kind, scatter.
-/
namespace Model

/-- the flat positions an index expression addresses, plus the row lengths of the selection when
the code keeps a shape for it (`None` for 1-D selections) -/
def flatIndex (codes : List (Nat × Nat)) : Index → Option (List Int × Option (List Nat))
  | .rows (.int i) =>
      (Np.getIdx codes i).map (fun c => ((List.range c.2).map (fun k => ((c.1 + k : Nat) : Int)), none))
  | .rows sel =>
      (indexRows codes sel).map (fun cs => (viewFlatIndices cs, some (cs.map (·.2))))
  | .rowcol (.int i) (.int j) => (getElement codes [(i, j)]).map (fun l => (l, none))
  | .rowcol (.list is) (.int j) => (getElement codes (is.map (fun i => (i, j)))).map (fun l => (l, none))
  | .rowcol sel (.int j) =>
      (indexRows codes sel).bind (fun cs => (colSliceInt (viewRows cs) j).map (fun rows => (view2FlatIndices rows, none)))
  | .rowcol (.int i) (.slice x y k) =>
      (indexRows codes (.int i)).bind (fun cs =>
        (colSliceSlice (viewRows cs) x y k).map (fun rows => (view2FlatIndices rows, none)))
  | .rowcol sel (.slice x y k) =>
      (indexRows codes sel).bind (fun cs =>
        (colSliceSlice (viewRows cs) x y k).map (fun rows => (view2FlatIndices rows, some (rows.map (·.2.1.toNat)))))

/-- kinds of assigned values -/
inductive Value (α : Type) where
  | scalar (x : α)
  | flat (vs : List α)                   -- 1-D array / list
  | column (vs : List α)                 -- (n, 1) array, by its entries
  | ragged (rows : List (List α))        -- RaggedArray
  deriving Repr

/-- numpy `a[idx] = vals` for an index array of `n` positions: sizes must agree, or `vals` has a
single element (broadcast) -/
def assignVals {α : Type} (n : Nat) (vals : List α) : Option (List α) :=
  if vals.length = n then some vals
  else match vals with
    | [v] => some (List.replicate n v)
    | _ => none

/-- scatter with numpy index semantics (`IndexError` outside `[-len, len)`) -/
def scatterInt {α : Type} (data : List α) (ws : List (Int × α)) : Option (List α) :=
  (ws.mapM (fun w => (Np.normIdx data.length w.1).map (fun i => (i, w.2)))).map (Np.scatterSet data)

def setitem {α : Type} [XorLike α] (a : RA α) (idx : Index) (v : Value α) : Option (RA α) :=
  (flatIndex a.shape.codes idx).bind (fun fs =>
    let n := fs.1.length
    let vals : Option (List α) :=
      match fs.2, v with
      | _, .scalar x => some (List.replicate n x)
      | _, .flat vs => assignVals n vs
      | some lens, .column vs => (broadcastValues (Shape.ofLens lens) vs).bind (assignVals n)
      | some lens, .ragged rows =>
          if Shape.ofLens (rows.map List.length) = Shape.ofLens lens then assignVals n rows.flatten else none
      | none, .column vs => assignVals n vs          -- a 2-D (k,1) value on a 1-D selection: numpy's own broadcasting
      | none, .ragged _ => none
    vals.bind (fun vals => (scatterInt a.data (fs.1.zip vals)).map (fun d => ⟨d, a.shape⟩)))

/-- `ra[ragged_bool_mask] = value`: positions of the true cells in row-major order -/
def setitemMask {α : Type} (a : RA α) (mask : List (List Bool)) (v : Value α) : Option (RA α) :=
  let pos := Np.flatnonzero mask.flatten
  let vals : Option (List α) := match v with
    | .scalar x => some (List.replicate pos.length x)
    | .flat vs => assignVals pos.length vs
    | _ => none
  vals.bind (fun vals =>
    if pos.any (fun p => decide (a.data.length ≤ p)) then none
    else some ⟨Np.scatterSet a.data (pos.zip vals), a.shape⟩)

end Model

/-! ## S layer -/
namespace Py
open Model

/-- the (row, column) coordinates of every cell -/
def coords {α} (rows : List (List α)) : List (List (Nat × Nat)) :=
  (List.range rows.length).zip rows |>.map (fun rl => (List.range rl.2.length).map (fun c => (rl.1, c)))

def resCells {β} : Res β → List β
  | .scalar x => [x]
  | .vec xs => xs
  | .ragged rs => rs.flatten

/-- write one cell -/
def setCell {α} (rows : List (List α)) (rc : Nat × Nat) (v : α) : List (List α) :=
  rows.modify rc.1 (fun r => r.set rc.2 v)

/-- `rows[idx] = value` on the plain list of rows: the cells `idx` addresses (as for reading), in
order, receive the values; refused when the index is, or when the value does not fit -/
def setitem {α} (rows : List (List α)) (idx : Index) (v : Value α) : Option (List (List α)) :=
  (Py.getitem (coords rows) idx).bind (fun sel =>
    let cells := resCells sel
    let n := cells.length
    let vals : Option (List α) :=
      match sel, v with
      | _, .scalar x => some (List.replicate n x)
      | _, .flat vs => assignVals n vs
      | .ragged rs, .column vs =>
          (match vs with
           | [x] => some (List.replicate n x)
           | _ => if vs.length ≠ rs.length then none
                  else some (List.zipWith (fun (r : List (Nat × Nat)) x => List.replicate r.length x) rs vs).flatten)
      | .ragged rs, .ragged vrows =>
          if vrows.map List.length = rs.map List.length then some vrows.flatten else none
      | _, .column vs => assignVals n vs
      | _, .ragged _ => none
    vals.map (fun vals => (cells.zip vals).foldl (fun acc cv => setCell acc cv.1 cv.2) rows))

/-- boolean ragged mask assignment -/
def setitemMask {α} (rows : List (List α)) (mask : List (List Bool)) (v : Value α) : Option (List (List α)) :=
  if mask.map List.length ≠ rows.map List.length then none else
  let cells := ((coords rows).flatten.zip mask.flatten).filterMap (fun cb => if cb.2 then some cb.1 else none)
  let vals : Option (List α) := match v with
    | .scalar x => some (List.replicate cells.length x)
    | .flat vs => assignVals cells.length vs
    | _ => none
  vals.map (fun vals => (cells.zip vals).foldl (fun acc cv => setCell acc cv.1 cv.2) rows)

end Py
