import NpsVerif.Model.Index
/-!
# L layer: `npdataclasses.py` (property C18)

An npdataclass object is a list of named columns (numpy arrays, 1-D or 2-D: a cell is a value or a
row); every operation is applied column by column.  The specification reads the object as a list
of ENTRIES (records): entry i = the i-th cell of every column.
-/
namespace Model.DC
variable {α : Type}

structure Table (α : Type) where
  cols : List (String × List α)
  deriving Repr

/-- `FinalClass.__init__` → `_assert_same_lens`: at least one field, all as long as the first -/
def mk? (cols : List (String × List α)) : Option (Table α) :=
  match cols with
  | [] => none
  | c :: rest => if rest.all (fun d => d.2.length == c.2.length) then some ⟨cols⟩ else none

/-- `__len__`: length of the first field -/
def len (t : Table α) : Nat := (t.cols.head?.map (·.2.length)).getD 0

/-- numpy indexing of one column by a non-integer selector (same semantics as indexing rows) -/
def selCol (c : List α) (sel : RowSel) : Option (List α) :=
  match sel with
  | .int _ => none
  | .slice a b k => sliceList c a b k
  | .list is => Np.gather c is
  | .mask bs => if bs.length = c.length then
        some ((c.zip bs).filterMap (fun cb => if cb.2 then some cb.1 else none)) else none
  | .all => some c

/-- `obj[idx]` for a slice / list / mask: every field indexed with the same selector, then the
constructor (with its equal-length assertion) -/
def getitem (t : Table α) (sel : RowSel) : Option (Table α) :=
  (t.cols.mapM (fun c => (selCol c.2 sel).map (fun v => (c.1, v)))).bind mk?

/-- `obj[i]` for an integer: the `single_entry` record -/
def getitemInt (t : Table α) (i : Int) : Option (List α) := t.cols.mapM (fun c => Np.getIdx c.2 i)

/-- `__iter__`: `(self[i] for i in range(len(self)))` -/
def iter (t : Table α) : Option (List (List α)) := (List.range (len t)).mapM (fun (i : Nat) => getitemInt t (i : Int))

/-- `np.concatenate([objs])`: column-wise over `zip(*tuples)` (stops at the fewest fields), then the
constructor; the class (field names) of the first object -/
def concat (ts : List (Table α)) : Option (Table α) :=
  match ts with
  | [] => none
  | t :: _ =>
    let nf := ts.foldl (fun m u => min m u.cols.length) t.cols.length
    mk? ((List.range nf).filterMap (fun j =>
      (t.cols[j]?).map (fun c => (c.1, (ts.map (fun u => ((u.cols[j]?).map (·.2)).getD [])).flatten))))

/-- `__eq__`: field by field, shape then cells -/
def eq [DecidableEq α] (t u : Table α) : Bool :=
  (t.cols.zip u.cols).all (fun p => decide (p.1.2 = p.2.2))

/-- `astype(new_class)`: the new class's fields must all exist here; projection in the new order -/
def astype (t : Table α) (names : List String) : Option (Table α) :=
  (names.mapM (fun n => (t.cols.find? (fun c => c.1 == n)))).bind mk?

/-- `VarLenArray` concatenate: equal widths → plain concatenation; otherwise every block is written
right-aligned into a zero matrix of the maximal width -/
def varlenConcat (zero : α) (ms : List (List (List α) × Nat)) : List (List α) :=
  let w := ms.foldl (fun m p => max m p.2) 0
  if ms.all (fun p => p.2 == w) then (ms.map (·.1)).flatten
  else (ms.map (fun p => p.1.map (fun r => List.replicate (w - p.2) zero ++ r))).flatten

/-- S: the entries (records) of a table -/
def entries (t : Table α) : List (List α) :=
  (List.range (len t)).map (fun i => t.cols.filterMap (fun c => c.2[i]?))

end Model.DC
