import NpsVerif.Model.RunLength
/-!
`XorLike Int`: integers as bit patterns through the zig-zag bijection `Int ≃ Nat`
(what `.view(uintN)` provides for a fixed-width signed dtype: some bijection onto bit patterns on
which XOR has the group laws).  Needed wherever the column broadcast (C04) is applied to integer data.
-/
namespace Model

def zigzag (z : Int) : Nat := if 0 ≤ z then 2 * z.toNat else 2 * (-z - 1).toNat + 1
def unzigzag (n : Nat) : Int := if n % 2 = 0 then ((n / 2 : Nat) : Int) else -((n / 2 : Nat) : Int) - 1

theorem unzigzag_zigzag (z : Int) : unzigzag (zigzag z) = z := by
  unfold zigzag unzigzag
  split <;> split <;> omega

theorem zigzag_unzigzag (n : Nat) : zigzag (unzigzag n) = n := by
  unfold zigzag unzigzag
  split <;> split <;> omega

instance : XorLike Int where
  xor a b := unzigzag (zigzag a ^^^ zigzag b)
  zero := 0
  xor_self a := by simp [Nat.xor_self, unzigzag]
  xor_zero a := by
    show unzigzag (zigzag a ^^^ zigzag 0) = a
    have : zigzag 0 = 0 := by decide
    rw [this, Nat.xor_zero, unzigzag_zigzag]
  zero_xor a := by
    show unzigzag (zigzag 0 ^^^ zigzag a) = a
    have : zigzag 0 = 0 := by decide
    rw [this, Nat.zero_xor, unzigzag_zigzag]
  xor_assoc a b c := by
    show unzigzag (zigzag (unzigzag (zigzag a ^^^ zigzag b)) ^^^ zigzag c) =
         unzigzag (zigzag a ^^^ zigzag (unzigzag (zigzag b ^^^ zigzag c)))
    rw [zigzag_unzigzag, zigzag_unzigzag, Nat.xor_assoc]
  xor_comm a b := by
    show unzigzag (zigzag a ^^^ zigzag b) = unzigzag (zigzag b ^^^ zigzag a)
    rw [Nat.xor_comm]

end Model
