import NpsVerif.Model.RunLength2d
import NpsVerif.Model.ArgReduce
/-!
# L layer: `RunLengthRaggedArray.max / argmax` (property C17)

`max(axis=-1)` is the row maximum of the ragged array of run values; `argmax` finds, per row, the first
run holding that maximum (`np.nonzero(values == max)`, first hit per row by `np.unique(return_index)`),
and returns the boundary at which that run starts.
-/
namespace Model
namespace RL2

/-- `argmax(axis=-1)` of the ragged variant -/
def argmax (r : RL2 Int) : Option (List Nat) :=
  (argmaxRows (RA.ofRows r.values)).bind (fun cols =>
    (r.indices.zip cols).mapM (fun ic => ic.1[ic.2]?))

end RL2
end Model
