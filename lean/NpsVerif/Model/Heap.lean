import NpsVerif.Model.SetItem
import NpsVerif.Model.XorInt
import NpsVerif.Model.Structural
import NpsVerif.Spec.Rows
/-!
# L layer: straight-line programs over the RaggedArray API (properties C06, C10)

State of the implementation: a heap of flat buffers; every array object is (buffer id, shape).
A selection `x[idx]` allocates a NEW buffer for its result (`_change_view` materialises the lazy view
at once — commit "fix: selections own their data …"); `x[...]` / `x[()]` create a new object over
the SAME buffer (numpy basic slice of the data), i.e. an alias; every other operation (ufunc,
concatenate, sort, cumsum, diff, unique) returns a fresh array; assignment writes into the buffer, so every
alias sees it.

Reference semantics (S): every array variable denotes a cell of a store of plain lists of rows;
aliases share the cell.  `poke` is a write to one cell of the flat view (`x.ravel()[k] = v`, or the same
write through the numpy array the RaggedArray was constructed over -- the constructor does not copy).
-/
namespace Model.Heap

/-- statements; variables are numbered in creation order (`x0, x1, …`) -/
inductive Stmt where
  | new (rows : List (List Int))                       -- xk = RaggedArray(rows)
  | select (src : Nat) (idx : Index)                   -- xk = x_src[idx]            (ragged result)
  | alias (src : Nat)                                  -- xk = x_src[...]
  | addScalar (src : Nat) (c : Int)                    -- xk = x_src + c
  | addArrays (s1 s2 : Nat)                            -- xk = x_s1 + x_s2
  | concat (s1 s2 : Nat)                               -- xk = np.concatenate([x_s1, x_s2])
  | sort (src : Nat)                                   -- xk = x_src.sort(axis=-1)
  | cumsum (src : Nat)                                 -- xk = np.cumsum(x_src, axis=-1)
  | diff (src : Nat)                                   -- xk = np.diff(x_src, axis=-1)
  | unique (src : Nat)                                 -- xk = np.unique(x_src, axis=-1)
  | assign (dst : Nat) (idx : Index) (v : Value Int)   -- x_dst[idx] = v
  | read (src : Nat)                                   -- observe x_src.tolist()
  | readIdx (src : Nat) (idx : Index)                  -- observe x_src[idx]
  | readSum (src : Nat)                                -- observe x_src.sum(axis=-1)
  | poke (dst : Nat) (k : Nat) (v : Int)               -- x_dst.ravel()[k] = v, or the same write through the
                                                       -- numpy array x_dst was constructed over
  deriving Repr

inductive Obs where
  | made (ok : Bool)                                   -- a statement that creates / assigns: accepted?
  | rows (r : Option (List (List Int)))
  | res (r : Option (Res Int))
  | sums (r : Option (List Int))
  deriving Repr, DecidableEq

/-- is the statement a pure read (C10)? -/
def Stmt.isRead : Stmt → Bool
  | .read _ | .readIdx _ _ | .readSum _ => true
  | _ => false

/-! ### L: heap of flat buffers -/
structure State where
  bufs : List (List Int)
  vars : List (Option (Nat × Shape))    -- (buffer id, shape) of x0, x1, …; `none` = the statement that
                                        -- should have created the variable was refused

def State.var (s : State) (x : Nat) : Option (Nat × Shape) := (s.vars[x]?).bind id

def State.arr (s : State) (x : Nat) : Option (RA Int) :=
  (s.var x).bind (fun bv => (s.bufs[bv.1]?).map (fun d => ⟨d, bv.2⟩))

/-- allocate a fresh array -/
def State.alloc (s : State) (a : RA Int) : State :=
  { bufs := s.bufs ++ [a.data], vars := s.vars ++ [some (s.bufs.length, a.shape)] }

def stepNew (s : State) (o : Option (RA Int)) : State × Obs :=
  match o with
  | some a => (s.alloc a, .made true)
  | none => ({ s with vars := s.vars ++ [none] }, .made false)

def step (s : State) : Stmt → State × Obs
  | .new rows => stepNew s (some (RA.ofRows rows))
  | .select x idx => stepNew s ((s.arr x).bind (fun a =>
      match getitem a idx with
      | some (.ragged rs) => some (RA.ofRows rs)           -- materialised at once
      | _ => none))
  | .alias x => match s.var x with
      | some bv => ({ s with vars := s.vars ++ [some bv] }, .made true)
      | none => ({ s with vars := s.vars ++ [none] }, .made false)
  | .addScalar x c => stepNew s ((s.arr x).bind (fun a => ufuncRight (· + ·) a (.scalar c)))
  | .addArrays x y => stepNew s ((s.arr x).bind (fun a => (s.arr y).bind (fun b => ufuncRight (· + ·) a (.ragged b))))
  | .concat x y => stepNew s ((s.arr x).bind (fun a => (s.arr y).bind (fun b => concatRows [a, b])))
  | .sort x => stepNew s ((s.arr x).map (sortRows (fun p q => decide (p ≤ q))))
  | .cumsum x => stepNew s ((s.arr x).map cumsumRows)
  | .diff x => stepNew s ((s.arr x).bind (fun a => (diffRows 1 a).map RA.ofRows))
  | .unique x => stepNew s ((s.arr x).bind (fun a =>
      (uniqueRows (fun (p q : Int) => decide (p ≤ q)) (fun p q => p != q) a).map (fun r => RA.ofRows r.1)))
  | .assign x idx v => match (s.arr x).bind (fun a => setitem a idx v), s.var x with
      | some a', some bv => ({ s with bufs := s.bufs.set bv.1 a'.data }, .made true)
      | _, _ => (s, .made false)
  | .read x => (s, .rows ((s.arr x).map RA.rows))
  | .readIdx x idx => (s, .res ((s.arr x).bind (fun a => getitem a idx)))
  | .readSum x => (s, .sums ((s.arr x).bind (fun a => reduceRowsSum a)))
  | .poke x k v => match s.arr x, s.var x with
      | some a, some bv =>
          if k < a.data.length then ({ s with bufs := s.bufs.set bv.1 (a.data.set k v) }, .made true)
          else (s, .made false)
      | _, _ => (s, .made false)
where
  reduceRowsSum (a : RA Int) : Option (List Int) := some (a.rows.map List.sum)

def run (s : State) : List Stmt → List Obs
  | [] => []
  | st :: rest => let r := step s st; r.2 :: run r.1 rest

def init : State := ⟨[], []⟩

/-! ### S: store of plain rows -/
structure Store where
  cells : List (List (List Int))
  vars : List (Option Nat)               -- cell id of x0, x1, … (`none` = creation refused)

def Store.var (s : Store) (x : Nat) : Option Nat := (s.vars[x]?).bind id

def Store.val (s : Store) (x : Nat) : Option (List (List Int)) := (s.var x).bind (s.cells[·]?)

def Store.alloc (s : Store) (rows : List (List Int)) : Store :=
  { cells := s.cells ++ [rows], vars := s.vars ++ [some s.cells.length] }

def stepNewS (s : Store) (o : Option (List (List Int))) : Store × Obs :=
  match o with
  | some r => (s.alloc r, .made true)
  | none => ({ s with vars := s.vars ++ [none] }, .made false)

def stepS (s : Store) : Stmt → Store × Obs
  | .new rows => stepNewS s (some rows)
  | .select x idx => stepNewS s ((s.val x).bind (fun r =>
      match Py.getitem r idx with
      | some (.ragged rs) => some rs
      | _ => none))
  | .alias x => match s.var x with
      | some c => ({ s with vars := s.vars ++ [some c] }, .made true)
      | none => ({ s with vars := s.vars ++ [none] }, .made false)
  | .addScalar x c => stepNewS s ((s.val x).map (fun r => r.map (·.map (· + c))))
  | .addArrays x y => stepNewS s ((s.val x).bind (fun a => (s.val y).bind (fun b =>
      if b.map List.length = a.map List.length then some (List.zipWith (fun r o => List.zipWith (· + ·) r o) a b) else none)))
  | .concat x y => stepNewS s ((s.val x).bind (fun a => (s.val y).map (fun b => a ++ b)))
  | .sort x => stepNewS s ((s.val x).map (fun r => r.map (fun row => row.mergeSort (fun p q => decide (p ≤ q)))))
  | .cumsum x => stepNewS s ((s.val x).map (fun r => r.map Spec.prefixSums))
  | .diff x => stepNewS s ((s.val x).map (fun r => r.map (Spec.diffN 1)))
  | .unique x => stepNewS s ((s.val x).map (fun r => r.map (fun row =>
      (Spec.dedupCounts (fun (p q : Int) => p != q) (row.mergeSort (fun p q => decide (p ≤ q)))).map (·.1))))
  | .assign x idx v => match (s.val x).bind (fun r => Py.setitem r idx v), s.var x with
      | some r', some c => ({ s with cells := s.cells.set c r' }, .made true)
      | _, _ => (s, .made false)
  | .read x => (s, .rows (s.val x))
  | .readIdx x idx => (s, .res ((s.val x).bind (fun r => Py.getitem r idx)))
  | .readSum x => (s, .sums ((s.val x).map (fun r => r.map List.sum)))
  | .poke x k v => match s.val x, s.var x with
      | some r, some c =>
          if k < (r.map List.length).sum then ({ s with cells := s.cells.set c (Spec.setFlat r k v) }, .made true)
          else (s, .made false)
      | _, _ => (s, .made false)

def runS (s : Store) : List Stmt → List Obs
  | [] => []
  | st :: rest => let r := stepS s st; r.2 :: runS r.1 rest

def initS : Store := ⟨[], []⟩

end Model.Heap
