import NpsVerif.Np.Basic
import NpsVerif.Spec.Py
import NpsVerif.Model.Shape
import NpsVerif.Gen.Cur
/-!
# L layer: indexing a RaggedArray (properties C02, C03, C06, C08, C09)

Transliteration of `raggedarray/indexablearray.py` (`__getitem__`, `_get_row_subset`,
`_get_row_col_subset`, `_get_row`, `_get_element`, `_get_multiple_rows`) and of the geometry
operations of `raggedshape.py` they use (`_index_rows`, `RaggedShape.view`, `view_rows`,
`RaggedView2.col_slice` — through the *generated* kernels `Gen.Cur.*` —, `RaggedView.get_shape`,
`build_indices`).  A result that the code returns as a lazy view is materialised the way
`_flatten_myself` does (flat gather indices, then a gather), so that what is compared with the
specification is the content the user sees.
-/
namespace Model

/-- row selector of the index grammar -/
inductive RowSel where
  | int (i : Int)
  | slice (a b : Option Int) (k : Option Int)
  | list (is : List Int)
  | mask (bs : List Bool)
  | all                                   -- `...` / `slice(None)`
  deriving Repr

/-- column selector -/
inductive ColSel where
  | int (j : Int)
  | slice (a b : Option Int) (k : Option Int)
  deriving Repr

inductive Index where
  | rows (r : RowSel)
  | rowcol (r : RowSel) (c : ColSel)
  deriving Repr

/-- what an index expression evaluates to -/
inductive Res (α : Type) where
  | scalar (x : α)
  | vec (xs : List α)                     -- 1-D numpy array
  | ragged (rows : List (List α))         -- RaggedArray
  deriving Repr, DecidableEq

/-- a row of a `RaggedView2`: (start, length, column step); cells `start + step*i`, `i < length` -/
abbrev Row3 := Int × Int × Int

/-- numpy basic slicing of the code array `codes.reshape(-1, 2)[a:b:k]` (= Python slice semantics;
`k = 0` is a `ValueError`). -/
def sliceList {α} (l : List α) (a b : Option Int) (k : Option Int) : Option (List α) :=
  let k' := k.getD 1
  if k' = 0 then none else some (Py.slice l a b k')

/-- `_index_rows(idx)` for the non-integer row selectors: the selected (start, len) codes. -/
def indexRows (codes : List (Nat × Nat)) : RowSel → Option (List (Nat × Nat))
  | .int i => (Np.getIdx codes i).map ([·])
  | .slice a b k => sliceList codes a b k
  | .list is => Np.gather codes is
  | .mask bs => if bs.length = codes.length then
        some ((codes.zip bs).filterMap (fun cb => if cb.2 then some cb.1 else none)) else none
  | .all => some codes

/-- `build_indices(view, to_shape, step)`: the cumsum trick.
`vrows` are the view's rows as (start, length, step); `to_shape` is `RaggedShape(lengths)`. -/
def buildIndices (step : Int) (vrows : List (Int × Int × Nat)) : List Int :=
  -- vrows : (view start, view end, length)
  let lens := vrows.map (·.2.2)
  let size := lens.sum
  if size = 0 then [] else
  let tstarts := Np.exclScan lens
  -- rows with non-zero length: `idx = np.flatnonzero(to_shape.lengths != 0)`
  let ne := (tstarts.zip vrows).filter (fun r => r.2.2.2 != 0)
  let targets := (ne.map (·.1)).drop 1                       -- to_shape.starts[idx][1:]
  let vstarts := (ne.map (·.2.1)).drop 1                     -- view.starts[idx][1:]
  let vends := (ne.map (·.2.2.1)).dropLast                   -- view.ends[idx][:-1]
  let incs := List.zipWith (fun s e => s - e + 1) vstarts vends
  let builder := Np.scatterSet (List.replicate (size + 1) step) (targets.zip incs)
  let builder := builder.set 0 ((ne.head?.map (·.2.1)).getD 0)  -- index_builder[0] = view.starts[idx[0]]
  (Np.cumsum builder).dropLast

/-- `RaggedView.get_flat_indices()` of a row selection (codes, step 1):
`ends = starts + lengths`. -/
def viewFlatIndices (codes : List (Nat × Nat)) : List Int :=
  buildIndices 1 (codes.map (fun c => ((c.1 : Int), ((c.1 + c.2 : Nat) : Int), c.2)))

/-- `RaggedView2._get_flat_indices()`: `ends` through the generated kernel K4. -/
def view2FlatIndices (rows : List Row3) : List Int :=
  let step := (rows.head?.map (·.2.2)).getD 1
  buildIndices step (rows.map (fun r => (r.1, Gen.Cur.view2_ends r.2.1 r.1 r.2.2, r.2.1.toNat)))

/-- cut a flat list into rows of the given lengths (`RaggedArray(data, lengths)` read back) -/
def cutRows {α} (data : List α) (lens : List Nat) : List (List α) :=
  ((Np.exclScan lens).zip lens).map (fun c => (data.drop c.1).take c.2)

/-- materialise a row selection: gather through the flat indices, shape = the selected lengths
(`RaggedView.get_shape()` is the exclusive scan of the lengths). -/
def materialiseView {α} (data : List α) (codes : List (Nat × Nat)) : Option (List (List α)) :=
  (Np.gather data (viewFlatIndices codes)).map (fun flat => cutRows flat (codes.map (·.2)))

def materialiseView2 {α} (data : List α) (rows : List Row3) : Option (List (List α)) :=
  (Np.gather data (view2FlatIndices rows)).map (fun flat => cutRows flat (rows.map (·.2.1.toNat)))

/-- `RaggedShape.view_rows(rows)`: (start, len) codes as a `RaggedView2` with column step 1. -/
def viewRows (codes : List (Nat × Nat)) : List Row3 :=
  codes.map (fun c => ((c.1 : Int), (c.2 : Int), (1 : Int)))

/-- `RaggedView2.col_slice(slice)` row by row through the generated kernel K3 (K1, K2 inside). -/
def colSliceSlice (rows : List Row3) (a b k : Option Int) : Option (List Row3) :=
  if k = some 0 then none            -- `assert step != 0`
  else some (rows.map (fun r => Gen.Cur.col_slice_slice r.2.1 r.1 r.2.2 a b k))

/-- `RaggedView2.col_slice(int)`: refused if the guard fires for any row; else one cell per row. -/
def colSliceInt (rows : List Row3) (j : Int) : Option (List Row3) :=
  (rows.mapM (fun r => Gen.Cur.col_slice_int r.2.1 r.1 r.2.2 j)).map
    (fun l => l.map (fun sl => (sl.1, sl.2, (1 : Int))))

/-- `_get_element(row, col)` for integer arrays `row`, `col` of equal length (safe mode):
bounds guard, negative column wrap, flat index `starts[row] + col`. -/
def getElement (codes : List (Nat × Nat)) (rc : List (Int × Int)) : Option (List Int) :=
  let n := codes.length
  rc.mapM (fun p =>
    let (r, c) := p
    if r ≥ (n : Int) then none else
    match Np.getIdx codes r with      -- `lengths[row]` / `starts[row]`: negative rows wrap, refuse below -n
    | none => none
    | some (s, l) =>
      if c ≥ (l : Int) ∨ c < -(l : Int) then none
      else some ((s : Int) + (if c < 0 then (l : Int) + c else c)))

/-- `RaggedArray.__getitem__` on an array with a contiguous shape. -/
def getitem {α} (a : RA α) : Index → Option (Res α)
  | .rows (.int i) =>
      -- `_get_row`: `view = shape.view(i)`; `data[start:end]`
      (Np.getIdx a.shape.codes i).map (fun c => .vec ((a.data.drop c.1).take c.2))
  | .rows sel =>
      (indexRows a.shape.codes sel).bind (fun codes => (materialiseView a.data codes).map .ragged)
  | .rowcol (.int i) (.int j) =>
      (getElement a.shape.codes [(i, j)]).bind (fun idx => (Np.gather a.data idx).bind (fun l => l.head?.map .scalar))
  | .rowcol (.list is) (.int j) =>
      (getElement a.shape.codes (is.map (fun i => (i, j)))).bind (fun idx => (Np.gather a.data idx).map .vec)
  | .rowcol sel (.int j) =>
      -- rows is a slice / mask / Ellipsis: view_rows, col_slice(int), flat gather
      (indexRows a.shape.codes sel).bind (fun codes =>
        (colSliceInt (viewRows codes) j).bind (fun rows =>
          (Np.gather a.data (view2FlatIndices rows)).map .vec))
  | .rowcol (.int i) (.slice x y k) =>
      (indexRows a.shape.codes (.int i)).bind (fun codes =>
        (colSliceSlice (viewRows codes) x y k).bind (fun rows =>
          (Np.gather a.data (view2FlatIndices rows)).map .vec))
  | .rowcol sel (.slice x y k) =>
      (indexRows a.shape.codes sel).bind (fun codes =>
        (colSliceSlice (viewRows codes) x y k).bind (fun rows =>
          (materialiseView2 a.data rows).map .ragged))

end Model

/-! ## S layer: the same selectors on the plain list of rows -/
namespace Py

open Model in
/-- rows selected by a row selector (`none` = refused) -/
def selectRows {α} (rows : List (List α)) : RowSel → Option (List (List α))
  | .int i => (Py.index rows i).map ([·])
  | .slice a b k => if k = some 0 then none else some (Py.slice rows a b (k.getD 1))
  | .list is => is.mapM (Py.index rows)
  | .mask bs => if bs.length = rows.length then
        some ((rows.zip bs).filterMap (fun rb => if rb.2 then some rb.1 else none)) else none
  | .all => some rows

open Model in
/-- `rows[idx]` as CPython/numpy would evaluate it on the list of rows -/
def getitem {α} (rows : List (List α)) : Index → Option (Res α)
  | .rows (.int i) => (Py.index rows i).map .vec
  | .rows sel => (selectRows rows sel).map .ragged
  | .rowcol (.int i) (.int j) => (Py.index rows i).bind (fun r => (Py.index r j).map .scalar)
  | .rowcol sel (.int j) => (selectRows rows sel).bind (fun rs => (rs.mapM (Py.index · j)).map .vec)
  | .rowcol (.int i) (.slice x y k) =>
      if k = some 0 then none else (Py.index rows i).map (fun r => .vec (Py.slice r x y (k.getD 1)))
  | .rowcol sel (.slice x y k) =>
      if k = some 0 then none
      else (selectRows rows sel).map (fun rs => .ragged (rs.map (fun r => Py.slice r x y (k.getD 1))))

end Py
