import NpsVerif.Np.Basic
/-!
# L layer: `RaggedShape` / `RaggedArray` construction and read-back (property C01)

Transliteration of `raggedshape.py` `RaggedShape.__init__`, `ViewBase.__init__`, the accessors
`starts / lengths / ends / n_rows / size`, `ravel_multi_index`, `unravel_multi_index`,
`index_array`, and of `raggedarray/__init__.py` `__init__`, `_from_array_list`, `__iter__`,
`tolist`, `to_numpy_array`, `from_numpy_array`.

The interleaved `_codes` array `[s0, l0, s1, l1, …]` is modelled as the list of pairs
`[(s0,l0), (s1,l1), …]`; `codes[::2]` / `codes[1::2]` are the projections.
-/
namespace Model

/-- `ViewBase._codes` as (start, length) pairs. -/
structure Shape where
  codes : List (Nat × Nat)
  deriving Repr, DecidableEq

namespace Shape

/-- `ViewBase.starts` = `_codes[::2]`. -/
def starts (s : Shape) : List Nat := s.codes.map (·.1)
/-- `ViewBase.lengths` = `_codes[1::2]`. -/
def lengths (s : Shape) : List Nat := s.codes.map (·.2)
/-- `ViewBase.ends` = `starts + lengths`. -/
def ends (s : Shape) : List Nat := s.codes.map (fun c => c.1 + c.2)
/-- `ViewBase.n_rows` = `starts.size`. -/
def nRows (s : Shape) : Nat := s.starts.length

/-- `RaggedShape.size`: `0` if there are no rows, else `starts[-1] + lengths[-1]`. -/
def size (s : Shape) : Nat :=
  match s.codes.getLast? with
  | none => 0
  | some c => c.1 + c.2

/-- `RaggedShape.__init__(lengths)`:
`starts = np.pad(np.cumsum(lengths)[:-1], 1)[:-1]`, then `ViewBase.__init__(starts, lengths)`
(which stores *no* codes at all when `lengths` is empty, although `starts` is then `[0]`). -/
def ofLens (ls : List Nat) : Shape :=
  let cs := Np.cumsumNat ls
  let starts := ((0 :: cs.dropLast) ++ [0]).dropLast
  if ls.isEmpty then ⟨[]⟩ else ⟨starts.zip ls⟩

/-- `RaggedShape.from_dict({"offsets": o})`, the legacy form: `cls(np.diff(o))`.  Offsets that decrease somewhere would give a
negative row length, which no geometry has: a refusal of the model (the code's behaviour there is outside every property). -/
def ofOffsets (o : List Int) : Option Shape :=
  if (Np.diff o).all (fun d => decide (0 ≤ d)) then some (ofLens ((Np.diff o).map Int.toNat)) else none

/-- `ravel_multi_index((r, c))` = `starts[r] + c` (`none` when `r` is not a row). -/
def ravelIdx (s : Shape) (r c : Nat) : Option Nat := (s.starts[r]?).map (· + c)

/-- `unravel_multi_index(p)`: `row = searchsorted(starts, p, side="right") - 1`,
`col = p - starts[row]`.  (`row = -1` wraps to the last row in numpy; modelled as such.) -/
def unravelIdx (s : Shape) (p : Nat) : Option (Nat × Nat) :=
  let k := Np.searchsortedRightNat s.starts p
  let row := if k = 0 then s.nRows - 1 else k - 1
  (s.starts[row]?).map (fun st => (row, p - st))

/-- `index_array()`: `cumsum(bincount(starts[1:], minlength=size+1))[:-1]`. -/
def indexArray (s : Shape) : List Nat :=
  (Np.cumsumNat (Np.bincount (s.starts.drop 1) (s.size + 1))).dropLast

end Shape

/-- a `RaggedArray` with a contiguous shape: flat buffer + geometry. -/
structure RA (α : Type) where
  data : List α
  shape : Shape

namespace RA
variable {α : Type}

/-- `RaggedArray(data, lengths)`: refused when `shape.size != len(data)` (safe mode). -/
def ofFlat (data : List α) (ls : List Nat) : Option (RA α) :=
  let sh := Shape.ofLens ls
  if sh.size = data.length then some ⟨data, sh⟩ else none

/-- `RaggedArray(list_of_rows)` = `_from_array_list`: flatten + `RaggedShape(lens)`. -/
def ofRows (rows : List (List α)) : RA α :=
  ⟨rows.flatten, Shape.ofLens (rows.map List.length)⟩

/-- `__iter__` / `tolist`: `flat[start : start + l]` for every code pair. -/
def rows (a : RA α) : List (List α) :=
  a.shape.codes.map (fun c => (a.data.drop c.1).take c.2)

/-- `__len__`. -/
def len (a : RA α) : Nat := a.shape.nRows
/-- `size` = `np.sum(lengths)` (`RaggedBase.size`). -/
def size (a : RA α) : Nat := a.shape.lengths.sum
/-- `ravel()` of a contiguous array. -/
def ravel (a : RA α) : List α := a.data
/-- `astype(c)`. -/
def astype {β : Type} (c : α → β) (a : RA α) : RA β := ⟨a.data.map c, a.shape⟩

/-- split a flat list into consecutive chunks of `w` (numpy `reshape(n, w)`). -/
def chunks (n w : Nat) (data : List α) : List (List α) :=
  (List.range n).map (fun i => (data.drop (i * w)).take w)

/-- `to_numpy_array()`: `[]` for zero rows; else all lengths must equal `lengths[0]`
(an `assert`), and the result is `ravel().reshape(n_rows, L)`. -/
def toNumpy (a : RA α) : Option (List (List α)) :=
  match a.shape.lengths with
  | [] => some []
  | L :: rest => if rest.all (· == L) then some (chunks a.shape.nRows L a.data) else none

/-- `from_numpy_array(m)` for an `n × w` matrix given as rows:
`RaggedShape.from_tuple_shape((n, w))` = `full(n, w)` lengths, data = `m.ravel()`. -/
def fromNumpy (m : List (List α)) (w : Nat) : Option (RA α) :=
  ofFlat m.flatten (List.replicate m.length w)

end RA
end Model
