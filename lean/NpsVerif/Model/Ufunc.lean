import NpsVerif.Model.Shape
import NpsVerif.Model.RunLength
/-!
# L layer: element-wise ufuncs on a RaggedArray and column broadcasting (property C04)

Transliteration of `raggedshape.py` `broadcast_values` / `_raw_broadcast` and of the `__call__`
branch of `RaggedArray.__array_ufunc__`.
-/
namespace Model
open Model.RLA (xorAccumulate)

section
variable {α : Type} [XorLike α]

/-- numpy's `b[idx] ^= vals` for an index array: gather, XOR, scatter (buffered: every read sees
the old `b`; for a repeated index the last write wins). -/
def xorScatter (b : List α) (idx : List Nat) (vals : List α) : List α :=
  let cur := idx.filterMap (b[·]?)
  Np.scatterSet b (idx.zip (List.zipWith XorLike.xor cur vals))

/-- `_raw_broadcast(values)` on bit patterns:
```
builder = zeros(size + 1)
builder[ends[::-1]] ^= values[::-1]
builder[0] = 0
builder[starts] ^= values
return xor.accumulate(builder[:-1])
``` -/
def rawBroadcast (sh : Shape) (vals : List α) : List α :=
  let b0 := List.replicate (sh.size + 1) (XorLike.zero : α)
  let b1 := xorScatter b0 sh.ends.reverse vals.reverse
  let b2 := b1.set 0 XorLike.zero
  let b3 := xorScatter b2 sh.starts vals
  xorAccumulate b3.dropLast

/-- `broadcast_values(values)` for a column vector given by its entries:
the `size == 1` shortcut returns the single entry (numpy broadcasts it afterwards),
otherwise `assert values.shape == (n_rows, 1)` and the XOR builder. -/
def broadcastValues (sh : Shape) (vals : List α) : Option (List α) :=
  if vals.length = 1 then some vals
  else if vals.length ≠ sh.nRows then none
  else some (rawBroadcast sh vals)
end

/-- an operand of a binary ufunc next to a RaggedArray -/
inductive Operand (β : Type) where
  | scalar (x : β)
  | column (vals : List β)         -- an (n, 1) array, given by its n entries
  | ragged (a : RA β)

/-- numpy broadcasting of two flat arrays: equal sizes, or one of them has a single element -/
def applyFlat {α β γ : Type} (f : α → β → γ) (x : List α) (y : List β) : Option (List γ) :=
  if x.length = y.length then some (List.zipWith f x y)
  else match x, y with
    | [a], _ => some (y.map (f a))
    | _, [b] => some (x.map (f · b))
    | _, _ => none

/-- `ufunc(self, other)`: `self` is the RaggedArray whose `__array_ufunc__` runs -/
def ufuncRight {α β γ : Type} [XorLike β] (f : α → β → γ) (self : RA α) : Operand β → Option (RA γ)
  | .scalar s => some ⟨self.data.map (f · s), self.shape⟩
  | .column col => (broadcastValues self.shape col).bind (fun b =>
      (applyFlat f self.data b).map (fun d => ⟨d, self.shape⟩))
  | .ragged o => if o.shape ≠ self.shape then none          -- safe mode: "inconsistent sizes"
      else (applyFlat f self.data o.data).map (fun d => ⟨d, self.shape⟩)

/-- `ufunc(other, self)` (reflected call: the RaggedArray is the second input) -/
def ufuncLeft {α β γ : Type} [XorLike α] (f : α → β → γ) (self : RA β) : Operand α → Option (RA γ)
  | .scalar s => some ⟨self.data.map (f s ·), self.shape⟩
  | .column col => (broadcastValues self.shape col).bind (fun b =>
      (applyFlat f b self.data).map (fun d => ⟨d, self.shape⟩))
  | .ragged o => if o.shape ≠ self.shape then none
      else (applyFlat f o.data self.data).map (fun d => ⟨d, self.shape⟩)

/-- unary ufunc -/
def ufunc1 {α β : Type} (g : α → β) (self : RA α) : RA β := ⟨self.data.map g, self.shape⟩

end Model
