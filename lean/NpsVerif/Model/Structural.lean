import NpsVerif.Model.Index
import NpsVerif.Model.Scan
/-!
# L layer: structural array functions (C08) and column aggregates (C09)

Transliteration of `arrayfunctions.py` `concatenate`, `zeros_like/ones_like`, `where`;
`RaggedArray.nonzero`, `_as_padded_matrix`, `sum(axis=0)`, `col_counts`; `IndexableArray.subset`,
mask indexing, `get_column_values`; `raggedslice.py` `ragged_slice`.
-/
namespace Model
variable {α : Type}

/-- `np.concatenate(ragged_arrays, axis=0)`: buffers and lengths concatenated, then the constructor
(with its size check) -/
def concatRows (as : List (RA α)) : Option (RA α) :=
  match as with
  | [] => none                                   -- `ragged_arrays[0]` does not exist
  | _ => RA.ofFlat (as.map (·.data)).flatten (as.map (·.shape.lengths)).flatten

/-- `np.concatenate(ragged_arrays, axis=-1)`: `[np.concatenate(rows) for rows in zip(*arrays)]`
(`zip` stops at the shortest operand) -/
def concatCols (as : List (RA α)) : Option (RA α) :=
  match as with
  | [] => none
  | a :: rest =>
    let n := rest.foldl (fun m b => min m b.len) a.len
    some (RA.ofRows ((List.range n).map (fun i => (as.map (fun b => (b.rows[i]?).getD [])).flatten)))

/-- `zeros_like` / `ones_like`: same shape, constant cells -/
def fullLike (a : RA α) (c : α) : RA α := ⟨List.replicate a.shape.size c, a.shape⟩

/-- `nonzero()`: `flatnonzero(ravel)` then `unravel_multi_index` -/
def nonzero (a : RA Bool) : Option (List Nat × List Nat) :=
  ((Np.flatnonzero a.data).mapM a.shape.unravelIdx).map (fun l => (l.map (·.1), l.map (·.2)))

/-- `np.where(mask, x, y)` with a ragged mask and ragged `x`; `y` ragged or a number.
A column mask (fewer cells than `x`) is first broadcast over `x`'s rows. -/
def whereRows (mask : RA Bool) (maskIsColumn : Bool) (x : RA α) (y : Sum (RA α) α) : Option (RA α) :=
  let m : RA Bool := if maskIsColumn ∧ mask.size < x.size
    then ⟨repeatRows x.shape.lengths mask.data, x.shape⟩ else mask
  let yd : List α := match y with
    | .inl ya => ya.data
    | .inr c => List.replicate m.data.length c
  if m.data.length = x.data.length ∧ yd.length = x.data.length then
    some ⟨(m.data.zip (x.data.zip yd)).map (fun t => if t.1 then t.2.1 else t.2.2), m.shape⟩
  else none

/-- `subset(mask)`: `data = ravel[mask.ravel()]`, `lengths = np.sum(mask, axis=-1)` -/
def subset (a : RA α) (mask : RA Bool) : Option (RA α) :=
  if mask.data.length ≠ a.data.length then none else
  let data := (a.data.zip mask.data).filterMap (fun p => if p.2 then some p.1 else none)
  RA.ofFlat data (mask.rows.map (fun r => r.count true))

/-- `ra[ragged_bool_mask]`: the true cells, flat, in row-major order -/
def maskIndex (a : RA α) (mask : RA Bool) : Option (List α) :=
  (Np.flatnonzero mask.data).mapM (a.data[·]?)

/-- `ragged_slice(array, starts, ends)` for a RaggedArray: per-row window `[start_i, end_i)`,
negative ends counted from the row end, ends clamped to the row end -/
def raggedSlice (a : RA α) (ss : Option (List Int)) (es : Option (List Int)) : Option (List (List α)) :=
  let n := a.shape.nRows
  let baseS : List Int := a.shape.starts.map (fun (s : Nat) => (s : Int))
  let baseE : List Int := a.shape.ends.map (fun (e : Nat) => (e : Int))
  let okLen (o : Option (List Int)) : Bool := match o with | none => true | some l => l.length == n
  if !(okLen ss && okLen es) then none else
  let starts := match ss with | none => baseS | some l => List.zipWith (· + ·) baseS l
  let ends := match es with
    | none => baseE
    | some l => (baseS.zip (baseE.zip l)).map (fun t => if t.2.2 < 0 then t.2.1 + t.2.2 else min (t.1 + t.2.2) t.2.1)
  let lens := List.zipWith (fun e s => max (e - s) 0) ends starts
  let flat := buildIndices 1 ((starts.zip lens).map (fun p => (p.1, p.1 + p.2, p.2.toNat)))
  (Np.gather a.data flat).map (fun d => cutRows d (lens.map Int.toNat))

/-- the common tail of `ragged_slice`: absolute `starts` / `ends` → lengths → `RaggedView.get_flat_indices` → gather -/
def sliceByBounds (data : List α) (starts ends : List Int) : Option (List (List α)) :=
  let lens := List.zipWith (fun e s => max (e - s) 0) ends starts
  let flat := buildIndices 1 ((starts.zip lens).map (fun p => (p.1, p.1 + p.2, p.2.toNat)))
  (Np.gather data flat).map (fun d => cutRows d (lens.map Int.toNat))

/-- `ragged_slice(array, starts, ends)` for a 1-D ndarray: `base_starts = 0`, `base_ends = array.size`; one window of
the whole array per (start, end) pair (the two vectors must have equal lengths) -/
def raggedSlice1d (a : List α) (ss es : List Int) : Option (List (List α)) :=
  if ss.length ≠ es.length then none else
  let n : Int := a.length
  sliceByBounds a ss (es.map (fun e => if e < 0 then n + e else min (0 + e) n))

/-- `ragged_slice(array, starts, ends)` for a 2-D ndarray with `c` columns: `base_starts = arange(n_rows) * c`,
`base_ends = base_starts + c` -/
def raggedSlice2d (m : List (List α)) (c : Nat) (ss es : List Int) : Option (List (List α)) :=
  if ss.length ≠ m.length ∨ es.length ≠ m.length then none else
  let baseS : List Int := (List.range m.length).map (fun i => ((i * c : Nat) : Int))
  let baseE : List Int := baseS.map (· + (c : Int))
  sliceByBounds m.flatten (List.zipWith (· + ·) baseS ss)
    ((baseS.zip (baseE.zip es)).map (fun t => if t.2.2 < 0 then t.2.1 + t.2.2 else min (t.1 + t.2.2) t.2.1))

/-- `_as_padded_matrix(fill_value, side)` -/
def paddedMatrix (a : RA α) (fill : α) (right : Bool) : Option (List (List α)) :=
  let n := a.shape.nRows
  if n = 0 ∨ a.size = 0 then some (List.replicate n []) else
  let lens := a.shape.lengths
  let w := lens.foldl max 0
  let lastEnd : Int := (a.shape.ends.getLast?.getD 0 : Nat)
  let viewStarts : List Int := if right then a.shape.starts.map (fun (s : Nat) => (s : Int))
    else a.shape.ends.map (fun (e : Nat) => (e : Int) - (w : Int))
  let idx : List Int := viewStarts.flatMap (fun s => (List.range w).map (fun (k : Nat) => min (s + (k : Int)) (lastEnd - 1)))
  (Np.gather a.data idx).map (fun arr =>
    let zs : List (Int × Int × Nat) := ((List.range n).zip lens).map (fun il =>
      let s : Int := ((il.1 * w : Nat) : Int) + (if right then (il.2 : Int) else 0)
      (s, s + ((w - il.2 : Nat) : Int), w - il.2))
    let zeroed := buildIndices 1 zs
    let arr' := Np.scatterSet arr (zeroed.map (fun i => (i.toNat, fill)))
    RA.chunks n w arr')

/-- `sum(axis=0)` over integers: column index of every flat position (`unravel_multi_index`), then
accumulation per column into `zeros(max(lengths))` -/
def colSum (a : RA Int) : Option (List Int) :=
  let w := a.shape.lengths.foldl max 0
  ((List.range a.size).mapM a.shape.unravelIdx).map (fun rc =>
    let cols := rc.map (·.2)
    (List.range w).map (fun j => ((cols.zip a.data).filterMap (fun p => if p.1 = j then some p.2 else none)).sum))

/-- `col_counts()`: `counts = -bincount(lengths); counts[0] += n_rows; cumsum; counts[:-1]` -/
def colCounts (a : RA α) : List Int :=
  let b : List Int := (Np.bincount a.shape.lengths 0).map (fun (c : Nat) => -(c : Int))
  let b := match b with
    | [] => []
    | c :: rest => (c + (a.len : Int)) :: rest
  (Np.cumsum b).dropLast

/-- `get_column_values(j)`: `self[lengths > j, j]` -/
def columnValues (a : RA α) (j : Nat) : Option (Res α) :=
  getitem a (.rowcol (.mask (a.shape.lengths.map (fun l => decide (l > j)))) (.int j))

end Model
