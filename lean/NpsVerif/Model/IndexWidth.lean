import NpsVerif.Model.Index
/-!
# L layer: the 32-bit index configuration (property C19)

(a) `_index_rows` under `ViewBase._dtype == np.int32`: the interleaved int32 codes
`[s0, l0, s1, l1, …]` are reinterpreted as one uint64 word per row (little endian: the start is the
low half), the words are gathered with the row selector, and reinterpreted back.
(b) the values the geometry and the gather-index builder store in index arrays.
-/
namespace Model.W32

def B32 : Nat := 2 ^ 32

/-- `codes.view(np.uint64)`: one word per (start, length) pair -/
def pack64 (codes : List (Nat × Nat)) : List Nat := codes.map (fun c => c.1 + c.2 * B32)

/-- `.view(np.int32)` of gathered words, as pairs again -/
def unpack64 (ws : List Nat) : List (Nat × Nat) := ws.map (fun w => (w % B32, w / B32))

/-- the 32-bit path of `_index_rows`: pack, select words with the row selector, unpack -/
def indexRows32 (codes : List (Nat × Nat)) (sel : RowSel) : Option (List (Nat × Nat)) :=
  (indexRowsGeneric (pack64 codes) sel).map unpack64
where
  indexRowsGeneric {β : Type} (l : List β) : RowSel → Option (List β)
    | .int i => (Np.getIdx l i).map ([·])
    | .slice a b k => sliceList l a b k
    | .list is => Np.gather l is
    | .mask bs => if bs.length = l.length then
          some ((l.zip bs).filterMap (fun cb => if cb.2 then some cb.1 else none)) else none
    | .all => some l

/-- the array that `build_indices` accumulates (before `np.cumsum`): every entry is stored in the
configured index dtype -/
def indexBuilder (step : Int) (vrows : List (Int × Int × Nat)) : List Int :=
  let lens := vrows.map (·.2.2)
  let size := lens.sum
  if size = 0 then [] else
  let tstarts := Np.exclScan lens
  let ne := (tstarts.zip vrows).filter (fun r => r.2.2.2 != 0)
  let targets := (ne.map (·.1)).drop 1
  let vstarts := (ne.map (·.2.1)).drop 1
  let vends := (ne.map (·.2.2.1)).dropLast
  let incs := List.zipWith (fun s e => s - e + 1) vstarts vends
  let builder := Np.scatterSet (List.replicate (size + 1) step) (targets.zip incs)
  builder.set 0 ((ne.head?.map (·.2.1)).getD 0)

/-- a value fits a signed 32-bit index -/
def Fits32 (x : Int) : Prop := -(2 : Int) ^ 31 < x ∧ x < (2 : Int) ^ 31

end Model.W32
