import NpsVerif.Model.Index
import NpsVerif.Gen.Cur
/-!
# L layer: `hashtable.py` — `HashTable`, `Counter`, `HashSet` (properties C11, C12)

`HashTable` is written against the public `RaggedArray` API; its model is written against the
list-of-rows meaning of those operations (justified by the theorems of C02 / C03 / C04 / C08):
the keys are a ragged array of buckets (`row h` = keys whose hash is `h`), the values are either a
single scalar shared by every key or a bucket-aligned ragged array.
The bucket of a key is computed by the generated kernel K10 (`keys % mod`).
-/
namespace Model.HT

/-- bucket index of a key: `keys % self._mod` (K10) -/
def hashOf (mod : Nat) (k : Int) : Nat := (Gen.Cur.ht_hash (mod : Int) k).toNat

/-- `_get_mod(keys)`: default modulus `2 * n - 1` (K10) -/
def defaultMod (n : Nat) : Nat := (Gen.Cur.ht_mod (n : Int)).toNat

structure Table (v : Type) where
  buckets : List (List Int)            -- `_keys` as rows
  values : Sum v (List (List v))       -- `_values`: a scalar, or rows aligned with `buckets`
  mod : Nat
  deriving Repr

variable {v : Type}

/-- `HashTable.__init__(keys, values, mod)`; `args` is the permutation `np.argsort(hashes)` returns
(numpy's default sort is not stable: any permutation that sorts the hashes may come out) -/
def build (keys : List Int) (vals : Sum v (List v)) (mod : Nat) (args : List Nat) : Option (Table v) :=
  let hashes := keys.map (hashOf mod)
  let ks := args.filterMap (keys[·]?)
  let hs := args.filterMap (hashes[·]?)
  -- `_build_ragged_array`: lengths = zeros(mod); lengths[unique(hashes)] = counts
  let lengths := (List.range mod).map (fun h => hs.count h)
  -- `RaggedArray(keys, lengths)`: the constructor checks the total size
  if lengths.sum ≠ ks.length then none else
  some ⟨cutRows ks lengths,
        match vals with
        | .inl s => .inl s
        | .inr vs => .inr (cutRows (args.filterMap (vs[·]?)) lengths),
        mod⟩

/-- a stable argsort, used by the driver for `args` -/
def stableArgsort (keys : List Nat) : List Nat :=
  ((keys.zipIdx).mergeSort (fun a b => decide (a.1 ≤ b.1))).map (·.2)

/-- `_get_indices` for one key: `(hash, offset of the key inside its bucket)` if present -/
def findKey (t : Table v) (q : Int) : Option (Nat × Nat) :=
  let h := hashOf t.mod q
  (t.buckets[h]?).bind (fun row => (row.idxOf? q).map (fun o => (h, o)))

/-- value stored at a (bucket, offset) location -/
def valueAt (t : Table v) (loc : Nat × Nat) : Option v :=
  match t.values with
  | .inl s => some s
  | .inr vals => (vals[loc.1]?).bind (·[loc.2]?)

/-- `table[keys]` for a vector of keys: refused (IndexError) if any key is absent -/
def getVec (t : Table v) (qs : List Int) : Option (List v) :=
  (qs.mapM (findKey t)).bind (fun locs => locs.mapM (valueAt t))

/-- `table[key]` for a single number: a 1-element array, or an empty one for an absent key
(scalar-valued tables return the scalar without looking) -/
def get1 (t : Table v) (q : Int) : List v :=
  match t.values with
  | .inl s => [s]
  | .inr _ => match findKey t q with
    | none => []
    | some loc => (valueAt t loc).toList

/-- `contains(keys)` / `HashSet.contains` -/
def contains (t : Table v) (qs : List Int) : List Bool := qs.map (fun q => (findKey t q).isSome)

/-- `_fill_values()`: a scalar becomes a bucket-aligned array -/
def filled (t : Table v) : List (List v) :=
  match t.values with
  | .inl s => t.buckets.map (·.map (fun _ => s))
  | .inr vals => vals

/-- `table[keys] = value` (scalar or one value per key): fill, resolve, scatter left to right -/
def setVec (t : Table v) (qs : List Int) (newv : Sum v (List v)) : Option (Table v) :=
  (qs.mapM (findKey t)).bind (fun locs =>
    let vals : Option (List v) := match newv with
      | .inl s => some (qs.map (fun _ => s))
      | .inr vs => if vs.length = qs.length then some vs
                   else match vs with | [x] => some (qs.map (fun _ => x)) | _ => none
    vals.map (fun vals =>
      let cells := (locs.zip vals).foldl
        (fun acc lv => acc.modify lv.1.1 (fun row => row.set lv.1.2 lv.2)) (filled t)
      { t with values := .inr cells }))

/-- `fill(value)` -/
def fill (t : Table v) (x : v) : Table v :=
  match t.values with
  | .inl _ => { t with values := .inl x }
  | .inr vals => { t with values := .inr (vals.map (·.map (fun _ => x))) }

/-- `items()` / `to_dict()`: (key, value) pairs in bucket order -/
def items (t : Table v) : List (Int × v) := t.buckets.flatten.zip (filled t).flatten

/-! ### whole-table functions: `zeros_like` / `ones_like`, `+`, `+=`, `==` -/

/-- `np.zeros_like(table)` / `np.ones_like(table)`: a table over the same key rows holding one shared value -/
def likeWith (t : Table v) (x : v) : Table v := { t with values := .inl x }

/-- `table += number`: the shared value, or every stored value, grows by `x` -/
def addNum (t : Table Int) (x : Int) : Table Int :=
  match t.values with
  | .inl s => { t with values := .inl (s + x) }
  | .inr vals => { t with values := .inr (vals.map (·.map (· + x))) }

/-- `t + u` / `t += u`: refused unless the key rows are the same rows (`_keys.equals`); values are added position by
position (two shared values stay a shared value) -/
def addTable (t u : Table Int) : Option (Table Int) :=
  if t.buckets ≠ u.buckets then none else
  match t.values, u.values with
  | .inl a, .inl b => some { t with values := .inl (a + b) }
  | _, _ => some { t with values := .inr (List.zipWith (List.zipWith (· + ·)) (filled t) (filled u)) }

/-- `t == u` for tables over the same key rows: all stored values agree -/
def tableEq (t u : Table Int) : Bool := decide (t.buckets = u.buckets) && decide ((filled t).flatten = (filled u).flatten)

/-- `Counter.count(samples)`:
samples whose bucket is empty are dropped; the others are compared with their bucket; every hit is
a flat position `starts[bucket] + offset` in the key buffer; `bincount` of the hits is added -/
def count (t : Table Int) (samples : List Int) : Table Int :=
  let kept := samples.filter (fun s => ((t.buckets[hashOf t.mod s]?).map (fun r => !r.isEmpty)).getD false)
  let hits := kept.filterMap (findKey t)
  if hits.isEmpty then t else
  let starts := Np.exclScan (t.buckets.map List.length)
  let flat := hits.filterMap (fun l => (starts[l.1]?).map (· + l.2))
  let size := (t.buckets.map List.length).sum
  let bc := (List.range size).map (fun p => ((flat.count p : Nat) : Int))
  let base : List Int := match t.values with
    | .inl s => List.replicate size s
    | .inr vals => vals.flatten
  { t with values := .inr (cutRows (List.zipWith (· + ·) base bc) (t.buckets.map List.length)) }

/-- `RaggedView._get_flat_indices_fast()` (valid only for views without empty rows):
```
index_builder = ones(size); index_builder[shape.starts[1:]] = diff(view.starts) - view.lengths[:-1] + 1
index_builder[0] = view.starts[0]; cumsum
``` -/
def flatIndicesFast (codes : List (Nat × Nat)) : List Int :=
  let lens := codes.map (·.2)
  let size := lens.sum
  let tstarts := Np.exclScan lens
  let vstarts : List Int := codes.map (fun c => (c.1 : Int))
  let incs := List.zipWith (fun (d : Int) (l : Nat) => d - (l : Int) + 1) (Np.diff vstarts) lens.dropLast
  let builder := Np.scatterSet (List.replicate size (1 : Int)) ((tstarts.drop 1).zip incs)
  let builder := builder.set 0 (vstarts.headD 0)
  Np.cumsum builder

/-- `_broadcast_values_fast(values)` (shapes without empty rows), integer values:
```
builder = zeros(size); builder[starts[1:]] = diff(values); builder[0] = values[0]; add.accumulate
``` -/
def broadcastFast (lens : List Nat) (vals : List Int) : List Int :=
  let size := lens.sum
  let tstarts := Np.exclScan lens
  let builder := Np.scatterSet (List.replicate size (0 : Int)) ((tstarts.drop 1).zip (Np.diff vals))
  let builder := builder.set 0 (vals.headD 0)
  Np.cumsum builder

end Model.HT

/-! ## S layer: a finite map -/
namespace Spec

/-- an association list with distinct keys -/
abbrev Dict (v : Type) := List (Int × v)

namespace Dict
variable {v : Type}
def lookup (d : Dict v) (k : Int) : Option v := (d.find? (fun p => p.1 == k)).map (·.2)
def assign (d : Dict v) (k : Int) (x : v) : Dict v := d.map (fun p => if p.1 == k then (p.1, x) else p)
def mem (d : Dict v) (k : Int) : Bool := d.any (fun p => p.1 == k)
end Dict
end Spec

/-! ## the operation alphabet of C11 / C12 and the two step functions -/
namespace Model.HT

inductive Op where
  | get1 (k : Int)
  | getVec (ks : List Int)
  | setScalar (ks : List Int) (x : Int)
  | setEach (ks : List Int) (xs : List Int)
  | fill (x : Int)
  | contains (ks : List Int)
  | items
  | count (samples : List Int)
  deriving Repr

inductive Obs where
  | vals (l : Option (List Int))       -- `none` = refused
  | bools (l : List Bool)
  | done (accepted : Bool)
  | pairs (l : List (Int × Int))       -- sorted by key (hash order is not observable)
  deriving Repr, DecidableEq

def sortPairs (l : List (Int × Int)) : List (Int × Int) := l.mergeSort (fun a b => decide (a.1 ≤ b.1))

/-- one operation on the model table -/
def step (t : Table Int) : Op → Table Int × Obs
  | .get1 k => (t, .vals (some (get1 t k)))
  | .getVec ks => (t, .vals (getVec t ks))
  | .setScalar ks x => match setVec t ks (.inl x) with
      | some t' => (t', .done true)
      | none => (t, .done false)
  | .setEach ks xs => match setVec t ks (.inr xs) with
      | some t' => (t', .done true)
      | none => (t, .done false)
  | .fill x => (fill t x, .done true)
  | .contains ks => (t, .bools (contains t ks))
  | .items => (t, .pairs (sortPairs (items t)))
  | .count s => (count t s, .done true)

def run (t : Table Int) : List Op → List Obs
  | [] => []
  | op :: rest => let r := step t op; r.2 :: run r.1 rest

end Model.HT

namespace Spec.Dict
open Model.HT

/-- the same operation on the dictionary -/
def step (d : Dict Int) : Op → Dict Int × Obs
  | .get1 k => (d, .vals (some ((d.lookup k).toList)))
  | .getVec ks => (d, .vals (ks.mapM d.lookup))
  | .setScalar ks x =>
      if ks.all d.mem then (ks.foldl (fun acc k => acc.assign k x) d, .done true) else (d, .done false)
  | .setEach ks xs =>
      if ks.all d.mem && (xs.length == ks.length || xs.length == 1) then
        ((ks.zip (if xs.length == ks.length then xs else ks.map (fun _ => xs.headD 0))).foldl (fun acc kx => acc.assign kx.1 kx.2) d, .done true)
      else (d, .done false)
  | .fill x => (d.map (fun p => (p.1, x)), .done true)
  | .contains ks => (d, .bools (ks.map d.mem))
  | .items => (d, .pairs (sortPairs d))
  | .count s => (d.map (fun p => (p.1, p.2 + ((s.count p.1 : Nat) : Int))), .done true)

def run (d : Dict Int) : List Op → List Obs
  | [] => []
  | op :: rest => let r := step d op; r.2 :: run r.1 rest

end Spec.Dict
