import NpsVerif.Model.Index
import NpsVerif.Model.RunLength
/-!
# L layer: row-wise scans and reorderings (property C07)

Transliteration of `RaggedArray.cumsum`, `_row_accumulate` (+ `INVERSE_FUNCS`), `sort`, and of
`arrayfunctions.py` `unique`, `diff`.  Where the code subtracts / adds a per-row offset through
`ra ∘ offsets[:, None]`, the column broadcast is written as `repeatRows` (one copy of entry i per
cell of row i) — that this is what the XOR broadcast computes is theorem `C04_raw_broadcast`.
-/
namespace Model

/-- entry `i` of `vals` repeated over row `i` (what `_broadcast_rows` yields, see C04) -/
def repeatRows {α : Type} (lens : List Nat) (vals : List α) : List α :=
  (List.zipWith (fun l v => List.replicate l v) lens vals).flatten

/-- `cumsum(axis=-1)` (integer dtypes):
```
cm = np.cumsum(unsafe_extend_left(ravel))     # 0 prepended
offsets = cm[starts]
return RaggedArray(cm[1:], shape) - offsets[:, None]
``` -/
def cumsumRows (a : RA Int) : RA Int :=
  if a.size = 0 then ⟨[], a.shape⟩ else           -- `np.empty_like(self)`
  let cm := Np.cumsum (0 :: a.data)
  let offsets := a.shape.starts.filterMap (cm[·]?)
  ⟨List.zipWith (· - ·) (cm.drop 1) (repeatRows a.shape.lengths offsets), a.shape⟩

/-- generic accumulate `op.accumulate(flat)` -/
def accumulateFrom {α : Type} (op : α → α → α) (acc : α) : List α → List α
  | [] => []
  | x :: xs => op acc x :: accumulateFrom op (op acc x) xs

def accumulate {α : Type} (op : α → α → α) : List α → List α
  | [] => []
  | x :: xs => x :: accumulateFrom op x xs

/-- `_row_accumulate(operator)` with `INVERSE_FUNCS[operator] = (inv0, inv1)`:
```
row_starts = np.minimum(starts, size - 1)
first = ravel[row_starts]; cm = operator.accumulate(ravel)
offsets = inv0(first, cm[row_starts])
return inv1(RaggedArray(cm, shape), offsets[:, None])
``` -/
def rowAccumulate {α : Type} (op inv0 inv1 : α → α → α) (a : RA α) : RA α :=
  if a.size = 0 then ⟨accumulate op a.data, a.shape⟩ else
  let rowStarts := a.shape.starts.map (fun s => min s (a.size - 1))
  let first := rowStarts.filterMap (a.data[·]?)
  let cm := accumulate op a.data
  let offsets := List.zipWith inv0 first (rowStarts.filterMap (cm[·]?))
  ⟨List.zipWith inv1 cm (repeatRows a.shape.lengths offsets), a.shape⟩

/-- `sort(axis=-1)`: `args = np.lexsort((ravel, index_array))` (stable, primary key = row, secondary
key = value), `ravel[args]` -/
def sortRows {α : Type} (le : α → α → Bool) (a : RA α) : RA α :=
  let keyed := a.shape.indexArray.zip a.data
  let sorted := keyed.mergeSort (fun p q => decide (p.1 < q.1) || (p.1 == q.1 && le p.2 q.2))
  ⟨sorted.map (·.2), a.shape⟩

/-- `unique(ra, axis=-1, return_counts=True)` as written (change mask on the sorted buffer,
`cumsum` of the mask, the `total_counts[-1] = 0` hack, counts by `diff(flatnonzero)`):
returns (unique values per row, counts per row) -/
def uniqueRows {α : Type} (le : α → α → Bool) (ne : α → α → Bool) (a : RA α) :
    Option (List (List α) × List (List Nat)) :=
  if a.size = 0 then some (a.rows, a.rows.map (fun _ => [])) else
  let s := (sortRows le a).data
  let mask0 : List Bool := true :: (List.zipWith ne s (s.drop 1)) ++ [true]   -- length size + 1
  let mask1 : List Bool := Np.scatterSet mask0 (a.shape.starts.map (fun i => (i, true)))
  let counts := Np.diff ((Np.flatnonzero mask1).map (fun (i : Nat) => (i : Int)))
  let total : List Int := Np.cumsum (mask1.map (fun b => if b then 1 else 0))
  let startCounts := a.shape.starts.filterMap (fun i => (total[i]?).map (· - 1))
  let total' := total.set (total.length - 1) 0                               -- ## HAHAHACK
  (a.shape.ends.mapM (fun (e : Nat) => Np.getIdx total' ((e : Int) - 1))).map (fun endCounts =>
    let newLens := (List.zipWith (· - ·) endCounts startCounts).map Int.toNat
    let mask2 := mask1.dropLast
    let newData := (s.zip mask2).filterMap (fun p => if p.2 then some p.1 else none)
    (cutRows newData newLens, cutRows (counts.map Int.toNat) newLens))

/-- `np.diff(flat, n)` -/
def diffN : Nat → List Int → List Int
  | 0, l => l
  | n + 1, l => diffN n (Np.diff l)

/-- `diff(ra, n, axis=-1)`:
`d = np.diff(ravel, n)`; `lengths = max(len - n, 0)`; gather through `RaggedView(starts, lengths)` -/
def diffRows (n : Nat) (a : RA Int) : Option (List (List Int)) :=
  let d := diffN n a.data
  let codes := a.shape.codes.map (fun c => (c.1, c.2 - n))
  materialiseView d codes

end Model
