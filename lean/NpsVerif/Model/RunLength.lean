import NpsVerif.Np.Basic
import NpsVerif.Spec.Py
import NpsVerif.Gen.Cur
/-!
# L layer: `runlengtharray.py` `RunLengthArray` (properties C14, C15, C16)

A run-length array is `events = [0 = e0 < e1 < … < ek = n]` plus one value per run.
The specification of everything here is `decode`: the dense list the runs stand for.
-/
namespace Model

structure RLA (α : Type) where
  events : List Nat
  values : List α
  deriving Repr, DecidableEq

/-- an XOR-like operation on bit patterns (what `.view(uintN)` + `bitwise_xor` provide) -/
class XorLike (α : Type) where
  xor : α → α → α
  zero : α
  xor_self : ∀ x, xor x x = zero
  xor_zero : ∀ x, xor x zero = x
  zero_xor : ∀ x, xor zero x = x
  xor_assoc : ∀ x y z, xor (xor x y) z = xor x (xor y z)
  xor_comm : ∀ x y, xor x y = xor y x

instance : XorLike Nat where
  xor := Nat.xor
  zero := 0
  xor_self := Nat.xor_self
  xor_zero := Nat.xor_zero
  zero_xor := Nat.zero_xor
  xor_assoc := Nat.xor_assoc
  xor_comm := Nat.xor_comm

instance : XorLike Bool where
  xor := Bool.xor
  zero := false
  xor_self := Bool.xor_self
  xor_zero := Bool.xor_false
  zero_xor := Bool.false_xor
  xor_assoc := Bool.xor_assoc
  xor_comm := Bool.xor_comm

namespace RLA
variable {α β γ : Type}

def strictInc : List Nat → Bool
  | a :: b :: rest => decide (a < b) && strictInc (b :: rest)
  | _ => true

/-- the three assertions of `RunLengthArray.__init__` -/
def validB (r : RLA α) : Bool :=
  (r.events.head? == some 0) && (r.events.length == r.values.length + 1) && strictInc r.events

def Valid (r : RLA α) : Prop := r.validB = true

/-- the constructor: refuses (AssertionError) unless the invariants hold -/
def mk? (events : List Nat) (values : List α) : Option (RLA α) :=
  if (RLA.mk events values).validB then some ⟨events, values⟩ else none

/-- `__len__` / `size`: `ends[-1]` (0 when there is no run) -/
def len (r : RLA α) : Nat := ((r.events.drop 1).getLast?).getD 0

/-- run lengths `np.diff(events)` -/
def runLens (ev : List Nat) : List Nat := List.zipWith (fun hi lo => hi - lo) (ev.drop 1) ev

/-- S: the dense array a run-length array stands for -/
def decode (r : RLA α) : List α :=
  (List.zipWith (fun l v => List.replicate l v) (runLens r.events) r.values).flatten

/-- `from_array(a)`: neighbour-inequality mask of length n+1, forced true at both ends,
`events = flatnonzero(mask)`, `values = a[events[:-1]]`.  `ne` is numpy's `!=` of the dtype
(NaN differs from itself). -/
def fromArray (ne : α → α → Bool) (a : List α) : RLA α :=
  let mask := match a with
    | [] => [true]
    | _ => true :: (List.zipWith ne a (a.drop 1)) ++ [true]
  let events := Np.flatnonzero mask
  ⟨events, events.dropLast.filterMap (a[·]?)⟩

def xorAccumulateFrom [XorLike α] (acc : α) : List α → List α
  | [] => []
  | x :: xs => XorLike.xor acc x :: xorAccumulateFrom (XorLike.xor acc x) xs

/-- `np.bitwise_xor.accumulate` -/
def xorAccumulate [XorLike α] (l : List α) : List α := xorAccumulateFrom XorLike.zero l

/-- `to_array()`: XOR of neighbouring values scattered at the run starts, then prefix-XOR -/
def toArray [XorLike α] (r : RLA α) : List α :=
  if r.len = 0 then [] else
  let starts := r.events.dropLast
  let diffs := List.zipWith XorLike.xor r.values.dropLast (r.values.drop 1)
  let arr := Np.scatterSet (List.replicate r.len XorLike.zero) ((starts.drop 1).zip diffs)
  let arr := match starts.head?, r.values.head? with
    | some s, some v => arr.set s v
    | _, _ => arr
  xorAccumulate arr

/-- `np.delete(l, idx)` -/
def deleteIdx {δ : Type} (l : List δ) (del : List Nat) : List δ :=
  (l.zipIdx.filter (fun p => !del.contains p.2)).map (·.1)

/-- `remove_empty_intervals(events, values)` (delete_first = True) -/
def removeEmpty (ev : List Nat) (vs : List α) : List Nat × List α :=
  let del := Np.flatnonzero (List.zipWith (fun a b => a == b) ev (ev.drop 1))
  (deleteIdx ev del, deleteIdx vs del)

/-- `join_runs(events, values)`; `eq` is numpy's `==` on values -/
def joinRuns (eq : α → α → Bool) (ev : List Nat) (vs : List α) : List Nat × List α :=
  let del := (Np.flatnonzero (List.zipWith eq (vs.drop 1) vs)).map (· + 1)
  (deleteIdx ev del, deleteIdx vs del)

/-- `_get_position(idx)` for one integer (after the bounds check) -/
def getPosition (r : RLA α) (i : Int) : Option α :=
  let n : Int := r.len
  if i < -n ∨ i ≥ n then none else
  let i' := (if i < 0 then n + i else i).toNat
  r.values[Np.searchsortedRightNat r.events i' - 1]?

/-- `_start_to_end(start, end)` for scalars: `(events, values)` of the sub-range -/
def startToEnd (r : RLA α) (s e : Nat) : List Nat × List α :=
  let si := Np.searchsortedRightNat r.events s - 1
  let ei := Np.searchsortedLeftNat r.events e
  let vals := Np.sliceNat r.values si ei
  let ev := (Np.sliceNat r.events si (ei + 1)).map (· - s)
  let ev := ev.set 0 0
  let ev := ev.set (ev.length - 1) (e - s)
  (ev, vals)

/-- the stride arithmetic of `RunLengthArray._step_subset` for a given (already clamped) step -/
def stepSubsetCore (eq : α → α → Bool) (r : RLA α) (step : Int) : List Nat × List α :=
  let k := step.natAbs
  let last := r.events.getLast?.getD 0
  let ev := if step < 0 then r.events.reverse.map (last - ·) else r.events
  let vs := if step < 0 then r.values.reverse else r.values
  let ev := ev.map (fun i => (i + k - 1) / k)
  let p := removeEmpty ev vs
  joinRuns eq p.1 p.2

/-- `RunLengthArray._step_subset(step)`: the step is clamped to the array length first (every step beyond the length selects the first position only) -/
def stepSubset (eq : α → α → Bool) (r : RLA α) (step : Int) : List Nat × List α :=
  let k : Int := ((min step.natAbs (max r.len 1) : Nat) : Int)
  stepSubsetCore eq r (if step < 0 then -k else k)

/-- `_get_slice(slice(a, b, k))`: bound normalisation through the generated kernel K8 -/
def getSlice (eq : α → α → Bool) (r : RLA α) (a b k : Option Int) : Option (RLA α) :=
  if k = some 0 then none else
  let t := Gen.Cur.rl_slice_bounds r.len a b k
  if t.2.2.2 then some ⟨[0], []⟩ else
  let p := startToEnd r t.1.toNat t.2.1.toNat
  (mk? p.1 p.2).bind (fun sub =>
    if sub.len ≠ (t.2.1 - t.1).toNat then none          -- `assert len(subset) == end - start`
    else if t.2.2.1 ≠ 1 then (let q := stepSubset eq sub t.2.2.1; mk? q.1 q.2) else some sub)

/-- `rla[starts:stops]`: one `_start_to_end` per (start, stop) pair (through `ragged_slice`) -/
def windows (r : RLA α) (ss es : List Nat) : List (List Nat × List α) :=
  List.zipWith (fun s e => startToEnd r s e) ss es

/-- `RunLengthRaggedArray.ravel()` of rows given as (events, values) -/
def ravelRows (rows : List (List Nat × List α)) : List Nat × List α :=
  let lens := rows.map (fun p => p.1.getLast?.getD 0)
  let offs := Np.exclScan lens
  let ev := (List.zipWith (fun p o => p.1.dropLast.map (· + o)) rows offs).flatten ++ [lens.sum]
  (ev, (rows.map (·.2)).flatten)

/-- `_getitem_bool(mask)` for a run-length boolean mask -/
def getitemBool (r : RLA α) (m : RLA Bool) : Option (RLA α) :=
  let runs := (m.events.dropLast.zip (m.events.drop 1)).zip m.values
  let sel := runs.filterMap (fun p => if p.2 then some p.1 else none)
  let p := ravelRows (windows r (sel.map (·.1)) (sel.map (·.2)))
  mk? p.1 p.2

/-- stable argsort (`np.argsort(kind="mergesort")`) -/
def stableArgsort (keys : List Nat) : List Nat :=
  ((keys.zipIdx).mergeSort (fun a b => decide (a.1 ≤ b.1))).map (·.2)

/-- `_apply_binary_func(first, other, ufunc)` -/
def binop (f : α → β → γ) (eq : γ → γ → Bool) (x : RLA α) (y : RLA β) : Option (RLA γ) :=
  if x.len ≠ y.len then none else
  let oc := ((y.events.drop 1).dropLast).map (fun e => Np.searchsortedRightNat x.events e - 1)
  let nvo := List.zipWith f (oc.filterMap (x.values[·]?)) (y.values.drop 1)
  let fc := ((x.events.drop 1).dropLast).map (fun e => Np.searchsortedRightNat y.events e - 1)
  let nvf := List.zipWith f (x.values.drop 1) (fc.filterMap (y.values[·]?))
  let events := x.events.dropLast ++ y.events.drop 1
  let v0 := match x.values.head?, y.values.head? with
    | some a, some b => [f a b]
    | _, _ => []
  let values := v0 ++ nvf ++ nvo
  let args := stableArgsort events
  let ev' := args.filterMap (events[·]?)
  let vs' := args.dropLast.filterMap (values[·]?)
  let p := removeEmpty ev' vs'
  let q := joinRuns eq p.1 p.2
  mk? q.1 q.2

/-- unary ufunc / ufunc with a scalar: applied to the run values, boundaries unchanged -/
def mapValues (g : α → β) (r : RLA α) : Option (RLA β) := mk? r.events (r.values.map g)

/-- `np.histogram(rla, bins, range)`: numpy's histogram of the RUN VALUES weighted by the run lengths; the
content of the bin selected by `p` is the total length of the runs whose value falls into it -/
def weightedCount (p : α → Bool) (r : RLA α) : Nat :=
  (List.zipWith (fun (l : Nat) (v : α) => if p v then l else 0) (runLens r.events) r.values).sum

/-- `sum()`: Σ run length · value -/
def sum (r : RLA Int) : Int :=
  (List.zipWith (fun (l : Nat) (v : Int) => (l : Int) * v) (runLens r.events) r.values).sum

/-- `np.concatenate([r1, r2, …])` -/
def concat (rs : List (RLA α)) : Option (RLA α) :=
  let sizes := rs.map (·.len)
  let offs := Np.exclScan sizes
  let ev := (List.zipWith (fun r o => r.events.dropLast.map (· + o)) rs offs).flatten ++ [sizes.sum]
  mk? ev ((rs.map (·.values)).flatten)

end RLA
end Model
