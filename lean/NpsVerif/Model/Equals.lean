import NpsVerif.Model.Shape
/-!
# L layer: `RaggedArray.equals`

```
def equals(self, other):
    t = np.all(self.ravel() == other.ravel())
    return t and (self._shape == other._shape)   # RaggedShape.__eq__: np.all(self._codes == other._codes)
```

numpy's `==` of two flat buffers of different sizes (neither of size 1) is a refusal / `False`; it is modelled
as: equal lengths and pointwise equal cells.  The shapes are compared on what Python compares: the stored
(start, length) codes of every row.
-/
namespace Model
namespace RA
variable {α : Type}

/-- `RaggedArray.equals`: same flat buffer (numpy `==` on all cells, `eq` being the cell test) and same shape codes -/
def equals (eq : α → α → Bool) (x y : RA α) : Bool :=
  (x.data.length == y.data.length && (List.zipWith eq x.data y.data).all id) && (x.shape.codes == y.shape.codes)

end RA
end Model
