import NpsVerif.Model.Ufunc
import NpsVerif.Model.Structural
import NpsVerif.Model.Reduce
import NpsVerif.Model.XorInt
/-!
# L layer: `argmax` / `argmin` along rows (property C05)

`RaggedArray._first_position_of(row_values)`: compare every cell with its row's entry of a column
vector (ufunc with an (n, 1) operand), take the coordinates of the true cells (`np.nonzero`, row-major),
keep the first coordinate of every row that has one (`np.unique(rows, return_index=True)`), scatter its
column into a zero vector.  `argmax` / `argmin` call it with the row maxima / minima
(`max/min(axis=-1, keepdims=True)`).
-/
namespace Model
variable {α : Type}

/-- `np.unique(rows, return_index=True)` on an ASCENDING list: (value, index of its first occurrence) -/
def uniqueFirst (rows : List Nat) : List (Nat × Nat) :=
  ((List.range rows.length).zip rows).filterMap (fun ir =>
    if ir.1 = 0 ∨ rows[ir.1 - 1]? ≠ some ir.2 then some (ir.2, ir.1) else none)

/-- `_first_position_of(row_values)` -/
def firstPositionOf [XorLike α] (eq : α → α → Bool) (a : RA α) (rowVals : List α) : Option (List Nat) :=
  (ufuncRight eq a (.column rowVals)).bind (fun m =>
    (nonzero m).map (fun rc =>
      let firsts := uniqueFirst rc.1
      Np.scatterSet (List.replicate a.len 0) (firsts.filterMap (fun p => (rc.2[p.2]?).map (fun c => (p.1, c))))))

/-- `np.maximum.reduce` / `np.minimum.reduce` of one row -/
def maxOf (l : List Int) : Int := l.foldl max (l.headD 0)
def minOf (l : List Int) : Int := l.foldl min (l.headD 0)

/-- `argmax(axis=-1)` -/
def argmaxRows (a : RA Int) : Option (List Nat) :=
  (reduceRows maxOf none 0 a).bind (firstPositionOf (fun x y => x == y) a)

/-- `argmin(axis=-1)` -/
def argminRows (a : RA Int) : Option (List Nat) :=
  (reduceRows minOf none 0 a).bind (firstPositionOf (fun x y => x == y) a)

end Model
