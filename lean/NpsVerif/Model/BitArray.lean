import NpsVerif.Gen.Cur
/-!
# L layer: `bitarray.py` `BitArray` (property C13)

Registers are natural numbers `< 2^64`; every left shift is followed by `% 2^64` (numpy `uint64`
arithmetic; a shift by 64 or more gives 0, validated in the N-layer validation).
`b` is the bit stride, `n = 64 / b` the number of entries per register.
-/
namespace Model.BitArray

def W : Nat := 2 ^ 64

/-- `array[i::n]` -/
def stride (a : List Nat) (i n : Nat) : List Nat :=
  (List.range ((a.length - i + n - 1) / n)).filterMap (fun k => a[i + k * n]?)

/-- numpy `uint64 << s` -/
def shl64 (x s : Nat) : Nat := if s ≥ 64 then 0 else (x <<< s) % W

/-- `bits[:size] |= xs` with `size = len xs` -/
def orPrefix : List Nat → List Nat → List Nat
  | b :: bs, x :: xs => (b ||| x) :: orPrefix bs xs
  | bs, [] => bs
  | [], _ => []

/-- `BitArray.pack(array, b)`: the data registers -/
def pack (a : List Nat) (b : Nat) : List Nat :=
  let n := 64 / b
  (List.range (n - 1)).foldl
    (fun bits i' => orPrefix bits ((stride a (i' + 1) n).map (fun x => shl64 (x % W) (b * (i' + 1)))))
    ((stride a 0 n).map (· % W))

/-- `unpack()`: `((data[:, None] >> shifts) & mask).ravel()[:len]` -/
def unpack (data : List Nat) (b len : Nat) : List Nat :=
  let n := 64 / b
  ((data.map (fun r => (List.range n).map (fun i => (r >>> (b * i)) &&& (2 ^ b - 1)))).flatten).take len

/-- `__getitem__(int)` for `0 ≤ idx` (offset 0): `(data[idx // n] >> ((idx % n) * b)) & mask`;
`none` when the register does not exist -/
def getitem (data : List Nat) (b idx : Nat) : Option Nat :=
  let n := 64 / b
  (data[idx / n]?).map (fun r => (r >>> ((idx % n) * b)) &&& (2 ^ b - 1))

/-- `__getitem__(int)` with the addressing arithmetic GENERATED from the current source (kernel K11
`bit_addr`: register number and in-register position of element `idx`, offset 0) -/
def getitemK (data : List Nat) (b idx : Nat) : Option Nat :=
  let a := Gen.Cur.bit_addr 0 ((64 / b : Nat) : Int) (idx : Int)
  if a.1 < 0 ∨ a.2 < 0 then none else
  (data[a.1.toNat]?).map (fun r => (r >>> (a.2.toNat * b)) &&& (2 ^ b - 1))

/-- `__getitem__(list)`: gather the elements, then `pack` them again -/
def getitemList (data : List Nat) (b : Nat) (is : List Nat) : Option (List Nat) :=
  (is.mapM (getitemK data b)).map (fun vals => pack vals b)

/-- `sliding_window(w)`:
`mask = ~0 >> (64 - w*b)`; `res = data[:, None] >> shifts`;
`res[:-1] |= data[1:, None] << (shifts[::-1] + b)`; `res &= mask`; `ravel()[: len - w + 1]` -/
def slidingWindow (data : List Nat) (b len w : Nat) : List Nat :=
  let n := 64 / b
  let mask := (W - 1) >>> (64 - w * b)
  let res : List (List Nat) := data.map (fun r => (List.range n).map (fun i => r >>> (b * i)))
  -- rev_shifts[i] = shifts[n-1-i] + b = b * (n - 1 - i) + b
  let nexts : List (Option Nat) := (data.drop 1).map some ++ [none]
  let spliced : List (List Nat) :=
    (res.zip nexts).map (fun rn =>
      match rn.2 with
      | none => rn.1                                    -- last register: `res[:-1]` excludes it
      | some nxt => (rn.1.zip (List.range n)).map (fun xi => xi.1 ||| shl64 nxt (b * (n - 1 - xi.2) + b)))
  ((spliced.map (fun row => row.map (· &&& mask))).flatten).take (len - w + 1)

/-- S: the packed array as one number, `Σ a[i] · 2^(b·i)` -/
def stream (b : Nat) : List Nat → Nat
  | [] => 0
  | x :: xs => x + 2 ^ b * stream b xs

end Model.BitArray
