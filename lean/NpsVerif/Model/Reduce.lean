import NpsVerif.Model.Shape
/-!
# L layer: row reductions (property C05)

Transliteration of `RaggedArray._reduce` (segment reduction by `ufunc.reduceat`, trimming of
trailing empty rows, padding, identity patch-up) and of the `reduction` wrapper.
-/
namespace Model

/-- `ufunc.reduceat(a, idx)`: for every `i`, the reduction of `a[idx[i] : idx[i+1]]` when
`idx[i] < idx[i+1]`, otherwise the single element `a[idx[i]]` (as a one-element reduction); the
last index reduces to the end; an index `≥ len a` is an `IndexError`. -/
def reduceat {α β : Type} (red : List α → β) (a : List α) (idx : List Nat) : Option (List β) :=
  if idx.any (fun i => decide (a.length ≤ i)) then none else
  some ((idx.zip (idx.drop 1 ++ [a.length])).map (fun ij =>
    if ij.1 < ij.2 then red (Np.sliceNat a ij.1 ij.2) else red (Np.sliceNat a ij.1 (ij.1 + 1))))

/-- `_reduce(ufunc, ra)`; `ident = ufunc.identity` (`none` for maximum / minimum, then empty rows
are padded with `pad0` and otherwise left as `reduceat` produced them). -/
def reduceRows {α β : Type} (red : List α → β) (ident : Option β) (pad0 : β) (a : RA α) : Option (List β) :=
  let lens := a.shape.lengths
  let starts := a.shape.starts
  let padv := ident.getD pad0
  let res : Option (List β) :=
    if a.size = 0 then some (List.replicate a.len padv)
    else if lens.getLast? = some 0 then
      let k := Np.searchsortedLeftNat starts (starts.getLast?.getD 0)
      (reduceat red a.data (starts.take k)).map (fun r => r ++ List.replicate (starts.length - k) padv)
    else reduceat red a.data starts
  match ident with
  | none => res
  | some e => res.map (fun r => (r.zip lens).map (fun p => if p.2 = 0 then e else p.1))

/-- what `ufunc.reduceat` computes for one non-empty segment: a left fold from the segment's FIRST cell (the identity is
not involved) -/
def seg1 {α : Type} (op : α → α → α) (e : α) : List α → α
  | [] => e
  | x :: xs => xs.foldl op x

/-- `_reduce` for a ufunc with identity `e` after the repair of F05h: segment folds by `reduceat`, empty rows set to `e`,
then `ufunc(e, result)` for every row -/
def reduceRowsFold {α : Type} (op : α → α → α) (e : α) (a : RA α) : Option (List α) :=
  (reduceRows (seg1 op e) (some e) e a).map (List.map (op e))

end Model
