import NpsVerif.Model.RunLength
import NpsVerif.Model.Scan
/-!
# L layer: `RunLength2dArray` / `RunLengthRaggedArray` (property C17)

Both classes store two ragged arrays, `_indices` (run boundaries per row, relative to the row) and
`_values` (run values per row), plus an optional common row length `_row_len`:
* `RunLength2dArray.from_array` keeps one boundary per value (row `i` has `k_i` starts and `k_i`
  values) and the row end is `_row_len`;
* `RunLengthRaggedArray.from_ragged_array` stores the row end as a last boundary (`k_i + 1`
  boundaries for `k_i` values) and `_row_len = None`.
The model is written against the list-of-rows meaning of the RaggedArray operations used
(C02–C09 theorems); every row is read back as a `RunLengthArray` exactly as
`IndexableMixin.__getitem__(int)` does.
-/
namespace Model

structure RL2 (α : Type) where
  indices : List (List Nat)
  values : List (List α)
  rowLen : Option Nat
  deriving Repr, DecidableEq

namespace RL2
variable {α β : Type}

/-- the events of row `i`: its boundaries, plus `_row_len` when there is one -/
def rowEvents (r : RL2 α) (ix : List Nat) : List Nat :=
  match r.rowLen with
  | none => ix
  | some L => ix ++ [L]

/-- `self[i]` for an integer `i` (`IndexableMixin.__getitem__`): the row as a `RunLengthArray`
(constructor assertions included) -/
def row (r : RL2 α) (i : Nat) : Option (RLA α) :=
  match r.indices[i]?, r.values[i]? with
  | some ix, some vs => RLA.mk? (r.rowEvents ix) vs
  | _, _ => none

/-- `to_array()`: every row decoded -/
def toRows (r : RL2 α) : Option (List (List α)) :=
  (List.range r.indices.length).mapM (fun i => (r.row i).map RLA.decode)

def len (r : RL2 α) : Nat := r.indices.length

/-- the change mask of one row, first position forced: positions `j` with `j = 0` or `ne a[j-1] a[j]` -/
def changeStarts (ne : α → α → Bool) (a : List α) : List Nat :=
  Np.flatnonzero (match a with
    | [] => []
    | _ :: _ => true :: List.zipWith ne a (a.drop 1))

/-- `RunLength2dArray.from_array(matrix)`: change mask per row with the first AND the last column
forced to start a run; boundaries relative to the row; `_row_len` = number of columns -/
def fromMatrix (ne : α → α → Bool) (m : List (List α)) (ncols : Nat) : RL2 α :=
  let starts := m.map (fun a =>
    let s := changeStarts ne a
    if a.length ≥ 1 ∧ ¬ s.contains (a.length - 1) then s ++ [a.length - 1] else s)
  ⟨starts, List.zipWith (fun (a : List α) s => s.filterMap (a[·]?)) m starts, some ncols⟩

/-- `RunLengthRaggedArray.from_ragged_array(ra)` for rows of length ≥ 1: change positions per row
(row start forced) merged with the row end -/
def fromRagged (ne : α → α → Bool) (rows : List (List α)) : RL2 α :=
  let starts := rows.map (changeStarts ne)
  ⟨List.zipWith (fun (a : List α) s => s ++ [a.length]) rows starts,
   List.zipWith (fun (a : List α) s => s.filterMap (a[·]?)) rows starts, none⟩

/-- `from_intervals(starts, ends, row_len, value)`: row `i` is `value` on `[start_i, end_i)` and 0
elsewhere -/
def fromIntervals (zero one : α) (ivs : List (Nat × Nat)) (L : Nat) : RL2 α :=
  ⟨ivs.map (fun se => (if se.1 > 0 then [0] else []) ++ [se.1] ++ (if se.2 < L then [se.2] else [])),
   ivs.map (fun se => (if se.1 > 0 then [zero] else []) ++ [one] ++ (if se.2 < L then [zero] else [])),
   some L⟩

/-- row selection `rl[rows]` (slice / list / mask): the same rows of both ragged arrays -/
def selectRows (r : RL2 α) (sel : RowSel) : Option (RL2 α) :=
  match Py.selectRows r.indices sel, Py.selectRows r.values sel with
  | some ix, some vs => some ⟨ix, vs, r.rowLen⟩
  | _, _ => none

/-- `rl[i, j]`: element `j` of row `i` (through the row's `RunLengthArray`) -/
def element (r : RL2 α) (i : Int) (j : Int) : Option α :=
  (Np.normIdx r.len i).bind (fun i' => (r.row i').bind (fun rla => rla.getPosition j))

/-- `rl[rows, j]` on the ragged variant: per row the value of the run containing column `j`
(negative `j` from the row end): `mask = (indices[:, :-1] <= j) & (indices[:, 1:] > j)` -/
def columnInt (r : RL2 α) (j : Int) : List α :=
  (r.indices.zip r.values).flatMap (fun iv =>
    let ix := iv.1
    let col : Int := if j < 0 then (ix.getLast?.getD 0 : Nat) + j else j
    ((ix.zip (ix.drop 1)).zip iv.2).filterMap (fun p =>
      if (p.1.1 : Int) ≤ col ∧ col < (p.1.2 : Int) then some p.2 else none))


/-! ### column ranges `rl[rows, start:stop:step]` on the ragged variant (`_getitem_tuple`, slice branch)

Per row: find the run containing the (clamped) start / stop column by a mask over the runs, cut the
boundary and value rows with `ragged_slice`, overwrite the first / last boundary with the exact
columns, shift to 0, then `_step_subset` (mirror for a negative step, ceil-divide by `|step|`, drop the
runs that became empty).  `np.nonzero` of the START mask must hit exactly once per row (otherwise the
per-row columns are misaligned): the model refuses (`none`) when it does not. -/

/-- runs of one row as (run number, lo, hi) -/
def runBounds (ix : List Nat) : List (Nat × Int × Int) :=
  (List.range (ix.length - 1)).zip ((ix.zip (ix.drop 1)).map (fun p => ((p.1 : Int), (p.2 : Int))))

def findRun (ix : List Nat) (p : Int → Int → Bool) : Option Nat :=
  ((runBounds ix).find? (fun r => p r.2.1 r.2.2)).map (·.1)

/-- `np.minimum(L, b)` for `b ≥ 0`, `np.maximum(0, L + b)` otherwise -/
def clampCol (L : Int) (b : Int) : Int := if b ≥ 0 then min L b else max 0 (L + b)

/-- `RunLengthRaggedArray.remove_empty_intervals` on one row: keep boundary 0 and every boundary that
differs from its predecessor; keep the values of the non-empty runs -/
def removeEmptyRow (i : List Int) (v : List α) : List Int × List α :=
  let keep := List.zipWith (fun a b => decide (a ≠ b)) i (i.drop 1)
  (i.take 1 ++ ((i.drop 1).zip keep).filterMap (fun p => if p.2 then some p.1 else none),
   (v.zip keep).filterMap (fun p => if p.2 then some p.1 else none))

/-- `_step_subset(step, indices, values)` on one row (boundaries already start at 0) -/
def stepSubsetRow (step : Int) (i : List Int) (v : List α) : List Int × List α :=
  let last := i.getLast?.getD 0
  let i := if step < 0 then i.reverse.map (last - ·) else i
  let v := if step < 0 then v.reverse else v
  let k : Int := step.natAbs
  let i := if k ≠ 1 then i.map (fun x => (x + k - 1) / k) else i
  removeEmptyRow i v

/-- `l[a:b]` for `0 ≤ a`, bounds as numpy clips them (`none` = open) -/
def cut {β : Type} (l : List β) (a : Option Int) (b : Option Int) : List β :=
  let a' := (a.getD 0).toNat
  match b with
  | none => l.drop a'
  | some b => (l.drop a').take (b.toNat - a')

/-- one row of `rl[:, start:stop:step]`; `none` = the start mask has no hit (misaligned columns), a
boundary / value count mismatch, or a negative boundary: outside the property's domain -/
def colRangeRow (ix : List Nat) (vs : List α) (start stop : Option Int) (step : Int) :
    Option (List Nat × List α) :=
  let k := ix.length - 1
  let L : Int := ((ix.getLast?.getD 0 : Nat) : Int)
  let rev := decide (step < 0)
  let startR := start.map (clampCol L)
  let stopR := stop.map (clampCol L)
  -- the two mask searches; `startCol = none` / `stopCol = none` mean Python's `None`
  let fromStop : Option Int := stopR.map (fun b =>
    if rev then ((findRun ix (fun lo hi => decide (lo ≤ b + 1 ∧ hi > b + 1))).getD k : Nat)
    else match findRun ix (fun lo hi => decide (hi ≥ b ∧ lo < b)) with
      | some j => (j : Int)
      | none => -1)
  let fromStart : Option (Option Int) := match startR with
    | none => some none
    | some a =>
      (if rev then findRun ix (fun lo hi => decide (hi ≥ a + 1 ∧ lo < a + 1))
       else findRun ix (fun lo hi => decide (lo ≤ a ∧ hi > a))).map (fun j => some (j : Int))
  fromStart.bind (fun fromStart =>
  let startCol : Option Int := if rev then fromStop else fromStart
  let stopCol : Option Int := if rev then fromStart else fromStop
  let r : Bool × List Int × List α :=
    match startCol, stopCol with
    | none, none => (false, ix.map (fun (x : Nat) => (x : Int)), vs)
    | _, _ =>
      let s := startCol
      let e := stopCol.map (· + 2)
      let e2 := stopCol.map (· + 1)
      let (isEmpty, e, e2) := match s, e, e2 with
        | some s', some e', some e2' => (decide (s' ≥ e'), some (max (s' + 1) e'), some (max s' e2'))
        | _, _, _ => (false, e, e2)
      let i : List Int := (cut ix s e).map (fun (x : Nat) => (x : Int))
      let v := cut vs s e2
      let i := if rev then
          (let i := match startR with | some a => i.set (i.length - 1) (a + 1) | none => i
           match stopR with | some b => i.set 0 (b + 1) | none => i)
        else
          (let i := match stopR with | some b => i.set (i.length - 1) b | none => i
           match startR with | some a => i.set 0 a | none => i)
      let i0 := i.headD 0
      (isEmpty, i.map (· - i0), v)
  let p := stepSubsetRow step r.2.1 r.2.2
  let i := if r.1 then p.1.set 0 0 else p.1
  if i.length = p.2.length + 1 ∧ i.all (fun x => decide (0 ≤ x)) then some (i.map Int.toNat, p.2) else none)

/-- `rl[rows, start:stop:step]` (ragged variant, `step ≠ 0`) -/
def colRange (r : RL2 α) (sel : RowSel) (start stop : Option Int) (step : Int) : Option (RL2 α) :=
  (r.selectRows sel).bind (fun rows =>
    if rows.indices.isEmpty then some rows else
    let obviouslyEmpty := match start, stop with
      | some a, some b => (decide (step < 0) && decide (a ≤ b) && decide (a > 0)) ||
                          (!decide (step < 0) && decide (a ≥ b) && decide (b > 0))
      | _, _ => false
    if obviouslyEmpty then some ⟨rows.indices.map (fun _ => [0]), rows.indices.map (fun _ => []), none⟩ else
    ((rows.indices.zip rows.values).mapM (fun iv => colRangeRow iv.1 iv.2 start stop step)).map
      (fun rs => ⟨rs.map (·.1), rs.map (·.2), none⟩))

/-- run lengths of a row -/
def rowRunLens (r : RL2 α) (ix : List Nat) : List Nat := RLA.runLens (r.rowEvents ix)

/-- `sum(axis=-1)`: Σ run length · value per row -/
def rowSums (r : RL2 Int) : List Int :=
  (r.indices.zip r.values).map (fun iv =>
    (List.zipWith (fun (l : Nat) (v : Int) => (l : Int) * v) (r.rowRunLens iv.1) iv.2).sum)

/-- `any / all / max (axis=-1)`: reductions over the run values of each row -/
def rowReduce (red : List α → β) (r : RL2 α) : List β := r.values.map red

/-- unary ufunc, ufunc with a scalar, and ufunc with an (n_rows, 1) column on either side:
applied to the run values row by row (`g i v` gets the row index) -/
def mapValues (g : Nat → α → β) (r : RL2 α) : RL2 β :=
  ⟨r.indices, (List.range r.values.length).zip r.values |>.map (fun iv => iv.2.map (g iv.1)), r.rowLen⟩

/-- `RunLengthRaggedArray.ravel()`: rows laid end to end as one `RunLengthArray`
(`indices[:, :-1] + offsets[:-1]`, final boundary = total) -/
def ravel (r : RL2 α) : Option (RLA α) :=
  let lens := r.indices.map (fun ix => ix.getLast?.getD 0)
  let offs := Np.exclScan lens
  RLA.mk? ((List.zipWith (fun (ix : List Nat) o => ix.dropLast.map (· + o)) r.indices offs).flatten ++ [lens.sum])
          r.values.flatten

/-- `np.concatenate` of ragged run-length arrays: rows of all operands -/
def concat (rs : List (RL2 α)) : RL2 α :=
  ⟨(rs.map (·.indices)).flatten, (rs.map (·.values)).flatten, none⟩

/-- `col_counts()` of the ragged variant: number of rows longer than `j`, as a run-length array
(`unique(row lengths)` with counts, cumulative) -/
def colCounts (r : RL2 α) : Option (RLA Int) :=
  let lens := r.indices.map (fun ix => ix.getLast?.getD 0)
  let uniq := (lens.mergeSort (fun a b => decide (a ≤ b))).eraseDups
  let counts := uniq.map (fun u => lens.count u)
  let cum := Np.cumsumNat counts
  RLA.mk? (0 :: uniq) ((0 :: cum).dropLast.map (fun (c : Nat) => ((r.len : Int) - (c : Int))))

/-- `_col_sum()` (`sum(axis=0)`): all boundaries of all rows sorted stably; at each boundary the sum
changes by (value of the run starting there) − (value of the run ending there) -/
def colSum (r : RL2 Int) : Option (RLA Int) :=
  let positions := r.indices.flatten
  let L := match r.rowLen with
    | some l => l
    | none => positions.foldl max 0
  -- per row: values (padded with a trailing 0 when the row end is a stored boundary)
  let vals : List (List Int) := match r.rowLen with
    | some _ => r.values
    | none => r.values.map (· ++ [0])
  -- differences within the row, first entry = first value
  let deltas : List Int := (vals.map (fun vs => match vs with
    | [] => []
    | v :: rest => v :: List.zipWith (fun nxt prev => nxt - prev) rest (v :: rest))).flatten
  let args := RLA.stableArgsort positions
  let dv := Np.cumsum (args.filterMap (deltas[·]?))
  let ps := args.filterMap (positions[·]?) ++ [L]
  let p := RLA.removeEmpty ps dv
  RLA.mk? p.1 p.2

end RL2
end Model
