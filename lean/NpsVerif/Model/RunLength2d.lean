import NpsVerif.Model.RunLength
import NpsVerif.Model.Scan
/-!
# L layer: `RunLength2dArray` / `RunLengthRaggedArray` (property C17)

Both classes store two ragged arrays, `_indices` (run boundaries per row, relative to the row) and
`_values` (run values per row), plus an optional common row length `_row_len`:
* `RunLength2dArray.from_array` keeps one boundary per value (row `i` has `k_i` starts and `k_i`
  values) and the row end is `_row_len`;
* `RunLengthRaggedArray.from_ragged_array` stores the row end as a last boundary (`k_i + 1`
  boundaries for `k_i` values) and `_row_len = None`.
The model is written against the list-of-rows meaning of the RaggedArray operations used
(C02–C09 theorems); every row is read back as a `RunLengthArray` exactly as
`IndexableMixin.__getitem__(int)` does.
-/
namespace Model

structure RL2 (α : Type) where
  indices : List (List Nat)
  values : List (List α)
  rowLen : Option Nat
  deriving Repr, DecidableEq

namespace RL2
variable {α β : Type}

/-- the events of row `i`: its boundaries, plus `_row_len` when there is one -/
def rowEvents (r : RL2 α) (ix : List Nat) : List Nat :=
  match r.rowLen with
  | none => ix
  | some L => ix ++ [L]

/-- `self[i]` for an integer `i` (`IndexableMixin.__getitem__`): the row as a `RunLengthArray`
(constructor assertions included) -/
def row (r : RL2 α) (i : Nat) : Option (RLA α) :=
  match r.indices[i]?, r.values[i]? with
  | some ix, some vs => RLA.mk? (r.rowEvents ix) vs
  | _, _ => none

/-- `to_array()`: every row decoded -/
def toRows (r : RL2 α) : Option (List (List α)) :=
  (List.range r.indices.length).mapM (fun i => (r.row i).map RLA.decode)

def len (r : RL2 α) : Nat := r.indices.length

/-- the change mask of one row, first position forced: positions `j` with `j = 0` or `ne a[j-1] a[j]` -/
def changeStarts (ne : α → α → Bool) (a : List α) : List Nat :=
  Np.flatnonzero (match a with
    | [] => []
    | _ :: _ => true :: List.zipWith ne a (a.drop 1))

/-- `RunLength2dArray.from_array(matrix)`: change mask per row with the first AND the last column
forced to start a run; boundaries relative to the row; `_row_len` = number of columns -/
def fromMatrix (ne : α → α → Bool) (m : List (List α)) (ncols : Nat) : RL2 α :=
  let starts := m.map (fun a =>
    let s := changeStarts ne a
    if a.length ≥ 1 ∧ ¬ s.contains (a.length - 1) then s ++ [a.length - 1] else s)
  ⟨starts, List.zipWith (fun (a : List α) s => s.filterMap (a[·]?)) m starts, some ncols⟩

/-- `RunLengthRaggedArray.from_ragged_array(ra)` for rows of length ≥ 1: change positions per row
(row start forced) merged with the row end -/
def fromRagged (ne : α → α → Bool) (rows : List (List α)) : RL2 α :=
  let starts := rows.map (changeStarts ne)
  ⟨List.zipWith (fun (a : List α) s => s ++ [a.length]) rows starts,
   List.zipWith (fun (a : List α) s => s.filterMap (a[·]?)) rows starts, none⟩

/-- `from_intervals(starts, ends, row_len, value)`: row `i` is `value` on `[start_i, end_i)` and 0
elsewhere -/
def fromIntervals (zero one : α) (ivs : List (Nat × Nat)) (L : Nat) : RL2 α :=
  ⟨ivs.map (fun se => (if se.1 > 0 then [0] else []) ++ [se.1] ++ (if se.2 < L then [se.2] else [])),
   ivs.map (fun se => (if se.1 > 0 then [zero] else []) ++ [one] ++ (if se.2 < L then [zero] else [])),
   some L⟩

/-- row selection `rl[rows]` (slice / list / mask): the same rows of both ragged arrays -/
def selectRows (r : RL2 α) (sel : RowSel) : Option (RL2 α) :=
  match Py.selectRows r.indices sel, Py.selectRows r.values sel with
  | some ix, some vs => some ⟨ix, vs, r.rowLen⟩
  | _, _ => none

/-- `rl[i, j]`: element `j` of row `i` (through the row's `RunLengthArray`) -/
def element (r : RL2 α) (i : Int) (j : Int) : Option α :=
  (Np.normIdx r.len i).bind (fun i' => (r.row i').bind (fun rla => rla.getPosition j))

/-- `rl[rows, j]` on the ragged variant: per row the value of the run containing column `j`
(negative `j` from the row end): `mask = (indices[:, :-1] <= j) & (indices[:, 1:] > j)` -/
def columnInt (r : RL2 α) (j : Int) : List α :=
  (r.indices.zip r.values).flatMap (fun iv =>
    let ix := iv.1
    let col : Int := if j < 0 then (ix.getLast?.getD 0 : Nat) + j else j
    ((ix.zip (ix.drop 1)).zip iv.2).filterMap (fun p =>
      if (p.1.1 : Int) ≤ col ∧ col < (p.1.2 : Int) then some p.2 else none))

/-- run lengths of a row -/
def rowRunLens (r : RL2 α) (ix : List Nat) : List Nat := RLA.runLens (r.rowEvents ix)

/-- `sum(axis=-1)`: Σ run length · value per row -/
def rowSums (r : RL2 Int) : List Int :=
  (r.indices.zip r.values).map (fun iv =>
    (List.zipWith (fun (l : Nat) (v : Int) => (l : Int) * v) (r.rowRunLens iv.1) iv.2).sum)

/-- `any / all / max (axis=-1)`: reductions over the run values of each row -/
def rowReduce (red : List α → β) (r : RL2 α) : List β := r.values.map red

/-- unary ufunc, ufunc with a scalar, and ufunc with an (n_rows, 1) column on either side:
applied to the run values row by row (`g i v` gets the row index) -/
def mapValues (g : Nat → α → β) (r : RL2 α) : RL2 β :=
  ⟨r.indices, (List.range r.values.length).zip r.values |>.map (fun iv => iv.2.map (g iv.1)), r.rowLen⟩

/-- `RunLengthRaggedArray.ravel()`: rows laid end to end as one `RunLengthArray`
(`indices[:, :-1] + offsets[:-1]`, final boundary = total) -/
def ravel (r : RL2 α) : Option (RLA α) :=
  let lens := r.indices.map (fun ix => ix.getLast?.getD 0)
  let offs := Np.exclScan lens
  RLA.mk? ((List.zipWith (fun (ix : List Nat) o => ix.dropLast.map (· + o)) r.indices offs).flatten ++ [lens.sum])
          r.values.flatten

/-- `np.concatenate` of ragged run-length arrays: rows of all operands -/
def concat (rs : List (RL2 α)) : RL2 α :=
  ⟨(rs.map (·.indices)).flatten, (rs.map (·.values)).flatten, none⟩

/-- `col_counts()` of the ragged variant: number of rows longer than `j`, as a run-length array
(`unique(row lengths)` with counts, cumulative) -/
def colCounts (r : RL2 α) : Option (RLA Int) :=
  let lens := r.indices.map (fun ix => ix.getLast?.getD 0)
  let uniq := (lens.mergeSort (fun a b => decide (a ≤ b))).eraseDups
  let counts := uniq.map (fun u => lens.count u)
  let cum := Np.cumsumNat counts
  RLA.mk? (0 :: uniq) ((0 :: cum).dropLast.map (fun (c : Nat) => ((r.len : Int) - (c : Int))))

/-- `_col_sum()` (`sum(axis=0)`): all boundaries of all rows sorted stably; at each boundary the sum
changes by (value of the run starting there) − (value of the run ending there) -/
def colSum (r : RL2 Int) : Option (RLA Int) :=
  let positions := r.indices.flatten
  let L := match r.rowLen with
    | some l => l
    | none => positions.foldl max 0
  -- per row: values (padded with a trailing 0 when the row end is a stored boundary)
  let vals : List (List Int) := match r.rowLen with
    | some _ => r.values
    | none => r.values.map (· ++ [0])
  -- differences within the row, first entry = first value
  let deltas : List Int := (vals.map (fun vs => match vs with
    | [] => []
    | v :: rest => v :: List.zipWith (fun nxt prev => nxt - prev) rest (v :: rest))).flatten
  let args := RLA.stableArgsort positions
  let dv := Np.cumsum (args.filterMap (deltas[·]?))
  let ps := args.filterMap (positions[·]?) ++ [L]
  let p := RLA.removeEmpty ps dv
  RLA.mk? p.1 p.2

end RL2
end Model
