import NpsVerif.Model.RunLength2d
/-!
# L layer: `RunLength2dArray.any(axis=0)` (`_col_any`, property C17)

Union of the True intervals of all rows by a sweep over two independently sorted lists: the starts of
the True runs and the ends of the True runs (a True run reaching the row end has no stored end: padded
with `_row_len`).  A new component starts at `starts[i]` exactly when `starts[i] > ends[i-1]`.
-/
namespace Model
namespace RL2

/-- `RunLength2dArray.join_runs` on one row: keep run `j` iff `j = 0` or its value differs from run `j-1` -/
def joinRunsRow (ix : List Nat) (vs : List Bool) : List Nat × List Bool :=
  let keep := (List.range vs.length).map (fun j => decide (j = 0) || (vs[j - 1]? != vs[j]?))
  (((ix.zip keep).filterMap (fun p => if p.2 then some p.1 else none)),
   ((vs.zip keep).filterMap (fun p => if p.2 then some p.1 else none)))

/-- `sort(kind="mergesort")` of integers (values only: any correct sort; insertion sort is structural,
so concrete instances reduce in the kernel) -/
def insertNat (x : Nat) : List Nat → List Nat
  | [] => [x]
  | y :: ys => if x ≤ y then x :: y :: ys else y :: insertNat x ys
def sortNat (l : List Nat) : List Nat := l.foldr insertNat []

/-- `np.maximum.accumulate` -/
def cummax : List Nat → List Nat
  | [] => []
  | x :: xs => x :: (cummaxFrom x xs)
where cummaxFrom (m : Nat) : List Nat → List Nat
  | [] => []
  | y :: ys => max m y :: cummaxFrom (max m y) ys

/-- `_col_any()` -/
def colAny (r : RL2 Bool) : Option (RLA Bool) :=
  match r.rowLen with
  | none => none
  | some L =>
    let rows := (r.indices.zip r.values).map (fun iv => joinRunsRow iv.1 iv.2)
    let starts := sortNat (rows.flatMap (fun p => (p.1.zip p.2).filterMap (fun q => if q.2 then some q.1 else none)))
    let ends := sortNat (rows.flatMap (fun p => ((p.1.zip p.2).drop 1).filterMap (fun q => if !q.2 then some q.1 else none)))
    let ends := cummax ends
    let ends := ends ++ List.replicate (starts.length - ends.length) L
    let n := starts.length
    -- valid_mask (n + 1 entries): first and last forced, otherwise starts[i] > ends[i-1]
    let mask : List Bool := (List.range (n + 1)).map (fun i =>
      decide (i = 0) || decide (i = n) || decide ((starts[i]?.getD 0) > (ends[i - 1]?.getD 0)))
    let starts' := (starts.zip mask).filterMap (fun p => if p.2 then some p.1 else none)
    let ends' := (ends.zip (mask.drop 1)).filterMap (fun p => if p.2 then some p.1 else none)
    let indices := (starts'.zip ends').flatMap (fun p => [p.1, p.2])
    let values := (starts'.zip ends').flatMap (fun _ => [true, false])
    let (indices, values) := if starts'.isEmpty || starts'.head? != some 0 then (0 :: indices, false :: values) else (indices, values)
    let (indices, values) := if indices.getLast? == some L then (indices, values.dropLast) else (indices ++ [L], values)
    RLA.mk? indices values

end RL2
end Model
