import NpsVerif.Gen.BridgeTac
set_option linter.unusedVariables false
namespace Gen.Bridge
/-- reachable domain of K1: only called from the negative-step branch of `col_slice` -/
theorem calc_lengths_bridge (len : Int) (a b : Option Int) (s : Int) (hl : 0 ≤ len) (hs : s < 0) :
    Cur.calc_lengths len a b (some s) = Ref.calc_lengths len a b (some s) := by
  first
    | rfl
    | (unfold Cur.calc_lengths Ref.calc_lengths; cases a <;> cases b <;> simp only [] <;> bridge_arith)

theorem calc_lengths_pre_bridge (len : Int) (a b : Option Int) (s : Option Int) :
    Cur.calc_lengths_pre len a b s = Ref.calc_lengths_pre len a b s := by
  first
    | rfl
    | (unfold Cur.calc_lengths_pre Ref.calc_lengths_pre; cases a <;> cases b <;> cases s <;> simp only [] <;> bridge_arith)
end Gen.Bridge
