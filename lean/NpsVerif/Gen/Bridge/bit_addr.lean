import NpsVerif.Gen.BridgeTac
set_option linter.unusedVariables false
namespace Gen.Bridge
/-- K11: register number and in-register position; there is at least one entry per register -/
theorem bit_addr_bridge (off npr idx : Int) (hn : 0 < npr) : Cur.bit_addr off npr idx = Ref.bit_addr off npr idx := by
  first
    | rfl
    | (unfold Cur.bit_addr Ref.bit_addr; bridge_arith)
end Gen.Bridge
