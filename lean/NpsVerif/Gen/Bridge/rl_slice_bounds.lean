import NpsVerif.Gen.BridgeTac
set_option linter.unusedVariables false
namespace Gen.Bridge
/-- K8: slice normalisation of `RunLengthArray._get_slice` (step ≠ 0; `n` = array length ≥ 0) -/
theorem rl_slice_bounds_bridge (n : Int) (a b k : Option Int) (hn : 0 ≤ n) (hk : k ≠ some 0) :
    Cur.rl_slice_bounds n a b k = Ref.rl_slice_bounds n a b k := by
  first
    | rfl
    | (unfold Cur.rl_slice_bounds Ref.rl_slice_bounds sliceIndices Py.adjStart Py.adjStop
       cases a <;> cases b <;> cases k <;> simp only [Option.getD] <;> bridge_arith)
end Gen.Bridge
