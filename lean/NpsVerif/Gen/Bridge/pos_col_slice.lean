import NpsVerif.Gen.BridgeTac
set_option linter.unusedVariables false
namespace Gen.Bridge
/-- reachable domain of K2: `assert col_slice.step > 0`, row lengths are non-negative -/
theorem pos_col_slice_bridge (len start0 cstep : Int) (a b : Option Int) (s : Int) (hl : 0 ≤ len) (hs : 0 < s) :
    Cur.pos_col_slice len start0 cstep a b s = Ref.pos_col_slice len start0 cstep a b s := by
  first
    | rfl
    | (unfold Cur.pos_col_slice Ref.pos_col_slice; cases a <;> cases b <;> simp only [] <;> bridge_arith)

theorem pos_col_slice_pre_bridge (len start0 cstep : Int) (a b : Option Int) (s : Int) :
    Cur.pos_col_slice_pre len start0 cstep a b s = Ref.pos_col_slice_pre len start0 cstep a b s := by
  first
    | rfl
    | (unfold Cur.pos_col_slice_pre Ref.pos_col_slice_pre; bridge_arith)
end Gen.Bridge
