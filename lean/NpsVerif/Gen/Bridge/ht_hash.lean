import NpsVerif.Gen.BridgeTac
set_option linter.unusedVariables false
namespace Gen.Bridge
/-- K10: bucket of a key; the modulus is positive -/
theorem ht_hash_bridge (m k : Int) (hm : 0 < m) : Cur.ht_hash m k = Ref.ht_hash m k := by
  first
    | rfl
    | (unfold Cur.ht_hash Ref.ht_hash; bridge_arith)

theorem ht_mod_bridge (n : Int) (hn : 0 < n) : Cur.ht_mod n = Ref.ht_mod n := by
  first
    | rfl
    | (unfold Cur.ht_mod Ref.ht_mod; bridge_arith)
end Gen.Bridge
