import NpsVerif.Gen.Bridge.view2_ends
set_option linter.unusedVariables false
namespace Gen.Bridge
/-- K3 (integer branch) -/
theorem col_slice_int_bridge (len start0 cstep idx : Int) (hl : 0 ≤ len) :
    Cur.col_slice_int len start0 cstep idx = Ref.col_slice_int len start0 cstep idx := by
  first
    | rfl
    | (have he := view2_ends_bridge len start0 cstep
       unfold Cur.col_slice_int Ref.col_slice_int
       (simp only [he]) <;> first
         | rfl
         | bridge_arith)
end Gen.Bridge
