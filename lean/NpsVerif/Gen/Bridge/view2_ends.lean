import NpsVerif.Gen.BridgeTac
set_option linter.unusedVariables false
namespace Gen.Bridge
theorem view2_ends_bridge (len start0 cstep : Int) :
    Cur.view2_ends len start0 cstep = Ref.view2_ends len start0 cstep := by
  first
    | rfl
    | (unfold Cur.view2_ends Ref.view2_ends; bridge_arith)
end Gen.Bridge
