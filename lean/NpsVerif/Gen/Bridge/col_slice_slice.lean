import NpsVerif.Gen.Bridge.calc_lengths
import NpsVerif.Gen.Bridge.pos_col_slice
namespace Gen.Bridge
/-- K3 (slice branch): any non-zero step, row lengths non-negative -/
theorem col_slice_slice_bridge (len start0 cstep : Int) (a b : Option Int) (k : Option Int) (hl : 0 ≤ len)
    (hk : k ≠ some 0) :
    Cur.col_slice_slice len start0 cstep a b k = Ref.col_slice_slice len start0 cstep a b k := by
  first
    | rfl
    | (unfold Cur.col_slice_slice Ref.col_slice_slice
       cases k with
       | none =>
         simp only []
         first
           | rfl
           | (rw [pos_col_slice_bridge len start0 cstep a b 1 hl (by omega)]; done)
           | (cases a <;> cases b <;> simp only [] <;> bridge_arith)
       | some s =>
         simp only []
         by_cases hs : 0 < s
         · first
             | (simp only [hs, decide_true, if_true]; exact pos_col_slice_bridge len start0 cstep a b s hl hs)
             | (cases a <;> cases b <;> simp only [] <;> bridge_arith)
         · have hs' : s < 0 := by
             have : s ≠ 0 := fun h => hk (by rw [h])
             omega
           first
             | (simp only [hs, decide_false, Bool.false_eq_true, if_false]
                rw [calc_lengths_bridge len a b s hl hs']; done)
             | (simp only [hs, decide_false, Bool.false_eq_true, if_false]
                rw [calc_lengths_bridge len a b s hl hs']
                cases a <;> cases b <;> simp only [] <;> bridge_arith)
             | (cases a <;> cases b <;> simp only [] <;> bridge_arith))

theorem col_slice_slice_pre_bridge (len start0 cstep : Int) (a b : Option Int) (k : Option Int) :
    Cur.col_slice_slice_pre len start0 cstep a b k = Ref.col_slice_slice_pre len start0 cstep a b k := by
  first
    | rfl
    | (unfold Cur.col_slice_slice_pre Ref.col_slice_slice_pre
       simp only [calc_lengths_pre_bridge, pos_col_slice_pre_bridge]; done)
    | (unfold Cur.col_slice_slice_pre Ref.col_slice_slice_pre
       simp only [calc_lengths_pre_bridge, pos_col_slice_pre_bridge]
       cases a <;> cases b <;> cases k <;> simp only [] <;> bridge_arith)
end Gen.Bridge
