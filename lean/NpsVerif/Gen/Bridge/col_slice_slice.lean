import NpsVerif.Gen.Bridge.calc_lengths
import NpsVerif.Gen.Bridge.pos_col_slice
set_option linter.unusedVariables false
namespace Gen.Bridge
/-- K3 (slice branch): any non-zero step, row lengths non-negative.  The calls of K1 / K2 inside are
rewritten with their own bridges; what remains is the start clamp of the negative branch. -/
theorem col_slice_slice_bridge (len start0 cstep : Int) (a b : Option Int) (k : Option Int) (hl : 0 ≤ len)
    (hk : k ≠ some 0) :
    Cur.col_slice_slice len start0 cstep a b k = Ref.col_slice_slice len start0 cstep a b k := by
  first
    | rfl
    | (unfold Cur.col_slice_slice Ref.col_slice_slice
       cases k with
       | none =>
         have hd : decide ((1 : Int) > 0) = true := by decide
         have hp := pos_col_slice_bridge len start0 cstep a b 1 hl (by omega)
         simp only [hd, if_true, hp]
       | some s =>
         by_cases hs : 0 < s
         · have hd : decide (s > 0) = true := decide_eq_true hs
           have hp := pos_col_slice_bridge len start0 cstep a b s hl hs
           simp only [hd, if_true, hp]
         · have hs' : s < 0 := by
             have : s ≠ 0 := fun h => hk (by rw [h])
             omega
           have hd : decide (s > 0) = false := decide_eq_false hs
           have hc := calc_lengths_bridge len a b s hl hs'
           (simp only [hd, Bool.false_eq_true, if_false, hc]) <;> first
             | rfl
             | (cases a <;> simp only [] <;> bridge_arith))

theorem col_slice_slice_pre_bridge (len start0 cstep : Int) (a b : Option Int) (k : Option Int) :
    Cur.col_slice_slice_pre len start0 cstep a b k = Ref.col_slice_slice_pre len start0 cstep a b k := by
  first
    | rfl
    | (unfold Cur.col_slice_slice_pre Ref.col_slice_slice_pre
       simp only [calc_lengths_pre_bridge, pos_col_slice_pre_bridge]; done)
    | (unfold Cur.col_slice_slice_pre Ref.col_slice_slice_pre
       simp only [calc_lengths_pre_bridge, pos_col_slice_pre_bridge]
       cases a <;> cases b <;> cases k <;> simp only [] <;> bridge_arith)
end Gen.Bridge
