import NpsVerif.Gen.Cur
import NpsVerif.Gen.Ref
/-!
Tactic portfolio for the bridge obligations `Cur.k = Ref.k` (re-proved on every run).

* source unchanged  → both sides are syntactically equal → `rfl`;
* harmless rewrite  → normalise `Int.fdiv` with a non-negative divisor to `/`, split every `if`/`match`,
  and close the arithmetic with `omega` / `grind`;
* anything else     → the obligation is broken (the check then searches for a failing input).
-/
namespace Gen

theorem fdiv_nonneg_eq (x y : Int) (h : 0 ≤ y) : Int.fdiv x y = x / y := Int.fdiv_eq_ediv_of_nonneg _ h
theorem iabs_nonneg (x : Int) : 0 ≤ iabs x := by unfold iabs; split <;> omega

/-- second and third stage of the portfolio, after the kernel definitions have been unfolded -/
macro "bridge_arith" : tactic =>
  `(tactic| first
    | rfl
    | (simp only [fdiv_nonneg_eq _ _ (iabs_nonneg _)]; done)
    | (simp [decide_eq_true_eq]; done)
    | grind
    | (simp only [Bool.or_eq_true, Bool.and_eq_true, decide_eq_true_eq, bne_iff_ne, ne_eq, beq_iff_eq,
                  Bool.not_eq_true', decide_eq_false_iff_not, Prod.mk.injEq, Option.some.injEq]
       repeat' split
       all_goals (first | omega | grind)))

end Gen
