import NpsVerif.Gen.Prelude
/-! Wrapping signed 32-bit arithmetic for the generated kernels.

`Gen.CurW` (generated on every run, like `Gen.Cur`, from the same translation of /repo's source) is the text of the
column-slice kernels with `Int` replaced by `W32`: an integer type whose `+ - * // % abs neg` wrap around modulo 2^32
into the signed 32-bit range, as numpy's `int32` arrays do (silently), and whose comparisons, `min`, `max`,
`sign` act on the stored values.  `Gen.Cur` is the same text over unbounded integers. -/
namespace Gen

/-- two's-complement wrap into [-2^31, 2^31) -/
def wrap32 (x : Int) : Int := (x + 2147483648) % 4294967296 - 2147483648

/-- a signed 32-bit integer (the stored value is kept in range by every operation) -/
structure W32 where
  v : Int

namespace W32

/-- inputs (array cells of the index dtype, Python scalars that numpy accepts for it) -/
def lift (x : Int) : W32 := ⟨x⟩

instance : OfNat W32 n := ⟨⟨(n : Int)⟩⟩
instance : Add W32 := ⟨fun a b => ⟨wrap32 (a.v + b.v)⟩⟩
instance : Sub W32 := ⟨fun a b => ⟨wrap32 (a.v - b.v)⟩⟩
instance : Mul W32 := ⟨fun a b => ⟨wrap32 (a.v * b.v)⟩⟩
instance : Neg W32 := ⟨fun a => ⟨wrap32 (-a.v)⟩⟩
instance : Min W32 := ⟨fun a b => ⟨min a.v b.v⟩⟩
instance : Max W32 := ⟨fun a b => ⟨max a.v b.v⟩⟩
instance : LT W32 := ⟨fun a b => a.v < b.v⟩
instance : LE W32 := ⟨fun a b => a.v ≤ b.v⟩
instance (a b : W32) : Decidable (a < b) := inferInstanceAs (Decidable (a.v < b.v))
instance (a b : W32) : Decidable (a ≤ b) := inferInstanceAs (Decidable (a.v ≤ b.v))
instance : BEq W32 := ⟨fun a b => a.v == b.v⟩

def fdiv (a b : W32) : W32 := ⟨wrap32 (Int.fdiv a.v b.v)⟩
def fmod (a b : W32) : W32 := ⟨wrap32 (Int.fmod a.v b.v)⟩
def iabs (a : W32) : W32 := ⟨wrap32 (Gen.iabs a.v)⟩
def sgn (a : W32) : W32 := ⟨Gen.sgn a.v⟩

end W32
end Gen
