import NpsVerif.Spec.Py
/-! Helper functions the generated kernels refer to (numpy scalar functions on `Int`). -/
namespace Gen

/-- `np.sign` -/
def sgn (x : Int) : Int := if x > 0 then 1 else if x < 0 then -1 else 0
/-- `np.abs` -/
def iabs (x : Int) : Int := if x < 0 then -x else x

/-- Python's `slice(a, b, k).indices(n)` (`PySlice_AdjustIndices`); `k = None` is 1. -/
def sliceIndices (n : Int) (a b k : Option Int) : Int × Int × Int :=
  let k' := k.getD 1
  (Py.adjStart n a k', Py.adjStop n b k', k')

end Gen
