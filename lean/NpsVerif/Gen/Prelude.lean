/-! Helper functions the generated kernels refer to (numpy scalar functions on `Int`). -/
namespace Gen

/-- `np.sign` -/
def sgn (x : Int) : Int := if x > 0 then 1 else if x < 0 then -1 else 0
/-- `np.abs` -/
def iabs (x : Int) : Int := if x < 0 then -x else x

end Gen
