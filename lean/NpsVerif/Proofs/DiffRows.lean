import NpsVerif.Model.Scan
import NpsVerif.Spec.Rows
import NpsVerif.Proofs.Materialise
import NpsVerif.Proofs.UfuncRows
/-!
# Row-wise n-th differences (helpers for property C07, `diff`)

* `materialise_view_weak`: materialising (start, len) codes only needs the *non-empty* codes to
  fit in the data (a trailing too-short row has a start past the differenced buffer, but it
  addresses no cell);
* locality of differences: `diff` commutes with `drop`, and with `take` up to one cell, hence
  `(diffN n l)[s : s + (m - n)] = diffN n (l[s : s + m])`.
-/
namespace Proofs.DiffRows
open Model Np

/-- materialising a row selection returns the selected rows; only non-empty codes must fit -/
theorem materialise_view_weak {α} (data : List α) (codes : List (Nat × Nat))
    (h : ∀ c ∈ codes, c.2 ≠ 0 → c.1 + c.2 ≤ data.length) :
    materialiseView data codes = some (codes.map (fun c => (data.drop c.1).take c.2)) := by
  have hin : ∀ i ∈ (codes.map (fun c => Py.prog (c.1 : Int) 1 c.2)).flatten,
      0 ≤ i ∧ i < (data.length : Int) := by
    intro i hi
    obtain ⟨l, hl, hil⟩ := List.mem_flatten.mp hi
    obtain ⟨c, hc, rfl⟩ := List.mem_map.mp hl
    have h1 := mem_prog_one c.1 c.2 i hil
    by_cases h0 : c.2 = 0
    · rw [h0] at hil; simp [Py.prog] at hil
    · have h2 := h c hc h0
      omega
  unfold materialiseView
  rw [viewFlatIndices_eq, gather_in_range data _ hin, Option.map_some, List.filterMap_flatten,
    List.map_map]
  congr 1
  have e : codes.map ((List.filterMap fun i => data[i.toNat]?) ∘ fun c => Py.prog (c.1 : Int) 1 c.2)
      = codes.map (fun c => (data.drop c.1).take c.2) := by
    apply List.map_congr_left
    intro c hc
    by_cases h0 : c.2 = 0
    · simp [h0, Py.prog]
    · exact filterMap_prog_one data c.1 c.2 (h c hc h0)
  rw [e]
  apply cutRows_flatten
  rw [List.map_map]
  apply List.map_congr_left
  intro c hc
  by_cases h0 : c.2 = 0
  · simp [h0]
  · have := h c hc h0
    simp only [Function.comp, List.length_take, List.length_drop]
    omega

/-! ## `np.diff` -/

theorem diff_length (l : List Int) : (Np.diff l).length = l.length - 1 := by
  induction l with
  | nil => rfl
  | cons x xs ih =>
    cases xs with
    | nil => rfl
    | cons y t =>
      simp only [Np.diff, List.length_cons] at ih ⊢
      omega

theorem diff_drop (s : Nat) (l : List Int) : Np.diff (l.drop s) = (Np.diff l).drop s := by
  induction s generalizing l with
  | zero => simp
  | succ s ih =>
    match l with
    | [] => simp [Np.diff]
    | [x] => simp [Np.diff]
    | x :: y :: t =>
      simp only [Np.diff, List.drop_succ_cons]
      exact ih (y :: t)

theorem diff_take (m : Nat) (l : List Int) : Np.diff (l.take m) = (Np.diff l).take (m - 1) := by
  induction l generalizing m with
  | nil => simp [Np.diff]
  | cons x xs ih =>
    match xs, m, ih with
    | [], 0, _ => simp [Np.diff]
    | [], m + 1, _ => simp [Np.diff]
    | y :: t, 0, _ => simp [Np.diff]
    | y :: t, 1, _ => simp [Np.diff]
    | y :: t, m + 2, ih =>
      have := ih (m + 1)
      simp only [List.take_succ_cons, Np.diff, Nat.add_sub_cancel] at this ⊢
      rw [this, show m + 2 - 1 = m + 1 from rfl, List.take_succ_cons]

theorem diffN_model_eq_spec (n : Nat) (l : List Int) : Model.diffN n l = Spec.diffN n l := by
  induction n generalizing l with
  | zero => rfl
  | succ n ih => simp only [Model.diffN, Spec.diffN]; exact ih _

theorem diffN_length (n : Nat) (l : List Int) : (Model.diffN n l).length = l.length - n := by
  induction n generalizing l with
  | zero => rfl
  | succ n ih =>
    simp only [Model.diffN]
    rw [ih, diff_length]
    omega

theorem diffN_drop (n s : Nat) (l : List Int) :
    Model.diffN n (l.drop s) = (Model.diffN n l).drop s := by
  induction n generalizing l with
  | zero => rfl
  | succ n ih => simp only [Model.diffN]; rw [diff_drop, ih]

theorem diffN_take (n m : Nat) (l : List Int) :
    Model.diffN n (l.take m) = (Model.diffN n l).take (m - n) := by
  induction n generalizing l m with
  | zero => rfl
  | succ n ih =>
    simp only [Model.diffN]
    rw [diff_take, ih]
    congr 1
    omega

/-- locality of the n-th difference: the window `[s, s + (m - n))` of the global difference is
the difference of the window `[s, s + m)` -/
theorem diffN_window (n s m : Nat) (l : List Int) :
    ((Model.diffN n l).drop s).take (m - n) = Model.diffN n ((l.drop s).take m) := by
  rw [diffN_take, diffN_drop]

/-- every code of `RaggedShape(lens)` fits in a buffer of `lens.sum` cells -/
theorem ofLens_codes_fit (ls : List Nat) : ∀ c ∈ (Shape.ofLens ls).codes, c.1 + c.2 ≤ ls.sum := by
  intro c hc
  rw [ofLens_codes] at hc
  have := Proofs.XorBroadcast.ends_le 0 ls (c.1 + c.2)
    (List.mem_map.mpr ⟨c, by simpa [exclScan] using hc, rfl⟩)
  omega

/-- `diff(ra, n)` on an array built from rows -/
theorem diffRows_ofRows (n : Nat) (rows : List (List Int)) :
    diffRows n (RA.ofRows rows) = some (rows.map (Spec.diffN n)) := by
  unfold diffRows
  have hfit := ofLens_codes_fit (rows.map List.length)
  have hlen : (rows.map List.length).sum = rows.flatten.length := by
    simp [List.length_flatten]
  rw [materialise_view_weak]
  · rw [List.map_map]
    have e : (RA.ofRows rows).shape.codes.map
          ((fun c => (List.drop c.1 (Model.diffN n (RA.ofRows rows).data)).take c.2) ∘
            fun c => (c.1, c.2 - n))
        = ((RA.ofRows rows).rows).map (Model.diffN n) := by
      unfold RA.rows
      rw [List.map_map]
      apply List.map_congr_left
      intro c _
      simp only [Function.comp]
      exact diffN_window n c.1 c.2 _
    rw [e]
    have : (RA.ofRows rows).rows = rows := Proofs.UfuncRows.rows_mk rows _ rfl
    rw [this]
    congr 1
    apply List.map_congr_left
    intro r _
    exact diffN_model_eq_spec n r
  · intro c hc h0
    obtain ⟨c', hc', rfl⟩ := List.mem_map.mp hc
    have := hfit c' hc'
    simp only at h0 ⊢
    rw [diffN_length]
    show c'.1 + (c'.2 - n) ≤ rows.flatten.length - n
    omega

end Proofs.DiffRows
