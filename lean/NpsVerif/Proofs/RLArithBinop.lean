import NpsVerif.Proofs.RLArithSort
/-! The merged boundary / value lists built by `_apply_binary_func`, read off the dense lists. -/
namespace Model.RLA
variable {α β γ δ : Type}

/-- a valid non-empty run-length array has boundaries `0 :: T ++ [len]`, `T` strictly inside -/
theorem valid_split (r : RLA α) (h : r.Valid) (hpos : 0 < r.len) :
    ∃ T, r.events = 0 :: T ++ [r.len] ∧ (∀ e ∈ T, 0 < e ∧ e < r.len) := by
  obtain ⟨rest, he⟩ := valid_cons r h
  have hv := (valid_iff r).1 h
  have hL := valid_getLast r h
  rw [he] at hL hv
  cases rest with
  | nil => simp at hL; omega
  | cons b t =>
    rw [List.getLast?_cons_cons] at hL
    obtain ⟨T, hT⟩ := List.getLast?_eq_some_iff.1 hL
    refine ⟨T, by rw [he, hT]; rfl, ?_⟩
    intro e heT
    rw [hT] at hv
    have hp := List.pairwise_cons.1 hv.2.2
    have h1 := hp.1 e (by simp [heT])
    have h2 := (List.pairwise_append.1 hp.2).2.2 e heT r.len (by simp)
    exact ⟨h1, h2⟩

/-- the run values are the dense cells at the run starts -/
theorem valid_values (r : RLA α) (h : r.Valid) (T : List Nat) (he : r.events = 0 :: T ++ [r.len])
    (hT : ∀ e ∈ T, 0 < e ∧ e < r.len) (hpos : 0 < r.len) :
    r.values = (0 :: T).filterMap (r.decode[·]?) := by
  have hv := (valid_iff r).1 h
  have hlen : r.values.length = T.length + 1 := by
    have := hv.2.1; rw [he] at this; simp at this; omega
  have hsome : ∀ e ∈ 0 :: T, (r.decode[e]?).isSome := by
    intro e hm
    have : e < r.decode.length := by
      rw [decode_length r h]
      rcases List.mem_cons.1 hm with rfl | hm
      · exact hpos
      · exact (hT e hm).2
    rw [List.getElem?_eq_getElem this]; rfl
  apply List.ext_getElem?
  intro i
  rw [getElem?_filterMap_of_some _ hsome]
  by_cases hi : i < r.values.length
  · obtain ⟨e, h1, _, h3⟩ := decode_at_event r h i hi
    rw [he, show (0 :: T ++ [r.len]) = (0 :: T) ++ [r.len] from rfl,
      List.getElem?_append_left (by simp; omega)] at h1
    rw [h1, ← h3]; rfl
  · rw [List.getElem?_eq_none (by omega), List.getElem?_eq_none (by simp; omega)]; rfl

theorem zipWith_filterMap_getElem (f : α → β → γ) (A : List α) (B : List β) (L : List Nat)
    (h : ∀ e ∈ L, e < A.length ∧ e < B.length) :
    List.zipWith f (L.filterMap (A[·]?)) (L.filterMap (B[·]?)) = L.filterMap ((List.zipWith f A B)[·]?) := by
  induction L with
  | nil => rfl
  | cons e t ih =>
    have he := h e (by simp)
    have := ih (fun c hc => h c (List.mem_cons_of_mem _ hc))
    simp only [List.filterMap_cons, List.getElem?_zipWith, List.getElem?_eq_getElem he.1,
      List.getElem?_eq_getElem he.2, List.zipWith_cons_cons, this]

/-- the clean-up tail of `_apply_binary_func` -/
def finish (eq : γ → γ → Bool) (ev : List Nat) (vs : List γ) : Option (RLA γ) :=
  mk? (joinRuns eq (removeEmpty ev vs).1 (removeEmpty ev vs).2).1
      (joinRuns eq (removeEmpty ev vs).1 (removeEmpty ev vs).2).2

/-- the merged (unsorted) boundary list -/
def binEvents (x : RLA α) (y : RLA β) : List Nat := x.events.dropLast ++ y.events.drop 1

/-- the merged (unsorted) value list -/
def binValues (f : α → β → γ) (x : RLA α) (y : RLA β) : List γ :=
  (match x.values.head?, y.values.head? with
    | some a, some b => [f a b]
    | _, _ => []) ++
  List.zipWith f (x.values.drop 1)
    ((((x.events.drop 1).dropLast).map (fun e => Np.searchsortedRightNat y.events e - 1)).filterMap (y.values[·]?)) ++
  List.zipWith f
    ((((y.events.drop 1).dropLast).map (fun e => Np.searchsortedRightNat x.events e - 1)).filterMap (x.values[·]?))
    (y.values.drop 1)

theorem binop_eq (f : α → β → γ) (eq : γ → γ → Bool) (x : RLA α) (y : RLA β) :
    binop f eq x y = if x.len ≠ y.len then none else
      finish eq ((stableArgsort (binEvents x y)).filterMap ((binEvents x y)[·]?))
        ((stableArgsort (binEvents x y)).dropLast.filterMap ((binValues f x y)[·]?)) := rfl

theorem binEvents_eq (x : RLA α) (y : RLA β) (n : Nat) (Tx Ty : List Nat)
    (hxe : x.events = 0 :: Tx ++ [n]) (hye : y.events = 0 :: Ty ++ [n]) :
    binEvents x y = (0 :: Tx ++ Ty) ++ [n] := by
  unfold binEvents
  rw [hxe, hye]
  have : (0 :: Tx ++ [n]).dropLast = 0 :: Tx := by
    rw [show (0 :: Tx ++ [n]) = (0 :: Tx) ++ [n] from rfl, List.dropLast_concat]
  rw [this]
  simp

theorem binValues_eq (f : α → β → γ) (x : RLA α) (y : RLA β) (hx : x.Valid) (hy : y.Valid)
    (n : Nat) (hxn : x.len = n) (hyn : y.len = n) (hpos : 0 < n) (Tx Ty : List Nat)
    (hxe : x.events = 0 :: Tx ++ [n]) (hye : y.events = 0 :: Ty ++ [n])
    (hTx : ∀ e ∈ Tx, 0 < e ∧ e < n) (hTy : ∀ e ∈ Ty, 0 < e ∧ e < n) :
    binValues f x y = (0 :: Tx ++ Ty).filterMap ((List.zipWith f x.decode y.decode)[·]?) := by
  have hxv := valid_values x hx Tx (by rw [hxn]; exact hxe) (by rw [hxn]; exact hTx) (by omega)
  have hyv := valid_values y hy Ty (by rw [hyn]; exact hye) (by rw [hyn]; exact hTy) (by omega)
  have hxl := decode_length x hx
  have hyl := decode_length y hy
  have hx0 : x.decode[0]? = some (x.decode[0]'(by omega)) := List.getElem?_eq_getElem (by omega)
  have hy0 : y.decode[0]? = some (y.decode[0]'(by omega)) := List.getElem?_eq_getElem (by omega)
  rw [List.filterMap_cons, hx0] at hxv
  rw [List.filterMap_cons, hy0] at hyv
  have h1 : (x.events.drop 1).dropLast = Tx := by
    rw [hxe]; simp
  have h2 : (y.events.drop 1).dropLast = Ty := by
    rw [hye]; simp
  have h3 : (Tx.map (fun e => Np.searchsortedRightNat y.events e - 1)).filterMap (y.values[·]?)
      = Tx.filterMap (y.decode[·]?) := by
    rw [List.filterMap_map]
    apply filterMap_congr'
    intro e he
    simp only [Function.comp]
    rw [decode_getElem? y hy e (by have := (hTx e he).2; omega)]
  have h4 : (Ty.map (fun e => Np.searchsortedRightNat x.events e - 1)).filterMap (x.values[·]?)
      = Ty.filterMap (x.decode[·]?) := by
    rw [List.filterMap_map]
    apply filterMap_congr'
    intro e he
    simp only [Function.comp]
    rw [decode_getElem? x hx e (by have := (hTy e he).2; omega)]
  unfold binValues
  rw [h1, h2, h3, h4]
  have e1 : x.values.drop 1 = Tx.filterMap (x.decode[·]?) := by rw [hxv]; rfl
  have e2 : y.values.drop 1 = Ty.filterMap (y.decode[·]?) := by rw [hyv]; rfl
  have e3 : x.values.head? = some (x.decode[0]'(by omega)) := by rw [hxv]; rfl
  have e4 : y.values.head? = some (y.decode[0]'(by omega)) := by rw [hyv]; rfl
  rw [e1, e2, e3, e4]
  rw [zipWith_filterMap_getElem f _ _ Tx (fun e he => by have := (hTx e he).2; omega),
    zipWith_filterMap_getElem f _ _ Ty (fun e he => by have := (hTy e he).2; omega)]
  rw [show (0 :: Tx ++ Ty) = [0] ++ Tx ++ Ty from rfl, List.filterMap_append, List.filterMap_append]
  congr 2
  simp only [List.filterMap_cons, List.filterMap_nil, List.getElem?_zipWith, hx0, hy0]

end Model.RLA
