import NpsVerif.Model.Structural
import NpsVerif.Spec.Rows
import NpsVerif.Proofs.Materialise
import NpsVerif.Proofs.ColAgg
import NpsVerif.Proofs.GetItem
/-! Lemmas for property C08: the padded-matrix conversion `_as_padded_matrix`. -/
namespace Model
open Np

/-! ## scatter of a constant over blocks -/

theorem scatterSet_append {α} (a : List α) (w1 w2 : List (Nat × α)) :
    scatterSet a (w1 ++ w2) = scatterSet (scatterSet a w1) w2 := by
  induction w1 generalizing a with
  | nil => rfl
  | cons x xs ih =>
    obtain ⟨i, v⟩ := x
    simp only [List.cons_append, scatterSet, ih]

/-- overwriting the contiguous block `B` of `A ++ B ++ C` -/
theorem scatter_fill_block {α} (A B C : List α) (fill : α) :
    scatterSet (A ++ B ++ C) ((Py.prog (A.length : Int) 1 B.length).map (fun i => (i.toNat, fill)))
      = A ++ List.replicate B.length fill ++ C := by
  induction B generalizing A with
  | nil => simp [Py.prog, scatterSet]
  | cons b B ih =>
    simp only [List.length_cons, Py.prog, List.map_cons, scatterSet, Int.toNat_natCast]
    have e1 : (A ++ b :: B ++ C).set A.length fill = (A ++ [fill]) ++ B ++ C := by
      rw [List.append_assoc, List.set_append_right _ _ (Nat.le_refl _)]
      simp
    have e2 : (A.length : Int) + 1 = ((A ++ [fill]).length : Int) := by simp
    rw [e1, e2, ih (A ++ [fill])]
    simp [List.replicate_succ]

/-- a gathered block `G` of width `w` with its padding cells overwritten -/
def padG {α} (w : Nat) (fill : α) (right : Bool) (G : List α) (l : Nat) : List α :=
  if right then G.take l ++ List.replicate (w - l) fill else List.replicate (w - l) fill ++ G.drop (w - l)

theorem padG_length {α} (w : Nat) (fill : α) (right : Bool) (G : List α) (l : Nat)
    (hG : G.length = w) (hl : l ≤ w) : (padG w fill right G l).length = w := by
  unfold padG
  cases right <;> simp [hG] <;> omega

/-- one block: the writes of row `i0` turn the gathered block into the padded block -/
theorem scatter_one_block {α} (w : Nat) (fill : α) (right : Bool) (G rest pre : List α) (l i0 : Nat)
    (hG : G.length = w) (hl : l ≤ w) (hpre : pre.length = i0 * w) :
    scatterSet (pre ++ (G ++ rest))
        ((Py.prog (((i0 * w : Nat) : Int) + (if right then ((l : Nat) : Int) else 0)) 1 (w - l)).map
          (fun i => (i.toNat, fill)))
      = (pre ++ padG w fill right G l) ++ rest := by
  cases right with
  | true =>
    have h := scatter_fill_block (pre ++ G.take l) (G.drop l) rest fill
    have e : (pre ++ G.take l) ++ G.drop l ++ rest = pre ++ (G ++ rest) := by
      rw [show (pre ++ G.take l) ++ G.drop l ++ rest = pre ++ ((G.take l ++ G.drop l) ++ rest) by
        simp only [List.append_assoc], List.take_append_drop]
    have e1 : (((pre ++ G.take l).length : Nat) : Int) = ((i0 * w : Nat) : Int) + (l : Int) := by
      simp only [List.length_append, List.length_take, hpre, hG]
      omega
    have e2 : (G.drop l).length = w - l := by simp [hG]
    rw [e, e1, e2] at h
    simp only [if_true, padG]
    rw [h]
    simp only [List.append_assoc]
  | false =>
    have h := scatter_fill_block pre (G.take (w - l)) (G.drop (w - l) ++ rest) fill
    have e : pre ++ G.take (w - l) ++ (G.drop (w - l) ++ rest) = pre ++ (G ++ rest) := by
      rw [show pre ++ G.take (w - l) ++ (G.drop (w - l) ++ rest)
          = pre ++ ((G.take (w - l) ++ G.drop (w - l)) ++ rest) by
        simp only [List.append_assoc], List.take_append_drop]
    have e2 : (G.take (w - l)).length = w - l := by simp [hG]
    rw [e, hpre, e2] at h
    simp only [Bool.false_eq_true, if_false, padG, Int.add_zero]
    rw [h]
    simp only [List.append_assoc]

/-- all blocks: the overwritten positions `{i*w + k}` of every row turn the gathered blocks into the
padded blocks -/
theorem scatter_blocks {α γ} (w : Nat) (fill : α) (right : Bool) (G : γ → List α) (L : γ → Nat)
    (cs : List γ) (hG : ∀ c ∈ cs, (G c).length = w) (hL : ∀ c ∈ cs, L c ≤ w)
    (i0 : Nat) (pre : List α) (hpre : pre.length = i0 * w) :
    scatterSet (pre ++ (cs.map G).flatten)
      ((((List.range' i0 cs.length).zip cs).map (fun ic =>
          Py.prog (((ic.1 * w : Nat) : Int) + (if right then ((L ic.2 : Nat) : Int) else 0)) 1
            (w - L ic.2))).flatten.map (fun i => (i.toNat, fill)))
      = pre ++ (cs.map (fun c => padG w fill right (G c) (L c))).flatten := by
  induction cs generalizing i0 pre with
  | nil => simp [scatterSet]
  | cons c cs ih =>
    have hGc := hG c (by simp)
    have hLc := hL c (by simp)
    simp only [List.length_cons, List.range'_succ, List.zip_cons_cons, List.map_cons,
      List.flatten_cons, List.map_append]
    rw [scatterSet_append, scatter_one_block w fill right (G c) _ pre (L c) i0 hGc hLc hpre]
    rw [ih (fun x hx => hG x (by simp [hx])) (fun x hx => hL x (by simp [hx])) (i0 + 1)
      (pre ++ padG w fill right (G c) (L c))
      (by rw [List.length_append, padG_length w fill right (G c) (L c) hGc hLc, hpre, Nat.add_mul]; omega)]
    simp only [List.append_assoc]

/-! ## gather with numpy's negative-index wrap-around -/

/-- `data[i]` with a default for a refused read (never used for indices in `[-n, n)`) -/
def rd {α} (data : List α) (d : α) (i : Int) : α := (getIdx data i).getD d

theorem getIdx_wrap_some {α} (data : List α) (d : α) (i : Int)
    (h : -(data.length : Int) ≤ i ∧ i < data.length) : getIdx data i = some (rd data d i) := by
  unfold rd getIdx normIdx
  by_cases h0 : 0 ≤ i
  · have hlt : i.toNat < data.length := by omega
    simp [h0, h.2]
  · have hlt : ((data.length : Int) + i).toNat < data.length := by omega
    simp [h0, h.1, List.getElem?_eq_getElem hlt]

theorem gather_wrap {α} (data : List α) (d : α) (idx : List Int)
    (h : ∀ i ∈ idx, -(data.length : Int) ≤ i ∧ i < data.length) :
    gather data idx = some (idx.map (rd data d)) := by
  unfold gather
  exact mapM_eq_some_map _ _ _ (fun i hi => getIdx_wrap_some data d i (h i hi))

/-- a run of `l` cells of a gathered block (from offset `off`) whose indices are the true positions of
the row `[st, st + l)` -/
theorem read_block {α} (data : List α) (d : α) (st l w off : Nat) (h : st + l ≤ data.length)
    (hw : off + l ≤ w) (F : Nat → Int) (hF : ∀ k < l, F (off + k) = (st : Int) + (k : Int)) :
    (((List.range w).map (fun k => rd data d (F k))).drop off).take l = (data.drop st).take l := by
  apply List.ext_getElem?
  intro k
  simp only [List.getElem?_take, List.getElem?_drop, List.getElem?_map]
  by_cases hk : k < l
  · rw [if_pos hk, if_pos hk, List.getElem?_range (by omega), Option.map_some, hF k hk]
    unfold rd
    rw [getIdx_in_range data _ (by omega)]
    have e : ((st : Int) + (k : Int)).toNat = st + k := by omega
    have hlt : st + k < data.length := by omega
    rw [e, List.getElem?_eq_getElem hlt]
    rfl
  · rw [if_neg hk, if_neg hk]

/-! ## the padded matrix of a buffer addressed by (start, length) codes -/

/-- view start of a row: its start (`side="right"`) or `end - w` (`side="left"`, possibly negative) -/
def vs (right : Bool) (w : Nat) (c : Nat × Nat) : Int :=
  if right then (c.1 : Int) else ((c.1 + c.2 : Nat) : Int) - (w : Int)

/-- the `w` gathered cells of a row -/
def gof {α} (data : List α) (d : α) (right : Bool) (w : Nat) (c : Nat × Nat) : List α :=
  (List.range w).map (fun (k : Nat) => rd data d (min (vs right w c + (k : Int)) ((data.length : Int) - 1)))

theorem gof_length {α} (data : List α) (d : α) (right : Bool) (w : Nat) (c : Nat × Nat) :
    (gof data d right w c).length = w := by simp [gof]

/-- after overwriting the padding cells a gathered block is the padded row -/
theorem padG_gof {α} (data : List α) (d fill : α) (right : Bool) (w : Nat) (c : Nat × Nat)
    (hb : c.1 + c.2 ≤ data.length) (hl : c.2 ≤ w) :
    padG w fill right (gof data d right w c) c.2
      = Spec.padRow w fill right ((data.drop c.1).take c.2) := by
  have hlen : ((data.drop c.1).take c.2).length = c.2 := by
    simp only [List.length_take, List.length_drop]; omega
  unfold padG Spec.padRow
  rw [hlen]
  cases right with
  | true =>
    simp only [if_true]
    congr 1
    have := read_block data d c.1 c.2 w 0 hb (by omega)
      (fun k => min (vs true w c + (k : Int)) ((data.length : Int) - 1))
      (by intro k hk; simp only [vs, if_true]; omega)
    simpa [gof] using this
  | false =>
    simp only [Bool.false_eq_true, if_false]
    congr 1
    have := read_block data d c.1 c.2 w (w - c.2) hb (by omega)
      (fun k => min (vs false w c + (k : Int)) ((data.length : Int) - 1))
      (by intro k hk; simp only [vs, Bool.false_eq_true, if_false]; omega)
    rw [List.take_of_length_le (by simp; omega)] at this
    simpa [gof] using this

theorem ends_getLast (s : Shape) : s.ends.getLast?.getD 0 = s.size := by
  unfold Shape.ends Shape.size
  rw [List.getLast?_map]
  cases s.codes.getLast? <;> rfl

/-- the flat padded buffer -/
theorem padded_core {α} (data : List α) (fill : α) (right : Bool) (codes : List (Nat × Nat)) (w : Nat)
    (hsz : 0 < data.length) (hw : w ≤ data.length)
    (hb : ∀ c ∈ codes, c.1 + c.2 ≤ data.length) (hl : ∀ c ∈ codes, c.2 ≤ w) :
    (gather data ((codes.map (vs right w)).flatMap (fun s => (List.range w).map
        (fun (k : Nat) => min (s + (k : Int)) ((data.length : Int) - 1))))).map (fun arr =>
      scatterSet arr ((buildIndices 1 (((List.range codes.length).zip (codes.map (·.2))).map (fun il =>
        ((((il.1 * w : Nat) : Int) + (if right then ((il.2 : Nat) : Int) else 0)),
         (((il.1 * w : Nat) : Int) + (if right then ((il.2 : Nat) : Int) else 0)) + ((w - il.2 : Nat) : Int),
         w - il.2)))).map (fun i => (i.toNat, fill))))
      = some ((codes.map (fun c => Spec.padRow w fill right ((data.drop c.1).take c.2))).flatten) := by
  have d : α := data[0]
  -- the gather never refuses
  have hin : ∀ i ∈ (codes.map (vs right w)).flatMap (fun s => (List.range w).map
      (fun (k : Nat) => min (s + (k : Int)) ((data.length : Int) - 1))),
      -(data.length : Int) ≤ i ∧ i < data.length := by
    intro i hi
    obtain ⟨s, hs, his⟩ := List.mem_flatMap.mp hi
    obtain ⟨c, hc, rfl⟩ := List.mem_map.mp hs
    obtain ⟨k, hk, rfl⟩ := List.mem_map.mp his
    have := hb c hc
    have := hl c hc
    unfold vs
    cases right <;> simp only [Bool.false_eq_true, if_false, if_true] <;> omega
  rw [gather_wrap data d _ hin, Option.map_some]
  have harr : ((codes.map (vs right w)).flatMap (fun s => (List.range w).map
      (fun (k : Nat) => min (s + (k : Int)) ((data.length : Int) - 1)))).map (rd data d)
      = (codes.map (gof data d right w)).flatten := by
    rw [List.flatMap_def, List.map_flatten, List.map_map, List.map_map]
    congr 1
    apply List.map_congr_left
    intro c _
    simp only [Function.comp, gof, List.map_map]
    rfl
  have hzs : ((List.range codes.length).zip (codes.map (·.2))).map (fun il =>
        ((((il.1 * w : Nat) : Int) + (if right then ((il.2 : Nat) : Int) else 0)),
         (((il.1 * w : Nat) : Int) + (if right then ((il.2 : Nat) : Int) else 0)) + ((w - il.2 : Nat) : Int),
         w - il.2))
      = (((List.range' 0 codes.length).zip codes).map (fun ic =>
          (((((ic.1 * w : Nat) : Int) + (if right then ((ic.2.2 : Nat) : Int) else 0)), w - ic.2.2)
            : Int × Nat))).map (vrow 1) := by
    rw [List.zip_map_right, List.map_map, List.map_map, List.range_eq_range']
    apply List.map_congr_left
    intro ic _
    simp only [Function.comp, Prod.map, id, vrow, rowEnd]
    congr 2
    omega
  rw [harr, hzs, buildIndices_vrow, List.map_map]
  have hsb := scatter_blocks w fill right (gof data d right w) (fun c => c.2) codes
    (fun c _ => gof_length data d right w c) hl 0 [] (by simp)
  simp only [List.nil_append] at hsb
  simp only [Function.comp_def]
  rw [hsb]
  congr 2
  apply List.map_congr_left
  intro c hc
  exact padG_gof data d fill right w c (hb c hc) (hl c hc)

end Model
