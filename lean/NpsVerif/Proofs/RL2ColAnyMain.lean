import NpsVerif.Proofs.RL2ColAnySweep
/-!
# `_col_any` (C17, part E): all rows together

* `row_facts`: the per-row counting facts for a row that reads back as a valid run-length array;
* `global_counts`: summed over the rows, `#{starts ≤ c} = #{ends ≤ c} + #{rows True at c}`;
* `col_any_spec`: the theorem behind `Props.C17.C17_col_any`.
-/
namespace Proofs.RL2ColAny
open Model Model.RL2 Model.RLA Proofs.RLIndex Proofs.RL2

/-- the rows of a readable array are valid, and `dense` is their decoding -/
theorem rows_valid (L : Nat) (zs : List (List Nat × List Bool)) (dense : List (List Bool))
    (h : zs.mapM (fun p => (rowOf (some L) p).map RLA.decode) = some dense) :
    (∀ p ∈ zs, (RLA.mk (p.1 ++ [L]) p.2).Valid) ∧
      dense = zs.map (fun p => (RLA.mk (p.1 ++ [L]) p.2).decode) := by
  rw [mapM_eq_some_iff] at h
  induction zs generalizing dense with
  | nil =>
    cases dense with
    | nil => simp
    | cons => simp at h
  | cons p zs ih =>
    cases dense with
    | nil => simp at h
    | cons d dense =>
      simp only [List.map_cons, List.cons.injEq] at h
      obtain ⟨h1, h2⟩ := h
      obtain ⟨ihv, ihd⟩ := ih dense h2
      have hp : (RLA.mk (p.1 ++ [L]) p.2).Valid ∧ d = (RLA.mk (p.1 ++ [L]) p.2).decode := by
        simp only [rowOf, evs] at h1
        cases hm : RLA.mk? (p.1 ++ [L]) p.2 with
        | none => rw [hm] at h1; simp at h1
        | some rla =>
          rw [hm] at h1
          obtain ⟨e, hv⟩ := mk?_some hm
          subst e
          simp only [Option.map_some, Option.some.injEq] at h1
          exact ⟨hv, h1.symm⟩
      refine ⟨?_, ?_⟩
      · intro q hq
        rcases List.mem_cons.1 hq with rfl | hq
        · exact hp.1
        · exact ihv q hq
      · rw [List.map_cons, ← ihd, ← hp.2]

/-- the counting facts of one valid row -/
theorem row_facts (L : Nat) (hpos : 1 ≤ L) (ix : List Nat) (vs : List Bool)
    (hv : (RLA.mk (ix ++ [L]) vs).Valid) :
    (∀ c, c < L → cntLE (rS false ix vs) c = cntLE (rE false ix vs) c +
        (if (RLA.mk (ix ++ [L]) vs).decode[c]? == some true then 1 else 0)) ∧
    (∀ x, cntLE (rE false ix vs) x ≤ cntLT (rS false ix vs) x) ∧
    (∀ y ∈ ix, y < L) := by
  obtain ⟨es, hev, hlen, hpw⟩ := valid_cons hv
  simp only at hev hlen
  have hlen' : ix.length = vs.length := by
    have := congrArg List.length hev
    simp at this
    omega
  have hlast : es.getLast? = some L := by
    cases ix with
    | nil =>
      simp at hev
      omega
    | cons i ix =>
      simp only [List.cons_append, List.cons.injEq] at hev
      rw [← hev.2]
      simp
  have hS : rS false ix vs = rS false (0 :: es) vs := by rw [← hev, rS_append _ _ _ _ hlen']
  have hE : rE false ix vs = rE false (0 :: es) vs := by rw [← hev, rE_append _ _ _ _ hlen']
  have hdec : (RLA.mk (ix ++ [L]) vs).decode = dec 0 es vs := by rw [hev, decode_cons]
  have hdl : (dec 0 es vs).length = L := by
    rw [dec_length 0 es vs hlen (mono_of_strict hpw), hlast]
    simp
  have hmem : ∀ y ∈ ix, y < L := by
    have hp : (ix ++ [L]).Pairwise (· < ·) := by rw [hev]; exact hpw
    intro y hy
    exact (List.pairwise_append.1 hp).2.2 y hy L (by simp)
  refine ⟨?_, ?_, hmem⟩
  · intro c hc
    have hb : (dec 0 es vs)[c - 0]? = some ((dec 0 es vs)[c]'(by omega)) := by
      simp
    have := row_count false 0 es vs hpw c (Nat.zero_le _) _ hb
    rw [hS, hE, hdec, List.getElem?_eq_getElem (by omega)]
    simp only [Bool.toNat_false, Nat.add_zero] at this
    rw [this]
    cases (dec 0 es vs)[c] <;> simp
  · intro x
    have hp : (ix ++ [L]).Pairwise (· < ·) := by rw [hev]; exact hpw
    have := row_count_lt false ix vs (List.pairwise_append.1 hp).1 x
    simpa using this

/-- all starts / all stored ends of the rows, unsorted -/
def sFlat (zs : List (List Nat × List Bool)) : List Nat := zs.flatMap (fun p => rS false p.1 p.2)
def eFlat (zs : List (List Nat × List Bool)) : List Nat := zs.flatMap (fun p => rE false p.1 p.2)

theorem global_counts (L : Nat) (hpos : 1 ≤ L) (zs : List (List Nat × List Bool))
    (hv : ∀ p ∈ zs, (RLA.mk (p.1 ++ [L]) p.2).Valid) :
    (∀ c, c < L → cntLE (sFlat zs) c = cntLE (eFlat zs) c +
        (zs.map (fun p => (RLA.mk (p.1 ++ [L]) p.2).decode)).countP (fun row => row[c]? == some true)) ∧
    (∀ x, cntLE (eFlat zs) x ≤ cntLT (sFlat zs) x) ∧
    (∀ y ∈ sFlat zs, y < L) ∧ (∀ y ∈ eFlat zs, y < L) := by
  induction zs with
  | nil => simp [sFlat, eFlat]
  | cons p zs ih =>
    obtain ⟨i1, i2, i3, i4⟩ := ih (fun q hq => hv q (List.mem_cons_of_mem _ hq))
    obtain ⟨r1, r2, r3⟩ := row_facts L hpos p.1 p.2 (hv p (by simp))
    have hs : sFlat (p :: zs) = rS false p.1 p.2 ++ sFlat zs := by simp [sFlat]
    have he : eFlat (p :: zs) = rE false p.1 p.2 ++ eFlat zs := by simp [eFlat]
    rw [hs, he]
    refine ⟨?_, ?_, ?_, ?_⟩
    · intro c hc
      have a1 := r1 c hc
      have a2 := i1 c hc
      simp only [cntLE, List.countP_append, List.map_cons, List.countP_cons] at a1 a2 ⊢
      omega
    · intro x
      have a1 := r2 x
      have a2 := i2 x
      simp only [cntLE, cntLT, List.countP_append] at a1 a2 ⊢
      omega
    · intro y hy
      rcases List.mem_append.1 hy with hy | hy
      · exact r3 y (rS_mem _ _ _ _ hy)
      · exact i3 y hy
    · intro y hy
      rcases List.mem_append.1 hy with hy | hy
      · exact r3 y (rE_mem _ _ _ _ hy)
      · exact i4 y hy

theorem startsOf_eq (r : RL2 Bool) : startsOf r = sortNat (sFlat (r.indices.zip r.values)) := by
  unfold startsOf sFlat
  rw [List.flatMap_map]
  congr 2
  funext iv
  exact rowStarts_eq iv.1 iv.2

theorem ends0Of_eq (r : RL2 Bool) : ends0Of r = sortNat (eFlat (r.indices.zip r.values)) := by
  unfold ends0Of eFlat
  rw [List.flatMap_map]
  congr 2
  funext iv
  exact rowEnds_eq iv.1 iv.2

theorem any_eq_countP {β : Type} (p : β → Bool) (l : List β) : l.any p = decide (0 < l.countP p) := by
  rw [Bool.eq_iff_iff]
  simp only [List.any_eq_true, decide_eq_true_eq, List.countP_pos_iff]

/-- `any(axis=0)` of the matrix variant -/
theorem col_any_spec (r : RL2 Bool) (L : Nat) (hL : r.rowLen = some L) (hpos : 1 ≤ L)
    (dense : List (List Bool)) (hd : r.toRows = some dense) (hl : r.indices.length = r.values.length) :
    ∃ res, r.colAny = some res ∧ res.Valid ∧
      res.decode = (List.range L).map (fun c => dense.any (fun row => row[c]? == some true)) := by
  rw [toRows_eq_mapM_zip r hl, hL] at hd
  obtain ⟨hv, hdense⟩ := rows_valid L _ dense hd
  obtain ⟨g1, g2, g3, g4⟩ := global_counts L hpos _ hv
  rw [← hdense] at g1
  -- the sorted lists
  have hSs : (startsOf r).Pairwise (· ≤ ·) := by rw [startsOf_eq]; exact sortNat_sorted _
  have hE0s : (ends0Of r).Pairwise (· ≤ ·) := by rw [ends0Of_eq]; exact sortNat_sorted _
  have cS : ∀ p, (startsOf r).countP p = (sFlat (r.indices.zip r.values)).countP p := by
    intro p; rw [startsOf_eq]; exact sortNat_countP _ p
  have cE0 : ∀ p, (ends0Of r).countP p = (eFlat (r.indices.zip r.values)).countP p := by
    intro p; rw [ends0Of_eq]; exact sortNat_countP _ p
  have cSle : ∀ c, cntLE (startsOf r) c = cntLE (sFlat (r.indices.zip r.values)) c := fun c => cS _
  have cSlt : ∀ c, cntLT (startsOf r) c = cntLT (sFlat (r.indices.zip r.values)) c := fun c => cS _
  have cEle : ∀ c, cntLE (ends0Of r) c = cntLE (eFlat (r.indices.zip r.values)) c := fun c => cE0 _
  have mS : ∀ y ∈ startsOf r, y < L := by
    intro y hy; rw [startsOf_eq, sortNat_mem] at hy; exact g3 y hy
  have mE0 : ∀ y ∈ ends0Of r, y < L := by
    intro y hy; rw [ends0Of_eq, sortNat_mem] at hy; exact g4 y hy
  have hlen0 : (ends0Of r).length ≤ (startsOf r).length := by
    have := g2 L
    rw [← cSlt, ← cEle] at this
    have e1 : cntLE (ends0Of r) L = (ends0Of r).length :=
      cntLE_eq_length _ _ (fun y hy => Nat.le_of_lt (mE0 y hy))
    have e2 : cntLT (startsOf r) L = (startsOf r).length := cntLT_eq_length _ _ mS
    rw [e1, e2] at this
    exact this
  have hE : endsOf r L = ends0Of r ++ List.replicate ((startsOf r).length - (ends0Of r).length) L := by
    unfold endsOf
    rw [cummax_sorted _ hE0s]
  have hElen : (endsOf r L).length = (startsOf r).length := by
    rw [hE]; simp; omega
  have hEs : (endsOf r L).Pairwise (· ≤ ·) := by
    rw [hE]
    refine List.pairwise_append.2 ⟨hE0s, List.pairwise_replicate.2 (Or.inr (Nat.le_refl _)), ?_⟩
    intro a ha b hb
    have := (List.mem_replicate.1 hb).2
    have := mE0 a ha
    omega
  have hEL : ∀ e ∈ endsOf r L, e ≤ L := by
    intro e he
    rw [hE] at he
    rcases List.mem_append.1 he with he | he
    · exact Nat.le_of_lt (mE0 e he)
    · exact Nat.le_of_eq (List.mem_replicate.1 he).2
  have hEc : ∀ c, c < L → cntLE (endsOf r L) c = cntLE (eFlat (r.indices.zip r.values)) c := by
    intro c hc
    rw [hE]
    simp only [cntLE, List.countP_append, List.countP_replicate, decide_eq_true_eq]
    rw [if_neg (by omega), cE0]
    rfl
  have hcnt : ∀ x, cntLE (endsOf r L) x ≤ cntLT (startsOf r) x := by
    intro x
    by_cases hx : x < L
    · rw [hEc x hx]
      have := g2 x
      rw [← cSlt] at this
      exact this
    · have e2 : cntLT (startsOf r) x = (startsOf r).length :=
        cntLT_eq_length _ _ (fun y hy => by have := mS y hy; omega)
      rw [e2, ← hElen]
      exact List.countP_le_length
  have hlt : AllLt (startsOf r) (endsOf r L) :=
    allLt_of_getElem _ _ hElen.symm (fun i h1 h2 => lt_of_counts _ _ hSs hEs hcnt i h1 h2)
  obtain ⟨res, hres, hval, hdec⟩ := sweep_main L hpos (startsOf r) (endsOf r L) hSs hEs hlt hEL
  refine ⟨res, ?_, hval, ?_⟩
  · rw [colAny_eq r L hL]; exact hres
  · rw [hdec]
    apply List.map_congr_left
    intro c hc
    have hc' : c < L := by simpa using hc
    rw [hEc c hc', any_eq_countP]
    have := g1 c hc'
    rw [← cSle] at this
    rw [this]
    simp only [decide_eq_decide]
    omega

end Proofs.RL2ColAny
