import NpsVerif.Proofs.RLIndexPySlice
/-! # Clamping the step of `l[::k]` to the length of the list does not change the slice

`RunLengthArray._step_subset` uses `min(abs(step), max(len(self), 1))` instead of `abs(step)`:
every step beyond the length selects the first position (of the possibly reversed list) only. -/
namespace Proofs.StepClamp
open Proofs.RLIndex
variable {α : Type}

/-- the clamped step is still positive -/
theorem clamp_pos (K n : Nat) (hK : 0 < K) : 0 < min K (max n 1) := by omega

/-- the positions `j * K` and `j * min K (max n 1)` hold the same cell of a list of length `n` -/
theorem getElem?_mul_clamp (l : List α) (K : Nat) (j : Nat) :
    l[j * K]? = l[j * min K (max l.length 1)]? := by
  by_cases hle : K ≤ max l.length 1
  · rw [Nat.min_eq_left hle]
  · have hM : min K (max l.length 1) = max l.length 1 := Nat.min_eq_right (by omega)
    rw [hM]
    cases j with
    | zero => simp
    | succ i =>
      have h1 : K ≤ (i + 1) * K := Nat.le_mul_of_pos_left K (by omega)
      have h2 : max l.length 1 ≤ (i + 1) * max l.length 1 := Nat.le_mul_of_pos_left _ (by omega)
      rw [List.getElem?_eq_none (by omega), List.getElem?_eq_none (by omega)]

/-- positive steps: `l[::K] = l[::min(K, max(len l, 1))]` -/
theorem slice_pos_clamp (l : List α) (K : Nat) (hK : 0 < K) :
    Py.slice l none none (K : Int) =
      Py.slice l none none ((min K (max l.length 1) : Nat) : Int) := by
  apply List.ext_getElem?
  intro j
  rw [slice_pos_getElem? l K hK, slice_pos_getElem? l _ (clamp_pos K l.length hK)]
  exact getElem?_mul_clamp l K j

/-- negative steps: `l[::-K] = l[::-min(K, max(len l, 1))]` -/
theorem slice_neg_clamp (l : List α) (K : Nat) (hK : 0 < K) :
    Py.slice l none none (-(K : Int)) =
      Py.slice l none none (-((min K (max l.length 1) : Nat) : Int)) := by
  apply List.ext_getElem?
  intro j
  rw [slice_neg_getElem? l K hK, slice_neg_getElem? l _ (clamp_pos K l.length hK)]
  have := getElem?_mul_clamp l.reverse K j
  rwa [List.length_reverse] at this

/-- a step beyond the length selects the first cell only -/
theorem slice_pos_big (l : List α) (K : Nat) (hK : l.length ≤ K) (hK0 : 0 < K) :
    Py.slice l none none (K : Int) = l.head?.toList := by
  apply List.ext_getElem?
  intro j
  rw [slice_pos_getElem? l K hK0]
  cases j with
  | zero => cases l <;> simp
  | succ i =>
    have h1 : K ≤ (i + 1) * K := Nat.le_mul_of_pos_left K (by omega)
    rw [List.getElem?_eq_none (by omega), List.getElem?_eq_none]
    cases l <;> simp

/-- a negative step beyond the length selects the last cell only -/
theorem slice_neg_big (l : List α) (K : Nat) (hK : l.length ≤ K) (hK0 : 0 < K) :
    Py.slice l none none (-(K : Int)) = l.getLast?.toList := by
  apply List.ext_getElem?
  intro j
  rw [slice_neg_getElem? l K hK0]
  cases j with
  | zero => rw [Nat.zero_mul, ← List.head?_eq_getElem?, List.head?_reverse]; cases l.getLast? <;> simp
  | succ i =>
    have h1 : K ≤ (i + 1) * K := Nat.le_mul_of_pos_left K (by omega)
    rw [List.getElem?_eq_none (by simp; omega), List.getElem?_eq_none]
    cases l.getLast? <;> simp

end Proofs.StepClamp

/-- THE CLAMP: CPython's `l[::k]` is the same list for `k` and for `k` clamped (in absolute value) to
`max(len l, 1)` -/
theorem Py.slice_step_clamp {α : Type} (l : List α) (k : Int) (hk : k ≠ 0) :
    Py.slice l none none k =
      Py.slice l none none (if k < 0 then -((min k.natAbs (max l.length 1) : Nat) : Int)
        else ((min k.natAbs (max l.length 1) : Nat) : Int)) := by
  rcases Int.eq_nat_or_neg k with ⟨K, rfl | rfl⟩
  · have hK : 0 < K := by omega
    rw [if_neg (by omega), Int.natAbs_natCast]
    exact Proofs.StepClamp.slice_pos_clamp l K hK
  · have hK : 0 < K := by omega
    rw [if_pos (by omega), Int.natAbs_neg, Int.natAbs_natCast]
    exact Proofs.StepClamp.slice_neg_clamp l K hK
