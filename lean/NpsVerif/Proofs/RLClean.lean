import NpsVerif.Proofs.RLBasic
/-!
# Run-length arrays: `np.delete` clean-up helpers `removeEmpty` / `joinRuns`
-/
open Model Model.RLA Np

namespace Proofs.RL
variable {α δ : Type}

/-! ## `deleteIdx l (flatnonzero mask)` structurally -/

/-- drop the entries whose mask bit is set (entries beyond the mask are kept) -/
def dropMask : List δ → List Bool → List δ
  | x :: xs, b :: bs => if b then dropMask xs bs else x :: dropMask xs bs
  | xs, [] => xs
  | [], _ :: _ => []

@[simp] theorem dropMask_nil_mask (l : List δ) : dropMask l [] = l := by
  cases l <;> simp [dropMask]

@[simp] theorem dropMask_nil (m : List Bool) : dropMask ([] : List δ) m = [] := by
  cases m <;> simp [dropMask]

theorem dropMask_cons_cons (x : δ) (xs : List δ) (b : Bool) (bs : List Bool) :
    dropMask (x :: xs) (b :: bs) = if b then dropMask xs bs else x :: dropMask xs bs := by
  simp [dropMask]

theorem deleteIdxFrom_eq (k : Nat) (l : List δ) (m : List Bool) :
    ((l.zipIdx k).filter (fun p => !(flatnonzeroFrom k m).contains p.2)).map (·.1) = dropMask l m := by
  induction l generalizing k m with
  | nil => simp
  | cons x xs ih =>
    cases m with
    | nil =>
      simp only [flatnonzeroFrom, List.contains_nil, Bool.not_false, dropMask_nil_mask]
      rw [List.filter_eq_self.mpr (by simp)]
      exact List.zipIdx_map_fst _ _
    | cons b bs =>
      have hk : (flatnonzeroFrom (k + 1) bs).contains k = false := by
        rw [List.contains_eq_mem]
        simp only [decide_eq_false_iff_not]
        intro h
        have := flatnonzeroFrom_ge _ _ _ h
        omega
      have hrest : ∀ (b : Bool),
          (xs.zipIdx (k + 1)).filter (fun p => !(flatnonzeroFrom k (b :: bs)).contains p.2)
            = (xs.zipIdx (k + 1)).filter (fun p => !(flatnonzeroFrom (k + 1) bs).contains p.2) := by
        intro b
        apply List.filter_congr
        rintro ⟨y, i⟩ hy
        have hi := (List.mem_zipIdx hy).1
        cases b
        · simp [flatnonzeroFrom]
        · simp only [flatnonzeroFrom, if_true, List.contains_cons]
          have : (i == k) = false := by simp; omega
          simp [this]
      rw [List.zipIdx_cons, List.filter_cons, hrest b, dropMask_cons_cons]
      cases b
      · simp only [flatnonzeroFrom, Bool.false_eq_true, if_false, hk, Bool.not_false, if_true,
          List.map_cons]
        rw [ih]
      · simp only [flatnonzeroFrom, if_true, List.contains_cons, BEq.rfl, Bool.true_or,
          Bool.not_true, Bool.false_eq_true, if_false]
        rw [ih]

/-- `np.delete(l, flatnonzero(mask))` -/
theorem deleteIdx_flatnonzero (l : List δ) (m : List Bool) :
    deleteIdx l (flatnonzero m) = dropMask l m := by
  have := deleteIdxFrom_eq 0 l m
  simpa [deleteIdx, flatnonzero] using this

/-! ## `removeEmpty` -/

theorem removeEmpty_eq (ev : List Nat) (vs : List α) :
    removeEmpty ev vs = (dropMask ev (List.zipWith (fun a b => a == b) ev (ev.drop 1)),
      dropMask vs (List.zipWith (fun a b => a == b) ev (ev.drop 1))) := by
  simp [removeEmpty, deleteIdx_flatnonzero]

theorem removeEmpty_aux (e0 : Nat) (es : List Nat) (vs : List α) (hl : es.length = vs.length)
    (hm : (e0 :: es).Pairwise (· ≤ ·)) :
    (∃ t, dropMask (e0 :: es) (List.zipWith (fun a b => a == b) (e0 :: es) es) = e0 :: t) ∧
    (dropMask (e0 :: es) (List.zipWith (fun a b => a == b) (e0 :: es) es)).length
      = (dropMask vs (List.zipWith (fun a b => a == b) (e0 :: es) es)).length + 1 ∧
    strictInc (dropMask (e0 :: es) (List.zipWith (fun a b => a == b) (e0 :: es) es)) = true ∧
    (RLA.mk (dropMask (e0 :: es) (List.zipWith (fun a b => a == b) (e0 :: es) es))
        (dropMask vs (List.zipWith (fun a b => a == b) (e0 :: es) es))).decode
      = (RLA.mk (e0 :: es) vs).decode := by
  induction es generalizing e0 vs with
  | nil =>
    cases vs with
    | nil => simp
    | cons v vs => simp at hl
  | cons e1 es ih =>
    cases vs with
    | nil => simp at hl
    | cons v vs =>
      have h01 : e0 ≤ e1 := (List.pairwise_cons.mp hm).1 e1 (by simp)
      obtain ⟨⟨t, ht⟩, ihl, ihs, ihd⟩ := ih e1 vs (by simpa using hl) (List.pairwise_cons.mp hm).2
      simp only [List.zipWith_cons_cons, dropMask_cons_cons]
      by_cases he : e0 = e1
      · subst he
        simp only [BEq.rfl, if_true]
        refine ⟨⟨t, ht⟩, ihl, ihs, ?_⟩
        rw [ihd, decode_cons_same]
      · have hb : (e0 == e1) = false := by simpa using he
        simp only [hb, Bool.false_eq_true, if_false]
        refine ⟨⟨_, rfl⟩, by simp [ihl], ?_, ?_⟩
        · rw [ht, strictInc_cons_cons]
          exact ⟨by omega, ht ▸ ihs⟩
        · rw [ht, decode_cons_cons, ← ht, ihd, decode_cons_cons]

/-- C14 `remove_empty_intervals` -/
theorem removeEmpty_decode (ev : List Nat) (vs : List α) (h : ev.length = vs.length + 1)
    (hmono : ev.Pairwise (· ≤ ·)) :
    (RLA.mk (removeEmpty ev vs).1 (removeEmpty ev vs).2).decode = (RLA.mk ev vs).decode ∧
    (removeEmpty ev vs).1.length = (removeEmpty ev vs).2.length + 1 ∧
    strictInc (removeEmpty ev vs).1 = true := by
  cases ev with
  | nil => simp at h
  | cons e0 es =>
    rw [removeEmpty_eq]
    simp only [List.drop_succ_cons, List.drop_zero]
    obtain ⟨_, h2, h3, h4⟩ := removeEmpty_aux e0 es vs (by simpa using h) hmono
    exact ⟨h4, h2, h3⟩

/-- the first boundary survives `removeEmpty` whenever the boundaries are monotone -/
theorem removeEmpty_head (e0 : Nat) (es : List Nat) (vs : List α) (hl : es.length = vs.length)
    (hm : (e0 :: es).Pairwise (· ≤ ·)) : (removeEmpty (e0 :: es) vs).1.head? = some e0 := by
  rw [removeEmpty_eq]
  simp only [List.drop_succ_cons, List.drop_zero]
  obtain ⟨⟨t, ht⟩, _⟩ := removeEmpty_aux e0 es vs hl hm
  rw [ht]; rfl

/-! ## `joinRuns` -/

theorem joinRuns_eq (eq : α → α → Bool) (ev : List Nat) (vs : List α) :
    joinRuns eq ev vs = (dropMask ev (false :: List.zipWith eq (vs.drop 1) vs),
      dropMask vs (false :: List.zipWith eq (vs.drop 1) vs)) := by
  simp [joinRuns, flatnonzero_map_succ, deleteIdx_flatnonzero]

theorem joinRuns_aux (eq : α → α → Bool) (heq : ∀ x y, eq x y = true → x = y)
    (e0 : Nat) (v : α) (es : List Nat) (vs : List α) (hl : es.length = vs.length + 1)
    (hs : strictInc (e0 :: es) = true) :
    (dropMask es (List.zipWith eq vs (v :: vs))).length
      = (dropMask vs (List.zipWith eq vs (v :: vs))).length + 1 ∧
    strictInc (e0 :: dropMask es (List.zipWith eq vs (v :: vs))) = true ∧
    (RLA.mk (e0 :: dropMask es (List.zipWith eq vs (v :: vs)))
        (v :: dropMask vs (List.zipWith eq vs (v :: vs)))).decode
      = (RLA.mk (e0 :: es) (v :: vs)).decode := by
  induction vs generalizing e0 v es with
  | nil =>
    match es, hl with
    | [e1], _ => simp [hs]
  | cons v1 vs ih =>
    match es, hl, hs with
    | e1 :: e2 :: es, hl, hs =>
      have h01 : e0 < e1 := ((strictInc_cons_cons _ _ _).mp hs).1
      have hs1 : strictInc (e1 :: e2 :: es) = true := ((strictInc_cons_cons _ _ _).mp hs).2
      have h12 : e1 < e2 := ((strictInc_cons_cons _ _ _).mp hs1).1
      simp only [List.zipWith_cons_cons, dropMask_cons_cons]
      by_cases hb : eq v1 v = true
      · have hv : v1 = v := heq v1 v hb
        subst hv
        simp only [hb, if_true]
        obtain ⟨i1, i2, i3⟩ := ih e0 v1 (e2 :: es) (by simpa using hl)
          (strictInc_drop_second e0 e1 _ hs)
        refine ⟨i1, i2, ?_⟩
        rw [i3, decode_merge e0 e1 e2 es v1 vs (by omega) (by omega)]
      · have hb' : eq v1 v = false := by simpa using hb
        simp only [hb', Bool.false_eq_true, if_false]
        obtain ⟨i1, i2, i3⟩ := ih e1 v1 (e2 :: es) (by simpa using hl) hs1
        refine ⟨by simp [i1], ?_, ?_⟩
        · rw [strictInc_cons_cons]; exact ⟨h01, i2⟩
        · rw [decode_cons_cons, i3, decode_cons_cons e0 e1]

/-- C14 `join_runs` -/
theorem joinRuns_decode (eq : α → α → Bool) (heq : ∀ x y, eq x y = true → x = y) (r : RLA α)
    (h : r.Valid) :
    (RLA.mk (joinRuns eq r.events r.values).1 (joinRuns eq r.events r.values).2).decode = r.decode ∧
    (RLA.mk (joinRuns eq r.events r.values).1 (joinRuns eq r.events r.values).2).Valid := by
  obtain ⟨es, hev, hl, hs⟩ := valid_shape r h
  obtain ⟨ev, vs⟩ := r
  simp only at hev hl
  subst hev
  rw [joinRuns_eq]
  simp only [dropMask_cons_cons, Bool.false_eq_true, if_false]
  cases vs with
  | nil =>
    have : es = [] := by simpa using hl
    subst this
    simp [Valid, validB]
  | cons v vs =>
    simp only [List.drop_succ_cons, List.drop_zero, dropMask_cons_cons, Bool.false_eq_true, if_false]
    obtain ⟨i1, i2, i3⟩ := joinRuns_aux eq heq 0 v es vs (by simpa using hl) hs
    exact ⟨i3, valid_mk _ _ (by simp [i1]) i2⟩

end Proofs.RL
