import NpsVerif.Model.IndexWidth
import NpsVerif.Proofs.GetItemSel
import NpsVerif.Proofs.BuildIndices
import NpsVerif.Proofs.ColSlice
import NpsVerif.Proofs.C01
/-! Lemmas for property C19: the 32-bit index configuration.
(a) packing (start, length) pairs into 64-bit words commutes with every row selector;
(b) bounds on the entries of the gather-index builder and on the partial sums of its cumsum. -/
namespace Model.W32
open Model Np

/-! ### (a) pack / unpack -/

theorem unpack_pack_one (c : Nat × Nat) (h : c.1 < B32) :
    ((c.1 + c.2 * B32) % B32, (c.1 + c.2 * B32) / B32) = c := by
  have hB : 0 < B32 := by decide
  rw [Nat.add_mul_mod_self_right, Nat.mod_eq_of_lt h, Nat.add_mul_div_right _ _ hB,
    Nat.div_eq_of_lt h, Nat.zero_add]

theorem unpack_pack (codes : List (Nat × Nat)) (h : ∀ c ∈ codes, c.1 < B32) :
    unpack64 (pack64 codes) = codes := by
  unfold unpack64 pack64
  rw [List.map_map]
  conv => rhs; rw [← List.map_id codes]
  apply List.map_congr_left
  intro c hc
  exact unpack_pack_one c (h c hc)

/-- the generic selector is `indexRows` on codes -/
theorem indexRowsGeneric_codes (codes : List (Nat × Nat)) (sel : RowSel) :
    indexRows32.indexRowsGeneric codes sel = indexRows codes sel := by
  cases sel <;> rfl

/-- every row selector commutes with mapping -/
theorem indexRowsGeneric_map {α β} (f : α → β) (l : List α) (sel : RowSel) :
    indexRows32.indexRowsGeneric (l.map f) sel = (indexRows32.indexRowsGeneric l sel).map (·.map f) := by
  cases sel with
  | int i =>
    simp only [indexRows32.indexRowsGeneric, getIdx_map]
    cases getIdx l i <;> simp
  | slice a b k =>
    simp only [indexRows32.indexRowsGeneric, sliceList]
    split <;> simp [slice_map]
  | list is =>
    simp only [indexRows32.indexRowsGeneric]
    exact gather_map f l is
  | mask bs =>
    simp only [indexRows32.indexRowsGeneric, List.length_map]
    split <;> simp [mask_map]
  | all => simp [indexRows32.indexRowsGeneric]

theorem indexRows32_eq (codes : List (Nat × Nat)) (h : ∀ c ∈ codes, c.1 < B32) (sel : RowSel) :
    indexRows32 codes sel = indexRows codes sel := by
  unfold indexRows32
  have e : pack64 codes = codes.map (fun c => c.1 + c.2 * B32) := rfl
  rw [e, indexRowsGeneric_map, indexRowsGeneric_codes]
  cases hsc : indexRows codes sel with
  | none => rfl
  | some sc =>
    simp only [Option.map_some]
    congr 1
    exact unpack_pack sc (fun c hc => h c (indexRows_mem codes sel sc hsc c hc))

/-! ### (b) the builder -/

theorem indexBuilder_cumsum (step : Int) (vrows : List (Int × Int × Nat)) :
    buildIndices step vrows = (Np.cumsum (indexBuilder step vrows)).dropLast := by
  unfold buildIndices indexBuilder
  by_cases hs : (vrows.map (·.2.2)).sum = 0
  · simp only [hs, if_true]; rfl
  · simp only [hs, if_false]

/-- structural form of `indexBuilder` on (start, length) rows -/
theorem indexBuilder_vrow (step : Int) (rows : List (Int × Nat)) (hs : (rows.map (·.2)).sum ≠ 0) :
    indexBuilder step (rows.map (vrow step))
      = builderFrom step 1 (rows.filter (·.2 != 0)) ++ [step] := by
  have hlens : (rows.map (vrow step)).map (·.2.2) = rows.map (·.2) := by simp [vrow]
  unfold indexBuilder
  simp only [hlens]
  rw [if_neg hs]
  simp only [exclScan]
  rw [ne_filter, ← sum_filter_ne]
  have hne : ∀ r ∈ rows.filter (·.2 != 0), 0 < r.2 := by
    intro r hr
    have := (List.mem_filter.mp hr).2
    simp at this; omega
  rw [← sum_filter_ne] at hs
  generalize rows.filter (·.2 != 0) = R at hne hs ⊢
  cases R with
  | nil => simp at hs
  | cons r0 rs => exact builder_core step r0 rs hne _ rfl

theorem indexBuilder_of_sum_zero (step : Int) (vrows : List (Int × Int × Nat))
    (hs : (vrows.map (·.2.2)).sum = 0) : indexBuilder step vrows = [] := by
  unfold indexBuilder
  simp [hs]

/-- entries of the structural builder (step 1): jumps between rows inside a buffer of `size` cells -/
theorem builderFrom_entries (size : Int) (e : Int) (rs : List (Int × Nat))
    (he : 0 ≤ e ∧ e ≤ size)
    (hin : ∀ r ∈ rs, 0 < r.2 ∧ 0 ≤ r.1 ∧ r.1 + (r.2 : Int) ≤ size) :
    ∀ x ∈ builderFrom 1 e rs, -size + 1 ≤ x ∧ x ≤ size + 1 := by
  induction rs generalizing e with
  | nil => simp [builderFrom]
  | cons r rs ih =>
    obtain ⟨s, l⟩ := r
    have h0 := hin (s, l) (by simp)
    simp only at h0
    intro x hx
    simp only [builderFrom, List.mem_cons, List.mem_append, List.mem_replicate] at hx
    rcases hx with rfl | ⟨_, rfl⟩ | hx
    · omega
    · omega
    · refine ih (rowEnd 1 (s, l)) ?_ (fun r hr => hin r (by simp [hr])) x hx
      simp only [rowEnd]; omega

/-- partial sums of the structural builder followed by the fill value (step 1) -/
theorem builderFrom_cumsum (size : Int) (e : Int) (rs : List (Int × Nat))
    (he : 0 ≤ e ∧ e ≤ size)
    (hin : ∀ r ∈ rs, 0 < r.2 ∧ 0 ≤ r.1 ∧ r.1 + (r.2 : Int) ≤ size) :
    ∀ x ∈ cumsumFrom (e - 1) (builderFrom 1 e rs ++ [1]), 0 ≤ x ∧ x ≤ size := by
  induction rs generalizing e with
  | nil =>
    intro x hx
    simp [builderFrom, cumsumFrom] at hx
    omega
  | cons r rs ih =>
    obtain ⟨s, l⟩ := r
    have h0 := hin (s, l) (by simp)
    simp only at h0
    obtain ⟨m, rfl⟩ : ∃ m, l = m + 1 := ⟨l - 1, by omega⟩
    intro x hx
    have e1 : e - 1 + (s - e + 1) = s := by omega
    simp only [builderFrom, List.cons_append, cumsumFrom, Nat.add_sub_cancel, List.append_assoc] at hx
    rw [e1, cumsumFrom_append, cumsumFrom_replicate, sum_replicate_int] at hx
    simp only [List.mem_cons, List.mem_append] at hx
    rcases hx with rfl | hx | hx
    · omega
    · obtain ⟨j, hj, rfl⟩ := Proofs.ColSlice.mem_prog hx
      omega
    · have e2 : s + (m : Int) * 1 = rowEnd 1 (s, m + 1) - 1 := by simp [rowEnd]
      rw [e2] at hx
      refine ih (rowEnd 1 (s, m + 1)) ?_ (fun r hr => hin r (by simp [hr])) x hx
      simp only [rowEnd]; omega

theorem fits32_of_bounds (size : Nat) (h : (size : Int) + 1 < 2 ^ 31) (x : Int)
    (hx : -(size : Int) + 1 ≤ x ∧ x ≤ size + 1) : Fits32 x := by
  unfold Fits32
  omega

/-! ### (b) the geometry -/

theorem take_sum_le (l : List Nat) (i : Nat) : (l.take i).sum ≤ l.sum := by
  induction l generalizing i with
  | nil => simp
  | cons x xs ih =>
    cases i with
    | zero => simp
    | succ i => simp only [List.take_succ_cons, List.sum_cons]; have := ih i; omega

theorem take_succ_sum_le (l : List Nat) (i : Nat) (hi : i < l.length) :
    (l.take i).sum + l[i] ≤ l.sum := by
  have := take_sum_le l (i + 1)
  rw [List.take_add_one, List.getElem?_eq_getElem hi, List.sum_append] at this
  simpa using this

theorem ofLens_codes_bound (ls : List Nat) :
    ∀ c ∈ (Shape.ofLens ls).codes, c.1 + c.2 ≤ ls.sum := by
  intro c hc
  rw [ofLens_codes] at hc
  obtain ⟨i, hi, hci⟩ := List.mem_iff_getElem.mp hc
  rw [List.getElem_zip] at hci
  have hil : i < ls.length := by simpa using hi
  have h1 : (exclScan ls)[i]? = some ((ls.take i).sum) := exclScan_getElem? ls i hil
  have h2 : (exclScan ls)[i]'(by simpa using hil) = (ls.take i).sum := by
    have := List.getElem?_eq_getElem (l := exclScan ls) (i := i) (by simpa using hil)
    rw [this] at h1
    exact Option.some.inj h1
  have := take_succ_sum_le ls i hil
  subst hci
  simp only [h2]
  exact this

end Model.W32
