import NpsVerif.Model.ArgReduce
import NpsVerif.Props.C08A
/-!
# `np.unique(rows, return_index=True)` on the row coordinates of `np.nonzero`, and the scatter
(helpers for property C05, part B)

* `uniqueFirst` followed by the column lookup = `firstsFrom none` (keep the first coordinate pair of
  every run of equal row numbers);
* on the row-major coordinates of the true cells that is one pair (row, first true column) per row
  that has a true cell (`writes`);
* scattering these pairs into zeros gives `(row.findIdx? id).getD 0` for every row.
-/
namespace Proofs.ArgReduce
open Model Np Proofs.StructA

/-- keep the first pair of every run of equal first components -/
def firstsFrom (prev : Option Nat) : List (Nat × Nat) → List (Nat × Nat)
  | [] => []
  | (r, c) :: cs => if prev = some r then firstsFrom (some r) cs else (r, c) :: firstsFrom (some r) cs

/-- `uniqueFirst` with an explicit already-processed prefix -/
def uniqFrom (pre l : List Nat) : List (Nat × Nat) :=
  ((List.range' pre.length l.length).zip l).filterMap (fun ir =>
    if ir.1 = 0 ∨ (pre ++ l)[ir.1 - 1]? ≠ some ir.2 then some (ir.2, ir.1) else none)

theorem uniqueFirst_eq (l : List Nat) : uniqueFirst l = uniqFrom [] l := by
  unfold uniqueFirst uniqFrom
  rw [List.range_eq_range']
  simp

theorem cond_iff (pre : List Nat) (x : Nat) (xs : List Nat) :
    (pre.length = 0 ∨ (pre ++ x :: xs)[pre.length - 1]? ≠ some x) ↔ pre.getLast? ≠ some x := by
  by_cases hp : pre = []
  · subst hp; simp
  · have hl : 0 < pre.length := List.length_pos_iff.mpr hp
    rw [List.getElem?_append_left (by omega), List.getLast?_eq_getElem?]
    constructor
    · rintro (h | h)
      · omega
      · exact h
    · intro h; exact Or.inr h

theorem uniqFrom_cons (pre : List Nat) (x : Nat) (xs : List Nat) :
    uniqFrom pre (x :: xs)
      = (if pre.getLast? = some x then [] else [(x, pre.length)]) ++ uniqFrom (pre ++ [x]) xs := by
  unfold uniqFrom
  simp only [List.length_cons, List.range'_succ, List.zip_cons_cons, List.filterMap_cons,
    List.length_append, List.length_nil, Nat.zero_add, List.append_assoc, List.cons_append,
    List.nil_append]
  by_cases h : pre.getLast? = some x
  · have : ¬ (pre.length = 0 ∨ (pre ++ x :: xs)[pre.length - 1]? ≠ some x) := by
      rw [cond_iff]; exact fun hn => hn h
    simp only [this, h, if_false, if_true, List.nil_append]
  · have : (pre.length = 0 ∨ (pre ++ x :: xs)[pre.length - 1]? ≠ some x) := by
      rw [cond_iff]; exact h
    simp only [this, h, if_false, if_true, List.cons_append, List.nil_append]

/-- `uniqueFirst` + column lookup, with a processed prefix -/
theorem firsts_from (pre cs : List (Nat × Nat)) :
    (uniqFrom (pre.map (·.1)) (cs.map (·.1))).filterMap
        (fun p => (((pre ++ cs).map (·.2))[p.2]?).map (fun c => (p.1, c)))
      = firstsFrom (pre.getLast?.map (·.1)) cs := by
  induction cs generalizing pre with
  | nil => simp [uniqFrom, firstsFrom]
  | cons rc cs ih =>
    obtain ⟨r, c⟩ := rc
    rw [List.map_cons, uniqFrom_cons, List.filterMap_append]
    have h2 := ih (pre ++ [(r, c)])
    simp only [List.map_append, List.map_cons, List.map_nil, List.append_assoc, List.cons_append,
      List.nil_append, List.getLast?_append, List.getLast?_singleton, Option.some_or,
      Option.map_some] at h2
    simp only [List.map_append, List.map_cons]
    rw [h2]
    simp only [firstsFrom, List.getLast?_map, List.length_map]
    by_cases h : Option.map (fun x => x.1) pre.getLast? = some r
    · simp only [h, if_true, List.filterMap_nil, List.nil_append]
    · simp only [h, if_false, List.filterMap_cons, List.filterMap_nil]
      have : (List.map (fun x => x.2) pre ++ c :: List.map (fun x => x.2) cs)[pre.length]? = some c := by
        rw [List.getElem?_append_right (by simp)]
        simp
      simp only [this, Option.map_some, List.cons_append, List.nil_append]

theorem firsts_eq (cs : List (Nat × Nat)) :
    (uniqueFirst (cs.map (·.1))).filterMap (fun p => ((cs.map (·.2))[p.2]?).map (fun c => (p.1, c)))
      = firstsFrom none cs := by
  have := firsts_from [] cs
  rw [uniqueFirst_eq]
  simpa using this

/-! ## on the coordinates of the true cells -/

/-- one pair (row number, first true column) for every row that has a true cell -/
def writes (k : Nat) : List (List Bool) → List (Nat × Nat)
  | [] => []
  | b :: bs => ((trueCols b).head?.map (fun c => (k, c))).toList ++ writes (k + 1) bs

theorem firstsFrom_same (k : Nat) (l : List Nat) (rest : List (Nat × Nat)) :
    firstsFrom (some k) (l.map (fun c => (k, c)) ++ rest) = firstsFrom (some k) rest := by
  induction l with
  | nil => rfl
  | cons c l ih => simp [firstsFrom, ih]

theorem firstsFrom_coords (prev : Option Nat) (k : Nat) (bs : List (List Bool))
    (h : ∀ r, prev = some r → r < k) :
    firstsFrom prev (coordsFrom k bs) = writes k bs := by
  induction bs generalizing prev k with
  | nil => simp [coordsFrom, firstsFrom, writes]
  | cons b bs ih =>
    rw [coordsFrom_cons, writes]
    cases htc : trueCols b with
    | nil =>
      simp only [List.map_nil, List.nil_append, List.head?_nil, Option.map_none, Option.toList_none]
      exact ih prev (k + 1) (fun r hr => Nat.lt_succ_of_lt (h r hr))
    | cons c l =>
      have hne : prev ≠ some k := fun e => Nat.lt_irrefl _ (h k e)
      simp only [List.map_cons, List.cons_append, firstsFrom, hne, if_false, List.head?_cons,
        Option.map_some, Option.toList_some, List.nil_append, List.cons.injEq, true_and]
      rw [firstsFrom_same]
      exact ih (some k) (k + 1) (fun r hr => by cases hr; exact Nat.lt_succ_self _)

/-! ## the scatter -/

theorem scatter_writes (pre : List Nat) (bs : List (List Bool)) :
    scatterSet (pre ++ List.replicate bs.length 0) (writes pre.length bs)
      = pre ++ bs.map (fun b => (trueCols b).head?.getD 0) := by
  induction bs generalizing pre with
  | nil => simp [writes, scatterSet]
  | cons b bs ih =>
    have h1 := ih (pre ++ [(trueCols b).head?.getD 0])
    simp only [List.length_append, List.length_cons, List.length_nil, Nat.zero_add,
      List.append_assoc, List.cons_append, List.nil_append] at h1
    simp only [writes, List.length_cons, List.replicate_succ, List.map_cons]
    cases htc : (trueCols b).head? with
    | none =>
      rw [htc] at h1
      simpa using h1
    | some c =>
      rw [htc] at h1
      simp only [Option.map_some, Option.toList_some, List.cons_append, List.nil_append, scatterSet,
        Option.getD_some]
      rw [List.set_append_right _ _ (Nat.le_refl _)]
      simpa using h1

theorem head_flatnonzeroFrom (k : Nat) (r : List Bool) :
    (flatnonzeroFrom k r).head? = (r.findIdx? id).map (k + ·) := by
  induction r generalizing k with
  | nil => rfl
  | cons b bs ih =>
    cases b with
    | true => simp [flatnonzeroFrom, List.findIdx?_cons]
    | false =>
      simp only [flatnonzeroFrom, Bool.false_eq_true, if_false, List.findIdx?_cons, id]
      rw [ih]
      cases bs.findIdx? id <;> simp <;> omega

theorem head_trueCols (r : List Bool) : (trueCols r).head? = r.findIdx? id := by
  have h := flatnonzeroFrom_trueCols 0 r
  have h2 := head_flatnonzeroFrom 0 r
  rw [h] at h2
  simpa using h2

/-- first true column of every row (0 when there is none), via `nonzero`-coordinates, `uniqueFirst`
and the scatter into zeros -/
theorem scatter_firsts (bs : List (List Bool)) :
    scatterSet (List.replicate bs.length 0)
        ((uniqueFirst ((Spec.nonzeroCoords bs).map (·.1))).filterMap
          (fun p => (((Spec.nonzeroCoords bs).map (·.2))[p.2]?).map (fun c => (p.1, c))))
      = bs.map (fun b => (b.findIdx? id).getD 0) := by
  rw [firsts_eq, nonzeroCoords_eq, firstsFrom_coords none 0 bs (fun r hr => by cases hr)]
  have := scatter_writes [] bs
  simp only [List.nil_append, List.length_nil] at this
  rw [this]
  apply List.map_congr_left
  intro b _
  rw [head_trueCols]

end Proofs.ArgReduce
