import NpsVerif.Proofs.RLIndexRange
/-! # Run-length arrays: windows (`rla[starts:stops]`) -/
namespace Proofs.RLIndex
open Model Model.RLA
variable {α : Type}

theorem windows_decode (r : RLA α) (h : r.Valid) (ss es : List Nat)
    (hw : ∀ p ∈ ss.zip es, p.1 < p.2 ∧ p.2 ≤ r.len) :
    (r.windows ss es).map (fun p => (RLA.mk p.1 p.2).decode) =
      List.zipWith (fun s e => (r.decode.drop s).take (e - s)) ss es := by
  unfold windows
  induction ss generalizing es with
  | nil => simp
  | cons s ss ih =>
    cases es with
    | nil => simp
    | cons e es =>
      simp only [List.zipWith_cons_cons, List.map_cons]
      have h1 := hw (s, e) (by simp)
      rw [startToEnd_decode r h s e h1.1 h1.2, ih es]
      intro p hp
      exact hw p (by simp [hp])

theorem windows_valid (r : RLA α) (h : r.Valid) (ss es : List Nat)
    (hw : ∀ p ∈ ss.zip es, p.1 < p.2 ∧ p.2 ≤ r.len) :
    ∀ p ∈ r.windows ss es, (RLA.mk p.1 p.2).Valid ∧ 0 < (RLA.mk p.1 p.2).len := by
  unfold windows
  induction ss generalizing es with
  | nil => simp
  | cons s ss ih =>
    cases es with
    | nil => simp
    | cons e es =>
      intro p hp
      simp only [List.zipWith_cons_cons, List.mem_cons] at hp
      have h1 := hw (s, e) (by simp)
      rcases hp with rfl | hp
      · have hv := startToEnd_valid r h s e h1.1 h1.2
        refine ⟨hv, ?_⟩
        rw [len_eq_decode_length _ hv, startToEnd_decode r h s e h1.1 h1.2,
          List.length_take, List.length_drop, ← len_eq_decode_length r h]
        omega
      · exact ih es (fun p hp => hw p (by simp [hp])) p hp

end Proofs.RLIndex
