import NpsVerif.Proofs.RL2ColAnyRow
/-!
# `_col_any` (C17, part E): the mask / filter / interleave steps as a structural recursion

`colAny_eq`: the model, with its pieces named.  `assemble_eq`: for `n ≥ 1` sorted starts `s :: A` and ends `B`
the result is `mk? ([0]? ++ s :: sweepEv L A B) ([false]? ++ true :: sweepVs L A B)`, where `sweepEv / sweepVs`
walk over the gaps `(B[i], A[i])` and cut exactly where `A[i] > B[i]`.
-/
namespace Proofs.RL2ColAny
open Model Model.RL2 Model.RLA Proofs.RLIndex

def maskOf (S E : List Nat) : List Bool :=
  (List.range (S.length + 1)).map (fun i =>
      decide (i = 0) || decide (i = S.length) || decide ((S[i]?.getD 0) > (E[i - 1]?.getD 0)))

def fin (L : Nat) (ev : List Nat) (vs : List Bool) : List Nat × List Bool :=
  if ev.getLast? == some L then (ev, vs.dropLast) else (ev ++ [L], vs)

def assemble (L : Nat) (st en : List Nat) : Option (RLA Bool) :=
  let indices := (st.zip en).flatMap (fun p => [p.1, p.2])
  let values := (st.zip en).flatMap (fun _ => [true, false])
  let p := if st.isEmpty || st.head? != some 0 then (0 :: indices, false :: values) else (indices, values)
  let q := fin L p.1 p.2
  RLA.mk? q.1 q.2

def startsOf (r : RL2 Bool) : List Nat :=
  sortNat (((r.indices.zip r.values).map (fun iv => joinRunsRow iv.1 iv.2)).flatMap
    (fun p => (p.1.zip p.2).filterMap (fun q => if q.2 then some q.1 else none)))
def ends0Of (r : RL2 Bool) : List Nat :=
  sortNat (((r.indices.zip r.values).map (fun iv => joinRunsRow iv.1 iv.2)).flatMap
    (fun p => ((p.1.zip p.2).drop 1).filterMap (fun q => if !q.2 then some q.1 else none)))
def endsOf (r : RL2 Bool) (L : Nat) : List Nat :=
  cummax (ends0Of r) ++ List.replicate ((startsOf r).length - (cummax (ends0Of r)).length) L

/-- the model with its pieces named -/
theorem colAny_eq (r : RL2 Bool) (L : Nat) (hL : r.rowLen = some L) :
    r.colAny = assemble L
      (((startsOf r).zip (maskOf (startsOf r) (endsOf r L))).filterMap (fun p => if p.2 then some p.1 else none))
      (((endsOf r L).zip ((maskOf (startsOf r) (endsOf r L)).drop 1)).filterMap (fun p => if p.2 then some p.1 else none)) := by
  unfold colAny
  rw [hL]
  rfl

/-! ## the structural form -/

def sweepEv' : List Nat → List Nat → List Nat
  | a :: A, e :: B => if a > e then e :: a :: sweepEv' A B else sweepEv' A B
  | [], e :: _ => [e]
  | _, [] => []

def sweepVs' : List Nat → List Nat → List Bool
  | a :: A, e :: B => if a > e then false :: true :: sweepVs' A B else sweepVs' A B
  | [], _ :: _ => [false]
  | _, [] => []

def sweepEv (L : Nat) : List Nat → List Nat → List Nat
  | a :: A, e :: B => if a > e then e :: a :: sweepEv L A B else sweepEv L A B
  | [], e :: _ => if e = L then [e] else [e, L]
  | _, [] => []

def sweepVs (L : Nat) : List Nat → List Nat → List Bool
  | a :: A, e :: B => if a > e then false :: true :: sweepVs L A B else sweepVs L A B
  | [], e :: _ => if e = L then [] else [false]
  | _, [] => []

/-- the cut mask between neighbours -/
abbrev cuts (A B : List Nat) : List Bool := List.zipWith (fun a e => decide (a > e)) A B

theorem maskOf_cons (s : Nat) (A B : List Nat) (hl : B.length = A.length + 1) :
    maskOf (s :: A) B = true :: (cuts A B ++ [true]) := by
  unfold maskOf
  apply List.ext_getElem
  · simp [cuts]; omega
  · intro i h1 h2
    simp only [List.length_map, List.length_range, List.length_cons] at h1
    simp only [List.getElem_map, List.getElem_range, List.length_cons]
    cases i with
    | zero => simp
    | succ j =>
      simp only [List.getElem_cons_succ, List.getElem?_cons_succ, Nat.add_sub_cancel]
      by_cases hj : j < A.length
      · have hjB : j < B.length := by omega
        rw [List.getElem_append_left (by simp [cuts]; omega)]
        simp [cuts, List.getElem?_eq_getElem hj, List.getElem?_eq_getElem hjB]
        omega
      · have : j = A.length := by omega
        subst this
        rw [List.getElem_append_right (by simp [cuts]; omega)]
        simp

theorem interleave_ev (s : Nat) (A B : List Nat) (hl : B.length = A.length + 1) :
    (((s :: (A.zip (cuts A B)).filterMap (fun p => if p.2 then some p.1 else none)).zip
      ((B.zip (cuts A B ++ [true])).filterMap (fun p => if p.2 then some p.1 else none))).flatMap
        (fun p => [p.1, p.2])) = s :: sweepEv' A B := by
  induction A generalizing s B with
  | nil =>
    match B, hl with
    | [e], _ => simp [sweepEv']
  | cons a A ih =>
    match B, hl with
    | e :: B, hl =>
      have hl' : B.length = A.length + 1 := by simpa using hl
      by_cases h : a > e
      · have := ih a B hl'
        simp only [cuts] at this
        simp [sweepEv', h, this]
      · have := ih s B hl'
        simp only [cuts] at this
        simp [sweepEv', h, this]

theorem interleave_vs (s : Nat) (A B : List Nat) (hl : B.length = A.length + 1) :
    (((s :: (A.zip (cuts A B)).filterMap (fun p => if p.2 then some p.1 else none)).zip
      ((B.zip (cuts A B ++ [true])).filterMap (fun p => if p.2 then some p.1 else none))).flatMap
        (fun _ => [true, false])) = true :: sweepVs' A B := by
  induction A generalizing s B with
  | nil =>
    match B, hl with
    | [e], _ => simp [sweepVs']
  | cons a A ih =>
    match B, hl with
    | e :: B, hl =>
      have hl' : B.length = A.length + 1 := by simpa using hl
      by_cases h : a > e
      · have := ih a B hl'
        simp only [cuts] at this
        simp [sweepVs', h, this]
      · have := ih s B hl'
        simp only [cuts] at this
        simp [sweepVs', h, this]

theorem fin_sweep (L : Nat) (pre : List Nat) (preV : List Bool) (A B : List Nat)
    (hl : B.length = A.length + 1) :
    fin L (pre ++ sweepEv' A B) (preV ++ sweepVs' A B) = (pre ++ sweepEv L A B, preV ++ sweepVs L A B) := by
  induction A generalizing B pre preV with
  | nil =>
    match B, hl with
    | [e], _ =>
      simp only [sweepEv', sweepVs', sweepEv, sweepVs, fin]
      by_cases h : e = L
      · simp [h]
      · simp [h]
  | cons a A ih =>
    match B, hl with
    | e :: B, hl =>
      have hl' : B.length = A.length + 1 := by simpa using hl
      simp only [sweepEv', sweepVs', sweepEv, sweepVs]
      by_cases h : a > e
      · simp only [if_pos h]
        have := ih (pre ++ [e, a]) (preV ++ [false, true]) B hl'
        simpa using this
      · simp only [if_neg h]
        exact ih pre preV B hl'

theorem assemble_cons (L s : Nat) (A B : List Nat) (hl : B.length = A.length + 1) :
    assemble L
      (((s :: A).zip (maskOf (s :: A) B)).filterMap (fun p => if p.2 then some p.1 else none))
      ((B.zip ((maskOf (s :: A) B).drop 1)).filterMap (fun p => if p.2 then some p.1 else none))
    = RLA.mk? ((if s = 0 then [] else [0]) ++ s :: sweepEv L A B)
        ((if s = 0 then [] else [false]) ++ true :: sweepVs L A B) := by
  rw [maskOf_cons s A B hl]
  have hz : A.zip (cuts A B ++ [true]) = A.zip (cuts A B) := by
    have := List.zip_append (l₁ := A) (r₁ := []) (l₂ := cuts A B) (r₂ := [true]) (by simp [cuts]; omega)
    simpa using this
  simp only [List.zip_cons_cons, List.drop_one, List.tail_cons, List.filterMap_cons, if_true, hz]
  unfold assemble
  simp only [interleave_ev s A B hl, interleave_vs s A B hl]
  by_cases hs : s = 0
  · subst hs
    have := fin_sweep L [0] [true] A B hl
    simp at this
    simp [this]
  · have := fin_sweep L [0, s] [false, true] A B hl
    simp at this
    simp [hs, this]

theorem assemble_nil (L : Nat) (hpos : 1 ≤ L) :
    assemble L
      ((([] : List Nat).zip (maskOf [] [])).filterMap (fun p => if p.2 then some p.1 else none))
      ((([] : List Nat).zip ((maskOf [] []).drop 1)).filterMap (fun p => if p.2 then some p.1 else none))
    = RLA.mk? [0, L] [false] := by
  have : ¬ (0 = L) := by omega
  simp [assemble, fin, this]

end Proofs.RL2ColAny
