import NpsVerif.Proofs.HTInv
import NpsVerif.Proofs.HTDict
/-!
# HashTable ⊑ dictionary: the simulation relation and one simulation lemma per operation (C11 / C12)
-/
open Model Model.HT Np

namespace Proofs.HT
open Spec

/-- SIMULATION RELATION: the table satisfies the invariant for `keys`, the dictionary has exactly
these keys (in the original order), and every key's cell holds the dictionary's value -/
def R (keys : List Int) (t : Table Int) (d : Dict Int) : Prop :=
  Inv t keys ∧ d.map (·.1) = keys ∧
    ∀ k loc, findKey t k = some loc → cellAt (filled t) loc = Dict.lookup d k

variable {keys : List Int} {t : Table Int} {d : Dict Int}

theorem R.inv (r : R keys t d) : Inv t keys := r.1
theorem R.keys_eq (r : R keys t d) : d.map (·.1) = keys := r.2.1
theorem R.cell (r : R keys t d) {k : Int} {loc : Nat × Nat} (h : findKey t k = some loc) :
    cellAt (filled t) loc = Dict.lookup d k := r.2.2 k loc h

theorem R.dnodup (r : R keys t d) : (d.map (·.1)).Nodup := by rw [r.keys_eq]; exact r.inv.nodup

/-- replacing the values by rows of the right shape keeps the invariant -/
theorem Inv.withCells {v : Type} {t : Table v} (inv : Inv t keys) (cells : List (List v))
    (hsh : cells.map List.length = t.buckets.map List.length) :
    Inv { t with values := .inr cells } keys :=
  ⟨inv.nodup, inv.perm, inv.hash, inv.len, inv.pos, hsh⟩

/-- the table's lookup of any number is the dictionary's lookup -/
theorem R.lookup (r : R keys t d) (q : Int) : (findKey t q).bind (valueAt t) = Dict.lookup d q := by
  by_cases hq : q ∈ keys
  · obtain ⟨loc, hl⟩ := findKey_of_mem r.inv hq
    rw [hl, Option.bind_some, valueAt_eq hl, r.cell hl]
  · rw [findKey_none r.inv hq, Option.bind_none, Dict.lookup_none (by rw [r.keys_eq]; exact hq)]

theorem R.mem (r : R keys t d) (q : Int) : (findKey t q).isSome = Dict.mem d q := by
  rw [findKey_isSome r.inv, Dict.mem_eq, r.keys_eq]

/-! ## mapM on Option -/

theorem mapM_nil' {α β : Type} (f : α → Option β) : ([] : List α).mapM f = some [] := rfl

theorem mapM_cons' {α β : Type} (f : α → Option β) (a : α) (l : List α) :
    (a :: l).mapM f = (f a).bind (fun b => (l.mapM f).map (b :: ·)) := by
  rw [List.mapM_cons]
  cases f a with
  | none => rfl
  | some b =>
    cases l.mapM f with
    | none => rfl
    | some bs => rfl

theorem mapM_bind_mapM {α β γ : Type} (f : α → Option β) (g : β → Option γ) (l : List α) :
    (l.mapM f).bind (fun bs => bs.mapM g) = l.mapM (fun a => (f a).bind g) := by
  induction l with
  | nil => rfl
  | cons a l ih =>
    rw [mapM_cons', mapM_cons', ← ih]
    cases hfa : f a with
    | none => rfl
    | some b =>
      simp only [Option.bind_some]
      cases hl : l.mapM f with
      | none => simp
      | some bs =>
        simp only [Option.map_some, Option.bind_some, mapM_cons']

theorem mapM_length {α β : Type} (f : α → Option β) (l : List α) (bs : List β) (h : l.mapM f = some bs) :
    bs.length = l.length := by
  induction l generalizing bs with
  | nil => rw [mapM_nil'] at h; cases h; rfl
  | cons a l ih =>
    rw [mapM_cons'] at h
    cases hfa : f a with
    | none => rw [hfa] at h; cases h
    | some b =>
      cases hl : l.mapM f with
      | none => rw [hfa, hl] at h; cases h
      | some bs' =>
        rw [hfa, hl] at h
        cases h
        simp [ih bs' hl]

/-! ## read-only operations -/

theorem sim_getVec (r : R keys t d) (qs : List Int) : getVec t qs = qs.mapM (Dict.lookup d) := by
  unfold getVec
  rw [mapM_bind_mapM]
  congr 1
  funext q
  exact r.lookup q

theorem sim_get1 (r : R keys t d) (k : Int) (hk : k ∈ keys) : get1 t k = (Dict.lookup d k).toList := by
  obtain ⟨loc, hl⟩ := findKey_of_mem r.inv hk
  have h1 := r.lookup k
  rw [hl, Option.bind_some] at h1
  unfold get1
  cases hv : t.values with
  | inl s =>
    simp only
    rw [← h1]
    simp [valueAt, hv]
  | inr vals =>
    simp only [hl]
    rw [h1]

theorem sim_contains (r : R keys t d) (qs : List Int) : contains t qs = qs.map (Dict.mem d) := by
  unfold contains
  apply List.map_congr_left
  intro q _
  exact r.mem q

/-! ## fill -/

theorem sim_fill (r : R keys t d) (x : Int) : R keys (fill t x) (d.map (fun p => (p.1, x))) := by
  have hb : (fill t x).buckets = t.buckets := by unfold fill; cases t.values <;> rfl
  have hm : (fill t x).mod = t.mod := by unfold fill; cases t.values <;> rfl
  have hfk : ∀ q, findKey (fill t x) q = findKey t q := by
    intro q; unfold findKey; rw [hb, hm]
  have hfilled : filled (fill t x) = (filled t).map (·.map (fun _ => x)) := by
    unfold fill filled
    cases hv : t.values with
    | inl s => simp [List.map_map, Function.comp_def]
    | inr vals => simp
  have hsh : (filled (fill t x)).map List.length = (fill t x).buckets.map List.length := by
    rw [hfilled, hb, ← r.inv.shape, List.map_map]
    apply List.map_congr_left
    intro row _
    simp
  refine ⟨⟨r.inv.nodup, by rw [hb]; exact r.inv.perm, by rw [hb, hm]; exact r.inv.hash,
    by rw [hb, hm]; exact r.inv.len, by rw [hm]; exact r.inv.pos, hsh⟩, ?_, ?_⟩
  · rw [Dict.keys_mapval d (fun _ _ => x)]; exact r.keys_eq
  · intro k loc hl
    rw [hfk] at hl
    rw [hfilled, cellAt_map, r.cell hl, Dict.lookup_mapval d (fun _ _ => x)]

/-! ## assignment -/

/-- the cell-write fold of `setVec` -/
def writeCells (cells : List (List Int)) (ws : List ((Nat × Nat) × Int)) : List (List Int) :=
  ws.foldl (fun acc lv => acc.modify lv.1.1 (fun row => row.set lv.1.2 lv.2)) cells

/-- the assignment fold of the dictionary -/
def assignAll (d : Dict Int) (ws : List (Int × Int)) : Dict Int :=
  ws.foldl (fun acc kx => Dict.assign acc kx.1 kx.2) d

/-- a table with scalar values behaves like the filled one -/
theorem R.toFilled (r : R keys t d) : R keys { t with values := .inr (Model.HT.filled t) } d :=
  ⟨Inv.withCells r.inv (Model.HT.filled t) r.inv.shape, r.keys_eq, fun _ _ hl => r.cell hl⟩

/-- ONE WRITE: writing the cell of key `q` is assigning `q` -/
theorem sim_write {cells : List (List Int)} (r : R keys { t with values := .inr cells } d) {q : Int}
    {loc : Nat × Nat} (hl : findKey t q = some loc) (x : Int) :
    R keys { t with values := .inr (cells.modify loc.1 (fun row => row.set loc.2 x)) } (Dict.assign d q x) := by
  refine ⟨Inv.withCells (t := { t with values := .inr cells }) r.inv _ ?_, ?_, ?_⟩
  · rw [shape_write]; exact r.inv.shape
  · rw [Dict.keys_assign]; exact r.keys_eq
  · intro k loc' hl'
    have hl'' : findKey t k = some loc' := hl'
    have hc : cellAt cells loc' = Dict.lookup d k := r.cell (t := { t with values := .inr cells }) hl'
    show cellAt (cells.modify loc.1 (fun row => row.set loc.2 x)) loc' = _
    rw [cellAt_write, Dict.lookup_assign, hc]
    by_cases hk : k = q
    · subst hk
      rw [hl] at hl''
      cases hl''
      simp
    · have hne : ¬ loc' = (loc.1, loc.2) := by
        intro e
        have e' : loc' = loc := e
        rw [e'] at hl''
        exact hk (findKey_inj hl'' hl)
      rw [if_neg hne, if_neg hk]

theorem sim_writes (qs : List Int) : ∀ (locs : List (Nat × Nat)) (vals : List Int) (cells : List (List Int))
    (d : Dict Int), R keys { t with values := .inr cells } d → qs.mapM (findKey t) = some locs →
    R keys { t with values := .inr (writeCells cells (locs.zip vals)) } (assignAll d (qs.zip vals)) := by
  induction qs with
  | nil =>
    intro locs vals cells d r hm
    rw [mapM_nil'] at hm
    cases hm
    simpa [writeCells, assignAll] using r
  | cons q qs ih =>
    intro locs vals cells d r hm
    rw [mapM_cons'] at hm
    cases hq : findKey t q with
    | none => rw [hq] at hm; cases hm
    | some loc =>
      cases hqs : qs.mapM (findKey t) with
      | none => rw [hq, hqs] at hm; cases hm
      | some locs' =>
        rw [hq, hqs] at hm
        cases hm
        cases vals with
        | nil => simpa [writeCells, assignAll] using r
        | cons x vals =>
          simp only [List.zip_cons_cons, writeCells, assignAll, List.foldl_cons]
          exact ih locs' vals _ _ (sim_write r hq x) hqs

theorem mapM_isSome {α β : Type} (f : α → Option β) (l : List α) :
    (l.mapM f).isSome = l.all (fun a => (f a).isSome) := by
  induction l with
  | nil => rfl
  | cons a l ih =>
    rw [mapM_cons', List.all_cons, ← ih]
    cases f a with
    | none => rfl
    | some b => cases l.mapM f <;> rfl

theorem R.all_mem (r : R keys t d) (qs : List Int) : (qs.mapM (findKey t)).isSome = qs.all (Dict.mem d) := by
  rw [mapM_isSome]
  congr 1
  funext q
  exact r.mem q

/-- `setVec` with explicit, already broadcast values -/
theorem sim_setVec_vals (r : R keys t d) (qs vals : List Int) :
    match qs.mapM (findKey t) with
    | some locs => qs.all (Dict.mem d) = true ∧
        R keys { t with values := .inr (writeCells (filled t) (locs.zip vals)) } (assignAll d (qs.zip vals))
    | none => qs.all (Dict.mem d) = false := by
  have h := r.all_mem qs
  cases hm : qs.mapM (findKey t) with
  | none => rw [hm] at h; simpa using h.symm
  | some locs =>
    rw [hm] at h
    exact ⟨by simpa using h.symm, sim_writes qs locs vals _ d r.toFilled hm⟩

theorem foldl_assign_const (ks : List Int) (x : Int) (d : Dict Int) :
    ks.foldl (fun acc k => Dict.assign acc k x) d = assignAll d (ks.zip (ks.map (fun _ => x))) := by
  induction ks generalizing d with
  | nil => rfl
  | cons k ks ih => simp only [List.foldl_cons, List.map_cons, List.zip_cons_cons, assignAll]; exact ih _

theorem sim_setScalar (r : R keys t d) (ks : List Int) (x : Int) :
    R keys (step t (.setScalar ks x)).1 (Dict.step d (.setScalar ks x)).1 ∧
      (step t (.setScalar ks x)).2 = (Dict.step d (.setScalar ks x)).2 := by
  have h := sim_setVec_vals r ks (ks.map (fun _ => x))
  simp only [step, Dict.step, setVec]
  cases hm : ks.mapM (findKey t) with
  | none =>
    rw [hm] at h
    simp only at h
    simp only [h, Option.bind_none]
    exact ⟨r, by simp⟩
  | some locs =>
    rw [hm] at h
    simp only at h
    simp only [h.1, Option.bind_some, Option.map_some, if_true]
    rw [foldl_assign_const]
    exact ⟨h.2, by first | rfl | trivial⟩

/-- the values `setVec` writes for an array right-hand side: equal length, or broadcast of one value -/
def eachVals (qs xs : List Int) : Option (List Int) :=
  if xs.length = qs.length then some xs
  else match xs with | [x] => some (qs.map (fun _ => x)) | _ => none

theorem eachVals_eq (qs xs : List Int) :
    eachVals qs xs = if (xs.length == qs.length || xs.length == 1) = true then
      some (if (xs.length == qs.length) = true then xs else qs.map (fun _ => xs.headD 0)) else none := by
  unfold eachVals
  by_cases h : xs.length = qs.length
  · simp [h]
  · match xs, h with
    | [], h => simp at h ⊢; simp [h]
    | [x], h => simp at h ⊢; simp [h]
    | x :: y :: xs, h => simp at h ⊢; simp [h]

theorem sim_setEach (r : R keys t d) (ks xs : List Int) :
    R keys (step t (.setEach ks xs)).1 (Dict.step d (.setEach ks xs)).1 ∧
      (step t (.setEach ks xs)).2 = (Dict.step d (.setEach ks xs)).2 := by
  have hset : setVec t ks (.inr xs) = (ks.mapM (findKey t)).bind (fun locs =>
      (eachVals ks xs).map (fun vals => { t with values := .inr (writeCells (filled t) (locs.zip vals)) })) := by
    unfold setVec eachVals writeCells
    match xs with
    | [] => rfl
    | [x] => rfl
    | x :: y :: xs => rfl
  simp only [step, Dict.step, hset, eachVals_eq]
  by_cases hx : (xs.length == ks.length || xs.length == 1) = true
  · have h := sim_setVec_vals r ks (if (xs.length == ks.length) = true then xs else ks.map (fun _ => xs.headD 0))
    simp only [hx, if_true, Bool.and_true]
    cases hm : ks.mapM (findKey t) with
    | none =>
      rw [hm] at h
      simp only at h
      simp only [h, Option.bind_none]
      exact ⟨r, by simp⟩
    | some locs =>
      rw [hm] at h
      simp only at h
      simp only [h.1, Option.bind_some, Option.map_some, if_true]
      exact ⟨h.2, by first | rfl | trivial⟩
  · simp only [hx, Bool.and_false]
    cases hm : ks.mapM (findKey t) with
    | none => exact ⟨r, by simp⟩
    | some locs => exact ⟨r, by simp⟩

end Proofs.HT
