import NpsVerif.Proofs.RL2Rows
import NpsVerif.Proofs.RLArithOps
/-!
# `ravel` of a ragged run-length array is the 1-D concatenation of its rows; `concat` of several
ragged run-length arrays decodes to the rows of all operands
-/
open Model Model.RLA Model.RL2 Np

namespace Proofs.RL2B
variable {α β γ : Type}

/-- `ravel` is literally `RLA.concat` of the rows (when every row is a valid run-length array) -/
theorem ravel_eq_concat (r : RL2 α) (rs : List (RLA α)) (hi : r.indices = rs.map (·.events))
    (hv : r.values = rs.map (·.values)) (hval : ∀ x ∈ rs, x.Valid) : r.ravel = RLA.concat rs := by
  unfold RL2.ravel RLA.concat
  have hl : r.indices.map (fun ix => ix.getLast?.getD 0) = rs.map (·.len) := by
    rw [hi, List.map_map]
    apply List.map_congr_left
    intro x hx
    simp [valid_getLast x (hval x hx)]
  simp only [hl]
  rw [hi, hv, List.zipWith_map_left]

/-- concatenation of valid non-empty run-length arrays (no non-emptiness of the list needed) -/
theorem concat_spec (rs : List (RLA α)) (h : ∀ r ∈ rs, r.Valid ∧ 0 < r.len) :
    ∃ r', RLA.concat rs = some r' ∧ r'.Valid ∧ r'.decode = (rs.map decode).flatten := by
  obtain ⟨c1, c2, c3, c4, _⟩ := concat_aux rs h 0
  have hc : RLA.concat rs = mk? (evFrom 0 rs) ((rs.map (·.values)).flatten) := by
    unfold RLA.concat evFrom Np.exclScan
    simp only [Nat.zero_add]
  have hvalid : (RLA.mk (evFrom 0 rs) ((rs.map (·.values)).flatten)).Valid :=
    (Model.RLA.valid_iff _).2 ⟨c1, c3, c2⟩
  refine ⟨_, ?_, hvalid, ?_⟩
  · rw [hc]; unfold mk?; exact if_pos hvalid
  · rw [decode_eq_dec, c4]

theorem ravel_fromRagged (ne : α → α → Bool) (hne : ∀ x y, ne x y = false → x = y)
    (rows : List (List α)) (hpos : ∀ r ∈ rows, r ≠ []) :
    ∃ r', (fromRagged ne rows).ravel = some r' ∧ r'.Valid ∧ r'.decode = rows.flatten := by
  obtain ⟨hi, hv⟩ := fromRagged_eq_rows ne rows hpos
  have hval : ∀ x ∈ rows.map (fromArray ne), x.Valid ∧ 0 < x.len := by
    intro x hx
    obtain ⟨a, ha, rfl⟩ := List.mem_map.1 hx
    refine ⟨Proofs.RL.fromArray_valid ne a, ?_⟩
    rw [Proofs.RL.fromArray_len]
    exact List.length_pos_iff.2 (hpos a ha)
  rw [ravel_eq_concat _ _ hi hv (fun x hx => (hval x hx).1)]
  obtain ⟨r', h1, h2, h3⟩ := concat_spec _ hval
  refine ⟨r', h1, h2, ?_⟩
  rw [h3, List.map_map]
  congr 1
  rw [← List.map_id rows]
  rw [List.map_map]
  apply List.map_congr_left
  intro a _
  simp only [Function.comp, id]
  rw [Proofs.RL.decode_fromArray]
  exact Proofs.RL.smear_eq_self ne a
    ((Proofs.RL.adjAll_iff_getElem? _ a).mpr (fun _ x y _ _ h => hne x y h))

/-! ## `concat` -/

theorem zip_flatten_map (f : γ → List α) (g : γ → List β) (l : List γ)
    (h : ∀ x ∈ l, (f x).length = (g x).length) :
    (l.map f).flatten.zip (l.map g).flatten = (l.map (fun x => (f x).zip (g x))).flatten := by
  induction l with
  | nil => rfl
  | cons x xs ih =>
    simp only [List.map_cons, List.flatten_cons]
    rw [List.zip_append (h x (by simp)), ih (fun y hy => h y (List.mem_cons_of_mem _ hy))]

theorem mapM_flatten (f : α → Option β) (Ls : List (List α)) (ds : List (List β))
    (h : Ls.map (·.mapM f) = ds.map some) : Ls.flatten.mapM f = some ds.flatten := by
  induction Ls generalizing ds with
  | nil =>
    cases ds with
    | nil => simp
    | cons d ds => simp at h
  | cons l Ls ih =>
    cases ds with
    | nil => simp at h
    | cons d ds =>
      simp only [List.map_cons, List.cons.injEq] at h
      rw [List.flatten_cons, mapM_append', h.1, ih ds h.2]
      simp

theorem concat_toRows (rs : List (RL2 α)) (ds : List (List (List α))) (hr : ∀ r ∈ rs, r.rowLen = none)
    (hd : rs.map RL2.toRows = ds.map some) (hl : ∀ r ∈ rs, r.indices.length = r.values.length) :
    (RL2.concat rs).toRows = some ds.flatten := by
  have hlen : (RL2.concat rs).indices.length = (RL2.concat rs).values.length := by
    unfold RL2.concat
    simp only [List.length_flatten, List.map_map]
    congr 1
    apply List.map_congr_left
    intro r hr'
    exact hl r hr'
  rw [toRows_eq_zip _ hlen]
  have hz : (RL2.concat rs).indices.zip (RL2.concat rs).values
      = (rs.map (fun r => r.indices.zip r.values)).flatten := by
    unfold RL2.concat
    exact zip_flatten_map (·.indices) (·.values) rs hl
  rw [hz]
  apply mapM_flatten
  rw [List.map_map, ← hd]
  apply List.map_congr_left
  intro r hr'
  simp only [Function.comp]
  rw [toRows_eq_zip r (hl r hr')]
  apply Model.mapM_congr
  intro p _
  unfold RL2.rowEvents RL2.concat
  rw [hr r hr']

end Proofs.RL2B
