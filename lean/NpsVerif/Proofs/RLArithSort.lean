import NpsVerif.Proofs.RLArithMerge
/-! The stable argsort of a boundary list: what the sorted (event, value) lists look like. -/
namespace Model.RLA
variable {α β γ δ : Type}

theorem filterMap_congr' {f g : α → Option β} (l : List α) (h : ∀ a ∈ l, f a = g a) :
    l.filterMap f = l.filterMap g := by
  induction l with
  | nil => rfl
  | cons a t ih =>
    simp only [List.filterMap_cons, h a (by simp)]
    rw [ih (fun b hb => h b (List.mem_cons_of_mem _ hb))]

theorem filterMap_eq_map' {f : α → Option β} {g : α → β} (l : List α) (h : ∀ a ∈ l, f a = some (g a)) :
    l.filterMap f = l.map g := by
  rw [filterMap_congr' l h]
  exact congrFun (List.filterMap_eq_map (f := g)) l

theorem getElem?_filterMap_of_some {f : α → Option β} (l : List α) (h : ∀ a ∈ l, (f a).isSome) (i : Nat) :
    (l.filterMap f)[i]? = (l[i]?).bind f := by
  induction l generalizing i with
  | nil => simp
  | cons a t ih =>
    have ha := h a (by simp)
    cases hfa : f a with
    | none => rw [hfa] at ha; simp at ha
    | some b =>
      simp only [List.filterMap_cons, hfa]
      cases i with
      | zero => simp [hfa]
      | succ i =>
        simp only [List.getElem?_cons_succ]
        exact ih (fun c hc => h c (List.mem_cons_of_mem _ hc)) i

/-- in a list sorted on the first component, a strict maximum sits at the end -/
theorem sorted_max_last (s : List (Nat × Nat)) (z : Nat × Nat) (hs : s.Pairwise (fun a b => a.1 ≤ b.1))
    (hz : z ∈ s) (hmax : ∀ w ∈ s, w ≠ z → w.1 < z.1) : ∃ s', s = s' ++ [z] := by
  have hne : s ≠ [] := List.ne_nil_of_mem hz
  have hsplit := List.dropLast_concat_getLast hne
  by_cases hl : s.getLast hne = z
  · exact ⟨s.dropLast, by rw [← hl, hsplit]⟩
  · exfalso
    rw [← hsplit] at hs hz
    have hp := List.pairwise_append.1 hs
    rcases List.mem_append.1 hz with hz | hz
    · have h1 := hp.2.2 z hz (s.getLast hne) (by simp)
      have h2 := hmax (s.getLast hne) (List.getLast_mem hne) hl
      omega
    · simp at hz; exact hl hz.symm

def leKey (a b : Nat × Nat) : Bool := decide (a.1 ≤ b.1)

theorem stableArgsort_eq (keys : List Nat) :
    stableArgsort keys = ((keys.zipIdx).mergeSort leKey).map (·.2) := rfl

theorem sorted_pairs_facts (keys : List Nat) :
    ((keys.zipIdx).mergeSort leKey).Perm keys.zipIdx ∧
    ((keys.zipIdx).mergeSort leKey).Pairwise (fun a b => a.1 ≤ b.1) := by
  refine ⟨List.mergeSort_perm _ _, ?_⟩
  have := List.pairwise_mergeSort (le := leKey)
    (by intro a b c; simp only [leKey, decide_eq_true_eq]; omega)
    (by intro a b; simp only [leKey, Bool.or_eq_true, decide_eq_true_eq]; omega) keys.zipIdx
  exact this.imp (by intro a b h; simpa [leKey] using h)

/-- the sorted pair list of `B ++ [n]` (all of `B` below `n`) is a sorted permutation of the
pairs of `B`, followed by the pair of `n` -/
theorem sorted_pairs_split (B : List Nat) (n : Nat) (hlt : ∀ e ∈ B, e < n) :
    ∃ s', ((B ++ [n]).zipIdx).mergeSort leKey = s' ++ [(n, B.length)] ∧
      s'.Perm B.zipIdx ∧ s'.Pairwise (fun a b => a.1 ≤ b.1) := by
  obtain ⟨hperm, hsorted⟩ := sorted_pairs_facts (B ++ [n])
  have hz : (B ++ [n]).zipIdx = B.zipIdx ++ [(n, B.length)] := by
    rw [List.zipIdx_append]; simp
  replace hperm : (((B ++ [n]).zipIdx).mergeSort leKey).Perm (B.zipIdx ++ [(n, B.length)]) := by
    rw [← hz]; exact hperm
  have hmem : ∀ w, w ∈ ((B ++ [n]).zipIdx).mergeSort leKey ↔ w ∈ B.zipIdx ++ [(n, B.length)] :=
    fun w => hperm.mem_iff
  obtain ⟨s', hs'⟩ := sorted_max_last _ (n, B.length) hsorted ((hmem _).2 (by simp)) (by
    intro w hw hne
    rcases List.mem_append.1 ((hmem w).1 hw) with hw | hw
    · have : w.1 ∈ B := by
        have := List.mem_map_of_mem (f := Prod.fst) hw
        rwa [List.zipIdx_map_fst] at this
      exact hlt _ this
    · simp at hw; exact absurd hw hne)
  refine ⟨s', hs', ?_, ?_⟩
  · rw [hs'] at hperm
    exact (List.perm_append_right_iff _).1 hperm
  · rw [hs'] at hsorted
    exact (List.pairwise_append.1 hsorted).1

theorem length_filterMap_of_some {f : α → Option β} (l : List α) (h : ∀ a ∈ l, (f a).isSome) :
    (l.filterMap f).length = l.length := by
  induction l with
  | nil => rfl
  | cons a t ih =>
    have ha := h a (by simp)
    cases hfa : f a with
    | none => rw [hfa] at ha; simp at ha
    | some b =>
      simp only [List.filterMap_cons, hfa, List.length_cons]
      rw [ih (fun c hc => h c (List.mem_cons_of_mem _ hc))]

/-- the sorting step of `_apply_binary_func`: boundaries `B ++ [n]` with the values of a dense list
`D` (length `n`) read at `B`; if `B` contains 0 and every change point of `D`, the stably sorted
boundaries with the co-sorted values decode to `D`. -/
theorem merge_decode (D : List γ) (B : List Nat) (h0 : 0 ∈ B) (hlt : ∀ e ∈ B, e < D.length)
    (hc : ∀ p, 0 < p → p < D.length → p ∉ B → D[p]? = D[p - 1]?) :
    ∃ E : List Nat,
      (stableArgsort (B ++ [D.length])).filterMap ((B ++ [D.length])[·]?) = E ++ [D.length] ∧
      (stableArgsort (B ++ [D.length])).dropLast.filterMap ((B.filterMap (D[·]?))[·]?)
        = E.filterMap (D[·]?) ∧
      E.Perm B ∧ (E ++ [D.length]).Pairwise (· ≤ ·) ∧
      dec (E ++ [D.length]) (E.filterMap (D[·]?)) = D := by
  obtain ⟨s', hs, hperm, hsorted⟩ := sorted_pairs_split B D.length hlt
  have hfacts := sorted_pairs_facts (B ++ [D.length])
  have hsome : ∀ e ∈ B, (D[e]?).isSome := by
    intro e he
    rw [List.getElem?_eq_getElem (hlt e he)]; rfl
  have hEperm : (s'.map Prod.fst).Perm B := by
    have := hperm.map Prod.fst
    rwa [List.zipIdx_map_fst] at this
  have hEs : (s'.map Prod.fst).Pairwise (· ≤ ·) := List.pairwise_map.2 hsorted
  refine ⟨s'.map Prod.fst, ?_, ?_, hEperm, ?_, ?_⟩
  · rw [stableArgsort_eq, List.filterMap_map]
    rw [filterMap_eq_map' (g := Prod.fst) _ (by
      intro p hp
      have := (hfacts.1.mem_iff).1 hp
      exact List.mem_zipIdx_iff_getElem?.1 this)]
    rw [hs, List.map_append]; rfl
  · rw [stableArgsort_eq, hs, List.map_append, List.map_singleton, List.dropLast_concat,
      List.filterMap_map, List.filterMap_map]
    apply filterMap_congr'
    intro p hp
    have hpB : B[p.2]? = some p.1 := List.mem_zipIdx_iff_getElem?.1 ((hperm.mem_iff).1 hp)
    simp only [Function.comp]
    rw [getElem?_filterMap_of_some B hsome, hpB]; rfl
  · refine List.pairwise_append.2 ⟨hEs, by simp, ?_⟩
    intro a ha b hb
    simp at hb; subst hb
    exact Nat.le_of_lt (hlt a ((hEperm.mem_iff).1 ha))
  · have h0' : 0 ∈ s'.map Prod.fst := (hEperm.mem_iff).2 h0
    cases hE : s'.map Prod.fst with
    | nil => rw [hE] at h0'; simp at h0'
    | cons a E =>
      rw [hE] at hEs hEperm h0'
      have ha0 : a = 0 := by
        rcases List.mem_cons.1 h0' with h | h
        · exact h.symm
        · have := (List.pairwise_cons.1 hEs).1 0 h
          omega
      subst ha0
      have := dec_boundaries D 0 E hEs (fun e he => hlt e ((hEperm.mem_iff).1 he)) (by
        intro p hp0 hpn hpE
        apply hc p hp0 hpn
        intro hpB
        rcases List.mem_cons.1 ((hEperm.mem_iff).2 hpB) with h | h
        · omega
        · exact hpE h)
      simpa using this

end Model.RLA
