import NpsVerif.Proofs.ColSlice
import NpsVerif.Proofs.GetItemSel
/-! # Pointwise description of CPython's `l[a:b:k]` (used by the run-length slice proofs) -/
namespace Proofs.RLIndex
open Proofs.ColSlice
variable {α : Type}

theorem prog_getElem? (s k : Int) (n j : Nat) :
    (Py.prog s k n)[j]? = if j < n then some (s + k * (j : Int)) else none := by
  induction n generalizing s j with
  | zero => simp [Py.prog]
  | succ n ih =>
    cases j with
    | zero => simp [Py.prog]
    | succ j =>
      simp only [Py.prog, List.getElem?_cons_succ, ih, Nat.add_lt_add_iff_right]
      split
      · congr 1
        rw [Int.natCast_add, Int.mul_add]
        simp only [Int.cast_ofNat_Int, Int.mul_one]
        omega
      · rfl

theorem filterMap_getElem?_of_all {β γ : Type} (f : β → Option γ) (xs : List β)
    (h : ∀ x ∈ xs, (f x).isSome = true) (j : Nat) : (xs.filterMap f)[j]? = (xs[j]?).bind f := by
  induction xs generalizing j with
  | nil => simp
  | cons x xs ih =>
    have hx := h x List.mem_cons_self
    obtain ⟨y, hy⟩ := Option.isSome_iff_exists.1 hx
    rw [List.filterMap_cons_some hy]
    cases j with
    | zero => simp [hy]
    | succ j =>
      simp only [List.getElem?_cons_succ]
      exact ih (fun x hx => h x (List.mem_cons_of_mem _ hx)) j

/-- cell `j` of `l[a:b:k]` -/
theorem slice_getElem? (l : List α) (a b : Option Int) (k : Int) (hk : k ≠ 0) (j : Nat) :
    (Py.slice l a b k)[j]? =
      if j < (Py.sliceLen l.length a b k).toNat then
        l[(Py.adjStart l.length a k + k * (j : Int)).toNat]? else none := by
  have hr := sliceIdx_in_range l.length a b k hk
  unfold Py.slice
  rw [filterMap_getElem?_of_all]
  · unfold Py.sliceIdx at hr ⊢
    rw [prog_getElem?]
    split
    · rename_i hj
      have hmem : Py.adjStart l.length a k + k * (j : Int) ∈
          Py.prog (Py.adjStart l.length a k) k (Py.sliceLen l.length a b k).toNat := by
        apply List.mem_of_getElem? (i := j)
        rw [prog_getElem?, if_pos hj]
      have := hr _ hmem
      simp only [Option.bind_some]
      rw [if_pos this.1]
    · rfl
  · intro i hi
    have := hr i hi
    rw [if_pos this.1]
    rw [Option.isSome_iff_exists]
    exact ⟨_, List.getElem?_eq_getElem (by omega)⟩

theorem lt_sliceLen_iff (d k : Int) (j : Nat) (hk : 0 < k) :
    (j : Int) < (d - 1) / k + 1 ↔ k * (j : Int) < d := by
  have := Int.le_ediv_iff_mul_le (a := (j : Int)) (b := d - 1) hk
  rw [Int.mul_comm] at this
  omega

theorem sliceLen_none_pos (n K : Nat) (hK : 0 < K) :
    Py.sliceLen n none none (K : Int) = if (0 : Int) < n then ((n : Int) - 0 - 1) / (K : Int) + 1 else 0 := by
  have hK' : ¬ ((K : Int) < 0) := by omega
  simp only [Py.sliceLen, Py.adjStart, Py.adjStop, if_neg hK']

theorem sliceLen_none_neg (n K : Nat) (hK : 0 < K) :
    Py.sliceLen n none none (-(K : Int)) =
      if (-1 : Int) < (n : Int) - 1 then ((n : Int) - 1 - -1 - 1) / (K : Int) + 1 else 0 := by
  have hK' : (-(K : Int) < 0) := by omega
  simp only [Py.sliceLen, Py.adjStart, Py.adjStop, if_pos hK', Int.neg_neg]

theorem lt_sliceLen_none_pos (n K : Nat) (hK : 0 < K) (j : Nat) :
    j < (Py.sliceLen n none none (K : Int)).toNat ↔ j * K < n := by
  rw [sliceLen_none_pos n K hK]
  have key := lt_sliceLen_iff ((n : Int) - 0) K j (by omega)
  rw [← Int.natCast_mul, Nat.mul_comm] at key
  split <;> omega

theorem lt_sliceLen_none_neg (n K : Nat) (hK : 0 < K) (j : Nat) :
    j < (Py.sliceLen n none none (-(K : Int))).toNat ↔ j * K < n := by
  rw [sliceLen_none_neg n K hK]
  have key := lt_sliceLen_iff ((n : Int) - 1 - -1) K j (by omega)
  rw [← Int.natCast_mul, Nat.mul_comm] at key
  split <;> omega

/-- `l[::K]`, `K > 0` -/
theorem slice_pos_getElem? (l : List α) (K : Nat) (hK : 0 < K) (j : Nat) :
    (Py.slice l none none (K : Int))[j]? = l[j * K]? := by
  rw [slice_getElem? l none none K (by omega)]
  have hs : Py.adjStart (l.length : Int) none (K : Int) = 0 := by
    simp only [Py.adjStart]; rw [if_neg (by omega)]
  have e1 : ((0 : Int) + (K : Int) * (j : Int)).toNat = j * K := by
    rw [Int.zero_add, ← Int.natCast_mul, Int.toNat_natCast, Nat.mul_comm]
  rw [hs, e1]
  by_cases hlt : j * K < l.length
  · rw [if_pos ((lt_sliceLen_none_pos l.length K hK j).2 hlt)]
  · rw [if_neg (fun h => hlt ((lt_sliceLen_none_pos l.length K hK j).1 h)),
      List.getElem?_eq_none (by omega)]

/-- `l[::-K]`, `K > 0` -/
theorem slice_neg_getElem? (l : List α) (K : Nat) (hK : 0 < K) (j : Nat) :
    (Py.slice l none none (-(K : Int)))[j]? = l.reverse[j * K]? := by
  rw [slice_getElem? l none none _ (by omega)]
  have hs : Py.adjStart (l.length : Int) none (-(K : Int)) = (l.length : Int) - 1 := by
    simp only [Py.adjStart]; rw [if_pos (by omega)]
  rw [hs]
  by_cases hlt : j * K < l.length
  · rw [if_pos ((lt_sliceLen_none_neg l.length K hK j).2 hlt), List.getElem?_reverse hlt]
    congr 1
    rw [Int.neg_mul, ← Int.natCast_mul, Nat.mul_comm]
    omega
  · rw [if_neg (fun h => hlt ((lt_sliceLen_none_neg l.length K hK j).1 h)),
      List.getElem?_eq_none (l := l.reverse) (by simp; omega)]

end Proofs.RLIndex
