import NpsVerif.Model.RunLength2d
import NpsVerif.Proofs.RLIndexStep
/-!
# Column ranges on the ragged run-length array (C17, part C) — building blocks

* `findRun_of`: the mask search finds the first run satisfying the predicate;
* `remI` / `remV`: `removeEmptyRow` as a structural recursion; it keeps the decoding and makes
  weakly increasing boundaries strictly increasing;
* `stepSubsetRow_spec`: `_step_subset` on one row (boundaries as integers that are casts of a valid
  run-length array) is a valid run-length array decoding to `l[::step]`.
-/
namespace Proofs.RL2CR
open Model Model.RL2 Model.RLA Proofs.RLIndex
variable {α : Type}

/-! ## `findRun` -/

theorem runBounds_length (ix : List Nat) : (runBounds ix).length = ix.length - 1 := by
  simp only [runBounds, List.length_zip, List.length_range, List.length_map, List.length_drop]
  omega

theorem runBounds_getElem (ix : List Nat) (j : Nat) (hj : j + 1 < ix.length)
    (hj' : j < (runBounds ix).length) :
    (runBounds ix)[j] = (j, ((ix[j]'(by omega) : Nat) : Int), ((ix[j + 1] : Nat) : Int)) := by
  simp only [runBounds, List.getElem_zip, List.getElem_range, List.getElem_map, List.getElem_drop,
    Nat.add_comm 1 j]

theorem findRun_of (ix : List Nat) (p : Int → Int → Bool) (j : Nat) (hj : j + 1 < ix.length)
    (hp : p (ix[j]'(by omega) : Nat) (ix[j + 1] : Nat) = true)
    (hfirst : ∀ j' (h : j' < j), p (ix[j']'(by omega) : Nat) (ix[j' + 1]'(by omega) : Nat) = false) :
    findRun ix p = some j := by
  have hlen := runBounds_length ix
  unfold findRun
  have : (runBounds ix).find? (fun r => p r.2.1 r.2.2) =
      some (j, ((ix[j]'(by omega) : Nat) : Int), ((ix[j + 1] : Nat) : Int)) := by
    rw [List.find?_eq_some_iff_getElem]
    refine ⟨hp, j, by omega, runBounds_getElem ix j hj (by omega), ?_⟩
    intro j' hj'
    rw [runBounds_getElem ix j' (by omega) (by omega)]
    simp only [hfirst j' hj', Bool.not_false]
  rw [this]; rfl

/-! ## `removeEmptyRow` as a recursion -/

/-- boundaries kept after the first one -/
def remI {β : Type} [DecidableEq β] : β → List β → List β
  | _, [] => []
  | lo, e :: es => if lo ≠ e then e :: remI e es else remI e es

/-- values kept -/
def remV {β : Type} [DecidableEq β] : β → List β → List α → List α
  | lo, e :: es, v :: vs => if lo ≠ e then v :: remV e es vs else remV e es vs
  | _, _, _ => []

theorem removeEmptyRow_cons (lo : Int) (es : List Int) (vs : List α) :
    removeEmptyRow (lo :: es) vs = (lo :: remI lo es, remV lo es vs) := by
  unfold removeEmptyRow
  simp only [List.drop_one, List.tail_cons, List.take_succ_cons, List.take_zero, List.cons_append,
    List.nil_append]
  congr 1
  · congr 1
    induction es generalizing lo with
    | nil => simp [remI]
    | cons e es ih =>
      simp only [List.zipWith_cons_cons, List.zip_cons_cons, remI]
      by_cases h : lo = e
      · subst h
        simp only [ne_eq, not_true_eq_false, decide_false, if_false]
        rw [List.filterMap_cons_none (by simp)]
        exact ih lo
      · simp only [ne_eq, h, not_false_eq_true, decide_true, if_true]
        rw [List.filterMap_cons_some (b := e) (by simp)]
        congr 1
        exact ih e
  · induction es generalizing lo vs with
    | nil => simp [remV]
    | cons e es ih =>
      cases vs with
      | nil => simp [remV]
      | cons v vs =>
        simp only [List.zipWith_cons_cons, List.zip_cons_cons, remV]
        by_cases h : lo = e
        · subst h
          simp only [ne_eq, not_true_eq_false, decide_false, if_false]
          rw [List.filterMap_cons_none (by simp)]
          exact ih lo vs
        · simp only [ne_eq, h, not_false_eq_true, decide_true, if_true]
          rw [List.filterMap_cons_some (b := v) (by simp)]
          congr 1
          exact ih e vs

theorem remI_map {β γ : Type} [DecidableEq β] [DecidableEq γ] (f : β → γ)
    (hf : ∀ a b, f a = f b → a = b) (lo : β) (es : List β) :
    remI (f lo) (es.map f) = (remI lo es).map f := by
  induction es generalizing lo with
  | nil => simp [remI]
  | cons e es ih =>
    simp only [List.map_cons, remI]
    by_cases h : lo = e
    · subst h; simp [ih]
    · have : f lo ≠ f e := fun h' => h (hf _ _ h')
      simp [h, this, ih]

theorem remV_map {β γ : Type} [DecidableEq β] [DecidableEq γ] (f : β → γ)
    (hf : ∀ a b, f a = f b → a = b) (lo : β) (es : List β) (vs : List α) :
    remV (f lo) (es.map f) vs = remV lo es vs := by
  induction es generalizing lo vs with
  | nil => simp [remV]
  | cons e es ih =>
    cases vs with
    | nil => simp [remV]
    | cons v vs =>
      simp only [List.map_cons, remV]
      by_cases h : lo = e
      · subst h; simp [ih]
      · have : f lo ≠ f e := fun h' => h (hf _ _ h')
        simp [h, this, ih]

theorem rem_length (lo : Nat) (es : List Nat) (vs : List α) (hl : es.length = vs.length) :
    (remI lo es).length = (remV lo es vs).length := by
  induction es generalizing lo vs with
  | nil => simp [remI, remV]
  | cons e es ih =>
    cases vs with
    | nil => simp at hl
    | cons v vs =>
      simp only [remI, remV]
      have := ih e vs (by simpa using hl)
      split <;> simp [this]

theorem rem_dec (lo : Nat) (es : List Nat) (vs : List α) (hl : es.length = vs.length) :
    dec lo (remI lo es) (remV lo es vs) = dec lo es vs := by
  induction es generalizing lo vs with
  | nil => simp [remI, remV, dec]
  | cons e es ih =>
    cases vs with
    | nil => simp at hl
    | cons v vs =>
      simp only [remI, remV]
      have := ih e vs (by simpa using hl)
      by_cases h : lo = e
      · subst h
        simp [dec, this]
      · simp only [ne_eq, h, not_false_eq_true, if_true, dec, this]

theorem rem_strict (lo : Nat) (es : List Nat) (hm : (lo :: es).Pairwise (· ≤ ·)) :
    (lo :: remI lo es).Pairwise (· < ·) := by
  induction es generalizing lo with
  | nil => simp [remI]
  | cons e es ih =>
    have hm' := List.pairwise_cons.1 hm
    have ih' := ih e hm'.2
    have hle : lo ≤ e := hm'.1 e List.mem_cons_self
    simp only [remI]
    by_cases h : lo = e
    · subst h; simpa using ih'
    · simp only [ne_eq, h, not_false_eq_true, if_true]
      refine List.pairwise_cons.2 ⟨?_, ih'⟩
      intro x hx
      rcases List.mem_cons.1 hx with rfl | hx
      · omega
      · have := (List.pairwise_cons.1 ih').1 x hx
        omega

/-- `removeEmptyRow` on integer casts of weakly increasing boundaries starting at 0 -/
theorem removeEmptyRow_spec (ev : List Nat) (vs : List α) (hlen : ev.length = vs.length + 1)
    (hmono : ev.Pairwise (· ≤ ·)) (h0 : ev[0]? = some 0) :
    ∃ ev' vs', removeEmptyRow (ev.map (fun (x : Nat) => (x : Int))) vs = (ev'.map (fun (x : Nat) => (x : Int)), vs') ∧
      (RLA.mk ev' vs').Valid ∧ (RLA.mk ev' vs').decode = (RLA.mk ev vs).decode := by
  cases ev with
  | nil => simp at h0
  | cons lo es =>
    simp only [List.getElem?_cons_zero, Option.some.injEq] at h0
    subst h0
    have hl : es.length = vs.length := by simpa using hlen
    refine ⟨0 :: remI 0 es, remV 0 es vs, ?_, ?_, ?_⟩
    · rw [List.map_cons, removeEmptyRow_cons, remI_map _ (fun a b h => Int.ofNat_inj.1 h),
        remV_map _ (fun a b h => Int.ofNat_inj.1 h)]
      rfl
    · rw [valid_iff]
      refine ⟨rfl, ?_, rem_strict 0 es hmono⟩
      simp [rem_length 0 es vs hl]
    · rw [decode_cons, decode_cons, rem_dec 0 es vs hl]

/-! ## `_step_subset` on one row -/

theorem ceil_cast (x K : Nat) (hK : 0 < K) :
    ((x : Int) + (K : Int) - 1) / (K : Int) = (((x + K - 1) / K : Nat) : Int) := by
  have : ((x + K - 1 : Nat) : Int) = (x : Int) + (K : Int) - 1 := by omega
  rw [← this, Int.natCast_ediv]

theorem step_core' (ev1 : List Nat) (vs1 : List α) (hlen : ev1.length = vs1.length + 1)
    (hmono : ev1.Pairwise (· ≤ ·)) (h0 : ev1[0]? = some 0) (K : Nat) (hK : 0 < K) :
    ∃ ev' vs', removeEmptyRow
        (if (K : Int) ≠ 1 then (ev1.map (fun (x : Nat) => (x : Int))).map (fun x => (x + (K : Int) - 1) / (K : Int))
          else ev1.map (fun (x : Nat) => (x : Int))) vs1 =
        (ev'.map (fun (x : Nat) => (x : Int)), vs') ∧
      (RLA.mk ev' vs').Valid ∧ ∀ j, (RLA.mk ev' vs').decode[j]? = (RLA.mk ev1 vs1).decode[j * K]? := by
  have hmono2 : (ev1.map (fun i => (i + K - 1) / K)).Pairwise (· ≤ ·) := by
    rw [List.pairwise_map]
    exact hmono.imp (fun {a b} hab => Nat.div_le_div_right (by omega))
  have hc0 : (0 + K - 1) / K = 0 := Nat.div_eq_of_lt (by omega)
  have h02 : (ev1.map (fun i => (i + K - 1) / K))[0]? = some 0 := by
    rw [List.getElem?_map, h0]; simp only [Option.map_some]; rw [hc0]
  have hlen2 : (ev1.map (fun i => (i + K - 1) / K)).length = vs1.length + 1 := by simpa using hlen
  have hlist : (if (K : Int) ≠ 1 then (ev1.map (fun (x : Nat) => (x : Int))).map (fun x => (x + (K : Int) - 1) / (K : Int))
          else ev1.map (fun (x : Nat) => (x : Int))) =
      (ev1.map (fun i => (i + K - 1) / K)).map (fun (x : Nat) => (x : Int)) := by
    split
    · simp only [List.map_map]
      apply List.map_congr_left
      intro x _
      simp only [Function.comp]
      exact ceil_cast x K hK
    · rename_i h1
      have : K = 1 := by omega
      subst this
      simp
  obtain ⟨ev', vs', he, hv, hd⟩ := removeEmptyRow_spec _ vs1 hlen2 hmono2 h02
  refine ⟨ev', vs', by rw [hlist]; exact he, hv, ?_⟩
  intro j
  rw [hd]
  exact stride_getElem? ev1 vs1 hlen hmono h0 K hK j

theorem stepSubsetRow_spec (ev : List Nat) (vs : List α) (h : (RLA.mk ev vs).Valid) (step : Int)
    (hs : step ≠ 0) :
    ∃ ev' vs', stepSubsetRow step (ev.map (fun (x : Nat) => (x : Int))) vs =
        (ev'.map (fun (x : Nat) => (x : Int)), vs') ∧
      (RLA.mk ev' vs').Valid ∧ (RLA.mk ev' vs').decode = Py.slice (RLA.mk ev vs).decode none none step := by
  obtain ⟨h0, hl, hpw⟩ := (valid_iff _).1 h
  simp only [] at h0 hl hpw
  have hlast : (ev.map (fun (x : Nat) => (x : Int))).getLast?.getD 0 = ((RLA.mk ev vs).len : Int) := by
    rw [List.getLast?_map, valid_getLast _ h]; rfl
  unfold stepSubsetRow
  simp only []
  rw [hlast]
  rcases Int.eq_nat_or_neg step with ⟨K, rfl | rfl⟩
  · have hK : 0 < K := by omega
    have hneg : ¬ ((K : Int) < 0) := by omega
    simp only [if_neg hneg, Int.natAbs_natCast]
    obtain ⟨ev', vs', he, hv, hd⟩ := step_core' ev vs hl (mono_of_strict hpw) (valid_head _ h) K hK
    refine ⟨ev', vs', he, hv, ?_⟩
    apply List.ext_getElem?
    intro j
    rw [hd j, slice_pos_getElem? _ K hK]
  · have hK : 0 < K := by omega
    have hneg : (-(K : Int) < 0) := by omega
    simp only [if_pos hneg, Int.natAbs_neg, Int.natAbs_natCast]
    have hv := rev_valid _ h
    obtain ⟨h0', hl', hpw'⟩ := (valid_iff _).1 hv
    simp only [] at h0' hl' hpw'
    have hle := mem_le_getLast ev (mono_of_strict hpw) _ (valid_getLast _ h)
    have hrev : (ev.map (fun (x : Nat) => (x : Int))).reverse.map (fun x => ((RLA.mk ev vs).len : Int) - x) =
        (ev.reverse.map ((RLA.mk ev vs).len - ·)).map (fun (x : Nat) => (x : Int)) := by
      rw [← List.map_reverse, List.map_map, List.map_map]
      apply List.map_congr_left
      intro x hx
      have := hle x (List.mem_reverse.1 hx)
      simp only [Function.comp]
      omega
    rw [hrev]
    obtain ⟨ev', vs', he, hv', hd⟩ := step_core' _ _ hl' (mono_of_strict hpw') (valid_head _ hv) K hK
    refine ⟨ev', vs', he, hv', ?_⟩
    apply List.ext_getElem?
    intro j
    rw [hd j, slice_neg_getElem? _ K hK, rev_decode _ h]

end Proofs.RL2CR
