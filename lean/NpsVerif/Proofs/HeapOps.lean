import NpsVerif.Model.Heap
import NpsVerif.Props.C02
import NpsVerif.Props.C03
import NpsVerif.Props.C04
import NpsVerif.Props.C07
import NpsVerif.Props.C08
/-!
# Operation results as `RA.ofRows` (helpers for property C06)

The per-operation theorems (C02, C03, C04, C07, C08) describe the ROWS of each result.  The heap
simulation needs the result ARRAY (buffer + shape) to be `RA.ofRows` of those rows, so that the next
operation can again be rewritten with a per-operation theorem.  An array whose shape is
`Shape.ofLens ls` and whose buffer has exactly `ls.sum` elements is `RA.ofRows` of its rows
(`eq_ofRows`); every operation below produces such an array.
-/
namespace Proofs.HeapOps
open Model Model.Heap Np

variable {α : Type}

theorem rows_flatten (data : List α) (ls : List Nat) (h : data.length = ls.sum) :
    (RA.rows ⟨data, Shape.ofLens ls⟩).flatten = data := by
  simp only [RA.rows, ofLens_codes, exclScan]
  rw [cut_flatten, List.drop_zero, List.take_of_length_le (by omega)]

theorem rows_lengths (data : List α) (ls : List Nat) (h : data.length = ls.sum) :
    (RA.rows ⟨data, Shape.ofLens ls⟩).map List.length = ls := by
  simp only [RA.rows, ofLens_codes, exclScan]
  exact cut_lengths data 0 ls (by omega)

/-- an array with a contiguous shape over a buffer of the right size is `ofRows` of its rows -/
theorem eq_ofRows (a : RA α) (ls : List Nat) (hs : a.shape = Shape.ofLens ls)
    (hl : a.data.length = ls.sum) : a = RA.ofRows a.rows := by
  obtain ⟨d, sh⟩ := a
  simp only at hs hl
  subst hs
  simp only [RA.ofRows, rows_flatten d ls hl, rows_lengths d ls hl]

/-- … in particular when its rows are known -/
theorem eq_ofRows_of (a : RA α) (rows rows' : List (List α)) (hs : a.shape = (RA.ofRows rows).shape)
    (hl : a.data.length = (RA.ofRows rows).data.length) (hr : a.rows = rows') : a = RA.ofRows rows' := by
  rw [← hr]
  apply eq_ofRows a (rows.map List.length) hs
  rw [hl]
  simp [RA.ofRows, List.length_flatten]

/-! ## assignment -/

theorem scatterSet_length (d : List α) (ws : List (Nat × α)) : (Np.scatterSet d ws).length = d.length := by
  induction ws generalizing d with
  | nil => rfl
  | cons w ws ih =>
    obtain ⟨i, v⟩ := w
    simp [Np.scatterSet, ih]

theorem setitem_data_length [XorLike α] (a : RA α) (idx : Index) (v : Value α) (a' : RA α)
    (h : setitem a idx v = some a') : a'.data.length = a.data.length := by
  unfold setitem at h
  obtain ⟨fs, _, h⟩ := Option.bind_eq_some_iff.mp h
  obtain ⟨vals, _, h⟩ := Option.bind_eq_some_iff.mp h
  obtain ⟨d, hd, h⟩ := Option.map_eq_some_iff.mp h
  subst h
  unfold scatterInt at hd
  obtain ⟨ws, _, hd⟩ := Option.map_eq_some_iff.mp hd
  subst hd
  exact scatterSet_length _ _

/-- `setitem` on `ofRows rows`, as a whole array -/
theorem setitem_ofRows (rows : List (List Int)) (idx : Index) (v : Value Int) :
    setitem (RA.ofRows rows) idx v = (Py.setitem rows idx v).map RA.ofRows := by
  have h := Props.C03.C03_setitem rows idx v
  cases hs : setitem (RA.ofRows rows) idx v with
  | none => rw [hs] at h; rw [← h]; rfl
  | some a' =>
    rw [hs] at h
    rw [← h]
    simp only [Option.map_some, Option.some.injEq]
    exact eq_ofRows_of a' rows _ (Props.C03.C03_setitem_shape _ idx v a' hs)
      (setitem_data_length _ idx v a' hs) rfl

/-! ## ufuncs -/

theorem addScalar_ofRows (rows : List (List Int)) (c : Int) :
    ufuncRight (· + ·) (RA.ofRows rows) (.scalar c) = some (RA.ofRows (rows.map (·.map (· + c)))) := by
  simp only [ufuncRight, RA.ofRows, List.map_flatten, List.map_map, Option.some.injEq, RA.mk.injEq, true_and]
  congr 2
  funext r
  simp

theorem addArrays_ofRows (a b : List (List Int)) :
    ufuncRight (· + ·) (RA.ofRows a) (.ragged (RA.ofRows b)) =
      if b.map List.length = a.map List.length
      then some (RA.ofRows (List.zipWith (fun r o => List.zipWith (· + ·) r o) a b)) else none := by
  split
  · rename_i h
    have hr := Props.C04.C04_ragged (· + ·) a b h
    cases hu : ufuncRight (· + ·) (RA.ofRows a) (.ragged (RA.ofRows b)) with
    | none => rw [hu] at hr; simp at hr
    | some r =>
      rw [hu] at hr
      simp only [Option.map_some, Option.some.injEq] at hr ⊢
      refine eq_ofRows_of r a _ (Props.C04.C04_shape _ _ _ r hu) ?_ hr
      simp only [ufuncRight, RA.ofRows, h, ne_eq, not_true_eq_false, if_false] at hu
      rw [Proofs.UfuncRows.applyFlat_eq_length _ _ _
        (by rw [List.length_flatten, List.length_flatten, h])] at hu
      simp only [Option.map_some, Option.some.injEq] at hu
      rw [← hu]
      simp [RA.ofRows, List.length_flatten, h]
  · rename_i h
    exact Props.C04.C04_ragged_refuses (· + ·) a b h

/-! ## concatenate -/

theorem ofFlat_eq_ofRows (d : List α) (ls : List Nat) (a : RA α) (h : RA.ofFlat d ls = some a) :
    a = RA.ofRows a.rows := by
  unfold RA.ofFlat at h
  simp only at h
  split at h
  · rename_i hsz
    simp only [Option.some.injEq] at h
    subst h
    apply eq_ofRows _ ls rfl
    rw [← hsz, ofLens_size]
  · simp at h

theorem concat_ofRows (a b : List (List Int)) :
    concatRows [RA.ofRows a, RA.ofRows b] = some (RA.ofRows (a ++ b)) := by
  have h := Props.C08.C08_concat_rows [a, b] (by simp)
  simp only [List.map_cons, List.map_nil] at h
  cases hc : concatRows [RA.ofRows a, RA.ofRows b] with
  | none => rw [hc] at h; simp at h
  | some r =>
    rw [hc] at h
    simp only [Option.map_some, Option.some.injEq, List.flatten_cons, List.flatten_nil, List.append_nil] at h
    simp only [concatRows] at hc
    rw [ofFlat_eq_ofRows _ _ r hc, h]

/-! ## sort, cumsum, diff -/

theorem sort_ofRows (rows : List (List Int)) :
    sortRows (fun p q => decide (p ≤ q)) (RA.ofRows rows) =
      RA.ofRows (rows.map (fun row => row.mergeSort (fun p q => decide (p ≤ q)))) := by
  have h := Proofs.SortRows.sortRows_int rows
  refine eq_ofRows_of (sortRows Proofs.SortRows.leInt (RA.ofRows rows)) rows _ rfl ?_ h.2
  rw [h.1]
  simp [RA.ofRows, List.length_flatten, Function.comp_def]

theorem unique_ofRows (rows : List (List Int)) :
    (uniqueRows (fun (p q : Int) => decide (p ≤ q)) (fun p q => p != q) (RA.ofRows rows)).map (fun r => RA.ofRows r.1) =
      some (RA.ofRows (rows.map (fun row =>
        (Spec.dedupCounts (fun (p q : Int) => p != q) (row.mergeSort (fun p q => decide (p ≤ q)))).map (·.1)))) := by
  rw [Props.C07.C07_unique_int]
  rfl

theorem cumsum_ofRows (rows : List (List Int)) :
    cumsumRows (RA.ofRows rows) = RA.ofRows (rows.map Spec.prefixSums) := by
  refine eq_ofRows_of _ rows _ (Props.C07.C07_scan_shape rows).1 ?_ (Props.C07.C07_cumsum rows)
  unfold cumsumRows
  rw [Proofs.ScanRows.size_ofRows]
  split
  · rename_i h
    simp only [RA.ofRows, List.length_nil]
    exact h.symm
  · have hcm : Np.cumsum (0 :: (RA.ofRows rows).data) = 0 :: cumsumFrom 0 rows.flatten := by
      simp [Np.cumsum, cumsumFrom, RA.ofRows]
    have hoff := Proofs.ScanRows.cumsum_offsets rows [] 0 rfl
    simp only [List.nil_append, List.sum_nil] at hoff
    simp only [hcm, List.drop_one, List.tail_cons]
    show (List.zipWith (· - ·) (cumsumFrom 0 rows.flatten)
        (repeatRows (Shape.ofLens (rows.map List.length)).lengths
          ((Shape.ofLens (rows.map List.length)).starts.filterMap
            ((0 :: cumsumFrom 0 rows.flatten)[·]?)))).length = _
    rw [ofLens_lengths, ofLens_starts, exclScan, hoff, Proofs.ScanRows.cumsum_local]
    simp [RA.ofRows, List.length_flatten, Function.comp_def]

theorem diff_ofRows (rows : List (List Int)) :
    (diffRows 1 (RA.ofRows rows)).map RA.ofRows = some (RA.ofRows (rows.map (Spec.diffN 1))) := by
  rw [Props.C07.C07_diff]; rfl

end Proofs.HeapOps
