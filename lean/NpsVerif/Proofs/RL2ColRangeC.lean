import NpsVerif.Proofs.RL2ColRangeB
import NpsVerif.Proofs.RLIndexSlice
/-!
# Column ranges on the ragged run-length array (C17, part C) — one row

The two mask searches on a valid row are `searchsorted(side="right") - 1` / `searchsorted(side="left") - 1`;
on the property's domain the clamped columns are CPython's adjusted slice bounds; the row result is
`_start_to_end` followed by `_step_subset`, i.e. CPython's slice of the decoded row.
-/
namespace Proofs.RL2CR
open Model Model.RL2 Model.RLA Proofs.RLIndex Proofs.ColSlice
variable {α : Type}

/-! ## the mask searches -/

theorem findRun_P1 (r : RLA α) (h : r.Valid) (x : Nat) (hx : x < r.len) (xi : Int) (hxi : xi = x) :
    findRun r.events (fun lo hi => decide (lo ≤ xi ∧ hi > xi)) =
      some (Np.searchsortedRightNat r.events x - 1) := by
  subst hxi
  obtain ⟨h0, hl, hpw⟩ := (valid_iff r).1 h
  have hmono := mono_of_strict hpw
  obtain ⟨a, b, c1, c2, ha, hb, h1, h2⟩ :=
    run_at r.events hmono x 0 r.len (valid_head r h) (valid_getLast r h) (Nat.zero_le _) hx
  have key := lt_countP_iff _ (le_antitone x) r.events hmono
  unfold Np.searchsortedRightNat
  generalize hc : List.countP (fun y => decide (y ≤ x)) r.events = c at *
  obtain ⟨hj1, ha'⟩ := List.getElem?_eq_some_iff.1 ha
  obtain ⟨hj2, hb'⟩ := List.getElem?_eq_some_iff.1 hb
  apply findRun_of r.events _ (c - 1) hj2
  · simp only [decide_eq_true_eq]
    rw [ha', hb']; omega
  · intro j' hj'
    have := (key (j' + 1) (by omega)).1 (by omega)
    simp only [decide_eq_true_eq] at this
    simp only [decide_eq_false_iff_not]
    omega

theorem findRun_P2 (r : RLA α) (h : r.Valid) (x : Nat) (hx0 : 0 < x) (hx : x ≤ r.len) (xi : Int)
    (hxi : xi = x) :
    findRun r.events (fun lo hi => decide (hi ≥ xi ∧ lo < xi)) =
      some (Np.searchsortedLeftNat r.events x - 1) := by
  subst hxi
  obtain ⟨h0, hl, hpw⟩ := (valid_iff r).1 h
  have hmono := mono_of_strict hpw
  obtain ⟨i1, i2, i3⟩ := ste_indices r h (x - 1) x (by omega) hx
  have key := lt_countP_iff _ (lt_antitone x) r.events hmono
  unfold Np.searchsortedLeftNat at *
  generalize hc : List.countP (fun y => decide (y < x)) r.events = c at *
  have k1 := (key (c - 1) (by omega)).1 (by omega)
  have k2 : ¬ (decide (r.events[c] < x) = true) := fun h' => Nat.lt_irrefl _ ((key c i3).2 h')
  simp only [decide_eq_true_eq] at k1 k2
  have hcc : c - 1 + 1 = c := by omega
  apply findRun_of r.events _ (c - 1) (by omega)
  · simp only [decide_eq_true_eq, hcc]
    omega
  · intro j' hj'
    have := (key (j' + 1) (by omega)).1 (by omega)
    simp only [decide_eq_true_eq] at this
    simp only [decide_eq_false_iff_not]
    omega

/-! ## clamped columns = CPython's adjusted bounds (on the domain) -/

theorem clamp_adjStart_pos (L a step : Int) (_hL : 0 ≤ L) (hs : 0 < step) :
    clampCol L a = Py.adjStart L (some a) step := by
  unfold clampCol Py.adjStart
  simp only []
  (repeat' split) <;> omega

theorem clamp_adjStop_pos (L b step : Int) (_hL : 0 ≤ L) (hs : 0 < step) :
    clampCol L b = Py.adjStop L (some b) step := by
  unfold clampCol Py.adjStop
  simp only []
  (repeat' split) <;> omega

theorem clamp_adjStart_neg (L a step : Int) (hs : step < 0) (h1 : -L ≤ a) (h2 : a < L) :
    clampCol L a = Py.adjStart L (some a) step := by
  unfold clampCol Py.adjStart
  simp only []
  (repeat' split) <;> omega

theorem clamp_adjStop_neg (L b step : Int) (hs : step < 0) (h1 : -L ≤ b)
    (h2 : Py.adjStop L (some b) step < L - 1) :
    clampCol L b = Py.adjStop L (some b) step := by
  unfold clampCol Py.adjStop at *
  simp only [] at *
  (repeat' split) <;> (repeat' split at h2) <;> omega

/-! ## post-processing -/

theorem postRow_spec (ev : List Nat) (vs : List α) (h : (RLA.mk ev vs).Valid) (step : Int)
    (hs : step ≠ 0) :
    ∃ i v, postRow step (false, ev.map (fun (x : Nat) => (x : Int)), vs) = some (i, v) ∧
      (RLA.mk i v).Valid ∧ (RLA.mk i v).decode = Py.slice (RLA.mk ev vs).decode none none step := by
  obtain ⟨ev', vs', he, hv, hd⟩ := stepSubsetRow_spec ev vs h step hs
  obtain ⟨_, hl, _⟩ := (valid_iff _).1 hv
  simp only [] at hl
  refine ⟨ev', vs', ?_, hv, hd⟩
  unfold postRow
  simp only [he, Bool.false_eq_true, if_false]
  rw [if_pos]
  · congr 2
    rw [List.map_map]
    have : (Int.toNat ∘ fun (x : Nat) => (x : Int)) = id := by funext x; simp
    rw [this, List.map_id]
  · refine ⟨by simpa using hl, ?_⟩
    simp

/-! ## forward direction -/

theorem fwd_start (r : RLA α) (h : r.Valid) (start : Option Int) (step : Int) (hpos : 0 < step)
    (S : Nat) (hS : (Py.adjStart r.len start step).toNat = S) (hlt : S < r.len) :
    ∃ fs, searchStart r.events (start.map (clampCol (r.len : Int)))
        (fun a lo hi => decide (lo ≤ a ∧ hi > a)) = some fs ∧
      ((start.map (clampCol (r.len : Int)) = none ∧ S = 0 ∧ fs = none) ∨
       (start.map (clampCol (r.len : Int)) = some (S : Int) ∧
          fs = some ((Np.searchsortedRightNat r.events S - 1 : Nat) : Int))) := by
  cases start with
  | none =>
    refine ⟨none, rfl, Or.inl ⟨rfl, ?_, rfl⟩⟩
    simp only [Py.adjStart] at hS
    rw [if_neg (by omega)] at hS
    simpa using hS.symm
  | some a =>
    obtain ⟨s1, s2⟩ := adjStart_bounds_pos r.len (by omega) (some a) step hpos
    have hc : clampCol (r.len : Int) a = (S : Int) := by
      rw [clamp_adjStart_pos _ a step (by omega) hpos]; omega
    refine ⟨some ((Np.searchsortedRightNat r.events S - 1 : Nat) : Int), ?_, Or.inr ⟨?_, rfl⟩⟩
    · simp only [Option.map_some, hc, searchStart]
      rw [findRun_P1 r h S hlt _ rfl]; rfl
    · simp only [Option.map_some, hc]

theorem fwd_stop (r : RLA α) (h : r.Valid) (stop : Option Int) (step : Int) (hpos : 0 < step)
    (E : Nat) (hE : (Py.adjStop r.len stop step).toNat = E) (h0 : 0 < E) :
    ((stop.map (clampCol (r.len : Int)) = none ∧ E = r.len ∧
        searchStopFwd r.events (stop.map (clampCol (r.len : Int))) = none) ∨
     (stop.map (clampCol (r.len : Int)) = some (E : Int) ∧
        searchStopFwd r.events (stop.map (clampCol (r.len : Int))) = some ((Np.searchsortedLeftNat r.events E - 1 : Nat) : Int))) := by
  cases stop with
  | none =>
    refine Or.inl ⟨rfl, ?_, rfl⟩
    simp only [Py.adjStop] at hE
    rw [if_neg (by omega)] at hE
    simpa using hE.symm
  | some b =>
    obtain ⟨s1, s2⟩ := adjStop_bounds_pos r.len (by omega) (some b) step hpos
    have hc : clampCol (r.len : Int) b = (E : Int) := by
      rw [clamp_adjStop_pos _ b step (by omega) hpos]; omega
    refine Or.inr ⟨?_, ?_⟩
    · simp only [Option.map_some, hc]
    · simp only [Option.map_some, hc, searchStopFwd]
      rw [findRun_P2 r h E h0 (by omega) _ rfl]

theorem row_fwd (r : RLA α) (h : r.Valid) (start stop : Option Int) (step : Int) (hpos : 0 < step)
    (hd : 0 < Py.sliceLen r.len start stop step) :
    ∃ i v, colRangeRow r.events r.values start stop step = some (i, v) ∧ (RLA.mk i v).Valid ∧
      (RLA.mk i v).decode = Py.slice r.decode start stop step := by
  have hlen := len_eq_decode_length r h
  have hL : ((r.events.getLast?.getD 0 : Nat) : Int) = (r.len : Int) := by
    rw [valid_getLast r h]; rfl
  obtain ⟨K, rfl⟩ : ∃ K : Nat, step = K := ⟨step.toNat, by omega⟩
  have hK : 0 < K := by omega
  obtain ⟨s1, s2⟩ := adjStart_bounds_pos r.len (by omega) start K hpos
  obtain ⟨e1, e2⟩ := adjStop_bounds_pos r.len (by omega) stop K hpos
  have hlt : Py.adjStart r.len start K < Py.adjStop r.len stop K := by
    rw [sliceLen_pos _ _ _ _ hpos] at hd
    split at hd
    · assumption
    · omega
  have hsl := slice_sub_pos r.decode start stop K hK
  rw [← hlen] at hsl
  generalize hS : (Py.adjStart r.len start K).toNat = S at *
  generalize hE : (Py.adjStop r.len stop K).toNat = E at *
  obtain ⟨fs, hfs, hX⟩ := fwd_start r h start K hpos S hS (by omega)
  have hY := fwd_stop r h stop K hpos E hE (by omega)
  rw [colRangeRow_fwd _ _ _ _ _ (by omega)]
  simp only [hL]
  rw [hfs]
  simp only [Option.bind_some]
  obtain ⟨ev', vs', hc, hv, hdec⟩ := cutRow_spec r h S E (by omega) (by omega) _ _ _ _ hX hY
  rw [hc]
  obtain ⟨i, v, hp, hv', hd'⟩ := postRow_spec ev' vs' hv K (by omega)
  exact ⟨i, v, hp, hv', by rw [hd', hdec, hsl]⟩

/-! ## reverse direction -/

theorem rev_stop (r : RLA α) (h : r.Valid) (stop : Option Int) (step : Int) (hneg : step < 0)
    (hb : ∀ b, stop = some b → -(r.len : Int) ≤ b) (hlo : Py.adjStop r.len stop step < (r.len : Int) - 1)
    (S : Nat) (hS : (Py.adjStop r.len stop step + 1).toNat = S) :
    (((stop.map (clampCol (r.len : Int))).map (· + 1) = none ∧ S = 0 ∧
        searchStopRev r.events (stop.map (clampCol (r.len : Int))) = none) ∨
     ((stop.map (clampCol (r.len : Int))).map (· + 1) = some (S : Int) ∧
        searchStopRev r.events (stop.map (clampCol (r.len : Int))) =
          some ((Np.searchsortedRightNat r.events S - 1 : Nat) : Int))) := by
  cases stop with
  | none =>
    refine Or.inl ⟨rfl, ?_, rfl⟩
    simp only [Py.adjStop] at hS
    rw [if_pos hneg] at hS
    simpa using hS.symm
  | some b =>
    obtain ⟨s1, s2⟩ := adjStop_bounds_neg r.len (by omega) (some b) step hneg
    have hc : clampCol (r.len : Int) b + 1 = (S : Int) := by
      rw [clamp_adjStop_neg _ b step hneg (hb b rfl) hlo]; omega
    refine Or.inr ⟨?_, ?_⟩
    · simp only [Option.map_some, hc]
    · simp only [Option.map_some, searchStopRev, hc]
      rw [findRun_P1 r h S (by omega) _ rfl]; rfl

theorem rev_start (r : RLA α) (h : r.Valid) (start : Option Int) (step : Int) (hneg : step < 0)
    (ha : ∀ a, start = some a → -(r.len : Int) ≤ a ∧ a < r.len) (hpos : 0 < r.len)
    (E : Nat) (hE : (Py.adjStart r.len start step + 1).toNat = E) :
    ∃ fs, searchStart r.events (start.map (clampCol (r.len : Int)))
        (fun a lo hi => decide (hi ≥ a + 1 ∧ lo < a + 1)) = some fs ∧
      (((start.map (clampCol (r.len : Int))).map (· + 1) = none ∧ E = r.len ∧ fs = none) ∨
       ((start.map (clampCol (r.len : Int))).map (· + 1) = some (E : Int) ∧
          fs = some ((Np.searchsortedLeftNat r.events E - 1 : Nat) : Int))) := by
  cases start with
  | none =>
    refine ⟨none, rfl, Or.inl ⟨rfl, ?_, rfl⟩⟩
    simp only [Py.adjStart] at hE
    rw [if_pos hneg] at hE
    omega
  | some a =>
    obtain ⟨a1, a2⟩ := ha a rfl
    have hadj : 0 ≤ Py.adjStart r.len (some a) step ∧ Py.adjStart r.len (some a) step < r.len := by
      unfold Py.adjStart
      simp only []
      (repeat' split) <;> omega
    have hc : clampCol (r.len : Int) a + 1 = (E : Int) := by
      rw [clamp_adjStart_neg _ a step hneg a1 a2]; omega
    refine ⟨some ((Np.searchsortedLeftNat r.events E - 1 : Nat) : Int), ?_, Or.inr ⟨?_, rfl⟩⟩
    · simp only [Option.map_some, searchStart, hc]
      rw [findRun_P2 r h E (by omega) (by omega) _ rfl]; rfl
    · simp only [Option.map_some, hc]

theorem row_rev (r : RLA α) (h : r.Valid) (start stop : Option Int) (step : Int) (hneg : step < 0)
    (hd : 0 < Py.sliceLen r.len start stop step)
    (ha : ∀ a, start = some a → -(r.len : Int) ≤ a ∧ a < r.len)
    (hb : ∀ b, stop = some b → -(r.len : Int) ≤ b) :
    ∃ i v, colRangeRow r.events r.values start stop step = some (i, v) ∧ (RLA.mk i v).Valid ∧
      (RLA.mk i v).decode = Py.slice r.decode start stop step := by
  have hlen := len_eq_decode_length r h
  have hL : ((r.events.getLast?.getD 0 : Nat) : Int) = (r.len : Int) := by
    rw [valid_getLast r h]; rfl
  obtain ⟨K, rfl⟩ : ∃ K : Nat, step = -(K : Int) := ⟨(-step).toNat, by omega⟩
  have hK : 0 < K := by omega
  obtain ⟨s1, s2⟩ := adjStart_bounds_neg r.len (by omega) start _ hneg
  obtain ⟨e1, e2⟩ := adjStop_bounds_neg r.len (by omega) stop _ hneg
  have hlt : Py.adjStop r.len stop (-(K : Int)) < Py.adjStart r.len start (-(K : Int)) := by
    rw [sliceLen_neg _ _ _ _ hneg] at hd
    split at hd
    · assumption
    · omega
  have hsl := slice_sub_neg r.decode start stop K hK
  rw [← hlen] at hsl
  have hX := rev_stop r h stop _ hneg hb (by omega) _ rfl
  obtain ⟨fs, hfs, hY⟩ := rev_start r h start _ hneg ha (by omega) _ rfl
  generalize hS : (Py.adjStop r.len stop (-(K : Int)) + 1).toNat = S at *
  generalize hE : (Py.adjStart r.len start (-(K : Int)) + 1).toNat = E at *
  rw [colRangeRow_rev _ _ _ _ _ hneg]
  simp only [hL]
  rw [hfs]
  simp only [Option.bind_some]
  obtain ⟨ev', vs', hc, hv, hdec⟩ := cutRow_spec r h S E (by omega) (by omega) _ _ _ _ hX hY
  rw [hc]
  obtain ⟨i, v, hp, hv', hd'⟩ := postRow_spec ev' vs' hv (-(K : Int)) (by omega)
  exact ⟨i, v, hp, hv', by rw [hd', hdec, hsl]⟩

/-- one row, both directions -/
theorem row_spec (r : RLA α) (h : r.Valid) (start stop : Option Int) (step : Int) (hs : step ≠ 0)
    (hd : 0 < Py.sliceLen r.len start stop step)
    (hdom : step < 0 → (∀ a, start = some a → -(r.len : Int) ≤ a ∧ a < r.len) ∧
      (∀ b, stop = some b → -(r.len : Int) ≤ b)) :
    ∃ i v, colRangeRow r.events r.values start stop step = some (i, v) ∧ (RLA.mk i v).Valid ∧
      (RLA.mk i v).decode = Py.slice r.decode start stop step := by
  by_cases hneg : step < 0
  · exact row_rev r h start stop step hneg hd (hdom hneg).1 (hdom hneg).2
  · exact row_fwd r h start stop step (by omega) hd

end Proofs.RL2CR
