import Lean.Elab.Tactic
import NpsVerif.Gen.Cur
import NpsVerif.Gen.CurW
/-! Wrapping 32-bit arithmetic: projection lemmas for `Gen.W32` and the automation that shows that a generated
kernel over `W32` (`Gen.CurW`) returns the values of the kernel over unbounded integers (`Gen.Cur`): every wrap is
removed, innermost first, by showing that its argument lies inside the signed 32-bit range. -/
namespace Gen
namespace W32

@[simp] theorem lift_v (x : Int) : (lift x).v = x := rfl
@[simp] theorem ofNat_v (n : Nat) : (no_index (OfNat.ofNat n) : W32).v = (OfNat.ofNat n : Int) := rfl
@[simp] theorem add_v (a b : W32) : (a + b).v = wrap32 (a.v + b.v) := rfl
@[simp] theorem sub_v (a b : W32) : (a - b).v = wrap32 (a.v - b.v) := rfl
@[simp] theorem mul_v (a b : W32) : (a * b).v = wrap32 (a.v * b.v) := rfl
@[simp] theorem neg_v (a : W32) : (-a).v = wrap32 (-a.v) := rfl
@[simp] theorem min_v (a b : W32) : (min a b).v = min a.v b.v := rfl
@[simp] theorem max_v (a b : W32) : (max a b).v = max a.v b.v := rfl
@[simp] theorem fdiv_v (a b : W32) : (fdiv a b).v = wrap32 (Int.fdiv a.v b.v) := rfl
@[simp] theorem fmod_v (a b : W32) : (fmod a b).v = wrap32 (Int.fmod a.v b.v) := rfl
@[simp] theorem iabs_v (a : W32) : (iabs a).v = wrap32 (Gen.iabs a.v) := rfl
@[simp] theorem sgn_v (a : W32) : (sgn a).v = Gen.sgn a.v := rfl
@[simp] theorem lt_iff (a b : W32) : a < b ↔ a.v < b.v := Iff.rfl
@[simp] theorem le_iff (a b : W32) : a ≤ b ↔ a.v ≤ b.v := Iff.rfl
@[simp] theorem gt_iff (a b : W32) : a > b ↔ a.v > b.v := Iff.rfl
@[simp] theorem ge_iff (a b : W32) : a ≥ b ↔ a.v ≥ b.v := Iff.rfl
@[simp] theorem beq_iff (a b : W32) : (a == b) = (a.v == b.v) := rfl
@[simp] theorem bne_iff (a b : W32) : (a != b) = (a.v != b.v) := rfl
@[simp] theorem ite_v (c : Prop) [Decidable c] (a b : W32) : (if c then a else b).v = if c then a.v else b.v := by
  split <;> rfl

end W32

/-- a value inside the signed 32-bit range is not changed by the wrap -/
theorem wrap32_eq_self (x : Int) (h : -2147483648 ≤ x ∧ x ≤ 2147483647) : wrap32 x = x := by
  unfold wrap32; omega

/-- division by a positive number moves towards zero or stays -/
theorem ediv_bounds (x k : Int) (hk : 0 < k) :
    (0 ≤ x → 0 ≤ x / k ∧ x / k ≤ x) ∧ (x < 0 → x ≤ x / k ∧ x / k < 0) := by
  refine ⟨fun h => ⟨Int.ediv_nonneg h (by omega), Int.ediv_le_self _ h⟩, fun h => ⟨?_, Int.ediv_neg_of_neg_of_pos h hk⟩⟩
  have h2 : x < (x / k + 1) * k := Int.lt_ediv_add_one_mul_self x hk
  have h3 : x / k < 0 := Int.ediv_neg_of_neg_of_pos h hk
  by_cases hx : x ≤ x / k
  · exact hx
  · exfalso
    have h5 : (x / k + 1) * k ≤ (x / k + 1) * 1 :=
      Int.mul_le_mul_of_nonpos_left (show x / k + 1 ≤ 0 by omega) (show (1 : Int) ≤ k by omega)
    omega

theorem fdiv_bounds (x k : Int) (hk : 0 < k) :
    (0 ≤ x → 0 ≤ Int.fdiv x k ∧ Int.fdiv x k ≤ x) ∧ (x < 0 → x ≤ Int.fdiv x k ∧ Int.fdiv x k < 0) := by
  rw [Int.fdiv_eq_ediv_of_nonneg _ (by omega)]
  exact ediv_bounds x k hk

open Lean Elab Tactic Meta in
/-- `fdiv_facts`: for every floor quotient `Int.fdiv x k` in the goal or a hypothesis whose divisor `omega` can show
to be positive, add `fdiv_bounds x k _` to the context (`omega` then treats the quotient as an atom with these
bounds).  Never fails. -/
elab "fdiv_facts" : tactic => withMainContext do
  let collect (e : Expr) (acc : Array Expr) : Array Expr :=
    Id.run do
      let mut acc := acc
      let mut todo := #[e]
      while !todo.isEmpty do
        let t := todo.back!
        todo := todo.pop
        if t.isAppOfArity ``Int.fdiv 2 && !t.hasLooseBVars && !acc.contains t then
          acc := acc.push t
        match t with
        | .app f a => todo := (todo.push f).push a
        | .lam _ d b _ => todo := (todo.push d).push b
        | .forallE _ d b _ => todo := (todo.push d).push b
        | .letE _ ty v b _ => todo := ((todo.push ty).push v).push b
        | .mdata _ b => todo := todo.push b
        | .proj _ _ b => todo := todo.push b
        | _ => pure ()
      return acc
  let g ← getMainGoal
  let mut ts := collect (← instantiateMVars (← g.getType)) #[]
  for d in (← getLCtx) do
    if d.isImplementationDetail then continue
    ts := collect (← instantiateMVars d.type) ts
  for t in ts do
    let x := t.appFn!.appArg!
    let k := t.appArg!
    let posTy ← mkAppM ``LT.lt #[toExpr (0 : Int), k]
    let hk ← mkFreshExprSyntheticOpaqueMVar posTy
    let ok ← try
        let rest ← Lean.Elab.Tactic.run hk.mvarId! (do evalTactic (← `(tactic| omega)))
        pure rest.isEmpty
      catch _ => pure false
    if ok then
      let pf := mkApp3 (mkConst ``Gen.fdiv_bounds) x k hk
      let g' ← (← getMainGoal).assert `hfd (← inferType pf) pf
      let (_, g'') ← g'.intro1
      replaceMainGoal [g'']

/-- side goals "the argument of this wrap is in range": floor quotients by positive divisors get the bounds of
`fdiv_bounds`, the rest is linear arithmetic -/
macro "w32_disch" : tactic => `(tactic| (fdiv_facts; omega))

/-- rewrites a goal about `W32` kernels into one about `Int`, removing every wrap whose argument is in range -/
macro "w32_simp" : tactic =>
  `(tactic| simp (disch := w32_disch) only [Option.map, W32.lift_v, W32.ofNat_v, W32.add_v, W32.sub_v, W32.mul_v, W32.neg_v,
      W32.min_v, W32.max_v, W32.fdiv_v, W32.fmod_v, W32.iabs_v, W32.sgn_v, W32.lt_iff, W32.le_iff, W32.gt_iff, W32.ge_iff,
      W32.beq_iff, W32.bne_iff, W32.ite_v, wrap32_eq_self, Gen.iabs, Gen.sgn, ge_iff_le, gt_iff_lt, decide_eq_true_eq, Bool.and_eq_true, Bool.or_eq_true,
      bne_iff_ne, ne_eq, beq_iff_eq, Bool.not_eq_true', decide_eq_false_iff_not, true_and, and_true])

/-- `CurW.k … = Cur.k …` goals: remove the wraps; what is left is syntactically the same kernel on both sides -/
macro "w32_arith" : tactic => `(tactic| (w32_simp <;> (try rfl)))

end Gen
