import NpsVerif.Proofs.RL2Ctor
/-!
# 2-D / ragged run-length arrays: the integer column `rl[:, j]` (C17)

`columnInt` keeps, per row, the values of the runs `[ix[k], ix[k+1])` that contain the column.  For
weakly increasing boundaries that is exactly one run — the one whose value is the decoded cell.
-/
namespace Proofs.RL2
open Model Model.RL2 Np

variable {α β : Type}

/-- the values of the runs of `(ix, vs)` containing position `q` -/
def pick (q : Int) (ix : List Nat) (vs : List α) : List α :=
  ((ix.zip (ix.drop 1)).zip vs).filterMap (fun p =>
    if (p.1.1 : Int) ≤ q ∧ q < (p.1.2 : Int) then some p.2 else none)

theorem pick_cons_cons (q : Int) (e0 e1 : Nat) (es : List Nat) (v : α) (vs : List α) :
    pick q (e0 :: e1 :: es) (v :: vs) =
      (if (e0 : Int) ≤ q ∧ q < (e1 : Int) then [v] else []) ++ pick q (e1 :: es) vs := by
  unfold pick
  simp only [List.drop_succ_cons, List.drop_zero, List.zip_cons_cons, List.filterMap_cons]
  by_cases h : (e0 : Int) ≤ q ∧ q < (e1 : Int)
  · rw [if_pos h, if_pos h]; rfl
  · rw [if_neg h, if_neg h]; rfl

/-- no run starts at or before a position left of the first boundary -/
theorem pick_none (q : Nat) (e0 : Nat) (es : List Nat) (vs : List α)
    (hm : (e0 :: es).Pairwise (· ≤ ·)) (hq : q < e0) : pick (q : Int) (e0 :: es) vs = [] := by
  unfold pick
  rw [List.filterMap_eq_nil_iff]
  intro p hp
  have h1 : p.1 ∈ (e0 :: es).zip ((e0 :: es).drop 1) := (List.of_mem_zip hp).1
  have h2 : p.1.1 ∈ e0 :: es := (List.of_mem_zip h1).1
  have h3 : e0 ≤ p.1.1 := by
    rcases List.mem_cons.1 h2 with h | h
    · omega
    · exact (List.pairwise_cons.1 hm).1 _ h
  rw [if_neg (by omega)]

open Proofs.RLIndex in
/-- the run picked for `q` holds the decoded cell at `q` -/
theorem pick_dec (q : Nat) (e0 : Nat) (es : List Nat) (vs : List α) (hl : es.length = vs.length)
    (hm : (e0 :: es).Pairwise (· ≤ ·)) (hq : e0 ≤ q) :
    pick (q : Int) (e0 :: es) vs = ((dec e0 es vs)[q - e0]?).toList := by
  induction es generalizing e0 vs with
  | nil => simp [pick, dec]
  | cons e1 es ih =>
    cases vs with
    | nil => simp at hl
    | cons v vs =>
      have hm' := List.pairwise_cons.1 hm
      have h01 : e0 ≤ e1 := hm'.1 e1 (by simp)
      rw [pick_cons_cons]
      simp only [dec]
      by_cases hq1 : q < e1
      · rw [if_pos ⟨by omega, by omega⟩, pick_none q e1 es vs hm'.2 hq1,
          List.getElem?_append_left (by simp; omega), List.getElem?_replicate,
          if_pos (by omega)]
        rfl
      · rw [if_neg (by omega), ih e1 vs (by simpa using hl) hm'.2 (by omega),
          List.getElem?_append_right (by simp; omega)]
        simp only [List.length_replicate, List.nil_append]
        have : q - e0 - (e1 - e0) = q - e1 := by omega
        rw [this]

/-- one row of `columnInt` on a valid run-length row: the cell at the (wrapped) column -/
theorem pick_valid (ix : List Nat) (vs : List α) (hv : (RLA.mk ix vs).Valid) (n : Nat)
    (hlast : ix.getLast? = some n) (j : Int) (hj : -(n : Int) ≤ j ∧ j < n) :
    pick (if j < 0 then ((ix.getLast?.getD 0 : Nat) : Int) + j else j) ix vs =
      (Py.index (RLA.mk ix vs).decode j).toList := by
  obtain ⟨es, hev, hlen, hpw⟩ := Proofs.RLIndex.valid_cons hv
  simp only at hev hlen
  subst hev
  have hdl : (RLA.mk (0 :: es) vs).decode.length = n := by
    have := Proofs.RLIndex.decode_length (0 :: es) vs (by simp [hlen])
      (Proofs.RLIndex.mono_of_strict hpw) 0 n rfl hlast
    simpa using this
  rw [hlast]
  simp only [Option.getD_some]
  unfold Py.index Np.getIdx Np.normIdx
  rw [hdl, Proofs.RLIndex.decode_cons]
  by_cases h0 : j < 0
  · rw [if_pos h0, if_neg (by omega), if_pos hj.1]
    obtain ⟨q, hq⟩ : ∃ q : Nat, (n : Int) + j = (q : Int) := ⟨((n : Int) + j).toNat, by omega⟩
    rw [hq, pick_dec _ 0 es vs hlen (Proofs.RLIndex.mono_of_strict hpw) (Nat.zero_le _)]
    simp
  · rw [if_neg h0, if_pos (by omega), if_pos hj.2]
    obtain ⟨q, hq⟩ : ∃ q : Nat, j = (q : Int) := ⟨j.toNat, by omega⟩
    rw [hq, pick_dec _ 0 es vs hlen (Proofs.RLIndex.mono_of_strict hpw) (Nat.zero_le _)]
    simp

theorem some_flatMap_eq_mapM (L : List β) (H : β → List α) (P : β → Option α)
    (h : ∀ a ∈ L, ∃ v, P a = some v ∧ H a = [v]) : some (L.flatMap H) = L.mapM P := by
  induction L with
  | nil => simp
  | cons a L ih =>
    obtain ⟨v, hP, hH⟩ := h a (by simp)
    rw [mapM_cons', hP, ← ih (fun b hb => h b (by simp [hb]))]
    simp [hH]

/-- the integer column of the ragged encoder -/
theorem columnInt_fromRagged (ne : α → α → Bool) (hne : ∀ x y, ne x y = false → x = y)
    (rows : List (List α)) (hpos : ∀ r ∈ rows, r ≠ []) (j : Int)
    (hin : ∀ r ∈ rows, -(r.length : Int) ≤ j ∧ j < r.length) :
    some ((fromRagged ne rows).columnInt j) = rows.mapM (fun r => Py.index r j) := by
  rw [fromRagged_eq]
  unfold RL2.columnInt
  simp only [List.zip_map]
  have hz : rows.zip rows = rows.map (fun a => (a, a)) := by
    rw [List.zip_eq_zipWith, List.zipWith_self]
  rw [hz, List.map_map, List.flatMap_map]
  apply some_flatMap_eq_mapM
  intro a ha
  obtain ⟨hV, hD⟩ := ragged_row ne hne a (hpos a ha)
  have hlast : (changeStarts ne a ++ [a.length]).getLast? = some a.length := by simp
  have hp := pick_valid _ _ hV a.length hlast j (hin a ha)
  rw [hD] at hp
  have hidx : ∃ v, Py.index a j = some v := by
    unfold Py.index Np.getIdx Np.normIdx
    have := hin a ha
    by_cases h0 : 0 ≤ j
    · rw [if_pos h0, if_pos this.2]
      exact ⟨a[j.toNat]'(by omega), by simp⟩
    · rw [if_neg h0, if_pos this.1]
      exact ⟨a[((a.length : Int) + j).toNat]'(by omega), by simp⟩
  obtain ⟨v, hv⟩ := hidx
  refine ⟨v, hv, ?_⟩
  rw [hv] at hp
  exact hp

end Proofs.RL2
