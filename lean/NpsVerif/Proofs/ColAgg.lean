import NpsVerif.Model.Structural
import NpsVerif.Spec.Rows
import NpsVerif.Proofs.C01Maps
import NpsVerif.Proofs.GetItemSel
import NpsVerif.Proofs.BuildIndices
/-! Lemmas for property C09: column aggregates (`sum(axis=0)`, `col_counts`, `get_column_values`). -/
namespace Model
open Np

/-! ## the widest row -/

theorem foldl_max_ge (xs : List Nat) (a : Nat) : a ≤ xs.foldl max a := by
  induction xs generalizing a with
  | nil => exact Nat.le_refl _
  | cons x xs ih =>
    simp only [List.foldl_cons]
    have := ih (max a x)
    omega

theorem le_foldl_max (xs : List Nat) (a : Nat) : ∀ x ∈ xs, x ≤ xs.foldl max a := by
  induction xs generalizing a with
  | nil => simp
  | cons y ys ih =>
    intro x hx
    simp only [List.foldl_cons]
    rcases List.mem_cons.mp hx with rfl | hx
    · have := foldl_max_ge ys (max a x); omega
    · exact ih (max a y) x hx

theorem foldl_max_le_sum (xs : List Nat) (a : Nat) : xs.foldl max a ≤ a + xs.sum := by
  induction xs generalizing a with
  | nil => simp
  | cons y ys ih =>
    simp only [List.foldl_cons, List.sum_cons]
    have := ih (max a y)
    omega

theorem foldl_max_succ (xs : List Nat) (a : Nat) :
    xs.foldl (fun a x => max a (x + 1)) (a + 1) = xs.foldl max a + 1 := by
  induction xs generalizing a with
  | nil => rfl
  | cons y ys ih =>
    simp only [List.foldl_cons]
    rw [show max (a + 1) (y + 1) = max a y + 1 by omega, ih]

theorem foldl_max_succ_zero (x : Nat) (xs : List Nat) :
    (x :: xs).foldl (fun a x => max a (x + 1)) 0 = (x :: xs).foldl max 0 + 1 := by
  simp only [List.foldl_cons]
  rw [show max 0 (x + 1) = x + 1 by omega, show max 0 x = x by omega, foldl_max_succ]

theorem foldl_max_eq_zero (xs : List Nat) (h : xs.sum = 0) : xs.foldl max 0 = 0 := by
  have := foldl_max_le_sum xs 0
  omega

/-! ## `mapM` that never refuses -/

theorem mapM_eq_some_map {α β} (f : α → Option β) (g : α → β) (l : List α)
    (h : ∀ x ∈ l, f x = some (g x)) : l.mapM f = some (l.map g) := by
  rw [mapM_congr f (fun x => some (g x)) l h, mapM_some]

/-! ## column index of every flat position -/

/-- `concatenate([arange(l) for l in lengths])` -/
def colIds (ls : List Nat) : List Nat := (ls.map List.range).flatten

theorem colIds_length (ls : List Nat) : (colIds ls).length = ls.sum := by
  induction ls with
  | nil => rfl
  | cons x xs ih =>
    simp only [colIds, List.map_cons, List.flatten_cons, List.length_append, List.length_range,
      List.sum_cons] at ih ⊢
    rw [ih]

theorem colIds_getElem? (ls : List Nat) (r c : Nat) (hr : r < ls.length) (hc : c < ls[r]) :
    (colIds ls)[(ls.take r).sum + c]? = some c := by
  induction ls generalizing r with
  | nil => simp at hr
  | cons x xs ih =>
    cases r with
    | zero =>
      simp only [List.getElem_cons_zero] at hc
      simp [colIds, List.getElem?_append, hc]
    | succ r =>
      simp only [List.getElem_cons_succ] at hc
      simp only [List.length_cons, Nat.add_lt_add_iff_right] at hr
      have := ih r hr hc
      simp only [colIds, List.map_cons, List.flatten_cons, List.take_succ_cons, List.sum_cons,
        List.getElem?_append, List.length_range] at this ⊢
      rw [if_neg (by omega), show x + (xs.take r).sum + c - x = (xs.take r).sum + c by omega, this]

/-- `unravel_multi_index` of all flat positions never refuses; its columns are `colIds` -/
theorem unravel_all (ls : List Nat) :
    ∃ rc, (List.range ls.sum).mapM (Shape.ofLens ls).unravelIdx = some rc ∧
      rc.map (·.2) = colIds ls := by
  refine ⟨(List.range ls.sum).map (fun p => ((Shape.ofLens ls).unravelIdx p).getD (0, 0)), ?_, ?_⟩
  · apply mapM_eq_some_map
    intro p hp
    have hp' : p < ls.sum := by simpa using hp
    obtain ⟨r, c, hr, hc, he⟩ := exists_row_col ls p hp'
    rw [he, ofLens_unravelIdx ls r c hr hc]
    rfl
  · apply List.ext_getElem?
    intro p
    by_cases hp : p < ls.sum
    · obtain ⟨r, c, hr, hc, he⟩ := exists_row_col ls p hp
      simp only [List.map_map, List.getElem?_map, List.getElem?_range hp, Option.map_some,
        Function.comp]
      rw [he, ofLens_unravelIdx ls r c hr hc, colIds_getElem? ls r c hr hc]
      rfl
    · rw [List.getElem?_eq_none (by simpa using hp),
        List.getElem?_eq_none (by rw [colIds_length]; omega)]

/-! ## column sums -/

theorem row_col_filter_from {α} (r : List α) (k j : Nat) :
    ((List.range' k r.length).zip r).filterMap (fun p => if p.1 = j then some p.2 else none)
      = if j < k then [] else (r[j - k]?).toList := by
  induction r generalizing k with
  | nil => simp
  | cons x xs ih =>
    simp only [List.length_cons, List.range'_succ, List.zip_cons_cons, List.filterMap_cons]
    rw [ih (k + 1)]
    by_cases h1 : j < k
    · have h2 : ¬ k = j := by omega
      have h3 : j < k + 1 := by omega
      simp [h1, h2, h3]
    · by_cases h2 : k = j
      · subst h2
        simp
      · have h3 : ¬ j < k + 1 := by omega
        obtain ⟨m, hm⟩ : ∃ m, j - k = m + 1 := ⟨j - k - 1, by omega⟩
        have h4 : j - (k + 1) = m := by omega
        simp [h1, h2, h3, hm, h4]

/-- the cells of one row whose column is `j` -/
theorem row_col_filter {α} (r : List α) (j : Nat) :
    ((List.range r.length).zip r).filterMap (fun p => if p.1 = j then some p.2 else none)
      = (r[j]?).toList := by
  rw [List.range_eq_range', row_col_filter_from]
  simp

/-- the cells of the whole array whose column is `j`: one per row that reaches column `j` -/
theorem col_filter {α} (rows : List (List α)) (j : Nat) :
    ((colIds (rows.map List.length)).zip rows.flatten).filterMap
        (fun p => if p.1 = j then some p.2 else none)
      = rows.filterMap (·[j]?) := by
  induction rows with
  | nil => simp [colIds]
  | cons r rs ih =>
    simp only [colIds, List.map_cons, List.flatten_cons] at ih ⊢
    rw [List.zip_append (by simp), List.filterMap_append, ih, row_col_filter]
    cases h : r[j]? <;> simp [h]

/-! ## column counts -/

theorem cumsumFrom_getElem? (acc : Int) (l : List Int) (i : Nat) (hi : i < l.length) :
    (cumsumFrom acc l)[i]? = some (acc + (l.take (i + 1)).sum) := by
  induction l generalizing acc i with
  | nil => simp at hi
  | cons x xs ih =>
    cases i with
    | zero => simp [cumsumFrom]
    | succ i =>
      simp only [cumsumFrom, List.getElem?_cons_succ, List.take_succ_cons, List.sum_cons]
      rw [ih (acc + x) i (by simpa using hi)]
      simp [Int.add_assoc]

@[simp] theorem cumsumFrom_length (acc : Int) (l : List Int) : (cumsumFrom acc l).length = l.length := by
  induction l generalizing acc with
  | nil => rfl
  | cons x xs ih => simp [cumsumFrom, ih]

theorem sum_map_neg (l : List Nat) :
    (l.map (fun (c : Nat) => -(c : Int))).sum = -((l.sum : Nat) : Int) := by
  induction l with
  | nil => rfl
  | cons x xs ih => simp only [List.map_cons, List.sum_cons, ih, Int.natCast_add]; omega

theorem countP_le_add_gt (xs : List Nat) (j : Nat) :
    xs.countP (· < j + 1) + xs.countP (fun l => decide (l > j)) = xs.length := by
  induction xs with
  | nil => rfl
  | cons x xs ih =>
    simp only [List.countP_cons, List.length_cons, decide_eq_true_eq]
    by_cases h : x < j + 1
    · have h' : ¬ x > j := by omega
      simp only [h, h', if_true, if_false]; omega
    · have h' : x > j := by omega
      simp only [h, h', if_true, if_false]; omega

theorem cumsum_bump (b : List Int) (n : Int) :
    cumsum (match b with | [] => [] | c :: rest => (c + n) :: rest) = cumsumFrom n b := by
  cases b with
  | nil => rfl
  | cons c rest =>
    simp only [cumsum, cumsumFrom]
    rw [show (0 : Int) + (c + n) = n + c by omega]

/-- `col_counts` on the vector of row lengths -/
theorem colCounts_core (ls : List Nat) :
    (cumsum (match (bincount ls 0).map (fun (c : Nat) => -(c : Int)) with
        | [] => []
        | c :: rest => (c + (ls.length : Int)) :: rest)).dropLast
      = (List.range (ls.foldl max 0)).map
          (fun j => ((ls.countP (fun l => decide (l > j)) : Nat) : Int)) := by
  rw [cumsum_bump]
  cases ls with
  | nil => simp [bincount, cumsumFrom]
  | cons x xs =>
    generalize hls : x :: xs = ls
    have hM : ls.foldl (fun a x => max a (x + 1)) 0 = ls.foldl max 0 + 1 := by
      rw [← hls]; exact foldl_max_succ_zero x xs
    generalize hW : ls.foldl max 0 = W at hM
    have hb : bincount ls 0 = (List.range (W + 1)).map (fun k => ls.count k) := by
      unfold bincount
      rw [hM, show max 0 (W + 1) = W + 1 by omega]
    rw [hb]
    apply List.ext_getElem?
    intro j
    simp only [List.getElem?_dropLast, cumsumFrom_length, List.length_map, List.length_range,
      Nat.add_sub_cancel, List.getElem?_map]
    by_cases hj : j < W
    · rw [if_pos hj, cumsumFrom_getElem? _ _ _ (by simp; omega), List.getElem?_range hj]
      simp only [Option.map_some, Option.some.injEq]
      rw [← List.map_take, sum_map_neg, ← List.map_take, List.take_range,
        Nat.min_eq_left (by omega), sum_count_range]
      have := countP_le_add_gt ls j
      omega
    · rw [if_neg hj, List.getElem?_eq_none (by simpa using hj)]
      rfl

end Model
