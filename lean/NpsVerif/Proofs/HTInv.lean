import NpsVerif.Model.HashTable
import NpsVerif.Gen.Bridge.ht_hash
import NpsVerif.Proofs.C01
import NpsVerif.Proofs.Scan
/-!
# HashTable: cells, flat positions, the table invariant, `findKey` correctness (C11 / C12)
-/
open Model Model.HT Np

namespace Proofs.HT
variable {α β : Type}

/-! ## the hash kernel: the only fact needed -/

theorem hashOf_lt (m : Nat) (k : Int) (hm : 0 < m) : hashOf m k < m := by
  unfold hashOf
  rw [Gen.Bridge.ht_hash_bridge _ _ (by omega)]
  unfold Gen.Ref.ht_hash
  have h1 := Int.fmod_lt_of_pos k (b := (m : Int)) (by omega)
  omega

/-! ## cells of a list of rows -/

/-- the cell at (row, offset) -/
def cellAt (rows : List (List α)) (loc : Nat × Nat) : Option α := (rows[loc.1]?).bind (·[loc.2]?)

theorem cellAt_eq_some {rows : List (List α)} {loc : Nat × Nat} {x : α} :
    cellAt rows loc = some x ↔ ∃ row, rows[loc.1]? = some row ∧ row[loc.2]? = some x := by
  simp [cellAt, Option.bind_eq_some_iff]

theorem cellAt_map (f : α → β) (rows : List (List α)) (loc : Nat × Nat) :
    cellAt (rows.map (·.map f)) loc = (cellAt rows loc).map f := by
  unfold cellAt
  cases h : rows[loc.1]? with
  | none => simp [h]
  | some row => simp [h]

/-- two lists of rows with the same row lengths have the same valid locations -/
theorem cellAt_isSome_of_shape {rows : List (List α)} {rows' : List (List β)}
    (hsh : rows'.map List.length = rows.map List.length) (loc : Nat × Nat) :
    (cellAt rows' loc).isSome = (cellAt rows loc).isSome := by
  unfold cellAt
  have h1 : (rows'[loc.1]?).map List.length = (rows[loc.1]?).map List.length := by
    rw [← List.getElem?_map, ← List.getElem?_map, hsh]
  cases h : rows[loc.1]? with
  | none =>
    cases h' : rows'[loc.1]? with
    | none => rfl
    | some r' => rw [h, h'] at h1; simp at h1
  | some r =>
    cases h' : rows'[loc.1]? with
    | none => rw [h, h'] at h1; simp at h1
    | some r' =>
      rw [h, h'] at h1
      simp only [Option.map_some, Option.some.injEq] at h1
      simp only [Option.bind_some]
      by_cases hlt : loc.2 < r.length
      · rw [List.getElem?_eq_getElem hlt, List.getElem?_eq_getElem (by omega)]; rfl
      · rw [List.getElem?_eq_none (by omega), List.getElem?_eq_none (by omega)]; rfl

/-- a cell write: `rows.modify h (·.set o x)` -/
theorem cellAt_write (rows : List (List α)) (h o : Nat) (x : α) (loc : Nat × Nat) :
    cellAt (rows.modify h (fun row => row.set o x)) loc =
      if loc = (h, o) then (cellAt rows loc).map (fun _ => x) else cellAt rows loc := by
  obtain ⟨h', o'⟩ := loc
  unfold cellAt
  simp only [List.getElem?_modify, Prod.mk.injEq]
  cases hr : rows[h']? with
  | none => simp
  | some row =>
    by_cases hh : h = h'
    · subst hh
      by_cases ho : o = o'
      · subst ho
        simp only [Option.map_eq_map, Option.map_some, if_true, Option.bind_some, List.getElem?_set,
          and_self]
        by_cases hlt : o < row.length
        · simp [hlt]
        · simp [hlt]
      · have ho' : ¬ o' = o := fun e => ho e.symm
        simp [ho, ho']
    · have hh' : ¬ h' = h := fun e => hh e.symm
      simp [hh, hh']

theorem shape_write (rows : List (List α)) (h o : Nat) (x : α) :
    (rows.modify h (fun row => row.set o x)).map List.length = rows.map List.length := by
  apply List.ext_getElem?
  intro i
  simp only [List.getElem?_map, List.getElem?_modify]
  cases rows[i]? with
  | none => rfl
  | some row => by_cases hh : h = i <;> simp [hh]

/-! ## flat positions -/

theorem flat_pos_aux (pre post : List (List α)) (row : List α) (o : Nat) (x : α) (hx : row[o]? = some x) :
    (pre ++ row :: post).flatten[pre.flatten.length + o]? = some x := by
  have ho : o < row.length := by
    rcases Nat.lt_or_ge o row.length with h1 | h1
    · exact h1
    · rw [List.getElem?_eq_none h1] at hx; cases hx
  rw [List.flatten_append, List.flatten_cons, List.getElem?_append_right (by omega),
    show pre.flatten.length + o - pre.flatten.length = o by omega, List.getElem?_append_left ho]
  exact hx

/-- FLAT POSITION: cell (h, o) of the rows is entry `starts[h] + o` of the flattened rows -/
theorem flat_pos {rows : List (List α)} {h o : Nat} {x : α} (hc : cellAt rows (h, o) = some x) :
    ∃ s, (exclScan (rows.map List.length))[h]? = some s ∧ rows.flatten[s + o]? = some x := by
  obtain ⟨row, hrow, hx⟩ := cellAt_eq_some.1 hc
  simp only at hrow hx
  have hlt : h < rows.length := by
    rcases Nat.lt_or_ge h rows.length with h1 | h1
    · exact h1
    · rw [List.getElem?_eq_none h1] at hrow; cases hrow
  refine ⟨((rows.map List.length).take h).sum, exclScan_getElem? _ _ (by simpa using hlt), ?_⟩
  have hsplit : rows = rows.take h ++ row :: rows.drop (h + 1) := by
    have h1 : rows[h] = row := by
      rw [List.getElem?_eq_getElem hlt] at hrow; exact Option.some.inj hrow
    rw [← h1, List.getElem_cons_drop, List.take_append_drop]
  have hlen : ((rows.map List.length).take h).sum = (rows.take h).flatten.length := by
    rw [List.length_flatten, List.map_take]
  rw [hlen]
  have key := flat_pos_aux (rows.take h) (rows.drop (h + 1)) row o x hx
  rw [← hsplit] at key
  exact key

theorem exclScan_shape {rows : List (List α)} {rows' : List (List β)}
    (hsh : rows'.map List.length = rows.map List.length) :
    exclScan (rows'.map List.length) = exclScan (rows.map List.length) := by rw [hsh]

/-- cutting a flat list of the right size: the cell (h, o) is entry `starts[h] + o` -/
theorem cutRows_shape (data : List α) (lens : List Nat) (hl : lens.sum ≤ data.length) :
    (cutRows data lens).map List.length = lens := by
  unfold cutRows exclScan
  exact cut_lengths data 0 lens (by omega)

theorem cutRows_flatten (data : List α) (lens : List Nat) (hl : data.length = lens.sum) :
    (cutRows data lens).flatten = data := by
  unfold cutRows exclScan
  rw [cut_flatten, List.drop_zero, ← hl, List.take_length]

theorem cutRows_of_rows (rows : List (List α)) : cutRows rows.flatten (rows.map List.length) = rows := by
  unfold cutRows exclScan
  simpa using rows_of_scan ([] : List α) rows

theorem cutRows_cell {data : List α} {lens : List Nat} (hl : data.length = lens.sum) {h o : Nat} {x : α}
    (hc : cellAt (cutRows data lens) (h, o) = some x) :
    ∃ s, (exclScan lens)[h]? = some s ∧ data[s + o]? = some x := by
  obtain ⟨s, hs, hx⟩ := flat_pos hc
  rw [cutRows_shape data lens (by omega)] at hs
  rw [cutRows_flatten data lens hl] at hx
  exact ⟨s, hs, hx⟩

/-! ## the invariant -/

/-- the invariant of a table built from the distinct keys `keys` -/
structure Inv {v : Type} (t : Table v) (keys : List Int) : Prop where
  nodup : keys.Nodup
  perm : t.buckets.flatten.Perm keys
  hash : ∀ (h : Nat) (row : List Int), t.buckets[h]? = some row → ∀ k ∈ row, hashOf t.mod k = h
  len : t.buckets.length = t.mod
  pos : 0 < t.mod
  shape : (filled t).map List.length = t.buckets.map List.length

variable {v : Type}

@[simp] theorem findKey_values (t : Table v) (x : Sum v (List (List v))) (q : Int) :
    findKey { t with values := x } q = findKey t q := rfl

/-- what `findKey` returns is a location of the key in its own bucket -/
theorem findKey_some {t : Table v} {q : Int} {loc : Nat × Nat} (h : findKey t q = some loc) :
    loc.1 = hashOf t.mod q ∧ cellAt t.buckets loc = some q := by
  unfold findKey at h
  simp only [Option.bind_eq_some_iff, Option.map_eq_some_iff] at h
  obtain ⟨row, hrow, o, ho, rfl⟩ := h
  refine ⟨rfl, ?_⟩
  obtain ⟨hlt, hget, _⟩ := List.idxOf?_eq_some_iff.1 ho
  apply cellAt_eq_some.2
  exact ⟨row, hrow, by simp only; rw [List.getElem?_eq_getElem hlt, hget]⟩

theorem mem_keys_of_cell {t : Table v} {keys : List Int} (inv : Inv t keys) {loc : Nat × Nat} {q : Int}
    (h : cellAt t.buckets loc = some q) : q ∈ keys := by
  obtain ⟨row, hrow, hx⟩ := cellAt_eq_some.1 h
  apply inv.perm.subset
  exact List.mem_flatten.2 ⟨row, List.mem_of_getElem? hrow, List.mem_of_getElem? hx⟩

theorem findKey_mem {t : Table v} {keys : List Int} (inv : Inv t keys) {q : Int} {loc : Nat × Nat}
    (h : findKey t q = some loc) : q ∈ keys := mem_keys_of_cell inv (findKey_some h).2

theorem findKey_of_mem {t : Table v} {keys : List Int} (inv : Inv t keys) {q : Int} (hq : q ∈ keys) :
    ∃ loc, findKey t q = some loc := by
  have h1 : q ∈ t.buckets.flatten := inv.perm.symm.subset hq
  obtain ⟨row, hrow, hqr⟩ := List.mem_flatten.1 h1
  obtain ⟨h, hh⟩ := List.mem_iff_getElem?.1 hrow
  have hhash := inv.hash h row hh q hqr
  unfold findKey
  simp only [hhash, hh, Option.bind_some]
  cases ho : row.idxOf? q with
  | none => exact absurd hqr (List.idxOf?_eq_none_iff.1 ho)
  | some o => exact ⟨(h, o), rfl⟩

theorem findKey_none {t : Table v} {keys : List Int} (inv : Inv t keys) {q : Int} (hq : q ∉ keys) :
    findKey t q = none := by
  cases h : findKey t q with
  | none => rfl
  | some loc => exact absurd (findKey_mem inv h) hq

theorem findKey_isSome {t : Table v} {keys : List Int} (inv : Inv t keys) (q : Int) :
    (findKey t q).isSome = decide (q ∈ keys) := by
  by_cases hq : q ∈ keys
  · obtain ⟨loc, hl⟩ := findKey_of_mem inv hq
    simp [hl, hq]
  · simp [findKey_none inv hq, hq]

/-- distinct keys live at distinct locations -/
theorem findKey_inj {t : Table v} {q q' : Int} {loc : Nat × Nat}
    (h : findKey t q = some loc) (h' : findKey t q' = some loc) : q = q' := by
  have h1 := (findKey_some h).2
  rw [(findKey_some h').2] at h1
  exact (Option.some.inj h1).symm

/-- the flat position of a location -/
def flatPos (t : Table v) (loc : Nat × Nat) : Option Nat :=
  ((exclScan (t.buckets.map List.length))[loc.1]?).map (· + loc.2)

theorem flatPos_some {t : Table v} {q : Int} {loc : Nat × Nat} (h : findKey t q = some loc) :
    ∃ p, flatPos t loc = some p ∧ t.buckets.flatten[p]? = some q := by
  obtain ⟨s, hs, hx⟩ := flat_pos (rows := t.buckets) (h := loc.1) (o := loc.2) (findKey_some h).2
  exact ⟨s + loc.2, by simp [flatPos, hs], hx⟩

theorem flatPos_key {t : Table v} {q : Int} {loc : Nat × Nat} {p : Nat} (h : findKey t q = some loc)
    (hp : flatPos t loc = some p) : t.buckets.flatten[p]? = some q := by
  obtain ⟨p', hp', hx⟩ := flatPos_some h
  rw [hp] at hp'
  cases hp'
  exact hx

/-- a valid location of the buckets is a valid location of the filled values -/
theorem filled_cell_isSome {t : Table v} {keys : List Int} (inv : Inv t keys) {q : Int} {loc : Nat × Nat}
    (h : findKey t q = some loc) : ∃ x, cellAt (filled t) loc = some x := by
  have h1 := cellAt_isSome_of_shape inv.shape loc
  rw [(findKey_some h).2] at h1
  exact Option.isSome_iff_exists.1 h1

/-- `valueAt` reads the filled values -/
theorem valueAt_eq {t : Table v} {q : Int} {loc : Nat × Nat}
    (h : findKey t q = some loc) : valueAt t loc = cellAt (filled t) loc := by
  unfold valueAt filled
  cases hv : t.values with
  | inl s =>
    simp only
    rw [cellAt_map, (findKey_some h).2]; rfl
  | inr vals => rfl

end Proofs.HT
