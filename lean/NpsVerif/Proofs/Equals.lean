import NpsVerif.Model.Equals
import NpsVerif.Proofs.C01
/-! Lemmas for `RaggedArray.equals` (property C01, part b). -/
namespace Model
open Np
variable {α : Type}

/-- the flat comparison (same length, all cells `eq`) decides list equality when `eq` decides equality -/
theorem flatEq_iff (eq : α → α → Bool) (heq : ∀ a b, eq a b = true ↔ a = b) (l1 l2 : List α) :
    (l1.length == l2.length && (List.zipWith eq l1 l2).all id) = true ↔ l1 = l2 := by
  induction l1 generalizing l2 with
  | nil => cases l2 <;> simp
  | cons x xs ih =>
    cases l2 with
    | nil => simp
    | cons y ys =>
      have := ih ys
      simp only [Bool.and_eq_true, beq_iff_eq] at this
      simp only [List.length_cons, List.zipWith_cons_cons, List.all_cons, id, Bool.and_eq_true, beq_iff_eq,
        Nat.add_right_cancel_iff, List.cons.injEq, heq]
      constructor
      · rintro ⟨h1, h2, h3⟩; exact ⟨h2, this.1 ⟨h1, h3⟩⟩
      · rintro ⟨h2, h3⟩
        obtain ⟨a, b⟩ := this.2 h3
        exact ⟨a, h2, b⟩

/-- `equals` is structural equality of the two arrays (buffer and codes) when `eq` decides equality -/
theorem equals_iff (eq : α → α → Bool) (heq : ∀ a b, eq a b = true ↔ a = b) (x y : RA α) :
    x.equals eq y = true ↔ x.data = y.data ∧ x.shape.codes = y.shape.codes := by
  unfold RA.equals
  rw [Bool.and_eq_true, flatEq_iff eq heq, beq_iff_eq]

/-- `RaggedArray(list_of_rows)` is injective: the flat buffer with the codes determines the rows -/
theorem ofRows_rows (rows : List (List α)) : (RA.ofRows rows).rows = rows := by
  have := rows_of_scan ([] : List α) rows
  simpa [RA.rows, RA.ofRows, ofLens_codes, exclScan] using this

theorem ofRows_inj (r1 r2 : List (List α))
    (hd : (RA.ofRows r1).data = (RA.ofRows r2).data)
    (hc : (RA.ofRows r1).shape.codes = (RA.ofRows r2).shape.codes) : r1 = r2 := by
  have h : (RA.ofRows r1).rows = (RA.ofRows r2).rows := by
    unfold RA.rows; rw [hd, hc]
  rwa [ofRows_rows, ofRows_rows] at h

end Model
