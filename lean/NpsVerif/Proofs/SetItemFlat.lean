import NpsVerif.Proofs.GetItem
import NpsVerif.Proofs.SetItemNat
/-! C03: reading through the flat positions `flatIndex` computes is `getitem` (any buffer), so on the
identity buffer `getitem` returns those positions. -/
namespace Model.SI
open Np Props.C02

/-- cells and kept shape of a result -/
def resInfo {β} (r : Res β) : List β × Option (List Nat) := (Py.resCells r, shapeOf r)

/-- gather through the positions of a resolved index, keep the shape information -/
def viaGather {α} (data : List α) (o : Option (List Int × Option (List Nat))) :
    Option (List α × Option (List Nat)) :=
  o.bind (fun fs => (gather data fs.1).map (fun ps => (ps, fs.2)))

theorem mapM_length {α β} (f : α → Option β) (l : List α) (ys : List β) (h : l.mapM f = some ys) :
    ys.length = l.length := by
  induction l generalizing ys with
  | nil => simp at h; subst h; rfl
  | cons x xs ih =>
    rw [mapM_cons'] at h
    cases hx : f x with
    | none => simp [hx] at h
    | some y =>
      cases hxs : xs.mapM f with
      | none => simp [hx, hxs] at h
      | some ys0 =>
        simp [hx, hxs] at h
        subst h
        simp [ih ys0 hxs]

theorem gather_length {α} (data : List α) (idx : List Int) (ys : List α) (h : gather data idx = some ys) :
    ys.length = idx.length := mapM_length _ _ _ h

theorem cutRows_of_length {α} (flat : List α) (lens : List Nat) (h : flat.length = lens.sum) :
    (cutRows flat lens).flatten = flat ∧ (cutRows flat lens).map List.length = lens := by
  unfold cutRows exclScan
  constructor
  · rw [cut_flatten, List.drop_zero, List.take_of_length_le (by omega)]
  · exact cut_lengths flat 0 lens (by omega)

theorem viewFlatIndices_length (cs : List (Nat × Nat)) :
    (viewFlatIndices cs).length = (cs.map (·.2)).sum := by
  rw [viewFlatIndices_eq, List.length_flatten, List.map_map]
  congr 1
  apply List.map_congr_left
  intro c _
  simp

theorem range_map_eq_prog (s l : Nat) :
    (List.range l).map (fun k => ((s + k : Nat) : Int)) = Py.prog (s : Int) 1 l := by
  induction l generalizing s with
  | zero => rfl
  | succ l ih =>
    rw [List.range_succ_eq_map, List.map_cons, List.map_map, Py.prog]
    have e : ((s : Nat) : Int) + 1 = ((s + 1 : Nat) : Int) := by simp
    rw [e, ← ih (s + 1)]
    congr 1
    apply List.map_congr_left
    intro k _
    simp only [Function.comp, Nat.succ_eq_add_one]
    congr 1
    omega

theorem gather_row {α} (data : List α) (s l : Nat) (h : s + l ≤ data.length) :
    gather data ((List.range l).map (fun k => ((s + k : Nat) : Int))) = some ((data.drop s).take l) := by
  rw [range_map_eq_prog, gather_in_range data]
  · rw [filterMap_prog_one data s l h]
  · intro i hi
    have := mem_prog_one s l i hi
    omega

section
variable {α : Type} (data : List α) (codes : List (Nat × Nat))

/-! ### one lemma per index form -/

theorem flat_rows_int (h : ∀ c ∈ codes, c.1 + c.2 ≤ data.length) (i : Int) :
    viaGather data ((getIdx codes i).map
        (fun c => ((List.range c.2).map (fun k => ((c.1 + k : Nat) : Int)), none)))
      = ((getIdx codes i).map (fun c => Res.vec ((data.drop c.1).take c.2))).map resInfo := by
  cases hg : getIdx codes i with
  | none => rfl
  | some c =>
    simp only [viaGather, Option.map_some, Option.bind_some]
    rw [gather_row data c.1 c.2 (h c (getIdx_mem hg))]
    rfl

theorem flat_rows_sel (sel : RowSel) :
    viaGather data ((indexRows codes sel).map (fun cs => (viewFlatIndices cs, some (cs.map (·.2)))))
      = ((indexRows codes sel).bind (fun cs => (materialiseView data cs).map Res.ragged)).map resInfo := by
  cases indexRows codes sel with
  | none => rfl
  | some cs =>
    simp only [viaGather, Option.map_some, Option.bind_some, materialiseView]
    cases hg : gather data (viewFlatIndices cs) with
    | none => rfl
    | some flat =>
      have hl := gather_length _ _ _ hg
      rw [viewFlatIndices_length] at hl
      obtain ⟨h1, h2⟩ := cutRows_of_length flat _ hl
      simp only [Option.map_some, resInfo, Py.resCells, shapeOf, h1, h2]

theorem flat_int_int (i j : Int) :
    viaGather data ((getElement codes [(i, j)]).map (fun l => (l, none)))
      = ((getElement codes [(i, j)]).bind (fun idx => (gather data idx).bind
          (fun l => l.head?.map Res.scalar))).map resInfo := by
  cases hge : getElement codes [(i, j)] with
  | none => rfl
  | some l =>
    simp only [viaGather, Option.map_some, Option.bind_some]
    cases hg : gather data l with
    | none => rfl
    | some ps =>
      have h1 : l.length = 1 := by
        unfold getElement at hge
        simpa using mapM_length _ _ _ hge
      have h2 := gather_length _ _ _ hg
      rw [h1] at h2
      match ps, h2 with
      | [p], _ => rfl

theorem flat_list_int (is : List Int) (j : Int) :
    viaGather data ((getElement codes (is.map (fun i => (i, j)))).map (fun l => (l, none)))
      = ((getElement codes (is.map (fun i => (i, j)))).bind (fun idx =>
          (gather data idx).map Res.vec)).map resInfo := by
  cases getElement codes (is.map (fun i => (i, j))) with
  | none => rfl
  | some l =>
    simp only [viaGather, Option.map_some, Option.bind_some]
    cases gather data l <;> rfl

theorem flat_sel_int (sel : RowSel) (j : Int) :
    viaGather data ((indexRows codes sel).bind (fun cs =>
        (colSliceInt (viewRows cs) j).map (fun rows => (view2FlatIndices rows, none))))
      = ((indexRows codes sel).bind (fun cs => (colSliceInt (viewRows cs) j).bind (fun rows =>
          (gather data (view2FlatIndices rows)).map Res.vec))).map resInfo := by
  cases indexRows codes sel with
  | none => rfl
  | some cs =>
    simp only [viaGather, Option.bind_some]
    cases colSliceInt (viewRows cs) j with
    | none => rfl
    | some rows =>
      simp only [Option.map_some, Option.bind_some]
      cases gather data (view2FlatIndices rows) <;> rfl

theorem flat_int_slice (i : Int) (x y k : Option Int) :
    viaGather data ((indexRows codes (.int i)).bind (fun cs =>
        (colSliceSlice (viewRows cs) x y k).map (fun rows => (view2FlatIndices rows, none))))
      = ((indexRows codes (.int i)).bind (fun cs => (colSliceSlice (viewRows cs) x y k).bind (fun rows =>
          (gather data (view2FlatIndices rows)).map Res.vec))).map resInfo := by
  cases indexRows codes (.int i) with
  | none => rfl
  | some cs =>
    simp only [viaGather, Option.bind_some]
    cases colSliceSlice (viewRows cs) x y k with
    | none => rfl
    | some rows =>
      simp only [Option.map_some, Option.bind_some]
      cases gather data (view2FlatIndices rows) <;> rfl

theorem view2FlatIndices_sliceRows_length (cs : List (Nat × Nat)) (x y k : Option Int) (hk : k ≠ some 0) :
    (view2FlatIndices (cs.map (fun c => sliceRow c x y k))).length
      = ((cs.map (fun c => sliceRow c x y k)).map (·.2.1.toNat)).sum := by
  rw [view2FlatIndices_eq _ (1 * k.getD 1)]
  · rw [List.length_flatten, List.map_map]
    congr 1
    apply List.map_congr_left
    intro r _
    simp
  · intro r hr
    obtain ⟨c, _, rfl⟩ := List.mem_map.mp hr
    exact sliceRow_step c x y k hk
  · intro r hr
    obtain ⟨c, _, rfl⟩ := List.mem_map.mp hr
    exact sliceRow_len_nonneg c x y k hk

theorem flat_sel_slice (sel : RowSel) (x y k : Option Int) :
    viaGather data ((indexRows codes sel).bind (fun cs =>
        (colSliceSlice (viewRows cs) x y k).map
          (fun rows => (view2FlatIndices rows, some (rows.map (·.2.1.toNat))))))
      = ((indexRows codes sel).bind (fun cs => (colSliceSlice (viewRows cs) x y k).bind (fun rows =>
          (materialiseView2 data rows).map Res.ragged))).map resInfo := by
  cases indexRows codes sel with
  | none => rfl
  | some cs =>
    simp only [viaGather, Option.bind_some, colSliceSlice_viewRows]
    by_cases hk : k = some 0
    · rw [if_pos hk]; rfl
    · rw [if_neg hk]
      simp only [Option.map_some, Option.bind_some, materialiseView2]
      cases hg : gather data (view2FlatIndices (cs.map (fun c => sliceRow c x y k))) with
      | none => rfl
      | some flat =>
        have hl := gather_length _ _ _ hg
        rw [view2FlatIndices_sliceRows_length cs x y k hk] at hl
        obtain ⟨h1, h2⟩ := cutRows_of_length flat _ hl
        simp only [Option.map_some, resInfo, Py.resCells, shapeOf, h1, h2]

/-! ### assembly -/

/-- gathering through the positions `flatIndex` computes = `getitem` -/
theorem flatIndex_getitem (h : ∀ c ∈ codes, c.1 + c.2 ≤ data.length) (idx : Index) :
    viaGather data (flatIndex codes idx) = (getitem ⟨data, ⟨codes⟩⟩ idx).map resInfo := by
  cases idx with
  | rows sel =>
    cases sel with
    | int i => simp only [flatIndex, getitem]; exact flat_rows_int data codes h i
    | slice a b k => simp only [flatIndex, getitem]; exact flat_rows_sel data codes _
    | list is => simp only [flatIndex, getitem]; exact flat_rows_sel data codes _
    | mask bs => simp only [flatIndex, getitem]; exact flat_rows_sel data codes _
    | all => simp only [flatIndex, getitem]; exact flat_rows_sel data codes _
  | rowcol sel col =>
    cases col with
    | int j =>
      cases sel with
      | int i => simp only [flatIndex, getitem]; exact flat_int_int data codes i j
      | list is => simp only [flatIndex, getitem]; exact flat_list_int data codes is j
      | slice a b k => simp only [flatIndex, getitem]; exact flat_sel_int data codes _ j
      | mask bs => simp only [flatIndex, getitem]; exact flat_sel_int data codes _ j
      | all => simp only [flatIndex, getitem]; exact flat_sel_int data codes _ j
    | slice x y k =>
      cases sel with
      | int i => simp only [flatIndex, getitem]; exact flat_int_slice data codes i x y k
      | list is => simp only [flatIndex, getitem]; exact flat_sel_slice data codes _ x y k
      | slice a b k' => simp only [flatIndex, getitem]; exact flat_sel_slice data codes _ x y k
      | mask bs => simp only [flatIndex, getitem]; exact flat_sel_slice data codes _ x y k
      | all => simp only [flatIndex, getitem]; exact flat_sel_slice data codes _ x y k

end

/-! ### the identity buffer -/

theorem getIdx_range (n : Nat) (i : Int) : getIdx (List.range n) i = normIdx n i := by
  unfold getIdx
  rw [List.length_range]
  cases hn : normIdx n i with
  | none => rfl
  | some m =>
    have := normIdx_lt hn
    simp [List.getElem?_range this]

theorem gather_range (n : Nat) (idx : List Int) : gather (List.range n) idx = idx.mapM (normIdx n) := by
  unfold gather
  apply mapM_congr
  intro i _
  exact getIdx_range n i

end Model.SI
