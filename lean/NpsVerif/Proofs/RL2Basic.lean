import NpsVerif.Model.RunLength2d
import NpsVerif.Proofs.GetItemSel
import NpsVerif.Proofs.RLBasic
/-!
# 2-D / ragged run-length arrays: generic lemmas about `row` and `toRows` (C17)

* `mapM_eq_some_iff`: an `Option`-`mapM` succeeds with `ys` iff the mapped list is `ys.map some`;
* `row_eq_zip`: a row is read from the zipped `(indices, values)` pair;
* `toRows_some_iff`: `toRows = some dense` iff `dense` has one entry per row and every row decodes
  to its entry;
* `toRows_eq_mapM_zip`: `toRows` as a `mapM` over the zipped rows (equal lengths).
-/
namespace Proofs.RL2
open Model Model.RL2

variable {α β γ : Type}

/-! ## `mapM` on `Option` -/

theorem mapM_eq_some_iff (f : β → Option γ) (l : List β) (ys : List γ) :
    l.mapM f = some ys ↔ l.map f = ys.map some := by
  induction l generalizing ys with
  | nil => cases ys <;> simp
  | cons x xs ih =>
    rw [mapM_cons']
    cases ys with
    | nil =>
      simp only [List.map_cons, List.map_nil, reduceCtorEq, iff_false]
      cases f x <;> simp
    | cons y ys =>
      simp only [List.map_cons, List.cons.injEq, ← ih]
      cases f x <;> simp
      cases xs.mapM f <;> simp [and_comm]

/-- `mapM` over the positions of a list = `mapM` over the list -/
theorem mapM_range_getElem? (F : β → Option γ) (l : List β) :
    (List.range l.length).mapM (fun i => l[i]?.bind F) = l.mapM F := by
  have h1 : (List.range l.length).map (fun i => l[i]?) = l.map some := by
    apply List.ext_getElem?
    intro i
    simp only [List.getElem?_map]
    by_cases hi : i < l.length
    · simp [hi]
    · simp [hi]
  have h2 := mapM_map (fun (o : Option β) => o.bind F) (fun i => l[i]?) (List.range l.length)
  rw [← h2, h1, mapM_map]
  simp

/-- pointwise reading of a successful `mapM` over `List.range` -/
theorem mapM_range_some_iff (n : Nat) (f : Nat → Option γ) (ys : List γ) :
    (List.range n).mapM f = some ys ↔ ys.length = n ∧ ∀ i, i < n → f i = ys[i]? := by
  rw [mapM_eq_some_iff]
  constructor
  · intro h
    have hl : ys.length = n := by
      have := congrArg List.length h
      simpa using this.symm
    refine ⟨hl, fun i hi => ?_⟩
    have := congrArg (·[i]?) h
    simp only [List.getElem?_map, List.getElem?_range hi, Option.map_some] at this
    rw [List.getElem?_eq_getElem (by omega)] at this ⊢
    simpa using this
  · rintro ⟨hl, h⟩
    apply List.ext_getElem?
    intro i
    simp only [List.getElem?_map]
    by_cases hi : i < n
    · rw [List.getElem?_range hi, Option.map_some, h i hi, List.getElem?_eq_getElem (by omega)]
      simp
    · rw [List.getElem?_eq_none (by simpa using Nat.le_of_not_lt hi),
        List.getElem?_eq_none (by omega)]
      simp

/-! ## `rowEvents`, `row` -/

/-- the events of a row, as a function of `rowLen` only -/
def evs (rl : Option Nat) (ix : List Nat) : List Nat :=
  match rl with
  | none => ix
  | some L => ix ++ [L]

theorem rowEvents_eq (r : RL2 α) (ix : List Nat) : r.rowEvents ix = evs r.rowLen ix := rfl

/-- reading one zipped row -/
def rowOf (rl : Option Nat) (p : List Nat × List α) : Option (RLA α) := RLA.mk? (evs rl p.1) p.2

theorem row_eq_zip (r : RL2 α) (i : Nat) :
    r.row i = (r.indices.zip r.values)[i]?.bind (rowOf r.rowLen) := by
  unfold row
  cases hz : (r.indices.zip r.values)[i]? with
  | none =>
    cases h1 : r.indices[i]? with
    | none => rfl
    | some ix =>
      cases h2 : r.values[i]? with
      | none => rfl
      | some vs =>
        have : (r.indices.zip r.values)[i]? = some (ix, vs) :=
          List.getElem?_zip_eq_some.mpr ⟨h1, h2⟩
        rw [hz] at this; exact absurd this (by simp)
  | some p =>
    obtain ⟨h1, h2⟩ := List.getElem?_zip_eq_some.mp hz
    rw [h1, h2]; rfl

theorem row_of_getElem? (r : RL2 α) (i : Nat) (ix : List Nat) (vs : List α)
    (h1 : r.indices[i]? = some ix) (h2 : r.values[i]? = some vs) :
    r.row i = RLA.mk? (evs r.rowLen ix) vs := by
  unfold row; rw [h1, h2]; rfl

/-- the constructor returns its arguments -/
theorem mk?_some {ev : List Nat} {vs : List α} {rla : RLA α} (h : RLA.mk? ev vs = some rla) :
    rla = ⟨ev, vs⟩ ∧ (RLA.mk ev vs).Valid := by
  unfold RLA.mk? at h
  split at h
  · rename_i hv
    exact ⟨(Option.some.inj h).symm, hv⟩
  · exact absurd h (by simp)

theorem mk?_of_valid {ev : List Nat} {vs : List α} (h : (RLA.mk ev vs).Valid) :
    RLA.mk? ev vs = some ⟨ev, vs⟩ := by
  unfold RLA.mk?; exact if_pos h

/-- a row that reads back is made of the stored boundaries and values -/
theorem row_some (r : RL2 α) (i : Nat) (rla : RLA α) (h : r.row i = some rla) :
    ∃ ix vs, r.indices[i]? = some ix ∧ r.values[i]? = some vs ∧
      rla = ⟨evs r.rowLen ix, vs⟩ ∧ (RLA.mk (evs r.rowLen ix) vs).Valid := by
  unfold row at h
  cases h1 : r.indices[i]? with
  | none => simp [h1] at h
  | some ix =>
    cases h2 : r.values[i]? with
    | none => simp [h1, h2] at h
    | some vs =>
      simp only [h1, h2] at h
      obtain ⟨e, hv⟩ := mk?_some h
      exact ⟨ix, vs, rfl, rfl, e, hv⟩

/-! ## `toRows` -/

theorem toRows_some_iff (r : RL2 α) (dense : List (List α)) :
    r.toRows = some dense ↔ dense.length = r.indices.length ∧
      ∀ i, i < r.indices.length → (r.row i).map RLA.decode = dense[i]? := by
  unfold toRows
  exact mapM_range_some_iff _ _ _

theorem toRows_length (r : RL2 α) (dense : List (List α)) (h : r.toRows = some dense) :
    dense.length = r.indices.length := ((toRows_some_iff r dense).mp h).1

/-- every row of a readable array reads back, and decodes to the dense row -/
theorem toRows_row (r : RL2 α) (dense : List (List α)) (h : r.toRows = some dense) (i : Nat)
    (hi : i < dense.length) :
    ∃ rla, r.row i = some rla ∧ dense[i]? = some rla.decode := by
  obtain ⟨hl, hr⟩ := (toRows_some_iff r dense).mp h
  have := hr i (by omega)
  rw [List.getElem?_eq_getElem hi] at this
  cases hrow : r.row i with
  | none => simp [hrow] at this
  | some rla =>
    rw [hrow] at this
    simp only [Option.map_some, Option.some.injEq] at this
    exact ⟨rla, rfl, by rw [List.getElem?_eq_getElem hi, this]⟩

/-- `toRows` as a `mapM` over the zipped rows -/
theorem toRows_eq_mapM_zip (r : RL2 α) (hl : r.indices.length = r.values.length) :
    r.toRows = (r.indices.zip r.values).mapM (fun p => (rowOf r.rowLen p).map RLA.decode) := by
  unfold toRows
  have hn : r.indices.length = (r.indices.zip r.values).length := by
    rw [List.length_zip, ← hl, Nat.min_self]
  rw [← mapM_range_getElem? _ (r.indices.zip r.values), ← hn]
  apply mapM_congr
  intro i _
  rw [row_eq_zip, Option.map_bind]
  rfl

/-- an array given by two maps over the same list -/
theorem toRows_of_maps (L : List β) (f : β → List Nat) (g : β → List α) (rl : Option Nat) :
    (RL2.mk (L.map f) (L.map g) rl).toRows =
      L.mapM (fun a => (RLA.mk? (evs rl (f a)) (g a)).map RLA.decode) := by
  rw [toRows_eq_mapM_zip _ (by simp)]
  simp only [List.zip_map, mapM_map]
  have : L.zip L = L.map (fun a => (a, a)) := by
    rw [List.zip_eq_zipWith, List.zipWith_self]
  rw [this, mapM_map]
  rfl

theorem row_of_maps (L : List β) (f : β → List Nat) (g : β → List α) (rl : Option Nat) (i : Nat) :
    (RL2.mk (L.map f) (L.map g) rl).row i = L[i]?.bind (fun a => RLA.mk? (evs rl (f a)) (g a)) := by
  unfold row
  simp only [List.getElem?_map]
  cases L[i]? <;> rfl

end Proofs.RL2
