import NpsVerif.Proofs.HTSim
/-!
# HashTable ⊑ dictionary: `items` and `Counter.count`, and the step / run simulation (C11 / C12)
-/
open Model Model.HT Np

namespace Proofs.HT
open Spec

variable {keys : List Int} {t : Table Int} {d : Dict Int}

/-! ## items -/

theorem flatten_length_shape {α β : Type} {rows : List (List α)} {rows' : List (List β)}
    (hsh : rows'.map List.length = rows.map List.length) : rows'.flatten.length = rows.flatten.length := by
  rw [List.length_flatten, List.length_flatten, hsh]

theorem items_keys (inv : Inv t keys) : (items t).map (·.1) = t.buckets.flatten := by
  unfold items
  exact List.map_fst_zip (by rw [flatten_length_shape inv.shape]; exact Nat.le_refl _)

/-- the pair (key, its cell) sits in `items`, at the key's flat position -/
theorem items_getElem (inv : Inv t keys) {k : Int} {loc : Nat × Nat} {x : Int} (hl : findKey t k = some loc)
    (hx : cellAt (filled t) loc = some x) :
    ∃ p, flatPos t loc = some p ∧ t.buckets.flatten[p]? = some k ∧ (filled t).flatten[p]? = some x := by
  obtain ⟨p, hp, hk⟩ := flatPos_some hl
  refine ⟨p, hp, hk, ?_⟩
  obtain ⟨s, hs, hxs⟩ := flat_pos (rows := filled t) (h := loc.1) (o := loc.2) hx
  rw [inv.shape] at hs
  simp only [flatPos, hs, Option.map_some, Option.some.injEq] at hp
  rw [← hp]
  exact hxs

theorem items_lookup (r : R keys t d) (k : Int) : Dict.lookup (items t) k = Dict.lookup d k := by
  have hk := items_keys r.inv
  by_cases hq : k ∈ keys
  · obtain ⟨loc, hl⟩ := findKey_of_mem r.inv hq
    obtain ⟨x, hx⟩ := filled_cell_isSome r.inv hl
    obtain ⟨p, _, h1, h2⟩ := items_getElem r.inv hl hx
    have hmem : (k, x) ∈ items t := by
      apply List.mem_of_getElem? (i := p)
      unfold items
      exact List.getElem?_zip_eq_some.2 ⟨h1, h2⟩
    have hnd : ((items t).map (·.1)).Nodup := by
      rw [hk]; exact (r.inv.perm.nodup_iff).2 r.inv.nodup
    rw [(Dict.mem_iff_lookup hnd k x).1 hmem, ← r.cell hl, hx]
  · rw [Dict.lookup_none (by rw [hk]; exact fun h => hq (r.inv.perm.subset h)),
      Dict.lookup_none (by rw [r.keys_eq]; exact hq)]

theorem items_perm (r : R keys t d) : (items t).Perm d := by
  apply Dict.perm_of_lookup _ r.dnodup (items_lookup r)
  rw [items_keys r.inv]
  exact (r.inv.perm.nodup_iff).2 r.inv.nodup

theorem sim_items (r : R keys t d) : sortPairs (items t) = sortPairs d := by
  apply Dict.sortPairs_perm _ (items_perm r)
  rw [items_keys r.inv]
  exact (r.inv.perm.nodup_iff).2 r.inv.nodup

/-! ## count -/

/-- samples whose bucket is not empty -/
def nonEmptyBucket (t : Table Int) (s : Int) : Bool :=
  ((t.buckets[hashOf t.mod s]?).map (fun r => !r.isEmpty)).getD false

/-- the locations of the samples that are keys -/
def hits (t : Table Int) (samples : List Int) : List (Nat × Nat) :=
  (samples.filter (nonEmptyBucket t)).filterMap (findKey t)

/-- the histogram of the hit positions -/
def histo (t : Table Int) (samples : List Int) : List Int :=
  (List.range (t.buckets.map List.length).sum).map
    (fun p => ((((hits t samples).filterMap (flatPos t)).count p : Nat) : Int))

theorem count_eq (t : Table Int) (samples : List Int) :
    count t samples = if (hits t samples).isEmpty then t else
      { t with values := .inr (cutRows (List.zipWith (· + ·) (filled t).flatten (histo t samples))
          (t.buckets.map List.length)) } := by
  obtain ⟨b, vals, m⟩ := t
  cases vals with
  | inr vals => rfl
  | inl s =>
    have hflat : (filled (⟨b, .inl s, m⟩ : Table Int)).flatten = List.replicate (b.map List.length).sum s := by
      simp only [filled]
      induction b with
      | nil => rfl
      | cons row b ih =>
        rw [List.map_cons, List.flatten_cons, ih, List.map_cons, List.sum_cons,
          ← List.replicate_append_replicate, List.map_const']
    rw [hflat]
    rfl

theorem nonEmptyBucket_of_findKey {k : Int} {loc : Nat × Nat} (hl : findKey t k = some loc) :
    nonEmptyBucket t k = true := by
  obtain ⟨h1, h2⟩ := findKey_some hl
  obtain ⟨row, hrow, hx⟩ := cellAt_eq_some.1 h2
  unfold nonEmptyBucket
  rw [← h1, hrow]
  cases row with
  | nil => simp at hx
  | cons a row => rfl

theorem hits_cons (s : Int) (samples : List Int) :
    hits t (s :: samples) =
      if nonEmptyBucket t s = true then
        (match findKey t s with | some l => l :: hits t samples | none => hits t samples)
      else hits t samples := by
  unfold hits
  by_cases hb : nonEmptyBucket t s = true
  · rw [List.filter_cons_of_pos hb, List.filterMap_cons, if_pos hb]
    cases findKey t s <;> rfl
  · rw [List.filter_cons_of_neg hb, if_neg hb]

/-- COUNTING: the number of hits at the flat position of key `k` is the number of samples equal to `k` -/
theorem count_hits {k : Int} {loc : Nat × Nat} {p : Nat} (hl : findKey t k = some loc)
    (hp : flatPos t loc = some p) (samples : List Int) :
    ((hits t samples).filterMap (flatPos t)).count p = samples.count k := by
  induction samples with
  | nil => rfl
  | cons s samples ih =>
    rw [hits_cons]
    by_cases hs : s = k
    · subst hs
      rw [if_pos (nonEmptyBucket_of_findKey hl), hl]
      simp only [List.filterMap_cons, hp, List.count_cons_self, ih]
    · have hne : (s == k) = false := by simpa using hs
      rw [List.count_cons, hne, ← ih]
      simp only [Bool.false_eq_true, if_false, Nat.add_zero]
      split
      · cases hfs : findKey t s with
        | none => rfl
        | some l =>
          simp only [List.filterMap_cons]
          cases hpl : flatPos t l with
          | none => rfl
          | some p' =>
            simp only
            rw [List.count_cons]
            have : (p' == p) = false := by
              simp only [beq_eq_false_iff_ne, ne_eq]
              intro e
              subst e
              have h1 := flatPos_key hfs hpl
              rw [flatPos_key hl hp] at h1
              exact hs (Option.some.inj h1).symm
            simp [this]
      · rfl

theorem hits_nonempty {k : Int} {loc : Nat × Nat} (hl : findKey t k = some loc) {samples : List Int}
    (hk : k ∈ samples) : (hits t samples).isEmpty = false := by
  have : loc ∈ hits t samples := by
    unfold hits
    apply List.mem_filterMap.2
    exact ⟨k, List.mem_filter.2 ⟨hk, nonEmptyBucket_of_findKey hl⟩, hl⟩
  cases h : hits t samples with
  | nil => rw [h] at this; cases this
  | cons a l => rfl

theorem sim_count (r : R keys t d) (samples : List Int) :
    R keys (count t samples) (d.map (fun p => (p.1, p.2 + ((samples.count p.1 : Nat) : Int)))) := by
  have hkeys := Dict.keys_mapval d (fun k y => y + ((samples.count k : Nat) : Int))
  have hlook := Dict.lookup_mapval d (fun k y => y + ((samples.count k : Nat) : Int))
  rw [count_eq]
  by_cases he : (hits t samples).isEmpty = true
  · rw [if_pos he]
    refine ⟨r.inv, by rw [hkeys]; exact r.keys_eq, ?_⟩
    intro k loc hl
    rw [hlook, r.cell hl]
    have hc : samples.count k = 0 := by
      apply List.count_eq_zero.2
      intro hk
      rw [hits_nonempty hl hk] at he
      cases he
    rw [hc]
    cases Dict.lookup d k <;> simp
  · rw [if_neg he]
    have hlen1 : (filled t).flatten.length = (t.buckets.map List.length).sum := by
      rw [List.length_flatten, r.inv.shape]
    have hlen2 : (histo t samples).length = (t.buckets.map List.length).sum := by
      simp [histo]
    have hlen : (List.zipWith (· + ·) (filled t).flatten (histo t samples)).length
        = (t.buckets.map List.length).sum := by
      rw [List.length_zipWith, hlen1, hlen2, Nat.min_self]
    have hshape := cutRows_shape (List.zipWith (· + ·) (filled t).flatten (histo t samples))
      (t.buckets.map List.length) (by omega)
    refine ⟨Inv.withCells r.inv _ hshape, by rw [hkeys]; exact r.keys_eq, ?_⟩
    intro k loc hl
    have hl' : findKey t k = some loc := hl
    show cellAt (cutRows _ _) loc = _
    rw [hlook, ← r.cell hl']
    obtain ⟨x, hx⟩ := filled_cell_isSome r.inv hl'
    obtain ⟨p, hp, hpk, hpx⟩ := items_getElem r.inv hl' hx
    -- the new cell exists
    have hsome := cellAt_isSome_of_shape (rows := t.buckets) hshape loc
    rw [(findKey_some hl').2] at hsome
    obtain ⟨y, hy⟩ := Option.isSome_iff_exists.1 hsome
    obtain ⟨s, hs, hys⟩ := cutRows_cell (h := loc.1) (o := loc.2) hlen hy
    have hps : p = s + loc.2 := by
      simp only [flatPos, hs, Option.map_some, Option.some.injEq] at hp
      exact hp.symm
    rw [← hps] at hys
    have hplt : p < (t.buckets.map List.length).sum := by
      rw [← hlen1]
      rcases Nat.lt_or_ge p (filled t).flatten.length with h1 | h1
      · exact h1
      · rw [List.getElem?_eq_none h1] at hpx; cases hpx
    have hh : (histo t samples)[p]? = some ((samples.count k : Nat) : Int) := by
      unfold histo
      rw [List.getElem?_map, List.getElem?_range hplt, Option.map_some, count_hits hl' hp]
    rw [List.getElem?_zipWith, hpx, hh] at hys
    rw [hy, hx]
    simp only [Option.some.injEq] at hys
    simp [← hys]

/-! ## one step, and whole histories -/

/-- SIMULATION: every operation (a single-key lookup must ask for a present key) keeps the relation
and produces the same observation -/
theorem sim_step (r : R keys t d) (op : Op) (hwf : ∀ k, op = .get1 k → k ∈ keys) :
    R keys (step t op).1 (Dict.step d op).1 ∧ (step t op).2 = (Dict.step d op).2 := by
  cases op with
  | get1 k => exact ⟨r, by simp only [step, Dict.step]; rw [sim_get1 r k (hwf k rfl)]⟩
  | getVec ks => exact ⟨r, by simp only [step, Dict.step]; rw [sim_getVec r ks]⟩
  | setScalar ks x => exact sim_setScalar r ks x
  | setEach ks xs => exact sim_setEach r ks xs
  | fill x => exact ⟨sim_fill r x, rfl⟩
  | contains ks => exact ⟨r, by simp only [step, Dict.step]; rw [sim_contains r ks]⟩
  | items => exact ⟨r, by simp only [step, Dict.step]; rw [sim_items r]⟩
  | count s => exact ⟨sim_count r s, rfl⟩

theorem sim_run (ops : List Op) : ∀ (t : Table Int) (d : Dict Int), R keys t d →
    (∀ op ∈ ops, ∀ k, op = .get1 k → k ∈ keys) → Model.HT.run t ops = Dict.run d ops := by
  induction ops with
  | nil => intro t d _ _; rfl
  | cons op ops ih =>
    intro t d r hwf
    obtain ⟨r', hobs⟩ := sim_step r op (hwf op (by simp))
    simp only [Model.HT.run, Dict.run]
    rw [hobs, ih _ _ r' (fun op' h => hwf op' (List.mem_cons_of_mem _ h))]

/-- the relation after a whole history (for properties about the final state) -/
def runState (t : Table Int) : List Op → Table Int
  | [] => t
  | op :: rest => runState (step t op).1 rest

def Dict.runState (d : Dict Int) : List Op → Dict Int
  | [] => d
  | op :: rest => Dict.runState (Dict.step d op).1 rest

theorem sim_runState (ops : List Op) : ∀ (t : Table Int) (d : Dict Int), R keys t d →
    (∀ op ∈ ops, ∀ k, op = .get1 k → k ∈ keys) → R keys (runState t ops) (Dict.runState d ops) := by
  induction ops with
  | nil => intro t d r _; exact r
  | cons op ops ih =>
    intro t d r hwf
    exact ih _ _ (sim_step r op (hwf op (by simp))).1 (fun op' h => hwf op' (List.mem_cons_of_mem _ h))

end Proofs.HT
