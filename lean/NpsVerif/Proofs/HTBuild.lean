import NpsVerif.Proofs.HTSim
/-!
# HashTable construction: sorted keys cut at the hash counts are the hash classes (C11)
-/
open Model Model.HT Np

namespace Proofs.HT
open Spec
variable {α β : Type}

/-! ## reordering by a permutation of the positions -/

theorem range_filterMap_getElem? (l : List α) : (List.range l.length).filterMap (l[·]?) = l := by
  induction l with
  | nil => rfl
  | cons a l ih =>
    rw [List.length_cons, List.range_succ_eq_map, List.filterMap_cons]
    simp only [List.getElem?_cons_zero, List.filterMap_map]
    congr 1

theorem reorder_perm (l : List α) (args : List Nat) (hp : args.Perm (List.range l.length)) :
    (args.filterMap (l[·]?)).Perm l := by
  have := hp.filterMap (l[·]?)
  rwa [range_filterMap_getElem?] at this

theorem reorder_map (f : α → β) (l : List α) (args : List Nat) :
    args.filterMap ((l.map f)[·]?) = (args.filterMap (l[·]?)).map f := by
  induction args with
  | nil => rfl
  | cons i args ih =>
    simp only [List.filterMap_cons, List.getElem?_map]
    cases l[i]? with
    | none => simpa using ih
    | some a => simpa using ih

theorem reorder_zip_fst (l : List α) (vs : List β) (hl : vs.length = l.length) (args : List Nat) :
    (args.filterMap ((l.zip vs)[·]?)).map (·.1) = args.filterMap (l[·]?) := by
  rw [← reorder_map]
  congr 1
  funext i
  rw [List.map_fst_zip (by omega)]

theorem reorder_zip_snd (l : List α) (vs : List β) (hl : vs.length = l.length) (args : List Nat) :
    (args.filterMap ((l.zip vs)[·]?)).map (·.2) = args.filterMap (vs[·]?) := by
  rw [← reorder_map]
  congr 1
  funext i
  rw [List.map_snd_zip (by omega)]

theorem filterMap_eq_map_of {f : α → Option β} {g : α → β} (l : List α) (h : ∀ a ∈ l, f a = some (g a)) :
    l.filterMap f = l.map g := by
  induction l with
  | nil => rfl
  | cons a l ih =>
    rw [List.filterMap_cons, h a (by simp), List.map_cons, ih (fun b hb => h b (List.mem_cons_of_mem _ hb))]

/-- the stable argsort is a permutation of the positions that sorts the list -/
theorem stableArgsort_facts (hashes : List Nat) :
    (stableArgsort hashes).Perm (List.range hashes.length) ∧
      ((stableArgsort hashes).filterMap (hashes[·]?)).Pairwise (· ≤ ·) := by
  unfold stableArgsort
  have hperm := List.mergeSort_perm hashes.zipIdx (fun a b => decide (a.1 ≤ b.1))
  have hsorted := List.pairwise_mergeSort (le := fun (a b : Nat × Nat) => decide (a.1 ≤ b.1))
    (by intro a b c; simp only [decide_eq_true_eq]; omega)
    (by intro a b; simp only [Bool.or_eq_true, decide_eq_true_eq]; omega) hashes.zipIdx
  constructor
  · have := hperm.map (·.2)
    rwa [List.zipIdx_map_snd, ← List.range_eq_range'] at this
  · rw [List.filterMap_map, filterMap_eq_map_of (g := (·.1)), List.pairwise_map]
    · exact hsorted.imp (by intro a b h; simpa using h)
    · intro p hp
      exact List.mem_zipIdx_iff_getElem?.1 (hperm.subset hp)

/-! ## a sorted list is the concatenation of its classes -/

theorem sorted_min_split (f : α → Nat) (lo : Nat) (l : List α) (hs : (l.map f).Pairwise (· ≤ ·))
    (hlo : ∀ a ∈ l, lo ≤ f a) :
    l = l.filter (fun a => f a == lo) ++ l.filter (fun a => f a != lo) := by
  induction l with
  | nil => rfl
  | cons a l ih =>
    simp only [List.map_cons, List.pairwise_cons] at hs
    have ih' := ih hs.2 (fun b hb => hlo b (List.mem_cons_of_mem _ hb))
    by_cases ha : f a = lo
    · rw [List.filter_cons_of_pos (by simp [ha]), List.filter_cons_of_neg (by simp [ha]),
        List.cons_append, ← ih']
    · have hall : ∀ b ∈ l, f b ≠ lo := by
        intro b hb
        have h1 := hs.1 (f b) (List.mem_map.2 ⟨b, hb, rfl⟩)
        have h2 := hlo a (by simp)
        omega
      rw [List.filter_cons_of_neg (by simp [ha]), List.filter_cons_of_pos (by simp [ha])]
      rw [List.filter_eq_nil_iff.2 (by intro b hb; simpa using hall b hb),
        List.filter_eq_self.2 (by intro b hb; simpa using hall b hb)]
      rfl

/-- the classes of `l` under `f`, for the values `lo, lo+1, …, lo+m-1` -/
def groupRowsFrom (f : α → Nat) (lo m : Nat) (l : List α) : List (List α) :=
  (List.range m).map (fun h => l.filter (fun a => f a == lo + h))

theorem sorted_rows (f : α → Nat) (m : Nat) : ∀ (lo : Nat) (l : List α), (l.map f).Pairwise (· ≤ ·) →
    (∀ a ∈ l, lo ≤ f a ∧ f a < lo + m) → l = (groupRowsFrom f lo m l).flatten := by
  induction m with
  | zero =>
    intro lo l _ hb
    cases l with
    | nil => rfl
    | cons a l => have := hb a (by simp); omega
  | succ m ih =>
    intro lo l hs hb
    have hsplit := sorted_min_split f lo l hs (fun a ha => (hb a ha).1)
    have hsub : (l.filter (fun a => f a != lo)).map f |>.Sublist (l.map f) :=
      List.Sublist.map f List.filter_sublist
    have ih2 := ih (lo + 1) (l.filter (fun a => f a != lo)) (hs.sublist hsub) (by
      intro a ha
      obtain ⟨ha1, ha2⟩ := List.mem_filter.1 ha
      have := hb a ha1
      have hne : f a ≠ lo := by simpa using ha2
      omega)
    unfold groupRowsFrom at ih2 ⊢
    rw [List.range_succ_eq_map, List.map_cons, List.map_map, List.flatten_cons]
    have hrows : (List.range m).map ((fun h => l.filter (fun a => f a == lo + h)) ∘ Nat.succ)
        = (List.range m).map (fun h => (l.filter (fun a => f a != lo)).filter (fun a => f a == lo + 1 + h)) := by
      apply List.map_congr_left
      intro h _
      simp only [Function.comp, List.filter_filter]
      apply List.filter_congr
      intro a _
      rw [show lo + (h + 1) = lo + 1 + h by omega]
      by_cases hfa : f a = lo + 1 + h
      · have : ¬ lo + 1 + h = lo := by omega
        simp [hfa, this]
      · simp [hfa]
    rw [hrows, ← ih2, Nat.add_zero]
    exact hsplit

/-- the classes of `l` under `f`, for the values `0 … m-1` -/
def groupRows (f : α → Nat) (m : Nat) (l : List α) : List (List α) :=
  (List.range m).map (fun h => l.filter (fun a => f a == h))

theorem groupRows_eq (f : α → Nat) (m : Nat) (l : List α) : groupRows f m l = groupRowsFrom f 0 m l := by
  unfold groupRows groupRowsFrom
  apply List.map_congr_left
  intro h _
  simp

theorem groupRows_flatten (f : α → Nat) (m : Nat) (l : List α) (hs : (l.map f).Pairwise (· ≤ ·))
    (hb : ∀ a ∈ l, f a < m) : (groupRows f m l).flatten = l := by
  rw [groupRows_eq]
  exact (sorted_rows f m 0 l hs (fun a ha => ⟨Nat.zero_le _, by have := hb a ha; omega⟩)).symm

theorem groupRows_lengths (f : α → Nat) (m : Nat) (l : List α) :
    (groupRows f m l).map List.length = (List.range m).map (fun h => (l.map f).count h) := by
  unfold groupRows
  rw [List.map_map]
  apply List.map_congr_left
  intro h _
  simp only [Function.comp]
  rw [List.count_eq_countP, List.countP_map, List.countP_eq_length_filter]
  rfl

theorem groupRows_map (g : α → β) (f : β → Nat) (m : Nat) (l : List α) :
    groupRows f m (l.map g) = (groupRows (f ∘ g) m l).map (·.map g) := by
  unfold groupRows
  rw [List.map_map]
  apply List.map_congr_left
  intro h _
  simp only [Function.comp, List.filter_map]
  rfl

/-- CUT: cutting a sorted list at the counts of the values gives the classes -/
theorem cutRows_sorted (f : α → Nat) (m : Nat) (l : List α) (hs : (l.map f).Pairwise (· ≤ ·))
    (hb : ∀ a ∈ l, f a < m) :
    cutRows l ((List.range m).map (fun h => (l.map f).count h)) = groupRows f m l := by
  rw [← groupRows_lengths]
  conv => lhs; arg 1; rw [← groupRows_flatten f m l hs hb]
  exact cutRows_of_rows _

theorem groupRows_getElem? (f : α → Nat) (m : Nat) (l : List α) {h : Nat} {row : List α}
    (hr : (groupRows f m l)[h]? = some row) : h < m ∧ row = l.filter (fun a => f a == h) := by
  unfold groupRows at hr
  rw [List.getElem?_map] at hr
  by_cases hlt : h < m
  · rw [List.getElem?_range hlt] at hr
    exact ⟨hlt, (Option.some.inj hr).symm⟩
  · rw [List.getElem?_eq_none (by simpa using hlt)] at hr
    cases hr

theorem cutRows_sorted_map (g : α → β) (f : α → Nat) (m : Nat) (l : List α) (hs : (l.map f).Pairwise (· ≤ ·))
    (hb : ∀ a ∈ l, f a < m) :
    cutRows (l.map g) ((List.range m).map (fun h => (l.map f).count h)) = (groupRows f m l).map (·.map g) := by
  rw [← groupRows_lengths]
  have h1 : l.map g = ((groupRows f m l).map (·.map g)).flatten := by
    rw [← List.map_flatten, groupRows_flatten f m l hs hb]
  have h2 : (groupRows f m l).map List.length = ((groupRows f m l).map (·.map g)).map List.length := by
    rw [List.map_map]
    apply List.map_congr_left
    intro row _
    simp
  rw [h2]
  conv => lhs; arg 1; rw [h1]
  exact cutRows_of_rows _

/-! ## the constructor -/

section build
variable (keys : List Int) (mod : Nat) (args : List Nat)

/-- the reordered keys -/
def sortedKeys : List Int := args.filterMap (keys[·]?)

theorem build_unfold {v : Type} (vals : Sum v (List v))
    (hsum : ((List.range mod).map (fun h => (args.filterMap ((keys.map (hashOf mod))[·]?)).count h)).sum
      = (sortedKeys keys args).length) :
    build keys vals mod args = some ⟨cutRows (sortedKeys keys args)
        ((List.range mod).map (fun h => (args.filterMap ((keys.map (hashOf mod))[·]?)).count h)),
      (match vals with
        | .inl s => .inl s
        | .inr vs => .inr (cutRows (args.filterMap (vs[·]?))
            ((List.range mod).map (fun h => (args.filterMap ((keys.map (hashOf mod))[·]?)).count h)))),
      mod⟩ := by
  unfold sortedKeys at hsum
  cases vals <;> (unfold build sortedKeys; simp only [hsum, ne_eq, not_true_eq_false, if_false])

/-- the hypotheses of the constructor theorems: positive modulus, `args` sorts the hashes -/
structure SortedArgs : Prop where
  hm : 0 < mod
  hp : args.Perm (List.range (keys.map (hashOf mod)).length)
  hsorted : (args.filterMap ((keys.map (hashOf mod))[·]?)).Pairwise (· ≤ ·)

variable (H : SortedArgs keys mod args)
include H

theorem sortedKeys_perm : (sortedKeys keys args).Perm keys :=
  reorder_perm keys args (by simpa using H.hp)

theorem sortedKeys_sorted : ((sortedKeys keys args).map (hashOf mod)).Pairwise (· ≤ ·) := by
  unfold sortedKeys
  rw [← reorder_map]
  exact H.hsorted

theorem build_sum : ((List.range mod).map (fun h => (args.filterMap ((keys.map (hashOf mod))[·]?)).count h)).sum
      = (sortedKeys keys args).length := by
  rw [reorder_map, ← groupRows_lengths, ← List.length_flatten]
  show (groupRows (hashOf mod) mod (sortedKeys keys args)).flatten.length = _
  rw [groupRows_flatten _ _ _ (sortedKeys_sorted keys mod args H) (fun a _ => hashOf_lt mod a H.hm)]

theorem build_inl {v : Type} (s : v) :
    build keys (.inl s) mod args = some ⟨groupRows (hashOf mod) mod (sortedKeys keys args), .inl s, mod⟩ := by
  rw [build_unfold keys mod args _ (build_sum keys mod args H)]
  simp only [reorder_map]
  rw [show args.filterMap (keys[·]?) = sortedKeys keys args from rfl,
    cutRows_sorted _ _ _ (sortedKeys_sorted keys mod args H) (fun a _ => hashOf_lt mod a H.hm)]

/-- the reordered (key, value) pairs -/
def sortedPairs {v : Type} (keys : List Int) (vs : List v) (args : List Nat) : List (Int × v) :=
  args.filterMap ((keys.zip vs)[·]?)

theorem build_inr {v : Type} (vs : List v) (hl : vs.length = keys.length) :
    build keys (.inr vs) mod args = some ⟨groupRows (hashOf mod) mod (sortedKeys keys args),
      .inr ((groupRows (fun p => hashOf mod p.1) mod (sortedPairs keys vs args)).map (·.map (·.2))), mod⟩ := by
  rw [build_unfold keys mod args _ (build_sum keys mod args H)]
  simp only [reorder_map]
  have hks : args.filterMap (keys[·]?) = sortedKeys keys args := rfl
  have hsk := sortedKeys_sorted keys mod args H
  rw [hks, cutRows_sorted _ _ _ hsk (fun a _ => hashOf_lt mod a H.hm)]
  have h1 : sortedKeys keys args = (sortedPairs keys vs args).map (·.1) :=
    (reorder_zip_fst keys vs hl args).symm
  have h2 : args.filterMap (vs[·]?) = (sortedPairs keys vs args).map (·.2) :=
    (reorder_zip_snd keys vs hl args).symm
  have h3 : (sortedKeys keys args).map (hashOf mod) = (sortedPairs keys vs args).map (fun p => hashOf mod p.1) := by
    rw [h1, List.map_map]; rfl
  rw [h2, h3, cutRows_sorted_map (α := Int × v) (fun p => p.2) (fun p => hashOf mod p.1) mod _ (by rw [← h3]; exact hsk)
    (fun a _ => hashOf_lt mod a.1 H.hm)]

/-- the invariant of a freshly built table, whatever its (well-shaped) values -/
theorem inv_group {v : Type} (hnd : keys.Nodup) (vals : Sum v (List (List v)))
    (hsh : (filled (⟨groupRows (hashOf mod) mod (sortedKeys keys args), vals, mod⟩ : Table v)).map List.length
      = (groupRows (hashOf mod) mod (sortedKeys keys args)).map List.length) :
    Inv (⟨groupRows (hashOf mod) mod (sortedKeys keys args), vals, mod⟩ : Table v) keys := by
  refine ⟨hnd, ?_, ?_, ?_, H.hm, hsh⟩
  · show (groupRows _ _ _).flatten.Perm keys
    rw [groupRows_flatten _ _ _ (sortedKeys_sorted keys mod args H) (fun a _ => hashOf_lt mod a H.hm)]
    exact sortedKeys_perm keys mod args H
  · intro h row hr k hk
    obtain ⟨_, rfl⟩ := groupRows_getElem? _ _ _ hr
    simpa using (List.mem_filter.1 hk).2
  · simp [groupRows]

theorem build_R_inl (hnd : keys.Nodup) (s : Int) :
    ∃ t, build keys (.inl s) mod args = some t ∧ t.mod = mod ∧ R keys t (keys.map (fun k => (k, s))) := by
  refine ⟨_, build_inl keys mod args H s, rfl, ?_⟩
  have inv := inv_group keys mod args H hnd (.inl s) (by
    simp only [filled, List.map_map]
    apply List.map_congr_left
    intro row _
    simp)
  have hkeys : (keys.map (fun k => (k, s))).map (·.1) = keys := by
    rw [List.map_map]; simp [Function.comp_def]
  refine ⟨inv, hkeys, ?_⟩
  intro k loc hl
  have hk := findKey_mem inv hl
  have hmem : (k, s) ∈ keys.map (fun k => (k, s)) := List.mem_map.2 ⟨k, hk, rfl⟩
  rw [(Dict.mem_iff_lookup (by rw [hkeys]; exact hnd) k s).1 hmem]
  show cellAt (List.map _ _) loc = _
  rw [cellAt_map, (findKey_some hl).2]
  rfl

theorem build_R_inr (hnd : keys.Nodup) (vs : List Int) (hl : vs.length = keys.length) :
    ∃ t, build keys (.inr vs) mod args = some t ∧ t.mod = mod ∧ R keys t (keys.zip vs) := by
  refine ⟨_, build_inr keys mod args H vs hl, rfl, ?_⟩
  have h1 : sortedKeys keys args = (sortedPairs keys vs args).map (·.1) :=
    (reorder_zip_fst keys vs hl args).symm
  have hb : groupRows (hashOf mod) mod (sortedKeys keys args)
      = (groupRows (fun p => hashOf mod p.1) mod (sortedPairs keys vs args)).map (·.map (·.1)) := by
    rw [h1, groupRows_map]; rfl
  have inv := inv_group keys mod args H hnd
    (.inr ((groupRows (fun p => hashOf mod p.1) mod (sortedPairs keys vs args)).map (·.map (·.2)))) (by
    simp only [filled]
    rw [hb, List.map_map, List.map_map]
    apply List.map_congr_left
    intro row _
    simp)
  have hkeys : (keys.zip vs).map (·.1) = keys := List.map_fst_zip (by omega)
  refine ⟨inv, hkeys, ?_⟩
  intro k loc hlk
  have hc := (findKey_some hlk).2
  simp only at hc
  rw [hb, cellAt_map] at hc
  show cellAt (List.map _ _) loc = _
  rw [cellAt_map]
  cases hcp : cellAt (groupRows (fun p => hashOf mod p.1) mod (sortedPairs keys vs args)) loc with
  | none => rw [hcp] at hc; cases hc
  | some p =>
    rw [hcp] at hc
    simp only [Option.map_some, Option.some.injEq] at hc
    obtain ⟨row, hrow, hx⟩ := cellAt_eq_some.1 hcp
    obtain ⟨_, rfl⟩ := groupRows_getElem? _ _ _ hrow
    have hp1 : p ∈ sortedPairs keys vs args := (List.mem_filter.1 (List.mem_of_getElem? hx)).1
    have hp2 : p ∈ keys.zip vs :=
      (reorder_perm (keys.zip vs) args (by simpa [hl] using H.hp)).subset hp1
    have hp3 : (k, p.2) ∈ keys.zip vs := by rw [← hc]; exact hp2
    rw [(Dict.mem_iff_lookup (by rw [hkeys]; exact hnd) k p.2).1 hp3]
    rfl

end build

/-- membership in a bucket, from the invariant -/
theorem Inv.mem_bucket {v : Type} {t : Table v} {keys : List Int} (inv : Inv t keys) {h : Nat} {row : List Int}
    (hr : t.buckets[h]? = some row) (k : Int) : k ∈ row ↔ (k ∈ keys ∧ hashOf t.mod k = h) := by
  constructor
  · intro hk
    exact ⟨inv.perm.subset (List.mem_flatten.2 ⟨row, List.mem_of_getElem? hr, hk⟩), inv.hash h row hr k hk⟩
  · rintro ⟨hk, hh⟩
    obtain ⟨row', hrow', hk'⟩ := List.mem_flatten.1 (inv.perm.symm.subset hk)
    obtain ⟨h', hh'⟩ := List.mem_iff_getElem?.1 hrow'
    have := inv.hash h' row' hh' k hk'
    rw [hh] at this
    subst this
    rw [hr] at hh'
    cases hh'
    exact hk'

end Proofs.HT
