import NpsVerif.Proofs.DataClass
/-! # C18: `concat` and `astype` on the entries -/
namespace Proofs.DataClass
open Model Model.DC Np
variable {α : Type}

theorem foldl_min_const (ts : List (Table α)) (k : Nat) (h : ∀ u ∈ ts, u.cols.length = k) :
    ts.foldl (fun m u => min m u.cols.length) k = k := by
  induction ts with
  | nil => rfl
  | cons u us ih =>
    rw [List.foldl_cons, h u (by simp), Nat.min_self]
    exact ih (fun v hv => h v (by simp [hv]))

theorem concat_entries (ts : List (Table α)) (hne : ts ≠ []) (hok : ∀ t ∈ ts, mk? t.cols = some t)
    (hsame : ∀ t ∈ ts, ∀ u ∈ ts, t.cols.map (·.1) = u.cols.map (·.1)) :
    (concat ts).map entries = some (ts.map entries).flatten := by
  cases ts with
  | nil => exact absurd rfl hne
  | cons t rest =>
    have hk : ∀ u ∈ t :: rest, u.cols.length = t.cols.length := by
      intro u hu
      have := congrArg List.length (hsame u hu t (by simp))
      simpa using this
    have hkpos : 0 < t.cols.length :=
      List.length_pos_iff.mpr (wf_cols (hok t (by simp))).1
    simp only [concat]
    rw [foldl_min_const _ _ hk]
    generalize hf : (fun (j : Nat) => (t.cols[j]?).map (fun (c : String × List α) => (c.1,
      ((t :: rest).map (fun (u : Table α) => ((u.cols[j]?).map (·.2)).getD [])).flatten))) = f
    have hall : ∀ j ∈ List.range t.cols.length, ∃ y, f j = some y := by
      intro j hj
      have hj' := List.mem_range.mp hj
      subst hf
      have htj : t.cols[j]? = some t.cols[j] := by simp [hj']
      simp only [htj]
      exact ⟨_, rfl⟩
    have hget := getElem?_filterMap_all f _ hall
    have hlen := length_filterMap_all f _ hall
    rw [List.length_range] at hlen
    have hrect : ∀ e ∈ ((t :: rest).map entries).flatten,
        e.length = ((List.range t.cols.length).filterMap f).length := by
      intro e he
      rw [List.mem_flatten] at he
      obtain ⟨l, hl, hel⟩ := he
      rw [List.mem_map] at hl
      obtain ⟨u, hu, rfl⟩ := hl
      rw [hlen, ← hk u hu]
      exact entries_rect (hok u hu) e hel
    have hcols : ∀ (j : Nat) (c : String × List α),
        ((List.range t.cols.length).filterMap f)[j]? = some c →
        c.2.map some = (((t :: rest).map entries).flatten).map (·[j]?) := by
      intro j c' hj
      rw [hget] at hj
      by_cases hjk : j < t.cols.length
      · rw [List.getElem?_range hjk, Option.bind_some] at hj
        subst hf
        have htj : t.cols[j]? = some t.cols[j] := by simp [hjk]
        simp only [htj, Option.map_some, Option.some.injEq] at hj
        subst hj
        simp only [List.map_flatten, List.map_map]
        congr 1
        apply List.map_congr_left
        intro u hu
        have huj : j < u.cols.length := by rw [hk u hu]; exact hjk
        have huj' : u.cols[j]? = some u.cols[j] := by simp [huj]
        simp only [Function.comp, huj', Option.map_some, Option.getD_some]
        exact col_of_entries (hok u hu) j _ huj'
      · rw [List.getElem?_eq_none (by simp; omega)] at hj
        simp at hj
    have hne' : (List.range t.cols.length).filterMap f ≠ [] := by
      intro h
      rw [h] at hlen
      simp at hlen
      omega
    obtain ⟨h1, h2⟩ := mk?_entries _ _ hne' hrect hcols
    rw [h1, Option.map_some, h2]

/-! ### `astype` -/

theorem find?_idxOf? (cols : List (String × List α)) (n : String) (c : String × List α)
    (h : cols.find? (fun c => c.1 == n) = some c) :
    ∃ j, (cols.map (·.1)).idxOf? n = some j ∧ cols[j]? = some c := by
  induction cols with
  | nil => simp at h
  | cons d ds ih =>
    rw [List.find?_cons] at h
    rw [List.map_cons, List.idxOf?_cons]
    cases hd : (d.1 == n) with
    | true =>
      simp only [hd, Option.some.injEq] at h
      subst h
      exact ⟨0, by simp, by simp⟩
    | false =>
      simp only [hd] at h
      obtain ⟨j, h1, h2⟩ := ih h
      exact ⟨j + 1, by simp [h1], by simp [h2]⟩

theorem astype_entries (t : Table α) (ht : mk? t.cols = some t) (names : List String) (hn : names ≠ []) :
    (astype t names).map entries =
      if names.all (fun n => t.cols.any (fun c => c.1 == n)) then
        some ((entries t).map (fun e => names.filterMap (fun n => ((t.cols.map (·.1)).idxOf? n).bind (e[·]?))))
      else none := by
  unfold astype
  split
  · rename_i hall
    rw [List.all_eq_true] at hall
    have hfind : ∀ n ∈ names, ∃ c, t.cols.find? (fun c => c.1 == n) = some c := by
      intro n hnm
      have h := hall n hnm
      rw [List.any_eq_true] at h
      exact Option.isSome_iff_exists.mp (List.find?_isSome.mpr h)
    -- the index of a present name
    have hidx : ∀ n ∈ names, ∃ (j : Nat) (c : String × List α),
        t.cols.find? (fun c => c.1 == n) = some c ∧
        (t.cols.map (·.1)).idxOf? n = some j ∧ t.cols[j]? = some c := by
      intro n hnm
      obtain ⟨c, hc⟩ := hfind n hnm
      obtain ⟨j, h1, h2⟩ := find?_idxOf? t.cols n c hc
      exact ⟨j, c, hc, h1, h2⟩
    have hsomeall : ∀ e ∈ entries t, ∀ n ∈ names,
        ∃ y, (fun n => ((t.cols.map (·.1)).idxOf? n).bind (e[·]?)) n = some y := by
      intro e he n hnm
      obtain ⟨j, c, _, h1, h2⟩ := hidx n hnm
      have hj : j < t.cols.length := by
        rcases Nat.lt_or_ge j t.cols.length with h | h
        · exact h
        · rw [List.getElem?_eq_none h] at h2; simp at h2
      have hel := entries_rect ht e he
      refine ⟨e[j]'(by omega), ?_⟩
      simp [h1]
    let g : String → String × List α := fun n => (t.cols.find? (fun c => c.1 == n)).getD ("", [])
    have hmap : names.mapM (fun n => t.cols.find? (fun c => c.1 == n)) = some (names.map g) := by
      apply mapM_eq_some_map
      intro n hnm
      obtain ⟨c, hc⟩ := hfind n hnm
      simp [g, hc]
    rw [hmap, Option.bind_some]
    have hrect : ∀ e ∈ (entries t).map (fun e => names.filterMap
        (fun n => ((t.cols.map (·.1)).idxOf? n).bind (e[·]?))), e.length = (names.map g).length := by
      intro e' he'
      rw [List.mem_map] at he'
      obtain ⟨e, he, rfl⟩ := he'
      rw [List.length_map]
      exact length_filterMap_all _ _ (hsomeall e he)
    have hcols : ∀ (m : Nat) (c : String × List α), (names.map g)[m]? = some c →
        c.2.map some = ((entries t).map (fun e => names.filterMap
          (fun n => ((t.cols.map (·.1)).idxOf? n).bind (e[·]?)))).map (·[m]?) := by
      intro m c' hm
      rw [List.getElem?_map] at hm
      cases hnm : names[m]? with
      | none => simp [hnm] at hm
      | some n =>
        simp only [hnm, Option.map_some, Option.some.injEq] at hm
        obtain ⟨j, c, hc, h1, h2⟩ := hidx n (List.mem_of_getElem? hnm)
        have hgc : c' = c := by rw [← hm]; simp [g, hc]
        subst hgc
        rw [col_of_entries ht j c' h2, List.map_map]
        apply List.map_congr_left
        intro e he
        simp only [Function.comp]
        rw [getElem?_filterMap_all _ _ (hsomeall e he) m, hnm, Option.bind_some, h1, Option.bind_some]
    obtain ⟨h1, h2⟩ := mk?_entries _ _ (by simpa using hn) hrect hcols
    rw [h1, Option.map_some, h2]
  · rename_i hall
    have : ∃ n ∈ names, t.cols.find? (fun c => c.1 == n) = none := by
      rw [Bool.not_eq_true, List.all_eq_false] at hall
      obtain ⟨n, hnm, h⟩ := hall
      refine ⟨n, hnm, ?_⟩
      rw [List.find?_eq_none]
      intro c hc hcn
      exact h (List.any_eq_true.mpr ⟨c, hc, hcn⟩)
    obtain ⟨n, hnm, h⟩ := this
    rw [mapM_eq_none_of_mem _ _ n hnm h]
    rfl

end Proofs.DataClass
