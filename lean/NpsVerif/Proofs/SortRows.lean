import NpsVerif.Model.Scan
import NpsVerif.Proofs.C01Maps
import NpsVerif.Proofs.UfuncRows
/-!
# `sortRows` (property C07): the stable lexsort on (row index, value) sorts every row on its own

* `keyedFrom k rows`: the cells of the rows with their row index attached (`index_array` zipped with
  the flat buffer);
* `blocks_of_sorted`: a permutation of `keyedFrom k rows` that is sorted for the lexicographic
  comparison is `keyedFrom k blocks`, block `i` being a sorted permutation of row `i`;
* `sortRows_blocks`: the rows of `sortRows le (RA.ofRows rows)`.
-/
namespace Proofs.SortRows
open Model Np Proofs.UfuncRows

variable {α : Type}

/-- the comparison handed to the stable sort by `sortRows` -/
def cmp (le : α → α → Bool) (p q : Nat × α) : Bool :=
  decide (p.1 < q.1) || (p.1 == q.1 && le p.2 q.2)

/-- cells with their row index, rows numbered from `k` -/
def keyedFrom (k : Nat) : List (List α) → List (Nat × α)
  | [] => []
  | r :: rs => r.map (fun x => (k, x)) ++ keyedFrom (k + 1) rs

theorem zip_replicate_left (k : Nat) (r : List α) :
    (List.replicate r.length k).zip r = r.map (fun x => (k, x)) := by
  induction r with
  | nil => rfl
  | cons x xs ih => simp [List.replicate_succ, ih]

theorem zip_rowIds (k : Nat) (rows : List (List α)) :
    (rowIdsFrom k (rows.map List.length)).zip rows.flatten = keyedFrom k rows := by
  induction rows generalizing k with
  | nil => simp [rowIdsFrom, keyedFrom]
  | cons r rs ih =>
    simp only [List.map_cons, rowIdsFrom, List.flatten_cons, keyedFrom]
    rw [List.zip_append (by simp), zip_replicate_left, ih]

theorem keyedFrom_ge (k : Nat) (rows : List (List α)) : ∀ p ∈ keyedFrom k rows, k ≤ p.1 := by
  induction rows generalizing k with
  | nil => simp [keyedFrom]
  | cons r rs ih =>
    intro p hp
    simp only [keyedFrom, List.mem_append, List.mem_map] at hp
    rcases hp with ⟨x, _, rfl⟩ | hp
    · exact Nat.le_refl _
    · have := ih (k + 1) p hp; omega

theorem keyedFrom_map_snd (k : Nat) (rows : List (List α)) :
    (keyedFrom k rows).map (·.2) = rows.flatten := by
  induction rows generalizing k with
  | nil => rfl
  | cons r rs ih =>
    simp only [keyedFrom, List.map_append, List.map_map, List.flatten_cons, ih]
    congr 1
    simp [Function.comp_def]

/-- a list sorted on the key, all keys `≥ k`, is its key-`k` part followed by the rest -/
theorem sorted_split (k : Nat) (S : List (Nat × α)) (hs : S.Pairwise (fun a b => a.1 ≤ b.1))
    (hge : ∀ p ∈ S, k ≤ p.1) :
    S = S.filter (fun p => p.1 == k) ++ S.filter (fun p => !(p.1 == k)) := by
  induction S with
  | nil => rfl
  | cons p S ih =>
    have hp := List.pairwise_cons.1 hs
    have ih' := ih hp.2 (fun q hq => hge q (List.mem_cons_of_mem _ hq))
    by_cases hk : p.1 = k
    · simp only [List.filter_cons, hk, beq_self_eq_true, if_true, Bool.not_true, Bool.false_eq_true,
        if_false, List.cons_append]
      rw [← ih']
    · have h1 : ¬ ((p.1 == k) = true) := by simp [hk]
      have hgt : k < p.1 := by have := hge p (by simp); omega
      have hnil : S.filter (fun p => p.1 == k) = [] := by
        rw [List.filter_eq_nil_iff]
        intro q hq
        have := hp.1 q hq
        simp; omega
      have hall : S.filter (fun p => !(p.1 == k)) = S := by
        rw [List.filter_eq_self]
        intro q hq
        have := hp.1 q hq
        simp; omega
      have h2 : (p.1 == k) = false := by simpa using hk
      simp only [List.filter_cons, h2, Bool.false_eq_true, if_false, Bool.not_false, if_true, hnil,
        hall, List.nil_append]

theorem filter_key_eq (k : Nat) (r : List α) (rs : List (List α)) :
    (r.map (fun x => (k, x)) ++ keyedFrom (k + 1) rs).filter (fun p => p.1 == k)
      = r.map (fun x => (k, x)) := by
  rw [List.filter_append]
  have h1 : (r.map (fun x => (k, x))).filter (fun p => p.1 == k) = r.map (fun x => (k, x)) := by
    rw [List.filter_eq_self]; intro p hp
    simp only [List.mem_map] at hp
    obtain ⟨x, _, rfl⟩ := hp; simp
  have h2 : (keyedFrom (k + 1) rs).filter (fun p => p.1 == k) = [] := by
    rw [List.filter_eq_nil_iff]; intro p hp
    have := keyedFrom_ge (k + 1) rs p hp
    simp; omega
  rw [h1, h2, List.append_nil]

theorem filter_key_ne (k : Nat) (r : List α) (rs : List (List α)) :
    (r.map (fun x => (k, x)) ++ keyedFrom (k + 1) rs).filter (fun p => !(p.1 == k))
      = keyedFrom (k + 1) rs := by
  rw [List.filter_append]
  have h1 : (r.map (fun x => (k, x))).filter (fun p => !(p.1 == k)) = [] := by
    rw [List.filter_eq_nil_iff]; intro p hp
    simp only [List.mem_map] at hp
    obtain ⟨x, _, rfl⟩ := hp; simp
  have h2 : (keyedFrom (k + 1) rs).filter (fun p => !(p.1 == k)) = keyedFrom (k + 1) rs := by
    rw [List.filter_eq_self]; intro p hp
    have := keyedFrom_ge (k + 1) rs p hp
    simp; omega
  rw [h1, h2, List.nil_append]

theorem eq_map_of_key (k : Nat) (A : List (Nat × α)) (h : ∀ p ∈ A, p.1 = k) :
    A = (A.map (·.2)).map (fun x => (k, x)) := by
  induction A with
  | nil => rfl
  | cons p A ih =>
    have hp := h p (by simp)
    rw [List.map_cons, List.map_cons, ← ih (fun q hq => h q (List.mem_cons_of_mem _ hq))]
    congr 1
    rw [← hp]

theorem cmp_key_le (le : α → α → Bool) (p q : Nat × α) (h : cmp le p q = true) : p.1 ≤ q.1 := by
  simp only [cmp, Bool.or_eq_true, decide_eq_true_eq, Bool.and_eq_true, beq_iff_eq] at h
  omega

theorem cmp_same_key (le : α → α → Bool) (p q : Nat × α) (hk : p.1 = q.1) (h : cmp le p q = true) :
    le p.2 q.2 = true := by
  simp only [cmp, Bool.or_eq_true, decide_eq_true_eq, Bool.and_eq_true, beq_iff_eq] at h
  rcases h with h | h
  · omega
  · exact h.2

/-- a sorted permutation of the keyed cells is made of one sorted block per row -/
theorem blocks_of_sorted (le : α → α → Bool) (k : Nat) (rows : List (List α)) (S : List (Nat × α))
    (hperm : S.Perm (keyedFrom k rows)) (hs : S.Pairwise (fun p q => cmp le p q = true)) :
    ∃ blocks : List (List α), S = keyedFrom k blocks ∧ blocks.length = rows.length ∧
      ∀ (i : Nat) (b r : List α), blocks[i]? = some b → rows[i]? = some r →
        b.Perm r ∧ b.Pairwise (fun x y => le x y = true) := by
  induction rows generalizing k S with
  | nil =>
    refine ⟨[], ?_, rfl, ?_⟩
    · simpa [keyedFrom] using hperm
    · intro i b r hb; simp at hb
  | cons r rs ih =>
    simp only [keyedFrom] at hperm
    have hkey : S.Pairwise (fun a b => a.1 ≤ b.1) := hs.imp (fun {a b} h => cmp_key_le le a b h)
    have hge : ∀ p ∈ S, k ≤ p.1 := by
      intro p hp
      have := keyedFrom_ge k (r :: rs) p (by simpa [keyedFrom] using (hperm.mem_iff).1 hp)
      exact this
    have hsplit := sorted_split k S hkey hge
    have hA : (S.filter (fun p => p.1 == k)).Perm (r.map (fun x => (k, x))) := by
      have := hperm.filter (fun p => p.1 == k)
      rwa [filter_key_eq] at this
    have hB : (S.filter (fun p => !(p.1 == k))).Perm (keyedFrom (k + 1) rs) := by
      have := hperm.filter (fun p => !(p.1 == k))
      rwa [filter_key_ne] at this
    have hAs : (S.filter (fun p => p.1 == k)).Pairwise (fun p q => cmp le p q = true) :=
      hs.sublist List.filter_sublist
    have hBs : (S.filter (fun p => !(p.1 == k))).Pairwise (fun p q => cmp le p q = true) :=
      hs.sublist List.filter_sublist
    obtain ⟨blocks, hBeq, hlen, hrows⟩ := ih (k + 1) _ hB hBs
    have hAk : ∀ p ∈ S.filter (fun p => p.1 == k), p.1 = k := by
      intro p hp
      have := (List.mem_filter.1 hp).2
      simpa using this
    have hAeq := eq_map_of_key k _ hAk
    refine ⟨(S.filter (fun p => p.1 == k)).map (·.2) :: blocks, ?_, by simp [hlen], ?_⟩
    · simp only [keyedFrom]
      rw [← hAeq, ← hBeq]
      exact hsplit
    · intro i b r' hb hr
      cases i with
      | zero =>
        simp only [List.getElem?_cons_zero, Option.some.injEq] at hb hr
        subst hb; subst hr
        constructor
        · have := hA.map (·.2)
          simpa [Function.comp_def] using this
        · rw [List.pairwise_map]
          refine List.Pairwise.imp_of_mem ?_ hAs
          intro p q hp hq h
          exact cmp_same_key le p q (by rw [hAk p hp, hAk q hq]) h
      | succ i =>
        simp only [List.getElem?_cons_succ] at hb hr
        exact hrows i b r' hb hr

theorem cmp_trans (le : α → α → Bool)
    (htrans : ∀ a b c, le a b = true → le b c = true → le a c = true) (a b c : Nat × α) :
    cmp le a b = true → cmp le b c = true → cmp le a c = true := by
  simp only [cmp, Bool.or_eq_true, decide_eq_true_eq, Bool.and_eq_true, beq_iff_eq]
  intro h1 h2
  rcases h1 with h1 | ⟨h1, h1'⟩ <;> rcases h2 with h2 | ⟨h2, h2'⟩
  · left; omega
  · left; omega
  · left; omega
  · right; exact ⟨by omega, htrans _ _ _ h1' h2'⟩

theorem cmp_total (le : α → α → Bool) (htot : ∀ a b, le a b = true ∨ le b a = true)
    (a b : Nat × α) : (cmp le a b || cmp le b a) = true := by
  simp only [cmp, Bool.or_eq_true, decide_eq_true_eq, Bool.and_eq_true, beq_iff_eq]
  rcases Nat.lt_trichotomy a.1 b.1 with h | h | h
  · left; left; exact h
  · rcases htot a.2 b.2 with h' | h'
    · left; right; exact ⟨h, h'⟩
    · right; right; exact ⟨h.symm, h'⟩
  · right; left; exact h

theorem lengths_of_blocks (blocks rows : List (List α)) (hlen : blocks.length = rows.length)
    (h : ∀ (i : Nat) (b r : List α), blocks[i]? = some b → rows[i]? = some r → b.Perm r) :
    blocks.map List.length = rows.map List.length := by
  apply List.ext_getElem?
  intro i
  simp only [List.getElem?_map]
  by_cases hi : i < blocks.length
  · have hi' : i < rows.length := by omega
    rw [List.getElem?_eq_getElem hi, List.getElem?_eq_getElem hi']
    simp only [Option.map_some, Option.some.injEq]
    exact (h i _ _ (List.getElem?_eq_getElem hi) (List.getElem?_eq_getElem hi')).length_eq
  · rw [List.getElem?_eq_none (by omega), List.getElem?_eq_none (by omega)]

/-- `index_array` zipped with the buffer of `RA.ofRows rows` -/
theorem keyed_ofRows (rows : List (List α)) :
    (RA.ofRows rows).shape.indexArray.zip (RA.ofRows rows).data = keyedFrom 0 rows := by
  simp only [RA.ofRows]
  rw [ofLens_indexArray, zip_rowIds]

/-- the result of `sortRows`: one sorted permutation per row, in the buffer and read back as rows -/
theorem sortRows_blocks (le : α → α → Bool) (htot : ∀ a b, le a b = true ∨ le b a = true)
    (htrans : ∀ a b c, le a b = true → le b c = true → le a c = true) (rows : List (List α)) :
    ∃ blocks : List (List α),
      (sortRows le (RA.ofRows rows)).data = blocks.flatten ∧
      (sortRows le (RA.ofRows rows)).rows = blocks ∧
      blocks.length = rows.length ∧ blocks.map List.length = rows.map List.length ∧
      ∀ (i : Nat) (b r : List α), blocks[i]? = some b → rows[i]? = some r →
        b.Perm r ∧ b.Pairwise (fun x y => le x y = true) := by
  have hS := List.pairwise_mergeSort (le := cmp le) (cmp_trans le htrans) (cmp_total le htot)
    (keyedFrom 0 rows)
  have hP := List.mergeSort_perm (keyedFrom 0 rows) (cmp le)
  obtain ⟨blocks, heq, hlen, hrows⟩ := blocks_of_sorted le 0 rows _ hP hS
  have hls := lengths_of_blocks blocks rows hlen (fun i b r hb hr => (hrows i b r hb hr).1)
  have hdata : (sortRows le (RA.ofRows rows)).data = blocks.flatten := by
    simp only [sortRows]
    rw [keyed_ofRows]
    show List.map (·.2) ((keyedFrom 0 rows).mergeSort (cmp le)) = _
    rw [heq, keyedFrom_map_snd]
  refine ⟨blocks, hdata, ?_, hlen, hls, hrows⟩
  have hshape : (sortRows le (RA.ofRows rows)).shape = Shape.ofLens (rows.map List.length) := rfl
  have : sortRows le (RA.ofRows rows) = ⟨blocks.flatten, Shape.ofLens (rows.map List.length)⟩ := by
    rw [← hdata, ← hshape]
  rw [this]
  exact rows_mk blocks _ hls

/-! ## integers: each block is the row's own `mergeSort` -/

def leInt (x y : Int) : Bool := decide (x ≤ y)

theorem leInt_total (a b : Int) : leInt a b = true ∨ leInt b a = true := by
  simp only [leInt, decide_eq_true_eq]; omega

theorem leInt_trans (a b c : Int) : leInt a b = true → leInt b c = true → leInt a c = true := by
  simp only [leInt, decide_eq_true_eq]; omega

/-- a sorted permutation of an integer row is the row's `mergeSort` -/
theorem sorted_perm_eq_mergeSort (b r : List Int) (hp : b.Perm r)
    (hs : b.Pairwise (fun x y => leInt x y = true)) : b = r.mergeSort leInt := by
  have h2 := List.pairwise_mergeSort (le := leInt) leInt_trans
    (by intro a b; simp only [leInt, Bool.or_eq_true, decide_eq_true_eq]; omega) r
  have hp2 : b.Perm (r.mergeSort leInt) := hp.trans (List.mergeSort_perm r leInt).symm
  refine List.Perm.eq_of_pairwise ?_ hs h2 hp2
  intro x y _ _ h1 h2
  simp only [leInt, decide_eq_true_eq] at h1 h2
  omega

theorem sortRows_int (rows : List (List Int)) :
    (sortRows leInt (RA.ofRows rows)).data = (rows.map (fun r => r.mergeSort leInt)).flatten ∧
    (sortRows leInt (RA.ofRows rows)).rows = rows.map (fun r => r.mergeSort leInt) := by
  obtain ⟨blocks, hdata, hrows, hlen, _, hb⟩ := sortRows_blocks leInt leInt_total leInt_trans rows
  have : blocks = rows.map (fun r => r.mergeSort leInt) := by
    apply List.ext_getElem?
    intro i
    simp only [List.getElem?_map]
    by_cases hi : i < blocks.length
    · have hi' : i < rows.length := by omega
      rw [List.getElem?_eq_getElem hi, List.getElem?_eq_getElem hi']
      simp only [Option.map_some, Option.some.injEq]
      have := hb i _ _ (List.getElem?_eq_getElem hi) (List.getElem?_eq_getElem hi')
      exact sorted_perm_eq_mergeSort _ _ this.1 this.2
    · rw [List.getElem?_eq_none (by omega), List.getElem?_eq_none (by omega)]; rfl
  rw [hdata, hrows, this]
  exact ⟨rfl, rfl⟩

end Proofs.SortRows
