import NpsVerif.Proofs.BitPack
import NpsVerif.Proofs.BitAddr
/-! `unpack`, `getitem`, `sliding_window` on the registers `(stream >>> 64 r) % 2^64` (C13). -/
namespace Proofs.BitOps
open Model.BitArray Proofs.Bits Proofs.BitPack

/-- `ravel()` of an `R × n` table -/
theorem flatten_range_map (g : Nat → α) (R n : Nat) :
    ((List.range R).map (fun r => (List.range n).map (fun i => g (r * n + i)))).flatten
      = (List.range (R * n)).map g := by
  induction R with
  | zero => simp
  | succ R ih =>
    rw [List.range_succ, List.map_append, List.flatten_append, ih, Nat.add_mul, Nat.one_mul,
      List.range_add, List.map_append, List.map_map]
    simp [Function.comp_def]

theorem take_range_map (g : Nat → α) (N len : Nat) (h : len ≤ N) :
    ((List.range N).map g).take len = (List.range len).map g := by
  rw [← List.map_take, List.take_range, Nat.min_eq_left h]

theorem range_map_getD (a : List Nat) : (List.range a.length).map (fun m => a[m]?.getD 0) = a := by
  apply List.ext_getElem?
  intro i
  rw [List.getElem?_map, range_getElem?]
  by_cases h : i < a.length
  · simp [h]
  · simp [h]

theorem le_ceil_mul (x n : Nat) (hn : 0 < n) : x ≤ (x + n - 1) / n * n :=
  Nat.le_of_not_lt (fun h => Nat.lt_irrefl _ ((lt_ceil_div_iff x n _ hn).mpr h))

/-- the register of index `r` -/
def reg (s r : Nat) : Nat := (s >>> (64 * r)) % 2 ^ 64

theorem shift_reg (s b n r i : Nat) (hbn : b * n = 64) :
    (s >>> (64 * r)) >>> (b * i) = s >>> (b * (r * n + i)) := by
  rw [← Nat.shiftRight_add]
  congr 1
  rw [← hbn, Nat.mul_add, Nat.mul_assoc, Nat.mul_comm n r]

/-- a digit read from a register is the digit of the stream -/
theorem reg_digit (a : List Nat) (b n : Nat) (hbn : b * n = 64) (ha : ∀ x ∈ a, x < 2 ^ b)
    (r i : Nat) (hi : i < n) :
    (reg (stream b a) r >>> (b * i)) &&& (2 ^ b - 1) = a[r * n + i]?.getD 0 := by
  have h1 : b * i + b ≤ 64 := by
    have : b * (i + 1) ≤ b * n := Nat.mul_le_mul_left b hi
    rw [Nat.mul_add, Nat.mul_one] at this; omega
  unfold reg
  rw [Nat.and_two_pow_sub_one_eq_mod, mod_shiftRight_mod _ 64 _ _ h1, shift_reg _ b n r i hbn,
    stream_digit_getD b a ha]

theorem unpack_regs (a : List Nat) (b n : Nat) (hbn : b * n = 64) (ha : ∀ x ∈ a, x < 2 ^ b) (R : Nat) :
    (((List.range R).map (reg (stream b a))).map
      (fun r => (List.range n).map (fun i => (r >>> (b * i)) &&& (2 ^ b - 1)))).flatten
    = (List.range (R * n)).map (fun m => a[m]?.getD 0) := by
  rw [List.map_map, ← flatten_range_map]
  congr 1
  apply List.map_congr_left
  intro r _
  apply List.map_congr_left
  intro i hi
  exact reg_digit a b n hbn ha r i (List.mem_range.mp hi)

/-! ### sliding window -/

theorem zip_range_map (f : Nat → α) (n : Nat) :
    ((List.range n).map f).zip (List.range n) = (List.range n).map (fun i => (f i, i)) := by
  apply List.ext_getElem?
  intro i
  by_cases h : i < n
  · rw [(List.getElem?_zip_eq_some (z := (f i, i))).mpr ⟨by simp [h], by simp [h]⟩]; simp [h]
  · have h' := Nat.le_of_not_lt h
    rw [List.getElem?_eq_none (by simp [List.length_zip, h']), List.getElem?_eq_none (by simp [h'])]

theorem nexts_getElem? (data : List Nat) (r : Nat) (hr : r < data.length) :
    ((data.drop 1).map some ++ [none])[r]? = some data[r + 1]? := by
  rw [List.getElem?_append]
  by_cases h : r + 1 < data.length
  · have : r < ((data.drop 1).map some).length := by simp; omega
    rw [if_pos this, List.getElem?_map, List.getElem?_drop, Nat.add_comm 1 r]
    simp [h]
  · have : ¬ r < ((data.drop 1).map some).length := by simp; omega
    have h2 : r - ((data.drop 1).map some).length = 0 := by simp; omega
    rw [if_neg this, h2, List.getElem?_eq_none (Nat.le_of_not_lt h)]
    rfl

/-- row `r` of the spliced and masked table -/
theorem sw_rows (data : List Nat) (b n mask r : Nat) (hr : r < data.length) :
    ((((data.map (fun r => (List.range n).map (fun i => r >>> (b * i)))).zip
        ((data.drop 1).map some ++ [none])).map
        (fun (rn : List Nat × Option Nat) => match rn.2 with
          | none => rn.1
          | some nxt => (rn.1.zip (List.range n)).map
              (fun (xi : Nat × Nat) => xi.1 ||| shl64 nxt (b * (n - 1 - xi.2) + b)))).map
        (fun row => row.map (· &&& mask)))[r]?
    = some ((List.range n).map (fun i =>
        (match data[r + 1]? with
          | none => data[r] >>> (b * i)
          | some nxt => data[r] >>> (b * i) ||| shl64 nxt (b * (n - 1 - i) + b)) &&& mask)) := by
  rw [List.getElem?_map, List.getElem?_map,
    (List.getElem?_zip_eq_some
      (z := ((List.range n).map (fun i => data[r] >>> (b * i)), data[r + 1]?))).mpr
      ⟨by rw [List.getElem?_map, List.getElem?_eq_getElem hr]; rfl, nexts_getElem? data r hr⟩]
  simp only [Option.map_some]
  cases data[r + 1]? with
  | none => simp
  | some nxt => simp [zip_range_map]

theorem reg_last (s R r : Nat) (hs : s < 2 ^ (64 * R)) (hr : r + 1 = R) : reg s r = s >>> (64 * r) := by
  unfold reg
  apply Nat.mod_eq_of_lt
  rw [Nat.shiftRight_eq_div_pow]
  apply Nat.div_lt_of_lt_mul
  rw [← Nat.pow_add, ← Nat.mul_add_one, hr]
  exact hs

/-- one entry of the window table: the spliced, masked value is `w` digits of the stream -/
theorem sw_entry (s b n w R r i : Nat) (hbn : b * n = 64) (hwb : w * b ≤ 64)
    (hs : s < 2 ^ (64 * R)) (hr : r < R) (hi : i < n) :
    (match ((List.range R).map (reg s))[r + 1]? with
      | none => reg s r >>> (b * i)
      | some nxt => reg s r >>> (b * i) ||| shl64 nxt (b * (n - 1 - i) + b))
      &&& ((W - 1) >>> (64 - w * b))
    = (s >>> (b * (r * n + i))) % 2 ^ (w * b) := by
  rw [and_mask _ _ hwb, ← shift_reg s b n r i hbn]
  by_cases h : r + 1 < R
  · have h1 : ((List.range R).map (reg s))[r + 1]? = some (reg s (r + 1)) := by simp [h]
    have hc : b * i < 64 := by
      have : b * (i + 1) ≤ b * n := Nat.mul_le_mul_left b hi
      rw [Nat.mul_add, Nat.mul_one] at this
      have : 0 < b := Nat.pos_of_ne_zero (fun h0 => by subst h0; simp at hbn)
      omega
    have h2 : b * (n - 1 - i) + b = 64 - b * i := by
      have : b * (n - 1 - i + 1 + i) = 64 := by rw [← hbn]; congr 1; omega
      rw [Nat.mul_add, Nat.mul_add, Nat.mul_one] at this; omega
    have h3 : reg s (r + 1) = ((s >>> (64 * r)) >>> 64) % 2 ^ 64 := by
      unfold reg; rw [← Nat.shiftRight_add, Nat.mul_add_one]
    rw [h1]
    simp only []
    rw [h2, h3]
    unfold reg
    rw [splice _ _ hc, Nat.mod_mod_of_dvd _ (Nat.pow_dvd_pow 2 hwb)]
  · have h1 : ((List.range R).map (reg s))[r + 1]? = none := by simp; omega
    rw [h1]
    simp only []
    rw [reg_last s R r hs (by omega)]

theorem slidingWindow_regs (a : List Nat) (b n : Nat) (hbn : b * n = 64) (hn : n = 64 / b)
    (ha : ∀ x ∈ a, x < 2 ^ b) (w : Nat) (hwb : w * b ≤ 64) :
    slidingWindow ((List.range ((a.length + n - 1) / n)).map (reg (stream b a))) b a.length w
      = (List.range (min (a.length - w + 1) (((a.length + n - 1) / n) * n))).map
          (fun m => (stream b a >>> (b * m)) % 2 ^ (w * b)) := by
  have hn0 : 0 < n := Nat.pos_of_ne_zero (fun h0 => by subst h0; simp at hbn)
  have hs : stream b a < 2 ^ (64 * ((a.length + n - 1) / n)) := by
    refine Nat.lt_of_lt_of_le (stream_lt b a ha) (Nat.pow_le_pow_right (by decide) ?_)
    rw [← hbn, Nat.mul_assoc, Nat.mul_comm n]
    exact Nat.mul_le_mul_left b (le_ceil_mul _ n hn0)
  unfold slidingWindow
  simp only [← hn]
  rw [← List.take_range, List.map_take, ← flatten_range_map]
  congr 2
  apply List.ext_getElem?
  intro r
  by_cases hr : r < (a.length + n - 1) / n
  · refine (sw_rows ((List.range ((a.length + n - 1) / n)).map (reg (stream b a))) b n
      ((W - 1) >>> (64 - w * b)) r (by simpa using hr)).trans ?_
    conv => rhs; rw [List.getElem?_map, range_getElem?, if_pos hr]
    simp only [Option.map_some, Option.some.injEq]
    apply List.map_congr_left
    intro i hi
    have := sw_entry (stream b a) b n w _ r i hbn hwb hs hr (List.mem_range.mp hi)
    simpa using this
  · have h' := Nat.le_of_not_lt hr
    rw [List.getElem?_eq_none (by simp [List.length_zip]; omega), List.getElem?_eq_none (by simp [h'])]

/-! ### `pack` and the derived operations -/

theorem pack_regs (a : List Nat) (b : Nat) (hb0 : 0 < b) (hb : b ∣ 64) (ha : ∀ x ∈ a, x < 2 ^ b) :
    pack a b = (List.range ((a.length + 64 / b - 1) / (64 / b))).map (reg (stream b a)) := by
  rw [pack_eq_chunks a b hb0 hb ha]
  apply List.map_congr_left
  intro r _
  exact chunk_eq a b (64 / b) (Nat.mul_div_cancel' hb) ha r

theorem unpack_pack (a : List Nat) (b : Nat) (hb0 : 0 < b) (hb : b ∣ 64) (ha : ∀ x ∈ a, x < 2 ^ b) :
    unpack (pack a b) b a.length = a := by
  have hbn : b * (64 / b) = 64 := Nat.mul_div_cancel' hb
  have hn : 0 < 64 / b := Nat.div_pos (Nat.le_of_dvd (by decide) hb) hb0
  unfold unpack
  simp only []
  rw [pack_regs a b hb0 hb ha, unpack_regs a b (64 / b) hbn ha,
    take_range_map _ _ _ (le_ceil_mul _ _ hn), range_map_getD]

theorem getitem_pack (a : List Nat) (b : Nat) (hb0 : 0 < b) (hb : b ∣ 64) (ha : ∀ x ∈ a, x < 2 ^ b)
    (i : Nat) (hi : i < a.length) :
    getitem (pack a b) b i = some a[i] := by
  have hbn : b * (64 / b) = 64 := Nat.mul_div_cancel' hb
  have hn : 0 < 64 / b := Nat.div_pos (Nat.le_of_dvd (by decide) hb) hb0
  have h1 : i / (64 / b) * (64 / b) + i % (64 / b) = i := Nat.div_add_mod' i (64 / b)
  have hr : i / (64 / b) < (a.length + 64 / b - 1) / (64 / b) :=
    (lt_ceil_div_iff _ _ _ hn).mpr (by omega)
  unfold getitem
  simp only []
  rw [pack_regs a b hb0 hb ha, List.getElem?_map, range_getElem?, if_pos hr]
  simp only [Option.map_some]
  rw [Nat.mul_comm (i % (64 / b)) b, reg_digit a b (64 / b) hbn ha _ _ (Nat.mod_lt _ hn), h1]
  simp [hi]

theorem mapM_eq_some (f : α → Option β) (g : α → β) (l : List α) (h : ∀ x ∈ l, f x = some (g x)) :
    l.mapM f = some (l.map g) := by
  induction l with
  | nil => rfl
  | cons x xs ih =>
    rw [List.mapM_cons, h x (by simp), ih (fun y hy => h y (by simp [hy]))]
    rfl

theorem getitemList_pack (a : List Nat) (b : Nat) (hb0 : 0 < b) (hb : b ∣ 64) (ha : ∀ x ∈ a, x < 2 ^ b)
    (is : List Nat) (his : ∀ i ∈ is, i < a.length) :
    (getitemList (pack a b) b is).map (fun d => unpack d b is.length) = is.mapM (a[·]?) := by
  have h1 : is.mapM (getitem (pack a b) b) = some (is.map (fun i => a[i]?.getD 0)) :=
    mapM_eq_some _ _ _ (fun i hi => by
      rw [getitem_pack a b hb0 hb ha i (his i hi)]; simp [his i hi])
  have h2 : is.mapM (a[·]?) = some (is.map (fun i => a[i]?.getD 0)) :=
    mapM_eq_some _ _ _ (fun i hi => by simp [his i hi])
  have h3 : ∀ x ∈ is.map (fun i => a[i]?.getD 0), x < 2 ^ b := by
    intro x hx
    rcases List.mem_map.mp hx with ⟨i, hi, rfl⟩
    have := his i hi
    simp only [List.getElem?_eq_getElem this, Option.getD_some]
    exact ha _ (List.getElem_mem _)
  have h4 := unpack_pack _ b hb0 hb h3
  rw [List.length_map] at h4
  have hn : 0 < 64 / b := Nat.div_pos (Nat.le_of_dvd (by decide) hb) hb0
  have hfun : getitemK (pack a b) b = getitem (pack a b) b :=
    funext (fun i => Proofs.BitAddr.getitemK_eq _ b i hn)
  unfold getitemList
  rw [hfun, h1, h2]
  simp only [Option.map_some]
  rw [h4]

theorem slidingWindow_pack (a : List Nat) (b : Nat) (hb0 : 0 < b) (hb : b ∣ 64)
    (ha : ∀ x ∈ a, x < 2 ^ b) (w : Nat) (hw : 1 ≤ w) (hwb : w * b ≤ 64) (hwl : w ≤ a.length) :
    slidingWindow (pack a b) b a.length w =
      (List.range (a.length - w + 1)).map (fun i => (stream b a >>> (b * i)) % 2 ^ (w * b)) := by
  have hbn : b * (64 / b) = 64 := Nat.mul_div_cancel' hb
  have hn : 0 < 64 / b := Nat.div_pos (Nat.le_of_dvd (by decide) hb) hb0
  rw [pack_regs a b hb0 hb ha, slidingWindow_regs a b (64 / b) hbn rfl ha w hwb]
  have := le_ceil_mul a.length (64 / b) hn
  rw [Nat.min_eq_left (by omega)]

end Proofs.BitOps
