import NpsVerif.Proofs.GetItemCells
/-! C02: `getitem` of an array whose codes stay inside the flat buffer = the same selectors on the
list of stored rows; one lemma per index form, then the assembly. -/
namespace Model
open Np Props.C02

theorem bind_congr' {α β} {o : Option α} {f g : α → Option β} (h : ∀ a, o = some a → f a = g a) :
    o.bind f = o.bind g := by
  cases o with
  | none => rfl
  | some a => exact h a rfl

theorem map_bind' {α β γ} (o : Option α) (f : α → Option β) (g : β → γ) :
    (o.bind f).map g = o.bind (fun x => (f x).map g) := by
  cases o <;> rfl

section
variable {α : Type} (data : List α) (codes : List (Nat × Nat))
  (h : ∀ c ∈ codes, c.1 + c.2 ≤ data.length)
include h

/-! ### `a[i]`, `a[sel]` -/

omit h in
theorem getitem_rows_int (i : Int) :
    (getIdx codes i).map (fun c => Res.vec ((data.drop c.1).take c.2))
      = (Py.index (codes.map (cut data)) i).map Res.vec := by
  simp only [Py.index, getIdx_map]
  cases getIdx codes i <;> rfl

theorem getitem_rows_sel (sel : RowSel) :
    (indexRows codes sel).bind (fun sc => (materialiseView data sc).map Res.ragged)
      = (Py.selectRows (codes.map (cut data)) sel).map Res.ragged := by
  rw [selectRows_map]
  cases hsc : indexRows codes sel with
  | none => rfl
  | some sc =>
    simp only [Option.bind_some, Option.map_some]
    rw [C02_materialise_view data sc (fun c hc => h c (indexRows_mem _ _ _ hsc c hc))]
    rfl

/-! ### `a[i, j]`, `a[[i…], j]` through `_get_element` -/

omit h in
theorem getElement_eq (is : List Int) (j : Int) :
    getElement codes (is.map (fun i => (i, j)))
      = is.mapM (fun i => (getIdx codes i).bind (fun c => elemIdx c.1 c.2 j)) := by
  unfold getElement
  simp only []
  rw [mapM_map]
  apply mapM_congr
  intro i _
  simp only []
  cases hg : getIdx codes i with
  | none => split <;> rfl
  | some c =>
    obtain ⟨s, l⟩ := c
    have := getIdx_some_lt hg
    rw [if_neg (by omega)]
    rfl

theorem getElement_gather (is : List Int) (j : Int) :
    (getElement codes (is.map (fun i => (i, j)))).bind (gather data)
      = is.mapM (fun i => (Py.index (codes.map (cut data)) i).bind (fun r => Py.index r j)) := by
  rw [getElement_eq]
  unfold gather
  rw [mapM_bind_mapM]
  apply mapM_congr
  intro i _
  simp only [Py.index]
  rw [getIdx_map]
  cases hg : getIdx codes i with
  | none => rfl
  | some c =>
    simp only [Option.bind_some, Option.map_some]
    exact elemIdx_getIdx data c (h c (getIdx_mem hg)) j

theorem getitem_list_int (is : List Int) (j : Int) :
    (getElement codes (is.map (fun i => (i, j)))).bind (fun idx => (gather data idx).map Res.vec)
      = (Py.selectRows (codes.map (cut data)) (.list is)).bind
          (fun rs => (rs.mapM (Py.index · j)).map Res.vec) := by
  have := getElement_gather data codes h is j
  simp only [Py.selectRows]
  rw [← map_bind', ← map_bind', this, mapM_bind_mapM]

theorem getitem_int_int (i j : Int) :
    (getElement codes [(i, j)]).bind (fun idx => (gather data idx).bind (fun l => l.head?.map Res.scalar))
      = (Py.index (codes.map (cut data)) i).bind (fun r => (Py.index r j).map Res.scalar) := by
  have := getElement_gather data codes h [i] j
  simp only [List.map_cons, List.map_nil] at this
  rw [← Option.bind_assoc, this, mapM_cons']
  simp only [mapM_nil', Option.map_some]
  cases (Py.index (codes.map (cut data)) i) with
  | none => rfl
  | some r => cases hr : Py.index r j <;> simp [hr]

/-! ### `a[sel, j]` through `col_slice(int)` -/

omit h in
theorem col_int_clean (len : Nat) (s0 j : Int) :
    Gen.Cur.col_slice_int len s0 1 j
      = (normIdx len j).map (fun (m : Nat) => (s0 + (m : Int), (1 : Int))) := by
  rw [C02_col_int]
  cases normIdx len j <;> rfl

omit h in
theorem colSliceInt_viewRows (sc : List (Nat × Nat)) (j : Int) :
    colSliceInt (viewRows sc) j
      = sc.mapM (fun c => (normIdx c.2 j).map
          (fun (m : Nat) => (((c.1 : Int) + (m : Int), (1 : Int), (1 : Int)) : Row3))) := by
  unfold colSliceInt viewRows
  rw [mapM_map, ← mapM_map_post]
  apply mapM_congr
  intro c _
  simp only []
  rw [col_int_clean]
  cases normIdx c.2 j <;> rfl

omit h in
/-- a view of one-cell rows with unit step: the flat indices are the starts -/
theorem view2FlatIndices_unit (rows : List Row3) (hr : ∀ r ∈ rows, r.2 = ((1 : Int), (1 : Int))) :
    view2FlatIndices rows = rows.map (·.1) := by
  rw [view2FlatIndices_eq_gi rows 1 (fun r hr' => by rw [hr r hr']) (fun r hr' => by rw [hr r hr']; decide)]
  induction rows with
  | nil => rfl
  | cons r rs ih =>
    have e := hr r (by simp)
    simp only [List.map_cons, List.flatten_cons]
    rw [ih (fun r' hr' => hr r' (by simp [hr']))]
    simp [cellsOf, e, Py.prog]

theorem colint_sc (sc : List (Nat × Nat)) (hsc : ∀ c ∈ sc, c ∈ codes) (j : Int) :
    (colSliceInt (viewRows sc) j).bind (fun rows3 => gather data (view2FlatIndices rows3))
      = (sc.map (cut data)).mapM (Py.index · j) := by
  rw [colSliceInt_viewRows]
  have step : ∀ rows3, sc.mapM (fun c => (normIdx c.2 j).map
        (fun (m : Nat) => (((c.1 : Int) + (m : Int), (1 : Int), (1 : Int)) : Row3))) = some rows3 →
      gather data (view2FlatIndices rows3) = rows3.mapM (fun r => getIdx data r.1) := by
    intro rows3 hrows
    rw [view2FlatIndices_unit rows3]
    · unfold gather; rw [mapM_map]
    · intro r hr
      obtain ⟨c, _, hc⟩ := mapM_some_mem _ _ _ hrows r hr
      cases hn : normIdx c.2 j with
      | none => simp [hn] at hc
      | some m => simp [hn] at hc; rw [← hc]
  rw [bind_congr' step, mapM_bind_mapM, mapM_map]
  apply mapM_congr
  intro c hc
  simp only [Py.index]
  rw [getIdx_cut data c (h c (hsc c hc))]
  cases normIdx c.2 j <;> rfl

theorem getitem_sel_int (sel : RowSel) (j : Int) :
    (indexRows codes sel).bind (fun sc => (colSliceInt (viewRows sc) j).bind (fun rows3 =>
        (gather data (view2FlatIndices rows3)).map Res.vec))
      = (Py.selectRows (codes.map (cut data)) sel).bind
          (fun rs => (rs.mapM (Py.index · j)).map Res.vec) := by
  rw [selectRows_map]
  cases hsc : indexRows codes sel with
  | none => rfl
  | some sc =>
    simp only [Option.bind_some, Option.map_some]
    rw [← map_bind', colint_sc data codes h sc (indexRows_mem _ _ _ hsc) j]

/-! ### `a[i, x:y:k]`, `a[sel, x:y:k]` through `col_slice(slice)` -/

omit h in
theorem colSliceSlice_viewRows (sc : List (Nat × Nat)) (x y k : Option Int) :
    colSliceSlice (viewRows sc) x y k
      = if k = some 0 then none else some (sc.map (fun c => sliceRow c x y k)) := by
  unfold colSliceSlice viewRows
  rw [List.map_map]
  rfl

theorem getitem_int_slice (i : Int) (x y k : Option Int) :
    (indexRows codes (.int i)).bind (fun sc => (colSliceSlice (viewRows sc) x y k).bind (fun rows3 =>
        (gather data (view2FlatIndices rows3)).map Res.vec))
      = if k = some 0 then none
        else (Py.index (codes.map (cut data)) i).map (fun r => Res.vec (Py.slice r x y (k.getD 1))) := by
  simp only [indexRows, Py.index, getIdx_map]
  cases hg : getIdx codes i with
  | none => split <;> rfl
  | some c =>
    have hc := h c (getIdx_mem hg)
    simp only [Option.map_some, Option.bind_some, colSliceSlice_viewRows]
    by_cases hk : k = some 0
    · rw [if_pos hk, if_pos hk]; rfl
    · rw [if_neg hk, if_neg hk]
      simp only [Option.bind_some, List.map_cons, List.map_nil]
      rw [view2FlatIndices_eq_gi [sliceRow c x y k] (1 * k.getD 1)
        (fun r hr => by simp at hr; subst hr; exact sliceRow_step c x y k hk)
        (fun r hr => by simp at hr; subst hr; exact sliceRow_len_nonneg c x y k hk)]
      simp only [List.map_cons, List.map_nil, List.flatten_cons, List.flatten_nil, List.append_nil]
      rw [gather_in_range_gi data _ (sliceRow_in_range data c hc x y k hk),
        sliceRow_read data c hc x y k hk]
      rfl

theorem getitem_sel_slice (sel : RowSel) (x y k : Option Int) :
    (indexRows codes sel).bind (fun sc => (colSliceSlice (viewRows sc) x y k).bind (fun rows3 =>
        (materialiseView2 data rows3).map Res.ragged))
      = if k = some 0 then none
        else (Py.selectRows (codes.map (cut data)) sel).map
          (fun rs => Res.ragged (rs.map (fun r => Py.slice r x y (k.getD 1)))) := by
  rw [selectRows_map]
  cases hsc : indexRows codes sel with
  | none => split <;> rfl
  | some sc =>
    have hmem := indexRows_mem _ _ _ hsc
    simp only [Option.map_some, Option.bind_some, colSliceSlice_viewRows]
    by_cases hk : k = some 0
    · rw [if_pos hk, if_pos hk]; rfl
    · rw [if_neg hk, if_neg hk]
      simp only [Option.bind_some]
      rw [C02_materialise_view2 data (sc.map (fun c => sliceRow c x y k)) (1 * k.getD 1)]
      · simp only [Option.map_some, List.map_map]
        congr 2
        apply List.map_congr_left
        intro c hc
        exact sliceRow_read data c (h c (hmem c hc)) x y k hk
      · intro r hr
        obtain ⟨c, _, rfl⟩ := List.mem_map.mp hr
        exact sliceRow_step c x y k hk
      · intro r hr
        obtain ⟨c, _, rfl⟩ := List.mem_map.mp hr
        exact sliceRow_len_nonneg c x y k hk
      · intro r hr
        obtain ⟨c, hc, rfl⟩ := List.mem_map.mp hr
        exact sliceRow_in_range data c (h c (hmem c hc)) x y k hk

/-! ### assembly -/

/-- `getitem` on any array whose codes stay inside the buffer -/
theorem getitem_codes (idx : Index) :
    getitem ⟨data, ⟨codes⟩⟩ idx = Py.getitem (codes.map (cut data)) idx := by
  cases idx with
  | rows sel =>
    cases sel with
    | int i => simp only [getitem, Py.getitem]; exact getitem_rows_int data codes i
    | slice a b k => simp only [getitem, Py.getitem]; exact getitem_rows_sel data codes h _
    | list is => simp only [getitem, Py.getitem]; exact getitem_rows_sel data codes h _
    | mask bs => simp only [getitem, Py.getitem]; exact getitem_rows_sel data codes h _
    | all => simp only [getitem, Py.getitem]; exact getitem_rows_sel data codes h _
  | rowcol sel col =>
    cases col with
    | int j =>
      cases sel with
      | int i => simp only [getitem, Py.getitem]; exact getitem_int_int data codes h i j
      | list is => simp only [getitem, Py.getitem]; exact getitem_list_int data codes h is j
      | slice a b k => simp only [getitem, Py.getitem]; exact getitem_sel_int data codes h _ j
      | mask bs => simp only [getitem, Py.getitem]; exact getitem_sel_int data codes h _ j
      | all => simp only [getitem, Py.getitem]; exact getitem_sel_int data codes h _ j
    | slice x y k =>
      cases sel with
      | int i => simp only [getitem, Py.getitem]; exact getitem_int_slice data codes h i x y k
      | list is => simp only [getitem, Py.getitem]; exact getitem_sel_slice data codes h _ x y k
      | slice a b k' => simp only [getitem, Py.getitem]; exact getitem_sel_slice data codes h _ x y k
      | mask bs => simp only [getitem, Py.getitem]; exact getitem_sel_slice data codes h _ x y k
      | all => simp only [getitem, Py.getitem]; exact getitem_sel_slice data codes h _ x y k

end

/-! ### the array built from a list of rows -/

theorem exclScanFrom_zip_bound (acc : Nat) (ls : List Nat) :
    ∀ c ∈ (exclScanFrom acc ls).zip ls, c.1 + c.2 ≤ acc + ls.sum := by
  induction ls generalizing acc with
  | nil => simp [exclScanFrom]
  | cons x xs ih =>
    intro c hc
    simp only [exclScanFrom, List.zip_cons_cons, List.mem_cons] at hc
    rcases hc with rfl | hc
    · simp
    · have := ih (acc + x) c hc
      simp only [List.sum_cons]; omega

theorem ofRows_codes_bound {α} (rows : List (List α)) :
    ∀ c ∈ (RA.ofRows rows).shape.codes, c.1 + c.2 ≤ (RA.ofRows rows).data.length := by
  intro c hc
  simp only [RA.ofRows, ofLens_codes, exclScan] at hc
  have := exclScanFrom_zip_bound 0 _ c hc
  simp only [RA.ofRows, List.length_flatten]
  omega

theorem ofRows_cut {α} (rows : List (List α)) :
    (RA.ofRows rows).shape.codes.map (cut (RA.ofRows rows).data) = rows := by
  simp only [RA.ofRows, ofLens_codes, exclScan]
  exact rows_of_scan [] rows

end Model
