import NpsVerif.Proofs.RLIndexBase
import NpsVerif.Proofs.GetItemSel
/-! # Run-length arrays: integer indexing -/
namespace Proofs.RLIndex
open Model Model.RLA
variable {α : Type}

theorem len_cons (e0 : Nat) (es : List Nat) (vs : List α) :
    (RLA.mk (e0 :: es) vs).len = es.getLast?.getD 0 := by
  simp [len]

/-- `len` is the number of decoded cells (own proof, no assumption needed) -/
theorem len_eq_decode_length (r : RLA α) (h : r.Valid) : r.len = r.decode.length := by
  obtain ⟨es, hev, hl, hp⟩ := valid_cons h
  have : r = RLA.mk (0 :: es) r.values := by cases r; simp_all
  rw [this, len_cons, decode_cons, dec_length 0 es r.values hl (mono_of_strict hp)]
  simp

theorem valid_getLast (r : RLA α) (h : r.Valid) : r.events.getLast? = some r.len := by
  obtain ⟨es, hev, hl, hp⟩ := valid_cons h
  unfold len
  rw [hev]
  cases es with
  | nil => simp
  | cons x xs =>
    simp only [List.drop_one, List.tail_cons, List.getLast?_cons_cons]
    cases h : (x :: xs).getLast? with
    | none => simp at h
    | some y => rfl

theorem valid_head (r : RLA α) (h : r.Valid) : r.events[0]? = some 0 := by
  obtain ⟨es, hev, _, _⟩ := valid_cons h
  rw [hev]; rfl

/-- the dense cell at `p` is the value of the run found by `searchsorted(…, side="right") - 1` -/
theorem decode_getElem? (r : RLA α) (h : r.Valid) (p : Nat) (hp : p < r.len) :
    r.decode[p]? = r.values[Np.searchsortedRightNat r.events p - 1]? := by
  obtain ⟨h0, hl, hpw⟩ := (valid_iff r).1 h
  obtain ⟨a, b, _, _, ha, hb, h1, h2⟩ :=
    run_at r.events (mono_of_strict hpw) p 0 r.len (valid_head r h) (valid_getLast r h)
      (Nat.zero_le _) hp
  have := decode_run r.events r.values hl (mono_of_strict hpw) _ p 0 a b (valid_head r h) ha hb h1 h2
  simpa [Np.searchsortedRightNat] using this

theorem getPosition_eq (r : RLA α) (h : r.Valid) (i : Int) :
    r.getPosition i = Py.index r.decode i := by
  have hlen := len_eq_decode_length r h
  unfold getPosition Py.index Np.getIdx Np.normIdx
  simp only []
  rw [← hlen]
  by_cases h0 : 0 ≤ i
  · by_cases h1 : i < (r.len : Int)
    · rw [if_neg (by omega), if_pos h0, if_pos h1, if_neg (by omega)]
      simp only [Option.bind_some]
      exact (decode_getElem? r h i.toNat (by omega)).symm
    · rw [if_pos (by omega), if_pos h0, if_neg h1]; rfl
  · by_cases h1 : -(r.len : Int) ≤ i
    · rw [if_neg (by omega), if_neg h0, if_pos h1, if_pos (by omega)]
      simp only [Option.bind_some]
      exact (decode_getElem? r h _ (by omega)).symm
    · rw [if_pos (by omega), if_neg h0, if_neg h1]; rfl

end Proofs.RLIndex
