import NpsVerif.Proofs.RLArithBasic
/-! Decoding a (not necessarily strict) boundary list whose values are read off a dense list. -/
namespace Model.RLA
variable {α β γ : Type}

theorem const_run (D : List γ) (a b : Nat) (hc : ∀ p, a < p → p < b → D[p]? = D[p - 1]?) (i : Nat)
    (hi : a + i < b) : D[a + i]? = D[a]? := by
  induction i with
  | zero => rfl
  | succ i ih =>
    rw [hc (a + (i + 1)) (by omega) hi, show a + (i + 1) - 1 = a + i by omega]
    exact ih (by omega)

theorem seg_eq_replicate (D : List γ) (a b : Nat) (d : γ) (hd : D[a]? = some d)
    (hc : ∀ p, a < p → p < b → D[p]? = D[p - 1]?) :
    (D.drop a).take (b - a) = List.replicate (b - a) d := by
  apply List.ext_getElem?
  intro i
  rw [List.getElem?_take, List.getElem?_replicate]
  by_cases hi : i < b - a
  · simp only [hi, if_true, List.getElem?_drop]
    rw [const_run D a b hc i (by omega), hd]
  · simp [hi]

/-- Lemma A: a dense list `D` is recovered from any sorted boundary list containing all its change
points, with the values read off `D` at the boundaries (empty runs contribute nothing). -/
theorem dec_boundaries (D : List γ) (a : Nat) (E : List Nat) (hs : (a :: E).Pairwise (· ≤ ·))
    (hlt : ∀ e ∈ a :: E, e < D.length)
    (hc : ∀ p, a < p → p < D.length → p ∉ E → D[p]? = D[p - 1]?) :
    dec ((a :: E) ++ [D.length]) ((a :: E).filterMap (D[·]?)) = D.drop a := by
  induction E generalizing a with
  | nil =>
    have ha : a < D.length := hlt a (by simp)
    have hd : D[a]? = some D[a] := List.getElem?_eq_getElem ha
    have := seg_eq_replicate D a D.length D[a] hd (fun p h1 h2 => hc p h1 h2 (by simp))
    simp only [List.filterMap_cons, hd, List.filterMap_nil, List.cons_append, List.nil_append, dec,
      List.append_nil]
    rw [← this, List.take_of_length_le (by simp)]
  | cons b E ih =>
    have ha : a < D.length := hlt a (by simp)
    have hd : D[a]? = some D[a] := List.getElem?_eq_getElem ha
    have hp := List.pairwise_cons.1 hs
    have hab : a ≤ b := hp.1 b (by simp)
    have hbn : b < D.length := hlt b (by simp)
    have hseg := seg_eq_replicate D a b D[a] hd (by
      intro p h1 h2
      apply hc p h1 (by omega)
      intro hm
      rcases List.mem_cons.1 hm with rfl | hm
      · omega
      · have := (List.pairwise_cons.1 hp.2).1 p hm
        omega)
    have hih := ih b hp.2 (fun e he => hlt e (List.mem_cons_of_mem _ he)) (by
      intro p h1 h2 h3
      apply hc p (by omega) h2
      intro hm
      rcases List.mem_cons.1 hm with rfl | hm
      · omega
      · exact h3 hm)
    rw [List.filterMap_cons, hd]
    simp only [List.cons_append, dec]
    have e1 : b :: (E ++ [D.length]) = (b :: E) ++ [D.length] := rfl
    rw [e1, hih, ← hseg]
    rw [show D.drop b = (D.drop a).drop (b - a) by rw [List.drop_drop]; congr 1; omega]
    exact List.take_append_drop _ _
end Model.RLA
