import NpsVerif.Model.RunLength
/-!
# Run-length arrays: structural lemmas about `decode`, `strictInc`, `len`, `flatnonzero`
(helpers for C14; also meant to be used by C15 / C16)
-/
open Model Model.RLA Np

namespace Proofs.RL
variable {α : Type}

/-! ## `runLens` / `decode` structurally -/

theorem runLens_cons_cons (e0 e1 : Nat) (es : List Nat) :
    runLens (e0 :: e1 :: es) = (e1 - e0) :: runLens (e1 :: es) := by
  simp [runLens]

@[simp] theorem runLens_nil : runLens [] = [] := by simp [runLens]
@[simp] theorem runLens_single (e : Nat) : runLens [e] = [] := by simp [runLens]

/-- the structural equation of `decode` -/
theorem decode_cons_cons (e0 e1 : Nat) (es : List Nat) (v : α) (vs : List α) :
    (RLA.mk (e0 :: e1 :: es) (v :: vs)).decode
      = List.replicate (e1 - e0) v ++ (RLA.mk (e1 :: es) vs).decode := by
  simp [decode, runLens]

@[simp] theorem decode_nil_events (vs : List α) : (RLA.mk [] vs).decode = [] := by
  simp [decode, runLens]

@[simp] theorem decode_single_event (e : Nat) (vs : List α) : (RLA.mk [e] vs).decode = [] := by
  simp [decode, runLens]

@[simp] theorem decode_nil_values (es : List Nat) : (RLA.mk es ([] : List α)).decode = [] := by
  simp [decode]

/-- an empty first run can be dropped -/
theorem decode_cons_same (e : Nat) (es : List Nat) (v : α) (vs : List α) :
    (RLA.mk (e :: e :: es) (v :: vs)).decode = (RLA.mk (e :: es) vs).decode := by
  simp [decode_cons_cons]

/-- peel one cell off a non-empty first run -/
theorem decode_head_shift (k e1 : Nat) (es : List Nat) (v : α) (vs : List α) (h : k < e1) :
    (RLA.mk (k :: e1 :: es) (v :: vs)).decode
      = v :: (RLA.mk ((k + 1) :: e1 :: es) (v :: vs)).decode := by
  rw [decode_cons_cons, decode_cons_cons]
  have : e1 - k = (e1 - (k + 1)) + 1 := by omega
  rw [this, List.replicate_succ]; simp

/-- two adjacent runs with the same value are one run -/
theorem decode_merge (e0 e1 e2 : Nat) (es : List Nat) (v : α) (vs : List α)
    (h01 : e0 ≤ e1) (h12 : e1 ≤ e2) :
    (RLA.mk (e0 :: e1 :: e2 :: es) (v :: v :: vs)).decode
      = (RLA.mk (e0 :: e2 :: es) (v :: vs)).decode := by
  rw [decode_cons_cons, decode_cons_cons, decode_cons_cons, ← List.append_assoc,
    List.replicate_append_replicate]
  congr 2; omega

/-! ## `strictInc` -/

@[simp] theorem strictInc_nil : strictInc [] = true := by simp [strictInc]
@[simp] theorem strictInc_single (a : Nat) : strictInc [a] = true := by simp [strictInc]

theorem strictInc_cons_cons (a b : Nat) (l : List Nat) :
    strictInc (a :: b :: l) = true ↔ a < b ∧ strictInc (b :: l) = true := by
  simp [strictInc]

theorem strictInc_tail (a : Nat) (l : List Nat) (h : strictInc (a :: l) = true) :
    strictInc l = true := by
  cases l with
  | nil => simp
  | cons b l => exact ((strictInc_cons_cons a b l).mp h).2

/-- lowering the head keeps strict monotonicity -/
theorem strictInc_head_le (a a' : Nat) (l : List Nat) (ha : a ≤ a')
    (h : strictInc (a' :: l) = true) : strictInc (a :: l) = true := by
  cases l with
  | nil => simp
  | cons b l =>
    rw [strictInc_cons_cons] at h ⊢
    exact ⟨by omega, h.2⟩

/-- dropping the second element keeps strict monotonicity -/
theorem strictInc_drop_second (a b : Nat) (l : List Nat) (h : strictInc (a :: b :: l) = true) :
    strictInc (a :: l) = true := by
  rw [strictInc_cons_cons] at h
  exact strictInc_head_le a b l (by omega) h.2

theorem strictInc_iff_pairwise (l : List Nat) : strictInc l = true ↔ l.Pairwise (· < ·) := by
  induction l with
  | nil => simp
  | cons a l ih =>
    cases l with
    | nil => simp
    | cons b l =>
      rw [strictInc_cons_cons, ih]
      simp only [List.pairwise_cons]
      constructor
      · rintro ⟨hab, hb, hl⟩
        refine ⟨?_, hb, hl⟩
        intro x hx
        rcases List.mem_cons.mp hx with rfl | hx
        · exact hab
        · exact Nat.lt_trans hab (hb x hx)
      · rintro ⟨ha, hb, hl⟩
        exact ⟨ha b (by simp), hb, hl⟩

theorem strictInc_pairwise_le (l : List Nat) (h : strictInc l = true) : l.Pairwise (· ≤ ·) :=
  ((strictInc_iff_pairwise l).mp h).imp (fun h => Nat.le_of_lt h)

/-! ## `Valid` unpacked -/

theorem valid_iff (r : RLA α) :
    r.Valid ↔ r.events.head? = some 0 ∧ r.events.length = r.values.length + 1 ∧
      strictInc r.events = true := by
  simp [Valid, validB, and_assoc]

/-- a valid run-length array is `⟨0 :: es, vs⟩` with one value per later boundary -/
theorem valid_shape (r : RLA α) (h : r.Valid) :
    ∃ es, r.events = 0 :: es ∧ es.length = r.values.length ∧ strictInc (0 :: es) = true := by
  obtain ⟨h0, hl, hs⟩ := (valid_iff r).mp h
  cases hev : r.events with
  | nil => simp [hev] at hl
  | cons e es =>
    rw [hev] at h0 hl hs
    simp only [List.head?_cons, Option.some.injEq] at h0
    subst h0
    exact ⟨es, rfl, by simpa using hl, hs⟩

theorem valid_mk (es : List Nat) (vs : List α) (hl : es.length = vs.length)
    (hs : strictInc (0 :: es) = true) : (RLA.mk (0 :: es) vs).Valid := by
  rw [valid_iff]; exact ⟨rfl, by simp [hl], hs⟩

/-! ## `len` -/

theorem len_cons (e : Nat) (es : List Nat) (vs : List α) :
    (RLA.mk (e :: es) vs).len = es.getLast?.getD 0 := by
  simp [len]

/-- length of `decode` = last boundary − first boundary (monotone boundaries suffice) -/
theorem decode_length_aux (e0 : Nat) (es : List Nat) (vs : List α) (hl : es.length = vs.length)
    (hm : (e0 :: es).Pairwise (· ≤ ·)) :
    e0 ≤ es.getLast?.getD e0 ∧
    (RLA.mk (e0 :: es) vs).decode.length = es.getLast?.getD e0 - e0 := by
  induction es generalizing e0 vs with
  | nil => simp
  | cons e1 es ih =>
    cases vs with
    | nil => simp at hl
    | cons v vs =>
      have h01 : e0 ≤ e1 := (List.pairwise_cons.mp hm).1 e1 (by simp)
      obtain ⟨ih1, ih2⟩ := ih e1 vs (by simpa using hl) (List.pairwise_cons.mp hm).2
      rw [decode_cons_cons, List.length_append, ih2, List.getLast?_cons]
      simp only [List.length_replicate, Option.getD_some]
      omega

theorem decode_length (e0 : Nat) (es : List Nat) (vs : List α) (hl : es.length = vs.length)
    (hm : (e0 :: es).Pairwise (· ≤ ·)) :
    (RLA.mk (e0 :: es) vs).decode.length = es.getLast?.getD e0 - e0 :=
  (decode_length_aux e0 es vs hl hm).2

/-- C14 `len`: `ends[-1]` is the number of cells -/
theorem len_eq_decode_length (r : RLA α) (h : r.Valid) : r.len = r.decode.length := by
  obtain ⟨es, hev, hl, hs⟩ := valid_shape r h
  obtain ⟨ev, vs⟩ := r
  simp only at hev hl
  subst hev
  rw [len_cons, decode_length 0 es vs hl (strictInc_pairwise_le _ hs)]
  simp

/-! ## `flatnonzero` -/

theorem mem_flatnonzeroFrom (k p : Nat) (m : List Bool) :
    p ∈ flatnonzeroFrom k m ↔ k ≤ p ∧ m[p - k]? = some true := by
  induction m generalizing k with
  | nil => simp [flatnonzeroFrom]
  | cons b bs ih =>
    simp only [flatnonzeroFrom]
    by_cases hpk : p = k
    · subst hpk
      cases b
      · simp only [Bool.false_eq_true, if_false]; rw [ih]; simp; omega
      · simp
    · have key : (k ≤ p ∧ (b :: bs)[p - k]? = some true) ↔ (k + 1 ≤ p ∧ bs[p - (k + 1)]? = some true) := by
        constructor
        · rintro ⟨h1, h2⟩
          have : p - k = (p - (k + 1)) + 1 := by omega
          rw [this, List.getElem?_cons_succ] at h2
          exact ⟨by omega, h2⟩
        · rintro ⟨h1, h2⟩
          have : p - k = (p - (k + 1)) + 1 := by omega
          rw [this, List.getElem?_cons_succ]
          exact ⟨by omega, h2⟩
      cases b
      · simp only [Bool.false_eq_true, if_false]; rw [ih, key]
      · simp only [if_true, List.mem_cons]; rw [ih, key]; simp [hpk]

theorem flatnonzeroFrom_ge (k p : Nat) (m : List Bool) (h : p ∈ flatnonzeroFrom k m) : k ≤ p :=
  ((mem_flatnonzeroFrom k p m).mp h).1

theorem flatnonzeroFrom_map_succ (k : Nat) (m : List Bool) :
    (flatnonzeroFrom k m).map (· + 1) = flatnonzeroFrom (k + 1) m := by
  induction m generalizing k with
  | nil => simp [flatnonzeroFrom]
  | cons b bs ih => cases b <;> simp [flatnonzeroFrom, ih]

theorem flatnonzero_map_succ (m : List Bool) :
    (flatnonzero m).map (· + 1) = flatnonzero (false :: m) := by
  simp [flatnonzero, flatnonzeroFrom, flatnonzeroFrom_map_succ]

/-! ## adjacent-pairs predicate -/

/-- `R` holds between every two neighbouring entries -/
def AdjAll (R : α → α → Prop) : List α → Prop
  | a :: b :: l => R a b ∧ AdjAll R (b :: l)
  | _ => True

@[simp] theorem adjAll_nil (R : α → α → Prop) : AdjAll R [] := trivial
@[simp] theorem adjAll_single (R : α → α → Prop) (a : α) : AdjAll R [a] := trivial
theorem adjAll_cons_cons (R : α → α → Prop) (a b : α) (l : List α) :
    AdjAll R (a :: b :: l) ↔ R a b ∧ AdjAll R (b :: l) := Iff.rfl

theorem adjAll_iff_getElem? (R : α → α → Prop) (l : List α) :
    AdjAll R l ↔ ∀ i x y, l[i]? = some x → l[i + 1]? = some y → R x y := by
  induction l with
  | nil => simp
  | cons a l ih =>
    cases l with
    | nil => simp
    | cons b l =>
      rw [adjAll_cons_cons, ih]
      constructor
      · rintro ⟨hab, h⟩ i x y hx hy
        cases i with
        | zero =>
          simp only [List.getElem?_cons_zero, Option.some.injEq, Nat.zero_add,
            List.getElem?_cons_succ] at hx hy
          subst hx; subst hy; exact hab
        | succ i =>
          rw [List.getElem?_cons_succ] at hx hy
          exact h i x y hx hy
      · intro h
        refine ⟨h 0 a b (by simp) (by simp), ?_⟩
        intro i x y hx hy
        exact h (i + 1) x y (by rw [List.getElem?_cons_succ]; exact hx)
          (by rw [List.getElem?_cons_succ]; exact hy)

end Proofs.RL
