import NpsVerif.Model.Heap
/-!
# Reads are pure; traces of concatenated programs (helpers for property C10) and
frame facts about the reference store (helpers for property C06)
-/
namespace Proofs.HeapReads
open Model Model.Heap

/-- the state after running a program -/
def final (s : State) : List Stmt → State
  | [] => s
  | st :: rest => final (step s st).1 rest

theorem run_length (s : State) (p : List Stmt) : (run s p).length = p.length := by
  induction p generalizing s with
  | nil => rfl
  | cons st rest ih => simp [run, ih]

theorem run_append (s : State) (p q : List Stmt) : run s (p ++ q) = run s p ++ run (final s p) q := by
  induction p generalizing s with
  | nil => rfl
  | cons st rest ih => simp [run, final, ih]

theorem final_append (s : State) (p q : List Stmt) : final s (p ++ q) = final (final s p) q := by
  induction p generalizing s with
  | nil => rfl
  | cons st rest ih => simp [final, ih]

theorem step_read (s : State) (st : Stmt) (h : st.isRead = true) : (step s st).1 = s := by
  cases st <;> first | rfl | (simp [Stmt.isRead] at h)

theorem stepS_read (s : Store) (st : Stmt) (h : st.isRead = true) : (stepS s st).1 = s := by
  cases st <;> first | rfl | (simp [Stmt.isRead] at h)

theorem eraseIdx_middle {α} (A B : List α) (o : α) (k : Nat) (hk : A.length = k) :
    (A ++ o :: B).eraseIdx k = A ++ B := by
  subst hk
  rw [List.eraseIdx_append_of_length_le (Nat.le_refl _)]
  simp

/-- inserting a read anywhere in a program run from ANY state removes only its own observation -/
theorem read_insertion (s : State) (p1 p2 : List Stmt) (r : Stmt) (h : r.isRead = true) :
    (run s (p1 ++ r :: p2)).eraseIdx p1.length = run s (p1 ++ p2) := by
  rw [run_append, run_append]
  simp only [run, step_read _ r h]
  exact eraseIdx_middle _ _ _ _ (run_length s p1)

/-! ## the reference store -/

theorem stepNewS_made (s : Store) (o : Option (List (List Int))) (h : (stepNewS s o).2 = .made true) :
    (stepNewS s o).1.vars = s.vars ++ [some s.cells.length] ∧
      (stepNewS s o).1.cells.length = s.cells.length + 1 := by
  cases o with
  | none => simp [stepNewS] at h
  | some r => simp [stepNewS, Store.alloc]

theorem assign_frame (s : Store) (x y : Nat) (idx : Index) (v : Value Int)
    (hne : s.var x ≠ s.var y) : (stepS s (.assign x idx v)).1.val y = s.val y := by
  simp only [stepS]
  split
  · rename_i r' c _ hc
    unfold Store.val
    show (s.var y).bind ((s.cells.set c r')[·]?) = _
    cases hy : s.var y with
    | none => rfl
    | some d =>
      have : c ≠ d := by
        intro e; subst e; exact hne (hc.trans hy.symm)
      simp only [Option.bind_some]
      exact List.getElem?_set_ne this
  · rfl

theorem poke_frame (s : Store) (x y k : Nat) (v : Int)
    (hne : s.var x ≠ s.var y) : (stepS s (.poke x k v)).1.val y = s.val y := by
  simp only [stepS]
  split
  · rename_i r c _ hc
    split
    · unfold Store.val
      show (s.var y).bind ((s.cells.set c (Spec.setFlat r k v))[·]?) = _
      cases hy : s.var y with
      | none => rfl
      | some d =>
        have : c ≠ d := by
          intro e; subst e; exact hne (hc.trans hy.symm)
        simp only [Option.bind_some]
        exact List.getElem?_set_ne this
    · rfl
  · rfl

theorem alias_shares (s : Store) (x : Nat) (hx : (s.var x).isSome) :
    (stepS s (.alias x)).1.var s.vars.length = s.var x := by
  cases hv : s.var x with
  | none => simp [hv] at hx
  | some c =>
    simp only [stepS, hv]
    simp [Store.var]

end Proofs.HeapReads
