import NpsVerif.Model.SetItem
/-! C03, spec level: `Py.setCell`, folding it over a write list, the coordinate grid. -/
namespace Model.SI
open Np

/-- content of cell `(r, c)` of a list of rows -/
def cellAt {α} (rows : List (List α)) (q : Nat × Nat) : Option α := (rows[q.1]?).bind (·[q.2]?)

/-- the write list of `Py.setitem` -/
def writeCells {α} (rows : List (List α)) (ws : List ((Nat × Nat) × α)) : List (List α) :=
  ws.foldl (fun acc cv => Py.setCell acc cv.1 cv.2) rows

theorem writeCells_nil {α} (rows : List (List α)) : writeCells rows [] = rows := rfl

theorem writeCells_cons {α} (rows : List (List α)) (w : (Nat × Nat) × α) (ws : List ((Nat × Nat) × α)) :
    writeCells rows (w :: ws) = writeCells (Py.setCell rows w.1 w.2) ws := rfl

/-! ### one write -/

theorem setCell_lengths {α} (rows : List (List α)) (rc : Nat × Nat) (v : α) :
    (Py.setCell rows rc v).map List.length = rows.map List.length := by
  unfold Py.setCell
  apply List.ext_getElem?
  intro i
  simp only [List.getElem?_map, List.getElem?_modify]
  cases rows[i]? with
  | none => rfl
  | some row =>
    simp only [Option.map_some]
    split <;> simp

theorem cellAt_setCell {α} (rows : List (List α)) (rc q : Nat × Nat) (v : α) :
    cellAt (Py.setCell rows rc v) q = if rc = q then (cellAt rows q).map (fun _ => v) else cellAt rows q := by
  obtain ⟨r, c⟩ := rc
  obtain ⟨r', c'⟩ := q
  unfold cellAt Py.setCell
  simp only [List.getElem?_modify]
  by_cases hr : r = r'
  · subst hr
    cases hrow : rows[r]? with
    | none => simp
    | some row =>
      simp only [if_true, Option.bind_some]
      by_cases hc : c = c'
      · subst hc
        simp only [if_true]
        by_cases hl : c < row.length
        · simp [hl]
        · simp [hl]
      · have : ¬ ((r, c) = (r, c')) := by simp [hc]
        simp [hc]
  · have : ¬ ((r, c) = (r', c')) := by simp [hr]
    rw [if_neg this]
    cases rows[r']? with
    | none => simp
    | some row => simp [hr]

/-! ### the fold -/

theorem writeCells_lengths {α} (rows : List (List α)) (ws : List ((Nat × Nat) × α)) :
    (writeCells rows ws).map List.length = rows.map List.length := by
  induction ws generalizing rows with
  | nil => rfl
  | cons w ws ih => rw [writeCells_cons, ih, setCell_lengths]

/-- frame: a cell no write addresses keeps its content -/
theorem cellAt_writeCells_frame {α} (rows : List (List α)) (ws : List ((Nat × Nat) × α)) (q : Nat × Nat)
    (h : ∀ w ∈ ws, w.1 ≠ q) : cellAt (writeCells rows ws) q = cellAt rows q := by
  induction ws generalizing rows with
  | nil => rfl
  | cons w ws ih =>
    rw [writeCells_cons, ih _ (fun w' hw' => h w' (by simp [hw'])), cellAt_setCell,
      if_neg (h w (by simp))]

/-- writing one value everywhere -/
theorem cellAt_writeCells_const {α} (rows : List (List α)) (cells : List (Nat × Nat)) (x : α) (q : Nat × Nat) :
    cellAt (writeCells rows (cells.map (fun c => (c, x)))) q
      = if q ∈ cells then (cellAt rows q).map (fun _ => x) else cellAt rows q := by
  induction cells generalizing rows with
  | nil => rfl
  | cons c cs ih =>
    rw [List.map_cons, writeCells_cons, ih, cellAt_setCell]
    by_cases hq : c = q
    · subst hq
      simp only [if_true, List.mem_cons, true_or]
      split <;> cases cellAt rows c <;> rfl
    · have hq' : ¬ q = c := fun e => hq e.symm
      rw [if_neg hq]
      by_cases hm : q ∈ cs
      · rw [if_pos hm, if_pos (List.mem_cons_of_mem _ hm)]
      · rw [if_neg hm, if_neg (by simp [hq', hm])]

theorem zip_replicate_eq {α β} (l : List α) (x : β) :
    l.zip (List.replicate l.length x) = l.map (fun c => (c, x)) := by
  induction l with
  | nil => rfl
  | cons a as ih => simp [List.replicate_succ, ih]

/-! ### the coordinate grid -/

theorem coords_getElem? {α} (rows : List (List α)) (i : Nat) :
    (Py.coords rows)[i]? = (rows[i]?).map (fun row => (List.range row.length).map (fun c => (i, c))) := by
  unfold Py.coords
  simp only [List.getElem?_map]
  by_cases hi : i < rows.length
  · have h1 : ((List.range rows.length).zip rows)[i]? = some (i, rows[i]) := by
      rw [List.getElem?_zip_eq_some]
      exact ⟨List.getElem?_range hi, List.getElem?_eq_getElem hi⟩
    rw [h1, List.getElem?_eq_getElem hi]
    rfl
  · have h1 : ((List.range rows.length).zip rows)[i]? = none := by
      apply List.getElem?_eq_none; simp; omega
    rw [h1, List.getElem?_eq_none (by omega)]
    rfl

theorem coords_lengths {α} (rows : List (List α)) :
    (Py.coords rows).map List.length = rows.map List.length := by
  apply List.ext_getElem?
  intro i
  simp only [List.getElem?_map, coords_getElem?]
  cases rows[i]? <;> simp

/-- every coordinate of the grid is a cell of the rows -/
theorem mem_coords_cellAt {α} (rows : List (List α)) (q : Nat × Nat) (h : q ∈ (Py.coords rows).flatten) :
    ∃ x, cellAt rows q = some x := by
  obtain ⟨l, hl, hq⟩ := List.mem_flatten.mp h
  obtain ⟨i, hi⟩ := List.getElem?_of_mem hl
  rw [coords_getElem?] at hi
  cases hrow : rows[i]? with
  | none => simp [hrow] at hi
  | some row =>
    simp only [hrow, Option.map_some, Option.some.injEq] at hi
    subst hi
    obtain ⟨c, hc, rfl⟩ := List.mem_map.mp hq
    have hc' : c < row.length := by simpa using hc
    exact ⟨row[c], by simp [cellAt, hrow, hc']⟩

end Model.SI
