import NpsVerif.Model.HashTable
/-!
# The specification side of C11 / C12: facts about association lists (`Spec.Dict`)
-/
open Model Model.HT

namespace Proofs.HT
variable {v : Type}

namespace Dict
open Spec Spec.Dict

theorem lookup_nil (k : Int) : Dict.lookup ([] : Dict v) k = none := rfl

theorem lookup_cons (p : Int × v) (d : Dict v) (k : Int) :
    Dict.lookup (p :: d) k = if p.1 = k then some p.2 else Dict.lookup d k := by
  unfold Dict.lookup
  by_cases h : p.1 = k
  · simp [h]
  · simp [h]

theorem lookup_none {d : Dict v} {k : Int} (h : k ∉ d.map (·.1)) : Dict.lookup d k = none := by
  induction d with
  | nil => rfl
  | cons p d ih =>
    simp only [List.map_cons, List.mem_cons, not_or] at h
    rw [lookup_cons, if_neg (fun e => h.1 e.symm)]
    exact ih h.2

theorem lookup_some_of_mem {d : Dict v} {k : Int} (h : k ∈ d.map (·.1)) : ∃ x, Dict.lookup d k = some x := by
  induction d with
  | nil => simp at h
  | cons p d ih =>
    rw [lookup_cons]
    by_cases hp : p.1 = k
    · exact ⟨p.2, by simp [hp]⟩
    · simp only [List.map_cons, List.mem_cons] at h
      rcases h with h | h
      · exact absurd h.symm hp
      · simpa [hp] using ih h

theorem mem_keys_of_lookup {d : Dict v} {k : Int} {x : v} (h : Dict.lookup d k = some x) : k ∈ d.map (·.1) := by
  apply Classical.byContradiction
  intro hn
  rw [lookup_none hn] at h
  cases h

theorem mem_eq (d : Dict v) (k : Int) : Dict.mem d k = decide (k ∈ d.map (·.1)) := by
  unfold Dict.mem
  induction d with
  | nil => simp
  | cons p d ih =>
    simp only [List.any_cons, ih, List.map_cons, List.mem_cons]
    by_cases hp : p.1 = k
    · simp [hp]
    · have hp' : ¬ k = p.1 := fun e => hp e.symm
      simp [hp, hp']

/-- with distinct keys, membership of a pair is a successful lookup -/
theorem mem_iff_lookup {d : Dict v} (hnd : (d.map (·.1)).Nodup) (k : Int) (x : v) :
    (k, x) ∈ d ↔ Dict.lookup d k = some x := by
  induction d with
  | nil => simp [lookup_nil]
  | cons p d ih =>
    simp only [List.map_cons, List.nodup_cons] at hnd
    rw [lookup_cons, List.mem_cons]
    by_cases hp : p.1 = k
    · simp only [hp, if_true, Option.some.injEq]
      constructor
      · rintro (h | h)
        · rw [← h]
        · exfalso
          apply hnd.1
          rw [hp]
          exact List.mem_map.2 ⟨(k, x), h, rfl⟩
      · intro h
        left
        rw [← h, ← hp]
    · simp only [hp, if_false]
      rw [← ih hnd.2]
      constructor
      · rintro (h | h)
        · exact absurd (by rw [← h]) hp
        · exact h
      · exact Or.inr

theorem keys_assign (d : Dict v) (q : Int) (x : v) : (Dict.assign d q x).map (·.1) = d.map (·.1) := by
  unfold Dict.assign
  rw [List.map_map]
  apply List.map_congr_left
  intro p _
  simp only [Function.comp]
  split <;> rfl

theorem lookup_assign (d : Dict v) (q : Int) (x : v) (k : Int) :
    Dict.lookup (Dict.assign d q x) k = if k = q then (Dict.lookup d k).map (fun _ => x) else Dict.lookup d k := by
  induction d with
  | nil => simp [Dict.assign, lookup_nil]
  | cons p d ih =>
    have hc : Dict.assign (p :: d) q x = (if p.1 == q then (p.1, x) else p) :: Dict.assign d q x := rfl
    rw [hc, lookup_cons, lookup_cons, ih]
    by_cases hpq : p.1 = q
    · by_cases hkq : k = q
      · subst hkq
        simp [hpq]
      · have hqk : ¬ q = k := fun e => hkq e.symm
        simp [hpq, hkq, hqk]
    · by_cases hpk : p.1 = k
      · have hkq : ¬ k = q := by rw [← hpk]; exact hpq
        simp [hpk, hkq]
      · simp [hpq, hpk]

theorem keys_mapval (d : Dict v) (f : Int → v → v) : (d.map (fun p => (p.1, f p.1 p.2))).map (·.1) = d.map (·.1) := by
  rw [List.map_map]; rfl

theorem lookup_mapval (d : Dict v) (f : Int → v → v) (k : Int) :
    Dict.lookup (d.map (fun p => (p.1, f p.1 p.2))) k = (Dict.lookup d k).map (f k) := by
  induction d with
  | nil => rfl
  | cons p d ih =>
    rw [List.map_cons, lookup_cons, lookup_cons, ih]
    by_cases hpk : p.1 = k
    · simp [hpk]
    · simp [hpk]

/-- two association lists with distinct keys and the same lookups are permutations of each other -/
theorem perm_of_lookup {d1 d2 : Dict v} (h1 : (d1.map (·.1)).Nodup) (h2 : (d2.map (·.1)).Nodup)
    (h : ∀ k, Dict.lookup d1 k = Dict.lookup d2 k) : d1.Perm d2 := by
  have n1 : d1.Nodup := List.Pairwise.of_map (·.1) (fun a b hab e => hab (by rw [e])) h1
  have n2 : d2.Nodup := List.Pairwise.of_map (·.1) (fun a b hab e => hab (by rw [e])) h2
  apply (List.perm_ext_iff_of_nodup n1 n2).2
  rintro ⟨k, x⟩
  rw [mem_iff_lookup h1, mem_iff_lookup h2, h]

/-- sorting by key does not see the order of an association list with distinct keys -/
theorem sortPairs_perm {d1 d2 : Dict Int} (h1 : (d1.map (·.1)).Nodup) (hp : d1.Perm d2) :
    sortPairs d1 = sortPairs d2 := by
  unfold sortPairs
  have tr : ∀ a b c : Int × Int, decide (a.1 ≤ b.1) = true → decide (b.1 ≤ c.1) = true → decide (a.1 ≤ c.1) = true := by
    intro a b c; simp only [decide_eq_true_eq]; omega
  have tot : ∀ a b : Int × Int, (decide (a.1 ≤ b.1) || decide (b.1 ≤ a.1)) = true := by
    intro a b; simp only [Bool.or_eq_true, decide_eq_true_eq]; omega
  have s1 := List.pairwise_mergeSort tr tot d1
  have s2 := List.pairwise_mergeSort tr tot d2
  have p1 := List.mergeSort_perm d1 (fun a b => decide (a.1 ≤ b.1))
  have p2 := List.mergeSort_perm d2 (fun a b => decide (a.1 ≤ b.1))
  have pp := p1.trans (hp.trans p2.symm)
  apply List.Perm.eq_of_pairwise (le := fun a b => decide (a.1 ≤ b.1) = true) _ s1 s2 pp
  intro a b ha hb hab hba
  simp only [decide_eq_true_eq] at hab hba
  have hfst : a.1 = b.1 := by omega
  have ha1 : a ∈ d1 := p1.subset ha
  have hb1 : b ∈ d1 := hp.symm.subset (p2.subset hb)
  have la := (mem_iff_lookup h1 a.1 a.2).1 ha1
  have lb := (mem_iff_lookup h1 b.1 b.2).1 hb1
  rw [hfst, lb] at la
  have : a.2 = b.2 := (Option.some.inj la).symm
  exact Prod.ext hfst this

end Dict
end Proofs.HT
