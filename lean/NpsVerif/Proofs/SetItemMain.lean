import NpsVerif.Proofs.SetItemFlat
import NpsVerif.Proofs.SetItemScatter
import NpsVerif.Props.C04Assumed
/-! C03: value shaping on both sides, the scatter with numpy index semantics, assembly. -/
namespace Model.SI
open Np

/-! ### value shaping -/

/-- the value brought into flat form by `Model.setitem` (its inner `match`, named) -/
def shapeVals {α : Type} [XorLike α] (n : Nat) (ol : Option (List Nat)) (v : Value α) : Option (List α) :=
  match ol, v with
  | _, .scalar x => some (List.replicate n x)
  | _, .flat vs => assignVals n vs
  | some lens, .column vs => (broadcastValues (Shape.ofLens lens) vs).bind (assignVals n)
  | some lens, .ragged rows =>
      if Shape.ofLens (rows.map List.length) = Shape.ofLens lens then assignVals n rows.flatten else none
  | none, .column vs => assignVals n vs
  | none, .ragged _ => none

/-- the value brought into flat form by `Py.setitem` (its inner `match`, named) -/
def pyShapeVals {α : Type} (sel : Res (Nat × Nat)) (v : Value α) : Option (List α) :=
  let n := (Py.resCells sel).length
  match sel, v with
  | _, .scalar x => some (List.replicate n x)
  | _, .flat vs => assignVals n vs
  | .ragged rs, .column vs =>
      (match vs with
       | [x] => some (List.replicate n x)
       | _ => if vs.length ≠ rs.length then none
              else some (List.zipWith (fun (r : List (Nat × Nat)) x => List.replicate r.length x) rs vs).flatten)
  | .ragged rs, .ragged vrows =>
      if vrows.map List.length = rs.map List.length then some vrows.flatten else none
  | _, .column vs => assignVals n vs
  | _, .ragged _ => none

theorem setitem_def {α : Type} [XorLike α] (a : RA α) (idx : Index) (v : Value α) :
    setitem a idx v = (flatIndex a.shape.codes idx).bind (fun fs =>
      (shapeVals fs.1.length fs.2 v).bind (fun vals =>
        (scatterInt a.data (fs.1.zip vals)).map (fun d => ⟨d, a.shape⟩))) := by
  unfold setitem
  congr 1

theorem py_setitem_def {α : Type} (rows : List (List α)) (idx : Index) (v : Value α) :
    Py.setitem rows idx v = (Py.getitem (Py.coords rows) idx).bind (fun sel =>
      (pyShapeVals sel v).map (fun vals => writeCells rows ((Py.resCells sel).zip vals))) := by
  unfold Py.setitem
  congr 1

theorem assignVals_length {α} (n : Nat) (vs vals : List α) (h : assignVals n vs = some vals) :
    vals.length = n := by
  unfold assignVals at h
  split at h
  · simp at h; subst h; assumption
  · split at h
    · simp at h; subst h; simp
    · simp at h

theorem shapeVals_length {α : Type} [XorLike α] (n : Nat) (ol : Option (List Nat)) (v : Value α)
    (vals : List α) (h : shapeVals n ol v = some vals) : vals.length = n := by
  cases ol with
  | none =>
    cases v with
    | scalar x => simp [shapeVals] at h; subst h; simp
    | flat vs => exact assignVals_length n vs vals h
    | column vs => exact assignVals_length n vs vals h
    | ragged rs => simp [shapeVals] at h
  | some lens =>
    cases v with
    | scalar x => simp [shapeVals] at h; subst h; simp
    | flat vs => exact assignVals_length n vs vals h
    | column vs =>
      simp only [shapeVals] at h
      cases hb : broadcastValues (Shape.ofLens lens) vs with
      | none => simp [hb] at h
      | some b => rw [hb] at h; exact assignVals_length n b vals h
    | ragged rs =>
      simp only [shapeVals] at h
      split at h
      · exact assignVals_length n _ vals h
      · simp at h

theorem length_flatten_zipWith_replicate {α} (ls : List Nat) (vs : List α) (h : vs.length = ls.length) :
    (List.zipWith (fun l v => List.replicate l v) ls vs).flatten.length = ls.sum := by
  induction ls generalizing vs with
  | nil => simp
  | cons l ls ih =>
    cases vs with
    | nil => simp at h
    | cons v vs =>
      simp only [List.zipWith_cons_cons, List.flatten_cons, List.length_append, List.length_replicate,
        List.sum_cons]
      rw [ih vs (by simpa using h)]

theorem ofLens_inj (a b : List Nat) : Shape.ofLens a = Shape.ofLens b ↔ a = b := by
  constructor
  · intro e
    have := congrArg Shape.lengths e
    rwa [ofLens_lengths, ofLens_lengths] at this
  · intro e; rw [e]

/-- a column of more or fewer than one entry on a selection that keeps a shape -/
theorem colVals_model {α : Type} [XorLike α] (lens : List Nat) (vs : List α) (hne : vs.length ≠ 1)
    (n : Nat) (hn : n = lens.sum) :
    (broadcastValues (Shape.ofLens lens) vs).bind (assignVals n)
      = if vs.length ≠ lens.length then none
        else some (List.zipWith (fun l v => List.replicate l v) lens vs).flatten := by
  unfold broadcastValues
  rw [if_neg hne, ofLens_nRows]
  by_cases hl : vs.length = lens.length
  · rw [if_neg (by simpa using hl), if_neg (by simpa using hl)]
    simp only [Option.bind_some]
    rw [Props.C04.C04_raw_broadcast lens vs hl]
    unfold assignVals
    rw [if_pos (by rw [length_flatten_zipWith_replicate lens vs hl, hn])]
  · rw [if_pos hl, if_pos hl]
    rfl

theorem shapeVals_eq {α : Type} [XorLike α] (sel : Res (Nat × Nat)) (v : Value α) :
    shapeVals (Py.resCells sel).length (shapeOf sel) v = pyShapeVals sel v := by
  cases sel with
  | scalar p => cases v <;> rfl
  | vec ps => cases v <;> rfl
  | ragged rs =>
    cases v with
    | scalar x => rfl
    | flat vs => rfl
    | column vs =>
      simp only [shapeVals, shapeOf, pyShapeVals, Py.resCells]
      have hn : rs.flatten.length = (rs.map List.length).sum := List.length_flatten
      have hgen : ∀ (hne : vs.length ≠ 1),
          (broadcastValues (Shape.ofLens (rs.map List.length)) vs).bind (assignVals rs.flatten.length)
            = if vs.length ≠ rs.length then none
              else some (List.zipWith (fun (r : List (Nat × Nat)) x => List.replicate r.length x) rs vs).flatten := by
        intro hne
        rw [colVals_model _ vs hne _ hn, List.length_map, List.zipWith_map_left]
      match vs with
      | [] => exact hgen (by simp)
      | [x] =>
        simp only [broadcastValues, List.length_singleton, if_true, Option.bind_some, assignVals]
        split
        · rename_i h1; rw [← h1]; rfl
        · rfl
      | x :: y :: t => exact hgen (by simp)
    | ragged vrows =>
      simp only [shapeVals, shapeOf, pyShapeVals, Py.resCells, ofLens_inj]
      by_cases e : vrows.map List.length = rs.map List.length
      · rw [if_pos e, if_pos e]
        unfold assignVals
        rw [if_pos (by rw [List.length_flatten, List.length_flatten, e])]
      · rw [if_neg e, if_neg e]

/-! ### the scatter with numpy index semantics -/

theorem mapM_zip_norm {α} (N : Nat) (fs : List Int) (vals : List α) (hl : vals.length = fs.length) :
    (fs.zip vals).mapM (fun w => (normIdx N w.1).map (fun i => (i, w.2)))
      = (fs.mapM (normIdx N)).map (·.zip vals) := by
  induction fs generalizing vals with
  | nil => simp
  | cons f fs ih =>
    cases vals with
    | nil => simp at hl
    | cons v vs =>
      rw [List.zip_cons_cons, mapM_cons', mapM_cons', ih vs (by simpa using hl)]
      cases normIdx N f with
      | none => rfl
      | some m =>
        simp only [Option.map_some, Option.bind_some]
        cases fs.mapM (normIdx N) <;> rfl

theorem scatterInt_zip {α} (data : List α) (fs : List Int) (vals : List α) (hl : vals.length = fs.length) :
    scatterInt data (fs.zip vals)
      = (fs.mapM (normIdx data.length)).map (fun ps => scatterSet data (ps.zip vals)) := by
  unfold scatterInt
  rw [mapM_zip_norm _ _ _ hl]
  cases fs.mapM (normIdx data.length) <;> rfl

/-- `setitem` with the positions normalised first -/
theorem setitem_via {α : Type} [XorLike α] (a : RA α) (idx : Index) (v : Value α) :
    setitem a idx v =
      ((flatIndex a.shape.codes idx).bind (fun fs =>
          (fs.1.mapM (normIdx a.data.length)).map (fun ps => (ps, fs.2)))).bind
        (fun p => (shapeVals p.1.length p.2 v).map
          (fun vals => (⟨scatterSet a.data (p.1.zip vals), a.shape⟩ : RA α))) := by
  rw [setitem_def]
  cases flatIndex a.shape.codes idx with
  | none => rfl
  | some fs =>
    simp only [Option.bind_some]
    cases hm : fs.1.mapM (normIdx a.data.length) with
    | none =>
      simp only [Option.map_none, Option.bind_none]
      cases hv : shapeVals fs.1.length fs.2 v with
      | none => rfl
      | some vals =>
        simp only [Option.bind_some]
        rw [scatterInt_zip _ _ _ (shapeVals_length _ _ _ _ hv), hm]
        rfl
    | some ps =>
      have hps := mapM_length _ _ _ hm
      simp only [Option.map_some, Option.bind_some, hps]
      cases hv : shapeVals fs.1.length fs.2 v with
      | none => rfl
      | some vals =>
        simp only [Option.bind_some, Option.map_some]
        rw [scatterInt_zip _ _ _ (shapeVals_length _ _ _ _ hv), hm]
        rfl

/-! ### the positions `flatIndex` computes on `RaggedArray(rows)` are the addressed cells -/

theorem flatIndex_positions {α : Type} (rows : List (List α)) (idx : Index) :
    (flatIndex (RA.ofRows rows).shape.codes idx).bind (fun fs =>
        (fs.1.mapM (normIdx rows.flatten.length)).map (fun ps => (ps, fs.2)))
      = (Py.getitem (Py.coords rows) idx).map (fun sel =>
          ((Py.resCells sel).map (gpos (rows.map List.length)), shapeOf sel)) := by
  have h1 : (flatIndex (RA.ofRows rows).shape.codes idx).bind (fun fs =>
        (fs.1.mapM (normIdx rows.flatten.length)).map (fun ps => (ps, fs.2)))
      = viaGather (List.range rows.flatten.length) (flatIndex (RA.ofRows rows).shape.codes idx) := by
    unfold viaGather
    simp only [gather_range]
  have hb : ∀ c ∈ (RA.ofRows rows).shape.codes, c.1 + c.2 ≤ (List.range rows.flatten.length).length := by
    intro c hc
    rw [List.length_range]
    exact ofRows_codes_bound rows c hc
  rw [h1, flatIndex_getitem _ _ hb, getitem_codes _ _ hb, posGrid_eq, getitem_natural, Option.map_map]
  congr 1
  funext sel
  simp only [Function.comp, resInfo, resCells_mapCells, shapeOf_mapCells]

/-- scattering at the positions of grid cells = writing the cells -/
theorem rows_scatter_cells {α : Type} (rows : List (List α)) (cells : List (Nat × Nat)) (vals : List α)
    (hc : ∀ q ∈ cells, q ∈ (Py.coords rows).flatten) :
    RA.rows ⟨scatterSet rows.flatten ((cells.map (gpos (rows.map List.length))).zip vals),
        (RA.ofRows rows).shape⟩ = writeCells rows (cells.zip vals) := by
  rw [← rows_scatter rows (cells.zip vals)]
  · rw [List.zip_map_left]
    rfl
  · intro w hw
    exact mem_coords_cellAt rows w.1 (hc w.1 (List.of_mem_zip hw).1)

theorem setitem_ofRows {α : Type} [XorLike α] (rows : List (List α)) (idx : Index) (v : Value α) :
    (setitem (RA.ofRows rows) idx v).map RA.rows = Py.setitem rows idx v := by
  rw [setitem_via, py_setitem_def]
  show (((flatIndex (RA.ofRows rows).shape.codes idx).bind (fun fs =>
          (fs.1.mapM (normIdx rows.flatten.length)).map (fun ps => (ps, fs.2)))).bind _).map RA.rows = _
  rw [flatIndex_positions]
  cases hsel : Py.getitem (Py.coords rows) idx with
  | none => rfl
  | some sel =>
    simp only [Option.map_some, Option.bind_some, List.length_map]
    rw [shapeVals_eq]
    cases pyShapeVals sel v with
    | none => rfl
    | some vals =>
      simp only [Option.map_some, Option.some.injEq]
      exact rows_scatter_cells rows _ vals (getitem_cells_mem _ idx sel hsel)

/-! ### boolean ragged masks -/

theorem flatnonzeroFrom_eq (k : Nat) (m : List Bool) :
    flatnonzeroFrom k m
      = ((List.range' k m.length).zip m).filterMap (fun ib => if ib.2 then some ib.1 else none) := by
  induction m generalizing k with
  | nil => rfl
  | cons b bs ih =>
    simp only [flatnonzeroFrom, List.length_cons, List.range'_succ, List.zip_cons_cons,
      List.filterMap_cons, ih (k + 1)]
    cases b <;> rfl

theorem flatnonzero_eq (m : List Bool) :
    flatnonzero m = ((List.range m.length).zip m).filterMap (fun ib => if ib.2 then some ib.1 else none) := by
  rw [flatnonzero, flatnonzeroFrom_eq, List.range_eq_range']

theorem setitemMask_ofRows {α : Type} (rows : List (List α)) (mask : List (List Bool)) (v : Value α)
    (hm : mask.map List.length = rows.map List.length) :
    (setitemMask (RA.ofRows rows) mask v).map RA.rows = Py.setitemMask rows mask v := by
  have hlen : mask.flatten.length = rows.flatten.length := by
    rw [List.length_flatten, List.length_flatten, hm]
  have hpos : flatnonzero mask.flatten
      = (((Py.coords rows).flatten.zip mask.flatten).filterMap
          (fun cb => if cb.2 then some cb.1 else none)).map (gpos (rows.map List.length)) := by
    rw [flatnonzero_eq, hlen, ← coords_flatten_gpos rows, mask_map]
  have hcells := mask_mem (Py.coords rows).flatten mask.flatten
  have hin : ∀ p ∈ flatnonzero mask.flatten, p < rows.flatten.length := by
    intro p hp
    rw [flatnonzero_eq, hlen] at hp
    have := mask_mem _ _ p hp
    simpa using this
  unfold setitemMask Py.setitemMask
  rw [if_neg (by simpa using hm)]
  simp only []
  have hany : (flatnonzero mask.flatten).any (fun p => decide ((RA.ofRows rows).data.length ≤ p)) = false := by
    rw [List.any_eq_false]
    intro p hp
    have := hin p hp
    show ¬ (decide (rows.flatten.length ≤ p) = true)
    rw [decide_eq_true_eq]
    omega
  rw [hany]
  simp only [Bool.false_eq_true, if_false]
  rw [hpos]
  generalize ((Py.coords rows).flatten.zip mask.flatten).filterMap
    (fun cb => if cb.2 then some cb.1 else none) = cells at hcells ⊢
  simp only [List.length_map]
  cases v with
  | scalar x =>
    simp only [Option.bind_some, Option.map_some, Option.some.injEq]
    exact rows_scatter_cells rows cells _ hcells
  | flat vs =>
    dsimp only
    cases assignVals cells.length vs with
    | none => rfl
    | some vals =>
      simp only [Option.bind_some, Option.map_some, Option.some.injEq]
      exact rows_scatter_cells rows cells _ hcells
  | column vs => rfl
  | ragged vr => rfl

end Model.SI
