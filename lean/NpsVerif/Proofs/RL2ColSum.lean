import NpsVerif.Proofs.RL2Rows
import NpsVerif.Proofs.RL2Ravel
import NpsVerif.Proofs.RLArithSort
import NpsVerif.Proofs.RLArithClean
import NpsVerif.Proofs.RLClean
import NpsVerif.Proofs.ColAgg
import NpsVerif.Spec.Rows
/-!
# `_col_sum` of a 2-D / ragged run-length array

All boundaries of all rows are sorted stably, the per-row value differences are carried along, and
their running total is read as a run-length array.  Proof outline:

* `psum e P`: the sum of the deltas of the (position, delta) pairs `P` with position `≤ e` — a
  quantity that does not depend on the order of `P` (`psum_perm`);
* `row_psum`: for one row, this is the cell at column `e` (0 past the row end);
* `sort_pairs`: the two co-sorted arrays of `_col_sum` are the two projections of ONE sorted
  permutation of the (position, delta) pairs;
* `dec_cumsum`: a sorted pair list whose partial sums are `D[e]` decodes to `D`;
* `colSumCore_spec`, `colSum_rows`: assembly (with `remove_empty_intervals` and the constructor).
-/
open Model Model.RLA Model.RL2 Np

namespace Proofs.RL2B

/-! ## the body of `colSum` -/

/-- differences within one row, first entry = first value -/
def rowDeltas (vs : List Int) : List Int :=
  match vs with
  | [] => []
  | v :: rest => v :: List.zipWith (fun nxt prev => nxt - prev) rest (v :: rest)

def colSumCore (idx : List (List Nat)) (vals : List (List Int)) (L : Nat) : Option (RLA Int) :=
  let positions := idx.flatten
  let deltas := (vals.map rowDeltas).flatten
  let args := stableArgsort positions
  let dv := cumsum (args.filterMap (deltas[·]?))
  let ps := args.filterMap (positions[·]?) ++ [L]
  let p := removeEmpty ps dv
  mk? p.1 p.2

theorem colSum_eq (r : RL2 Int) :
    r.colSum = colSumCore r.indices
      (match r.rowLen with | some _ => r.values | none => r.values.map (· ++ [0]))
      (match r.rowLen with | some l => l | none => r.indices.flatten.foldl max 0) := rfl

theorem rowDeltas_length (vs : List Int) : (rowDeltas vs).length = vs.length := by
  cases vs with
  | nil => rfl
  | cons v rest => simp [rowDeltas]

/-! ## `psum` -/

/-- total of the deltas at positions `≤ e` -/
def psum (e : Nat) (P : List (Nat × Int)) : Int :=
  ((P.filter (fun p => decide (p.1 ≤ e))).map (·.2)).sum

theorem psum_nil (e : Nat) : psum e [] = 0 := rfl

theorem psum_cons_le (e : Nat) (q : Nat × Int) (P : List (Nat × Int)) (h : q.1 ≤ e) :
    psum e (q :: P) = q.2 + psum e P := by
  unfold psum
  rw [List.filter_cons_of_pos (by simpa using h)]
  simp

theorem psum_cons_gt (e : Nat) (q : Nat × Int) (P : List (Nat × Int)) (h : e < q.1) :
    psum e (q :: P) = psum e P := by
  unfold psum
  rw [List.filter_cons_of_neg (by simp; omega)]

theorem psum_append (e : Nat) (P1 P2 : List (Nat × Int)) :
    psum e (P1 ++ P2) = psum e P1 + psum e P2 := by
  unfold psum
  rw [List.filter_append, List.map_append, List.sum_append]

theorem psum_flatten (e : Nat) (Ls : List (List (Nat × Int))) :
    psum e Ls.flatten = (Ls.map (psum e)).sum := by
  induction Ls with
  | nil => rfl
  | cons l Ls ih => rw [List.flatten_cons, psum_append, ih]; simp

theorem psum_of_gt (e : Nat) (P : List (Nat × Int)) (h : ∀ q ∈ P, e < q.1) : psum e P = 0 := by
  unfold psum
  rw [List.filter_eq_nil_iff.2 (by intro q hq; have := h q hq; simp; omega)]
  rfl

theorem perm_sum_int {l1 l2 : List Int} (h : l1.Perm l2) : l1.sum = l2.sum := by
  induction h with
  | nil => rfl
  | cons x _ ih => simp only [List.sum_cons, ih]
  | swap x y l => simp only [List.sum_cons]; omega
  | trans _ _ ih1 ih2 => rw [ih1, ih2]

theorem psum_perm (e : Nat) {P1 P2 : List (Nat × Int)} (h : P1.Perm P2) : psum e P1 = psum e P2 := by
  unfold psum
  exact perm_sum_int ((h.filter _).map _)

/-! ## one row -/

theorem const_fn (f : Nat → Int) (s e : Nat) (hse : s ≤ e)
    (h : ∀ p, s < p → p ≤ e → f p = f (p - 1)) : f e = f s := by
  induction e with
  | zero => have : s = 0 := by omega
            rw [this]
  | succ e ih =>
    by_cases hs : s = e + 1
    · rw [hs]
    · rw [h (e + 1) (by omega) (Nat.le_refl _), Nat.add_sub_cancel]
      exact ih (by omega) (fun p h1 h2 => h p h1 (by omega))

/-- the deltas of one row at the boundaries `≤ e` telescope to the cell at column `e`
(`b` is the value before the first boundary `s`) -/
theorem row_psum (f : Nat → Int) (S : List Nat) (s : Nat) (b : Int) (e : Nat)
    (hS : (s :: S).Pairwise (· < ·)) (hse : s ≤ e)
    (hc : ∀ p, s < p → p ≤ e → p ∉ S → f p = f (p - 1)) :
    psum e ((s :: S).zip ((f s - b) :: List.zipWith (fun nxt prev => nxt - prev) (S.map f)
      ((s :: S).map f))) = f e - b := by
  induction S generalizing s b with
  | nil =>
    simp only [List.map_nil, List.zipWith_nil_left, List.zip_cons_cons, List.zip_nil_right]
    rw [psum_cons_le _ _ _ hse, psum_nil]
    rw [const_fn f s e hse (fun p h1 h2 => hc p h1 h2 (by simp))]
    simp
  | cons t S ih =>
    have hp := List.pairwise_cons.1 hS
    have hst : s < t := hp.1 t (by simp)
    have e1 : (s :: t :: S).zip ((f s - b) :: List.zipWith (fun nxt prev => nxt - prev)
          ((t :: S).map f) ((s :: t :: S).map f))
        = (s, f s - b) :: (t :: S).zip ((f t - f s) :: List.zipWith (fun nxt prev => nxt - prev)
          (S.map f) ((t :: S).map f)) := rfl
    rw [e1, psum_cons_le _ _ _ hse]
    simp only []
    by_cases hte : t ≤ e
    · have := ih t (f s) hp.2 hte (by
        intro p h1 h2 h3
        apply hc p (by omega) h2
        intro hm
        rcases List.mem_cons.1 hm with rfl | hm
        · omega
        · exact h3 hm)
      rw [this]; omega
    · rw [psum_of_gt]
      · rw [const_fn f s e hse (by
          intro p h1 h2
          apply hc p h1 h2
          intro hm
          rcases List.mem_cons.1 hm with rfl | hm
          · omega
          · have := (List.pairwise_cons.1 hp.2).1 p hm
            omega)]
        omega
      · intro q hq
        have hq1 : q.1 ∈ t :: S := (List.of_mem_zip (a := q.1) (b := q.2) hq).1
        rcases List.mem_cons.1 hq1 with h | h
        · omega
        · have := (List.pairwise_cons.1 hp.2).1 q.1 h
          omega

theorem row_psum_zero (f : Nat → Int) (S : List Nat) (e : Nat)
    (hS : S.Pairwise (· < ·)) (h0 : S.head? = some 0)
    (hc : ∀ p, 0 < p → p ≤ e → p ∉ S → f p = f (p - 1)) :
    psum e (S.zip (rowDeltas (S.map f))) = f e := by
  cases S with
  | nil => simp at h0
  | cons s S =>
    simp only [List.head?_cons, Option.some.injEq] at h0
    subst h0
    have := row_psum f S 0 0 e hS (Nat.zero_le _) (by
      intro p h1 h2 h3
      apply hc p h1 h2
      intro hm
      rcases List.mem_cons.1 hm with rfl | hm
      · omega
      · exact h3 hm)
    simp only [Int.sub_zero] at this
    exact this

/-! ## the stable sort, as one sorted permutation of the (position, delta) pairs -/

theorem zipIdx_map_eq_zip (positions : List Nat) (deltas : List Int)
    (hl : positions.length = deltas.length) :
    positions.zipIdx.map (fun p => (p.1, deltas[p.2]?.getD 0)) = positions.zip deltas := by
  apply List.ext_getElem?
  intro i
  by_cases hi : i < positions.length
  · have h1 : positions[i]? = some positions[i] := List.getElem?_eq_getElem hi
    have h2 : deltas[i]? = some (deltas[i]'(by omega)) := List.getElem?_eq_getElem _
    have h3 : (positions.zip deltas)[i]? = some (positions[i], deltas[i]'(by omega)) := by
      rw [List.getElem?_zip_eq_some]; exact ⟨h1, h2⟩
    rw [h3, List.getElem?_map, List.getElem?_zipIdx, h1]
    simp [h2]
  · rw [List.getElem?_eq_none (by simp; omega), List.getElem?_eq_none (by simp; omega)]

theorem sort_pairs (positions : List Nat) (deltas : List Int)
    (hl : positions.length = deltas.length) :
    ∃ Q : List (Nat × Int), Q.Perm (positions.zip deltas) ∧ Q.Pairwise (fun a b => a.1 ≤ b.1) ∧
      (stableArgsort positions).filterMap (positions[·]?) = Q.map (·.1) ∧
      (stableArgsort positions).filterMap (deltas[·]?) = Q.map (·.2) := by
  obtain ⟨hperm, hsorted⟩ := sorted_pairs_facts positions
  have hmem : ∀ p ∈ (positions.zipIdx).mergeSort leKey, positions[p.2]? = some p.1 := by
    intro p hp
    exact List.mem_zipIdx_iff_getElem?.1 ((hperm.mem_iff).1 hp)
  refine ⟨((positions.zipIdx).mergeSort leKey).map (fun p => (p.1, deltas[p.2]?.getD 0)), ?_, ?_, ?_, ?_⟩
  · rw [← zipIdx_map_eq_zip positions deltas hl]
    exact hperm.map _
  · exact List.pairwise_map.2 hsorted
  · rw [stableArgsort_eq, List.filterMap_map, List.map_map]
    exact filterMap_eq_map' _ (fun p hp => hmem p hp)
  · rw [stableArgsort_eq, List.filterMap_map, List.map_map]
    apply filterMap_eq_map'
    intro p hp
    have h1 := hmem p hp
    have h2 : p.2 < positions.length := (List.getElem?_eq_some_iff.1 h1).1
    simp only [Function.comp]
    rw [List.getElem?_eq_getElem (by omega)]
    rfl

/-! ## decoding a running total -/

theorem drop_take_eq_replicate (D : List Int) (a b : Nat) (v : Int)
    (h : ∀ e, a ≤ e → e < b → D[e]? = some v) :
    (D.drop a).take (b - a) = List.replicate (b - a) v := by
  apply List.ext_getElem?
  intro i
  rw [List.getElem?_take, List.getElem?_replicate]
  by_cases hi : i < b - a
  · simp only [hi, if_true, List.getElem?_drop]
    exact h (a + i) (by omega) (by omega)
  · simp [hi]

/-- a sorted (position, delta) list whose total of the deltas at positions `≤ e` is `D[e]`
(for every `e` from the first position on): the positions with the running totals decode to `D` -/
theorem dec_cumsum (D : List Int) (Q : List (Nat × Int)) (q : Nat × Int) (acc : Int)
    (hs : (q :: Q).Pairwise (fun a b => a.1 ≤ b.1)) (hle : ∀ x ∈ q :: Q, x.1 ≤ D.length)
    (hinv : ∀ e, q.1 ≤ e → e < D.length → D[e]? = some (acc + psum e (q :: Q))) :
    dec ((q :: Q).map (·.1) ++ [D.length]) (cumsumFrom acc ((q :: Q).map (·.2))) = D.drop q.1 := by
  induction Q generalizing q acc with
  | nil =>
    simp only [List.map_cons, List.map_nil, List.cons_append, List.nil_append, cumsumFrom, dec,
      List.append_nil]
    have := drop_take_eq_replicate D q.1 D.length (acc + q.2) (by
      intro e h1 h2
      rw [hinv e h1 h2, psum_cons_le _ _ _ h1, psum_nil]; simp)
    rw [← this, List.take_of_length_le (by simp)]
  | cons q' Q ih =>
    have hp := List.pairwise_cons.1 hs
    have hqq : q.1 ≤ q'.1 := hp.1 q' (by simp)
    have hq'n : q'.1 ≤ D.length := hle q' (by simp)
    have hih := ih q' (acc + q.2) hp.2 (fun x hx => hle x (List.mem_cons_of_mem _ hx)) (by
      intro e h1 h2
      rw [hinv e (by omega) h2, psum_cons_le _ _ _ (by omega : q.1 ≤ e)]
      congr 1; omega)
    have hseg := drop_take_eq_replicate D q.1 q'.1 (acc + q.2) (by
      intro e h1 h2
      rw [hinv e h1 (by omega), psum_cons_le _ _ _ h1, psum_of_gt]
      · simp
      · intro x hx
        rcases List.mem_cons.1 hx with rfl | hx
        · exact h2
        · have := (List.pairwise_cons.1 hp.2).1 x hx
          omega)
    simp only [List.map_cons, List.cons_append, cumsumFrom, dec]
    simp only [List.map_cons, List.cons_append, cumsumFrom] at hih
    rw [hih, ← hseg]
    rw [show D.drop q'.1 = (D.drop q.1).drop (q'.1 - q.1) by rw [List.drop_drop]; congr 1; omega]
    exact List.take_append_drop _ _

/-! ## assembly -/

theorem colSumCore_spec (idx : List (List Nat)) (vals : List (List Int)) (L : Nat) (D : List Int)
    (hl : (idx.flatten).length = ((vals.map rowDeltas).flatten).length)
    (hD : D.length = L) (hL : 0 < L) (hle : ∀ e ∈ idx.flatten, e ≤ L) (h0 : 0 ∈ idx.flatten)
    (hps : ∀ e, e < L → D[e]? = some (psum e (idx.flatten.zip (vals.map rowDeltas).flatten))) :
    ∃ r, colSumCore idx vals L = some r ∧ r.Valid ∧ r.decode = D := by
  unfold colSumCore
  simp only []
  generalize idx.flatten = positions at hl hle h0 hps
  generalize (vals.map rowDeltas).flatten = deltas at hl hps
  obtain ⟨Q, hperm, hsorted, hE, hV⟩ := sort_pairs positions deltas hl
  rw [hE, hV]
  have hfst : (Q.map (·.1)).Perm positions := by
    have := hperm.map (·.1)
    rwa [List.map_fst_zip (by omega)] at this
  have hQle : ∀ x ∈ Q, x.1 ≤ D.length := by
    intro x hx
    rw [hD]
    exact hle _ ((hfst.mem_iff).1 (List.mem_map_of_mem hx))
  -- the sorted list starts at position 0
  have h0Q : 0 ∈ Q.map (·.1) := (hfst.mem_iff).2 h0
  cases hQ : Q with
  | nil => rw [hQ] at h0Q; simp at h0Q
  | cons q Q' =>
    rw [hQ] at hperm hsorted hQle h0Q
    have hq0 : q.1 = 0 := by
      rcases List.mem_cons.1 h0Q with h | h
      · exact h.symm
      · obtain ⟨x, hx, hx0⟩ := List.mem_map.1 h
        have := (List.pairwise_cons.1 hsorted).1 x hx
        omega
    have hdec := dec_cumsum D Q' q 0 hsorted hQle (by
      intro e _ he
      rw [hD] at he
      rw [hps e he, psum_perm e hperm]; simp)
    rw [hq0, List.drop_zero, hD] at hdec
    -- clean-up and constructor
    generalize hps' : (q :: Q').map (·.1) ++ [L] = ps at hdec
    generalize hdv : cumsum ((q :: Q').map (·.2)) = dv
    have hdv' : cumsumFrom 0 ((q :: Q').map (·.2)) = dv := hdv
    rw [hdv'] at hdec
    have hlen : ps.length = dv.length + 1 := by
      rw [← hps', ← hdv]; simp [cumsum]
    have hmono : ps.Pairwise (· ≤ ·) := by
      rw [← hps']
      refine List.pairwise_append.2 ⟨List.pairwise_map.2 hsorted, by simp, ?_⟩
      intro a ha b hb
      simp only [List.mem_singleton] at hb
      subst hb
      obtain ⟨x, hx, rfl⟩ := List.mem_map.1 ha
      rw [← hD]; exact hQle x hx
    have hpsle : ∀ e ∈ ps, e ≤ L := by
      intro e he
      rw [← hps'] at he
      rcases List.mem_append.1 he with he | he
      · obtain ⟨x, hx, rfl⟩ := List.mem_map.1 he
        rw [← hD]; exact hQle x hx
      · simp at he; omega
    obtain ⟨h1, h2, h3⟩ := Proofs.RL.removeEmpty_decode ps dv hlen hmono
    rw [decode_eq_dec, decode_eq_dec, hdec] at h1
    have h3' := (strictInc_iff _).1 h3
    have hsub : ∀ e ∈ (removeEmpty ps dv).1, e ≤ L := by
      intro e he
      exact hpsle e ((deleteIdx_sublist ps _).subset he)
    have hhead := head_zero_of_dec_length _ _ L hL h3' h2 hsub (by rw [h1, hD])
    have hvalid : (RLA.mk (removeEmpty ps dv).1 (removeEmpty ps dv).2).Valid :=
      (Model.RLA.valid_iff _).2 ⟨hhead, h2, h3'⟩
    refine ⟨_, ?_, hvalid, ?_⟩
    · unfold mk?
      exact if_pos hvalid
    · rw [decode_eq_dec, h1]

/-! ## rows -/

theorem sum_getD_eq_filterMap (rows : List (List Int)) (e : Nat) :
    (rows.map (fun a => a[e]?.getD 0)).sum = (rows.filterMap (·[e]?)).sum := by
  induction rows with
  | nil => rfl
  | cons a rows ih =>
    rw [List.map_cons, List.sum_cons, ih, List.filterMap_cons]
    cases h : a[e]? <;> simp

theorem colSum_getElem? (rows : List (List Int)) (e : Nat)
    (he : e < (rows.map List.length).foldl max 0) :
    (Spec.colSum rows)[e]? = some ((rows.filterMap (·[e]?)).sum) := by
  unfold Spec.colSum
  simp only []
  rw [List.getElem?_map, List.getElem?_range he]
  rfl

/-- the general statement: every row is given by a strictly increasing boundary list `S a`
starting at 0 that contains every position at which the row (continued by 0) changes; values are
the cells at the boundaries -/
theorem colSum_rows (rows : List (List Int)) (S : List Int → List Nat) (L : Nat)
    (hW : (rows.map List.length).foldl max 0 = L) (hL : 0 < L) (hne : rows ≠ [])
    (hS : ∀ a ∈ rows, (S a).Pairwise (· < ·) ∧ (S a).head? = some 0 ∧ (∀ s ∈ S a, s ≤ L))
    (hc : ∀ a ∈ rows, ∀ p, 0 < p → p < L → p ∉ S a → a[p]?.getD 0 = a[p - 1]?.getD 0) :
    ∃ r, colSumCore (rows.map S) (rows.map (fun a => (S a).map (fun p => a[p]?.getD 0))) L = some r ∧
      r.Valid ∧ r.decode = Spec.colSum rows := by
  have hzip : (rows.map S).flatten.zip
        ((rows.map (fun a => (S a).map (fun p => a[p]?.getD 0))).map rowDeltas).flatten
      = (rows.map (fun a => (S a).zip (rowDeltas ((S a).map (fun p => a[p]?.getD 0))))).flatten := by
    rw [List.map_map]
    exact zip_flatten_map S _ rows (by intro a _; simp [rowDeltas_length])
  apply colSumCore_spec
  · rw [List.map_map]
    simp only [List.length_flatten, List.map_map]
    congr 1
    apply List.map_congr_left
    intro a _
    simp [rowDeltas_length]
  · unfold Spec.colSum
    simp [hW]
  · exact hL
  · intro e he
    obtain ⟨l, hl, hel⟩ := List.mem_flatten.1 he
    obtain ⟨a, ha, rfl⟩ := List.mem_map.1 hl
    exact (hS a ha).2.2 e hel
  · cases rows with
    | nil => exact absurd rfl hne
    | cons a rows =>
      have h := (hS a (by simp)).2.1
      apply List.mem_flatten.2
      refine ⟨S a, by simp, ?_⟩
      cases hSa : S a with
      | nil => rw [hSa] at h; simp at h
      | cons s t => rw [hSa] at h; simp at h; simp [h]
  · intro e he
    rw [colSum_getElem? rows e (by omega), hzip, psum_flatten, List.map_map,
      ← sum_getD_eq_filterMap]
    congr 2
    apply List.map_congr_left
    intro a ha
    simp only [Function.comp]
    obtain ⟨h1, h2, _⟩ := hS a ha
    exact (row_psum_zero (fun p => a[p]?.getD 0) (S a) e h1 h2
      (fun p hp0 hpe hn => hc a ha p hp0 (by omega) hn)).symm

end Proofs.RL2B
