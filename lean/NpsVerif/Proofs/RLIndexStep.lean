import NpsVerif.Proofs.RLIndexRange
import NpsVerif.Proofs.RLIndexPySlice
import NpsVerif.Props.C14Assumed
import NpsVerif.Proofs.StepClamp
/-! # Run-length arrays: stride subsetting `_step_subset` (reversal, ceiling of boundaries, clean-up) -/
namespace Proofs.RLIndex
open Model Model.RLA
variable {α : Type}

theorem mem_le_getLast (l : List Nat) (hm : l.Pairwise (· ≤ ·)) (L : Nat)
    (hL : l.getLast? = some L) : ∀ x ∈ l, x ≤ L := by
  obtain ⟨ys, rfl⟩ := List.getLast?_eq_some_iff.1 hL
  intro x hx
  rcases List.mem_append.1 hx with h | h
  · exact (List.pairwise_append.1 hm).2.2 x h L (by simp)
  · simp at h; omega

/-! ## reversal -/

theorem rev_valid (r : RLA α) (h : r.Valid) :
    (RLA.mk (r.events.reverse.map (r.len - ·)) r.values.reverse).Valid := by
  obtain ⟨h0, hl, hpw⟩ := (valid_iff r).1 h
  have hle := mem_le_getLast r.events (mono_of_strict hpw) r.len (valid_getLast r h)
  rw [valid_iff]
  refine ⟨?_, by simpa using hl, ?_⟩
  · simp only [List.head?_map, List.head?_reverse, valid_getLast r h]; simp
  · rw [List.pairwise_map, List.pairwise_reverse]
    refine List.Pairwise.imp_of_mem ?_ hpw
    intro a b ha hb hab
    have := hle b hb
    omega

theorem rev_decode (r : RLA α) (h : r.Valid) :
    (RLA.mk (r.events.reverse.map (r.len - ·)) r.values.reverse).decode = r.decode.reverse := by
  obtain ⟨h0, hl, hpw⟩ := (valid_iff r).1 h
  have hmono := mono_of_strict hpw
  have hv := rev_valid r h
  obtain ⟨h0', hl', hpw'⟩ := (valid_iff _).1 hv
  simp only [] at h0' hl' hpw'
  have hdl := len_eq_decode_length r h
  have hdl' := len_eq_decode_length _ hv
  have hlen' : (RLA.mk (r.events.reverse.map (r.len - ·)) r.values.reverse).len = r.len := by
    have := valid_getLast _ hv
    simp only [List.getLast?_map, List.getLast?_reverse, h0] at this
    simpa using this.symm
  apply List.ext_getElem?
  intro p
  by_cases hp : p < r.len
  · rw [List.getElem?_reverse (by omega)]
    obtain ⟨a, b, c1, c2, ha, hb, h1, h2⟩ :=
      run_at r.events hmono (r.decode.length - 1 - p) 0 r.len (valid_head r h) (valid_getLast r h)
        (Nat.zero_le _) (by omega)
    have hsrc := decode_run r.events r.values hl hmono _ _ 0 a b (valid_head r h) ha hb h1 h2
    simp only [Nat.sub_zero] at hsrc
    rw [show r.decode = (RLA.mk r.events r.values).decode from rfl, hsrc]
    generalize hj : List.countP (fun x => decide (x ≤ (RLA.mk r.events r.values).decode.length - 1 - p)) r.events - 1 = j at *
    have hdl2 : (RLA.mk r.events r.values).decode.length = r.len := hdl.symm
    have hjv : j + 1 < r.events.length := (List.getElem?_eq_some_iff.1 hb).1
    have ha' : (r.events.reverse.map (r.len - ·))[r.values.length - 1 - j + 1]? = some (r.len - a) := by
      rw [List.getElem?_map, List.getElem?_reverse (by omega)]
      have : r.events.length - 1 - (r.values.length - 1 - j + 1) = j := by omega
      rw [this, ha]; rfl
    have hb' : (r.events.reverse.map (r.len - ·))[r.values.length - 1 - j]? = some (r.len - b) := by
      rw [List.getElem?_map, List.getElem?_reverse (by omega)]
      have : r.events.length - 1 - (r.values.length - 1 - j) = j + 1 := by omega
      rw [this, hb]; rfl
    have := decode_run _ r.values.reverse hl' (mono_of_strict hpw') (r.values.length - 1 - j) p 0 _ _
      (valid_head _ hv) hb' ha' (by omega) (by omega)
    simp only [Nat.sub_zero] at this
    rw [this, List.getElem?_reverse (by omega)]
    congr 1; omega
  · rw [List.getElem?_eq_none, List.getElem?_eq_none]
    · simp only [List.length_reverse]; omega
    · omega

/-! ## ceiling of the boundaries = keeping every K-th cell -/

theorem ceil_le_iff (a K j : Nat) (hK : 0 < K) : (a + K - 1) / K ≤ j ↔ a ≤ j * K := by
  have := Nat.div_lt_iff_lt_mul (x := a + K - 1) (y := j + 1) hK
  rw [Nat.add_mul, Nat.one_mul] at this
  omega

theorem stride_getElem? (ev1 : List Nat) (vs1 : List α) (hlen : ev1.length = vs1.length + 1)
    (hmono : ev1.Pairwise (· ≤ ·)) (h0 : ev1[0]? = some 0) (K : Nat) (hK : 0 < K) (j : Nat) :
    (RLA.mk (ev1.map (fun i => (i + K - 1) / K)) vs1).decode[j]? = (RLA.mk ev1 vs1).decode[j * K]? := by
  have hmono2 : (ev1.map (fun i => (i + K - 1) / K)).Pairwise (· ≤ ·) := by
    rw [List.pairwise_map]
    exact hmono.imp (fun {a b} hab => Nat.div_le_div_right (by omega))
  have hc0 : (0 + K - 1) / K = 0 := Nat.div_eq_of_lt (by omega)
  have h02 : (ev1.map (fun i => (i + K - 1) / K))[0]? = some 0 := by
    rw [List.getElem?_map, h0]; simp only [Option.map_some]; rw [hc0]
  obtain ⟨L, hL⟩ : ∃ L, ev1.getLast? = some L := by
    cases ev1 with
    | nil => simp at h0
    | cons x xs => exact ⟨_, List.getLast?_eq_some_getLast (by simp)⟩
  have hL2 : (ev1.map (fun i => (i + K - 1) / K)).getLast? = some ((L + K - 1) / K) := by
    rw [List.getLast?_map, hL]; rfl
  have hlen2 : (ev1.map (fun i => (i + K - 1) / K)).length = vs1.length + 1 := by simpa using hlen
  have dl1 := decode_length ev1 vs1 hlen hmono 0 L h0 hL
  have dl2 := decode_length _ vs1 hlen2 hmono2 0 _ h02 hL2
  by_cases hj : j * K < L
  · obtain ⟨a, b, c1, c2, ha, hb, h1, h2⟩ := run_at ev1 hmono (j * K) 0 L h0 hL (Nat.zero_le _) hj
    have hsrc := decode_run ev1 vs1 hlen hmono _ _ 0 a b h0 ha hb h1 h2
    have ha2 : (ev1.map (fun i => (i + K - 1) / K))[List.countP (fun x => decide (x ≤ j * K)) ev1 - 1]? =
        some ((a + K - 1) / K) := by rw [List.getElem?_map, ha]; rfl
    have hb2 : (ev1.map (fun i => (i + K - 1) / K))[List.countP (fun x => decide (x ≤ j * K)) ev1 - 1 + 1]? =
        some ((b + K - 1) / K) := by rw [List.getElem?_map, hb]; rfl
    have := decode_run _ vs1 hlen2 hmono2 _ j 0 _ _ h02 ha2 hb2
      ((ceil_le_iff a K j hK).2 h1) (by have := ceil_le_iff b K j hK; omega)
    simp only [Nat.sub_zero] at this hsrc
    rw [this, hsrc]
  · have := ceil_le_iff L K j hK
    rw [List.getElem?_eq_none (by omega), List.getElem?_eq_none (by omega)]

/-! ## `remove_empty_intervals` keeps the leading 0 -/

theorem removeEmpty_fst_sublist (ev : List Nat) (vs : List α) : (removeEmpty ev vs).1.Sublist ev := by
  unfold removeEmpty deleteIdx
  simp only []
  have := (List.filter_sublist (p := fun p : Nat × Nat =>
      !(Np.flatnonzero (List.zipWith (fun a b => a == b) ev (List.drop 1 ev))).contains p.2)
      (l := ev.zipIdx)).map Prod.fst
  rwa [List.zipIdx_map_fst] at this

theorem removeEmpty_valid (ev : List Nat) (vs : List α) (hlen : ev.length = vs.length + 1)
    (hmono : ev.Pairwise (· ≤ ·)) (h0 : ev[0]? = some 0) :
    (RLA.mk (removeEmpty ev vs).1 (removeEmpty ev vs).2).Valid := by
  obtain ⟨hd, hl, hs⟩ := Props.C14.C14_removeEmpty_decode ev vs hlen hmono
  have hsub := removeEmpty_fst_sublist ev vs
  generalize (removeEmpty ev vs).1 = ev' at *
  generalize (removeEmpty ev vs).2 = vs' at *
  rw [strictInc_iff] at hs
  rw [valid_iff]
  refine ⟨?_, hl, hs⟩
  obtain ⟨L, hL⟩ : ∃ L, ev.getLast? = some L := by
    cases ev with
    | nil => simp at h0
    | cons x xs => exact ⟨_, List.getLast?_eq_some_getLast (by simp)⟩
  cases ev' with
  | nil => simp at hl
  | cons x xs =>
    have hL' : ∃ L', (x :: xs).getLast? = some L' := ⟨_, List.getLast?_eq_some_getLast (by simp)⟩
    obtain ⟨L', hL'⟩ := hL'
    have d1 := decode_length ev vs hlen hmono 0 L h0 hL
    have d2 := decode_length (x :: xs) vs' hl (mono_of_strict hs) x L' rfl hL'
    have hle := mem_le_getLast ev hmono L hL
    have m1 : x ≤ L := hle x (hsub.subset List.mem_cons_self)
    have m2 : L' ≤ L := hle L' (hsub.subset (List.mem_of_getLast? hL'))
    rw [hd] at d2
    simp only [List.head?_cons, Option.some.injEq]
    omega

/-! ## the whole of `_step_subset` -/

theorem step_core (eq : α → α → Bool) (heq : ∀ x y, eq x y = true → x = y) (ev1 : List Nat)
    (vs1 : List α) (hlen : ev1.length = vs1.length + 1) (hmono : ev1.Pairwise (· ≤ ·))
    (h0 : ev1[0]? = some 0) (K : Nat) (hK : 0 < K) :
    let p := removeEmpty (ev1.map (fun i => (i + K - 1) / K)) vs1
    let q := joinRuns eq p.1 p.2
    (RLA.mk q.1 q.2).Valid ∧ ∀ j, (RLA.mk q.1 q.2).decode[j]? = (RLA.mk ev1 vs1).decode[j * K]? := by
  intro p q
  have hmono2 : (ev1.map (fun i => (i + K - 1) / K)).Pairwise (· ≤ ·) := by
    rw [List.pairwise_map]
    exact hmono.imp (fun {a b} hab => Nat.div_le_div_right (by omega))
  have hc0 : (0 + K - 1) / K = 0 := Nat.div_eq_of_lt (by omega)
  have h02 : (ev1.map (fun i => (i + K - 1) / K))[0]? = some 0 := by
    rw [List.getElem?_map, h0]; simp only [Option.map_some]; rw [hc0]
  have hlen2 : (ev1.map (fun i => (i + K - 1) / K)).length = vs1.length + 1 := by simpa using hlen
  have hv := removeEmpty_valid _ vs1 hlen2 hmono2 h02
  have hd := (Props.C14.C14_removeEmpty_decode _ vs1 hlen2 hmono2).1
  obtain ⟨jd, jv⟩ := Props.C14.C14_joinRuns_decode eq heq (RLA.mk p.1 p.2) hv
  refine ⟨jv, ?_⟩
  intro j
  show (RLA.mk (joinRuns eq p.1 p.2).1 (joinRuns eq p.1 p.2).2).decode[j]? = _
  rw [jd, hd]
  exact stride_getElem? ev1 vs1 hlen hmono h0 K hK j

/-- the stride arithmetic (for any non-zero step, clamped or not) -/
theorem stepSubsetCore_spec (eq : α → α → Bool) (heq : ∀ x y, eq x y = true → x = y) (r : RLA α)
    (h : r.Valid) (k : Int) (hk : k ≠ 0) :
    (RLA.mk (r.stepSubsetCore eq k).1 (r.stepSubsetCore eq k).2).Valid ∧
    (RLA.mk (r.stepSubsetCore eq k).1 (r.stepSubsetCore eq k).2).decode = Py.slice r.decode none none k := by
  obtain ⟨h0, hl, hpw⟩ := (valid_iff r).1 h
  unfold stepSubsetCore
  simp only []
  rw [valid_getLast r h, Option.getD_some]
  rcases Int.eq_nat_or_neg k with ⟨K, rfl | rfl⟩
  · have hK : 0 < K := by omega
    rw [if_neg (by omega), if_neg (by omega), Int.natAbs_natCast]
    have := step_core eq heq r.events r.values hl (mono_of_strict hpw) (valid_head r h) K hK
    refine ⟨this.1, ?_⟩
    apply List.ext_getElem?
    intro j
    rw [this.2 j, slice_pos_getElem? _ K hK]
  · have hK : 0 < K := by omega
    rw [if_pos (by omega), if_pos (by omega), Int.natAbs_neg, Int.natAbs_natCast]
    have hv := rev_valid r h
    obtain ⟨h0', hl', hpw'⟩ := (valid_iff _).1 hv
    have := step_core eq heq _ _ hl' (mono_of_strict hpw') (valid_head _ hv) K hK
    refine ⟨this.1, ?_⟩
    apply List.ext_getElem?
    intro j
    rw [this.2 j, slice_neg_getElem? _ K hK, rev_decode r h]

/-- `_step_subset` is the stride arithmetic at the clamped step -/
theorem stepSubset_eq_core (eq : α → α → Bool) (r : RLA α) (k : Int) :
    r.stepSubset eq k = r.stepSubsetCore eq
      (if k < 0 then -((min k.natAbs (max r.len 1) : Nat) : Int)
        else ((min k.natAbs (max r.len 1) : Nat) : Int)) := rfl

theorem clamp_ne_zero (n : Nat) (k : Int) (hk : k ≠ 0) :
    (if k < 0 then -((min k.natAbs (max n 1) : Nat) : Int)
        else ((min k.natAbs (max n 1) : Nat) : Int)) ≠ 0 := by
  split <;> omega

theorem stepSubset_spec (eq : α → α → Bool) (heq : ∀ x y, eq x y = true → x = y) (r : RLA α)
    (h : r.Valid) (k : Int) (hk : k ≠ 0) :
    (RLA.mk (r.stepSubset eq k).1 (r.stepSubset eq k).2).Valid ∧
    (RLA.mk (r.stepSubset eq k).1 (r.stepSubset eq k).2).decode = Py.slice r.decode none none k := by
  rw [stepSubset_eq_core, Py.slice_step_clamp r.decode k hk, ← len_eq_decode_length r h]
  exact stepSubsetCore_spec eq heq r h _ (clamp_ne_zero r.len k hk)

/-- the clamp does not change the decoded result of the stride arithmetic -/
theorem stepSubset_decode_eq_core (eq : α → α → Bool) (heq : ∀ x y, eq x y = true → x = y) (r : RLA α)
    (h : r.Valid) (k : Int) (hk : k ≠ 0) :
    (RLA.mk (r.stepSubset eq k).1 (r.stepSubset eq k).2).decode =
      (RLA.mk (r.stepSubsetCore eq k).1 (r.stepSubsetCore eq k).2).decode := by
  rw [(stepSubset_spec eq heq r h k hk).2, (stepSubsetCore_spec eq heq r h k hk).2]

end Proofs.RLIndex
