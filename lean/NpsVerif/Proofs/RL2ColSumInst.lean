import NpsVerif.Proofs.RL2ColSum
import NpsVerif.Proofs.RL2ColCounts
/-!
# `_col_sum` on the two encoders: `fromRagged` (row end stored, trailing 0 per row) and `fromMatrix`
(last column forced, common row length)
-/
open Model Model.RLA Model.RL2 Np

namespace Proofs.RL2B

theorem foldl_max_eq (xs : List Nat) (m : Nat) (hub : ∀ x ∈ xs, x ≤ m) (hm : m = 0 ∨ m ∈ xs) :
    xs.foldl max 0 = m := by
  apply Nat.le_antisymm
  · rcases foldl_max_mem xs 0 with h | h
    · omega
    · exact hub _ h
  · rcases hm with h | h
    · omega
    · exact le_foldl_max xs 0 m h

/-- numpy `!=` on integers -/
def neInt (x y : Int) : Bool := x != y

theorem neInt_false (x y : Int) (h : neInt x y = false) : x = y := by
  simpa [neInt] using h

/-- off the change positions the row does not change -/
theorem cell_const (a : List Int) (p : Nat) (hp0 : 0 < p) (hp : p < a.length)
    (hn : p ∉ changeStarts neInt a) : a[p]?.getD 0 = a[p - 1]?.getD 0 := by
  obtain ⟨u, v, hu, hv, huv⟩ := changeStarts_not_mem neInt a p hp0 hp hn
  rw [hu, hv, neInt_false u v huv]

theorem filterMap_cells (a : List Int) (S : List Nat) (h : ∀ s ∈ S, s < a.length) :
    S.filterMap (a[·]?) = S.map (fun p => a[p]?.getD 0) := by
  apply filterMap_eq_map'
  intro s hs
  rw [List.getElem?_eq_getElem (h s hs)]
  rfl

/-! ## ragged -/

theorem colSum_ragged (rows : List (List Int)) (hpos : ∀ r ∈ rows, r ≠ []) (hne : rows ≠ []) :
    ∃ r, (fromRagged neInt rows).colSum = some r ∧ r.Valid ∧ r.decode = Spec.colSum rows := by
  have e : (fromRagged neInt rows).colSum = colSumCore (fromRagged neInt rows).indices
      ((fromRagged neInt rows).values.map (· ++ [0]))
      ((fromRagged neInt rows).indices.flatten.foldl max 0) := rfl
  rw [e, fromRagged_indices, fromRagged_values, List.map_map]
  -- the widest row
  have hWle : ∀ a ∈ rows, a.length ≤ (rows.map List.length).foldl max 0 :=
    fun a ha => le_foldl_max _ 0 _ (List.mem_map_of_mem ha)
  have hL : (rows.map (fun a => changeStarts neInt a ++ [a.length])).flatten.foldl max 0
      = (rows.map List.length).foldl max 0 := by
    apply foldl_max_eq
    · intro x hx
      obtain ⟨l, hl, hxl⟩ := List.mem_flatten.1 hx
      obtain ⟨a, ha, rfl⟩ := List.mem_map.1 hl
      have := hWle a ha
      rcases List.mem_append.1 hxl with h | h
      · have := (changeStarts_facts neInt a (hpos a ha)).2.2 x h
        omega
      · simp at h; omega
    · rcases foldl_max_mem (rows.map List.length) 0 with h | h
      · exact Or.inl h
      · right
        obtain ⟨a, ha, hal⟩ := List.mem_map.1 h
        apply List.mem_flatten.2
        exact ⟨_, List.mem_map_of_mem ha, by rw [← hal]; simp⟩
  have hvals : rows.map ((· ++ [0]) ∘ fun a => (changeStarts neInt a).filterMap (a[·]?))
      = rows.map (fun a => (changeStarts neInt a ++ [a.length]).map (fun p => a[p]?.getD 0)) := by
    apply List.map_congr_left
    intro a ha
    simp only [Function.comp]
    rw [filterMap_cells a _ (changeStarts_facts neInt a (hpos a ha)).2.2, List.map_append]
    simp
  rw [hL, hvals]
  have hLpos : 0 < (rows.map List.length).foldl max 0 := by
    cases rows with
    | nil => exact absurd rfl hne
    | cons a rows =>
      have h1 := hWle a (by simp)
      have h2 := List.length_pos_iff.2 (hpos a (by simp))
      omega
  apply colSum_rows rows (fun a => changeStarts neInt a ++ [a.length]) _ rfl hLpos hne
  · intro a ha
    obtain ⟨h1, h2, h3⟩ := changeStarts_facts neInt a (hpos a ha)
    refine ⟨h1, ?_, ?_⟩
    · cases hc : changeStarts neInt a with
      | nil => rw [hc] at h2; simp at h2
      | cons c cs => rw [hc] at h2; simpa using h2
    · intro s hs
      have := hWle a ha
      rcases List.mem_append.1 hs with h | h
      · have := h3 s h; omega
      · simp at h; omega
  · intro a ha p hp0 _ hn
    simp only [List.mem_append, List.mem_singleton, not_or] at hn
    by_cases hp : p < a.length
    · exact cell_const a p hp0 hp hn.1
    · rw [List.getElem?_eq_none (by omega), List.getElem?_eq_none (by omega)]

/-! ## matrix -/

/-- the boundaries `fromMatrix` keeps for one row -/
def matStarts (a : List Int) : List Nat :=
  let s := changeStarts neInt a
  if a.length ≥ 1 ∧ ¬ s.contains (a.length - 1) then s ++ [a.length - 1] else s

theorem matStarts_facts (a : List Int) (ha : a ≠ []) :
    (matStarts a).Pairwise (· < ·) ∧ (matStarts a).head? = some 0 ∧
    (∀ s ∈ matStarts a, s < a.length) ∧ (∀ s ∈ changeStarts neInt a, s ∈ matStarts a) := by
  obtain ⟨h1, h2, h3⟩ := changeStarts_facts neInt a ha
  have hlen := List.length_pos_iff.2 ha
  have hcs : (changeStarts neInt a).Pairwise (· < ·) := (List.pairwise_append.1 h1).1
  unfold matStarts
  simp only []
  split
  · rename_i hif
    have hnc : a.length - 1 ∉ changeStarts neInt a := by
      intro hm
      exact hif.2 (List.contains_iff_mem.2 hm)
    refine ⟨?_, ?_, ?_, ?_⟩
    · refine List.pairwise_append.2 ⟨hcs, by simp, ?_⟩
      intro s hs b hb
      simp only [List.mem_singleton] at hb
      subst hb
      have := h3 s hs
      have : s ≠ a.length - 1 := fun e => hnc (e ▸ hs)
      omega
    · cases hc : changeStarts neInt a with
      | nil => rw [hc] at h2; simp at h2
      | cons c cs => rw [hc] at h2; simpa using h2
    · intro s hs
      rcases List.mem_append.1 hs with h | h
      · exact h3 s h
      · simp at h; omega
    · intro s hs
      exact List.mem_append_left _ hs
  · exact ⟨hcs, h2, h3, fun s hs => hs⟩

theorem colSum_matrix (m : List (List Int)) (c : Nat) (hc : 1 ≤ c) (hm : ∀ r ∈ m, r.length = c)
    (hne : m ≠ []) :
    ∃ r, (fromMatrix neInt m c).colSum = some r ∧ r.Valid ∧ r.decode = Spec.colSum m := by
  have e : (fromMatrix neInt m c).colSum = colSumCore (m.map matStarts)
      (List.zipWith (fun (a : List Int) s => s.filterMap (a[·]?)) m (m.map matStarts)) c := rfl
  have hnil : ∀ a ∈ m, a ≠ [] := by
    intro a ha h
    have := hm a ha
    rw [h] at this
    simp at this; omega
  have hvals : List.zipWith (fun (a : List Int) s => s.filterMap (a[·]?)) m (m.map matStarts)
      = m.map (fun a => (matStarts a).map (fun p => a[p]?.getD 0)) := by
    rw [zipWith_map_self]
    apply List.map_congr_left
    intro a ha
    exact filterMap_cells a _ (matStarts_facts a (hnil a ha)).2.2.1
  rw [e, hvals]
  have hW : (m.map List.length).foldl max 0 = c := by
    apply foldl_max_eq
    · intro x hx
      obtain ⟨a, ha, rfl⟩ := List.mem_map.1 hx
      exact Nat.le_of_eq (hm a ha)
    · right
      cases m with
      | nil => exact absurd rfl hne
      | cons a m => simp [hm a (by simp)]
  apply colSum_rows m matStarts c hW (by omega) hne
  · intro a ha
    obtain ⟨h1, h2, h3, _⟩ := matStarts_facts a (hnil a ha)
    refine ⟨h1, h2, ?_⟩
    intro s hs
    have := h3 s hs
    have := hm a ha
    omega
  · intro a ha p hp0 hp hn
    obtain ⟨_, _, _, h4⟩ := matStarts_facts a (hnil a ha)
    exact cell_const a p hp0 (by rw [hm a ha]; exact hp) (fun h => hn (h4 p h))

end Proofs.RL2B
