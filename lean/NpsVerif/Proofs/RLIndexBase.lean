import NpsVerif.Model.RunLength
/-!
# Run-length arrays: the pointwise ("run membership") characterisation of `decode`

`dec lo es vs` is `decode` of the boundaries `lo :: es`; for weakly increasing boundaries the cell
`q - lo` of the decoded list is the value of the run `j` with `ev[j] ≤ q < ev[j+1]`.
-/
namespace Proofs.RLIndex
open Model Model.RLA
variable {α : Type}

/-- `decode` as a structural recursion over the boundaries after the first one -/
def dec : Nat → List Nat → List α → List α
  | lo, e :: es, v :: vs => List.replicate (e - lo) v ++ dec e es vs
  | _, _, _ => []

theorem dec_eq (e0 : Nat) (es : List Nat) (vs : List α) :
    (List.zipWith (fun l v => List.replicate l v)
      (List.zipWith (fun hi lo => hi - lo) es (e0 :: es)) vs).flatten = dec e0 es vs := by
  induction es generalizing e0 vs with
  | nil => simp [dec]
  | cons e es ih =>
    cases vs with
    | nil => simp [dec]
    | cons v vs =>
      simp only [List.zipWith_cons_cons, List.flatten_cons, dec]
      rw [ih]

theorem decode_cons (e0 : Nat) (es : List Nat) (vs : List α) :
    (RLA.mk (e0 :: es) vs).decode = dec e0 es vs := by
  unfold decode runLens
  simp only [List.drop_one, List.tail_cons]
  exact dec_eq e0 es vs

theorem decode_nil (vs : List α) : (RLA.mk [] vs).decode = [] := by
  simp [decode, runLens]

/-! ## `strictInc` -/

theorem strictInc_iff (l : List Nat) : strictInc l = true ↔ l.Pairwise (· < ·) := by
  induction l with
  | nil => simp [strictInc]
  | cons a l ih =>
    cases l with
    | nil => simp [strictInc]
    | cons b rest =>
      simp only [strictInc, Bool.and_eq_true, decide_eq_true_eq, ih]
      constructor
      · rintro ⟨hab, hp⟩
        refine List.pairwise_cons.2 ⟨?_, hp⟩
        intro x hx
        rcases List.mem_cons.1 hx with rfl | hx
        · exact hab
        · exact Nat.lt_trans hab ((List.pairwise_cons.1 hp).1 x hx)
      · intro hp
        have := List.pairwise_cons.1 hp
        exact ⟨this.1 b (List.mem_cons_self), this.2⟩

theorem mono_of_strict {l : List Nat} (h : l.Pairwise (· < ·)) : l.Pairwise (· ≤ ·) :=
  h.imp (fun h => Nat.le_of_lt h)

/-- the parts of `Valid` -/
theorem valid_iff (r : RLA α) :
    r.Valid ↔ r.events.head? = some 0 ∧ r.events.length = r.values.length + 1 ∧
      r.events.Pairwise (· < ·) := by
  unfold Valid validB
  simp only [Bool.and_eq_true, beq_iff_eq, strictInc_iff, and_assoc]

theorem valid_cons {r : RLA α} (h : r.Valid) :
    ∃ es, r.events = 0 :: es ∧ es.length = r.values.length ∧ (0 :: es).Pairwise (· < ·) := by
  obtain ⟨h0, hl, hp⟩ := (valid_iff r).1 h
  cases hev : r.events with
  | nil => rw [hev] at h0; simp at h0
  | cons e es =>
    rw [hev] at h0 hl hp
    simp only [List.head?_cons, Option.some.injEq] at h0
    subst h0
    exact ⟨es, rfl, by simpa using hl, hp⟩

/-! ## counting in a sorted list -/

theorem lt_countP_iff (p : Nat → Bool) (hp : ∀ a b, a ≤ b → p b = true → p a = true)
    (l : List Nat) (hl : l.Pairwise (· ≤ ·)) (j : Nat) (hj : j < l.length) :
    j < l.countP p ↔ p l[j] = true := by
  induction l generalizing j with
  | nil => simp at hj
  | cons x xs ih =>
    have hx := List.pairwise_cons.1 hl
    by_cases hpx : p x = true
    · rw [List.countP_cons_of_pos hpx]
      cases j with
      | zero => simp [hpx]
      | succ j =>
        simp only [List.getElem_cons_succ]
        rw [← ih hx.2 j (by simpa using hj)]
        omega
    · have hall : ∀ a ∈ xs, ¬ p a = true := fun a ha h => hpx (hp x a (hx.1 a ha) h)
      rw [List.countP_cons_of_neg hpx, List.countP_eq_zero.2 hall]
      cases j with
      | zero => simp [hpx]
      | succ j =>
        simp only [List.getElem_cons_succ, Nat.not_lt_zero, false_iff]
        exact hall _ (List.getElem_mem _)

theorem le_antitone (q : Nat) : ∀ a b : Nat, a ≤ b → decide (b ≤ q) = true → decide (a ≤ q) = true := by
  intro a b hab h; simp only [decide_eq_true_eq] at *; omega

theorem lt_antitone (q : Nat) : ∀ a b : Nat, a ≤ b → decide (b < q) = true → decide (a < q) = true := by
  intro a b hab h; simp only [decide_eq_true_eq] at *; omega

/-- position of `q` among sorted boundaries: the run `countP (· ≤ q) - 1` contains it -/
theorem run_at (ev : List Nat) (hmono : ev.Pairwise (· ≤ ·)) (q e0 eL : Nat)
    (h0 : ev[0]? = some e0) (hL : ev.getLast? = some eL) (hq0 : e0 ≤ q) (hq1 : q < eL) :
    ∃ a b, 1 ≤ ev.countP (· ≤ q) ∧ ev.countP (· ≤ q) < ev.length ∧
      ev[ev.countP (· ≤ q) - 1]? = some a ∧ ev[ev.countP (· ≤ q) - 1 + 1]? = some b ∧
      a ≤ q ∧ q < b := by
  have hpos : 0 < ev.length := by
    cases ev with
    | nil => simp at h0
    | cons => simp
  have key := lt_countP_iff (fun x => decide (x ≤ q)) (le_antitone q) ev hmono
  have c1 : 0 < ev.countP (· ≤ q) := by
    rw [key 0 hpos]
    have : ev[0] = e0 := by
      have := List.getElem?_eq_getElem hpos
      rw [h0] at this; exact (Option.some.inj this).symm
    simp [this, hq0]
  have c2 : ev.countP (· ≤ q) < ev.length := by
    have hle := List.countP_le_length (p := (fun x => decide (x ≤ q))) (l := ev)
    rcases Nat.lt_or_ge (ev.countP (· ≤ q)) ev.length with h | h
    · exact h
    · exfalso
      have hlt : ev.length - 1 < ev.countP (· ≤ q) := by omega
      rw [key (ev.length - 1) (by omega)] at hlt
      rw [List.getLast?_eq_getElem?, List.getElem?_eq_getElem (by omega)] at hL
      have := Option.some.inj hL
      simp only [decide_eq_true_eq] at hlt
      omega
  have ha := (key (ev.countP (· ≤ q) - 1) (by omega)).1 (by omega)
  have hb : ¬ (decide (ev[ev.countP (· ≤ q)] ≤ q) = true) := fun h =>
    Nat.lt_irrefl _ ((key (ev.countP (· ≤ q)) c2).2 h)
  simp only [decide_eq_true_eq] at ha hb
  refine ⟨ev[ev.countP (· ≤ q) - 1], ev[ev.countP (· ≤ q)], c1, c2, ?_, ?_, ha, by omega⟩
  · exact List.getElem?_eq_getElem _
  · have : ev.countP (· ≤ q) - 1 + 1 = ev.countP (· ≤ q) := by omega
    rw [this]; exact List.getElem?_eq_getElem _

/-! ## run membership -/

theorem dec_run (lo : Nat) (es : List Nat) (vs : List α) (hlen : es.length = vs.length)
    (hmono : (lo :: es).Pairwise (· ≤ ·)) (j q a b : Nat)
    (ha : (lo :: es)[j]? = some a) (hb : es[j]? = some b) (h1 : a ≤ q) (h2 : q < b) :
    (dec lo es vs)[q - lo]? = vs[j]? := by
  induction es generalizing lo vs j with
  | nil => simp at hb
  | cons e es ih =>
    cases vs with
    | nil => simp at hlen
    | cons v vs =>
      have hm := List.pairwise_cons.1 hmono
      have hloe : lo ≤ e := hm.1 e List.mem_cons_self
      simp only [dec]
      cases j with
      | zero =>
        simp only [List.getElem?_cons_zero, Option.some.injEq] at ha hb
        subst ha hb
        rw [List.getElem?_append_left (by simp; omega)]
        simp [List.getElem?_replicate]; omega
      | succ j =>
        simp only [List.getElem?_cons_succ] at ha hb ⊢
        have hea : e ≤ a := by
          rcases List.mem_cons.1 (List.mem_of_getElem? ha) with h | h
          · omega
          · exact (List.pairwise_cons.1 hm.2).1 a h
        rw [List.getElem?_append_right (by simp; omega)]
        have : q - lo - (List.replicate (e - lo) v).length = q - e := by simp; omega
        rw [this]
        exact ih e vs (by simpa using hlen) hm.2 j ha hb

theorem getLast?_getD_ge (lo : Nat) (es : List Nat) (hmono : (lo :: es).Pairwise (· ≤ ·)) :
    lo ≤ es.getLast?.getD lo := by
  cases h : es.getLast? with
  | none => simp
  | some x =>
    simp only [Option.getD_some]
    exact (List.pairwise_cons.1 hmono).1 x (List.mem_of_getLast? h)

theorem dec_length (lo : Nat) (es : List Nat) (vs : List α) (hlen : es.length = vs.length)
    (hmono : (lo :: es).Pairwise (· ≤ ·)) :
    (dec lo es vs).length = es.getLast?.getD lo - lo := by
  induction es generalizing lo vs with
  | nil => simp [dec]
  | cons e es ih =>
    cases vs with
    | nil => simp at hlen
    | cons v vs =>
      have hm := List.pairwise_cons.1 hmono
      have hloe : lo ≤ e := hm.1 e List.mem_cons_self
      simp only [dec, List.length_append, List.length_replicate]
      rw [ih e vs (by simpa using hlen) hm.2]
      have h3 := getLast?_getD_ge e es hm.2
      have : (e :: es).getLast?.getD lo = es.getLast?.getD e := by
        cases es with
        | nil => simp
        | cons x xs =>
          rw [List.getLast?_cons_cons]
          cases h : (x :: xs).getLast? with
          | none => simp at h
          | some y => rfl
      rw [this]; omega

/-- run membership: the cell at `q` is the value of the run containing `q` -/
theorem decode_run (ev : List Nat) (vs : List α) (hlen : ev.length = vs.length + 1)
    (hmono : ev.Pairwise (· ≤ ·)) (j q e0 a b : Nat) (h0 : ev[0]? = some e0)
    (ha : ev[j]? = some a) (hb : ev[j + 1]? = some b) (h1 : a ≤ q) (h2 : q < b) :
    (RLA.mk ev vs).decode[q - e0]? = vs[j]? := by
  cases ev with
  | nil => simp at h0
  | cons e es =>
    simp only [List.getElem?_cons_zero, Option.some.injEq] at h0
    subst h0
    rw [decode_cons]
    exact dec_run e es vs (by simpa using hlen) hmono j q a b ha (by simpa using hb) h1 h2

theorem decode_length (ev : List Nat) (vs : List α) (hlen : ev.length = vs.length + 1)
    (hmono : ev.Pairwise (· ≤ ·)) (e0 eL : Nat) (h0 : ev[0]? = some e0)
    (hL : ev.getLast? = some eL) : (RLA.mk ev vs).decode.length = eL - e0 := by
  cases ev with
  | nil => simp at h0
  | cons e es =>
    simp only [List.getElem?_cons_zero, Option.some.injEq] at h0
    subst h0
    rw [decode_cons, dec_length e es vs (by simpa using hlen) hmono]
    cases es with
    | nil => simp at hL; subst hL; simp
    | cons x xs =>
      rw [List.getLast?_cons_cons] at hL
      rw [hL]; rfl

end Proofs.RLIndex
