import NpsVerif.Proofs.RL2ColAnySort
/-!
# `_col_any` (C17, part E): one row

* `rS prev ix vs` / `rE prev ix vs`: the lower ends of the maximal True intervals of a row and the
  stored upper ends (structural recursion; `prev` = value of the preceding run);
* `rowStarts_eq` / `rowEnds_eq`: what the model computes through `joinRunsRow` is `rS false` / `rE false`;
* `row_count`: `#{starts ≤ c} − #{ends ≤ c}` is 1 if the row is True at `c` and 0 otherwise;
* `row_count_lt`: `#{ends ≤ x} ≤ #{starts < x}` (every interval is non-empty).
-/
namespace Proofs.RL2ColAny
open Model Model.RL2 Model.RLA Proofs.RLIndex

/-- the keep mask of `joinRunsRow`, as a recursion (`prev` = the preceding value) -/
def keepFrom : Option Bool → List Bool → List Bool
  | _, [] => []
  | prev, v :: vs => (prev != some v) :: keepFrom (some v) vs

theorem keepG_eq (prev : Option Bool) (vs : List Bool) :
    (List.range vs.length).map (fun j => if j = 0 then (prev != vs[0]?) else (vs[j - 1]? != vs[j]?))
      = keepFrom prev vs := by
  induction vs generalizing prev with
  | nil => simp [keepFrom]
  | cons v vs ih =>
    simp only [List.length_cons, List.range_succ_eq_map, List.map_cons, List.map_map, keepFrom]
    congr 1
    rw [← ih (some v)]
    apply List.map_congr_left
    intro j _
    cases j with
    | zero => simp
    | succ j => simp

theorem keep_eq (vs : List Bool) :
    (List.range vs.length).map (fun j => decide (j = 0) || (vs[j - 1]? != vs[j]?)) = keepFrom none vs := by
  rw [← keepG_eq none vs]
  apply List.map_congr_left
  intro j hj
  have hj' : j < vs.length := by simpa using hj
  cases j with
  | zero => simp [List.getElem?_eq_getElem hj']
  | succ j => simp

/-- lower ends of the maximal True intervals -/
def rS : Bool → List Nat → List Bool → List Nat
  | prev, i :: ix, v :: vs => if v && !prev then i :: rS v ix vs else rS v ix vs
  | _, _, _ => []

/-- stored upper ends of the maximal True intervals -/
def rE : Bool → List Nat → List Bool → List Nat
  | prev, i :: ix, v :: vs => if !v && prev then i :: rE v ix vs else rE v ix vs
  | _, _, _ => []

theorem joined_starts (b : Bool) (ix : List Nat) (vs : List Bool) :
    ((((ix.zip (keepFrom (some b) vs)).filterMap (fun p => if p.2 then some p.1 else none)).zip
      ((vs.zip (keepFrom (some b) vs)).filterMap (fun p => if p.2 then some p.1 else none))).filterMap
        (fun q => if q.2 then some q.1 else none)) = rS b ix vs := by
  induction ix generalizing vs b with
  | nil => simp [rS]
  | cons i ix ih =>
    cases vs with
    | nil => simp [rS, keepFrom]
    | cons v vs =>
      have := ih v vs
      cases b <;> cases v <;> simp [keepFrom, rS, this]

theorem joined_ends (b : Bool) (ix : List Nat) (vs : List Bool) :
    ((((ix.zip (keepFrom (some b) vs)).filterMap (fun p => if p.2 then some p.1 else none)).zip
      ((vs.zip (keepFrom (some b) vs)).filterMap (fun p => if p.2 then some p.1 else none))).filterMap
        (fun q => if !q.2 then some q.1 else none)) = rE b ix vs := by
  induction ix generalizing vs b with
  | nil => simp [rE]
  | cons i ix ih =>
    cases vs with
    | nil => simp [rE, keepFrom]
    | cons v vs =>
      have := ih v vs
      cases b <;> cases v <;> simp [keepFrom, rE] at this ⊢ <;> exact this

/-- the starts the model collects from one row -/
theorem rowStarts_eq (ix : List Nat) (vs : List Bool) :
    (((joinRunsRow ix vs).1.zip (joinRunsRow ix vs).2).filterMap
      (fun q => if q.2 then some q.1 else none)) = rS false ix vs := by
  unfold joinRunsRow
  simp only [keep_eq]
  cases ix with
  | nil => simp [rS]
  | cons i ix =>
    cases vs with
    | nil => simp [rS, keepFrom]
    | cons v vs =>
      have := joined_starts v ix vs
      cases v <;> simp [keepFrom, rS, this]

/-- the ends the model collects from one row -/
theorem rowEnds_eq (ix : List Nat) (vs : List Bool) :
    ((((joinRunsRow ix vs).1.zip (joinRunsRow ix vs).2).drop 1).filterMap
      (fun q => if !q.2 then some q.1 else none)) = rE false ix vs := by
  unfold joinRunsRow
  simp only [keep_eq]
  cases ix with
  | nil => simp [rE]
  | cons i ix =>
    cases vs with
    | nil => simp [rE, keepFrom]
    | cons v vs =>
      have := joined_ends v ix vs
      cases v <;> simp [keepFrom, rE] at this ⊢ <;> exact this

theorem rS_mem (prev : Bool) (ix : List Nat) (vs : List Bool) (x : Nat) (h : x ∈ rS prev ix vs) :
    x ∈ ix := by
  induction ix generalizing vs prev with
  | nil => simp [rS] at h
  | cons i ix ih =>
    cases vs with
    | nil => simp [rS] at h
    | cons v vs =>
      simp only [rS] at h
      split at h
      · rcases List.mem_cons.1 h with rfl | h
        · simp
        · exact List.mem_cons_of_mem _ (ih _ _ h)
      · exact List.mem_cons_of_mem _ (ih _ _ h)

theorem rE_mem (prev : Bool) (ix : List Nat) (vs : List Bool) (x : Nat) (h : x ∈ rE prev ix vs) :
    x ∈ ix := by
  induction ix generalizing vs prev with
  | nil => simp [rE] at h
  | cons i ix ih =>
    cases vs with
    | nil => simp [rE] at h
    | cons v vs =>
      simp only [rE] at h
      split at h
      · rcases List.mem_cons.1 h with rfl | h
        · simp
        · exact List.mem_cons_of_mem _ (ih _ _ h)
      · exact List.mem_cons_of_mem _ (ih _ _ h)

theorem rS_append (prev : Bool) (ix t : List Nat) (vs : List Bool) (hl : ix.length = vs.length) :
    rS prev (ix ++ t) vs = rS prev ix vs := by
  induction ix generalizing vs prev with
  | nil =>
    cases vs with
    | nil => cases t <;> simp [rS]
    | cons => simp at hl
  | cons i ix ih =>
    cases vs with
    | nil => simp at hl
    | cons v vs => simp only [List.cons_append, rS, ih v vs (by simpa using hl)]

theorem rE_append (prev : Bool) (ix t : List Nat) (vs : List Bool) (hl : ix.length = vs.length) :
    rE prev (ix ++ t) vs = rE prev ix vs := by
  induction ix generalizing vs prev with
  | nil =>
    cases vs with
    | nil => cases t <;> simp [rE]
    | cons => simp at hl
  | cons i ix ih =>
    cases vs with
    | nil => simp at hl
    | cons v vs => simp only [List.cons_append, rE, ih v vs (by simpa using hl)]

theorem cntLE_ite (cond : Bool) (i : Nat) (l : List Nat) (c : Nat) :
    cntLE (if cond then i :: l else l) c = (if cond && decide (i ≤ c) then 1 else 0) + cntLE l c := by
  cases cond
  · simp
  · by_cases h : i ≤ c <;> simp [cntLE, h] <;> omega

theorem cntLT_ite (cond : Bool) (i : Nat) (l : List Nat) (c : Nat) :
    cntLT (if cond then i :: l else l) c = (if cond && decide (i < c) then 1 else 0) + cntLT l c := by
  cases cond
  · simp
  · by_cases h : i < c <;> simp [cntLT, h] <;> omega

/-- per row: `#{starts ≤ c} − #{ends ≤ c}` is the value of the row at `c` -/
theorem row_count (prev : Bool) (lo : Nat) (es : List Nat) (vs : List Bool)
    (hpw : (lo :: es).Pairwise (· < ·)) (c : Nat) (hc : lo ≤ c) (b : Bool)
    (hb : (dec lo es vs)[c - lo]? = some b) :
    cntLE (rS prev (lo :: es) vs) c + prev.toNat = cntLE (rE prev (lo :: es) vs) c + b.toNat := by
  induction es generalizing lo vs prev with
  | nil => cases vs <;> simp [dec] at hb
  | cons e es ih =>
    cases vs with
    | nil => simp [dec] at hb
    | cons v vs =>
      have hm := List.pairwise_cons.1 hpw
      have hloe : lo < e := hm.1 e List.mem_cons_self
      simp only [dec] at hb
      simp only [rS, rE]
      by_cases hce : c < e
      · rw [List.getElem?_append_left (by simp; omega), List.getElem?_replicate,
          if_pos (by omega)] at hb
        have hb' : v = b := Option.some.inj hb
        subst hb'
        have z1 : cntLE (rS v (e :: es) vs) c = 0 := by
          apply cntLE_eq_zero
          intro y hy
          rcases List.mem_cons.1 (rS_mem _ _ _ _ hy) with rfl | hy
          · exact hce
          · exact Nat.lt_trans hce ((List.pairwise_cons.1 hm.2).1 y hy)
        have z2 : cntLE (rE v (e :: es) vs) c = 0 := by
          apply cntLE_eq_zero
          intro y hy
          rcases List.mem_cons.1 (rE_mem _ _ _ _ hy) with rfl | hy
          · exact hce
          · exact Nat.lt_trans hce ((List.pairwise_cons.1 hm.2).1 y hy)
        rw [cntLE_ite, cntLE_ite, z1, z2]
        cases prev <;> cases v <;> simp [hc]
      · rw [List.getElem?_append_right (by simp; omega)] at hb
        have : c - lo - (List.replicate (e - lo) v).length = c - e := by simp; omega
        rw [this] at hb
        have := ih v e vs hm.2 (by omega) hb
        rw [cntLE_ite, cntLE_ite]
        generalize cntLE (rS v (e :: es) vs) c = A at *
        generalize cntLE (rE v (e :: es) vs) c = B at *
        cases prev <;> cases v <;> simp [hc] at this ⊢ <;> omega

/-- per row: every interval that has ended by `x` started strictly before `x` -/
theorem row_count_lt (prev : Bool) (l : List Nat) (vs : List Bool) (hpw : l.Pairwise (· < ·)) (x : Nat) :
    cntLE (rE prev l vs) x ≤ cntLT (rS prev l vs) x + prev.toNat := by
  induction l generalizing vs prev with
  | nil => simp [rE]
  | cons lo l ih =>
    cases vs with
    | nil => simp [rE]
    | cons v vs =>
      have hm := List.pairwise_cons.1 hpw
      have := ih v vs hm.2
      simp only [rS, rE]
      by_cases hx : lo < x
      · rw [cntLE_ite, cntLT_ite]
        generalize cntLT (rS v l vs) x = A at *
        generalize cntLE (rE v l vs) x = B at *
        by_cases hx' : lo ≤ x <;> cases prev <;> cases v <;> simp [hx, hx'] at this ⊢ <;> omega
      · have z : cntLE (rE v l vs) x = 0 := by
          apply cntLE_eq_zero
          intro y hy
          have := hm.1 y (rE_mem _ _ _ _ hy)
          omega
        rw [cntLE_ite, cntLT_ite, z]
        have hx' : ¬ lo + 1 ≤ x := by omega
        cases prev <;> cases v <;> simp [hx] <;> split <;> omega

end Proofs.RL2ColAny
