import NpsVerif.Spec.Py
import NpsVerif.Gen.Ref
/-!
# Arithmetic of the column-slice kernels (K1–K3) of `Gen.Ref` versus CPython's slice rules

Everything here is about the committed reference kernels `Gen.Ref.*` only; the generated kernels
`Gen.Cur.*` are reached through the bridge lemmas in `Props/C02Kernels.lean`.
-/
namespace Proofs.ColSlice
open Gen

/-! ## arithmetic progressions -/

theorem prog_length (s k : Int) (n : Nat) : (Py.prog s k n).length = n := by
  induction n generalizing s with
  | zero => rfl
  | succ n ih => simp [Py.prog, ih]

theorem mem_prog {s k : Int} {n : Nat} {i : Int} (h : i ∈ Py.prog s k n) :
    ∃ j : Nat, j < n ∧ i = s + k * (j : Int) := by
  induction n generalizing s with
  | zero => simp [Py.prog] at h
  | succ n ih =>
    simp only [Py.prog, List.mem_cons] at h
    rcases h with h | h
    · exact ⟨0, by omega, by simp [h]⟩
    · obtain ⟨j, hj, he⟩ := ih h
      refine ⟨j + 1, by omega, ?_⟩
      rw [he, Int.natCast_add, Int.mul_add]
      simp only [Int.cast_ofNat_Int, Int.mul_one]
      omega

theorem prog_map_affine (s0 c s k : Int) (n : Nat) :
    (Py.prog s k n).map (fun i => s0 + c * i) = Py.prog (s0 + c * s) (c * k) n := by
  induction n generalizing s with
  | zero => rfl
  | succ n ih =>
    simp only [Py.prog, List.map_cons, ih]
    rw [Int.mul_add, Int.add_assoc]

/-! ## bounds of CPython's adjusted indices -/

theorem adjStart_bounds_pos (len : Int) (hl : 0 ≤ len) (a : Option Int) (k : Int) (hk : 0 < k) :
    0 ≤ Py.adjStart len a k ∧ Py.adjStart len a k ≤ len := by
  unfold Py.adjStart
  cases a <;> simp only [] <;> (repeat' split) <;> omega

theorem adjStop_bounds_pos (len : Int) (hl : 0 ≤ len) (b : Option Int) (k : Int) (hk : 0 < k) :
    0 ≤ Py.adjStop len b k ∧ Py.adjStop len b k ≤ len := by
  unfold Py.adjStop
  cases b <;> simp only [] <;> (repeat' split) <;> omega

theorem adjStart_bounds_neg (len : Int) (hl : 0 ≤ len) (a : Option Int) (k : Int) (hk : k < 0) :
    -1 ≤ Py.adjStart len a k ∧ Py.adjStart len a k ≤ len - 1 := by
  unfold Py.adjStart
  cases a <;> simp only [] <;> (repeat' split) <;> omega

theorem adjStop_bounds_neg (len : Int) (hl : 0 ≤ len) (b : Option Int) (k : Int) (hk : k < 0) :
    -1 ≤ Py.adjStop len b k ∧ Py.adjStop len b k ≤ len - 1 := by
  unfold Py.adjStop
  cases b <;> simp only [] <;> (repeat' split) <;> omega

/-- `j < (d-1)/k + 1` with `k > 0`, `d > 0` implies `k*j ≤ d-1` -/
theorem mul_le_of_lt_div (d k : Int) (j : Nat) (hk : 0 < k)
    (hj : (j : Int) < (d - 1) / k + 1) : k * (j : Int) ≤ d - 1 := by
  have h1 : (j : Int) ≤ (d - 1) / k := by omega
  have h2 : (j : Int) * k ≤ (d - 1) / k * k := Int.mul_le_mul_of_nonneg_right h1 (by omega)
  have h3 : (d - 1) / k * k ≤ d - 1 := Int.ediv_mul_le _ (by omega)
  rw [Int.mul_comm]
  omega

theorem sliceIdx_in_range (n : Nat) (a b : Option Int) (k : Int) (hk : k ≠ 0) :
    ∀ i ∈ Py.sliceIdx n a b k, 0 ≤ i ∧ i < n := by
  intro i hi
  unfold Py.sliceIdx at hi
  obtain ⟨j, hj, he⟩ := mem_prog hi
  have hn : (0 : Int) ≤ (n : Int) := by omega
  unfold Py.sliceLen at hj
  simp only [] at hj
  by_cases hneg : k < 0
  · rw [if_pos hneg] at hj
    have ⟨ha1, ha2⟩ := adjStart_bounds_neg n hn a k hneg
    have ⟨hb1, hb2⟩ := adjStop_bounds_neg n hn b k hneg
    split at hj
    · have hj' : (j : Int) < (Py.adjStart n a k - Py.adjStop n b k - 1) / (-k) + 1 := by omega
      have := mul_le_of_lt_div (Py.adjStart n a k - Py.adjStop n b k) (-k) j (by omega) hj'
      rw [Int.neg_mul] at this
      have h0 : 0 ≤ (-k) * (j : Int) := Int.mul_nonneg (by omega) (by omega)
      rw [Int.neg_mul] at h0
      omega
    · simp at hj
  · rw [if_neg hneg] at hj
    have hpos : 0 < k := by omega
    have ⟨ha1, ha2⟩ := adjStart_bounds_pos n hn a k hpos
    have ⟨hb1, hb2⟩ := adjStop_bounds_pos n hn b k hpos
    split at hj
    · have hj' : (j : Int) < (Py.adjStop n b k - Py.adjStart n a k - 1) / k + 1 := by omega
      have := mul_le_of_lt_div (Py.adjStop n b k - Py.adjStart n a k) k j hpos hj'
      have h0 : 0 ≤ k * (j : Int) := Int.mul_nonneg (by omega) (by omega)
      omega
    · simp at hj

/-! ## K2: positive step -/

/-- start clamp of `_pos_col_slice` (same text as the generated kernel) -/
def posStart (len : Int) (start : Option Int) : Int :=
  (match start with | none => (0 : Int) | some start_v1 => (if (decide (start_v1 ≥ (0 : Int))) then (min start_v1 len) else (max (len + start_v1) (0 : Int))))

/-- stop clamp of `_pos_col_slice` (same text as the generated kernel) -/
def posStop (len : Int) (stop : Option Int) : Int :=
  (match stop with | none => len | some stop_v1 => (if (decide (stop_v1 < (0 : Int))) then (max (len + stop_v1) (0 : Int)) else (min len stop_v1)))

theorem ref_pos_col_slice_eq (len s0 c : Int) (a b : Option Int) (k : Int) :
    Ref.pos_col_slice len s0 c a b k =
      (s0 + c * posStart len a,
       max 0 (Int.fdiv ((posStop len b - posStart len a) - 1) k + 1), c * k) := by
  cases a <;> cases b <;> rfl

theorem posStart_eq (len : Int) (_h : 0 ≤ len) (start : Option Int) (step : Int) (hs : 0 < step) :
    posStart len start = Py.adjStart len start step := by
  unfold posStart Py.adjStart
  cases start with
  | none => simp only []; split <;> omega
  | some s => simp only [decide_eq_true_eq]; (repeat' split) <;> omega

theorem posStop_eq (len : Int) (_h : 0 ≤ len) (stop : Option Int) (step : Int) (hs : 0 < step) :
    posStop len stop = Py.adjStop len stop step := by
  unfold posStop Py.adjStop
  cases stop with
  | none => simp only []; split <;> omega
  | some s => simp only [decide_eq_true_eq]; (repeat' split) <;> omega

theorem ceil_lemma (d step : Int) (hs : 0 < step) :
    max 0 ((d - 1) / step + 1) = if 0 < d then (d - 1) / step + 1 else 0 := by
  split
  · have : 0 ≤ (d - 1) / step := Int.ediv_nonneg (by omega) (by omega)
    omega
  · have : (d - 1) / step < 0 := Int.ediv_neg_of_neg_of_pos (by omega) hs
    omega

theorem posLen_eq (len : Int) (h : 0 ≤ len) (start stop : Option Int) (step : Int) (hs : 0 < step) :
    max 0 (Int.fdiv ((posStop len stop - posStart len start) - 1) step + 1) =
      Py.sliceLen len start stop step := by
  unfold Py.sliceLen
  rw [posStart_eq len h start step hs, posStop_eq len h stop step hs,
    Int.fdiv_eq_ediv_of_nonneg _ (by omega)]
  simp only []
  rw [if_neg (by omega)]
  rw [ceil_lemma (Py.adjStop len stop step - Py.adjStart len start step) step hs]
  split <;> split <;> first | omega | rfl

/-- K2 on the reference kernel: CPython's start, length and composed stride -/
theorem ref_pos_col_slice (len s0 c : Int) (hl : 0 ≤ len) (a b : Option Int) (k : Int) (hk : 0 < k) :
    Ref.pos_col_slice len s0 c a b k =
      (s0 + c * Py.adjStart len a k, Py.sliceLen len a b k, c * k) := by
  rw [ref_pos_col_slice_eq, posLen_eq len hl a b k hk, posStart_eq len hl a k hk]

/-! ## K1: negative step -/

/-- the part of `_calculate_lengths` after None/negative normalisation of start/stop
(same text as the generated kernel) -/
def calcCore (len start2 stop2 step2 : Int) : Int :=
  let mask1 : Bool := ((sgn (stop2 - start2)) != (sgn step2))
  let mask2 : Bool := (mask1 || ((decide (start2 < (0 : Int))) && (decide (step2 < (0 : Int)))))
  let mask3 : Bool := (mask2 || ((decide (start2 ≥ len)) && (decide (step2 > (0 : Int)))))
  let mask4 : Bool := (mask3 || ((decide (stop2 ≤ (0 : Int))) && (decide (step2 > (0 : Int)))))
  let mask5 : Bool := (mask4 || ((decide (stop2 ≥ len)) && (decide (step2 < (0 : Int)))))
  let mask6 : Bool := (mask5 || (len == (0 : Int)))
  let start3 : Int := (max (min start2 (len - (1 : Int))) (0 : Int))
  let d1 : Int := (if (decide (step2 ≥ (0 : Int))) then (0 : Int) else (-(1 : Int)))
  let stop3 : Int := (max (min stop2 (len + d1)) ((0 : Int) + d1))
  let L1 : Int := (stop3 - start3)
  (if mask6 then (0 : Int) else ((Int.fdiv ((iabs L1) - (1 : Int)) (iabs step2)) + (1 : Int)))

/-- negative-index normalisation (no clamping) used by `_calculate_lengths` and `col_slice` -/
def norm1 (len : Int) (x : Option Int) (dflt : Int) : Int :=
  (match x with | none => dflt | some v => (if (decide (v < (0 : Int))) then (len + v) else v))

theorem ref_calc_lengths_eq (len : Int) (a b : Option Int) (s : Int) :
    Ref.calc_lengths len a b (some s) =
      calcCore len (norm1 len a (if (decide (s ≥ (0 : Int))) then (0 : Int) else (len - (1 : Int))))
        (norm1 len b (if (decide (s ≥ (0 : Int))) then len else (-(1 : Int)))) s := by
  cases a <;> cases b <;> rfl

def clampN (len x : Int) : Int := if x < 0 then -1 else if x ≥ len then len - 1 else x

theorem adjStart_neg (len : Int) (hl : 0 ≤ len) (start : Option Int) (step : Int) (hs : step < 0) :
    Py.adjStart len start step =
      clampN len (norm1 len start (if (decide (step ≥ (0 : Int))) then (0 : Int) else (len - (1 : Int)))) := by
  unfold Py.adjStart clampN norm1
  cases start with
  | none => simp only [decide_eq_true_eq]; (repeat' split) <;> omega
  | some s => simp only [decide_eq_true_eq]; (repeat' split) <;> omega

/-- stop=None must be kept apart: it normalises to -1, which `some (-1)` does not -/
theorem adjStop_neg (len : Int) (_hl : 0 ≤ len) (stop : Option Int) (step : Int) (hs : step < 0) :
    Py.adjStop len stop step =
      clampN len (norm1 len stop (if (decide (step ≥ (0 : Int))) then len else (-(1 : Int)))) := by
  unfold Py.adjStop clampN norm1
  cases stop with
  | none => simp only [decide_eq_true_eq]; (repeat' split) <;> omega
  | some s => simp only [decide_eq_true_eq]; (repeat' split) <;> omega

theorem calcCore_zero (a b step : Int) : calcCore 0 a b step = 0 := by
  unfold calcCore
  simp

theorem calcCore_neg (len a b step : Int) (hl : 0 < len) (hs : step < 0) :
    calcCore len a b step =
      (if clampN len b < clampN len a then (clampN len a - clampN len b - 1) / (-step) + 1 else 0) := by
  unfold calcCore
  have hsg : sgn step = -1 := by unfold sgn; split <;> (try split) <;> omega
  have hab : iabs step = -step := by unfold iabs; split <;> omega
  have h1 : decide (step < 0) = true := by simp [hs]
  have h2 : decide (step > 0) = false := by simp; omega
  have h3 : (if (decide (step ≥ 0)) then (0:Int) else -1) = -1 := by
    simp only [decide_eq_true_eq]; split <;> omega
  have h4 : (len == (0 : Int)) = false := by simp; omega
  simp only [hsg, hab, h1, h2, h3, h4, Bool.and_true, Bool.and_false, Bool.or_false]
  rw [Int.fdiv_eq_ediv_of_nonneg _ (by omega)]
  by_cases hm : (sgn (b - a) != -1 || decide (a < 0) || decide (b ≥ len)) = true
  · rw [if_pos hm]
    have : ¬ (clampN len b < clampN len a) := by
      unfold clampN sgn at *
      simp at hm
      (repeat' split) <;> (try omega)
      all_goals (rcases hm with (hm | hm) | hm <;> (try omega))
      all_goals (split at hm <;> (try split at hm) <;> omega)
    rw [if_neg this]
  · rw [if_neg hm]
    simp at hm
    obtain ⟨⟨hsgn, ha⟩, hb⟩ := hm
    have hba : b < a := by unfold sgn at hsgn; split at hsgn <;> (try split at hsgn) <;> omega
    have ca : clampN len a = max (min a (len - 1)) 0 := by unfold clampN; (repeat' split) <;> omega
    have cb : clampN len b = max (min b (len + -1)) (0 + -1) := by unfold clampN; (repeat' split) <;> omega
    have hle : clampN len b ≤ clampN len a := by unfold clampN; (repeat' split) <;> omega
    rw [← ca, ← cb]
    by_cases hlt : clampN len b < clampN len a
    · rw [if_pos hlt]
      have : iabs (clampN len b - clampN len a) = clampN len a - clampN len b := by unfold iabs; split <;> omega
      rw [this]
    · rw [if_neg hlt]
      have he : clampN len b - clampN len a = 0 := by omega
      rw [he]
      have : iabs 0 - 1 = -1 := by decide
      rw [this, Int.ediv_eq_neg_one_of_neg_of_le (by omega) (by omega)]
      rfl

theorem sliceLen_zero_neg (a b : Option Int) (s : Int) (hs : s < 0) : Py.sliceLen 0 a b s = 0 := by
  have ⟨ha1, ha2⟩ := adjStart_bounds_neg 0 (by omega) a s hs
  have ⟨hb1, hb2⟩ := adjStop_bounds_neg 0 (by omega) b s hs
  unfold Py.sliceLen
  simp only [if_pos hs]
  rw [if_neg (by omega)]

/-- K1 on the reference kernel: the row length after a negative-step column slice is CPython's
(also for empty rows, thanks to the `len == 0` mask) -/
theorem ref_calc_lengths_neg (len : Int) (hl : 0 ≤ len) (a b : Option Int) (s : Int) (hs : s < 0) :
    Ref.calc_lengths len a b (some s) = Py.sliceLen len a b s := by
  rw [ref_calc_lengths_eq]
  by_cases h0 : len = 0
  · subst h0
    rw [calcCore_zero, sliceLen_zero_neg a b s hs]
  · unfold Py.sliceLen
    rw [calcCore_neg _ _ _ _ (by omega) hs, adjStart_neg len hl a s hs, adjStop_neg len hl b s hs]
    simp only [if_pos hs]

/-! ## K3: slice branch -/

theorem ref_col_slice_slice_pos (len s0 c : Int) (a b : Option Int) (s : Int) (hs : 0 < s) :
    Ref.col_slice_slice len s0 c a b (some s) = Ref.pos_col_slice len s0 c a b s := by
  unfold Ref.col_slice_slice
  simp only [gt_iff_lt, hs, decide_true, if_true]

theorem ref_col_slice_slice_none (len s0 c : Int) (a b : Option Int) :
    Ref.col_slice_slice len s0 c a b none = Ref.pos_col_slice len s0 c a b 1 := by
  rfl

theorem ref_col_slice_slice_neg (len s0 c : Int) (a b : Option Int) (s : Int) (hs : s < 0) :
    Ref.col_slice_slice len s0 c a b (some s) =
      (s0 + c * max (min (len - 1)
          (norm1 len a (if (decide (s ≥ (0 : Int))) then (0 : Int) else (len - (1 : Int))))) 0,
       Ref.calc_lengths len a b (some s), s * c) := by
  have hn : ¬ (0 < s) := by omega
  unfold Ref.col_slice_slice
  simp only [gt_iff_lt, hn, decide_false, Bool.false_eq_true, if_false]
  cases a <;> rfl

/-- when the negative-step slice is non-empty the clamped start of `col_slice` is CPython's -/
theorem neg_start_eq (len : Int) (hl : 0 ≤ len) (a b : Option Int) (s : Int) (hs : s < 0)
    (hpos : 0 < Py.sliceLen len a b s) :
    max (min (len - 1)
      (norm1 len a (if (decide (s ≥ (0 : Int))) then (0 : Int) else (len - (1 : Int))))) 0 =
      Py.adjStart len a s := by
  have ⟨hb1, _⟩ := adjStop_bounds_neg len hl b s hs
  have hba : Py.adjStop len b s < Py.adjStart len a s := by
    unfold Py.sliceLen at hpos
    simp only [if_pos hs] at hpos
    split at hpos
    · assumption
    · omega
  rw [adjStart_neg len hl a s hs] at hba ⊢
  generalize norm1 len a _ = x at hba ⊢
  unfold clampN at hba ⊢
  (repeat' split) <;> (repeat' split at hba) <;> omega

/-- K3 (slice branch) on the reference kernel -/
theorem ref_col_slice_triple (len s0 c : Int) (hl : 0 ≤ len) (a b k : Option Int) (hk : k ≠ some 0) :
    (Ref.col_slice_slice len s0 c a b k).2.1 = Py.sliceLen len a b (k.getD 1) ∧
    (Ref.col_slice_slice len s0 c a b k).2.2 = c * (k.getD 1) ∧
    (0 < Py.sliceLen len a b (k.getD 1) →
      (Ref.col_slice_slice len s0 c a b k).1 = s0 + c * Py.adjStart len a (k.getD 1)) := by
  cases k with
  | none =>
    rw [ref_col_slice_slice_none, ref_pos_col_slice len s0 c hl a b 1 (by omega)]
    exact ⟨rfl, rfl, fun _ => rfl⟩
  | some s =>
    simp only [Option.getD_some]
    have hs0 : s ≠ 0 := fun h => hk (by rw [h])
    by_cases hs : 0 < s
    · rw [ref_col_slice_slice_pos _ _ _ _ _ _ hs, ref_pos_col_slice len s0 c hl a b s hs]
      exact ⟨rfl, rfl, fun _ => rfl⟩
    · have hs' : s < 0 := by omega
      rw [ref_col_slice_slice_neg _ _ _ _ _ _ hs', ref_calc_lengths_neg len hl a b s hs']
      refine ⟨rfl, Int.mul_comm _ _, fun hpos => ?_⟩
      simp only []
      rw [neg_start_eq len hl a b s hs' hpos]

/-- cells addressed by the new triple -/
theorem ref_col_slice_cells (len : Nat) (s0 c : Int) (a b k : Option Int) (hk : k ≠ some 0) :
    Py.prog (Ref.col_slice_slice len s0 c a b k).1 (Ref.col_slice_slice len s0 c a b k).2.2
        (Ref.col_slice_slice len s0 c a b k).2.1.toNat =
      (Py.sliceIdx len a b (k.getD 1)).map (fun i => s0 + c * i) := by
  obtain ⟨h1, h2, h3⟩ := ref_col_slice_triple len s0 c (by omega) a b k hk
  unfold Py.sliceIdx
  rw [prog_map_affine, h1, h2]
  by_cases hpos : 0 < Py.sliceLen len a b (k.getD 1)
  · rw [h3 hpos]
  · have : (Py.sliceLen len a b (k.getD 1)).toNat = 0 := by omega
    rw [this]
    rfl

/-! ## K3: integer branch -/

theorem ref_col_int (len : Nat) (s0 j : Int) :
    Ref.col_slice_int len s0 1 j =
      (Np.normIdx len j).map (fun i => (s0 + (i : Int), (1 : Int))) := by
  unfold Ref.col_slice_int Ref.view2_ends Np.normIdx
  simp only [Bool.true_and, Bool.or_eq_true, decide_eq_true_eq]
  (repeat' split) <;> (try simp only [Option.map_none, Option.map_some]) <;> first
    | omega
    | rfl
    | (congr 2; omega)

end Proofs.ColSlice
