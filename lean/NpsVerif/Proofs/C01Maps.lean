import NpsVerif.Proofs.C01
/-! Lemmas for the index maps of property C01: `ravel`/`unravel`, `index_array`, numpy round trip. -/
namespace Model
open Np

/-! ## sorted starts and `searchsorted(side="right")` -/

theorem exclScanFrom_ge (acc : Nat) (ls : List Nat) : ∀ s ∈ exclScanFrom acc ls, acc ≤ s := by
  induction ls generalizing acc with
  | nil => simp [exclScanFrom]
  | cons x xs ih =>
    intro s hs
    simp only [exclScanFrom, List.mem_cons] at hs
    rcases hs with rfl | hs
    · exact Nat.le_refl _
    · have := ih (acc + x) s hs; omega

theorem sum_take_le (ls : List Nat) (i : Nat) : (ls.take i).sum ≤ ls.sum := by
  have h := List.take_append_drop i ls
  have : ((ls.take i) ++ (ls.drop i)).sum = ls.sum := by rw [h]
  rw [List.sum_append] at this
  omega

theorem exclScanFrom_le (acc : Nat) (ls : List Nat) : ∀ s ∈ exclScanFrom acc ls, s ≤ acc + ls.sum := by
  intro s hs
  obtain ⟨i, hi, rfl⟩ := List.mem_iff_getElem.mp hs
  have hi' : i < ls.length := by simpa using hi
  have h := exclScanFrom_getElem? acc ls i hi'
  rw [List.getElem?_eq_getElem hi] at h
  have h2 := sum_take_le ls i
  simp only [Option.some.injEq] at h
  omega

theorem countP_le_eq_zero (xs : List Nat) (v : Nat) (h : ∀ s ∈ xs, v < s) :
    xs.countP (· ≤ v) = 0 := by
  rw [List.countP_eq_zero]
  intro s hs
  have := h s hs
  simp; omega

/-- the number of starts `≤ starts[r] + c` (with `c` inside row `r`) is `r + 1`, whatever the
placement of empty rows -/
theorem countP_le_of_sorted_prefix' (acc : Nat) (ls : List Nat) (r c v : Nat) (hr : r < ls.length)
    (hc : c < ls[r]) (hv : v = acc + (ls.take r).sum + c) :
    (exclScanFrom acc ls).countP (· ≤ v) = r + 1 := by
  induction ls generalizing acc r with
  | nil => simp at hr
  | cons x xs ih =>
    cases r with
    | zero =>
      simp only [List.getElem_cons_zero] at hc
      simp only [List.take_zero, List.sum_nil, Nat.add_zero] at hv
      simp only [exclScanFrom, List.countP_cons]
      rw [countP_le_eq_zero]
      · have : acc ≤ v := by omega
        simp [this]
      · intro s hs
        have := exclScanFrom_ge (acc + x) xs s hs
        omega
    | succ r =>
      simp only [List.getElem_cons_succ] at hc
      simp only [List.length_cons, Nat.add_lt_add_iff_right] at hr
      simp only [List.take_succ_cons, List.sum_cons] at hv
      simp only [exclScanFrom, List.countP_cons]
      rw [ih (acc + x) r hr hc (by omega)]
      have : acc ≤ v := by omega
      simp [this]

theorem countP_le_of_sorted_prefix (acc : Nat) (ls : List Nat) (r c : Nat) (hr : r < ls.length)
    (hc : c < ls[r]) :
    (exclScanFrom acc ls).countP (· ≤ acc + (ls.take r).sum + c) = r + 1 :=
  countP_le_of_sorted_prefix' acc ls r c _ hr hc rfl

/-- every flat position lies in exactly one (non-empty) row -/
theorem exists_row_col (ls : List Nat) (p : Nat) (hp : p < ls.sum) :
    ∃ r c, ∃ h : r < ls.length, c < ls[r] ∧ p = (ls.take r).sum + c := by
  induction ls generalizing p with
  | nil => simp at hp
  | cons x xs ih =>
    by_cases h : p < x
    · exact ⟨0, p, by simp, by simpa using h, by simp⟩
    · simp only [List.sum_cons] at hp
      obtain ⟨r, c, hr, hc, he⟩ := ih (p - x) (by omega)
      refine ⟨r + 1, c, by simpa using hr, by simpa using hc, ?_⟩
      simp only [List.take_succ_cons, List.sum_cons]
      omega

theorem ofLens_ravelIdx (ls : List Nat) (r c : Nat) (hr : r < ls.length) :
    (Shape.ofLens ls).ravelIdx r c = some ((ls.take r).sum + c) := by
  simp [Shape.ravelIdx, ofLens_starts, exclScan_getElem? ls r hr]

theorem ofLens_unravelIdx (ls : List Nat) (r c : Nat) (hr : r < ls.length) (hc : c < ls[r]) :
    (Shape.ofLens ls).unravelIdx ((ls.take r).sum + c) = some (r, c) := by
  have h := countP_le_of_sorted_prefix 0 ls r c hr hc
  simp only [Nat.zero_add] at h
  simp only [Shape.unravelIdx, searchsortedRightNat, ofLens_starts, exclScan, h]
  have := exclScanFrom_getElem? 0 ls r hr
  simp only [Nat.zero_add] at this
  simp [this]

/-! ## `index_array` -/

theorem foldl_max_le (xs : List Nat) (a b : Nat) (ha : a ≤ b) (h : ∀ x ∈ xs, x + 1 ≤ b) :
    xs.foldl (fun a x => max a (x + 1)) a ≤ b := by
  induction xs generalizing a with
  | nil => simpa using ha
  | cons x xs ih =>
    simp only [List.foldl_cons]
    apply ih
    · have := h x (by simp); omega
    · intro y hy; exact h y (by simp [hy])

theorem bincount_eq (xs : List Nat) (m : Nat) (h : ∀ x ∈ xs, x < m) :
    bincount xs m = (List.range m).map (fun k => xs.count k) := by
  unfold bincount
  have : xs.foldl (fun a x => max a (x + 1)) 0 ≤ m :=
    foldl_max_le xs 0 m (Nat.zero_le _) (fun x hx => h x hx)
  simp only [Nat.max_eq_left this]

theorem cumsumNatFrom_getElem? (acc : Nat) (l : List Nat) (i : Nat) (hi : i < l.length) :
    (cumsumNatFrom acc l)[i]? = some (acc + (l.take (i + 1)).sum) := by
  induction l generalizing acc i with
  | nil => simp at hi
  | cons x xs ih =>
    cases i with
    | zero => simp [cumsumNatFrom]
    | succ i =>
      simp only [cumsumNatFrom, List.getElem?_cons_succ, List.take_succ_cons, List.sum_cons]
      rw [ih (acc + x) i (by simpa using hi)]
      simp [Nat.add_assoc]

theorem countP_lt_succ (xs : List Nat) (k : Nat) :
    xs.countP (· < k + 1) = xs.countP (· < k) + xs.count k := by
  induction xs with
  | nil => simp
  | cons x xs ih =>
    simp only [List.countP_cons, List.count_cons, ih, decide_eq_true_eq, beq_iff_eq]
    by_cases h1 : x < k
    · have h2 : x < k + 1 := by omega
      have h3 : ¬ x = k := by omega
      simp [h1, h2, h3]; omega
    · by_cases h3 : x = k
      · have h2 : x < k + 1 := by omega
        simp [h3]; omega
      · have h2 : ¬ x < k + 1 := by omega
        simp [h1, h2, h3]

theorem sum_count_range (xs : List Nat) (k : Nat) :
    ((List.range k).map (fun q => xs.count q)).sum = xs.countP (· < k) := by
  induction k with
  | zero => simp
  | succ k ih =>
    rw [List.range_succ, List.map_append, List.sum_append, ih, countP_lt_succ]
    simp

/-- `cumsum(bincount(xs, minlength=m))[p]` is the number of entries `≤ p` -/
theorem cumsum_bincount_getElem? (xs : List Nat) (m p : Nat) (h : ∀ x ∈ xs, x < m) (hp : p < m) :
    (cumsumNat (bincount xs m))[p]? = some (xs.countP (· ≤ p)) := by
  rw [bincount_eq xs m h, cumsumNat, cumsumNatFrom_getElem? _ _ _ (by simpa using hp)]
  rw [← List.map_take, List.take_range, Nat.min_eq_left (by omega), sum_count_range]
  simp only [Nat.zero_add, Option.some.injEq]
  congr 1
  funext x
  simp [Nat.lt_succ_iff]

/-- `np.repeat(arange(k, k+n), ls)`: the row index of every flat position. -/
def rowIdsFrom (k : Nat) : List Nat → List Nat
  | [] => []
  | x :: xs => List.replicate x k ++ rowIdsFrom (k + 1) xs

theorem flatMap_range'_zip (k : Nat) (ls : List Nat) :
    ((List.range' k ls.length).zip ls).flatMap (fun rl => List.replicate rl.2 rl.1)
      = rowIdsFrom k ls := by
  induction ls generalizing k with
  | nil => simp [rowIdsFrom]
  | cons x xs ih =>
    simp only [List.length_cons, List.range'_succ, List.zip_cons_cons, List.flatMap_cons, rowIdsFrom]
    rw [ih (k + 1)]

theorem rowIdsFrom_length (k : Nat) (ls : List Nat) : (rowIdsFrom k ls).length = ls.sum := by
  induction ls generalizing k with
  | nil => simp [rowIdsFrom]
  | cons x xs ih => simp [rowIdsFrom, ih]

theorem rowIdsFrom_getElem? (k : Nat) (ls : List Nat) (r c : Nat) (hr : r < ls.length)
    (hc : c < ls[r]) : (rowIdsFrom k ls)[(ls.take r).sum + c]? = some (k + r) := by
  induction ls generalizing k r with
  | nil => simp at hr
  | cons x xs ih =>
    cases r with
    | zero =>
      simp only [List.getElem_cons_zero] at hc
      simp [rowIdsFrom, List.getElem?_append, hc]
    | succ r =>
      simp only [List.getElem_cons_succ] at hc
      simp only [List.length_cons, Nat.add_lt_add_iff_right] at hr
      simp only [rowIdsFrom, List.take_succ_cons, List.sum_cons, List.getElem?_append,
        List.length_replicate]
      rw [if_neg (by omega), show x + (xs.take r).sum + c - x = (xs.take r).sum + c by omega,
        ih (k + 1) r hr hc]
      congr 1; omega

theorem ofLens_indexArray (ls : List Nat) : (Shape.ofLens ls).indexArray = rowIdsFrom 0 ls := by
  apply List.ext_getElem?
  intro p
  have hmem : ∀ x ∈ (exclScan ls).drop 1, x < ls.sum + 1 := by
    intro x hx
    have := exclScanFrom_le 0 ls x (List.mem_of_mem_drop hx)
    omega
  have hlen : (cumsumNat (bincount ((exclScan ls).drop 1) (ls.sum + 1))).length = ls.sum + 1 := by
    rw [bincount_eq _ _ hmem]; simp [cumsumNat]
  simp only [Shape.indexArray, ofLens_starts, ofLens_size, List.getElem?_dropLast, hlen,
    Nat.add_sub_cancel]
  by_cases hp : p < ls.sum
  · rw [if_pos hp, cumsum_bincount_getElem? _ _ _ hmem (by omega)]
    obtain ⟨r, c, hr, hc, he⟩ := exists_row_col ls p hp
    have h1 := countP_le_of_sorted_prefix 0 ls r c hr hc
    have h2 := rowIdsFrom_getElem? 0 ls r c hr hc
    simp only [Nat.zero_add] at h1 h2
    rw [he, h2]
    cases ls with
    | nil => simp at hr
    | cons x xs =>
      simp only [exclScan, exclScanFrom, List.drop_succ_cons, List.drop_zero] at h1 ⊢
      rw [List.countP_cons] at h1
      simp only [Nat.zero_le, decide_true, if_true] at h1
      simp only [Option.some.injEq]
      omega
  · rw [if_neg hp, List.getElem?_eq_none (by rw [rowIdsFrom_length]; omega)]

/-! ## numpy round trip -/

theorem chunks_flatten {α} (m : List (List α)) (w : Nat) (h : ∀ r ∈ m, r.length = w) :
    RA.chunks m.length w m.flatten = m := by
  induction m with
  | nil => simp [RA.chunks]
  | cons r rs ih =>
    have hr : r.length = w := h r (by simp)
    have ih' := ih (fun x hx => h x (by simp [hx]))
    simp only [RA.chunks] at ih' ⊢
    simp only [List.length_cons, List.range_succ_eq_map, List.map_cons, List.map_map,
      List.flatten_cons, Nat.zero_mul, List.drop_zero]
    congr 1
    · rw [← hr, List.take_left]
    · conv => rhs; rw [← ih']
      apply List.map_congr_left
      intro i _
      simp only [Function.comp, Nat.succ_eq_add_one]
      rw [show (i + 1) * w = r.length + i * w by rw [hr, Nat.add_mul]; omega]
      rw [← List.drop_drop, List.drop_left]

theorem flatten_length_of_const {α} (m : List (List α)) (w : Nat) (h : ∀ r ∈ m, r.length = w) :
    m.flatten.length = m.length * w := by
  induction m with
  | nil => simp
  | cons r rs ih =>
    have := ih (fun x hx => h x (by simp [hx]))
    simp only [List.flatten_cons, List.length_append, List.length_cons, this, h r (by simp),
      Nat.add_mul]
    omega

end Model
