import NpsVerif.Model.Reduce
import NpsVerif.Proofs.C01
import NpsVerif.Proofs.C01Maps
/-! Lemmas for property C05: `ufunc.reduceat` on the starts of a contiguous shape, trimming of the
trailing empty rows by `searchsorted`, padding, identity patch-up. -/
namespace Model
open Np

variable {α β : Type}

/-! ## the (start, next start) pairs of `reduceat` are the (start, end) pairs of the rows -/

theorem exclScanFrom_append_sum (a : Nat) (ls : List Nat) :
    exclScanFrom a ls ++ [a + ls.sum] = a :: cumsumNatFrom a ls := by
  induction ls generalizing a with
  | nil => simp [exclScanFrom, cumsumNatFrom]
  | cons l ls ih =>
    simp only [exclScanFrom, cumsumNatFrom, List.sum_cons, List.cons_append]
    rw [← Nat.add_assoc, ih]

/-- with the total as the closing bound, the successor of every start is the end of its row -/
theorem raPairs_scan (k : Nat) (ls : List Nat) :
    (exclScanFrom k ls).zip ((exclScanFrom k ls).drop 1 ++ [k + ls.sum])
      = (exclScanFrom k ls).zip (cumsumNatFrom k ls) := by
  cases ls with
  | nil => simp [exclScanFrom, cumsumNatFrom]
  | cons l ls =>
    simp only [exclScanFrom, cumsumNatFrom, List.drop_succ_cons, List.drop_zero, List.sum_cons]
    rw [← Nat.add_assoc, exclScanFrom_append_sum]

/-- one output cell of `reduceat` -/
def seg (red : List α → β) (a : List α) (ij : Nat × Nat) : β :=
  if ij.1 < ij.2 then red (Np.sliceNat a ij.1 ij.2) else red (Np.sliceNat a ij.1 (ij.1 + 1))

theorem reduceat_eq (red : List α → β) (a : List α) (idx : List Nat) :
    reduceat red a idx =
      if idx.any (fun i => decide (a.length ≤ i)) then none
      else some ((idx.zip (idx.drop 1 ++ [a.length])).map (seg red a)) := rfl

/-- cell `i` of the segment map over (start, end) pairs is `red row` for a non-empty row `i` -/
theorem seg_scan_getElem? (red : List α → β) (rows : List (List α)) (pre : List α) (i : Nat)
    (row : List α) (h : rows[i]? = some row) (hne : row ≠ []) :
    (((exclScanFrom pre.length (rows.map List.length)).zip
        (cumsumNatFrom pre.length (rows.map List.length))).map
        (seg red (pre ++ rows.flatten)))[i]? = some (red row) := by
  induction rows generalizing pre i with
  | nil => simp at h
  | cons r rs ih =>
    simp only [List.map_cons, exclScanFrom, cumsumNatFrom, List.zip_cons_cons, List.flatten_cons]
    cases i with
    | zero =>
      simp only [List.getElem?_cons_zero, Option.some.injEq] at h
      subst h
      have hpos : 0 < r.length := List.length_pos_iff.mpr hne
      simp [seg, hpos, Np.sliceNat]
    | succ i =>
      simp only [List.getElem?_cons_succ] at h ⊢
      have := ih (pre ++ r) i h
      simpa only [List.length_append, List.append_assoc] using this

/-! ## all starts are valid `reduceat` indices when the last row is non-empty -/

theorem sum_pos_of_getLast (ls : List Nat) (hne : ls ≠ [])
    (hlast : ∀ l, ls.getLast? = some l → l ≠ 0) : 0 < ls.sum := by
  induction ls with
  | nil => exact absurd rfl hne
  | cons l ls ih =>
    cases ls with
    | nil =>
      have := hlast l (by simp)
      simp; omega
    | cons m t =>
      have := ih (by simp) (by intro x hx; exact hlast x (by rw [List.getLast?_cons_cons]; exact hx))
      simp only [List.sum_cons] at this ⊢
      omega

theorem exclScanFrom_lt (k : Nat) (ls : List Nat) (hlast : ∀ l, ls.getLast? = some l → l ≠ 0) :
    ∀ s ∈ exclScanFrom k ls, s < k + ls.sum := by
  induction ls generalizing k with
  | nil => simp [exclScanFrom]
  | cons l ls ih =>
    intro s hs
    simp only [exclScanFrom, List.mem_cons] at hs
    rcases hs with rfl | hs
    · have := sum_pos_of_getLast (l :: ls) (by simp) hlast
      omega
    · cases ls with
      | nil => simp [exclScanFrom] at hs
      | cons m t =>
        have := ih (k + l) (by intro x hx; exact hlast x (by rw [List.getLast?_cons_cons]; exact hx)) s hs
        simp only [List.sum_cons] at this ⊢
        omega

theorem lens_getLast (rows : List (List α)) (hlast : ∀ r, rows.getLast? = some r → r ≠ []) :
    ∀ l, (rows.map List.length).getLast? = some l → l ≠ 0 := by
  intro l hl
  rw [List.getLast?_map] at hl
  cases h : rows.getLast? with
  | none => simp [h] at hl
  | some r =>
    simp only [h, Option.map_some, Option.some.injEq] at hl
    have := hlast r h
    have := List.length_pos_iff.mpr this
    omega

theorem length_flatten_eq (rows : List (List α)) : rows.flatten.length = (rows.map List.length).sum := by
  simp [List.length_flatten]

/-- `reduceat` on the starts of a shape whose last row is non-empty: explicit result -/
theorem reduceat_starts (red : List α → β) (rows : List (List α))
    (hlast : ∀ r, rows.getLast? = some r → r ≠ []) :
    reduceat red rows.flatten (exclScan (rows.map List.length)) =
      some (((exclScan (rows.map List.length)).zip (cumsumNat (rows.map List.length))).map
        (seg red rows.flatten)) := by
  rw [reduceat_eq, if_neg]
  · rw [length_flatten_eq]
    have := raPairs_scan 0 (rows.map List.length)
    simp only [Nat.zero_add] at this
    simp only [exclScan, cumsumNat]
    rw [this]
  · simp only [Bool.not_eq_true, List.any_eq_false, decide_eq_true_eq, Nat.not_le]
    intro s hs
    have := exclScanFrom_lt 0 (rows.map List.length) (lens_getLast rows hlast) s hs
    rw [length_flatten_eq]
    omega

theorem reduceat_starts_spec (red : List α → β) (rows : List (List α))
    (hlast : ∀ r, rows.getLast? = some r → r ≠ []) :
    ∃ r, reduceat red rows.flatten (exclScan (rows.map List.length)) = some r ∧
      r.length = rows.length ∧
      ∀ (i : Nat) (row : List α), rows[i]? = some row → row ≠ [] → r[i]? = some (red row) := by
  refine ⟨_, reduceat_starts red rows hlast, ?_, ?_⟩
  · simp [exclScan, cumsumNat]
  · intro i row h hne
    have := seg_scan_getElem? red rows [] i row h hne
    simpa [exclScan, cumsumNat] using this

/-! ## trailing empty rows -/

/-- every list of rows is a list ending in a non-empty row (or no row), followed by empty rows -/
theorem rows_split (rows : List (List α)) :
    ∃ (rows' : List (List α)) (m : Nat), rows = rows' ++ List.replicate m [] ∧
      ∀ r, rows'.getLast? = some r → r ≠ [] := by
  induction rows with
  | nil => exact ⟨[], 0, by simp, by simp⟩
  | cons r rs ih =>
    obtain ⟨rs', m, he, hl⟩ := ih
    cases rs' with
    | nil =>
      by_cases hr : r = []
      · refine ⟨[], m + 1, ?_, by simp⟩
        simp [he, hr, List.replicate_succ]
      · refine ⟨[r], m, by simp [he], ?_⟩
        intro x hx
        simp at hx
        subst hx; exact hr
    | cons q t =>
      refine ⟨r :: q :: t, m, by simp [he], ?_⟩
      intro x hx
      rw [List.getLast?_cons_cons] at hx
      exact hl x hx

theorem exclScanFrom_append (k : Nat) (l1 l2 : List Nat) :
    exclScanFrom k (l1 ++ l2) = exclScanFrom k l1 ++ exclScanFrom (k + l1.sum) l2 := by
  induction l1 generalizing k with
  | nil => simp [exclScanFrom]
  | cons x xs ih =>
    simp only [List.cons_append, exclScanFrom, List.sum_cons, ih, Nat.add_assoc]

theorem exclScanFrom_replicate_zero (k m : Nat) :
    exclScanFrom k (List.replicate m 0) = List.replicate m k := by
  induction m with
  | zero => simp [exclScanFrom]
  | succ m ih => simp [List.replicate_succ, exclScanFrom, ih]

/-- starts of `rows' ++ m empty rows`: the starts of `rows'`, then `m` times the total size -/
theorem exclScan_trailing (ls : List Nat) (m : Nat) :
    exclScan (ls ++ List.replicate m 0) = exclScan ls ++ List.replicate m ls.sum := by
  simp [exclScan, exclScanFrom_append, exclScanFrom_replicate_zero]

theorem flatten_trailing (rows : List (List α)) (m : Nat) :
    (rows ++ List.replicate m []).flatten = rows.flatten := by
  induction m with
  | zero => simp
  | succ m ih =>
    rw [List.replicate_succ', ← List.append_assoc, List.flatten_append, ih]
    simp

theorem sum_trailing (ls : List Nat) (m : Nat) : (ls ++ List.replicate m 0).sum = ls.sum := by
  simp [List.sum_append]

/-- `searchsorted(starts, size, 'left')` = the number of rows before the trailing empty ones -/
theorem countP_trailing (ls : List Nat) (m : Nat) (hlast : ∀ l, ls.getLast? = some l → l ≠ 0) :
    (exclScan ls ++ List.replicate m ls.sum).countP (· < ls.sum) = ls.length := by
  rw [List.countP_append]
  have h1 : (exclScan ls).countP (· < ls.sum) = (exclScan ls).length := by
    rw [List.countP_eq_length]
    intro s hs
    have := exclScanFrom_lt 0 ls hlast s hs
    simp; omega
  have h2 : (List.replicate m ls.sum).countP (· < ls.sum) = 0 := by
    rw [List.countP_eq_zero]
    intro s hs
    have := List.eq_of_mem_replicate hs
    simp; omega
  rw [h1, h2]; simp

/-! ## `reduceRows` -/

/-- the identity patch-up is a post-processing of the run with `pad := identity` -/
theorem reduceRows_some (red : List α → β) (e pad : β) (a : RA α) :
    reduceRows red (some e) pad a =
      (reduceRows red none e a).map
        (fun r => (r.zip a.shape.lengths).map (fun p => if p.2 = 0 then e else p.1)) := rfl

/-- the raw result (before identity patch-up) on `rows' ++ m empty rows`, `rows'` ending non-empty -/
theorem reduceRows_none_split (red : List α → β) (pad : β) (rows' : List (List α)) (m : Nat)
    (hlast : ∀ r, rows'.getLast? = some r → r ≠ []) :
    ∃ r', r'.length = rows'.length ∧
      (∀ (i : Nat) (row : List α), rows'[i]? = some row → row ≠ [] → r'[i]? = some (red row)) ∧
      reduceRows red none pad (RA.ofRows (rows' ++ List.replicate m [])) =
        some (r' ++ List.replicate m pad) := by
  have hl := lens_getLast rows' hlast
  have hlens : (rows' ++ List.replicate m ([] : List α)).map List.length
      = rows'.map List.length ++ List.replicate m 0 := by simp
  by_cases hnil : rows' = []
  · subst hnil
    refine ⟨[], rfl, by simp, ?_⟩
    simp [reduceRows, RA.ofRows, RA.size, RA.len, ofLens_lengths, ofLens_nRows]
  · have hpos : 0 < (rows'.map List.length).sum :=
      sum_pos_of_getLast _ (by simpa using hnil) hl
    obtain ⟨r', hr', hlen, hspec⟩ := reduceat_starts_spec red rows' hlast
    refine ⟨r', hlen, hspec, ?_⟩
    simp only [reduceRows, RA.ofRows, RA.size, RA.len, ofLens_lengths, ofLens_nRows, ofLens_starts,
      Option.getD_none, hlens, sum_trailing, exclScan_trailing, flatten_trailing]
    rw [if_neg (by omega)]
    cases m with
    | zero =>
      simp only [List.replicate_zero, List.append_nil]
      rw [if_neg, hr']
      intro h0
      exact hl 0 h0 rfl
    | succ m =>
      have hg : (rows'.map List.length ++ List.replicate (m + 1) 0).getLast? = some 0 := by
        simp [List.replicate_succ', ← List.append_assoc]
      have hs : ((exclScan (rows'.map List.length) ++
          List.replicate (m + 1) (rows'.map List.length).sum).getLast?.getD 0)
          = (rows'.map List.length).sum := by
        simp [List.replicate_succ', ← List.append_assoc]
      rw [if_pos hg]
      simp only [hs, searchsortedLeftNat]
      rw [countP_trailing _ _ hl]
      have ht : (exclScan (rows'.map List.length) ++
          List.replicate (m + 1) (rows'.map List.length).sum).take (rows'.map List.length).length
          = exclScan (rows'.map List.length) := by
        rw [List.take_append_of_le_length (by simp)]
        rw [List.take_of_length_le (by simp)]
      rw [ht, hr']
      simp

end Model
