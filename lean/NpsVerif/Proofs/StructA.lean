import NpsVerif.Model.Structural
import NpsVerif.Spec.Rows
import NpsVerif.Props.C01
import NpsVerif.Proofs.UfuncRows
/-!
# Helpers for property C08 (structural functions): concatenate, `*_like`, nonzero, where, subset,
mask indexing.
-/
namespace Proofs.StructA
open Model Np Proofs.UfuncRows

variable {α β γ : Type}

/-! ## generic list facts -/

theorem mapM_map_some (l : List γ) (g : γ → α) (f : α → Option γ)
    (h : ∀ x ∈ l, f (g x) = some x) : (l.map g).mapM f = some l := by
  induction l with
  | nil => rfl
  | cons x xs ih =>
    have hx := h x (by simp)
    have hxs := ih (fun y hy => h y (by simp [hy]))
    simp [List.mapM_cons, hx, hxs]

theorem sum_map_length (rows : List (List α)) : (rows.map List.length).sum = rows.flatten.length := by
  rw [List.length_flatten]

/-- an `RA` with data `rs.flatten` and shape `ofLens (rs.map length)` is `RA.ofRows rs` -/
theorem ofFlat_rows (rs : List (List α)) (ls : List Nat) (h : rs.map List.length = ls) :
    (RA.ofFlat rs.flatten ls).map RA.rows = some rs := by
  subst h
  simp only [RA.ofFlat, ofLens_size, sum_map_length, if_true, Option.map_some]
  rw [rows_mk rs _ rfl]

/-! ## concatenate -/

theorem foldl_min_const (n : Nat) (l : List (RA α)) (h : ∀ b ∈ l, b.len = n) :
    l.foldl (fun m b => min m b.len) n = n := by
  induction l with
  | nil => rfl
  | cons b bs ih =>
    simp only [List.foldl_cons, h b (by simp), Nat.min_self]
    exact ih (fun c hc => h c (by simp [hc]))

theorem ofRows_rows (a : List (List α)) : (RA.ofRows a).rows = a := (Props.C01.C01_of_rows a).1
theorem ofRows_len (a : List (List α)) : (RA.ofRows a).len = a.length := (Props.C01.C01_of_rows a).2.1

/-! ## `*_like` -/

theorem replicate_sum_lengths (rows : List (List α)) (c : β) :
    List.replicate (rows.map List.length).sum c = (rows.map (·.map (fun _ => c))).flatten := by
  induction rows with
  | nil => rfl
  | cons r rs ih =>
    simp only [List.map_const'] at ih
    simp only [List.map_cons, List.sum_cons, List.flatten_cons, List.map_const', ← ih,
      List.replicate_append_replicate]

/-! ## nonzero -/

/-- the true columns of one row -/
def trueCols (r : List Bool) : List Nat :=
  ((List.range r.length).zip r).filterMap (fun cb => if cb.2 then some cb.1 else none)

theorem flatnonzeroFrom_append (k : Nat) (r s : List Bool) :
    flatnonzeroFrom k (r ++ s) = flatnonzeroFrom k r ++ flatnonzeroFrom (k + r.length) s := by
  induction r generalizing k with
  | nil => simp [flatnonzeroFrom]
  | cons b bs ih =>
    simp only [List.cons_append, flatnonzeroFrom, ih (k + 1), List.length_cons]
    have e : k + 1 + bs.length = k + (bs.length + 1) := by omega
    rw [e]
    cases b <;> simp

theorem flatnonzeroFrom_range' (k : Nat) (m : List Bool) :
    flatnonzeroFrom k m
      = ((List.range' k m.length).zip m).filterMap (fun ib => if ib.2 then some ib.1 else none) := by
  induction m generalizing k with
  | nil => rfl
  | cons b bs ih =>
    simp only [flatnonzeroFrom, List.length_cons, List.range'_succ, List.zip_cons_cons,
      List.filterMap_cons, ih (k + 1)]
    cases b <;> rfl

theorem flatnonzeroFrom_trueCols (k : Nat) (r : List Bool) :
    flatnonzeroFrom k r = (trueCols r).map (k + ·) := by
  induction r generalizing k with
  | nil => rfl
  | cons b bs ih =>
    have hsh : trueCols (b :: bs) = (if b then [0] else []) ++ (trueCols bs).map (· + 1) := by
      unfold trueCols
      simp only [List.length_cons, List.range_succ_eq_map, List.zip_cons_cons, List.filterMap_cons]
      rw [List.zip_map_left, List.filterMap_map, List.map_filterMap]
      have : ∀ (l : List (Nat × Bool)),
          List.filterMap ((fun (cb : Nat × Bool) => if cb.2 = true then some cb.1 else none) ∘ Prod.map Nat.succ id) l
            = List.filterMap (fun x => Option.map (fun x => x + 1) (if x.2 = true then some x.1 else none)) l := by
        intro l
        congr 1
        funext x
        cases x with
        | mk c b' => cases b' <;> simp
      rw [this]
      cases b <;> simp
    rw [hsh]
    simp only [flatnonzeroFrom, ih (k + 1), List.map_append, List.map_map]
    have e : (fun x => k + x) ∘ (fun x => x + 1) = fun x => k + 1 + x := by
      funext x; simp; omega
    rw [e]
    cases b <;> simp

/-- row coordinates with an explicit first row number -/
def coordsFrom (k : Nat) (rows : List (List Bool)) : List (Nat × Nat) :=
  ((List.range' k rows.length).zip rows).flatMap (fun ir => (trueCols ir.2).map (fun c => (ir.1, c)))

theorem nonzeroCoords_eq (rows : List (List Bool)) : Spec.nonzeroCoords rows = coordsFrom 0 rows := by
  unfold Spec.nonzeroCoords coordsFrom trueCols
  rw [List.range_eq_range']
  congr 1
  funext ir
  rw [List.map_filterMap]
  congr 1
  funext cb
  cases cb with
  | mk c b => cases b <;> simp

theorem coordsFrom_cons (k : Nat) (r : List Bool) (rs : List (List Bool)) :
    coordsFrom k (r :: rs) = (trueCols r).map (fun c => (k, c)) ++ coordsFrom (k + 1) rs := by
  simp [coordsFrom, List.range'_succ]

/-- positions of the true cells = `start_r + c` for the true cells in row-major order -/
theorem flatnonzero_flatten_from (pre suf : List (List Bool)) :
    flatnonzeroFrom pre.flatten.length suf.flatten
      = (coordsFrom pre.length suf).map
          (fun rc => ((((pre ++ suf).map List.length).take rc.1).sum + rc.2)) := by
  induction suf generalizing pre with
  | nil => simp [coordsFrom, flatnonzeroFrom]
  | cons r rs ih =>
    rw [List.flatten_cons, flatnonzeroFrom_append, coordsFrom_cons, List.map_append]
    have h1 := ih (pre ++ [r])
    simp only [List.flatten_append, List.length_append, List.flatten_cons, List.flatten_nil,
      List.append_nil, List.length_cons, List.length_nil, Nat.zero_add, List.append_assoc,
      List.cons_append, List.nil_append] at h1
    rw [h1, flatnonzeroFrom_trueCols, List.map_map]
    congr 1
    apply List.map_congr_left
    intro c _
    simp only [Function.comp_apply, List.map_append]
    rw [List.take_left' (by simp), sum_map_length]

theorem flatnonzero_flatten (rows : List (List Bool)) :
    flatnonzero rows.flatten
      = (Spec.nonzeroCoords rows).map (fun rc => (((rows.map List.length).take rc.1).sum + rc.2)) := by
  have := flatnonzero_flatten_from [] rows
  simpa [flatnonzero, nonzeroCoords_eq] using this

theorem mem_trueCols (r : List Bool) (c : Nat) (h : c ∈ trueCols r) : c < r.length := by
  unfold trueCols at h
  rw [List.mem_filterMap] at h
  obtain ⟨⟨c', b⟩, hmem, hb⟩ := h
  have := (List.of_mem_zip hmem).1
  cases b with
  | false => simp at hb
  | true =>
    simp at hb
    subst hb
    simpa using this

theorem mem_coordsFrom (k : Nat) (rows : List (List Bool)) (r c : Nat) (h : (r, c) ∈ coordsFrom k rows) :
    ∃ hr : r - k < rows.length, k ≤ r ∧ c < rows[r - k].length := by
  induction rows generalizing k with
  | nil => simp [coordsFrom] at h
  | cons x xs ih =>
    rw [coordsFrom_cons, List.mem_append] at h
    rcases h with h | h
    · rw [List.mem_map] at h
      obtain ⟨c', hc', he⟩ := h
      cases he
      refine ⟨by simp, Nat.le_refl _, ?_⟩
      simpa using mem_trueCols x c hc'
    · obtain ⟨hr, hk, hc⟩ := ih (k + 1) h
      have e : r - k = (r - (k + 1)) + 1 := by omega
      refine ⟨by simp only [List.length_cons]; omega, by omega, ?_⟩
      simp only [e, List.getElem_cons_succ]
      exact hc

/-! ## where -/

theorem zip3_flatten (f : Bool × α × α → γ) (mask : List (List Bool)) (x y : List (List α))
    (hm : mask.map List.length = x.map List.length) (hy : y.map List.length = x.map List.length) :
    (mask.flatten.zip (x.flatten.zip y.flatten)).map f
      = (List.zipWith (fun (m : List Bool) (xy : List α × List α) => (m.zip (xy.1.zip xy.2)).map f)
          mask (x.zip y)).flatten := by
  induction mask generalizing x y with
  | nil => simp
  | cons m ms ih =>
    cases x with
    | nil => simp at hm
    | cons r rs =>
      cases y with
      | nil => simp at hy
      | cons s ss =>
        simp only [List.map_cons, List.cons.injEq] at hm hy
        simp only [List.flatten_cons, List.zip_cons_cons, List.zipWith_cons_cons]
        rw [List.zip_append (l₁ := r) (by omega), List.zip_append (by simp; omega), List.map_append,
          ih rs ss hm.2 hy.2]

theorem zip3_lengths (f : Bool × α × α → γ) (mask : List (List Bool)) (x y : List (List α))
    (hm : mask.map List.length = x.map List.length) (hy : y.map List.length = x.map List.length) :
    (List.zipWith (fun (m : List Bool) (xy : List α × List α) => (m.zip (xy.1.zip xy.2)).map f)
          mask (x.zip y)).map List.length = mask.map List.length := by
  induction mask generalizing x y with
  | nil => simp
  | cons m ms ih =>
    cases x with
    | nil => simp at hm
    | cons r rs =>
      cases y with
      | nil => simp at hy
      | cons s ss =>
        simp only [List.map_cons, List.cons.injEq] at hm hy
        simp only [List.zip_cons_cons, List.zipWith_cons_cons, List.map_cons, ih rs ss hm.2 hy.2,
          List.length_map, List.length_zip]
        congr 1
        omega

theorem zip_replicate_scalar (c : α) (m : List Bool) (x : List α) (n : Nat) (h : m.length ≤ n) :
    (m.zip (x.zip (List.replicate n c))).map (fun t => if t.1 then t.2.1 else t.2.2)
      = (m.zip x).map (fun t => if t.1 then t.2 else c) := by
  induction m generalizing x n with
  | nil => simp
  | cons b bs ih =>
    cases x with
    | nil => simp
    | cons a as =>
      cases n with
      | zero => simp at h
      | succ n =>
        simp only [List.replicate_succ, List.zip_cons_cons, List.map_cons]
        rw [ih as n (by simpa using h)]

theorem zip2_flatten (f : Bool × α → γ) (mask : List (List Bool)) (x : List (List α))
    (hm : mask.map List.length = x.map List.length) :
    (mask.flatten.zip x.flatten).map f
      = (List.zipWith (fun (m : List Bool) (r : List α) => (m.zip r).map f) mask x).flatten := by
  induction mask generalizing x with
  | nil => simp
  | cons m ms ih =>
    cases x with
    | nil => simp at hm
    | cons r rs =>
      simp only [List.map_cons, List.cons.injEq] at hm
      simp only [List.flatten_cons, List.zipWith_cons_cons]
      rw [List.zip_append hm.1, List.map_append, ih rs hm.2]

theorem zip2_lengths (f : Bool × α → γ) (mask : List (List Bool)) (x : List (List α))
    (hm : mask.map List.length = x.map List.length) :
    (List.zipWith (fun (m : List Bool) (r : List α) => (m.zip r).map f) mask x).map List.length
      = mask.map List.length := by
  induction mask generalizing x with
  | nil => simp
  | cons m ms ih =>
    cases x with
    | nil => simp at hm
    | cons r rs =>
      simp only [List.map_cons, List.cons.injEq] at hm
      simp only [List.zipWith_cons_cons, List.map_cons, ih rs hm.2, List.length_map, List.length_zip]
      congr 1
      omega

/-! ## subset / mask indexing -/

theorem filter_flatten (rows : List (List α)) (mask : List (List Bool))
    (hm : mask.map List.length = rows.map List.length) :
    (rows.flatten.zip mask.flatten).filterMap (fun p => if p.2 then some p.1 else none)
      = (List.zipWith (fun (r : List α) (m : List Bool) =>
            (r.zip m).filterMap (fun p => if p.2 then some p.1 else none)) rows mask).flatten := by
  induction rows generalizing mask with
  | nil => simp
  | cons r rs ih =>
    cases mask with
    | nil => simp at hm
    | cons m ms =>
      simp only [List.map_cons, List.cons.injEq] at hm
      simp only [List.flatten_cons, List.zipWith_cons_cons]
      rw [List.zip_append hm.1.symm, List.filterMap_append, ih ms hm.2]

theorem count_true_eq (r : List α) (m : List Bool) (h : m.length = r.length) :
    m.count true = ((r.zip m).filterMap (fun p => if p.2 then some p.1 else none)).length := by
  induction r generalizing m with
  | nil =>
    cases m with
    | nil => rfl
    | cons _ _ => simp at h
  | cons a as ih =>
    cases m with
    | nil => simp at h
    | cons b bs =>
      have := ih bs (by simpa using h)
      cases b <;> simp [this]

theorem counts_eq (rows : List (List α)) (mask : List (List Bool))
    (hm : mask.map List.length = rows.map List.length) :
    (List.zipWith (fun (r : List α) (m : List Bool) =>
            (r.zip m).filterMap (fun p => if p.2 then some p.1 else none)) rows mask).map List.length
      = mask.map (fun r => r.count true) := by
  induction rows generalizing mask with
  | nil =>
    cases mask with
    | nil => rfl
    | cons _ _ => simp at hm
  | cons r rs ih =>
    cases mask with
    | nil => simp at hm
    | cons m ms =>
      simp only [List.map_cons, List.cons.injEq] at hm
      simp only [List.zipWith_cons_cons, List.map_cons, ih ms hm.2, count_true_eq r m hm.1]

theorem maskIndex_flat (m : List Bool) (d pre : List α) (k : Nat) (hk : pre.length = k)
    (h : m.length ≤ d.length) :
    (flatnonzeroFrom k m).mapM ((pre ++ d)[·]?)
      = some ((d.zip m).filterMap (fun p => if p.2 then some p.1 else none)) := by
  induction m generalizing d pre k with
  | nil => simp [flatnonzeroFrom]
  | cons b bs ih =>
    cases d with
    | nil => simp at h
    | cons x d' =>
      have h2 := ih d' (pre ++ [x]) (k + 1) (by simp [hk]) (by simpa using h)
      rw [List.append_assoc, List.singleton_append] at h2
      have hx : (pre ++ x :: d')[k]? = some x := by
        subst hk; simp
      cases b with
      | false => simpa [flatnonzeroFrom] using h2
      | true => simp [flatnonzeroFrom, List.mapM_cons, hx, h2]

end Proofs.StructA
