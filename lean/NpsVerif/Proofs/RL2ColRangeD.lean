import NpsVerif.Proofs.RL2ColRangeC
import NpsVerif.Proofs.RL2Ops
/-!
# Column ranges on the ragged run-length array (C17, part C) — all rows

`colRange` = row selection (C17 part A), then `colRangeRow` on every selected row.
-/
namespace Proofs.RL2CR
open Model Model.RL2 Model.RLA Proofs.RLIndex Proofs.RL2
variable {α : Type}

/-- both ragged arrays are selected through the zipped rows -/
theorem selectRows_pair (r : RL2 α) (hl : r.indices.length = r.values.length) (sel : RowSel)
    (hs : match sel with | .int _ => False | _ => True) :
    Py.selectRows r.indices sel = (DC.selCol (r.indices.zip r.values) sel).map (·.map Prod.fst) ∧
    Py.selectRows r.values sel = (DC.selCol (r.indices.zip r.values) sel).map (·.map Prod.snd) := by
  have hix : r.indices = (r.indices.zip r.values).map Prod.fst :=
    (List.map_fst_zip (Nat.le_of_eq hl)).symm
  have hvs : r.values = (r.indices.zip r.values).map Prod.snd :=
    (List.map_snd_zip (Nat.le_of_eq hl.symm)).symm
  constructor
  · rw [Proofs.DataClass.selectRows_eq_selCol _ _ hs, ← Proofs.DataClass.selCol_map, ← hix]
  · rw [Proofs.DataClass.selectRows_eq_selCol _ _ hs, ← Proofs.DataClass.selCol_map, ← hvs]

/-- a successful row selection: same `rowLen`, still in lock-step, decodes to the selected rows -/
theorem selectRows_some_spec (r : RL2 α) (dense : List (List α)) (hd : r.toRows = some dense)
    (hl : r.indices.length = r.values.length) (sel : RowSel)
    (hs : match sel with | .int _ => False | _ => True) (srows : List (List α))
    (hsr : Py.selectRows dense sel = some srows) :
    ∃ rows, r.selectRows sel = some rows ∧ rows.rowLen = r.rowLen ∧
      rows.indices.length = rows.values.length ∧ rows.toRows = some srows := by
  have key := selectRows_toRows r dense hd hl sel hs
  rw [hsr] at key
  obtain ⟨h1, h2⟩ := selectRows_pair r hl sel hs
  unfold RL2.selectRows at key ⊢
  rw [h1, h2] at key ⊢
  cases hZ : DC.selCol (r.indices.zip r.values) sel with
  | none => rw [hZ] at key; simp at key
  | some Zs =>
    rw [hZ] at key
    simp only [Option.map_some, Option.bind_some] at key ⊢
    exact ⟨_, rfl, rfl, by simp, key⟩

/-- a refused row selection of the dense rows is refused on the run-length side -/
theorem selectRows_none_spec (r : RL2 α) (dense : List (List α)) (hd : r.toRows = some dense)
    (hl : r.indices.length = r.values.length) (sel : RowSel)
    (hs : match sel with | .int _ => False | _ => True)
    (hsr : Py.selectRows dense sel = none) : r.selectRows sel = none := by
  obtain ⟨h1, h2⟩ := selectRows_pair r hl sel hs
  rw [toRows_eq_mapM_zip r hl, mapM_eq_some_iff] at hd
  have h3 : (DC.selCol dense sel).map (·.map some) =
      (DC.selCol (r.indices.zip r.values) sel).map
        (·.map (fun p => (rowOf r.rowLen p).map RLA.decode)) := by
    rw [← Proofs.DataClass.selCol_map, ← Proofs.DataClass.selCol_map, hd]
  rw [Proofs.DataClass.selectRows_eq_selCol _ _ hs] at hsr
  rw [hsr] at h3
  unfold RL2.selectRows
  rw [h1, h2]
  cases hZ : DC.selCol (r.indices.zip r.values) sel with
  | none => rfl
  | some Zs => rw [hZ] at h3; simp at h3

/-- the early return `obviouslyEmpty` only fires on empty slices -/
theorem obviouslyEmpty_sliceLen (L : Int) (hL : 0 ≤ L) (a b step : Int)
    (h : ((decide (step < 0) && decide (a ≤ b) && decide (a > 0)) ||
          (!decide (step < 0) && decide (a ≥ b) && decide (b > 0))) = true) :
    Py.sliceLen L (some a) (some b) step ≤ 0 := by
  simp only [Bool.or_eq_true, Bool.and_eq_true, decide_eq_true_eq, Bool.not_eq_true',
    decide_eq_false_iff_not] at h
  unfold Py.sliceLen Py.adjStart Py.adjStop
  simp only []
  rcases h with ⟨⟨h1, h2⟩, h3⟩ | ⟨⟨h1, h2⟩, h3⟩
  · rw [if_pos h1, if_neg]
    · omega
    · simp only [if_pos h1]
      (repeat' split) <;> omega
  · rw [if_neg h1, if_neg]
    · omega
    · simp only [if_neg h1]
      (repeat' split) <;> omega

theorem mapM_some_map {β γ : Type} (l : List β) (H : β → γ) :
    l.mapM (fun p => some (H p)) = some (l.map H) := by
  rw [mapM_eq_some_iff]; simp

/-- `colRange` past its two early returns -/
theorem colRange_eq (r : RL2 α) (sel : RowSel) (start stop : Option Int) (step : Int) (rows : RL2 α)
    (hsel' : r.selectRows sel = some rows) (hne : rows.indices.isEmpty = false)
    (hoe : ∀ a b, start = some a → stop = some b →
      ((decide (step < 0) && decide (a ≤ b) && decide (a > 0)) ||
        (!decide (step < 0) && decide (a ≥ b) && decide (b > 0))) = false) :
    r.colRange sel start stop step =
      ((rows.indices.zip rows.values).mapM (fun iv => colRangeRow iv.1 iv.2 start stop step)).map
        (fun rs => ⟨rs.map (·.1), rs.map (·.2), none⟩) := by
  unfold RL2.colRange
  rw [hsel']
  simp only [Option.bind_some, hne, Bool.false_eq_true, if_false]
  cases start with
  | none => rfl
  | some a =>
    cases stop with
    | none => rfl
    | some b =>
      simp only [hoe a b rfl rfl, Bool.false_eq_true, if_false]

/-- HEADLINE (domain unfolded) -/
theorem colRange_spec (r : RL2 α) (hrl : r.rowLen = none) (hl : r.indices.length = r.values.length)
    (dense : List (List α)) (hd : r.toRows = some dense)
    (sel : RowSel) (hsel : match sel with | .int _ => False | _ => True)
    (start stop : Option Int) (step : Int) (hs : step ≠ 0)
    (srows : List (List α)) (hsr : Py.selectRows dense sel = some srows)
    (hdom : ∀ row ∈ srows, 0 < Py.sliceLen row.length start stop step ∧
      (step < 0 → (∀ a, start = some a → -(row.length : Int) ≤ a ∧ a < row.length) ∧
        (∀ b, stop = some b → -(row.length : Int) ≤ b))) :
    (r.colRange sel start stop step).bind RL2.toRows =
      some (srows.map (fun row => Py.slice row start stop step)) := by
  obtain ⟨rows, hsel', hrl', hl', hd'⟩ := selectRows_some_spec r dense hd hl sel hsel srows hsr
  rw [hrl] at hrl'
  obtain ⟨hsrows, hval⟩ := toRows_normal rows srows hd' hl'
  rw [hrl'] at hsrows hval
  by_cases hemp : rows.indices.isEmpty = true
  · have : rows.indices = [] := by simpa using hemp
    unfold RL2.colRange
    rw [hsel']
    simp only [Option.bind_some, hemp, if_true, hd']
    rw [hsrows, this]; rfl
  · -- at least one selected row
    have hne : rows.indices.zip rows.values ≠ [] := by
      intro h0
      have := congrArg List.length h0
      rw [List.length_zip, ← hl', Nat.min_self] at this
      have : rows.indices = [] := List.length_eq_zero_iff.1 (by simpa using this)
      exact hemp (by simp [this])
    obtain ⟨p0, hp0⟩ := List.exists_mem_of_ne_nil _ hne
    have hrow0 : decOf none p0 ∈ srows := by rw [hsrows]; exact List.mem_map_of_mem hp0
    have hoe : ∀ a b, start = some a → stop = some b →
        ((decide (step < 0) && decide (a ≤ b) && decide (a > 0)) ||
          (!decide (step < 0) && decide (a ≥ b) && decide (b > 0))) = false := by
      intro a b ha hb
      subst ha hb
      cases hoe : ((decide (step < 0) && decide (a ≤ b) && decide (a > 0)) ||
                      (!decide (step < 0) && decide (a ≥ b) && decide (b > 0))) with
      | false => rfl
      | true =>
        exfalso
        have := obviouslyEmpty_sliceLen ((decOf none p0).length : Int) (by omega) a b step hoe
        have := (hdom _ hrow0).1
        omega
    rw [colRange_eq r sel start stop step rows hsel' (by simpa using hemp) hoe]
    rw [Option.bind_map]
    have hfun : (RL2.toRows ∘ fun (rs : List (List Nat × List α)) =>
          (⟨rs.map (·.1), rs.map (·.2), none⟩ : RL2 α)) =
        fun rs => rs.mapM (fun a => (RLA.mk? a.1 a.2).map RLA.decode) := by
      funext rs
      exact toRows_of_maps rs (·.1) (·.2) none
    rw [hfun, mapM_bind_mapM]
    rw [mapM_congr _ (fun p => some (Py.slice (decOf none p) start stop step))]
    · rw [mapM_some_map, hsrows, List.map_map]; rfl
    · intro p hp
      have hv : (RLA.mk p.1 p.2).Valid := hval p hp
      have hrow : decOf none p ∈ srows := by rw [hsrows]; exact List.mem_map_of_mem hp
      have hlen := len_eq_decode_length _ hv
      obtain ⟨hd1, hd2⟩ := hdom _ hrow
      have hdec : decOf none p = (RLA.mk p.1 p.2).decode := rfl
      rw [hdec, ← hlen] at hd1 hd2
      obtain ⟨i, v, hc, hv', hdd⟩ := row_spec (RLA.mk p.1 p.2) hv start stop step hs hd1 hd2
      simp only [] at hc
      rw [hc]
      simp only [Option.bind_some]
      rw [mk?_of_valid hv']
      simp only [Option.map_some]
      rw [hdd]
      rfl

theorem colRange_refuses (r : RL2 α) (hl : r.indices.length = r.values.length)
    (dense : List (List α)) (hd : r.toRows = some dense)
    (sel : RowSel) (hsel : match sel with | .int _ => False | _ => True)
    (start stop : Option Int) (step : Int) (hsr : Py.selectRows dense sel = none) :
    r.colRange sel start stop step = none := by
  unfold RL2.colRange
  rw [selectRows_none_spec r dense hd hl sel hsel hsr]
  rfl

end Proofs.RL2CR
