import NpsVerif.Proofs.XorBroadcast
/-!
# Row-level reading of the element-wise ufuncs (helpers for property C04)

* `Shape.ofLens` is injective, the rows of `⟨rows'.flatten, ofLens ls⟩` are `rows'`;
* `applyFlat` with a one-element operand / equal sizes;
* flat `zipWith` against a flattened broadcast = row-wise operation;
* `broadcastValues` followed by `applyFlat` (covers the `size == 1` shortcut).
-/
namespace Proofs.UfuncRows
open Model Np Proofs.XorBroadcast

variable {α β γ : Type}

theorem ofLens_injective {a b : List Nat} (h : Shape.ofLens a = Shape.ofLens b) : a = b := by
  have := congrArg Shape.lengths h
  simpa [ofLens_lengths] using this

/-- rows of a flat buffer made of `rows'`, read through a shape with the same row lengths -/
theorem rows_mk (rows' : List (List α)) (ls : List Nat) (h : rows'.map List.length = ls) :
    RA.rows ⟨rows'.flatten, Shape.ofLens ls⟩ = rows' := by
  subst h
  have := rows_of_scan ([] : List α) rows'
  simpa [RA.rows, ofLens_codes, exclScan] using this

/-! ## `applyFlat` -/

theorem applyFlat_single_right (f : α → β → γ) (x : List α) (c : β) :
    applyFlat f x [c] = some (x.map (f · c)) := by
  unfold applyFlat
  split
  · rename_i h
    match x, h with
    | [a], _ => simp
  · split
    · simp
    · rename_i _ _ heq _; cases heq; rfl
    · rename_i h; exact absurd rfl (h c)

theorem applyFlat_single_left (f : α → β → γ) (c : α) (y : List β) :
    applyFlat f [c] y = some (y.map (f c)) := by
  unfold applyFlat
  split
  · rename_i h
    match y, h with
    | [b], _ => simp
  · rfl

theorem applyFlat_eq_length (f : α → β → γ) (x : List α) (y : List β) (h : x.length = y.length) :
    applyFlat f x y = some (List.zipWith f x y) := by
  simp [applyFlat, h]

/-! ## flat `zipWith` = row-wise operation -/

theorem zipWith_replicate_right (f : α → β → γ) (r : List α) (c : β) :
    List.zipWith f r (List.replicate r.length c) = r.map (f · c) := by
  induction r with
  | nil => rfl
  | cons a r ih => simp [List.replicate_succ, ih]

theorem zipWith_replicate_left (f : α → β → γ) (c : α) (r : List β) :
    List.zipWith f (List.replicate r.length c) r = r.map (f c) := by
  induction r with
  | nil => rfl
  | cons a r ih => simp [List.replicate_succ, ih]

theorem zipWith_flatten_column_right (f : α → β → γ) (rows : List (List α)) (col : List β) :
    List.zipWith f rows.flatten
        (List.zipWith (fun l v => List.replicate l v) (rows.map List.length) col).flatten
      = (List.zipWith (fun r c => r.map (f · c)) rows col).flatten := by
  induction rows generalizing col with
  | nil => simp
  | cons r rs ih =>
    cases col with
    | nil => simp
    | cons c cs =>
      simp only [List.map_cons, List.zipWith_cons_cons, List.flatten_cons]
      rw [List.zipWith_append (by simp), ih, zipWith_replicate_right]

theorem zipWith_flatten_column_left (f : α → β → γ) (rows : List (List β)) (col : List α) :
    List.zipWith f
        (List.zipWith (fun l v => List.replicate l v) (rows.map List.length) col).flatten
        rows.flatten
      = (List.zipWith (fun r c => r.map (f c ·)) rows col).flatten := by
  induction rows generalizing col with
  | nil => simp
  | cons r rs ih =>
    cases col with
    | nil => simp
    | cons c cs =>
      simp only [List.map_cons, List.zipWith_cons_cons, List.flatten_cons]
      rw [List.zipWith_append (by simp), ih, zipWith_replicate_left]

theorem zipWith_flatten_rows (f : α → β → γ) (rows : List (List α)) (others : List (List β))
    (h : others.map List.length = rows.map List.length) :
    List.zipWith f rows.flatten others.flatten
      = (List.zipWith (fun r o => List.zipWith f r o) rows others).flatten := by
  induction rows generalizing others with
  | nil => simp
  | cons r rs ih =>
    cases others with
    | nil => simp at h
    | cons o os =>
      simp only [List.map_cons, List.cons.injEq] at h
      simp only [List.zipWith_cons_cons, List.flatten_cons]
      rw [List.zipWith_append h.1.symm, ih os h.2]

theorem lengths_zipWith_map (g : α → β → γ) (rows : List (List α)) (col : List β)
    (h : col.length = rows.length) :
    (List.zipWith (fun r c => r.map (g · c)) rows col).map List.length = rows.map List.length := by
  induction rows generalizing col with
  | nil => simp
  | cons r rs ih =>
    cases col with
    | nil => simp at h
    | cons c cs => simp [ih cs (by simpa using h)]

theorem lengths_zipWith_zipWith (f : α → β → γ) (rows : List (List α)) (others : List (List β))
    (h : others.map List.length = rows.map List.length) :
    (List.zipWith (fun r o => List.zipWith f r o) rows others).map List.length
      = rows.map List.length := by
  induction rows generalizing others with
  | nil => simp
  | cons r rs ih =>
    cases others with
    | nil => simp at h
    | cons o os =>
      simp only [List.map_cons, List.cons.injEq] at h
      simp [ih os h.2, h.1]

theorem length_broadcast (ls : List Nat) (col : List α) (h : col.length = ls.length) :
    (List.zipWith (fun l v => List.replicate l v) ls col).flatten.length = ls.sum := by
  induction ls generalizing col with
  | nil => simp
  | cons l ls ih =>
    cases col with
    | nil => simp at h
    | cons c cs => simp [ih cs (by simpa using h)]

/-! ## `broadcastValues` then `applyFlat` -/

section Xor

theorem C04_raw_broadcast' [XorLike α] (ls : List Nat) (vals : List α)
    (h : vals.length = ls.length) :
    rawBroadcast (Shape.ofLens ls) vals
      = (List.zipWith (fun l v => List.replicate l v) ls vals).flatten := by
  rw [rawBroadcast_pairs ls vals h, List.map_zip_eq_zipWith]
  rfl

theorem column_right_flat [XorLike β] {δ : Type} (f : α → β → γ) (k : List γ → δ) (ls : List Nat)
    (col : List β) (data : List α) (h : col.length = ls.length) (hd : data.length = ls.sum) :
    (broadcastValues (Shape.ofLens ls) col).bind (fun b => (applyFlat f data b).map k)
      = some (k (List.zipWith f data
          (List.zipWith (fun l v => List.replicate l v) ls col).flatten)) := by
  unfold broadcastValues
  by_cases h1 : col.length = 1
  · match col, ls, h1, h with
    | [c], [l], _, _ =>
      simp only [List.sum_cons, List.sum_nil, Nat.add_zero] at hd
      simp only [List.length_cons, List.length_nil, if_true, Option.bind_some,
        applyFlat_single_right, Option.map_some, List.zipWith_cons_cons, List.zipWith_nil_right,
        List.flatten_cons, List.flatten_nil, List.append_nil]
      rw [← hd, zipWith_replicate_right]
  · rw [if_neg h1, if_neg (by rw [ofLens_nRows]; simp [h])]
    simp only [Option.bind_some]
    rw [C04_raw_broadcast' ls col h, applyFlat_eq_length _ _ _ (by rw [length_broadcast ls col h, hd])]
    rfl

theorem column_left_flat [XorLike α] {δ : Type} (f : α → β → γ) (k : List γ → δ) (ls : List Nat)
    (col : List α) (data : List β) (h : col.length = ls.length) (hd : data.length = ls.sum) :
    (broadcastValues (Shape.ofLens ls) col).bind (fun b => (applyFlat f b data).map k)
      = some (k (List.zipWith f
          (List.zipWith (fun l v => List.replicate l v) ls col).flatten data)) := by
  unfold broadcastValues
  by_cases h1 : col.length = 1
  · match col, ls, h1, h with
    | [c], [l], _, _ =>
      simp only [List.sum_cons, List.sum_nil, Nat.add_zero] at hd
      simp only [List.length_cons, List.length_nil, if_true, Option.bind_some,
        applyFlat_single_left, Option.map_some, List.zipWith_cons_cons, List.zipWith_nil_right,
        List.flatten_cons, List.flatten_nil, List.append_nil]
      rw [← hd, zipWith_replicate_left]
  · rw [if_neg h1, if_neg (by rw [ofLens_nRows]; simp [h])]
    simp only [Option.bind_some]
    rw [C04_raw_broadcast' ls col h, applyFlat_eq_length _ _ _ (by rw [length_broadcast ls col h, hd])]
    rfl

theorem broadcastValues_refuses [XorLike α] (ls : List Nat) (col : List α)
    (h : col.length ≠ ls.length) (h1 : col.length ≠ 1) :
    broadcastValues (Shape.ofLens ls) col = none := by
  unfold broadcastValues
  rw [if_neg h1, if_pos (by rw [ofLens_nRows]; exact h)]

end Xor

end Proofs.UfuncRows
