import NpsVerif.Proofs.RL2Basic
import NpsVerif.Proofs.DataClass
import NpsVerif.Props.C15
import NpsVerif.Props.C16
/-!
# 2-D / ragged run-length arrays: row selection, element, row sums, run values, map (C17)
-/
namespace Proofs.RL2
open Model Model.RL2

variable {α β γ : Type}

/-! ## normal form of a readable array -/

theorem map_some_inj {l l' : List β} (h : l.map some = l'.map some) : l = l' := by
  have := congrArg (List.filterMap id) h
  simpa [List.filterMap_map] using this

/-- the dense form of one zipped row -/
def decOf (rl : Option Nat) (p : List Nat × List α) : List α := (RLA.mk (evs rl p.1) p.2).decode

/-- a readable array (equal lengths): every zipped row is a valid run-length array and `dense` is
the list of their decodings -/
theorem toRows_normal (r : RL2 α) (dense : List (List α)) (hd : r.toRows = some dense)
    (hl : r.indices.length = r.values.length) :
    dense = (r.indices.zip r.values).map (decOf r.rowLen) ∧
    ∀ p ∈ r.indices.zip r.values, (RLA.mk (evs r.rowLen p.1) p.2).Valid := by
  rw [toRows_eq_mapM_zip r hl, mapM_eq_some_iff] at hd
  have hval : ∀ p ∈ r.indices.zip r.values, (RLA.mk (evs r.rowLen p.1) p.2).Valid := by
    intro p hp
    have : (rowOf r.rowLen p).map RLA.decode ∈ dense.map some := by
      rw [← hd]; exact List.mem_map_of_mem hp
    obtain ⟨d, _, hd'⟩ := List.mem_map.mp this
    cases hr : rowOf r.rowLen p with
    | none => rw [hr] at hd'; simp at hd'
    | some rla => exact (mk?_some hr).2
  refine ⟨?_, hval⟩
  apply map_some_inj
  rw [← hd, List.map_map]
  apply List.map_congr_left
  intro p hp
  simp only [Function.comp, decOf, rowOf, mk?_of_valid (hval p hp), Option.map_some]

theorem zip_map_fst_snd (Z : List (β × γ)) : (Z.map Prod.fst).zip (Z.map Prod.snd) = Z := by
  induction Z with
  | nil => rfl
  | cons p Z ih => simp [ih]

/-! ## row selection -/

theorem selectRows_toRows (r : RL2 α) (dense : List (List α)) (hd : r.toRows = some dense)
    (hl : r.indices.length = r.values.length) (sel : RowSel)
    (hs : match sel with | .int _ => False | _ => True) :
    (r.selectRows sel).bind RL2.toRows = Py.selectRows dense sel := by
  have hix : r.indices = (r.indices.zip r.values).map Prod.fst :=
    (List.map_fst_zip (Nat.le_of_eq hl)).symm
  have hvs : r.values = (r.indices.zip r.values).map Prod.snd :=
    (List.map_snd_zip (Nat.le_of_eq hl.symm)).symm
  have hd0 := hd
  rw [toRows_eq_mapM_zip r hl, mapM_eq_some_iff] at hd
  generalize hZ : r.indices.zip r.values = Z at hix hvs hd
  have h1 : Py.selectRows r.indices sel = (DC.selCol Z sel).map (·.map Prod.fst) := by
    rw [Proofs.DataClass.selectRows_eq_selCol _ _ hs, hix, Proofs.DataClass.selCol_map]
  have h2 : Py.selectRows r.values sel = (DC.selCol Z sel).map (·.map Prod.snd) := by
    rw [Proofs.DataClass.selectRows_eq_selCol _ _ hs, hvs, Proofs.DataClass.selCol_map]
  have h3 : (DC.selCol dense sel).map (·.map some) =
      (DC.selCol Z sel).map (·.map (fun p => (rowOf r.rowLen p).map RLA.decode)) := by
    rw [← Proofs.DataClass.selCol_map, ← Proofs.DataClass.selCol_map, hd]
  rw [Proofs.DataClass.selectRows_eq_selCol _ _ hs]
  unfold RL2.selectRows
  rw [h1, h2]
  cases hsel : DC.selCol Z sel with
  | none =>
    rw [hsel] at h3
    cases hds : DC.selCol dense sel with
    | none => rfl
    | some ds => rw [hds] at h3; simp at h3
  | some Zs =>
    rw [hsel] at h3
    cases hds : DC.selCol dense sel with
    | none => rw [hds] at h3; simp at h3
    | some ds =>
      rw [hds] at h3
      simp only [Option.map_some, Option.some.injEq] at h3
      simp only [Option.map_some, Option.bind_some]
      rw [toRows_eq_mapM_zip _ (by simp), mapM_eq_some_iff]
      simp only [zip_map_fst_snd]
      exact h3.symm

/-! ## integer row, element -/

theorem row_int (r : RL2 α) (dense : List (List α)) (hd : r.toRows = some dense) (i : Nat)
    (hi : i < dense.length) : (r.row i).map RLA.decode = dense[i]? := by
  obtain ⟨hl, hr⟩ := (toRows_some_iff r dense).mp hd
  exact hr i (by omega)

theorem element_eq (r : RL2 α) (dense : List (List α)) (hd : r.toRows = some dense) (i j : Int) :
    r.element i j = (Py.index dense i).bind (fun row => Py.index row j) := by
  have hlen := toRows_length r dense hd
  unfold RL2.element Py.index Np.getIdx RL2.len
  rw [hlen]
  cases hn : Np.normIdx r.indices.length i with
  | none => rfl
  | some i' =>
    have hi : i' < dense.length := by rw [hlen]; exact normIdx_lt hn
    obtain ⟨rla, hrow, hdi⟩ := toRows_row r dense hd i' hi
    obtain ⟨ix, vs, _, _, he, hv⟩ := row_some r i' rla hrow
    simp only [Option.bind_some, hrow, hdi]
    have hvalid : rla.Valid := by rw [he]; exact hv
    exact Props.C15.C15_int rla hvalid j

/-! ## row sums, run values -/

theorem rowSums_eq (r : RL2 Int) (dense : List (List Int)) (hd : r.toRows = some dense)
    (hl : r.indices.length = r.values.length) : r.rowSums = dense.map List.sum := by
  obtain ⟨hdense, hval⟩ := toRows_normal r dense hd hl
  rw [hdense, List.map_map]
  unfold RL2.rowSums
  apply List.map_congr_left
  intro p hp
  exact Props.C16.C16_sum (RLA.mk (evs r.rowLen p.1) p.2) (hval p hp)

theorem row_values_mem (r : RL2 α) (dense : List (List α)) (hd : r.toRows = some dense)
    (i : Nat) (vs row : List α) (h1 : r.values[i]? = some vs) (h2 : dense[i]? = some row) (x : α) :
    x ∈ vs ↔ x ∈ row := by
  have hi : i < dense.length := by
    rcases Nat.lt_or_ge i dense.length with h | h
    · exact h
    · rw [List.getElem?_eq_none h] at h2; exact absurd h2 (by simp)
  obtain ⟨rla, hrow, hdi⟩ := toRows_row r dense hd i hi
  obtain ⟨ix, vs', _, hv2, he, hv⟩ := row_some r i rla hrow
  rw [h1] at hv2
  have hvs : vs' = vs := (Option.some.inj hv2).symm
  subst hvs
  rw [h2] at hdi
  have hrow' : row = rla.decode := Option.some.inj hdi
  have hvalid : rla.Valid := by rw [he]; exact hv
  rw [hrow']
  have := Props.C16.C16_values_mem rla hvalid x
  rw [he] at this ⊢
  exact this

/-! ## map over the run values -/

theorem getElem?_zip_range_map (l : List β) (h : Nat × β → γ) (i : Nat) :
    (((List.range l.length).zip l).map h)[i]? = l[i]?.map (fun x => h (i, x)) := by
  rw [List.getElem?_map]
  by_cases hi : i < l.length
  · have : ((List.range l.length).zip l)[i]? = some (i, l[i]) :=
      List.getElem?_zip_eq_some.mpr ⟨by simp [hi], by simp⟩
    rw [this, List.getElem?_eq_getElem hi]; rfl
  · have hn : l[i]? = none := List.getElem?_eq_none (Nat.le_of_not_lt hi)
    rw [hn, List.getElem?_eq_none (by simp; omega)]; rfl

theorem mk_map_valid (g : α → β) (ev : List Nat) (vs : List α) (h : (RLA.mk ev vs).Valid) :
    (RLA.mk ev (vs.map g)).Valid := by
  have hv := (Proofs.RL.valid_iff _).1 h
  exact (Proofs.RL.valid_iff _).2 ⟨hv.1, by simpa using hv.2.1, hv.2.2⟩

theorem mk_map_decode (g : α → β) (ev : List Nat) (vs : List α) :
    (RLA.mk ev (vs.map g)).decode = (RLA.mk ev vs).decode.map g := by
  rw [Model.RLA.decode_eq_dec, Model.RLA.dec_map, ← Model.RLA.decode_eq_dec]

theorem mapValues_toRows (g : Nat → α → β) (r : RL2 α) (dense : List (List α))
    (hd : r.toRows = some dense) :
    (r.mapValues g).toRows =
      some (((List.range dense.length).zip dense).map (fun ir => ir.2.map (g ir.1))) := by
  have hlen := toRows_length r dense hd
  rw [toRows_some_iff]
  refine ⟨by simp [RL2.mapValues, hlen], ?_⟩
  intro i hi
  have hi' : i < dense.length := by simpa [RL2.mapValues, hlen] using hi
  obtain ⟨rla, hrow, hdi⟩ := toRows_row r dense hd i hi'
  obtain ⟨ix, vs, hix, hvs, he, hv⟩ := row_some r i rla hrow
  have hvs' : (r.mapValues g).values[i]? = some (vs.map (g i)) := by
    simp only [RL2.mapValues]
    rw [getElem?_zip_range_map r.values (fun iv => iv.2.map (g iv.1)) i, hvs]; rfl
  have hrow' : (r.mapValues g).row i = RLA.mk? (evs r.rowLen ix) (vs.map (g i)) :=
    row_of_getElem? (r.mapValues g) i ix (vs.map (g i)) hix hvs'
  rw [hrow', mk?_of_valid (mk_map_valid (g i) _ _ hv), getElem?_zip_range_map dense
    (fun ir => ir.2.map (g ir.1)) i, hdi, he]
  simp only [Option.map_some, mk_map_decode]

end Proofs.RL2
