import NpsVerif.Model.Shape
import NpsVerif.Proofs.Scan
/-! Lemmas for property C01 (geometry of `RaggedShape(lengths)`, row read-back). -/
namespace Model
open Np

theorem ofLens_codes (ls : List Nat) : (Shape.ofLens ls).codes = (exclScan ls).zip ls := by
  unfold Shape.ofLens
  cases ls with
  | nil => simp [exclScan, exclScanFrom]
  | cons x xs =>
    simp only [List.isEmpty_cons, Bool.false_eq_true, if_false]
    rw [List.dropLast_concat]
    have := cons_cumsumNatFrom_dropLast 0 (x :: xs) (by simp)
    simp only [cumsumNat, exclScan]
    rw [this]

theorem ofLens_starts (ls : List Nat) : (Shape.ofLens ls).starts = exclScan ls := by
  simp [Shape.starts, ofLens_codes, List.map_fst_zip]

theorem ofLens_lengths (ls : List Nat) : (Shape.ofLens ls).lengths = ls := by
  simp [Shape.lengths, ofLens_codes, List.map_snd_zip]

theorem ofLens_nRows (ls : List Nat) : (Shape.ofLens ls).nRows = ls.length := by
  simp [Shape.nRows, ofLens_starts]

/-- rows read back through (start, len) codes from `pre ++ flatten rows` -/
theorem rows_of_scan {α} (pre : List α) (rows : List (List α)) :
    ((exclScanFrom pre.length (rows.map List.length)).zip (rows.map List.length)).map
        (fun c => ((pre ++ rows.flatten).drop c.1).take c.2) = rows := by
  induction rows generalizing pre with
  | nil => simp [exclScanFrom]
  | cons r rs ih =>
    simp only [List.map_cons, exclScanFrom, List.zip_cons_cons, List.flatten_cons]
    congr 1
    · simp
    · have := ih (pre ++ r)
      simp only [List.length_append, List.append_assoc] at this
      exact this

theorem exclScanFrom_zip_getLast (acc : Nat) (ls : List Nat) (h : ls ≠ []) :
    ((exclScanFrom acc ls).zip ls).getLast?.map (fun c => c.1 + c.2) = some (acc + ls.sum) := by
  induction ls generalizing acc with
  | nil => exact absurd rfl h
  | cons x xs ih =>
    cases xs with
    | nil => simp [exclScanFrom]
    | cons y t =>
      have := ih (acc + x) (by simp)
      simp only [exclScanFrom, List.zip_cons_cons] at this ⊢
      rw [List.getLast?_cons_cons, this]
      simp [Nat.add_assoc]

theorem ofLens_size (ls : List Nat) : (Shape.ofLens ls).size = ls.sum := by
  unfold Shape.size
  rw [ofLens_codes]
  cases h : ls with
  | nil => simp [exclScan, exclScanFrom]
  | cons x xs =>
    have := exclScanFrom_zip_getLast 0 (x :: xs) (by simp)
    simp only [exclScan]
    cases hl : ((exclScanFrom 0 (x :: xs)).zip (x :: xs)).getLast? with
    | none => simp [hl] at this
    | some c => simp [hl] at this; simpa using this

theorem ofLens_ends (ls : List Nat) :
    (Shape.ofLens ls).ends = (List.range ls.length).map (fun i => (ls.take (i+1)).sum) := by
  apply List.ext_getElem?
  intro i
  simp only [Shape.ends, ofLens_codes, List.getElem?_map]
  by_cases hi : i < ls.length
  · rw [List.getElem?_range hi]
    have h1 := exclScan_getElem? ls i hi
    have h2 : ls[i]? = some ls[i] := List.getElem?_eq_getElem hi
    have : ((exclScan ls).zip ls)[i]? = some ((ls.take i).sum, ls[i]) := by
      rw [List.getElem?_zip_eq_some]; exact ⟨h1, h2⟩
    rw [this]
    simp only [Option.map_some]
    rw [List.take_add_one, h2, List.sum_append]
    simp
  · have : ((exclScan ls).zip ls)[i]? = none := by
      apply List.getElem?_eq_none; simp; omega
    rw [this, List.getElem?_eq_none (by simpa using hi)]
    simp

theorem cut_flatten {α} (data : List α) (k : Nat) (ls : List Nat) :
    (((exclScanFrom k ls).zip ls).map (fun c => (data.drop c.1).take c.2)).flatten
      = (data.drop k).take ls.sum := by
  induction ls generalizing k with
  | nil => simp [exclScanFrom]
  | cons x xs ih =>
    simp only [exclScanFrom, List.zip_cons_cons, List.map_cons, List.flatten_cons, List.sum_cons]
    rw [ih (k + x), List.take_add, List.drop_drop]

theorem cut_lengths {α} (data : List α) (k : Nat) (ls : List Nat) (h : k + ls.sum ≤ data.length) :
    (((exclScanFrom k ls).zip ls).map (fun c => (data.drop c.1).take c.2)).map List.length = ls := by
  induction ls generalizing k with
  | nil => simp [exclScanFrom]
  | cons x xs ih =>
    simp only [exclScanFrom, List.zip_cons_cons, List.map_cons, List.sum_cons] at h ⊢
    rw [ih (k + x) (by omega)]
    simp; omega

end Model
