import NpsVerif.Model.HashTable
/-!
# Helper lemmas for the whole-table functions of C11 (`zeros_like`, `+= number`, `+`, `==`)

Plain list facts (flatten / zip / zipWith) and the shape of `filled`.
-/
namespace Proofs.HTWhole
open Model Model.HT

/-- row-wise `zipWith` of two ragged lists with the same row lengths is `zipWith` of the flattened lists -/
theorem flatten_zipWith_zipWith {α β γ : Type} (f : α → β → γ) :
    ∀ (a : List (List α)) (b : List (List β)), a.map List.length = b.map List.length →
      (List.zipWith (List.zipWith f) a b).flatten = List.zipWith f a.flatten b.flatten
  | [], b, _ => by simp
  | _ :: _, [], h => by simp at h
  | x :: a, y :: b, h => by
    simp only [List.map_cons, List.cons.injEq] at h
    simp only [List.zipWith_cons_cons, List.flatten_cons]
    rw [flatten_zipWith_zipWith f a b h.2, List.zipWith_append h.1]

/-- row lengths of a row-wise `zipWith` -/
theorem map_length_zipWith_zipWith {α β γ : Type} (f : α → β → γ) :
    ∀ (a : List (List α)) (b : List (List β)), a.map List.length = b.map List.length →
      (List.zipWith (List.zipWith f) a b).map List.length = a.map List.length
  | [], b, _ => by simp
  | _ :: _, [], h => by simp at h
  | x :: a, y :: b, h => by
    simp only [List.map_cons, List.cons.injEq] at h
    simp only [List.zipWith_cons_cons, List.map_cons, List.length_zipWith,
      map_length_zipWith_zipWith f a b h.2, ← h.1, Nat.min_self]

theorem length_flatten_of_map_length {α β : Type} (a : List (List α)) (b : List (List β))
    (h : a.map List.length = b.map List.length) : a.flatten.length = b.flatten.length := by
  rw [List.length_flatten, List.length_flatten, h]

/-- zipping keys with position-wise combined values -/
theorem zip_zipWith {κ α β γ : Type} (g : α → β → γ) :
    ∀ (K : List κ) (A : List α) (B : List β),
      K.zip (List.zipWith g A B) = List.zipWith (fun p q => (p.1, g p.2 q.2)) (K.zip A) (K.zip B)
  | [], _, _ => by simp
  | _ :: _, [], _ => by simp
  | _ :: _, _ :: _, [] => by simp
  | k :: K, a :: A, b :: B => by simp [zip_zipWith g K A B]

/-- zipping keys with mapped values -/
theorem zip_map_snd {κ α β : Type} (g : α → β) (K : List κ) (A : List α) :
    K.zip (A.map g) = (K.zip A).map (fun p => (p.1, g p.2)) := by
  rw [List.zip_map_right]; rfl

/-- zipping keys with a constant, when the old values have one entry per key -/
theorem zip_const {κ α β : Type} (x : β) :
    ∀ (K : List κ) (A : List α), A.length = K.length →
      K.zip (K.map (fun _ => x)) = (K.zip A).map (fun p => (p.1, x))
  | [], _, _ => by simp
  | _ :: _, [], h => by simp at h
  | k :: K, a :: A, h => by
    simp only [List.length_cons, Nat.add_right_cancel_iff] at h
    simp [zip_const x K A h]

/-- `zip` with a fixed left list is injective on right lists that are no longer than it -/
theorem zip_right_inj {κ α : Type} (K : List κ) (A B : List α)
    (hA : A.length ≤ K.length) (hB : B.length ≤ K.length) (h : K.zip A = K.zip B) : A = B := by
  have := congrArg (List.map Prod.snd) h
  rwa [List.map_snd_zip hA, List.map_snd_zip hB] at this

/-- the filled values have the row lengths of the key rows (by construction for a shared value,
by hypothesis for stored rows) -/
theorem filled_shape {v : Type} (t : Table v)
    (hs : ∀ vals, t.values = .inr vals → vals.map List.length = t.buckets.map List.length) :
    (filled t).map List.length = t.buckets.map List.length := by
  unfold filled
  cases hv : t.values with
  | inl s => simp [Function.comp_def]
  | inr vals => exact hs vals hv

theorem filled_flatten_length {v : Type} (t : Table v)
    (hs : ∀ vals, t.values = .inr vals → vals.map List.length = t.buckets.map List.length) :
    (filled t).flatten.length = t.buckets.flatten.length :=
  length_flatten_of_map_length _ _ (filled_shape t hs)

/-- a shared value, flattened -/
theorem filled_inl_flatten {v : Type} (t : Table v) (s : v) (h : t.values = .inl s) :
    (filled t).flatten = t.buckets.flatten.map (fun _ => s) := by
  unfold filled; rw [h]; simp only []; rw [List.map_flatten]

/-- stored rows are the filled values -/
theorem filled_inr {v : Type} (t : Table v) (vals : List (List v)) (h : t.values = .inr vals) :
    filled t = vals := by
  unfold filled; rw [h]

/-- combining two constant lists over the same keys -/
theorem zipWith_const {κ α β γ : Type} (g : α → β → γ) (a : α) (b : β) :
    ∀ K : List κ, List.zipWith g (K.map (fun _ => a)) (K.map (fun _ => b)) = K.map (fun _ => g a b)
  | [] => rfl
  | k :: K => by
    simp only [List.map_cons, List.zipWith_cons_cons, zipWith_const g a b K]

end Proofs.HTWhole
