import NpsVerif.Model.RunLength2dAny
import NpsVerif.Proofs.RLIndexBase
/-!
# `_col_any` (C17, part E): sorting and counting lemmas

* `sortNat` is a sorted permutation; `cummax` of a sorted list is the list itself;
* counting `≤ c` / `< c` in sorted lists;
* `lt_of_counts`: for sorted `S`, `E` of equal length with `#{E ≤ x} ≤ #{S < x}` for all `x`,
  `S[i] < E[i]` position by position.
-/
namespace Proofs.RL2ColAny
open Model Model.RL2 Proofs.RLIndex

/-- number of entries `≤ c` -/
abbrev cntLE (l : List Nat) (c : Nat) : Nat := l.countP (fun y => decide (y ≤ c))
/-- number of entries `< c` -/
abbrev cntLT (l : List Nat) (c : Nat) : Nat := l.countP (fun y => decide (y < c))

/-! ## insertion sort -/

theorem insertNat_perm (x : Nat) (l : List Nat) : (insertNat x l).Perm (x :: l) := by
  induction l with
  | nil => simp [insertNat]
  | cons y ys ih =>
    simp only [insertNat]
    split
    · exact List.Perm.refl _
    · exact ((List.Perm.cons y ih).trans (List.Perm.swap x y ys))

theorem sortNat_perm (l : List Nat) : (sortNat l).Perm l := by
  induction l with
  | nil => simp [sortNat]
  | cons x xs ih =>
    have : sortNat (x :: xs) = insertNat x (sortNat xs) := rfl
    rw [this]
    exact (insertNat_perm x _).trans (List.Perm.cons x ih)

theorem insertNat_sorted (x : Nat) (l : List Nat) (h : l.Pairwise (· ≤ ·)) :
    (insertNat x l).Pairwise (· ≤ ·) := by
  induction l with
  | nil => simp [insertNat]
  | cons y ys ih =>
    have hy := List.pairwise_cons.1 h
    simp only [insertNat]
    split
    · rename_i hxy
      refine List.pairwise_cons.2 ⟨?_, h⟩
      intro a ha
      rcases List.mem_cons.1 ha with rfl | ha
      · exact hxy
      · exact Nat.le_trans hxy (hy.1 a ha)
    · rename_i hxy
      refine List.pairwise_cons.2 ⟨?_, ih hy.2⟩
      intro a ha
      rcases List.mem_cons.1 ((insertNat_perm x ys).mem_iff.1 ha) with rfl | ha
      · omega
      · exact hy.1 a ha

theorem sortNat_sorted (l : List Nat) : (sortNat l).Pairwise (· ≤ ·) := by
  induction l with
  | nil => simp [sortNat]
  | cons x xs ih =>
    have : sortNat (x :: xs) = insertNat x (sortNat xs) := rfl
    rw [this]
    exact insertNat_sorted x _ ih

theorem sortNat_length (l : List Nat) : (sortNat l).length = l.length := (sortNat_perm l).length_eq

theorem sortNat_mem (l : List Nat) (x : Nat) : x ∈ sortNat l ↔ x ∈ l := (sortNat_perm l).mem_iff

theorem sortNat_countP (l : List Nat) (p : Nat → Bool) : (sortNat l).countP p = l.countP p :=
  (sortNat_perm l).countP_eq p

/-! ## `cummax` -/

theorem cummaxFrom_sorted (m : Nat) (l : List Nat) (h : (m :: l).Pairwise (· ≤ ·)) :
    cummax.cummaxFrom m l = l := by
  induction l generalizing m with
  | nil => simp [cummax.cummaxFrom]
  | cons y ys ih =>
    have hm := List.pairwise_cons.1 h
    have hmy : m ≤ y := hm.1 y List.mem_cons_self
    simp only [cummax.cummaxFrom, Nat.max_eq_right hmy]
    rw [ih y hm.2]

theorem cummax_sorted (l : List Nat) (h : l.Pairwise (· ≤ ·)) : cummax l = l := by
  cases l with
  | nil => simp [cummax]
  | cons x xs => simp only [cummax]; rw [cummaxFrom_sorted x xs h]

/-! ## counting in sorted lists -/

theorem cntLE_eq_zero (l : List Nat) (c : Nat) (h : ∀ y ∈ l, c < y) : cntLE l c = 0 := by
  apply List.countP_eq_zero.2
  intro y hy
  have := h y hy
  simp only [decide_eq_true_eq]; omega

theorem cntLT_eq_zero (l : List Nat) (c : Nat) (h : ∀ y ∈ l, c ≤ y) : cntLT l c = 0 := by
  apply List.countP_eq_zero.2
  intro y hy
  have := h y hy
  simp only [decide_eq_true_eq]; omega

theorem cntLE_eq_length (l : List Nat) (c : Nat) (h : ∀ y ∈ l, y ≤ c) : cntLE l c = l.length := by
  apply List.countP_eq_length.2
  intro y hy
  simpa using h y hy

theorem cntLT_eq_length (l : List Nat) (c : Nat) (h : ∀ y ∈ l, y < c) : cntLT l c = l.length := by
  apply List.countP_eq_length.2
  intro y hy
  simpa using h y hy

theorem cntLT_le_cntLE (l : List Nat) (c : Nat) : cntLT l c ≤ cntLE l c := by
  induction l with
  | nil => simp
  | cons y ys ih =>
    simp only [cntLT, cntLE, List.countP_cons, decide_eq_true_eq] at *
    split <;> split <;> omega

/-- position by position, the `i`-th smallest start is below the `i`-th smallest end -/
theorem lt_of_counts (S E : List Nat) (hS : S.Pairwise (· ≤ ·)) (hE : E.Pairwise (· ≤ ·))
    (hc : ∀ x, cntLE E x ≤ cntLT S x) (i : Nat) (h1 : i < S.length) (h2 : i < E.length) :
    S[i] < E[i] := by
  have k1 := (lt_countP_iff (fun y => decide (y ≤ E[i])) (le_antitone _) E hE i h2).2 (by simp)
  have k2 : i < S.countP (fun y => decide (y < E[i])) := Nat.lt_of_lt_of_le k1 (hc E[i])
  have := (lt_countP_iff (fun y => decide (y < E[i])) (lt_antitone _) S hS i h1).1 k2
  simpa using this

/-- position by position `S[i] < E[i]`, lists of equal length -/
def AllLt : List Nat → List Nat → Prop
  | [], [] => True
  | s :: S, e :: E => s < e ∧ AllLt S E
  | _, _ => False

theorem allLt_of_getElem (S E : List Nat) (hl : S.length = E.length)
    (h : ∀ i (h1 : i < S.length) (h2 : i < E.length), S[i] < E[i]) : AllLt S E := by
  induction S generalizing E with
  | nil =>
    cases E with
    | nil => trivial
    | cons => simp at hl
  | cons s S ih =>
    cases E with
    | nil => simp at hl
    | cons e E =>
      refine ⟨h 0 (by simp) (by simp), ih E (by simpa using hl) ?_⟩
      intro i h1 h2
      exact h (i + 1) (by simp; omega) (by simp; omega)

theorem AllLt.length_eq {S E : List Nat} (h : AllLt S E) : S.length = E.length := by
  induction S generalizing E with
  | nil => cases E with
    | nil => rfl
    | cons => exact h.elim
  | cons s S ih => cases E with
    | nil => exact h.elim
    | cons e E => simp [ih h.2]

end Proofs.RL2ColAny
