import NpsVerif.Proofs.HeapOps
/-!
# Simulation between the heap model and the reference store (property C06)

`Sim s σ`: buffers and cells are allocated in lockstep, the variable tables agree (variable `x` is
bound to buffer `b` exactly when it is bound to cell `b`), and every bound variable `(b, sh)` views
buffer `b` as `RA.ofRows rows`, where `rows` is the CURRENT content of cell `b`.
-/
namespace Proofs.HeapSim
open Model Model.Heap Proofs.HeapOps

structure Sim (s : State) (σ : Store) : Prop where
  hlen : s.bufs.length = σ.cells.length
  hvars : σ.vars = s.vars.map (Option.map Prod.fst)
  hcell : ∀ b sh, some (b, sh) ∈ s.vars → ∃ rows, σ.cells[b]? = some rows ∧
      s.bufs[b]? = some rows.flatten ∧ sh = Shape.ofLens (rows.map List.length)

theorem sim_init : Sim init initS := ⟨rfl, rfl, by simp [init]⟩

theorem var_mem {s : State} {x : Nat} {bv : Nat × Shape} (h : s.var x = some bv) : some bv ∈ s.vars := by
  unfold State.var at h
  cases hx : s.vars[x]? with
  | none => simp [hx] at h
  | some o =>
    simp only [hx, Option.bind_some, id] at h
    subst h
    exact List.mem_of_getElem? hx

theorem Sim.var {s : State} {σ : Store} (h : Sim s σ) (x : Nat) : σ.var x = (s.var x).map Prod.fst := by
  unfold Store.var State.var
  rw [h.hvars, List.getElem?_map]
  cases s.vars[x]? with
  | none => rfl
  | some o => cases o <;> rfl

/-- the array a variable denotes in the heap model is `ofRows` of its value in the reference store -/
theorem Sim.arr {s : State} {σ : Store} (h : Sim s σ) (x : Nat) : s.arr x = (σ.val x).map RA.ofRows := by
  unfold State.arr Store.val
  rw [h.var x]
  cases hv : s.var x with
  | none => rfl
  | some bv =>
    obtain ⟨b, sh⟩ := bv
    obtain ⟨rows, hc, hb, hsh⟩ := h.hcell b sh (var_mem hv)
    simp only [Option.bind_some, Option.map_some, hc, hb, hsh]
    rfl

/-! ## allocation -/

theorem sim_alloc {s : State} {σ : Store} (h : Sim s σ) (rows : List (List Int)) :
    Sim (s.alloc (RA.ofRows rows)) (σ.alloc rows) := by
  refine ⟨?_, ?_, ?_⟩
  · simp [State.alloc, Store.alloc, h.hlen]
  · simp [State.alloc, Store.alloc, h.hvars, h.hlen]
  · intro b sh hm
    simp only [State.alloc, Store.alloc, List.mem_append, List.mem_singleton, Option.some.injEq,
      Prod.mk.injEq] at hm ⊢
    rcases hm with hm | ⟨rfl, rfl⟩
    · obtain ⟨r, hc, hb, hsh⟩ := h.hcell b sh hm
      refine ⟨r, ?_, ?_, hsh⟩
      · rw [List.getElem?_append_left (List.getElem?_eq_some_iff.mp hc).1]; exact hc
      · rw [List.getElem?_append_left (List.getElem?_eq_some_iff.mp hb).1]; exact hb
    · refine ⟨rows, ?_, ?_, rfl⟩
      · rw [h.hlen]; simp
      · simp [RA.ofRows]

theorem sim_refuse {s : State} {σ : Store} (h : Sim s σ) :
    Sim { s with vars := s.vars ++ [none] } { σ with vars := σ.vars ++ [none] } := by
  refine ⟨h.hlen, ?_, ?_⟩
  · simp [h.hvars]
  · intro b sh hm
    simp only [List.mem_append, List.mem_singleton] at hm
    rcases hm with hm | hm
    · exact h.hcell b sh hm
    · cases hm

theorem sim_stepNew {s : State} {σ : Store} (h : Sim s σ) (o : Option (RA Int)) (o' : Option (List (List Int)))
    (ho : o = o'.map RA.ofRows) :
    Sim (stepNew s o).1 (stepNewS σ o').1 ∧ (stepNew s o).2 = (stepNewS σ o').2 := by
  subst ho
  cases o' with
  | none => exact ⟨sim_refuse h, rfl⟩
  | some r => exact ⟨sim_alloc h r, rfl⟩

/-! ## alias and assignment -/

theorem sim_alias {s : State} {σ : Store} (h : Sim s σ) (x : Nat) :
    Sim (step s (.alias x)).1 (stepS σ (.alias x)).1 ∧ (step s (.alias x)).2 = (stepS σ (.alias x)).2 := by
  simp only [step, stepS]
  rw [h.var x]
  cases hv : s.var x with
  | none => exact ⟨sim_refuse h, rfl⟩
  | some bv =>
    refine ⟨⟨h.hlen, ?_, ?_⟩, rfl⟩
    · simp [h.hvars]
    · intro b sh hm
      simp only [List.mem_append, List.mem_singleton, Option.some.injEq] at hm
      rcases hm with hm | hm
      · exact h.hcell b sh hm
      · exact h.hcell b sh (hm ▸ var_mem hv)

theorem sim_assign {s : State} {σ : Store} (h : Sim s σ) (x : Nat) (idx : Index) (v : Value Int) :
    Sim (step s (.assign x idx v)).1 (stepS σ (.assign x idx v)).1 ∧
      (step s (.assign x idx v)).2 = (stepS σ (.assign x idx v)).2 := by
  simp only [step, stepS]
  rw [h.arr x]
  have hvar := h.var x
  unfold Store.val at *
  rw [hvar]
  cases hv : s.var x with
  | none => exact ⟨h, rfl⟩
  | some bv =>
    obtain ⟨c, sh⟩ := bv
    obtain ⟨rows, hc, hb, hsh⟩ := h.hcell c sh (var_mem hv)
    simp only [Option.map_some, Option.bind_some, hc, setitem_ofRows]
    cases hset : Py.setitem rows idx v with
    | none => exact ⟨h, rfl⟩
    | some rows' =>
      have hl := Props.C03.C03_lengths rows idx v rows' hset
      refine ⟨⟨?_, h.hvars, ?_⟩, rfl⟩
      · simp [h.hlen]
      · intro b sh' hm
        obtain ⟨r, hc', hb', hsh'⟩ := h.hcell b sh' hm
        by_cases hbc : b = c
        · subst hbc
          rw [hc] at hc'
          simp only [Option.some.injEq] at hc'
          subst hc'
          refine ⟨rows', ?_, ?_, ?_⟩
          · simp only [List.getElem?_set_self (List.getElem?_eq_some_iff.mp hc).1]
          · simp only [Option.map_some, List.getElem?_set_self (List.getElem?_eq_some_iff.mp hb).1]
            rfl
          · rw [hsh', hl]
        · refine ⟨r, ?_, ?_, hsh'⟩
          · rw [List.getElem?_set_ne (Ne.symm hbc)]; exact hc'
          · simp only [Option.map_some]
            rw [List.getElem?_set_ne (Ne.symm hbc)]; exact hb'

/-! ## write through the flat view -/

theorem setFlat_lengths (rows : List (List Int)) (k : Nat) (v : Int) :
    (Spec.setFlat rows k v).map List.length = rows.map List.length := by
  induction rows generalizing k with
  | nil => rfl
  | cons r rs ih =>
    simp only [Spec.setFlat]
    split
    · simp
    · simp [ih]

theorem setFlat_flatten (rows : List (List Int)) (k : Nat) (v : Int) :
    (Spec.setFlat rows k v).flatten = rows.flatten.set k v := by
  induction rows generalizing k with
  | nil => simp [Spec.setFlat]
  | cons r rs ih =>
    simp only [Spec.setFlat]
    split
    · rename_i hk
      simp only [List.flatten_cons]
      rw [List.set_append_left _ _ hk]
    · rename_i hk
      simp only [List.flatten_cons, ih]
      rw [List.set_append_right _ _ (by omega)]

theorem flatten_length (rows : List (List Int)) : rows.flatten.length = (rows.map List.length).sum := by
  simp [List.length_flatten]

theorem sim_poke {s : State} {σ : Store} (h : Sim s σ) (x k : Nat) (v : Int) :
    Sim (step s (.poke x k v)).1 (stepS σ (.poke x k v)).1 ∧
      (step s (.poke x k v)).2 = (stepS σ (.poke x k v)).2 := by
  simp only [step, stepS]
  rw [h.arr x]
  have hvar := h.var x
  unfold Store.val at *
  rw [hvar]
  cases hv : s.var x with
  | none => exact ⟨h, rfl⟩
  | some bv =>
    obtain ⟨c, sh⟩ := bv
    obtain ⟨rows, hc, hb, hsh⟩ := h.hcell c sh (var_mem hv)
    simp only [Option.map_some, Option.bind_some, hc]
    have hd : (RA.ofRows rows).data = rows.flatten := rfl
    rw [hd, flatten_length]
    by_cases hk : k < (rows.map List.length).sum
    · simp only [hk, if_true]
      refine ⟨⟨?_, h.hvars, ?_⟩, trivial⟩
      · simp [h.hlen]
      · intro b sh' hm
        obtain ⟨r, hc', hb', hsh'⟩ := h.hcell b sh' hm
        by_cases hbc : b = c
        · subst hbc
          rw [hc] at hc'
          simp only [Option.some.injEq] at hc'
          subst hc'
          refine ⟨Spec.setFlat rows k v, ?_, ?_, ?_⟩
          · simp only [List.getElem?_set_self (List.getElem?_eq_some_iff.mp hc).1]
          · simp only [List.getElem?_set_self (List.getElem?_eq_some_iff.mp hb).1, setFlat_flatten]
          · rw [hsh', setFlat_lengths]
        · refine ⟨r, ?_, ?_, hsh'⟩
          · rw [List.getElem?_set_ne (Ne.symm hbc)]; exact hc'
          · rw [List.getElem?_set_ne (Ne.symm hbc)]; exact hb'
    · simp only [hk, if_false]
      exact ⟨h, trivial⟩

/-! ## the step lemma -/

theorem sim_step {s : State} {σ : Store} (h : Sim s σ) (st : Stmt) :
    Sim (step s st).1 (stepS σ st).1 ∧ (step s st).2 = (stepS σ st).2 := by
  cases st with
  | new rows => exact sim_stepNew h _ _ rfl
  | select x idx =>
    apply sim_stepNew h
    rw [h.arr x]
    cases σ.val x with
    | none => rfl
    | some r =>
      simp only [Option.map_some, Option.bind_some, Props.C02.C02_getitem]
      split <;> simp_all
  | alias x => exact sim_alias h x
  | addScalar x c =>
    apply sim_stepNew h
    rw [h.arr x]
    cases σ.val x with
    | none => rfl
    | some r => simp only [Option.map_some, Option.bind_some, addScalar_ofRows]
  | addArrays x y =>
    apply sim_stepNew h
    rw [h.arr x, h.arr y]
    cases σ.val x with
    | none => rfl
    | some a =>
      cases σ.val y with
      | none => rfl
      | some b =>
        simp only [Option.map_some, Option.bind_some, addArrays_ofRows]
        split <;> rfl
  | concat x y =>
    apply sim_stepNew h
    rw [h.arr x, h.arr y]
    cases σ.val x with
    | none => rfl
    | some a =>
      cases σ.val y with
      | none => rfl
      | some b => simp only [Option.map_some, Option.bind_some, concat_ofRows]
  | sort x =>
    apply sim_stepNew h
    rw [h.arr x]
    cases σ.val x with
    | none => rfl
    | some r => simp only [Option.map_some, sort_ofRows]
  | unique x =>
    apply sim_stepNew h
    rw [h.arr x]
    cases σ.val x with
    | none => rfl
    | some r => simp only [Option.map_some, Option.bind_some, unique_ofRows]
  | cumsum x =>
    apply sim_stepNew h
    rw [h.arr x]
    cases σ.val x with
    | none => rfl
    | some r => simp only [Option.map_some, cumsum_ofRows]
  | diff x =>
    apply sim_stepNew h
    rw [h.arr x]
    cases σ.val x with
    | none => rfl
    | some r => simp only [Option.map_some, Option.bind_some, diff_ofRows]
  | assign x idx v => exact sim_assign h x idx v
  | read x =>
    refine ⟨h, ?_⟩
    simp only [step, stepS, h.arr x]
    cases σ.val x with
    | none => rfl
    | some r => simp only [Option.map_some, (Props.C01.C01_of_rows r).1]
  | readIdx x idx =>
    refine ⟨h, ?_⟩
    simp only [step, stepS, h.arr x]
    cases σ.val x with
    | none => rfl
    | some r => simp only [Option.map_some, Option.bind_some, Props.C02.C02_getitem]
  | readSum x =>
    refine ⟨h, ?_⟩
    simp only [step, stepS, h.arr x]
    cases σ.val x with
    | none => rfl
    | some r => simp only [Option.map_some, Option.bind_some, step.reduceRowsSum, (Props.C01.C01_of_rows r).1]
  | poke x k v => exact sim_poke h x k v

/-- HEADLINE helper: equal traces from any two related states -/
theorem sim_run {s : State} {σ : Store} (h : Sim s σ) (prog : List Stmt) : run s prog = runS σ prog := by
  induction prog generalizing s σ with
  | nil => rfl
  | cons st rest ih =>
    obtain ⟨h', ho⟩ := sim_step h st
    simp only [run, runS, ho, ih h']

end Proofs.HeapSim
