import NpsVerif.Proofs.DataClass
/-!
# C18 helpers: `__eq__` (field by field) vs. equality of the entries

* `entries_congr`: `entries` depends only on the cell lists of the columns (not on the names),
* `eq_true_iff`: `DC.eq t u` says that the zipped columns have equal cell lists,
* `cells_eq_of_entries_eq`: for well-formed tables, equal entries give equal cell lists column by
  column (through `col_of_entries`).
-/
namespace Proofs.DataClass
open Model Model.DC
variable {α : Type}

/-- `len` is a function of the cell lists -/
theorem len_eq_cells (t : Table α) :
    len t = (((t.cols.map (·.2)).head?).map List.length).getD 0 := by
  unfold len
  cases t.cols <;> simp

/-- `row` is a function of the cell lists -/
theorem row_eq_cells (t : Table α) (i : Nat) :
    row t i = (t.cols.map (·.2)).filterMap (·[i]?) := by
  unfold row
  rw [List.filterMap_map]
  rfl

/-- `entries` only depends on the cell lists of the columns -/
theorem entries_congr (t u : Table α) (h : t.cols.map (·.2) = u.cols.map (·.2)) :
    entries t = entries u := by
  have hl : len t = len u := by rw [len_eq_cells, len_eq_cells, h]
  rw [entries_eq, entries_eq, hl]
  apply List.map_congr_left
  intro i _
  rw [row_eq_cells, row_eq_cells, h]

/-- `DC.eq`: pointwise equality of the cell lists of the zipped columns -/
theorem eq_true_iff [DecidableEq α] (t u : Table α) :
    DC.eq t u = true ↔
      ∀ (j : Nat) (c d : String × List α), t.cols[j]? = some c → u.cols[j]? = some d → c.2 = d.2 := by
  unfold DC.eq
  rw [List.all_eq_true]
  constructor
  · intro h j c d hc hd
    have hm : (c, d) ∈ t.cols.zip u.cols := by
      apply List.mem_of_getElem? (i := j)
      rw [List.getElem?_zip_eq_some]
      exact ⟨hc, hd⟩
    simpa using h (c, d) hm
  · intro h p hp
    obtain ⟨j, hj⟩ := List.getElem?_of_mem hp
    rw [List.getElem?_zip_eq_some] at hj
    simpa using h j p.1 p.2 hj.1 hj.2

/-- pointwise equal cell lists and equally many columns: the lists of cell lists agree -/
theorem cells_eq_of_pointwise (t u : Table α) (hn : t.cols.length = u.cols.length)
    (h : ∀ (j : Nat) (c d : String × List α), t.cols[j]? = some c → u.cols[j]? = some d → c.2 = d.2) :
    t.cols.map (·.2) = u.cols.map (·.2) := by
  apply List.ext_getElem?
  intro j
  rw [List.getElem?_map, List.getElem?_map]
  by_cases hj : j < t.cols.length
  · have hj' : j < u.cols.length := by omega
    rw [List.getElem?_eq_getElem hj, List.getElem?_eq_getElem hj']
    simp only [Option.map_some]
    congr 1
    exact h j _ _ (List.getElem?_eq_getElem hj) (List.getElem?_eq_getElem hj')
  · rw [List.getElem?_eq_none (by omega), List.getElem?_eq_none (by omega)]

/-- well-formed tables with the same entries have the same cells, column by column -/
theorem cells_eq_of_entries_eq {t u : Table α} (ht : mk? t.cols = some t) (hu : mk? u.cols = some u)
    (he : entries t = entries u) (j : Nat) (c d : String × List α)
    (hc : t.cols[j]? = some c) (hd : u.cols[j]? = some d) : c.2 = d.2 := by
  apply list_map_some_inj
  rw [col_of_entries ht j c hc, col_of_entries hu j d hd, he]

/-- `__eq__` is equality of the entries (well-formed tables with equally many fields) -/
theorem eq_iff_entries [DecidableEq α] (t u : Table α) (ht : mk? t.cols = some t)
    (hu : mk? u.cols = some u) (hn : t.cols.length = u.cols.length) :
    DC.eq t u = true ↔ entries t = entries u := by
  rw [eq_true_iff]
  constructor
  · intro h
    exact entries_congr t u (cells_eq_of_pointwise t u hn h)
  · intro he j c d hc hd
    exact cells_eq_of_entries_eq ht hu he j c d hc hd

end Proofs.DataClass
