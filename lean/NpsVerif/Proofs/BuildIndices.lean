import NpsVerif.Model.Index
import NpsVerif.Proofs.Scan
/-! Lemmas for property C02: `build_indices` (the cumsum trick) yields the concatenated
arithmetic progressions of the rows, for any placement of empty rows. -/
namespace Np

theorem cumsumFrom_append (acc : Int) (a b : List Int) :
    cumsumFrom acc (a ++ b) = cumsumFrom acc a ++ cumsumFrom (acc + a.sum) b := by
  induction a generalizing acc with
  | nil => simp [cumsumFrom]
  | cons x xs ih => simp [cumsumFrom, ih, Int.add_assoc]

theorem cumsumFrom_replicate (acc k : Int) (n : Nat) :
    cumsumFrom acc (List.replicate n k) = Py.prog (acc + k) k n := by
  induction n generalizing acc with
  | zero => simp [cumsumFrom, Py.prog]
  | succ n ih => simp [List.replicate_succ, cumsumFrom, Py.prog, ih]

theorem sum_replicate_int (k : Int) (n : Nat) : (List.replicate n k).sum = (n : Int) * k := by
  induction n with
  | zero => simp
  | succ n ih => simp [List.replicate_succ, ih, Int.add_mul]; omega

theorem cumsumFrom_concat_dropLast (acc : Int) (a : List Int) (x : Int) :
    (cumsumFrom acc (a ++ [x])).dropLast = cumsumFrom acc a := by
  rw [cumsumFrom_append]
  simp [cumsumFrom]

end Np

namespace Model
open Np

/-- `view.ends` of a (start, length) row read with column step `step` -/
def rowEnd (step : Int) (r : Int × Nat) : Int := r.1 + ((r.2 : Int) - 1) * step + 1

/-- the (view start, view end, length) triple `buildIndices` receives for a (start, length) row -/
def vrow (step : Int) (r : Int × Nat) : Int × Int × Nat := (r.1, rowEnd step r, r.2)

/-- the scatter writes of the model for non-empty rows `rs` placed from position `k`, the previous
non-empty row having view end `e` -/
def writesFrom (step : Int) (k : Nat) (e : Int) : List (Int × Nat) → List (Nat × Int)
  | [] => []
  | r :: rs => (k, r.1 - e + 1) :: writesFrom step (k + r.2) (rowEnd step r) rs

/-- structural form of the index builder: per non-empty row the jump from the previous row's end,
then `len - 1` copies of the step -/
def builderFrom (step : Int) (e : Int) : List (Int × Nat) → List Int
  | [] => []
  | r :: rs => (r.1 - e + 1) :: (List.replicate (r.2 - 1) step ++ builderFrom step (rowEnd step r) rs)

/-- filtering out the empty rows does not change the scan start positions of the others -/
theorem ne_filter (step : Int) (k : Nat) (rows : List (Int × Nat)) :
    ((exclScanFrom k (rows.map (·.2))).zip (rows.map (vrow step))).filter (fun r => r.2.2.2 != 0)
      = (exclScanFrom k ((rows.filter (·.2 != 0)).map (·.2))).zip
          ((rows.filter (·.2 != 0)).map (vrow step)) := by
  induction rows generalizing k with
  | nil => simp [exclScanFrom]
  | cons r rs ih =>
    obtain ⟨s, l⟩ := r
    by_cases hl : l = 0
    · subst hl
      simp only [List.map_cons, exclScanFrom, List.zip_cons_cons, Nat.add_zero]
      rw [List.filter_cons_of_neg (by simp [vrow]), List.filter_cons_of_neg (by simp)]
      exact ih k
    · simp only [List.map_cons, exclScanFrom, List.zip_cons_cons]
      rw [List.filter_cons_of_pos (by simp [vrow, hl]), List.filter_cons_of_pos (by simp [hl])]
      simp only [List.map_cons, exclScanFrom, List.zip_cons_cons]
      rw [ih (k + l)]

theorem writes_eq (step : Int) (k : Nat) (e : Int) (rs : List (Int × Nat)) :
    (exclScanFrom k (rs.map (·.2))).zip
        (List.zipWith (fun s e => s - e + 1) (rs.map (·.1)) ((e :: rs.map (rowEnd step)).dropLast))
      = writesFrom step k e rs := by
  induction rs generalizing k e with
  | nil => simp [exclScanFrom, writesFrom]
  | cons r rs ih =>
    simp only [List.map_cons, exclScanFrom, List.dropLast_cons_cons, List.zipWith_cons_cons,
      List.zip_cons_cons, writesFrom]
    rw [ih]

theorem scatter_builder (step : Int) (pre : List Int) (e : Int) (rs : List (Int × Nat))
    (hne : ∀ r ∈ rs, 0 < r.2) :
    scatterSet (pre ++ List.replicate ((rs.map (·.2)).sum + 1) step) (writesFrom step pre.length e rs)
      = pre ++ builderFrom step e rs ++ [step] := by
  induction rs generalizing pre e with
  | nil => simp [scatterSet, writesFrom, builderFrom]
  | cons r rs ih =>
    obtain ⟨s, l⟩ := r
    have hl : 0 < l := hne (s, l) (by simp)
    obtain ⟨m, rfl⟩ : ∃ m, l = m + 1 := ⟨l - 1, by omega⟩
    simp only [writesFrom, scatterSet, builderFrom, List.map_cons, List.sum_cons,
      Nat.add_sub_cancel]
    have e1 : (pre ++ List.replicate (m + 1 + (rs.map (·.2)).sum + 1) step).set pre.length (s - e + 1)
        = (pre ++ (s - e + 1) :: List.replicate m step)
            ++ List.replicate ((rs.map (·.2)).sum + 1) step := by
      have : m + 1 + (rs.map (·.2)).sum + 1 = (m + ((rs.map (·.2)).sum + 1)) + 1 := by omega
      rw [this, List.replicate_succ, List.set_append_right _ _ (Nat.le_refl _)]
      simp [List.replicate_append_replicate]
    have e2 : pre.length + (m + 1) = (pre ++ (s - e + 1) :: List.replicate m step).length := by
      simp
    rw [e1, e2, ih _ _ (fun r hr => hne r (by simp [hr]))]
    simp

theorem cumsum_builder (step : Int) (e : Int) (rs : List (Int × Nat)) (hne : ∀ r ∈ rs, 0 < r.2) :
    cumsumFrom (e - 1) (builderFrom step e rs) = (rs.map (fun r => Py.prog r.1 step r.2)).flatten := by
  induction rs generalizing e with
  | nil => simp [builderFrom, cumsumFrom]
  | cons r rs ih =>
    obtain ⟨s, l⟩ := r
    have hl : 0 < l := hne (s, l) (by simp)
    obtain ⟨m, rfl⟩ : ∃ m, l = m + 1 := ⟨l - 1, by omega⟩
    simp only [builderFrom, cumsumFrom, Py.prog, List.map_cons, List.flatten_cons,
      Nat.add_sub_cancel]
    have e1 : e - 1 + (s - e + 1) = s := by omega
    rw [e1, cumsumFrom_append, cumsumFrom_replicate, sum_replicate_int]
    have e2 : s + (m : Int) * step = rowEnd step (s, m + 1) - 1 := by
      simp [rowEnd]
    rw [e2, ih _ (fun r hr => hne r (by simp [hr]))]
    simp

theorem flatten_filter_ne (step : Int) (rows : List (Int × Nat)) :
    ((rows.filter (·.2 != 0)).map (fun r => Py.prog r.1 step r.2)).flatten
      = (rows.map (fun r => Py.prog r.1 step r.2)).flatten := by
  induction rows with
  | nil => rfl
  | cons r rs ih =>
    obtain ⟨s, l⟩ := r
    by_cases hl : l = 0
    · subst hl; simp [Py.prog, ih]
    · rw [List.filter_cons_of_pos (by simp [hl])]
      simp [ih]

theorem sum_filter_ne (rows : List (Int × Nat)) :
    ((rows.filter (·.2 != 0)).map (·.2)).sum = (rows.map (·.2)).sum := by
  induction rows with
  | nil => rfl
  | cons r rs ih =>
    obtain ⟨s, l⟩ := r
    by_cases hl : l = 0
    · subst hl; simp [ih]
    · rw [List.filter_cons_of_pos (by simp [hl])]
      simp [ih]

theorem flatten_of_sum_zero (step : Int) (rows : List (Int × Nat)) (h : (rows.map (·.2)).sum = 0) :
    (rows.map (fun r => Py.prog r.1 step r.2)).flatten = [] := by
  induction rows with
  | nil => rfl
  | cons r rs ih =>
    obtain ⟨s, l⟩ := r
    simp only [List.map_cons, List.sum_cons] at h
    have hl : l = 0 := by omega
    subst hl
    simp only [List.map_cons, List.flatten_cons, Py.prog, List.nil_append]
    exact ih (by omega)

/-- the scatter-built builder of the model for non-empty rows is the structural builder -/
theorem builder_core (step : Int) (r0 : Int × Nat) (rs : List (Int × Nat))
    (hne : ∀ r ∈ r0 :: rs, 0 < r.2) (ne : List (Nat × Int × Int × Nat))
    (hdef : ne = (exclScanFrom 0 ((r0 :: rs).map (·.2))).zip ((r0 :: rs).map (vrow step))) :
    (scatterSet (List.replicate (((r0 :: rs).map (·.2)).sum + 1) step)
        (((ne.map (·.1)).drop 1).zip
          (List.zipWith (fun s e => s - e + 1) ((ne.map (·.2.1)).drop 1)
            ((ne.map (·.2.2.1)).dropLast)))).set 0 ((ne.head?.map (·.2.1)).getD 0)
      = builderFrom step 1 (r0 :: rs) ++ [step] := by
  obtain ⟨s, l⟩ := r0
  have hl : 0 < l := hne (s, l) (by simp)
  obtain ⟨m, rfl⟩ : ∃ m, l = m + 1 := ⟨l - 1, by omega⟩
  have h1 : ne.map (·.1) = exclScanFrom 0 (((s, m + 1) :: rs).map (·.2)) := by
    rw [hdef, List.map_fst_zip]; simp
  have h2 : ne.map (·.2.1) = ((s, m + 1) :: rs).map (·.1) := by
    have : ne.map (·.2) = ((s, m + 1) :: rs).map (vrow step) := by
      rw [hdef, List.map_snd_zip]; simp
    have h' : ne.map (·.2.1) = (ne.map (·.2)).map (·.1) := by simp
    rw [h', this]; simp [vrow]
  have h3 : ne.map (·.2.2.1) = ((s, m + 1) :: rs).map (rowEnd step) := by
    have : ne.map (·.2) = ((s, m + 1) :: rs).map (vrow step) := by
      rw [hdef, List.map_snd_zip]; simp
    have h' : ne.map (·.2.2.1) = (ne.map (·.2)).map (·.2.1) := by simp
    rw [h', this]; simp [vrow]
  have h4 : (ne.head?.map (·.2.1)).getD 0 = s := by
    rw [hdef]; simp [exclScanFrom, vrow]
  rw [h1, h2, h3, h4]
  simp only [List.map_cons, exclScanFrom, List.drop_succ_cons, List.drop_zero, Nat.zero_add,
    List.sum_cons]
  rw [writes_eq]
  have e0 : List.replicate (m + 1 + (rs.map (·.2)).sum + 1) step
      = List.replicate (m + 1) step ++ List.replicate ((rs.map (·.2)).sum + 1) step := by
    rw [List.replicate_append_replicate]; congr 1
  have e1 : m + 1 = (List.replicate (m + 1) step).length := by simp
  rw [e0]
  conv => lhs; arg 1; arg 2; rw [e1]
  rw [scatter_builder _ _ _ _ (fun r hr => hne r (by simp [hr]))]
  simp [builderFrom, List.replicate_succ]

/-- `buildIndices` on the triples of (start, length) rows: the concatenated progressions -/
theorem buildIndices_vrow (step : Int) (rows : List (Int × Nat)) :
    buildIndices step (rows.map (vrow step)) = (rows.map (fun r => Py.prog r.1 step r.2)).flatten := by
  have hlens : (rows.map (vrow step)).map (·.2.2) = rows.map (·.2) := by simp [vrow]
  unfold buildIndices
  simp only [hlens]
  by_cases hs : (rows.map (·.2)).sum = 0
  · rw [if_pos hs, flatten_of_sum_zero step rows hs]
  · rw [if_neg hs]
    simp only [exclScan]
    rw [ne_filter]
    rw [← flatten_filter_ne, ← sum_filter_ne]
    have hne : ∀ r ∈ rows.filter (·.2 != 0), 0 < r.2 := by
      intro r hr
      have := (List.mem_filter.mp hr).2
      simp at this; omega
    rw [← sum_filter_ne] at hs
    generalize rows.filter (·.2 != 0) = R at hne hs ⊢
    cases R with
    | nil => simp at hs
    | cons r0 rs =>
      rw [builder_core step r0 rs hne _ rfl]
      rw [cumsum, cumsumFrom_concat_dropLast]
      exact cumsum_builder step 1 (r0 :: rs) hne

end Model
