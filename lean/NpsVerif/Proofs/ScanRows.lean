import NpsVerif.Model.Scan
import NpsVerif.Spec.Rows
import NpsVerif.Proofs.C01
import NpsVerif.Proofs.BuildIndices
import NpsVerif.Proofs.UfuncRows
/-!
# Row-wise scans through one global scan (helpers for property C07)

`cumsumRows` and `rowAccumulate` run ONE scan over the flat buffer and then repair every row with a
per-row offset.  The proofs go by induction over the rows with a generalised prefix
(`D = pre ++ rows.flatten`), showing that the part of the global scan lying over a row is the
row's own scan shifted by what was accumulated before the row ("locality"), and that the offset
undoes exactly that shift.  Empty rows read their offset from an arbitrary (clamped) position, but
the offset is repeated zero times.
-/
namespace Proofs.ScanRows
open Model Np

variable {α β γ : Type}

/-! ## generic list facts -/

theorem repeatRows_cons (l : Nat) (ls : List Nat) (v : α) (vs : List α) :
    repeatRows (l :: ls) (v :: vs) = List.replicate l v ++ repeatRows ls vs := by
  simp [repeatRows]

theorem zipWith_replicate_of_length (f : α → β → γ) (r : List α) (n : Nat) (c : β)
    (h : r.length = n) : List.zipWith f r (List.replicate n c) = r.map (f · c) := by
  subst h
  exact Proofs.UfuncRows.zipWith_replicate_right f r c

/-- a flat buffer that is the concatenation of row-wise images, read through the shape of `rows` -/
theorem rows_of_flat (rows : List (List β)) (g : List β → List γ) (d : List γ)
    (hg : ∀ r, (g r).length = r.length) (hd : d = (rows.map g).flatten) :
    RA.rows ⟨d, (RA.ofRows rows).shape⟩ = rows.map g := by
  subst hd
  apply Proofs.UfuncRows.rows_mk
  rw [List.map_map]
  apply List.map_congr_left
  intro r _
  exact hg r

theorem size_ofRows (rows : List (List β)) : (RA.ofRows rows).size = rows.flatten.length := by
  simp [RA.size, RA.ofRows, ofLens_lengths, List.length_flatten]

theorem all_nil_of_flatten_length (rows : List (List β)) (h : rows.flatten.length = 0) :
    ∀ r ∈ rows, r = [] := by
  have : rows.flatten = [] := List.eq_nil_of_length_eq_zero h
  exact List.flatten_eq_nil_iff.mp this

theorem flatten_map_nil (rows : List (List β)) (g : List β → List γ) (hg : g [] = [])
    (h : ∀ r ∈ rows, r = []) : (rows.map g).flatten = [] := by
  apply List.flatten_eq_nil_iff.mpr
  intro l hl
  obtain ⟨r, hr, rfl⟩ := List.mem_map.mp hl
  rw [h r hr, hg]

/-! ## `cumsum` -/

@[simp] theorem cumsumFrom_length (acc : Int) (l : List Int) : (cumsumFrom acc l).length = l.length := by
  induction l generalizing acc with
  | nil => rfl
  | cons x xs ih => simp [cumsumFrom, ih]

theorem cumsumFrom_map_sub (a c : Int) (l : List Int) :
    (cumsumFrom a l).map (· - c) = cumsumFrom (a - c) l := by
  induction l generalizing a with
  | nil => rfl
  | cons x xs ih =>
    simp only [cumsumFrom, List.map_cons]
    rw [ih (a + x), show a - c + x = a + x - c by omega]

/-- the running total in front of cell `k` -/
theorem cons_cumsumFrom_getElem? (a : Int) (l : List Int) (k : Nat) (hk : k ≤ l.length) :
    (a :: cumsumFrom a l)[k]? = some (a + (l.take k).sum) := by
  induction l generalizing a k with
  | nil =>
    have : k = 0 := by simpa using hk
    subst this; simp
  | cons x xs ih =>
    cases k with
    | zero => simp
    | succ k =>
      simp only [cumsumFrom, List.getElem?_cons_succ, List.take_succ_cons, List.sum_cons]
      rw [ih (a + x) k (by simpa using hk), Int.add_assoc]

/-- running totals at the row starts -/
def offs (A : Int) : List (List Int) → List Int
  | [] => []
  | r :: rs => A :: offs (A + r.sum) rs

theorem cumsum_offsets (rows : List (List Int)) (pre : List Int) (k : Nat) (hk : k = pre.length) :
    (exclScanFrom k (rows.map List.length)).filterMap
        ((0 :: cumsumFrom 0 (pre ++ rows.flatten))[·]?) = offs pre.sum rows := by
  induction rows generalizing pre k with
  | nil => simp [exclScanFrom, offs]
  | cons r rs ih =>
    simp only [List.map_cons, exclScanFrom, offs]
    have h0 : (0 :: cumsumFrom 0 (pre ++ (r :: rs).flatten))[k]? = some pre.sum := by
      rw [cons_cumsumFrom_getElem? 0 _ k (by simp [hk]), hk]
      simp
    rw [List.filterMap_cons_some h0]
    congr 1
    have := ih (pre ++ r) (k + r.length) (by simp [hk])
    simp only [List.sum_append, List.append_assoc] at this
    simpa [List.flatten_cons] using this

/-- locality of the global cumsum: minus the running total at the row start, every row carries
its own prefix sums -/
theorem cumsum_local (rows : List (List Int)) (A : Int) :
    List.zipWith (· - ·) (cumsumFrom A rows.flatten)
        (repeatRows (rows.map List.length) (offs A rows))
      = (rows.map (cumsumFrom 0)).flatten := by
  induction rows generalizing A with
  | nil => simp [cumsumFrom, repeatRows, offs]
  | cons r rs ih =>
    simp only [List.map_cons, List.flatten_cons, offs, repeatRows_cons]
    rw [cumsumFrom_append, List.zipWith_append (by simp), ih,
      zipWith_replicate_of_length _ _ _ _ (cumsumFrom_length A r), cumsumFrom_map_sub, Int.sub_self]

theorem cumsumRows_ofRows (rows : List (List Int)) :
    (cumsumRows (RA.ofRows rows)).rows = rows.map Spec.prefixSums := by
  unfold cumsumRows
  rw [size_ofRows]
  split
  · rename_i h
    apply rows_of_flat rows Spec.prefixSums [] (fun r => cumsumFrom_length 0 r)
    rw [flatten_map_nil rows Spec.prefixSums rfl (all_nil_of_flatten_length rows h)]
  · apply rows_of_flat rows Spec.prefixSums _ (fun r => cumsumFrom_length 0 r)
    have hcm : Np.cumsum (0 :: (RA.ofRows rows).data) = 0 :: cumsumFrom 0 rows.flatten := by
      simp [Np.cumsum, cumsumFrom, RA.ofRows]
    have hoff := cumsum_offsets rows [] 0 rfl
    simp only [List.nil_append, List.sum_nil] at hoff
    simp only [hcm, List.drop_one, List.tail_cons]
    show List.zipWith (· - ·) (cumsumFrom 0 rows.flatten)
        (repeatRows (Shape.ofLens (rows.map List.length)).lengths
          ((Shape.ofLens (rows.map List.length)).starts.filterMap
            ((0 :: cumsumFrom 0 rows.flatten)[·]?))) = _
    rw [ofLens_lengths, ofLens_starts, exclScan, hoff, cumsum_local]
    rfl

/-! ## generic `op.accumulate` with the `INVERSE_FUNCS` repair -/

theorem accumulateFrom_eq_spec (op : α → α → α) (a : α) (l : List α) :
    Model.accumulateFrom op a l = Spec.accumulateFrom op a l := by
  induction l generalizing a with
  | nil => rfl
  | cons x xs ih => simp [Model.accumulateFrom, Spec.accumulateFrom, ih]

@[simp] theorem accumulateFrom_length (op : α → α → α) (a : α) (l : List α) :
    (Model.accumulateFrom op a l).length = l.length := by
  induction l generalizing a with
  | nil => rfl
  | cons x xs ih => simp [Model.accumulateFrom, ih]

theorem spec_accumulate_length (op : α → α → α) (l : List α) :
    (Spec.accumulate op l).length = l.length := by
  cases l with
  | nil => rfl
  | cons x xs => simp [Spec.accumulate, ← accumulateFrom_eq_spec]

theorem accumulateFrom_append (op : α → α → α) (a : α) (l₁ l₂ : List α) :
    Model.accumulateFrom op a (l₁ ++ l₂)
      = Model.accumulateFrom op a l₁ ++ Model.accumulateFrom op (l₁.foldl op a) l₂ := by
  induction l₁ generalizing a with
  | nil => rfl
  | cons x xs ih => simp [Model.accumulateFrom, ih]

/-- `accumulate` is `accumulateFrom` started from a neutral-for-the-first-cell value -/
theorem accumulate_eq_from (op : α → α → α) (H3 : ∀ x, ∃ A, op A x = x) (l : List α) (hl : l ≠ []) :
    ∃ A, Model.accumulate op l = Model.accumulateFrom op A l := by
  cases l with
  | nil => exact absurd rfl hl
  | cons x xs =>
    obtain ⟨A, hA⟩ := H3 x
    exact ⟨A, by simp [Model.accumulate, Model.accumulateFrom, hA]⟩

/-- one non-empty row: the global scan over the row, repaired with the row's offset, is the
row's own accumulate -/
theorem head_row (op inv0 inv1 : α → α → α)
    (H1 : ∀ C x, inv1 C (inv0 x C) = x)
    (H2 : ∀ C x l, (Model.accumulateFrom op C l).map (fun c => inv1 c (inv0 x C))
            = Model.accumulateFrom op x l)
    (B x : α) (l : List α) :
    List.zipWith inv1 (Model.accumulateFrom op B (x :: l))
        (List.replicate (x :: l).length (inv0 x (op B x)))
      = Spec.accumulate op (x :: l) := by
  rw [zipWith_replicate_of_length _ _ _ _ (accumulateFrom_length op B (x :: l))]
  simp only [Model.accumulateFrom, List.map_cons, H1, H2, Spec.accumulate]
  rw [accumulateFrom_eq_spec]

theorem rowAcc_core (op inv0 inv1 : α → α → α)
    (H1 : ∀ C x, inv1 C (inv0 x C) = x)
    (H2 : ∀ C x l, (Model.accumulateFrom op C l).map (fun c => inv1 c (inv0 x C))
            = Model.accumulateFrom op x l)
    (D cm : List α) (n : Nat) (hn : 0 < n) (hDn : D.length = n) (hcn : cm.length = n)
    (rows : List (List α)) (pre cpre : List α) (B : α) (k : Nat)
    (hk : k = pre.length) (hp : cpre.length = pre.length)
    (hD : D = pre ++ rows.flatten) (hcm : cm = cpre ++ Model.accumulateFrom op B rows.flatten) :
    List.zipWith inv1 (Model.accumulateFrom op B rows.flatten)
      (repeatRows (rows.map List.length)
        (List.zipWith inv0
          (((exclScanFrom k (rows.map List.length)).map (fun s => min s (n - 1))).filterMap (D[·]?))
          (((exclScanFrom k (rows.map List.length)).map (fun s => min s (n - 1))).filterMap (cm[·]?))))
      = (rows.map (Spec.accumulate op)).flatten := by
  induction rows generalizing pre cpre B k with
  | nil => simp [Model.accumulateFrom]
  | cons r rs ih =>
    have hin : min k (n - 1) < n := by omega
    have hv : D[min k (n - 1)]? = some (D[min k (n - 1)]'(by omega)) :=
      List.getElem?_eq_getElem (by omega)
    have hw : cm[min k (n - 1)]? = some (cm[min k (n - 1)]'(by omega)) :=
      List.getElem?_eq_getElem (by omega)
    simp only [List.map_cons, exclScanFrom, List.flatten_cons]
    rw [List.filterMap_cons_some hv, List.filterMap_cons_some hw, List.zipWith_cons_cons,
      repeatRows_cons, accumulateFrom_append, List.zipWith_append (by simp)]
    have htail := ih (pre ++ r) (cpre ++ Model.accumulateFrom op B r) (r.foldl op B) (k + r.length)
      (by simp [hk]) (by simp [hp]) (by simp [hD])
      (by simp [hcm, accumulateFrom_append])
    rw [htail]
    congr 1
    cases r with
    | nil => simp [Model.accumulateFrom, Spec.accumulate]
    | cons x l =>
      have hkn : k < n := by
        rw [← hDn, hD, hk]; simp
      have hmin : min k (n - 1) = k := by omega
      have hx : D[min k (n - 1)]? = some x := by
        rw [hmin, hD, hk]; simp
      have hc : cm[min k (n - 1)]? = some (op B x) := by
        rw [hmin, hcm, hk, ← hp]; simp [Model.accumulateFrom]
      rw [hx] at hv
      rw [hc] at hw
      rw [← Option.some.inj hv, ← Option.some.inj hw]
      exact head_row op inv0 inv1 H1 H2 B x l

/-- `_row_accumulate(op)` on an array built from rows, for any operator whose `INVERSE_FUNCS`
satisfy the two repair laws -/
theorem rowAccumulate_ofRows (op inv0 inv1 : α → α → α)
    (H1 : ∀ C x, inv1 C (inv0 x C) = x)
    (H2 : ∀ C x l, (Model.accumulateFrom op C l).map (fun c => inv1 c (inv0 x C))
            = Model.accumulateFrom op x l)
    (H3 : ∀ x, ∃ A, op A x = x) (rows : List (List α)) :
    (rowAccumulate op inv0 inv1 (RA.ofRows rows)).rows = rows.map (Spec.accumulate op) := by
  unfold rowAccumulate
  rw [size_ofRows]
  split
  · rename_i h
    apply rows_of_flat rows (Spec.accumulate op) _ (spec_accumulate_length op)
    rw [flatten_map_nil rows (Spec.accumulate op) rfl (all_nil_of_flatten_length rows h)]
    show Model.accumulate op rows.flatten = []
    rw [List.eq_nil_of_length_eq_zero h]
    rfl
  · rename_i h
    apply rows_of_flat rows (Spec.accumulate op) _ (spec_accumulate_length op)
    have hne : rows.flatten ≠ [] := by
      intro h'; apply h; rw [h']; rfl
    obtain ⟨A, hA⟩ := accumulate_eq_from op H3 rows.flatten hne
    show List.zipWith inv1 (Model.accumulate op rows.flatten)
        (repeatRows (Shape.ofLens (rows.map List.length)).lengths
          (List.zipWith inv0
            (((Shape.ofLens (rows.map List.length)).starts.map
                (fun s => min s (rows.flatten.length - 1))).filterMap (rows.flatten[·]?))
            (((Shape.ofLens (rows.map List.length)).starts.map
                (fun s => min s (rows.flatten.length - 1))).filterMap
              ((Model.accumulate op rows.flatten)[·]?)))) = _
    rw [ofLens_lengths, ofLens_starts, exclScan, hA]
    exact rowAcc_core op inv0 inv1 H1 H2 rows.flatten (Model.accumulateFrom op A rows.flatten)
      rows.flatten.length (by omega) rfl (by simp) rows [] [] A 0 rfl rfl rfl rfl

/-! ## the three operators -/

theorem add_repair (C x : Int) (l : List Int) :
    (Model.accumulateFrom (· + ·) C l).map (fun c => c + (x - C)) = Model.accumulateFrom (· + ·) x l := by
  induction l generalizing C x with
  | nil => rfl
  | cons y ys ih =>
    simp only [Model.accumulateFrom, List.map_cons]
    rw [show x - C = (x + y) - (C + y) by omega, ih (C + y) (x + y)]
    congr 1
    omega

theorem sub_repair (C x : Int) (l : List Int) :
    (Model.accumulateFrom (· - ·) C l).map (fun c => c + (x - C)) = Model.accumulateFrom (· - ·) x l := by
  induction l generalizing C x with
  | nil => rfl
  | cons y ys ih =>
    simp only [Model.accumulateFrom, List.map_cons]
    rw [show x - C = (x - y) - (C - y) by omega, ih (C - y) (x - y)]
    congr 1
    omega

/-! fixed-width wrap-around: the same repair laws in `BitVec w` (numpy's int8 … uint64 arithmetic) -/
theorem bv_shift_add (w : Nat) (C x y : BitVec w) : (x + y) - (C + y) = x - C := by
  rw [BitVec.sub_eq_iff_eq_add, BitVec.add_comm C y, ← BitVec.add_assoc, BitVec.add_comm (x - C) y,
    BitVec.add_assoc, BitVec.sub_add_cancel, BitVec.add_comm]

theorem bv_shift_sub (w : Nat) (C x y : BitVec w) : (x - y) - (C - y) = x - C := by
  rw [BitVec.sub_eq_iff_eq_add, BitVec.sub_eq_iff_eq_add, BitVec.add_assoc, BitVec.sub_add_cancel, BitVec.sub_add_cancel]

theorem bv_add_repair (w : Nat) (C x : BitVec w) (l : List (BitVec w)) :
    (Model.accumulateFrom (· + ·) C l).map (fun c => c + (x - C)) = Model.accumulateFrom (· + ·) x l := by
  induction l generalizing C x with
  | nil => rfl
  | cons y ys ih =>
    simp only [Model.accumulateFrom, List.map_cons]
    rw [← bv_shift_add w C x y, ih (C + y) (x + y)]
    congr 1
    rw [BitVec.add_comm, BitVec.sub_add_cancel]

theorem bv_sub_repair (w : Nat) (C x : BitVec w) (l : List (BitVec w)) :
    (Model.accumulateFrom (· - ·) C l).map (fun c => c + (x - C)) = Model.accumulateFrom (· - ·) x l := by
  induction l generalizing C x with
  | nil => rfl
  | cons y ys ih =>
    simp only [Model.accumulateFrom, List.map_cons]
    rw [← bv_shift_sub w C x y, ih (C - y) (x - y)]
    congr 1
    rw [BitVec.add_comm, BitVec.sub_add_cancel]

section Xor
variable [XorLike α]

theorem xor_repair_head (C x : α) : XorLike.xor C (XorLike.xor x C) = x := by
  rw [XorLike.xor_comm x C, ← XorLike.xor_assoc, XorLike.xor_self, XorLike.zero_xor]

theorem xor_shift (C x y : α) : XorLike.xor (XorLike.xor x y) (XorLike.xor C y) = XorLike.xor x C := by
  rw [XorLike.xor_comm C y, XorLike.xor_assoc x y, ← XorLike.xor_assoc y y, XorLike.xor_self, XorLike.zero_xor]

theorem xor_repair (C x : α) (l : List α) :
    (Model.accumulateFrom XorLike.xor C l).map (fun c => XorLike.xor c (XorLike.xor x C)) = Model.accumulateFrom XorLike.xor x l := by
  induction l generalizing C x with
  | nil => rfl
  | cons y ys ih =>
    simp only [Model.accumulateFrom, List.map_cons]
    rw [← xor_shift C x y, ih (XorLike.xor C y) (XorLike.xor x y)]
    congr 1
    rw [xor_shift, XorLike.xor_comm x C, XorLike.xor_comm C y, XorLike.xor_assoc, ← XorLike.xor_assoc C C, XorLike.xor_self, XorLike.zero_xor,
      XorLike.xor_comm]

end Xor

end Proofs.ScanRows
