import NpsVerif.Proofs.RL2ColRangeA
/-!
# Column ranges on the ragged run-length array (C17, part C) — the cut

`colRangeRow` is split into the two mask searches, the cut (`cutRow`, with the boundary overwrite
written once as `coreList`) and the post-processing (`postRow`).  On a valid row the cut is
`_start_to_end` of the 1-D class (property C15) for the window `[S, E)`.
-/
namespace Proofs.RL2CR
open Model Model.RL2 Model.RLA Proofs.RLIndex
variable {α : Type}

def ovLast (Y : Option Int) (i : List Int) : List Int :=
  match Y with | some y => i.set (i.length - 1) y | none => i

def ovFirst (X : Option Int) (i : List Int) : List Int :=
  match X with | some x => i.set 0 x | none => i

/-- cut boundaries `ix[s:e]`, overwrite last / first with `Y` / `X`, shift to 0 -/
def coreList (ix : List Nat) (s e : Option Int) (X Y : Option Int) : List Int :=
  let i : List Int := (cut ix s e).map (fun (x : Nat) => (x : Int))
  let i := ovLast Y i
  let i := ovFirst X i
  i.map (· - i.headD 0)

/-- the cut, given the run numbers found by the mask searches -/
def cutRow (ix : List Nat) (vs : List α) (X Y : Option Int) (startCol stopCol : Option Int) :
    Bool × List Int × List α :=
  match startCol, stopCol with
  | none, none => (false, ix.map (fun (x : Nat) => (x : Int)), vs)
  | _, _ =>
    let s := startCol
    let e := stopCol.map (· + 2)
    let e2 := stopCol.map (· + 1)
    let t : Bool × Option Int × Option Int := match s, e, e2 with
      | some s', some e', some e2' => (decide (s' ≥ e'), some (max (s' + 1) e'), some (max s' e2'))
      | _, _, _ => (false, e, e2)
    (t.1, coreList ix s t.2.1 X Y, cut vs s t.2.2)

def postRow (step : Int) (r : Bool × List Int × List α) : Option (List Nat × List α) :=
  let p := stepSubsetRow step r.2.1 r.2.2
  let i := if r.1 then p.1.set 0 0 else p.1
  if i.length = p.2.length + 1 ∧ i.all (fun x => decide (0 ≤ x)) then some (i.map Int.toNat, p.2) else none

/-- the start-mask search (`none` = Python's `None`; refusal when the mask has no hit) -/
def searchStart (ix : List Nat) (startR : Option Int) (p : Int → Int → Int → Bool) :
    Option (Option Int) :=
  match startR with
  | none => some none
  | some a => (findRun ix (p a)).map (fun j => some (j : Int))

def searchStopFwd (ix : List Nat) (stopR : Option Int) : Option Int :=
  stopR.map (fun b =>
    match findRun ix (fun lo hi => decide (hi ≥ b ∧ lo < b)) with
      | some j => (j : Int)
      | none => -1)

def searchStopRev (ix : List Nat) (stopR : Option Int) : Option Int :=
  stopR.map (fun b =>
    ((findRun ix (fun lo hi => decide (lo ≤ b + 1 ∧ hi > b + 1))).getD (ix.length - 1) : Nat))

/-- forward direction (`step > 0`) -/
theorem colRangeRow_fwd (ix : List Nat) (vs : List α) (start stop : Option Int) (step : Int)
    (hstep : ¬ step < 0) :
    colRangeRow ix vs start stop step =
      let L : Int := ((ix.getLast?.getD 0 : Nat) : Int)
      let startR := start.map (clampCol L)
      let stopR := stop.map (clampCol L)
      let fromStop : Option Int := searchStopFwd ix stopR
      let fromStart : Option (Option Int) :=
        searchStart ix startR (fun a lo hi => decide (lo ≤ a ∧ hi > a))
      fromStart.bind (fun fs => postRow step (cutRow ix vs startR stopR fs fromStop)) := by
  unfold colRangeRow
  simp only [decide_eq_false hstep]
  cases start <;> cases stop <;> rfl

/-- reverse direction (`step < 0`) -/
theorem colRangeRow_rev (ix : List Nat) (vs : List α) (start stop : Option Int) (step : Int)
    (hstep : step < 0) :
    colRangeRow ix vs start stop step =
      let L : Int := ((ix.getLast?.getD 0 : Nat) : Int)
      let startR := start.map (clampCol L)
      let stopR := stop.map (clampCol L)
      let fromStop : Option Int := searchStopRev ix stopR
      let fromStart : Option (Option Int) :=
        searchStart ix startR (fun a lo hi => decide (hi ≥ a + 1 ∧ lo < a + 1))
      fromStart.bind (fun fs =>
        postRow step (cutRow ix vs (stopR.map (· + 1)) (startR.map (· + 1)) fromStop fs)) := by
  unfold colRangeRow
  simp only [decide_eq_true hstep]
  cases start <;> cases stop <;> rfl

/-! ## the two extreme run numbers -/

theorem ssr_zero (r : RLA α) (h : r.Valid) (hpos : 0 < r.len) :
    Np.searchsortedRightNat r.events 0 = 1 := by
  obtain ⟨h0, hl, hpw⟩ := (valid_iff r).1 h
  obtain ⟨a, b, c1, c2, ha, hb, h1, h2⟩ :=
    run_at r.events (mono_of_strict hpw) 0 0 r.len (valid_head r h) (valid_getLast r h) (Nat.le_refl _) hpos
  unfold Np.searchsortedRightNat
  rcases Nat.lt_or_ge 1 (List.countP (fun x => decide (x ≤ 0)) r.events) with hc | hc
  · exfalso
    have := pairwise_getElem? hpw (i := 0) (j := List.countP (fun x => decide (x ≤ 0)) r.events - 1)
      (by omega) (valid_head r h) ha
    omega
  · omega

theorem ssl_len (r : RLA α) (h : r.Valid) (hpos : 0 < r.len) :
    Np.searchsortedLeftNat r.events r.len = r.events.length - 1 := by
  obtain ⟨h0, hl, hpw⟩ := (valid_iff r).1 h
  have hmono := mono_of_strict hpw
  obtain ⟨_, _, i3⟩ := ste_indices r h (r.len - 1) r.len (by omega) (Nat.le_refl _)
  have hlen2 : 2 ≤ r.events.length := by
    rcases Nat.lt_or_ge r.events.length 2 with hlt | hge
    · exfalso
      have hL := valid_getLast r h
      have hH := valid_head r h
      rw [List.getLast?_eq_getElem?] at hL
      have : r.events.length - 1 = 0 := by omega
      rw [this, hH] at hL
      have := Option.some.inj hL
      omega
    · exact hge
  have key := lt_countP_iff _ (lt_antitone r.len) r.events hmono (r.events.length - 2) (by omega)
  have hL := valid_getLast r h
  rw [List.getLast?_eq_getElem?] at hL
  have hlt : r.events[r.events.length - 2] < r.len :=
    pairwise_getElem? hpw (i := r.events.length - 2) (j := r.events.length - 1) (by omega)
      (List.getElem?_eq_getElem (by omega)) hL
  unfold Np.searchsortedLeftNat at i3 ⊢
  have := key.2 (by simpa using hlt)
  omega

/-! ## the cut is `_start_to_end` -/

theorem coreList_eq (r : RLA α) (h : r.Valid) (S E : Nat) (hSE : S < E) (hE : E ≤ r.len)
    (s e X Y : Option Int)
    (hs : (s = none ∧ S = 0) ∨ s = some ((Np.searchsortedRightNat r.events S - 1 : Nat) : Int))
    (hX : (X = none ∧ S = 0) ∨ X = some (S : Int))
    (he : (e = none ∧ E = r.len) ∨ e.map Int.toNat = some (Np.searchsortedLeftNat r.events E + 1))
    (hY : (Y = none ∧ E = r.len) ∨ Y = some (E : Int)) :
    coreList r.events s e X Y = (r.startToEnd S E).1.map (fun (x : Nat) => (x : Int)) := by
  obtain ⟨h0, hl, hpw⟩ := (valid_iff r).1 h
  have hmono := mono_of_strict hpw
  obtain ⟨i1, i2, i3⟩ := ste_indices r h S E hSE hE
  have hz := ssr_zero r h (by omega)
  have hz' := ssl_len r h (by omega)
  rw [startToEnd_eq]
  simp only []
  generalize hsi : Np.searchsortedRightNat r.events S - 1 = si at *
  generalize hei : Np.searchsortedLeftNat r.events E = ei at *
  have hsi0 : S = 0 → si = 0 := by intro h'; subst h'; omega
  have heiL : E = r.len → ei = r.events.length - 1 := by intro h'; subst h'; omega
  have hL := valid_getLast r h
  have hH := valid_head r h
  -- the cut
  have hcut : cut r.events s e = Np.sliceNat r.events si (ei + 1) := by
    have ha : (s.getD 0).toNat = si := by
      rcases hs with ⟨rfl, hS⟩ | rfl
      · simp [hsi0 hS]
      · simp
    unfold cut Np.sliceNat
    simp only [ha]
    rcases he with ⟨rfl, hE'⟩ | he'
    · simp only []
      rw [List.take_of_length_le]
      have := heiL hE'
      simp only [List.length_drop]; omega
    · cases e with
      | none => simp at he'
      | some e' =>
        simp only [Option.map_some, Option.some.injEq] at he'
        simp only [he']
  have hlen0 : ((Np.sliceNat r.events si (ei + 1)).map (fun (x : Nat) => (x : Int))).length = ei + 1 - si := by
    simp only [Np.sliceNat, List.length_map, List.length_take, List.length_drop]; omega
  have get0 : ∀ j (hj : j ≤ ei - si), ((Np.sliceNat r.events si (ei + 1)).map (fun (x : Nat) => (x : Int)))[j]? =
      some ((r.events[si + j]'(by omega) : Nat) : Int) := by
    intro j hj
    simp only [Np.sliceNat, List.getElem?_map, List.getElem?_take, List.getElem?_drop]
    rw [if_pos (by omega), List.getElem?_eq_getElem (by omega)]; rfl
  unfold coreList
  simp only [hcut]
  generalize hi0 : (Np.sliceNat r.events si (ei + 1)).map (fun (x : Nat) => (x : Int)) = l0 at *
  -- overwrite the last boundary
  have hY' : ovLast Y l0 = l0.set (ei - si) (E : Int) := by
    unfold ovLast
    rcases hY with ⟨rfl, hE'⟩ | rfl
    · simp only []
      apply List.ext_getElem?
      intro j
      rw [List.getElem?_set]
      split
      · rename_i hj
        subst hj
        rw [if_pos (by omega), get0 _ (Nat.le_refl _)]
        have e1 : si + (ei - si) = r.events.length - 1 := by have := heiL hE'; omega
        rw [List.getLast?_eq_getElem?, List.getElem?_eq_getElem (by omega)] at hL
        have := Option.some.inj hL
        simp only [e1, this, hE']
      · rfl
    · simp only [hlen0]
      congr 1; omega
  rw [hY']
  generalize hl1 : l0.set (ei - si) (E : Int) = l1 at *
  have hlen1 : l1.length = ei + 1 - si := by rw [← hl1, List.length_set, hlen0]
  have get1 : ∀ j (hj : j ≤ ei - si), l1[j]? =
      some (if j = ei - si then (E : Int) else ((r.events[si + j]'(by omega) : Nat) : Int)) := by
    intro j hj
    rw [← hl1, List.getElem?_set]
    by_cases hje : j = ei - si
    · rw [if_pos hje.symm, if_pos (by omega), if_pos hje]
    · rw [if_neg (fun h' => hje h'.symm), if_neg hje, get0 j hj]
  -- overwrite the first boundary
  have hX' : ovFirst X l1 = l1.set 0 (S : Int) := by
    unfold ovFirst
    rcases hX with ⟨rfl, hS⟩ | rfl
    · simp only []
      apply List.ext_getElem?
      intro j
      rw [List.getElem?_set]
      split
      · rename_i hj
        subst hj
        rw [if_pos (by omega), get1 0 (by omega), if_neg (by omega)]
        have := hsi0 hS
        subst this
        rw [List.getElem?_eq_getElem (by omega)] at hH
        have := Option.some.inj hH
        simp only [Nat.add_zero, this, hS]
      · rfl
    · rfl
  rw [hX']
  have hhead : (l1.set 0 (S : Int)).headD 0 = (S : Int) := by
    cases l1 with
    | nil => simp at hlen1; omega
    | cons x xs => simp
  rw [hhead]
  -- compare cell by cell
  apply List.ext_getElem?
  intro j
  by_cases hj : j ≤ ei - si
  · have hlt : si + j < r.events.length := by omega
    rw [List.getElem?_map, List.getElem?_map,
      steEvents_getElem? r.events S E si ei j _ i3 (by omega) hj (List.getElem?_eq_getElem hlt),
      List.getElem?_set, get1 j hj]
    have hx_s : 0 < j → S < r.events[si + j] := fun hj0 =>
      events_gt_of_ge r.events hmono S (si + j) _ (by omega) (List.getElem?_eq_getElem hlt)
    by_cases hj0 : j = 0
    · subst hj0
      rw [if_pos rfl, if_pos (by omega), if_neg (by omega), if_pos rfl]
      simp
    · rw [if_neg (fun h' => hj0 h'.symm), if_neg hj0]
      have := hx_s (by omega)
      by_cases hje : j = ei - si
      · rw [if_pos hje, if_pos hje]
        simp only [Option.map_some]
        congr 1; omega
      · rw [if_neg hje, if_neg hje]
        simp only [Option.map_some]
        congr 1; omega
  · have hlenS := steEvents_length r.events S E si ei i3 (by omega)
    rw [List.getElem?_eq_none (by simp only [List.length_map, List.length_set]; omega),
      List.getElem?_eq_none (by simp only [List.length_map]; omega)]

theorem cutValues_eq (r : RLA α) (h : r.Valid) (S E : Nat) (hSE : S < E) (hE : E ≤ r.len)
    (s e : Option Int)
    (hs : (s = none ∧ S = 0) ∨ s = some ((Np.searchsortedRightNat r.events S - 1 : Nat) : Int))
    (he : (e = none ∧ E = r.len) ∨ e.map Int.toNat = some (Np.searchsortedLeftNat r.events E)) :
    cut r.values s e = (r.startToEnd S E).2 := by
  obtain ⟨h0, hl, hpw⟩ := (valid_iff r).1 h
  obtain ⟨i1, i2, i3⟩ := ste_indices r h S E hSE hE
  have hz := ssr_zero r h (by omega)
  have hz' := ssl_len r h (by omega)
  rw [startToEnd_eq]
  simp only []
  have ha : (s.getD 0).toNat = Np.searchsortedRightNat r.events S - 1 := by
    rcases hs with ⟨rfl, hS⟩ | rfl
    · subst hS; simp [hz]
    · simp
  unfold cut Np.sliceNat
  simp only [ha]
  rcases he with ⟨rfl, hE'⟩ | he'
  · simp only []
    rw [List.take_of_length_le]
    subst hE'
    simp only [List.length_drop]; omega
  · cases e with
    | none => simp at he'
    | some e' =>
      simp only [Option.map_some, Option.some.injEq] at he'
      simp only [he']

/-- the cut of a valid row, given the right run numbers, is the window `[S, E)` -/
theorem cutRow_spec (r : RLA α) (h : r.Valid) (S E : Nat) (hSE : S < E) (hE : E ≤ r.len)
    (X Y startCol stopCol : Option Int)
    (hX : (X = none ∧ S = 0 ∧ startCol = none) ∨
      (X = some (S : Int) ∧ startCol = some ((Np.searchsortedRightNat r.events S - 1 : Nat) : Int)))
    (hY : (Y = none ∧ E = r.len ∧ stopCol = none) ∨
      (Y = some (E : Int) ∧ stopCol = some ((Np.searchsortedLeftNat r.events E - 1 : Nat) : Int))) :
    ∃ ev' vs', cutRow r.events r.values X Y startCol stopCol =
        (false, ev'.map (fun (x : Nat) => (x : Int)), vs') ∧
      (RLA.mk ev' vs').Valid ∧ (RLA.mk ev' vs').decode = (r.decode.drop S).take (E - S) := by
  obtain ⟨i1, i2, i3⟩ := ste_indices r h S E hSE hE
  have hv := startToEnd_valid r h S E hSE hE
  have hd := startToEnd_decode r h S E hSE hE
  rcases hX with ⟨rfl, hS, rfl⟩ | ⟨rfl, rfl⟩ <;> rcases hY with ⟨rfl, hE', rfl⟩ | ⟨rfl, rfl⟩
  · refine ⟨r.events, r.values, rfl, h, ?_⟩
    subst hS hE'
    rw [List.drop_zero, List.take_of_length_le]
    rw [len_eq_decode_length r h]; omega
  · refine ⟨_, _, ?_, hv, hd⟩
    have hc := coreList_eq r h S E hSE hE none
      (some ((((Np.searchsortedLeftNat r.events E - 1 : Nat) : Int)) + 2)) none (some (E : Int))
      (Or.inl ⟨rfl, hS⟩) (Or.inl ⟨rfl, hS⟩)
      (Or.inr (by simp only [Option.map_some, Option.some.injEq]; omega)) (Or.inr rfl)
    have hc2 := cutValues_eq r h S E hSE hE none
      (some ((((Np.searchsortedLeftNat r.events E - 1 : Nat) : Int)) + 1))
      (Or.inl ⟨rfl, hS⟩) (Or.inr (by simp only [Option.map_some, Option.some.injEq]; omega))
    simp only [cutRow, Option.map_some]
    rw [hc, hc2]
  · refine ⟨_, _, ?_, hv, hd⟩
    have hc := coreList_eq r h S E hSE hE
      (some ((Np.searchsortedRightNat r.events S - 1 : Nat) : Int)) none (some (S : Int)) none
      (Or.inr rfl) (Or.inr rfl) (Or.inl ⟨rfl, hE'⟩) (Or.inl ⟨rfl, hE'⟩)
    have hc2 := cutValues_eq r h S E hSE hE
      (some ((Np.searchsortedRightNat r.events S - 1 : Nat) : Int)) none
      (Or.inr rfl) (Or.inl ⟨rfl, hE'⟩)
    simp only [cutRow, Option.map_none]
    rw [hc, hc2]
  · refine ⟨_, _, ?_, hv, hd⟩
    generalize hsi : Np.searchsortedRightNat r.events S - 1 = si at *
    generalize hje : Np.searchsortedLeftNat r.events E - 1 = je at *
    have hm1 : max ((si : Int) + 1) ((je : Int) + 2) = (je : Int) + 2 := by omega
    have hm2 : max (si : Int) ((je : Int) + 1) = (je : Int) + 1 := by omega
    have hc := coreList_eq r h S E hSE hE
      (some (si : Int)) (some ((je : Int) + 2)) (some (S : Int)) (some (E : Int))
      (Or.inr (by rw [hsi])) (Or.inr rfl)
      (Or.inr (by simp only [Option.map_some, Option.some.injEq]; omega)) (Or.inr rfl)
    have hc2 := cutValues_eq r h S E hSE hE
      (some (si : Int)) (some ((je : Int) + 1))
      (Or.inr (by rw [hsi])) (Or.inr (by simp only [Option.map_some, Option.some.injEq]; omega))
    have hdec : decide ((si : Int) ≥ (je : Int) + 2) = false := by
      rw [decide_eq_false_iff_not]; omega
    simp only [cutRow, Option.map_some, hm1, hm2, hdec]
    rw [hc, hc2]

end Proofs.RL2CR
