import NpsVerif.Proofs.GetItem
import NpsVerif.Proofs.SetItemCells
/-! C03: a write into cell `(r, c)` of the rows is a `List.set` at flat position `start_r + c` of the
flat buffer; the position grid of `RaggedArray(rows)`. -/
namespace Model.SI
open Np

/-- flat position of cell `(r, c)` in the buffer of an array with row lengths `lens` -/
def gpos (lens : List Nat) (rc : Nat × Nat) : Nat := (lens.take rc.1).sum + rc.2

/-! ### one write, then the fold -/

theorem setCell_flatten {α} (rows : List (List α)) (r c : Nat) (v : α) (row : List α)
    (hr : rows[r]? = some row) (hc : c < row.length) :
    (Py.setCell rows (r, c) v).flatten = rows.flatten.set (gpos (rows.map List.length) (r, c)) v := by
  induction rows generalizing r with
  | nil => simp at hr
  | cons row0 rest ih =>
    cases r with
    | zero =>
      simp only [List.getElem?_cons_zero, Option.some.injEq] at hr
      subst hr
      simp only [Py.setCell, List.modify_zero_cons, List.flatten_cons, gpos, List.take_zero,
        List.sum_nil, Nat.zero_add]
      rw [List.set_append, if_pos hc]
    | succ r =>
      simp only [List.getElem?_cons_succ] at hr
      have := ih r hr
      simp only [Py.setCell, gpos] at this ⊢
      simp only [List.modify_succ_cons, List.flatten_cons, List.map_cons, List.take_succ_cons,
        List.sum_cons]
      rw [this, List.set_append, if_neg (by omega)]
      congr 2
      omega

theorem cellAt_setCell_isSome {α} (rows : List (List α)) (rc q : Nat × Nat) (v : α)
    (h : ∃ x, cellAt rows q = some x) : ∃ x, cellAt (Py.setCell rows rc v) q = some x := by
  obtain ⟨x, hx⟩ := h
  rw [cellAt_setCell, hx]
  split
  · exact ⟨v, rfl⟩
  · exact ⟨x, rfl⟩

theorem cellAt_some_iff {α} (rows : List (List α)) (q : Nat × Nat) (x : α) (h : cellAt rows q = some x) :
    ∃ row, rows[q.1]? = some row ∧ q.2 < row.length := by
  unfold cellAt at h
  cases hrow : rows[q.1]? with
  | none => simp [hrow] at h
  | some row =>
    simp only [hrow, Option.bind_some] at h
    refine ⟨row, rfl, ?_⟩
    have := List.getElem?_eq_some_iff.mp h
    exact this.1

/-- folding `setCell` over writes that address existing cells = scattering into the flat buffer -/
theorem writeCells_flatten {α} (rows : List (List α)) (ws : List ((Nat × Nat) × α))
    (hv : ∀ w ∈ ws, ∃ x, cellAt rows w.1 = some x) :
    (writeCells rows ws).flatten
      = scatterSet rows.flatten (ws.map (fun w => (gpos (rows.map List.length) w.1, w.2))) := by
  induction ws generalizing rows with
  | nil => rfl
  | cons w ws ih =>
    obtain ⟨⟨r, c⟩, v⟩ := w
    rw [writeCells_cons, List.map_cons, scatterSet]
    obtain ⟨x, hx⟩ := hv ((r, c), v) (by simp)
    obtain ⟨row, hr, hc⟩ := cellAt_some_iff rows (r, c) x hx
    rw [ih, setCell_lengths, setCell_flatten rows r c v row hr hc]
    intro w' hw'
    exact cellAt_setCell_isSome rows _ _ _ (hv w' (by simp [hw']))

theorem rows_ofRows {α} (rows : List (List α)) : (RA.ofRows rows).rows = rows := ofRows_cut rows

/-- reading back the scattered buffer with the original shape -/
theorem rows_scatter {α} (rows : List (List α)) (ws : List ((Nat × Nat) × α))
    (hv : ∀ w ∈ ws, ∃ x, cellAt rows w.1 = some x) :
    RA.rows ⟨scatterSet rows.flatten (ws.map (fun w => (gpos (rows.map List.length) w.1, w.2))),
        (RA.ofRows rows).shape⟩ = writeCells rows ws := by
  rw [← writeCells_flatten rows ws hv]
  have : (RA.ofRows rows).shape = (RA.ofRows (writeCells rows ws)).shape := by
    simp only [RA.ofRows, writeCells_lengths]
  rw [this]
  exact rows_ofRows _

/-! ### the position grid -/

theorem cut_range (n s l : Nat) (h : s + l ≤ n) :
    cut (List.range n) (s, l) = (List.range l).map (fun c => s + c) := by
  apply List.ext_getElem?
  intro j
  simp only [cut, List.getElem?_take, List.getElem?_drop, List.getElem?_map]
  by_cases hj : j < l
  · rw [if_pos hj, List.getElem?_range (by omega), List.getElem?_range hj]
    rfl
  · rw [if_neg hj, List.getElem?_eq_none (l := List.range l) (by simpa using hj)]
    rfl

/-- the rows of flat positions = the coordinate grid mapped through `gpos` -/
theorem posGrid_eq {α} (rows : List (List α)) :
    (RA.ofRows rows).shape.codes.map (cut (List.range rows.flatten.length))
      = (Py.coords rows).map (·.map (gpos (rows.map List.length))) := by
  have hb := ofRows_codes_bound rows
  simp only [RA.ofRows, ofLens_codes] at hb ⊢
  apply List.ext_getElem?
  intro i
  simp only [List.getElem?_map, coords_getElem?]
  by_cases hi : i < rows.length
  · have hi' : i < (rows.map List.length).length := by simpa using hi
    have h1 := exclScan_getElem? (rows.map List.length) i hi'
    have h2 : (rows.map List.length)[i]? = some rows[i].length := by
      simp [List.getElem?_eq_getElem hi]
    have hz : ((exclScan (rows.map List.length)).zip (rows.map List.length))[i]?
        = some (((rows.map List.length).take i).sum, rows[i].length) := by
      rw [List.getElem?_zip_eq_some]; exact ⟨h1, h2⟩
    have hbound := hb _ (List.mem_of_getElem? hz)
    rw [hz, List.getElem?_eq_getElem hi]
    simp only [Option.map_some, Option.some.injEq]
    rw [cut_range _ _ _ hbound, List.map_map]
    rfl
  · have hz : ((exclScan (rows.map List.length)).zip (rows.map List.length))[i]? = none := by
      apply List.getElem?_eq_none; simp; omega
    rw [hz, List.getElem?_eq_none (by omega)]
    rfl

/-- flattened: the cells in row-major order sit at positions `0, 1, …, n-1` -/
theorem coords_flatten_gpos {α : Type} (rows : List (List α)) :
    (Py.coords rows).flatten.map (gpos (rows.map List.length)) = List.range rows.flatten.length := by
  rw [List.map_flatten]
  have hp := posGrid_eq rows
  rw [show List.map (List.map (gpos (List.map List.length rows))) (Py.coords rows) = _ from hp.symm]
  simp only [RA.ofRows, ofLens_codes, exclScan]
  have := cut_flatten (List.range rows.flatten.length) 0 (rows.map List.length)
  rw [show cut (List.range rows.flatten.length)
    = (fun c => ((List.range rows.flatten.length).drop c.1).take c.2) from rfl, this]
  simp [List.length_flatten]

end Model.SI
