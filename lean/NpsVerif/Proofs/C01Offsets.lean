import NpsVerif.Proofs.C01
/-!
# Helper lemmas for the legacy `offsets` form of `RaggedShape.from_dict` (statements: `Props/C01C.lean`)
-/
namespace Proofs.C01Offsets
open Model Np

theorem diff_cumsumFrom (a : Int) (l : List Int) : diff (a :: cumsumFrom a l) = l := by
  induction l generalizing a with
  | nil => simp [cumsumFrom, diff]
  | cons x xs ih => simp only [cumsumFrom, diff]; rw [ih]; congr 1; omega

theorem length_cumsumFrom (a : Int) (l : List Int) : (cumsumFrom a l).length = l.length := by
  induction l generalizing a with
  | nil => rfl
  | cons x xs ih => simp [cumsumFrom, ih]

theorem cumsumFrom_getElem? (a : Int) (l : List Int) (i : Nat) (hi : i < l.length) :
    (cumsumFrom a l)[i]? = some (a + (l.take (i + 1)).sum) := by
  induction l generalizing a i with
  | nil => simp at hi
  | cons x xs ih =>
    cases i with
    | zero => simp [cumsumFrom]
    | succ j =>
      simp only [cumsumFrom, List.getElem?_cons_succ, List.take_succ_cons, List.sum_cons]
      rw [ih (a + x) j (by simpa using hi)]; congr 1; omega

theorem sum_map_ofNat (l : List Nat) : (l.map Int.ofNat).sum = Int.ofNat l.sum := by
  induction l with
  | nil => rfl
  | cons x xs ih => simp [ih]

end Proofs.C01Offsets
