import NpsVerif.Proofs.RL2ColAnyBuild
import NpsVerif.Proofs.RL2Basic
/-!
# `_col_any` (C17, part E): the sweep is correct

For sorted starts `S` and sorted ends `E` with `S[i] < E[i]` position by position and every end `≤ L`, the assembled
run-length array is valid and its cell `c < L` is True iff `#{E ≤ c} < #{S ≤ c}` (`sweep_main`).
-/
namespace Proofs.RL2ColAny
open Model Model.RL2 Model.RLA Proofs.RLIndex Proofs.RL2

theorem cntLE_cons (x : Nat) (l : List Nat) (c : Nat) :
    cntLE (x :: l) c = (if x ≤ c then 1 else 0) + cntLE l c := by
  simp only [cntLE, List.countP_cons, decide_eq_true_eq]
  omega

theorem sweep_len (L : Nat) (A B : List Nat) (hl : B.length = A.length + 1) :
    (sweepEv L A B).length = (sweepVs L A B).length + 1 := by
  induction A generalizing B with
  | nil =>
    match B, hl with
    | [e], _ =>
      simp only [sweepEv, sweepVs]
      split <;> simp
  | cons a A ih =>
    match B, hl with
    | e :: B, hl =>
      have := ih B (by simpa using hl)
      simp only [sweepEv, sweepVs]
      split <;> simp [this]

theorem allLt_same {lo a e : Nat} {A B : List Nat} (h : AllLt (lo :: a :: A) (e :: B))
    (hB : (e :: B).Pairwise (· ≤ ·)) : AllLt (lo :: A) B := by
  obtain ⟨h1, h2⟩ := h
  cases B with
  | nil => exact h2.elim
  | cons e' B =>
    have : e ≤ e' := (List.pairwise_cons.1 hB).1 e' List.mem_cons_self
    exact ⟨by omega, h2.2⟩

theorem pairwise_lt_cons {x y : Nat} {l : List Nat} (hxy : x < y) (h : (y :: l).Pairwise (· < ·)) :
    (x :: y :: l).Pairwise (· < ·) := by
  refine List.pairwise_cons.2 ⟨?_, h⟩
  intro z hz
  rcases List.mem_cons.1 hz with rfl | hz
  · exact hxy
  · exact Nat.lt_trans hxy ((List.pairwise_cons.1 h).1 z hz)

theorem sweep_pw (L lo : Nat) (A B : List Nat) (hlt : AllLt (lo :: A) B) (hB : B.Pairwise (· ≤ ·))
    (hBL : ∀ e ∈ B, e ≤ L) : (lo :: sweepEv L A B).Pairwise (· < ·) := by
  induction A generalizing lo B with
  | nil =>
    match B, hlt with
    | [e], hlt =>
      have h1 : lo < e := hlt.1
      have h2 : e ≤ L := hBL e (by simp)
      simp only [sweepEv]
      split
      · simp [h1]
      · exact pairwise_lt_cons h1 (by simp; omega)
  | cons a A ih =>
    match B, hlt with
    | e :: B, hlt =>
      have h1 : lo < e := hlt.1
      have hB' := (List.pairwise_cons.1 hB).2
      have hBL' : ∀ x ∈ B, x ≤ L := fun x hx => hBL x (List.mem_cons_of_mem _ hx)
      simp only [sweepEv]
      split
      · rename_i hae
        exact pairwise_lt_cons h1 (pairwise_lt_cons hae (ih a B hlt.2 hB' hBL'))
      · exact ih lo B (allLt_same hlt hB) hB' hBL'

theorem sweep_dec (L lo : Nat) (A B : List Nat) (hlt : AllLt (lo :: A) B) (hA : A.Pairwise (· ≤ ·))
    (hB : B.Pairwise (· ≤ ·)) (hBL : ∀ e ∈ B, e ≤ L) (c : Nat) (hc : lo ≤ c) :
    (dec lo (sweepEv L A B) (true :: sweepVs L A B))[c - lo]? =
      if c < L then some (decide (cntLE B c ≤ cntLE A c)) else none := by
  induction A generalizing lo B with
  | nil =>
    match B, hlt with
    | [e], hlt =>
      have h1 : lo < e := hlt.1
      have h2 : e ≤ L := hBL e (by simp)
      simp only [sweepEv, sweepVs]
      by_cases heL : e = L
      · subst heL
        simp only [if_true, dec, List.append_nil, List.getElem?_replicate]
        by_cases hcL : c < e
        · rw [if_pos (by omega), if_pos hcL]
          simp [cntLE]; omega
        · rw [if_neg (by omega), if_neg hcL]
      · simp only [if_neg heL, dec, List.append_nil]
        by_cases hce : c < e
        · rw [List.getElem?_append_left (by simp; omega), List.getElem?_replicate, if_pos (by omega),
            if_pos (by omega)]
          simp [cntLE]; omega
        · rw [List.getElem?_append_right (by simp; omega), List.getElem?_replicate]
          simp only [List.length_replicate]
          by_cases hcL : c < L
          · rw [if_pos (by omega), if_pos hcL]
            simp [cntLE]; omega
          · rw [if_neg (by omega), if_neg hcL]
  | cons a A ih =>
    match B, hlt with
    | e :: B, hlt =>
      have h1 : lo < e := hlt.1
      have hB' := List.pairwise_cons.1 hB
      have hA' := List.pairwise_cons.1 hA
      have hBL' : ∀ x ∈ B, x ≤ L := fun x hx => hBL x (List.mem_cons_of_mem _ hx)
      have heL : e ≤ L := hBL e (by simp)
      simp only [sweepEv, sweepVs]
      rw [cntLE_cons, cntLE_cons]
      by_cases hae : a > e
      · simp only [if_pos hae, dec]
        have haL : a < L := by
          cases B with
          | nil => exact hlt.2.elim
          | cons e' B => have := hlt.2.1; have := hBL' e' (by simp); omega
        by_cases hce : c < e
        · rw [List.getElem?_append_left (by simp; omega), List.getElem?_replicate, if_pos (by omega),
            if_pos (by omega)]
          have z : cntLE B c = 0 := cntLE_eq_zero B c (fun y hy => by have := hB'.1 y hy; omega)
          rw [if_neg (show ¬ e ≤ c by omega), z]
          simp
        · rw [List.getElem?_append_right (by simp; omega)]
          simp only [List.length_replicate]
          by_cases hca : c < a
          · rw [List.getElem?_append_left (by simp; omega), List.getElem?_replicate, if_pos (by omega),
              if_pos (by omega)]
            have z : cntLE A c = 0 := cntLE_eq_zero A c (fun y hy => by have := hA'.1 y hy; omega)
            rw [if_pos (show e ≤ c by omega), if_neg (show ¬ a ≤ c by omega), z]
            simp
          · rw [List.getElem?_append_right (by simp; omega)]
            simp only [List.length_replicate]
            have h3 : c - lo - (e - lo) - (a - e) = c - a := by omega
            rw [h3, ih a B hlt.2 hA'.2 hB'.2 hBL' (by omega)]
            have p1 : e ≤ c := by omega
            have p2 : a ≤ c := by omega
            simp only [if_pos p1, if_pos p2]
            by_cases hcL : c < L
            · simp only [if_pos hcL]
              congr 1
              simp only [decide_eq_decide]
              omega
            · simp only [if_neg hcL]
      · simp only [if_neg hae]
        rw [ih lo B (allLt_same hlt hB) hA'.2 hB'.2 hBL' hc]
        by_cases hcL : c < L
        · simp only [if_pos hcL]
          congr 1
          simp only [decide_eq_decide]
          by_cases hec : e ≤ c
          · rw [if_pos hec, if_pos (by omega)]
            omega
          · have z : cntLE B c = 0 := cntLE_eq_zero B c (fun y hy => by have := hB'.1 y hy; omega)
            rw [if_neg hec, z]
            omega
        · simp only [if_neg hcL]

/-- the sweep over sorted starts and ends -/
theorem sweep_main (L : Nat) (hpos : 1 ≤ L) (S E : List Nat) (hS : S.Pairwise (· ≤ ·))
    (hE : E.Pairwise (· ≤ ·)) (hlt : AllLt S E) (hEL : ∀ e ∈ E, e ≤ L) :
    ∃ res, assemble L
        ((S.zip (maskOf S E)).filterMap (fun p => if p.2 then some p.1 else none))
        ((E.zip ((maskOf S E).drop 1)).filterMap (fun p => if p.2 then some p.1 else none)) = some res ∧
      res.Valid ∧ res.decode = (List.range L).map (fun c => decide (cntLE E c < cntLE S c)) := by
  cases S with
  | nil =>
    cases E with
    | cons => exact hlt.elim
    | nil =>
      have hv : (RLA.mk [0, L] [false]).Valid := by
        simp [Valid, validB, strictInc]; omega
      refine ⟨⟨[0, L], [false]⟩, ?_, hv, ?_⟩
      · rw [assemble_nil L hpos, mk?_of_valid hv]
      · rw [decode_cons]
        apply List.ext_getElem?
        intro c
        simp only [dec, List.append_nil, List.getElem?_replicate, List.getElem?_map]
        by_cases hc : c < L
        · simp [hc]
        · simp [hc]
  | cons s A =>
    have hl : E.length = A.length + 1 := by simpa using hlt.length_eq.symm
    have hA := (List.pairwise_cons.1 hS).2
    have hsA := (List.pairwise_cons.1 hS).1
    have hpw := sweep_pw L s A E hlt hE hEL
    have hlen := sweep_len L A E hl
    have hsL : s < L := by
      cases E with
      | nil => exact hlt.elim
      | cons e E => have := hlt.1; have := hEL e (by simp); omega
    rw [assemble_cons L s A E hl]
    by_cases hs : s = 0
    · subst hs
      simp only [if_true, List.nil_append]
      have hv : (RLA.mk (0 :: sweepEv L A E) (true :: sweepVs L A E)).Valid := by
        rw [valid_iff]
        exact ⟨rfl, by simp [hlen], hpw⟩
      refine ⟨_, mk?_of_valid hv, hv, ?_⟩
      rw [decode_cons]
      apply List.ext_getElem?
      intro c
      have := sweep_dec L 0 A E hlt hA hE hEL c (Nat.zero_le _)
      simp only [Nat.sub_zero] at this
      rw [this, List.getElem?_map]
      simp only [cntLE_cons]
      by_cases hc : c < L
      · simp only [if_pos hc, List.getElem?_range hc, Option.map_some]
        congr 1
        simp only [decide_eq_decide, Nat.zero_le, if_true]
        omega
      · simp [hc]
    · simp only [if_neg hs, List.cons_append, List.nil_append]
      have hv : (RLA.mk (0 :: s :: sweepEv L A E) (false :: true :: sweepVs L A E)).Valid := by
        rw [valid_iff]
        exact ⟨rfl, by simp [hlen], pairwise_lt_cons (by omega) hpw⟩
      refine ⟨_, mk?_of_valid hv, hv, ?_⟩
      rw [decode_cons]
      apply List.ext_getElem?
      intro c
      simp only [dec, Nat.sub_zero]
      rw [List.getElem?_map]
      simp only [cntLE_cons]
      by_cases hcs : c < s
      · rw [List.getElem?_append_left (by simpa using hcs), List.getElem?_replicate, if_pos hcs,
          List.getElem?_range (by omega)]
        have z : cntLE A c = 0 := cntLE_eq_zero A c (fun y hy => by have := hsA y hy; omega)
        simp only [Option.map_some]
        rw [if_neg (show ¬ s ≤ c by omega), z]
        simp
      · rw [List.getElem?_append_right (by simp; omega)]
        simp only [List.length_replicate]
        rw [sweep_dec L s A E hlt hA hE hEL c (by omega)]
        by_cases hc : c < L
        · simp only [if_pos hc, List.getElem?_range hc, Option.map_some]
          congr 1
          simp only [decide_eq_decide]
          rw [if_pos (by omega)]
          omega
        · simp [hc]

end Proofs.RL2ColAny
