import NpsVerif.Model.Index
import NpsVerif.Proofs.C01
import NpsVerif.Proofs.BuildIndices
import NpsVerif.Gen.Bridge.view2_ends
/-! Lemmas for property C02: gathering through flat indices and cutting the result into rows. -/
namespace Py

@[simp] theorem prog_length (s k : Int) (n : Nat) : (prog s k n).length = n := by
  induction n generalizing s with
  | zero => rfl
  | succ n ih => simp [prog, ih]

end Py

namespace Model
open Np

theorem getIdx_in_range {α} (data : List α) (i : Int) (h : 0 ≤ i ∧ i < data.length) :
    getIdx data i = data[i.toNat]? := by
  unfold getIdx normIdx
  simp [h.1, h.2]

/-- gathering through in-range non-negative indices never refuses -/
theorem gather_in_range {α} (data : List α) (idx : List Int)
    (h : ∀ i ∈ idx, 0 ≤ i ∧ i < data.length) :
    gather data idx = some (idx.filterMap (fun i => data[i.toNat]?)) := by
  induction idx with
  | nil => simp [gather]
  | cons i is ih =>
    have hi := h i (by simp)
    have ih' := ih (fun j hj => h j (by simp [hj]))
    have hlt : i.toNat < data.length := by omega
    unfold gather at ih' ⊢
    rw [List.mapM_cons, ih', getIdx_in_range data i hi]
    simp [List.getElem?_eq_getElem hlt]

theorem filterMap_in_range_length {α} (data : List α) (idx : List Int)
    (h : ∀ i ∈ idx, 0 ≤ i ∧ i < data.length) :
    (idx.filterMap (fun i => data[i.toNat]?)).length = idx.length := by
  induction idx with
  | nil => rfl
  | cons i is ih =>
    have hi := h i (by simp)
    have hlt : i.toNat < data.length := by omega
    simp [List.getElem?_eq_getElem hlt, ih (fun j hj => h j (by simp [hj]))]

/-- cutting the concatenation of rows at the rows' lengths gives the rows back -/
theorem cutRows_flatten {α} (rows : List (List α)) (lens : List Nat)
    (h : lens = rows.map List.length) : cutRows rows.flatten lens = rows := by
  subst h
  have := rows_of_scan ([] : List α) rows
  simpa [cutRows, exclScan] using this

/-- reading a unit-step progression is a contiguous slice -/
theorem filterMap_prog_one {α} (data : List α) (s l : Nat) (h : s + l ≤ data.length) :
    (Py.prog (s : Int) 1 l).filterMap (fun i => data[i.toNat]?) = (data.drop s).take l := by
  induction l generalizing s with
  | zero => simp [Py.prog]
  | succ l ih =>
    have hlt : s < data.length := by omega
    have e : ((s : Nat) : Int) + 1 = ((s + 1 : Nat) : Int) := by simp
    simp only [Py.prog, List.filterMap_cons, Int.toNat_natCast, List.getElem?_eq_getElem hlt]
    rw [e, ih (s + 1) (by omega), List.drop_eq_getElem_cons hlt, List.take_succ_cons]

theorem mem_prog_one (s l : Nat) (i : Int) (hi : i ∈ Py.prog (s : Int) 1 l) :
    0 ≤ i ∧ i < ((s + l : Nat) : Int) := by
  induction l generalizing s with
  | zero => simp [Py.prog] at hi
  | succ l ih =>
    simp only [Py.prog, List.mem_cons] at hi
    rcases hi with rfl | hi
    · omega
    · have e : ((s : Nat) : Int) + 1 = ((s + 1 : Nat) : Int) := by simp
      rw [e] at hi
      have := ih (s + 1) hi
      omega

/-- flat indices of a row selection -/
theorem viewFlatIndices_eq (codes : List (Nat × Nat)) :
    viewFlatIndices codes = (codes.map (fun c => Py.prog (c.1 : Int) 1 c.2)).flatten := by
  unfold viewFlatIndices
  have : codes.map (fun c => ((c.1 : Int), ((c.1 + c.2 : Nat) : Int), c.2))
      = (codes.map (fun c => ((c.1 : Int), c.2))).map (vrow 1) := by
    rw [List.map_map]
    apply List.map_congr_left
    intro c _
    simp only [Function.comp, vrow, rowEnd]
    congr 2
    simp only [Int.natCast_add]
    omega
  rw [this, buildIndices_vrow]
  simp [List.map_map, Function.comp_def]

/-- flat indices of a (start, length, step) view with uniform step and non-negative lengths -/
theorem view2FlatIndices_eq (rows : List Row3) (k : Int)
    (hk : ∀ r ∈ rows, r.2.2 = k) (hl : ∀ r ∈ rows, 0 ≤ r.2.1) :
    view2FlatIndices rows = (rows.map (fun r => Py.prog r.1 r.2.2 r.2.1.toNat)).flatten := by
  cases rows with
  | nil => simp [view2FlatIndices, buildIndices]
  | cons r0 rs =>
    unfold view2FlatIndices
    have hstep : (((r0 :: rs).head?.map (·.2.2)).getD 1) = k := by
      simp [hk r0 (by simp)]
    simp only [hstep]
    have : (r0 :: rs).map (fun r => (r.1, Gen.Cur.view2_ends r.2.1 r.1 r.2.2, r.2.1.toNat))
        = ((r0 :: rs).map (fun r => (r.1, r.2.1.toNat))).map (vrow k) := by
      rw [List.map_map]
      apply List.map_congr_left
      intro r hr
      have h1 := hk r hr
      have h2 := hl r hr
      simp only [Function.comp, vrow, rowEnd, Gen.Bridge.view2_ends_bridge, Gen.Ref.view2_ends]
      rw [h1, Int.toNat_of_nonneg h2]
    rw [this, buildIndices_vrow, List.map_map]
    congr 1
    apply List.map_congr_left
    intro r hr
    simp [Function.comp, hk r hr]

end Model
