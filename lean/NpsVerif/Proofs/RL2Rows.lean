import NpsVerif.Model.RunLength2d
import NpsVerif.Proofs.RLCodec
import NpsVerif.Proofs.RLArithBinop
import NpsVerif.Proofs.GetItemSel
/-!
# 2-D run-length arrays: the rows of `fromRagged` / `fromMatrix`, `toRows` as a `mapM` over rows
(shared by the C17 proofs of `ravel`, `concat`, `col_counts`, `col_sum`)
-/
open Model Model.RLA Model.RL2 Np

namespace Proofs.RL2B
variable {α β γ : Type}

theorem zipWith_map_self (f : α → β → γ) (g : α → β) (l : List α) :
    List.zipWith f l (l.map g) = l.map (fun a => f a (g a)) := by
  induction l with
  | nil => rfl
  | cons a t ih => simp only [List.map_cons, List.zipWith_cons_cons, ih]

theorem flatnonzeroFrom_append_true (k : Nat) (m : List Bool) :
    flatnonzeroFrom k (m ++ [true]) = flatnonzeroFrom k m ++ [k + m.length] := by
  induction m generalizing k with
  | nil => simp [flatnonzeroFrom]
  | cons b bs ih =>
    cases b
    · simp only [List.cons_append, flatnonzeroFrom, Bool.false_eq_true, if_false, ih, List.length_cons]
      congr 2; omega
    · simp only [List.cons_append, flatnonzeroFrom, if_true, ih, List.length_cons, List.cons_append]
      congr 3; omega

/-! ## the fields of `fromRagged` -/

theorem fromRagged_indices (ne : α → α → Bool) (rows : List (List α)) :
    (fromRagged ne rows).indices = rows.map (fun a => changeStarts ne a ++ [a.length]) := by
  unfold fromRagged
  simp only [zipWith_map_self]

theorem fromRagged_values (ne : α → α → Bool) (rows : List (List α)) :
    (fromRagged ne rows).values = rows.map (fun a => (changeStarts ne a).filterMap (a[·]?)) := by
  unfold fromRagged
  simp only [zipWith_map_self]

theorem fromRagged_rowLen (ne : α → α → Bool) (rows : List (List α)) :
    (fromRagged ne rows).rowLen = none := rfl

/-- the row lengths can be read off the last boundaries -/
theorem fromRagged_lens (ne : α → α → Bool) (rows : List (List α)) :
    (fromRagged ne rows).indices.map (fun ix => ix.getLast?.getD 0) = rows.map List.length := by
  rw [fromRagged_indices, List.map_map]
  apply List.map_congr_left
  intro a _
  simp

/-! ## one row = the 1-D encoder -/

theorem fromArray_events (ne : α → α → Bool) (a : List α) (ha : a ≠ []) :
    (fromArray ne a).events = changeStarts ne a ++ [a.length] := by
  cases a with
  | nil => exact absurd rfl ha
  | cons x xs =>
    unfold fromArray changeStarts flatnonzero
    simp only []
    rw [show (true :: List.zipWith ne (x :: xs) ((x :: xs).drop 1) ++ [true])
        = (true :: List.zipWith ne (x :: xs) ((x :: xs).drop 1)) ++ [true] from rfl,
      flatnonzeroFrom_append_true]
    congr 2
    simp only [List.drop_succ_cons, List.drop_zero, List.length_cons, List.length_zipWith]
    omega

theorem fromArray_values (ne : α → α → Bool) (a : List α) (ha : a ≠ []) :
    (fromArray ne a).values = (changeStarts ne a).filterMap (a[·]?) := by
  have h := fromArray_events ne a ha
  unfold fromArray at h ⊢
  simp only [] at h ⊢
  rw [h, List.dropLast_concat]

theorem fromRagged_eq_rows (ne : α → α → Bool) (rows : List (List α)) (hpos : ∀ r ∈ rows, r ≠ []) :
    (fromRagged ne rows).indices = (rows.map (fromArray ne)).map (·.events) ∧
    (fromRagged ne rows).values = (rows.map (fromArray ne)).map (·.values) := by
  rw [fromRagged_indices, fromRagged_values, List.map_map, List.map_map]
  constructor
  · apply List.map_congr_left
    intro a ha
    exact (fromArray_events ne a (hpos a ha)).symm
  · apply List.map_congr_left
    intro a ha
    exact (fromArray_values ne a (hpos a ha)).symm

/-! ## facts about the change positions of a non-empty row -/

theorem changeStarts_facts (ne : α → α → Bool) (a : List α) (ha : a ≠ []) :
    (changeStarts ne a ++ [a.length]).Pairwise (· < ·) ∧
    (changeStarts ne a).head? = some 0 ∧ (∀ s ∈ changeStarts ne a, s < a.length) := by
  have hv := (Model.RLA.valid_iff _).1 (Proofs.RL.fromArray_valid ne a)
  rw [fromArray_events ne a ha] at hv
  obtain ⟨h0, _, hs⟩ := hv
  have hlt : ∀ s ∈ changeStarts ne a, s < a.length := by
    intro s hs'
    exact (List.pairwise_append.1 hs).2.2 s hs' a.length (by simp)
  refine ⟨hs, ?_, hlt⟩
  cases hc : changeStarts ne a with
  | nil =>
    rw [hc] at h0
    simp only [List.nil_append, List.head?_cons, Option.some.injEq] at h0
    cases a with
    | nil => exact absurd rfl ha
    | cons x xs => simp at h0
  | cons c cs =>
    rw [hc] at h0
    simpa using h0

/-- off the change positions, neighbouring cells are not told apart -/
theorem changeStarts_not_mem (ne : α → α → Bool) (a : List α) (p : Nat) (hp0 : 0 < p)
    (hp : p < a.length) (hn : p ∉ changeStarts ne a) :
    ∃ u v, a[p - 1]? = some u ∧ a[p]? = some v ∧ ne u v = false := by
  cases a with
  | nil => simp at hp
  | cons x xs =>
    refine ⟨(x :: xs)[p - 1]'(by omega), (x :: xs)[p]'hp, List.getElem?_eq_getElem _,
      List.getElem?_eq_getElem _, ?_⟩
    cases hne : ne ((x :: xs)[p - 1]'(by omega)) ((x :: xs)[p]'hp) with
    | false => rfl
    | true =>
      exfalso
      apply hn
      unfold changeStarts flatnonzero
      rw [Proofs.RL.mem_flatnonzeroFrom]
      refine ⟨Nat.zero_le _, ?_⟩
      obtain ⟨q, rfl⟩ : ∃ q, p = q + 1 := ⟨p - 1, by omega⟩
      simp only [List.length_cons] at hp
      simp only [Nat.sub_zero, List.getElem?_cons_succ, List.drop_succ_cons, List.drop_zero,
        List.getElem?_zipWith]
      have h1 : (x :: xs)[q]? = some ((x :: xs)[q]'(by simp; omega)) := List.getElem?_eq_getElem _
      have h2 : xs[q]? = some (xs[q]'(by omega)) := List.getElem?_eq_getElem _
      rw [h1, h2]
      simpa using hne

/-! ## `mapM` over `Option` -/

theorem mapM_append' (f : α → Option β) (l1 l2 : List α) :
    (l1 ++ l2).mapM f = (l1.mapM f).bind (fun a => (l2.mapM f).map (a ++ ·)) := by
  induction l1 with
  | nil =>
    simp only [List.nil_append, Model.mapM_nil', Option.bind_some]
    cases l2.mapM f <;> simp
  | cons x xs ih =>
    rw [List.cons_append, Model.mapM_cons', Model.mapM_cons', ih]
    cases f x with
    | none => simp
    | some y =>
      cases xs.mapM f with
      | none => simp
      | some ys =>
        cases l2.mapM f <;> simp

theorem mapM_range'_getElem (f : α → Option β) (l pre : List α) (k : Nat) (hk : pre.length = k) :
    (List.range' k l.length).mapM (fun i => ((pre ++ l)[i]?).bind f) = l.mapM f := by
  induction l generalizing pre k with
  | nil => simp
  | cons x xs ih =>
    rw [List.length_cons, List.range'_succ, Model.mapM_cons', Model.mapM_cons']
    have h1 : (pre ++ x :: xs)[k]? = some x := by
      rw [← hk, List.getElem?_append_right (Nat.le_refl _)]; simp
    rw [h1, Option.bind_some]
    have := ih (pre ++ [x]) (k + 1) (by simp [hk])
    rw [List.append_assoc] at this
    simp only [List.singleton_append] at this
    rw [this]

theorem mapM_range_getElem (f : α → Option β) (l : List α) :
    (List.range l.length).mapM (fun i => (l[i]?).bind f) = l.mapM f := by
  rw [List.range_eq_range']
  exact mapM_range'_getElem f l [] 0 rfl

/-- `toRows` as a `mapM` over the (boundaries, values) pairs -/
theorem toRows_eq_zip (r : RL2 α) (hl : r.indices.length = r.values.length) :
    r.toRows = (r.indices.zip r.values).mapM (fun p => (RLA.mk? (r.rowEvents p.1) p.2).map RLA.decode) := by
  unfold RL2.toRows
  rw [← mapM_range_getElem (fun p => (RLA.mk? (r.rowEvents p.1) p.2).map RLA.decode)
    (r.indices.zip r.values), List.length_zip, ← hl, Nat.min_self]
  apply Model.mapM_congr
  intro i hi
  have hi' : i < r.indices.length := by simpa using hi
  have h1 : r.indices[i]? = some r.indices[i] := List.getElem?_eq_getElem hi'
  have h2 : r.values[i]? = some (r.values[i]'(by omega)) := List.getElem?_eq_getElem _
  have h3 : (r.indices.zip r.values)[i]? = some (r.indices[i], r.values[i]'(by omega)) := by
    rw [List.getElem?_zip_eq_some]; exact ⟨h1, h2⟩
  unfold RL2.row
  rw [h1, h2, h3]
  rfl

end Proofs.RL2B
