import NpsVerif.Proofs.RLBasic
/-!
# Run-length arrays: the encoder `fromArray` and the XOR decoder `toArray`
-/
open Model Model.RLA Np

namespace Proofs.RL
variable {α : Type}

/-! ## Encoder: structural form of `fromArray` -/

/-- boundaries after position `k` for the segment `x :: xs` that starts at position `k` -/
def encEv (ne : α → α → Bool) (k : Nat) : α → List α → List Nat
  | _, [] => [k + 1]
  | x, y :: ys => if ne x y then (k + 1) :: encEv ne (k + 1) y ys else encEv ne (k + 1) y ys

/-- run values after the first run of the segment `x :: xs` -/
def encVs (ne : α → α → Bool) : α → List α → List α
  | _, [] => []
  | x, y :: ys => if ne x y then y :: encVs ne y ys else encVs ne y ys

theorem flatnonzeroFrom_mask (ne : α → α → Bool) (k : Nat) (x : α) (xs : List α) :
    flatnonzeroFrom (k + 1) (List.zipWith ne (x :: xs) xs ++ [true]) = encEv ne k x xs := by
  induction xs generalizing k x with
  | nil => simp [flatnonzeroFrom, encEv]
  | cons y ys ih =>
    simp only [List.zipWith_cons_cons, List.cons_append, flatnonzeroFrom, encEv]
    rw [ih (k + 1) y]

theorem encEv_ne_nil (ne : α → α → Bool) (k : Nat) (x : α) (xs : List α) : encEv ne k x xs ≠ [] := by
  induction xs generalizing k x with
  | nil => simp [encEv]
  | cons y ys ih =>
    simp only [encEv]
    split
    · simp
    · exact ih _ _

theorem encEv_gt (ne : α → α → Bool) (k : Nat) (x : α) (xs : List α) :
    ∀ p ∈ encEv ne k x xs, k < p := by
  induction xs generalizing k x with
  | nil => simp [encEv]
  | cons y ys ih =>
    intro p hp
    simp only [encEv] at hp
    split at hp
    · rcases List.mem_cons.mp hp with rfl | hp
      · omega
      · have := ih _ _ p hp; omega
    · have := ih _ _ p hp; omega

/-- the boundaries after `k` start with some `e1 > k` -/
theorem encEv_shape (ne : α → α → Bool) (k : Nat) (x : α) (xs : List α) :
    ∃ e1 es, encEv ne k x xs = e1 :: es ∧ k < e1 := by
  cases h : encEv ne k x xs with
  | nil => exact absurd h (encEv_ne_nil ne k x xs)
  | cons e1 es => exact ⟨e1, es, rfl, encEv_gt ne k x xs e1 (by simp [h])⟩

theorem encEv_getLast? (ne : α → α → Bool) (k : Nat) (x : α) (xs : List α) :
    (encEv ne k x xs).getLast? = some (k + 1 + xs.length) := by
  induction xs generalizing k x with
  | nil => simp [encEv]
  | cons y ys ih =>
    simp only [encEv]
    split
    · rw [List.getLast?_cons, ih]; simp; omega
    · rw [ih]; simp; omega

theorem encVs_eq (ne : α → α → Bool) (k : Nat) (x : α) (xs pre : List α) (hp : pre.length = k) :
    (encEv ne k x xs).dropLast.filterMap ((pre ++ x :: xs)[·]?) = encVs ne x xs := by
  induction xs generalizing k x pre with
  | nil => simp [encEv, encVs]
  | cons y ys ih =>
    have e : pre ++ x :: y :: ys = (pre ++ [x]) ++ y :: ys := by simp
    have hl : (pre ++ [x]).length = k + 1 := by simp [hp]
    simp only [encEv, encVs]
    split
    · rw [List.dropLast_cons_of_ne_nil (encEv_ne_nil _ _ _ _), List.filterMap_cons]
      have hy : (pre ++ x :: y :: ys)[k + 1]? = some y := by
        rw [e, ← hl, List.getElem?_append_right (Nat.le_refl _)]; simp
      simp only [hy]
      rw [e, ih (k + 1) y (pre ++ [x]) hl]
    · rw [e, ih (k + 1) y (pre ++ [x]) hl]

theorem fromArray_nil (ne : α → α → Bool) : fromArray ne [] = ⟨[0], []⟩ := by
  simp [fromArray, flatnonzero, flatnonzeroFrom]

/-- `fromArray` in structural form -/
theorem fromArray_cons (ne : α → α → Bool) (x : α) (xs : List α) :
    fromArray ne (x :: xs) = ⟨0 :: encEv ne 0 x xs, x :: encVs ne x xs⟩ := by
  have hm : flatnonzero (true :: List.zipWith ne (x :: xs) ((x :: xs).drop 1) ++ [true])
      = 0 :: encEv ne 0 x xs := by
    simp only [List.cons_append, flatnonzero, flatnonzeroFrom, List.drop_succ_cons, List.drop_zero,
      if_true]
    rw [flatnonzeroFrom_mask]
  unfold fromArray
  simp only [hm]
  rw [List.dropLast_cons_of_ne_nil (encEv_ne_nil _ _ _ _), List.filterMap_cons]
  simp only [List.getElem?_cons_zero]
  have := encVs_eq ne 0 x xs [] rfl
  simp only [List.nil_append] at this
  rw [this]

theorem enc_length (ne : α → α → Bool) (k : Nat) (x : α) (xs : List α) :
    (encEv ne k x xs).length = (encVs ne x xs).length + 1 := by
  induction xs generalizing k x with
  | nil => simp [encEv, encVs]
  | cons y ys ih =>
    simp only [encEv, encVs]
    split
    · simp [ih]
    · exact ih _ _

theorem enc_strictInc (ne : α → α → Bool) (k : Nat) (x : α) (xs : List α) :
    strictInc (k :: encEv ne k x xs) = true := by
  induction xs generalizing k x with
  | nil => simp [encEv, strictInc]
  | cons y ys ih =>
    simp only [encEv]
    split
    · rw [strictInc_cons_cons]; exact ⟨by omega, ih _ _⟩
    · exact strictInc_head_le k (k + 1) _ (by omega) (ih _ _)

/-- what `decode ∘ fromArray` computes for an arbitrary `ne`: every cell is replaced by the first
cell `h` of its maximal chain of `ne`-false neighbours (`x` is the cell just before `xs`) -/
def fill (ne : α → α → Bool) (h : α) : α → List α → List α
  | _, [] => [h]
  | x, y :: ys => h :: (if ne x y then fill ne y y ys else fill ne h y ys)

/-- `decode (fromArray ne a)` for an arbitrary `ne` -/
def smear (ne : α → α → Bool) : List α → List α
  | [] => []
  | x :: xs => fill ne x x xs

theorem enc_decode_fill (ne : α → α → Bool) (k : Nat) (h x : α) (xs : List α) :
    (RLA.mk (k :: encEv ne k x xs) (h :: encVs ne x xs)).decode = fill ne h x xs := by
  induction xs generalizing k h x with
  | nil => simp [encEv, encVs, fill, decode_cons_cons]
  | cons y ys ih =>
    simp only [encEv, encVs, fill]
    split
    · rw [decode_cons_cons, ih]; simp
    · obtain ⟨e1, es, he, hlt⟩ := encEv_shape ne (k + 1) y ys
      rw [← ih (k + 1) h y, he, decode_head_shift k e1 es h _ (by omega)]

theorem fill_eq_self (ne : α → α → Bool) (x : α) (xs : List α)
    (hadj : AdjAll (fun u v => ne u v = false → u = v) (x :: xs)) : fill ne x x xs = x :: xs := by
  induction xs generalizing x with
  | nil => simp [fill]
  | cons y ys ih =>
    rw [adjAll_cons_cons] at hadj
    simp only [fill]
    split
    · rw [ih y hadj.2]
    · rename_i hne
      have hxy : x = y := hadj.1 (by simpa using hne)
      subst hxy
      rw [ih x hadj.2]

theorem smear_eq_self (ne : α → α → Bool) (a : List α)
    (hadj : AdjAll (fun u v => ne u v = false → u = v) a) : smear ne a = a := by
  cases a with
  | nil => rfl
  | cons x xs => exact fill_eq_self ne x xs hadj

/-- `decode ∘ fromArray`, no hypothesis on `ne` -/
theorem decode_fromArray (ne : α → α → Bool) (a : List α) : (fromArray ne a).decode = smear ne a := by
  cases a with
  | nil => simp [fromArray_nil, smear]
  | cons x xs => rw [fromArray_cons, enc_decode_fill]; rfl

/-- pointwise reading of `fill`: cell `i` holds either the carried head `h` (no `ne`-true
neighbour pair up to `i`) or the cell right after the last `ne`-true neighbour pair before `i` -/
theorem fill_getElem? (ne : α → α → Bool) (h x : α) (xs : List α) (i : Nat) (hi : i ≤ xs.length) :
    ((fill ne h x xs)[i]? = some h ∧
        ∀ j u v, j < i → (x :: xs)[j]? = some u → (x :: xs)[j + 1]? = some v → ne u v = false) ∨
    (∃ s u v, s < i ∧ (fill ne h x xs)[i]? = some v ∧ (x :: xs)[s]? = some u ∧
        (x :: xs)[s + 1]? = some v ∧ ne u v = true ∧
        ∀ j u v, s + 1 ≤ j → j < i → (x :: xs)[j]? = some u → (x :: xs)[j + 1]? = some v →
          ne u v = false) := by
  induction xs generalizing h x i with
  | nil =>
    have : i = 0 := by simpa using hi
    subst this
    left; simp [fill]
  | cons y ys ih =>
    cases i with
    | zero => left; simp [fill]
    | succ i =>
      have hi' : i ≤ ys.length := by simpa using hi
      simp only [fill, List.getElem?_cons_succ]
      by_cases hb : ne x y = true
      · simp only [hb, if_true]
        right
        rcases ih y y i hi' with ⟨hv, hc⟩ | ⟨s, u, v, hs, hv, hu, hv', hn, hc⟩
        · refine ⟨0, x, y, by omega, hv, by simp, by simp, hb, ?_⟩
          intro j u v h1 h2 hu hv
          obtain ⟨j', rfl⟩ : ∃ j', j = j' + 1 := ⟨j - 1, by omega⟩
          rw [List.getElem?_cons_succ] at hu hv
          exact hc j' u v (by omega) hu hv
        · refine ⟨s + 1, u, v, by omega, hv, by simpa using hu, by simpa using hv', hn, ?_⟩
          intro j u v h1 h2 hu hv
          obtain ⟨j', rfl⟩ : ∃ j', j = j' + 1 := ⟨j - 1, by omega⟩
          rw [List.getElem?_cons_succ] at hu hv
          exact hc j' u v (by omega) (by omega) hu hv
      · have hb' : ne x y = false := by simpa using hb
        simp only [hb', Bool.false_eq_true, if_false]
        rcases ih h y i hi' with ⟨hv, hc⟩ | ⟨s, u, v, hs, hv, hu, hv', hn, hc⟩
        · left
          refine ⟨hv, ?_⟩
          intro j u v h1 hu hv
          cases j with
          | zero =>
            simp only [List.getElem?_cons_zero, Option.some.injEq] at hu
            simp only [List.getElem?_cons_zero, Option.some.injEq] at hv
            subst hu; subst hv; exact hb'
          | succ j' =>
            rw [List.getElem?_cons_succ] at hu hv
            exact hc j' u v (by omega) hu hv
        · right
          refine ⟨s + 1, u, v, by omega, hv, by simpa using hu, by simpa using hv', hn, ?_⟩
          intro j u v h1 h2 hu hv
          obtain ⟨j', rfl⟩ : ∃ j', j = j' + 1 := ⟨j - 1, by omega⟩
          rw [List.getElem?_cons_succ] at hu hv
          exact hc j' u v (by omega) (by omega) hu hv

/-- pointwise reading of `smear`: cell `i` holds `a[s]` where `s ≤ i` is the start of the maximal
chain of `ne`-false neighbour pairs that ends at `i` -/
theorem smear_getElem? (ne : α → α → Bool) (a : List α) (i : Nat) (hi : i < a.length) :
    ∃ s, s ≤ i ∧ (smear ne a)[i]? = a[s]? ∧
      (∀ j u v, s ≤ j → j < i → a[j]? = some u → a[j + 1]? = some v → ne u v = false) ∧
      (s = 0 ∨ ∃ u v, a[s - 1]? = some u ∧ a[s]? = some v ∧ ne u v = true) := by
  cases a with
  | nil => simp at hi
  | cons x xs =>
    rcases fill_getElem? ne x x xs i (by simpa [Nat.lt_succ_iff] using hi) with
      ⟨hv, hc⟩ | ⟨s, u, v, hs, hv, hu, hv', hn, hc⟩
    · exact ⟨0, by omega, by simpa [smear] using hv, fun j u v _ h2 => hc j u v h2, Or.inl rfl⟩
    · refine ⟨s + 1, by omega, ?_, hc, Or.inr ⟨u, v, by simpa using hu, hv', hn⟩⟩
      rw [hv']; exact hv

theorem fromArray_valid (ne : α → α → Bool) (a : List α) : (fromArray ne a).Valid := by
  cases a with
  | nil => rw [fromArray_nil]; simp [Valid, validB]
  | cons x xs =>
    rw [fromArray_cons]
    exact valid_mk _ _ (by rw [enc_length]; simp) (enc_strictInc ne 0 x xs)

theorem fromArray_len (ne : α → α → Bool) (a : List α) : (fromArray ne a).len = a.length := by
  cases a with
  | nil => simp [fromArray_nil, len]
  | cons x xs => rw [fromArray_cons, len_cons, encEv_getLast?]; simp; omega

/-- adjacent run values of the encoding are never `eq`-equal -/
theorem enc_canonical (ne eq : α → α → Bool) (hne : ∀ x y, ne x y = !eq x y)
    (heq : ∀ x y, eq x y = true → x = y) (x : α) (xs : List α) :
    AdjAll (fun u v => eq u v = false) (x :: encVs ne x xs) := by
  induction xs generalizing x with
  | nil => simp [encVs]
  | cons y ys ih =>
    simp only [encVs]
    split
    · rename_i h
      rw [adjAll_cons_cons]
      refine ⟨?_, ih y⟩
      rw [hne] at h; simpa using h
    · rename_i h
      rw [hne] at h
      have hxy : x = y := heq x y (by simpa using h)
      subst hxy
      exact ih x

/-! ## Decoder: `toArray` = XOR scatter + prefix XOR -/

section Xor
variable [XorLike α]

/-- the scatter writes `(e_{i+1}, v_i ^ v_{i+1})` -/
def xorWrites (v : α) : List Nat → List α → List (Nat × α)
  | e1 :: es, v1 :: vs => (e1, XorLike.xor v v1) :: xorWrites v1 es vs
  | _, _ => []

/-- the scattered array after position `e` (current run value `v`) -/
def xorBody (v : α) (e : Nat) : List Nat → List α → List α
  | e1 :: es, v1 :: vs =>
      List.replicate (e1 - e - 1) XorLike.zero ++ XorLike.xor v v1 :: xorBody v1 e1 es vs
  | e1 :: _, [] => List.replicate (e1 - e - 1) XorLike.zero
  | [], _ => []

theorem xor_cancel (v w : α) : XorLike.xor v (XorLike.xor v w) = w := by
  rw [← XorLike.xor_assoc, XorLike.xor_self, XorLike.zero_xor]

theorem xorWrites_eq (v : α) (es : List Nat) (vs : List α) (hl : es.length = vs.length + 1) :
    es.dropLast.zip (List.zipWith XorLike.xor (v :: vs).dropLast vs) = xorWrites v es vs := by
  induction vs generalizing v es with
  | nil =>
    match es, hl with
    | [e1], _ => simp [xorWrites]
  | cons v1 vs ih =>
    match es, hl with
    | e1 :: e2 :: es, hl =>
      simp only [List.dropLast_cons_cons, List.zipWith_cons_cons, List.zip_cons_cons, xorWrites]
      rw [← ih v1 (e2 :: es) (by simpa using hl)]

theorem pairwise_le_getLast (e0 : Nat) (es : List Nat) (hm : (e0 :: es).Pairwise (· ≤ ·)) :
    e0 ≤ es.getLast?.getD e0 := by
  induction es generalizing e0 with
  | nil => simp
  | cons e1 es ih =>
    rw [List.getLast?_cons]
    have h01 : e0 ≤ e1 := (List.pairwise_cons.mp hm).1 e1 (by simp)
    have := ih e1 (List.pairwise_cons.mp hm).2
    simp only [Option.getD_some]; omega

theorem scatter_xorBody (v : α) (e : Nat) (es : List Nat) (vs pre : List α)
    (hl : es.length = vs.length + 1) (hs : strictInc (e :: es) = true) (hp : pre.length = e + 1) :
    scatterSet (pre ++ List.replicate (es.getLast?.getD 0 - e - 1) XorLike.zero) (xorWrites v es vs)
      = pre ++ xorBody v e es vs := by
  induction vs generalizing v e es pre with
  | nil =>
    match es, hl with
    | [e1], _ => simp [xorWrites, xorBody, scatterSet]
  | cons v1 vs ih =>
    match es, hl, hs with
    | e1 :: e2 :: es, hl, hs =>
      rw [strictInc_cons_cons] at hs
      obtain ⟨h01, hs1⟩ := hs
      have hs1' := hs1
      rw [strictInc_cons_cons] at hs1'
      have h2L := pairwise_le_getLast e2 es (strictInc_pairwise_le _ hs1'.2)
      have hL : (e1 :: e2 :: es).getLast?.getD 0 = es.getLast?.getD e2 := by
        simp [List.getLast?_cons]
      have hL' : (e2 :: es).getLast?.getD 0 = es.getLast?.getD e2 := by
        simp [List.getLast?_cons]
      simp only [xorWrites, scatterSet, xorBody]
      rw [hL]
      have hsplit : es.getLast?.getD e2 - e - 1 = (e1 - e - 1) + ((es.getLast?.getD e2 - e1 - 1) + 1) := by
        omega
      have e1' : (pre ++ List.replicate (es.getLast?.getD e2 - e - 1) (XorLike.zero : α)).set e1
            (XorLike.xor v v1)
          = (pre ++ List.replicate (e1 - e - 1) XorLike.zero ++ [XorLike.xor v v1])
              ++ List.replicate (es.getLast?.getD e2 - e1 - 1) XorLike.zero := by
        have hlen : e1 = (pre ++ List.replicate (e1 - e - 1) (XorLike.zero : α)).length := by
          simp [hp]; omega
        rw [hsplit, ← List.replicate_append_replicate, List.replicate_succ, ← List.append_assoc]
        conv => lhs; arg 2; rw [hlen]
        rw [List.set_append_right _ _ (Nat.le_refl _)]
        simp
      rw [e1']
      have := ih v1 e1 (e2 :: es) (pre ++ List.replicate (e1 - e - 1) XorLike.zero ++ [XorLike.xor v v1])
        (by simpa using hl) hs1 (by simp [hp]; omega)
      rw [hL'] at this
      rw [this]
      simp

theorem xorAccumulateFrom_replicate_zero (v : α) (m : Nat) (l : List α) :
    xorAccumulateFrom v (List.replicate m XorLike.zero ++ l)
      = List.replicate m v ++ xorAccumulateFrom v l := by
  induction m with
  | zero => simp
  | succ m ih =>
    simp only [List.replicate_succ, List.cons_append, xorAccumulateFrom, XorLike.xor_zero]
    rw [ih]

theorem xorAcc_xorBody (v : α) (e e1 : Nat) (es : List Nat) (vs : List α)
    (hl : es.length = vs.length) (hs : strictInc (e :: e1 :: es) = true) :
    xorAccumulateFrom v (xorBody v e (e1 :: es) vs)
      = List.replicate (e1 - e - 1) v ++ (RLA.mk (e1 :: es) vs).decode := by
  induction vs generalizing v e e1 es with
  | nil =>
    have := xorAccumulateFrom_replicate_zero v (e1 - e - 1) []
    simp only [List.append_nil] at this
    simp [xorBody, this, xorAccumulateFrom]
  | cons v1 vs ih =>
    match es, hl with
    | e2 :: es, hl =>
      rw [strictInc_cons_cons] at hs
      have hs1 := hs.2
      have h12 : e1 < e2 := ((strictInc_cons_cons _ _ _).mp hs1).1
      simp only [xorBody]
      rw [xorAccumulateFrom_replicate_zero]
      simp only [xorAccumulateFrom, xor_cancel]
      rw [ih v1 e1 e2 es (by simpa using hl) hs1, decode_cons_cons]
      have : e2 - e1 = (e2 - e1 - 1) + 1 := by omega
      conv => rhs; rw [this, List.replicate_succ]
      simp

/-- C14: the XOR decoder computes `decode` -/
theorem toArray_eq_decode (r : RLA α) (h : r.Valid) : r.toArray = r.decode := by
  obtain ⟨es, hev, hl, hs⟩ := valid_shape r h
  obtain ⟨ev, vs⟩ := r
  simp only at hev hl
  subst hev
  match es, vs, hl, hs with
  | [], [], _, _ => simp [toArray, len]
  | e1 :: es, v0 :: vs, hl, hs =>
    have hl' : es.length = vs.length := by simpa using hl
    have h01 : 0 < e1 := ((strictInc_cons_cons _ _ _).mp hs).1
    have hs1 := ((strictInc_cons_cons _ _ _).mp hs).2
    have h1L := pairwise_le_getLast e1 es (strictInc_pairwise_le _ hs1)
    have hlen : (RLA.mk (0 :: e1 :: es) (v0 :: vs)).len = es.getLast?.getD e1 := by
      simp [len, List.getLast?_cons]
    have hL : (e1 :: es).getLast?.getD 0 = es.getLast?.getD e1 := by simp [List.getLast?_cons]
    unfold toArray
    rw [if_neg (by rw [hlen]; omega), hlen]
    simp only [List.dropLast_cons_cons, List.drop_succ_cons, List.drop_zero, List.head?_cons]
    rw [xorWrites_eq v0 (e1 :: es) vs (by simp [hl'])]
    have hrep : List.replicate (es.getLast?.getD e1) (XorLike.zero : α)
        = [XorLike.zero] ++ List.replicate ((e1 :: es).getLast?.getD 0 - 0 - 1) XorLike.zero := by
      rw [hL]
      have : es.getLast?.getD e1 = (es.getLast?.getD e1 - 0 - 1) + 1 := by omega
      conv => lhs; rw [this, List.replicate_succ]
      simp
    rw [hrep, scatter_xorBody v0 0 (e1 :: es) vs [XorLike.zero] (by simp [hl']) hs rfl]
    simp only [List.cons_append, List.nil_append, List.set_cons_zero, xorAccumulate,
      xorAccumulateFrom, XorLike.zero_xor]
    rw [xorAcc_xorBody v0 0 e1 es vs hl' hs, decode_cons_cons]
    have : e1 - 0 = (e1 - 0 - 1) + 1 := by omega
    conv => rhs; rw [this, List.replicate_succ]
    simp

end Xor

end Proofs.RL
