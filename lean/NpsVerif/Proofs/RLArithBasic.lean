import NpsVerif.Model.RunLength
/-! Basic structural lemmas on run-length decoding (used by C16). -/
namespace Model.RLA
variable {α β γ : Type}

/-- structural form of `decode` -/
def dec : List Nat → List α → List α
  | a :: b :: rest, v :: vs => List.replicate (b - a) v ++ dec (b :: rest) vs
  | _, _ => []

theorem decode_eq_dec (ev : List Nat) (vs : List α) : (RLA.mk ev vs).decode = dec ev vs := by
  unfold decode runLens
  induction ev generalizing vs with
  | nil => simp [dec]
  | cons a t ih =>
    cases t with
    | nil => simp [dec]
    | cons b rest =>
      cases vs with
      | nil => simp [dec]
      | cons v vs =>
        have := ih vs
        simp only [List.drop_succ_cons, List.drop_zero] at this ⊢
        simp only [List.zipWith_cons_cons, List.flatten_cons, dec]
        rw [this]

theorem strictInc_iff (l : List Nat) : strictInc l = true ↔ l.Pairwise (· < ·) := by
  induction l with
  | nil => simp [strictInc]
  | cons a t ih =>
    cases t with
    | nil => simp [strictInc]
    | cons b rest =>
      simp only [strictInc, Bool.and_eq_true, decide_eq_true_eq, ih]
      constructor
      · rintro ⟨hab, hp⟩
        refine List.pairwise_cons.2 ⟨?_, hp⟩
        intro c hc
        rcases List.mem_cons.1 hc with rfl | hc
        · exact hab
        · exact Nat.lt_trans hab ((List.pairwise_cons.1 hp).1 c hc)
      · intro hp
        have := List.pairwise_cons.1 hp
        exact ⟨this.1 b (by simp), this.2⟩

theorem valid_iff (r : RLA α) : r.Valid ↔
    r.events.head? = some 0 ∧ r.events.length = r.values.length + 1 ∧ r.events.Pairwise (· < ·) := by
  unfold Valid validB
  simp only [Bool.and_eq_true, beq_iff_eq, strictInc_iff, and_assoc]

end Model.RLA

namespace Model.RLA
variable {α β γ : Type}

theorem dec_length (a : Nat) (rest : List Nat) (vs : List α) (L : Nat)
    (hs : (a :: rest).Pairwise (· ≤ ·)) (hlen : (a :: rest).length = vs.length + 1)
    (hL : (a :: rest).getLast? = some L) : (dec (a :: rest) vs).length = L - a := by
  induction rest generalizing a vs with
  | nil =>
    simp at hL; subst hL; simp [dec]
  | cons b rest ih =>
    cases vs with
    | nil => simp at hlen
    | cons v vs =>
      rw [List.getLast?_cons_cons] at hL
      have hp := List.pairwise_cons.1 hs
      have hab : a ≤ b := hp.1 b (by simp)
      have hbL : b ≤ L := by
        have hm : L ∈ (b :: rest) := List.mem_of_getLast? hL
        rcases List.mem_cons.1 hm with rfl | hm
        · exact Nat.le_refl _
        · exact (List.pairwise_cons.1 hp.2).1 L hm
      have := ih b vs hp.2 (by simpa using hlen) hL
      simp only [dec, List.length_append, List.length_replicate, this]
      omega

theorem dec_getElem? (a : Nat) (rest : List Nat) (vs : List α) (L p : Nat)
    (hs : (a :: rest).Pairwise (· < ·)) (hlen : (a :: rest).length = vs.length + 1)
    (hL : (a :: rest).getLast? = some L) (hap : a ≤ p) (hpL : p < L) :
    (dec (a :: rest) vs)[p - a]? = vs[(a :: rest).countP (· ≤ p) - 1]? := by
  induction rest generalizing a vs with
  | nil =>
    simp at hL; omega
  | cons b rest ih =>
    cases vs with
    | nil => simp at hlen
    | cons v vs =>
      rw [List.getLast?_cons_cons] at hL
      have hp := List.pairwise_cons.1 hs
      have hab : a < b := hp.1 b (by simp)
      simp only [dec]
      by_cases hpb : p < b
      · rw [List.getElem?_append_left (by simp; omega)]
        have h0 : (b :: rest).countP (· ≤ p) = 0 := by
          rw [List.countP_eq_zero]
          intro c hc
          have : b ≤ c := by
            rcases List.mem_cons.1 hc with rfl | hc
            · exact Nat.le_refl _
            · exact Nat.le_of_lt ((List.pairwise_cons.1 hp.2).1 c hc)
          simp; omega
        rw [List.countP_cons, h0]
        simp only [hap, decide_true, if_true, Nat.zero_add, Nat.sub_self, List.getElem?_cons_zero]
        rw [List.getElem?_replicate]
        simp; omega
      · have hbp : b ≤ p := Nat.le_of_not_lt hpb
        rw [List.getElem?_append_right (by simp; omega)]
        have := ih b vs hp.2 (by simpa using hlen) hL hbp
        simp only [List.length_replicate]
        rw [show p - a - (b - a) = p - b by omega, this]
        have h1 : 1 ≤ (b :: rest).countP (· ≤ p) := by
          rw [List.countP_cons]; simp [hbp]
        rw [List.countP_cons (a := a)]
        simp only [hap, decide_true, if_true]
        rw [show List.countP (fun x => decide (x ≤ p)) (b :: rest) + 1 - 1
              = (List.countP (fun x => decide (x ≤ p)) (b :: rest) - 1) + 1 by omega]
        simp
end Model.RLA

namespace Model.RLA
variable {α β γ : Type}

theorem valid_cons (r : RLA α) (h : r.Valid) : ∃ rest, r.events = 0 :: rest := by
  have h := (valid_iff r).1 h
  cases he : r.events with
  | nil => rw [he] at h; simp at h
  | cons a t => rw [he] at h; simp at h; exact ⟨t, by rw [h.1]⟩

theorem valid_getLast (r : RLA α) (h : r.Valid) : r.events.getLast? = some r.len := by
  obtain ⟨rest, he⟩ := valid_cons r h
  unfold len
  rw [he]
  cases rest with
  | nil => simp
  | cons b t =>
    rw [List.getLast?_cons_cons]
    simp only [List.drop_succ_cons, List.drop_zero]
    cases hl : (b :: t).getLast? with
    | none => simp at hl
    | some L => simp

theorem decode_length (r : RLA α) (h : r.Valid) : r.decode.length = r.len := by
  obtain ⟨rest, he⟩ := valid_cons r h
  have hv := (valid_iff r).1 h
  have hL := valid_getLast r h
  have hd : r.decode = dec r.events r.values := decode_eq_dec r.events r.values
  rw [hd]
  rw [he] at hv hL ⊢
  rw [dec_length 0 rest r.values r.len (hv.2.2.imp Nat.le_of_lt) hv.2.1 hL]
  simp

/-- step (1): a cell of the dense array is the value of the run found by `searchsorted(…, "right") - 1` -/
theorem decode_getElem? (r : RLA α) (h : r.Valid) (p : Nat) (hp : p < r.len) :
    r.decode[p]? = r.values[Np.searchsortedRightNat r.events p - 1]? := by
  obtain ⟨rest, he⟩ := valid_cons r h
  have hv := (valid_iff r).1 h
  have hL := valid_getLast r h
  have hd : r.decode = dec r.events r.values := decode_eq_dec r.events r.values
  rw [hd]
  unfold Np.searchsortedRightNat
  rw [he] at hv hL ⊢
  have := dec_getElem? 0 rest r.values r.len p hv.2.2 hv.2.1 hL (Nat.zero_le _) hp
  simpa using this

/-- the dense array only changes at run boundaries -/
theorem decode_const (r : RLA α) (h : r.Valid) (p : Nat) (hp0 : 0 < p) (hp : p < r.len)
    (hne : p ∉ r.events) : r.decode[p]? = r.decode[p - 1]? := by
  rw [decode_getElem? r h p hp, decode_getElem? r h (p - 1) (by omega)]
  unfold Np.searchsortedRightNat
  congr 2
  apply List.countP_congr
  intro e he
  have : e ≠ p := fun hh => hne (hh ▸ he)
  simp; omega

theorem countP_le_of_strict (l : List Nat) (hs : l.Pairwise (· < ·)) (i e : Nat) (he : l[i]? = some e) :
    l.countP (· ≤ e) = i + 1 := by
  induction l generalizing i with
  | nil => simp at he
  | cons a t ih =>
    have hp := List.pairwise_cons.1 hs
    cases i with
    | zero =>
      simp at he; subst he
      rw [List.countP_cons]
      have : t.countP (· ≤ a) = 0 := by
        rw [List.countP_eq_zero]
        intro c hc
        have := hp.1 c hc
        simp; omega
      simp [this]
    | succ i =>
      simp only [List.getElem?_cons_succ] at he
      have hm : e ∈ t := List.mem_of_getElem? he
      have := hp.1 e hm
      rw [List.countP_cons, ih hp.2 i he]
      simp; omega

theorem lt_last_of_strict (l : List Nat) (hs : l.Pairwise (· < ·)) (i e L : Nat) (he : l[i]? = some e)
    (hL : l.getLast? = some L) (hi : i + 1 < l.length) : e < L := by
  rw [List.getLast?_eq_getElem?] at hL
  have h1 := (List.getElem?_eq_some_iff.1 he)
  have h2 := (List.getElem?_eq_some_iff.1 hL)
  obtain ⟨hi1, rfl⟩ := h1
  obtain ⟨hi2, rfl⟩ := h2
  exact (List.pairwise_iff_getElem.1 hs) i (l.length - 1) hi1 hi2 (by omega)

/-- the value of run `i` is the dense cell at the run's start -/
theorem decode_at_event (r : RLA α) (h : r.Valid) (i : Nat) (hi : i < r.values.length) :
    ∃ e, r.events[i]? = some e ∧ e < r.len ∧ r.decode[e]? = r.values[i]? := by
  have hv := (valid_iff r).1 h
  have hL := valid_getLast r h
  have hi' : i < r.events.length := by omega
  have he : r.events[i]? = some r.events[i] := List.getElem?_eq_getElem hi'
  have hlt := lt_last_of_strict r.events hv.2.2 i _ r.len he hL (by omega)
  refine ⟨r.events[i], he, hlt, ?_⟩
  rw [decode_getElem? r h _ hlt]
  unfold Np.searchsortedRightNat
  rw [countP_le_of_strict r.events hv.2.2 i _ he]
  simp
end Model.RLA
