import NpsVerif.Proofs.RLArithBinop
import NpsVerif.Proofs.Scan
/-! map / sum / membership / concatenation of run-length arrays (C16). -/
namespace Model.RLA
variable {α β γ δ : Type}

theorem dec_map (g : α → β) (ev : List Nat) (vs : List α) : dec ev (vs.map g) = (dec ev vs).map g := by
  induction ev generalizing vs with
  | nil => simp [dec]
  | cons a t ih =>
    cases t with
    | nil => simp [dec]
    | cons b rest =>
      cases vs with
      | nil => simp [dec]
      | cons v vs =>
        simp only [List.map_cons, dec, List.map_append, List.map_replicate]
        rw [← ih vs]

theorem countP_replicate' {β : Type} (p : β → Bool) (n : Nat) (v : β) :
    (List.replicate n v).countP p = if p v then n else 0 := by
  induction n with
  | zero => simp
  | succ n ih =>
    rw [List.replicate_succ, List.countP_cons, ih]
    split <;> simp_all

theorem weightedCount_dec {β : Type} (p : β → Bool) (ev : List Nat) (vs : List β) :
    (List.zipWith (fun (l : Nat) (v : β) => if p v then l else 0) (runLens ev) vs).sum = (dec ev vs).countP p := by
  unfold runLens
  induction ev generalizing vs with
  | nil => simp [dec]
  | cons a t ih =>
    cases t with
    | nil => simp [dec]
    | cons b rest =>
      cases vs with
      | nil => simp [dec]
      | cons v vs =>
        have := ih vs
        simp only [List.drop_succ_cons, List.drop_zero] at this ⊢
        simp only [List.zipWith_cons_cons, List.sum_cons, dec, List.countP_append, this, countP_replicate']

theorem sum_dec (ev : List Nat) (vs : List Int) :
    (List.zipWith (fun (l : Nat) (v : Int) => (l : Int) * v) (runLens ev) vs).sum = (dec ev vs).sum := by
  unfold runLens
  induction ev generalizing vs with
  | nil => simp [dec]
  | cons a t ih =>
    cases t with
    | nil => simp [dec]
    | cons b rest =>
      cases vs with
      | nil => simp [dec]
      | cons v vs =>
        have := ih vs
        simp only [List.drop_succ_cons, List.drop_zero] at this ⊢
        simp only [List.zipWith_cons_cons, List.sum_cons, dec, List.sum_append, this,
          List.sum_replicate_int]

theorem mem_dec (v : α) (a : Nat) (rest : List Nat) (vs : List α) (hs : (a :: rest).Pairwise (· < ·))
    (hlen : (a :: rest).length = vs.length + 1) : v ∈ vs ↔ v ∈ dec (a :: rest) vs := by
  induction rest generalizing a vs with
  | nil =>
    cases vs with
    | nil => simp [dec]
    | cons w vs => simp at hlen
  | cons b rest ih =>
    cases vs with
    | nil => simp at hlen
    | cons w vs =>
      have hp := List.pairwise_cons.1 hs
      have hab : a < b := hp.1 b (by simp)
      have := ih b vs hp.2 (by simpa using hlen)
      simp only [dec, List.mem_cons, List.mem_append, List.mem_replicate, ← this]
      constructor
      · rintro (h | h)
        · exact Or.inl ⟨by omega, h⟩
        · exact Or.inr h
      · rintro (h | h)
        · exact Or.inl h.2
        · exact Or.inr h

theorem dec_shift (o : Nat) (ev : List Nat) (vs : List α) : dec (ev.map (· + o)) vs = dec ev vs := by
  induction ev generalizing vs with
  | nil => simp [dec]
  | cons a t ih =>
    cases t with
    | nil => simp [dec]
    | cons b rest =>
      cases vs with
      | nil => simp [dec]
      | cons v vs =>
        have := ih vs
        simp only [List.map_cons] at this ⊢
        simp only [dec, this]
        rw [show b + o - (a + o) = b - a by omega]

theorem dec_append (E1 : List Nat) (m : Nat) (E2 : List Nat) (V1 V2 : List α)
    (hlen : E1.length = V1.length) :
    dec (E1 ++ m :: E2) (V1 ++ V2) = dec (E1 ++ [m]) V1 ++ dec (m :: E2) V2 := by
  induction E1 generalizing V1 with
  | nil =>
    cases V1 with
    | nil => simp [dec]
    | cons v V1 => simp at hlen
  | cons a t ih =>
    cases V1 with
    | nil => simp at hlen
    | cons v V1 =>
      cases t with
      | nil =>
        cases V1 with
        | nil => simp [dec]
        | cons w V1 => simp at hlen
      | cons b t =>
        have := ih V1 (by simpa using hlen)
        simp only [List.cons_append] at this ⊢
        simp only [dec, this, List.append_assoc]

/-- the concatenated boundary list, with a running offset -/
def evFrom (acc : Nat) (rs : List (RLA α)) : List Nat :=
  (List.zipWith (fun (r : RLA α) o => r.events.dropLast.map (· + o)) rs
    (Np.exclScanFrom acc (rs.map (·.len)))).flatten ++ [acc + (rs.map (·.len)).sum]

theorem evFrom_nil (acc : Nat) : evFrom acc ([] : List (RLA α)) = [acc] := by
  simp [evFrom, Np.exclScanFrom]

theorem evFrom_cons (acc : Nat) (r : RLA α) (rs : List (RLA α)) :
    evFrom acc (r :: rs) = r.events.dropLast.map (· + acc) ++ evFrom (acc + r.len) rs := by
  simp [evFrom, Np.exclScanFrom, Nat.add_assoc]

theorem concat_aux (rs : List (RLA α)) (h : ∀ r ∈ rs, r.Valid ∧ 0 < r.len) (acc : Nat) :
    (evFrom acc rs).head? = some acc ∧ (evFrom acc rs).Pairwise (· < ·) ∧
    (evFrom acc rs).length = ((rs.map (·.values)).flatten).length + 1 ∧
    dec (evFrom acc rs) ((rs.map (·.values)).flatten) = (rs.map decode).flatten ∧
    ∀ e ∈ evFrom acc rs, acc ≤ e := by
  induction rs generalizing acc with
  | nil => simp [evFrom_nil, dec]
  | cons r rs ih =>
    obtain ⟨hv, hpos⟩ := h r (by simp)
    obtain ⟨i1, i2, i3, i4, i5⟩ := ih (fun r' hr' => h r' (List.mem_cons_of_mem _ hr')) (acc + r.len)
    obtain ⟨T, hre, hT⟩ := valid_split r hv hpos
    have hval := (valid_iff r).1 hv
    have hdl : r.events.dropLast = 0 :: T := by
      rw [hre, show (0 :: T ++ [r.len]) = (0 :: T) ++ [r.len] from rfl, List.dropLast_concat]
    have hlenT : r.values.length = T.length + 1 := by
      have := hval.2.1; rw [hre] at this; simp at this; omega
    -- the tail list starts with its offset
    obtain ⟨E2, hE2⟩ : ∃ E2, evFrom (acc + r.len) rs = (acc + r.len) :: E2 := by
      cases hE : evFrom (acc + r.len) rs with
      | nil => rw [hE] at i1; simp at i1
      | cons a t => rw [hE] at i1; simp at i1; exact ⟨t, by rw [i1]⟩
    have hE1lt : ∀ e ∈ (0 :: T).map (· + acc), acc ≤ e ∧ e < acc + r.len := by
      intro e he
      obtain ⟨c, hc, rfl⟩ := List.mem_map.1 he
      rcases List.mem_cons.1 hc with rfl | hc
      · omega
      · have := (hT c hc).2; omega
    rw [evFrom_cons, hdl]
    refine ⟨by simp, ?_, ?_, ?_, ?_⟩
    · refine List.pairwise_append.2 ⟨?_, i2, ?_⟩
      · have : (0 :: T).Pairwise (· < ·) := by
          rw [← hdl]; exact hval.2.2.sublist (List.dropLast_sublist _)
        exact this.map _ (fun a b hab => by omega)
      · intro a ha b hb
        have := (hE1lt a ha).2
        have := i5 b hb
        omega
    · simp only [List.map_cons, List.flatten_cons, List.length_append, List.length_cons,
        List.length_map, i3, hlenT]
      omega
    · rw [hE2] at i4 ⊢
      simp only [List.map_cons, List.flatten_cons]
      rw [dec_append _ _ _ _ _ (by simp [hlenT]), i4]
      congr 1
      have : List.map (· + acc) (0 :: T) ++ [acc + r.len] = (r.events).map (· + acc) := by
        rw [hre]
        simp only [List.map_cons, List.map_append, List.cons_append, List.map_nil]
        rw [Nat.add_comm r.len acc]
      change dec (List.map (· + acc) (0 :: T) ++ [acc + r.len]) r.values = r.decode
      rw [this, dec_shift]
      exact (decode_eq_dec r.events r.values).symm
    · intro e he
      rcases List.mem_append.1 he with he | he
      · exact (hE1lt e he).1
      · have := i5 e he; omega

end Model.RLA
