import NpsVerif.Proofs.RLArithBasic
/-! `np.delete` / `remove_empty_intervals` / `join_runs`: structural facts used by C16. -/
namespace Model.RLA
variable {α β γ δ : Type}

theorem deleteIdx_sublist (l : List δ) (del : List Nat) : (deleteIdx l del).Sublist l := by
  unfold deleteIdx
  have h1 : ((l.zipIdx.filter (fun p => !del.contains p.2)).map (·.1)).Sublist (l.zipIdx.map (·.1)) :=
    List.Sublist.map _ List.filter_sublist
  rwa [List.zipIdx_map_fst] at h1

/-- a strictly increasing boundary list that decodes to `n > 0` cells and stays within `[0, n]`
starts at 0 -/
theorem head_zero_of_dec_length (ev : List Nat) (vs : List α) (n : Nat) (hn : 0 < n)
    (hs : ev.Pairwise (· < ·)) (hlen : ev.length = vs.length + 1) (hle : ∀ e ∈ ev, e ≤ n)
    (hd : (dec ev vs).length = n) : ev.head? = some 0 := by
  cases ev with
  | nil => simp at hlen
  | cons a rest =>
    cases hL : (a :: rest).getLast? with
    | none => simp at hL
    | some L =>
      have := dec_length a rest vs L (hs.imp Nat.le_of_lt) hlen hL
      have hLn := hle L (List.mem_of_getLast? hL)
      simp; omega

/-- keep the entries whose mask bit is false (entries beyond the mask are kept) -/
def dropMask : List δ → List Bool → List δ
  | a :: l, b :: m => if b then dropMask l m else a :: dropMask l m
  | l, [] => l
  | [], _ => []

theorem flatnonzeroFrom_ge (k : Nat) (m : List Bool) : ∀ i ∈ Np.flatnonzeroFrom k m, k ≤ i := by
  induction m generalizing k with
  | nil => simp [Np.flatnonzeroFrom]
  | cons b m ih =>
    intro i hi
    unfold Np.flatnonzeroFrom at hi
    split at hi
    · rcases List.mem_cons.1 hi with rfl | hi
      · exact Nat.le_refl _
      · have := ih (k + 1) i hi; omega
    · have := ih (k + 1) i hi; omega

theorem deleteIdxFrom_flatnonzero (l : List δ) (m : List Bool) (k : Nat) :
    ((l.zipIdx k).filter (fun p => !(Np.flatnonzeroFrom k m).contains p.2)).map (·.1) = dropMask l m := by
  induction l generalizing m k with
  | nil => cases m <;> simp [dropMask]
  | cons a l ih =>
    cases m with
    | nil =>
      simp only [dropMask, Np.flatnonzeroFrom, List.contains_nil, Bool.not_false]
      rw [List.filter_eq_self.2 (by simp)]
      exact List.zipIdx_map_fst _ _
    | cons b m =>
      have hk : (Np.flatnonzeroFrom (k + 1) m).contains k = false := by
        cases hc : (Np.flatnonzeroFrom (k + 1) m).contains k with
        | false => rfl
        | true =>
          have := flatnonzeroFrom_ge (k + 1) m k (by simpa using hc)
          omega
      have htail : ∀ (del : List Nat), (l.zipIdx (k + 1)).filter (fun p => !(k :: del).contains p.2)
          = (l.zipIdx (k + 1)).filter (fun p => !del.contains p.2) := by
        intro del
        apply List.filter_congr
        intro p hp
        have : k + 1 ≤ p.2 := by
          have := List.mem_zipIdx (x := p.1) (i := p.2) hp
          exact this.1
        have hne : (p.2 == k) = false := by simp; omega
        rw [List.contains_cons, hne, Bool.false_or]
      cases b with
      | true =>
        have e1 : Np.flatnonzeroFrom k (true :: m) = k :: Np.flatnonzeroFrom (k + 1) m := by
          simp [Np.flatnonzeroFrom]
        rw [e1, List.zipIdx_cons, List.filter_cons]
        have e2 : (!(k :: Np.flatnonzeroFrom (k + 1) m).contains ((a, k) : δ × Nat).2) = false := by
          simp
        rw [e2]
        simp only [Bool.false_eq_true, if_false, dropMask, if_true]
        rw [htail, ih]
      | false =>
        have e1 : Np.flatnonzeroFrom k (false :: m) = Np.flatnonzeroFrom (k + 1) m := by
          simp [Np.flatnonzeroFrom]
        rw [e1, List.zipIdx_cons, List.filter_cons]
        have e2 : (!(Np.flatnonzeroFrom (k + 1) m).contains ((a, k) : δ × Nat).2) = true := by
          simp only [hk]; rfl
        rw [e2]
        simp only [if_true, List.map_cons, dropMask, Bool.false_eq_true, if_false]
        rw [ih]

theorem deleteIdx_flatnonzero (l : List δ) (m : List Bool) :
    deleteIdx l (Np.flatnonzero m) = dropMask l m := deleteIdxFrom_flatnonzero l m 0

theorem flatnonzeroFrom_succ (k : Nat) (m : List Bool) :
    (Np.flatnonzeroFrom k m).map (· + 1) = Np.flatnonzeroFrom (k + 1) m := by
  induction m generalizing k with
  | nil => rfl
  | cons b m ih =>
    unfold Np.flatnonzeroFrom
    split <;> simp [ih]

theorem joinRuns_eq (eq : α → α → Bool) (ev : List Nat) (vs : List α) :
    joinRuns eq ev vs = (dropMask ev (false :: List.zipWith eq (vs.drop 1) vs),
                         dropMask vs (false :: List.zipWith eq (vs.drop 1) vs)) := by
  unfold joinRuns
  simp only
  have : (Np.flatnonzero (List.zipWith eq (vs.drop 1) vs)).map (· + 1)
      = Np.flatnonzero (false :: List.zipWith eq (vs.drop 1) vs) := by
    unfold Np.flatnonzero
    rw [flatnonzeroFrom_succ]
    simp [Np.flatnonzeroFrom]
  rw [this, deleteIdx_flatnonzero, deleteIdx_flatnonzero]

/-- no two neighbours `u, v` (in this order) have `eq v u = true` -/
def adjOK (eq : α → α → Bool) : List α → Prop
  | a :: b :: t => eq b a = false ∧ adjOK eq (b :: t)
  | _ => True

theorem adjOK_getElem (eq : α → α → Bool) (l : List α) (h : adjOK eq l) (i : Nat) (u v : α)
    (hu : l[i]? = some u) (hv : l[i + 1]? = some v) : eq v u = false := by
  induction l generalizing i with
  | nil => simp at hu
  | cons a t ih =>
    cases t with
    | nil => simp at hv
    | cons b t =>
      cases i with
      | zero =>
        simp at hu hv; subst hu; subst hv; exact h.1
      | succ i =>
        exact ih h.2 i (by simpa using hu) (by simpa using hv)

/-- the join step: `prev` is the last kept value, `cur` the value just before `rest`, and `cur`
is `eq`-indistinguishable from `prev` -/
theorem adjOK_dropMask (eq : α → α → Bool)
    (hcongr : ∀ a b c, eq b a = true → eq c b = eq c a)
    (prev cur : α) (rest : List α) (hpc : ∀ c, eq c cur = eq c prev) :
    adjOK eq (prev :: dropMask rest (List.zipWith eq rest (cur :: rest))) := by
  induction rest generalizing prev cur with
  | nil => simp [dropMask, adjOK]
  | cons b rest ih =>
    simp only [List.zipWith_cons_cons, dropMask]
    cases hb : eq b cur with
    | true =>
      simp only [if_true]
      exact ih prev b (fun c => by rw [hcongr cur b c hb, hpc c])
    | false =>
      simp only [Bool.false_eq_true, if_false]
      refine ⟨by rw [← hpc b, hb], ?_⟩
      exact ih b b (fun c => rfl)

/-- `join_runs` leaves no two `eq`-equal neighbours, provided `eq` is a right congruence
(`eq b a → eq c b = eq c a`; true of any genuine equality test and of IEEE `==`) -/
theorem joinRuns_canonical (eq : α → α → Bool)
    (hcongr : ∀ a b c, eq b a = true → eq c b = eq c a) (ev : List Nat) (vs : List α) :
    adjOK eq (joinRuns eq ev vs).2 := by
  rw [joinRuns_eq]
  cases vs with
  | nil => simp [dropMask, adjOK]
  | cons a rest =>
    simp only [List.drop_succ_cons, List.drop_zero, dropMask, Bool.false_eq_true, if_false]
    exact adjOK_dropMask eq hcongr a a rest (fun c => rfl)

end Model.RLA
