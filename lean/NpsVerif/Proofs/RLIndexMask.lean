import NpsVerif.Proofs.RLIndexWindows
/-! # Run-length arrays: boolean (run-length) mask indexing `rla[mask]`

`getitemBool r m` (one `_start_to_end` window per `true` run of the mask, then `ravel`) decodes to
the dense array filtered by the dense mask. -/
namespace Proofs.RLIndex
open Model Model.RLA
variable {α : Type}

/-! ## helper lemmas on `dec` -/

theorem getLast?_cons_getD (lo e : Nat) (es : List Nat) :
    (e :: es).getLast?.getD lo = es.getLast?.getD e := by
  cases es with
  | nil => simp
  | cons x xs =>
    rw [List.getLast?_cons_cons]
    cases h : (x :: xs).getLast? with
    | none => simp at h
    | some y => rfl

theorem dec_append (lo : Nat) (es1 es2 : List Nat) (vs1 vs2 : List α)
    (hl : es1.length = vs1.length) :
    dec lo (es1 ++ es2) (vs1 ++ vs2) = dec lo es1 vs1 ++ dec (es1.getLast?.getD lo) es2 vs2 := by
  induction es1 generalizing lo vs1 with
  | nil =>
    cases vs1 with
    | nil => simp [dec]
    | cons => simp at hl
  | cons e es1 ih =>
    cases vs1 with
    | nil => simp at hl
    | cons v vs1 =>
      simp only [List.cons_append, dec, List.append_assoc]
      rw [ih e vs1 (by simpa using hl), getLast?_cons_getD]

theorem dec_map_add (lo o : Nat) (es : List Nat) (vs : List α) :
    dec (lo + o) (es.map (· + o)) vs = dec lo es vs := by
  induction es generalizing lo vs with
  | nil => simp [dec]
  | cons e es ih =>
    cases vs with
    | nil => simp [dec]
    | cons v vs =>
      simp only [List.map_cons, dec]
      rw [ih e vs, Nat.add_sub_add_right]

/-! ## (A) `ravelRows` -/

/-- the events of `ravel`, as a structural recursion with the running offset -/
def ravEv (o : Nat) : List (List Nat × List α) → List Nat
  | [] => [o]
  | p :: rest => p.1.dropLast.map (· + o) ++ ravEv (o + p.1.getLast?.getD 0) rest

theorem ravEv_eq (o : Nat) (rows : List (List Nat × List α)) :
    (List.zipWith (fun (p : List Nat × List α) o => p.1.dropLast.map (· + o)) rows
      (Np.exclScanFrom o (rows.map (fun p => p.1.getLast?.getD 0)))).flatten ++
      [o + (rows.map (fun p => p.1.getLast?.getD 0)).sum] = ravEv o rows := by
  induction rows generalizing o with
  | nil => simp [Np.exclScanFrom, ravEv]
  | cons p rest ih =>
    simp only [List.map_cons, Np.exclScanFrom, List.zipWith_cons_cons, List.flatten_cons,
      List.sum_cons, List.append_assoc, ravEv]
    rw [← ih, Nat.add_assoc]

theorem ravelRows_eq (rows : List (List Nat × List α)) :
    ravelRows rows = (ravEv 0 rows, (rows.map (·.2)).flatten) := by
  have := ravEv_eq 0 rows
  simp only [Nat.zero_add] at this
  unfold ravelRows Np.exclScan
  simp only [this]

theorem ravEv_spec (o : Nat) (rows : List (List Nat × List α))
    (hrows : ∀ p ∈ rows, (RLA.mk p.1 p.2).Valid ∧ 0 < (RLA.mk p.1 p.2).len) :
    ∃ T, ravEv o rows = o :: T ∧ T.length = (rows.map (·.2)).flatten.length ∧
      (o :: T).Pairwise (· < ·) ∧
      dec o T (rows.map (·.2)).flatten =
        (rows.map (fun p => (RLA.mk p.1 p.2).decode)).flatten := by
  induction rows generalizing o with
  | nil => exact ⟨[], rfl, rfl, by simp, by simp [dec]⟩
  | cons p rest ih =>
    obtain ⟨ev, vs⟩ := p
    have hp := hrows (ev, vs) List.mem_cons_self
    obtain ⟨es, hev, hl, hpw⟩ := valid_cons hp.1
    simp only at hev hl
    subst hev
    have hlen := hp.2
    rw [len_cons] at hlen
    have hne : es ≠ [] := by intro h; subst h; simp at hlen
    obtain ⟨es', L, rfl⟩ : ∃ es' L, es = es' ++ [L] :=
      ⟨es.dropLast, es.getLast hne, (List.dropLast_concat_getLast hne).symm⟩
    obtain ⟨T', hT', hlen', hpw', hdec'⟩ :=
      ih (o + L) (fun q hq => hrows q (List.mem_cons_of_mem _ hq))
    have hdl : (0 :: (es' ++ [L])).dropLast = 0 :: es' := by
      rw [← List.cons_append, List.dropLast_concat]
    have hgl : (0 :: (es' ++ [L])).getLast?.getD 0 = L := by
      rw [← List.cons_append, List.getLast?_concat]; rfl
    refine ⟨(es' ++ [L]).map (· + o) ++ T', ?_, ?_, ?_, ?_⟩
    · simp only [ravEv, hdl, hgl, hT']
      simp [Nat.add_comm]
    · simp only [List.length_append, List.length_map, List.map_cons, List.flatten_cons, hlen', hl]
    · have hre : o :: ((es' ++ [L]).map (· + o) ++ T') =
          (0 :: es').map (· + o) ++ ((o + L) :: T') := by simp [Nat.add_comm]
      rw [hre]
      rw [← List.cons_append, List.pairwise_append] at hpw
      refine List.pairwise_append.2 ⟨?_, hpw', ?_⟩
      · rw [List.pairwise_map]
        exact hpw.1.imp (fun h => by omega)
      · intro a ha b hb
        obtain ⟨x, hx, rfl⟩ := List.mem_map.1 ha
        have hxL := hpw.2.2 x hx L (by simp)
        rcases List.mem_cons.1 hb with rfl | hb
        · omega
        · have := (List.pairwise_cons.1 hpw').1 b hb
          omega
    · simp only [List.map_cons, List.flatten_cons]
      rw [dec_append _ _ _ _ _ (by simpa using hl), decode_cons]
      have hg : ((es' ++ [L]).map (· + o)).getLast?.getD o = o + L := by
        simp [Nat.add_comm]
      rw [hg, hdec']
      have := dec_map_add 0 o (es' ++ [L]) vs
      rw [Nat.zero_add] at this
      rw [this]

/-- `ravel` of valid non-empty rows is valid and decodes to the concatenated row decodes -/
theorem ravelRows_spec (rows : List (List Nat × List α))
    (hrows : ∀ p ∈ rows, (RLA.mk p.1 p.2).Valid ∧ 0 < (RLA.mk p.1 p.2).len) :
    (RLA.mk (ravelRows rows).1 (ravelRows rows).2).Valid ∧
      (RLA.mk (ravelRows rows).1 (ravelRows rows).2).decode =
        (rows.map (fun p => (RLA.mk p.1 p.2).decode)).flatten := by
  obtain ⟨T, hT, hlen, hpw, hdec⟩ := ravEv_spec 0 rows hrows
  rw [ravelRows_eq]
  simp only [hT]
  refine ⟨(valid_iff _).2 ⟨rfl, by simp [hlen], hpw⟩, ?_⟩
  rw [decode_cons, hdec]

/-! ## (B) filtering by a run-length mask -/

theorem zip_replicate_filterMap {β : Type} (xs : List β) (n : Nat) (b : Bool)
    (h : xs.length = n) :
    (xs.zip (List.replicate n b)).filterMap (fun p => if p.2 then some p.1 else none) =
      if b then xs else [] := by
  subst h
  induction xs with
  | nil => cases b <;> simp
  | cons x xs ih =>
    simp only [List.length_cons, List.replicate_succ, List.zip_cons_cons, List.filterMap_cons]
    cases b <;> simp_all

theorem mask_filter {β : Type} (D : List β) (lo : Nat) (es : List Nat) (ms : List Bool)
    (hmono : (lo :: es).Pairwise (· ≤ ·)) (hl : es.length = ms.length)
    (hD : es.getLast?.getD lo ≤ D.length) :
    ((D.drop lo).zip (dec lo es ms)).filterMap (fun p => if p.2 then some p.1 else none) =
      (((((lo :: es).dropLast.zip es).zip ms).filterMap
          (fun p => if p.2 then some p.1 else none)).map
        (fun q => (D.drop q.1).take (q.2 - q.1))).flatten := by
  induction es generalizing lo ms with
  | nil => simp [dec]
  | cons e es ih =>
    cases ms with
    | nil => simp at hl
    | cons v ms =>
      have hm := List.pairwise_cons.1 hmono
      have hloe : lo ≤ e := hm.1 e List.mem_cons_self
      rw [getLast?_cons_getD] at hD
      have heD : e ≤ D.length := Nat.le_trans (getLast?_getD_ge e es hm.2) hD
      have hsplit : D.drop lo = (D.drop lo).take (e - lo) ++ D.drop e := by
        conv => lhs; rw [← List.take_append_drop (e - lo) (D.drop lo)]
        rw [List.drop_drop]
        congr 2; omega
      have htl : ((D.drop lo).take (e - lo)).length = e - lo := by
        simp only [List.length_take, List.length_drop]; omega
      simp only [dec, List.dropLast_cons_cons, List.zip_cons_cons, List.filterMap_cons]
      rw [hsplit, List.zip_append (by simp only [htl, List.length_replicate]),
        List.filterMap_append, zip_replicate_filterMap _ _ _ htl,
        ih e ms hm.2 (by simpa using hl) hD]
      cases v <;> simp

/-! ## (C) assembling `getitemBool` -/

theorem zip_map_fst_snd {β γ : Type} (l : List (β × γ)) :
    (l.map (·.1)).zip (l.map (·.2)) = l := by
  induction l with
  | nil => rfl
  | cons x xs ih => simp [ih]

theorem zipWith_map_fst_snd {β γ δ : Type} (f : β → γ → δ) (l : List (β × γ)) :
    List.zipWith f (l.map (·.1)) (l.map (·.2)) = l.map (fun q => f q.1 q.2) := by
  induction l with
  | nil => rfl
  | cons x xs ih => simp [ih]

/-- consecutive boundaries of a strictly increasing list: non-empty, below the last one -/
theorem runs_bounds (lo : Nat) (es : List Nat) (hp : (lo :: es).Pairwise (· < ·)) :
    ∀ p ∈ (lo :: es).dropLast.zip es, p.1 < p.2 ∧ p.2 ≤ es.getLast?.getD lo := by
  induction es generalizing lo with
  | nil => simp
  | cons e es ih =>
    have hm := List.pairwise_cons.1 hp
    intro p hpm
    simp only [List.dropLast_cons_cons, List.zip_cons_cons, List.mem_cons] at hpm
    rw [getLast?_cons_getD]
    rcases hpm with rfl | hpm
    · exact ⟨hm.1 e List.mem_cons_self, getLast?_getD_ge e es (mono_of_strict hm.2)⟩
    · exact ih e hm.2 p hpm

/-- `rla[mask]` for a run-length boolean mask of the same length: always succeeds, the result is a
valid run-length array, and it decodes to the dense array filtered by the dense mask. -/
theorem getitemBool_spec {α : Type} (r : RLA α) (h : r.Valid) (m : RLA Bool) (hm : m.Valid)
    (hl : m.len = r.len) :
    ∃ r', r.getitemBool m = some r' ∧ r'.Valid ∧
      r'.decode = (r.decode.zip m.decode).filterMap (fun p => if p.2 then some p.1 else none) := by
  obtain ⟨es, hev, hlen, hpw⟩ := valid_cons hm
  obtain ⟨mev, ms⟩ := m
  simp only at hev hlen
  subst hev
  rw [len_cons] at hl
  unfold getitemBool
  simp only [List.drop_one, List.tail_cons]
  generalize hsel : (((0 :: es).dropLast.zip es).zip ms).filterMap
    (fun p => if p.2 then some p.1 else none) = sel
  have hw : ∀ p ∈ (sel.map (·.1)).zip (sel.map (·.2)), p.1 < p.2 ∧ p.2 ≤ r.len := by
    rw [zip_map_fst_snd]
    intro p hp
    rw [← hsel, List.mem_filterMap] at hp
    obtain ⟨⟨q, b⟩, hq, hqb⟩ := hp
    have : q = p := by cases b <;> simp_all
    subst this
    have := runs_bounds 0 es hpw q (List.of_mem_zip hq).1
    rw [hl] at this
    exact this
  have hrows := windows_valid r h _ _ hw
  obtain ⟨hv, hd⟩ := ravelRows_spec _ hrows
  refine ⟨_, ?_, hv, ?_⟩
  · unfold mk?
    exact if_pos hv
  · rw [hd, windows_decode r h _ _ hw, zipWith_map_fst_snd, decode_cons]
    have := mask_filter r.decode 0 es ms (mono_of_strict hpw) hlen
      (by rw [hl, len_eq_decode_length r h]; exact Nat.le_refl _)
    rw [List.drop_zero] at this
    rw [this, hsel]

/-! ## sanity instances -/

example : (RLA.mk [0, 2, 5, 6] [7, 8, 9]).getitemBool ⟨[0, 1, 3, 6], [true, false, true]⟩ =
    some ⟨[0, 1, 3, 4], [7, 8, 9]⟩ := by decide

example : ((RLA.mk [0, 2, 5, 6] [7, 8, 9]).getitemBool
    ⟨[0, 1, 3, 6], [true, false, true]⟩).map (·.decode) = some [7, 8, 8, 9] := by decide

example : (RLA.mk [0, 2, 5, 6] [7, 8, 9]).getitemBool ⟨[0, 6], [false]⟩ =
    some ⟨[0], []⟩ := by decide

end Proofs.RLIndex
