import NpsVerif.Proofs.Bits
/-! `pack a b` register by register (C13). -/
namespace Proofs.BitPack
open Model.BitArray Proofs.Bits

theorem lt_ceil_div_iff (x n r : Nat) (hn : 0 < n) : r < (x + n - 1) / n ↔ r * n < x := by
  rw [Nat.lt_iff_add_one_le, Nat.le_div_iff_mul_le hn, Nat.add_mul]; omega

theorem range_getElem? (n i : Nat) : (List.range n)[i]? = if i < n then some i else none := by
  by_cases h : i < n
  · simp [h]
  · simp [h]

theorem filterMap_eq_map_of (f : α → Option β) (g : α → β) (l : List α)
    (h : ∀ x ∈ l, f x = some (g x)) : l.filterMap f = l.map g := by
  induction l with
  | nil => rfl
  | cons x xs ih =>
    rw [List.filterMap_cons, h x (by simp), List.map_cons, ih (fun y hy => h y (by simp [hy]))]

/-- `array[i::n][r] = array[i + r*n]` -/
theorem stride_getElem? (a : List Nat) (i n : Nat) (hn : 0 < n) (r : Nat) :
    (stride a i n)[r]? = a[i + r * n]? := by
  unfold stride
  rw [filterMap_eq_map_of _ (fun k => a[i + k * n]?.getD 0)]
  · rw [List.getElem?_map, range_getElem?]
    by_cases hr : r < (a.length - i + n - 1) / n
    · have h2 := (lt_ceil_div_iff _ n r hn).mp hr
      have h3 : i + r * n < a.length := by omega
      simp [hr, h3]
    · have h2 : ¬ (r * n < a.length - i) := fun h => hr ((lt_ceil_div_iff _ n r hn).mpr h)
      have h3 : a.length ≤ i + r * n := by omega
      simp [hr, h3]
  · intro k hk
    have h2 := (lt_ceil_div_iff _ n k hn).mp (List.mem_range.mp hk)
    have h3 : i + k * n < a.length := by omega
    simp [h3]

theorem stride_length (a : List Nat) (i n : Nat) (hn : 0 < n) :
    (stride a i n).length = (a.length - i + n - 1) / n := by
  unfold stride
  rw [filterMap_eq_map_of _ (fun k => a[i + k * n]?.getD 0)]
  · simp
  · intro k hk
    have h2 := (lt_ceil_div_iff _ n k hn).mp (List.mem_range.mp hk)
    have h3 : i + k * n < a.length := by omega
    simp [h3]

theorem orPrefix_getElem? (bs xs : List Nat) (r : Nat) :
    (orPrefix bs xs)[r]? = bs[r]?.map (fun v => v ||| xs[r]?.getD 0) := by
  induction bs generalizing xs r with
  | nil => cases xs <;> simp [orPrefix]
  | cons b bs ih =>
    cases xs with
    | nil => simp [orPrefix]
    | cons x xs =>
      cases r with
      | zero => simp [orPrefix]
      | succ r => simp [orPrefix, ih]

/-- `uint64(x) << s` does not overflow when `x` has `b` bits and `s + b ≤ 64` -/
theorem shl64_small (x b s : Nat) (hx : x < 2 ^ b) (hs : s + b ≤ 64) (hb : 0 < b) :
    shl64 (x % W) s = 2 ^ s * x := by
  have hW : x < W := Nat.lt_of_lt_of_le hx (Nat.pow_le_pow_right (by decide) (by omega))
  have h1 : 2 ^ s * x < W := by
    have : 2 ^ s * x < 2 ^ s * 2 ^ b := Nat.mul_lt_mul_of_pos_left hx (Nat.two_pow_pos s)
    rw [← Nat.pow_add] at this
    exact Nat.lt_of_lt_of_le this (Nat.pow_le_pow_right (by decide) hs)
  unfold shl64
  rw [if_neg (by omega), Nat.mod_eq_of_lt hW, Nat.shiftLeft_eq, Nat.mul_comm, Nat.mod_eq_of_lt h1]

/-- one iteration of the `|=` loop, in one register -/
theorem or_step (b n k : Nat) (hb : 0 < b) (hbn : b * n = 64) (hk : k + 1 < n) (L : List Nat)
    (hL : ∀ x ∈ L, x < 2 ^ b) :
    stream b (L.take (k + 1)) ||| ((L[k + 1]?).map (fun x => shl64 (x % W) (b * (k + 1)))).getD 0
      = stream b (L.take (k + 1 + 1)) := by
  rw [stream_take_succ b L (k + 1)]
  cases h : L[k + 1]? with
  | none => simp
  | some x =>
    have hx : x < 2 ^ b := hL x (List.mem_of_getElem? h)
    have hs : b * (k + 1) + b ≤ 64 := by
      have : b * (k + 1 + 1) ≤ b * n := Nat.mul_le_mul_left b hk
      rw [Nat.mul_add b (k+1) 1, Nat.mul_one] at this; omega
    have hlt : stream b (L.take (k + 1)) < 2 ^ (b * (k + 1)) := by
      have h1 := stream_lt b (L.take (k + 1)) (fun y hy => hL y (List.mem_of_mem_take hy))
      refine Nat.lt_of_lt_of_le h1 (Nat.pow_le_pow_right (by decide) (Nat.mul_le_mul_left b ?_))
      simp [List.length_take]; omega
    simp only [Option.map_some, Option.getD_some]
    rw [shl64_small x b _ hx hs hb, Nat.or_comm, ← Nat.two_pow_add_eq_or_of_lt hlt, Nat.add_comm]

/-- loop invariant of `pack`: after OR-ing in the strides `0..k`, register `r` holds the first
`k+1` digits of chunk `r` -/
theorem pack_fold (a : List Nat) (b n : Nat) (hb : 0 < b) (hbn : b * n = 64)
    (ha : ∀ x ∈ a, x < 2 ^ b) (k : Nat) (hk : k < n) :
    (List.range k).foldl
      (fun bits i' => orPrefix bits ((stride a (i' + 1) n).map (fun x => shl64 (x % W) (b * (i' + 1)))))
      ((stride a 0 n).map (· % W))
    = (List.range ((a.length + n - 1) / n)).map (fun r => stream b ((a.drop (r * n)).take (k + 1))) := by
  have hn : 0 < n := by omega
  induction k with
  | zero =>
    simp only [List.range_zero, List.foldl_nil]
    apply List.ext_getElem?
    intro r
    rw [List.getElem?_map, stride_getElem? a 0 n hn, List.getElem?_map, range_getElem?]
    by_cases hr : r < (a.length + n - 1) / n
    · have h2 : r * n < a.length := (lt_ceil_div_iff _ n r hn).mp hr
      have hx : a[r * n] < 2 ^ b := ha _ (List.getElem_mem _)
      have hW : a[r * n] < W :=
        Nat.lt_of_lt_of_le hx (Nat.pow_le_pow_right (by decide) (Nat.le_of_dvd (by decide) ⟨n, hbn.symm⟩))
      simp [hr, h2, List.take_one, stream_toList, Nat.mod_eq_of_lt hW]
    · have h2 : ¬ (r * n < a.length) := fun h => hr ((lt_ceil_div_iff _ n r hn).mpr h)
      simp [hr, Nat.le_of_not_lt h2]
  | succ k ih =>
    rw [List.range_succ, List.foldl_append, ih (by omega)]
    simp only [List.foldl_cons, List.foldl_nil]
    apply List.ext_getElem?
    intro r
    rw [orPrefix_getElem?, List.getElem?_map, List.getElem?_map, List.getElem?_map, range_getElem?,
      stride_getElem? a (k + 1) n hn]
    by_cases hr : r < (a.length + n - 1) / n
    · have h1 : ∀ x ∈ a.drop (r * n), x < 2 ^ b := fun x hx => ha x (List.mem_of_mem_drop hx)
      have := or_step b n k hb hbn hk (a.drop (r * n)) h1
      rw [List.getElem?_drop, Nat.add_comm (r * n)] at this
      simp [hr, this]
    · simp [hr]

/-- register `r` of `pack a b` is the stream of chunk `r` -/
theorem pack_eq_chunks (a : List Nat) (b : Nat) (hb0 : 0 < b) (hb : b ∣ 64) (ha : ∀ x ∈ a, x < 2 ^ b) :
    pack a b = (List.range ((a.length + 64 / b - 1) / (64 / b))).map
      (fun r => stream b ((a.drop (r * (64 / b))).take (64 / b))) := by
  have hbn : b * (64 / b) = 64 := Nat.mul_div_cancel' hb
  have hn : 0 < 64 / b := Nat.div_pos (Nat.le_of_dvd (by decide) hb) hb0
  have := pack_fold a b (64 / b) hb0 hbn ha (64 / b - 1) (by omega)
  rw [Nat.sub_add_cancel hn] at this
  exact this

theorem chunk_eq (a : List Nat) (b n : Nat) (hbn : b * n = 64) (ha : ∀ x ∈ a, x < 2 ^ b) (r : Nat) :
    stream b ((a.drop (r * n)).take n) = (stream b a >>> (64 * r)) % 2 ^ 64 := by
  have h1 : ∀ x ∈ a.drop (r * n), x < 2 ^ b := fun x hx => ha x (List.mem_of_mem_drop hx)
  rw [← stream_mod_pow b _ h1, ← stream_shiftRight b a ha, hbn]
  congr 2
  rw [← hbn, Nat.mul_assoc, Nat.mul_comm r n]

end Proofs.BitPack
