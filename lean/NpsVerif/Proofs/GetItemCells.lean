import NpsVerif.Proofs.GetItemSel
import NpsVerif.Gen.Bridge.view2_ends
import NpsVerif.Props.C02Assumed
/-! C02, steps 3-5 (cell level): what a (start, len) code, a flat element index and a
(start, length, step) view row address in the flat buffer. -/
namespace Model
open Np Props.C02

/-- the row stored at code `c` -/
def cut {α} (data : List α) (c : Nat × Nat) : List α := (data.drop c.1).take c.2

theorem cut_length {α} (data : List α) (c : Nat × Nat) (h : c.1 + c.2 ≤ data.length) :
    (cut data c).length = c.2 := by
  simp [cut]; omega

theorem cut_getElem? {α} (data : List α) (c : Nat × Nat) (i : Nat) (hi : i < c.2) :
    (cut data c)[i]? = data[c.1 + i]? := by
  simp [cut, hi]

/-! ### integer column of one row (`_get_element`, `col_slice(int)`) -/

/-- `normIdx` as the guard + wrap of `_get_element` -/
theorem normIdx_eq_guard (l : Nat) (j : Int) :
    normIdx l j = if j ≥ (l : Int) ∨ j < -(l : Int) then none
      else some (if j < 0 then (l : Int) + j else j).toNat := by
  unfold normIdx
  (repeat' split) <;> first | rfl | omega

/-- reading column `j` of the row stored at `c` = reading the flat cell `c.1 + normIdx j` -/
theorem getIdx_cut {α} (data : List α) (c : Nat × Nat) (h : c.1 + c.2 ≤ data.length) (j : Int) :
    getIdx (cut data c) j = (normIdx c.2 j).bind (fun (m : Nat) => getIdx data ((c.1 : Int) + (m : Int))) := by
  unfold getIdx
  rw [cut_length data c h]
  cases hn : normIdx c.2 j with
  | none => rfl
  | some m =>
    have hm := normIdx_lt hn
    simp only [Option.bind_some]
    rw [cut_getElem? data c m hm]
    have : normIdx data.length ((c.1 : Int) + (m : Int)) = some (c.1 + m) := by
      unfold normIdx
      rw [if_pos (by omega), if_pos (by omega)]
      congr 1
    rw [this]
    rfl

/-- the flat index computed by `_get_element` for one (row, col) pair whose row code is `(s, l)` -/
def elemIdx (s l : Nat) (j : Int) : Option Int :=
  if j ≥ (l : Int) ∨ j < -(l : Int) then none
  else some ((s : Int) + (if j < 0 then (l : Int) + j else j))

theorem elemIdx_eq (s l : Nat) (j : Int) :
    elemIdx s l j = (normIdx l j).map (fun (m : Nat) => (s : Int) + (m : Int)) := by
  rw [normIdx_eq_guard]
  unfold elemIdx
  split
  · rfl
  · simp only [Option.map_some]
    congr 2
    split <;> omega

theorem elemIdx_getIdx {α} (data : List α) (c : Nat × Nat) (h : c.1 + c.2 ≤ data.length) (j : Int) :
    (elemIdx c.1 c.2 j).bind (getIdx data) = getIdx (cut data c) j := by
  rw [getIdx_cut data c h, elemIdx_eq]
  cases normIdx c.2 j <;> rfl

/-! ### gathers -/

/-- a gather whose indices are all in `[0, n)` never refuses and never wraps -/
theorem gather_in_range_gi {α} (data : List α) (idx : List Int)
    (h : ∀ i ∈ idx, 0 ≤ i ∧ i < data.length) :
    gather data idx = some (idx.filterMap (fun i => data[i.toNat]?)) := by
  induction idx with
  | nil => simp [gather]
  | cons i is ih =>
    have hi := h i (by simp)
    have := ih (fun j hj => h j (by simp [hj]))
    unfold gather at this ⊢
    rw [mapM_cons', this, getIdx_nonneg data i hi.1 hi.2]
    have hlt : i.toNat < data.length := by omega
    rw [List.getElem?_eq_getElem hlt]
    simp [List.getElem?_eq_getElem hlt]

theorem gather_flatten_in_range {α} (data : List α) (cells : List (List Int))
    (h : ∀ r ∈ cells, ∀ i ∈ r, 0 ≤ i ∧ i < data.length) :
    gather data cells.flatten
      = some ((cells.map (fun r => r.filterMap (fun i => data[i.toNat]?))).flatten) := by
  rw [gather_in_range_gi data cells.flatten]
  · rw [List.filterMap_flatten]
  · intro i hi
    rw [List.mem_flatten] at hi
    obtain ⟨r, hr, hir⟩ := hi
    exact h r hr i hir

/-! ### flat indices of a `RaggedView2` -/

/-- `RaggedView2._get_flat_indices()` of rows sharing one column step: the concatenated cells -/
theorem view2FlatIndices_eq_gi (rows : List Row3) (k : Int)
    (hk : ∀ r ∈ rows, r.2.2 = k) (hl : ∀ r ∈ rows, 0 ≤ r.2.1) :
    view2FlatIndices rows = (rows.map cellsOf).flatten := by
  unfold view2FlatIndices
  cases rows with
  | nil =>
    have := C02_build_indices 1 []
    simpa using this
  | cons r0 rs =>
    have hstep : (((r0 :: rs).head?.map (·.2.2)).getD 1) = k := by
      simpa using hk r0 (by simp)
    simp only [hstep]
    have h1 : (r0 :: rs).map (fun r => (r.1, Gen.Cur.view2_ends r.2.1 r.1 r.2.2, r.2.1.toNat))
        = ((r0 :: rs).map (fun r => (r.1, r.2.1.toNat))).map
            (fun r => (r.1, r.1 + ((r.2 : Int) - 1) * k + 1, r.2)) := by
      rw [List.map_map]
      apply List.map_congr_left
      intro r hr
      have e1 := hk r hr
      have e2 := hl r hr
      simp only [Function.comp, Gen.Bridge.view2_ends_bridge, Gen.Ref.view2_ends, e1]
      rw [Int.toNat_of_nonneg e2]
    rw [h1, C02_build_indices, List.map_map]
    congr 1
    apply List.map_congr_left
    intro r hr
    simp [cellsOf, hk r hr]

/-! ### slice column of one row (`col_slice(slice)`) -/

theorem sliceLen_nonneg (len : Int) (a b : Option Int) (k : Int) : 0 ≤ Py.sliceLen len a b k := by
  unfold Py.sliceLen
  simp only []
  split <;> split
  · have : 0 ≤ (Py.adjStart len a k - Py.adjStop len b k - 1) / (-k) :=
      Int.ediv_nonneg (by omega) (by omega)
    omega
  · omega
  · have : 0 ≤ (Py.adjStop len b k - Py.adjStart len a k - 1) / k :=
      Int.ediv_nonneg (by omega) (by omega)
    omega
  · omega

/-- the view row produced by `col_slice(slice)` on the unit-stride row stored at `c` -/
def sliceRow (c : Nat × Nat) (x y k : Option Int) : Row3 :=
  Gen.Cur.col_slice_slice (c.2 : Int) (c.1 : Int) 1 x y k

theorem sliceRow_step (c : Nat × Nat) (x y k : Option Int) (hk : k ≠ some 0) :
    (sliceRow c x y k).2.2 = 1 * k.getD 1 :=
  (C02_col_slice_triple c.2 c.1 1 x y k hk).2.1

theorem sliceRow_len_nonneg (c : Nat × Nat) (x y k : Option Int) (hk : k ≠ some 0) :
    0 ≤ (sliceRow c x y k).2.1 := by
  unfold sliceRow
  rw [(C02_col_slice_triple c.2 c.1 1 x y k hk).1]
  exact sliceLen_nonneg _ _ _ _

theorem sliceRow_cells (c : Nat × Nat) (x y k : Option Int) (hk : k ≠ some 0) :
    cellsOf (sliceRow c x y k) = (Py.sliceIdx c.2 x y (k.getD 1)).map (fun i => (c.1 : Int) + i) := by
  unfold sliceRow
  rw [C02_col_slice_cells c.2 c.1 1 x y k hk]
  apply List.map_congr_left
  intro i _
  omega

theorem sliceRow_in_range {α} (data : List α) (c : Nat × Nat) (h : c.1 + c.2 ≤ data.length)
    (x y k : Option Int) (hk : k ≠ some 0) :
    ∀ i ∈ cellsOf (sliceRow c x y k), 0 ≤ i ∧ i < data.length := by
  intro i hi
  rw [sliceRow_cells c x y k hk, List.mem_map] at hi
  obtain ⟨p, hp, rfl⟩ := hi
  have hk' : k.getD 1 ≠ 0 := fun e => hk ((getD_one_eq_zero k).mp e)
  have := C02_sliceIdx_in_range c.2 x y (k.getD 1) hk' p hp
  omega

/-- the cells addressed by the sliced view row are CPython's slice of the stored row -/
theorem sliceRow_read {α} (data : List α) (c : Nat × Nat) (h : c.1 + c.2 ≤ data.length)
    (x y k : Option Int) (hk : k ≠ some 0) :
    (cellsOf (sliceRow c x y k)).filterMap (fun i => data[i.toNat]?)
      = Py.slice (cut data c) x y (k.getD 1) := by
  rw [sliceRow_cells c x y k hk, List.filterMap_map]
  unfold Py.slice
  rw [cut_length data c h]
  apply filterMap_congr'
  intro p hp
  have hk' : k.getD 1 ≠ 0 := fun e => hk ((getD_one_eq_zero k).mp e)
  have hr := C02_sliceIdx_in_range c.2 x y (k.getD 1) hk' p hp
  simp only [Function.comp, if_pos hr.1]
  rw [cut_getElem? data c p.toNat (by omega)]
  congr 1
  omega

end Model
