import NpsVerif.Proofs.RLIndexInt
/-! # Run-length arrays: sub-range extraction `_start_to_end` -/
namespace Proofs.RLIndex
open Model Model.RLA
variable {α : Type}

theorem pairwise_of_getElem? {β : Type} {R : β → β → Prop} {l : List β}
    (h : ∀ (i j : Nat) a b, i < j → l[i]? = some a → l[j]? = some b → R a b) : l.Pairwise R := by
  rw [List.pairwise_iff_getElem]
  intro i j hi hj hij
  exact h i j _ _ hij (List.getElem?_eq_getElem hi) (List.getElem?_eq_getElem hj)

theorem pairwise_getElem? {β : Type} {R : β → β → Prop} {l : List β} (hp : l.Pairwise R)
    {i j : Nat} {a b : β} (hij : i < j) (ha : l[i]? = some a) (hb : l[j]? = some b) : R a b := by
  rw [List.pairwise_iff_getElem] at hp
  obtain ⟨hi, rfl⟩ := List.getElem?_eq_some_iff.1 ha
  obtain ⟨hj, rfl⟩ := List.getElem?_eq_some_iff.1 hb
  exact hp i j hi hj hij

/-- the boundaries computed by `_start_to_end`, as a function of the two run indices -/
def steEvents (ev : List Nat) (s e si ei : Nat) : List Nat :=
  let ev0 := (Np.sliceNat ev si (ei + 1)).map (· - s)
  let ev1 := ev0.set 0 0
  ev1.set (ev1.length - 1) (e - s)

theorem steEvents_length (ev : List Nat) (s e si ei : Nat) (hL : ei < ev.length) (hsi : si ≤ ei) :
    (steEvents ev s e si ei).length = ei + 1 - si := by
  simp only [steEvents, Np.sliceNat, List.length_set, List.length_map, List.length_take,
    List.length_drop]
  omega

theorem steEvents_getElem? (ev : List Nat) (s e si ei j x : Nat) (hL : ei < ev.length)
    (hsi : si ≤ ei) (hj : j ≤ ei - si) (hx : ev[si + j]? = some x) :
    (steEvents ev s e si ei)[j]? =
      some (if j = ei - si then e - s else if j = 0 then 0 else x - s) := by
  have hlen : ((Np.sliceNat ev si (ei + 1)).map (· - s)).length = ei + 1 - si := by
    simp only [Np.sliceNat, List.length_map, List.length_take, List.length_drop]; omega
  simp only [steEvents, List.length_set, hlen, List.getElem?_set]
  have e1 : ei + 1 - si - 1 = ei - si := by omega
  rw [e1]
  by_cases h1 : j = ei - si
  · rw [if_pos h1.symm, if_pos (by omega), if_pos h1]
  · rw [if_neg (fun h => h1 h.symm), if_neg h1]
    by_cases h2 : j = 0
    · rw [if_pos h2.symm, if_pos (by omega), if_pos h2]
    · rw [if_neg (fun h => h2 h.symm), if_neg h2]
      simp only [Np.sliceNat, List.getElem?_map, List.getElem?_take, List.getElem?_drop]
      rw [if_pos (by omega), hx]; rfl

theorem startToEnd_eq (r : RLA α) (s e : Nat) :
    r.startToEnd s e =
      (steEvents r.events s e (Np.searchsortedRightNat r.events s - 1) (Np.searchsortedLeftNat r.events e),
       Np.sliceNat r.values (Np.searchsortedRightNat r.events s - 1) (Np.searchsortedLeftNat r.events e)) := rfl

/-- index facts for `_start_to_end` on a valid array -/
theorem ste_indices (r : RLA α) (h : r.Valid) (s e : Nat) (hse : s < e) (he : e ≤ r.len) :
    1 ≤ Np.searchsortedRightNat r.events s ∧
    Np.searchsortedRightNat r.events s ≤ Np.searchsortedLeftNat r.events e ∧
    Np.searchsortedLeftNat r.events e < r.events.length := by
  obtain ⟨h0, hl, hpw⟩ := (valid_iff r).1 h
  have hmono := mono_of_strict hpw
  obtain ⟨a, b, c1, c2, _⟩ :=
    run_at r.events hmono s 0 r.len (valid_head r h) (valid_getLast r h) (Nat.zero_le _) (by omega)
  refine ⟨c1, ?_, ?_⟩
  · unfold Np.searchsortedRightNat Np.searchsortedLeftNat
    apply List.countP_mono_left
    intro x _ hx
    simp only [decide_eq_true_eq] at *; omega
  · unfold Np.searchsortedLeftNat
    rcases Nat.lt_or_ge (r.events.countP (· < e)) r.events.length with h' | h'
    · exact h'
    · exfalso
      have hle := List.countP_le_length (p := (fun x => decide (x < e))) (l := r.events)
      have hlt : r.events.length - 1 < r.events.countP (· < e) := by omega
      rw [lt_countP_iff _ (lt_antitone e) r.events hmono _ (by omega)] at hlt
      have hL := valid_getLast r h
      rw [List.getLast?_eq_getElem?, List.getElem?_eq_getElem (by omega)] at hL
      have := Option.some.inj hL
      simp only [decide_eq_true_eq] at hlt
      omega

theorem events_gt_of_ge (ev : List Nat) (hmono : ev.Pairwise (· ≤ ·)) (s t x : Nat)
    (ht : Np.searchsortedRightNat ev s ≤ t) (hx : ev[t]? = some x) : s < x := by
  obtain ⟨hlt, rfl⟩ := List.getElem?_eq_some_iff.1 hx
  have := lt_countP_iff _ (le_antitone s) ev hmono t hlt
  unfold Np.searchsortedRightNat at ht
  simp only [decide_eq_true_eq] at this
  omega

theorem events_lt_of_lt (ev : List Nat) (hmono : ev.Pairwise (· ≤ ·)) (e t x : Nat)
    (ht : t < Np.searchsortedLeftNat ev e) (hx : ev[t]? = some x) : x < e := by
  obtain ⟨hlt, rfl⟩ := List.getElem?_eq_some_iff.1 hx
  have := lt_countP_iff _ (lt_antitone e) ev hmono t hlt
  unfold Np.searchsortedLeftNat at ht
  simp only [decide_eq_true_eq] at this
  omega

theorem startToEnd_valid (r : RLA α) (h : r.Valid) (s e : Nat) (hse : s < e) (he : e ≤ r.len) :
    (RLA.mk (r.startToEnd s e).1 (r.startToEnd s e).2).Valid := by
  obtain ⟨h0, hl, hpw⟩ := (valid_iff r).1 h
  have hmono := mono_of_strict hpw
  obtain ⟨i1, i2, i3⟩ := ste_indices r h s e hse he
  rw [startToEnd_eq]
  generalize hsi : Np.searchsortedRightNat r.events s - 1 = si at *
  generalize hei : Np.searchsortedLeftNat r.events e = ei at *
  have hlen := steEvents_length r.events s e si ei i3 (by omega)
  have get : ∀ j, j ≤ ei - si → ∃ x, r.events[si + j]? = some x ∧
      (steEvents r.events s e si ei)[j]? =
        some (if j = ei - si then e - s else if j = 0 then 0 else x - s) := by
    intro j hj
    have hlt : si + j < r.events.length := by omega
    exact ⟨_, List.getElem?_eq_getElem hlt,
      steEvents_getElem? r.events s e si ei j _ i3 (by omega) hj (List.getElem?_eq_getElem hlt)⟩
  rw [valid_iff]
  refine ⟨?_, ?_, ?_⟩
  · obtain ⟨x, _, hx⟩ := get 0 (by omega)
    rw [List.head?_eq_getElem?, hx, if_neg (by omega)]; rfl
  · simp only [hlen, Np.sliceNat, List.length_take, List.length_drop]; omega
  · apply pairwise_of_getElem?
    intro i j a b hij ha hb
    have hj : j ≤ ei - si := by
      have : j < (steEvents r.events s e si ei).length := (List.getElem?_eq_some_iff.1 hb).1
      omega
    obtain ⟨x, hx, hx'⟩ := get i (by omega)
    obtain ⟨y, hy, hy'⟩ := get j hj
    rw [hx'] at ha; rw [hy'] at hb
    have ha := Option.some.inj ha
    have hb := Option.some.inj hb
    rw [if_neg (by omega)] at ha
    rw [if_neg (by omega : ¬ j = 0)] at hb
    have hxy : x < y := pairwise_getElem? hpw (by omega) hx hy
    have hy_s : s < y := events_gt_of_ge r.events hmono s (si + j) y (by omega) hy
    have hx_e : x < e := by
      apply events_lt_of_lt r.events hmono e (si + i) x _ hx
      rw [hei]; omega
    split at ha <;> split at hb <;> omega

theorem startToEnd_decode (r : RLA α) (h : r.Valid) (s e : Nat) (hse : s < e) (he : e ≤ r.len) :
    (RLA.mk (r.startToEnd s e).1 (r.startToEnd s e).2).decode = (r.decode.drop s).take (e - s) := by
  have hv := startToEnd_valid r h s e hse he
  obtain ⟨h0, hl, hpw⟩ := (valid_iff r).1 h
  obtain ⟨h0', hl', hpw'⟩ := (valid_iff _).1 hv
  have hmono := mono_of_strict hpw
  obtain ⟨i1, i2, i3⟩ := ste_indices r h s e hse he
  have hdl := len_eq_decode_length r h
  rw [startToEnd_eq] at *
  generalize hsi : Np.searchsortedRightNat r.events s - 1 = si at *
  generalize hei : Np.searchsortedLeftNat r.events e = ei at *
  simp only [] at h0' hl' hpw'
  have hlen := steEvents_length r.events s e si ei i3 (by omega)
  have hlast : (steEvents r.events s e si ei).getLast? = some (e - s) := by
    obtain ⟨x, hx⟩ : ∃ x, r.events[si + (ei - si)]? = some x :=
      ⟨_, List.getElem?_eq_getElem (by omega)⟩
    rw [List.getLast?_eq_getElem?, hlen]
    have := steEvents_getElem? r.events s e si ei (ei - si) x i3 (by omega) (Nat.le_refl _) hx
    rw [if_pos rfl] at this
    rw [← this]; congr 1; omega
  have hhead : (steEvents r.events s e si ei)[0]? = some 0 := by
    rw [← List.head?_eq_getElem?]; exact h0'
  apply List.ext_getElem?
  intro p
  by_cases hp : p < e - s
  · rw [List.getElem?_take, if_pos hp, List.getElem?_drop]
    -- the run of the source containing s + p
    obtain ⟨a, b, c1, c2, ha, hb, h1, h2⟩ :=
      run_at r.events hmono (s + p) 0 r.len (valid_head r h) (valid_getLast r h)
        (Nat.zero_le _) (by omega)
    have hsrc := decode_run r.events r.values hl hmono _ (s + p) 0 a b (valid_head r h) ha hb h1 h2
    simp only [Nat.sub_zero] at hsrc
    rw [show r.decode = (RLA.mk r.events r.values).decode from rfl, hsrc]
    generalize hj : List.countP (fun x => decide (x ≤ s + p)) r.events - 1 = j at *
    have hsj : si ≤ j := by
      have : Np.searchsortedRightNat r.events s ≤ List.countP (fun x => decide (x ≤ s + p)) r.events := by
        unfold Np.searchsortedRightNat
        apply List.countP_mono_left
        intro x _ hx
        simp only [decide_eq_true_eq] at *; omega
      omega
    have hje : j < ei := by
      have : List.countP (fun x => decide (x ≤ s + p)) r.events ≤ Np.searchsortedLeftNat r.events e := by
        unfold Np.searchsortedLeftNat
        apply List.countP_mono_left
        intro x _ hx
        simp only [decide_eq_true_eq] at *; omega
      omega
    have ha' := steEvents_getElem? r.events s e si ei (j - si) a i3 (by omega) (by omega)
      (by rw [← ha]; congr 1; omega)
    have hb' := steEvents_getElem? r.events s e si ei (j - si + 1) b i3 (by omega) (by omega)
      (by rw [← hb]; congr 1; omega)
    have := decode_run (steEvents r.events s e si ei) (Np.sliceNat r.values si ei) hl'
      (mono_of_strict hpw') (j - si) p 0 _ _ hhead ha' hb'
      (by (repeat' split) <;> omega) (by (repeat' split) <;> omega)
    simp only [Nat.sub_zero] at this
    rw [this]
    simp only [Np.sliceNat, List.getElem?_take, List.getElem?_drop]
    rw [if_pos (by omega)]; congr 1; omega
  · rw [List.getElem?_eq_none, List.getElem?_eq_none]
    · simp only [List.length_take, List.length_drop]; omega
    · rw [decode_length _ _ hl' (mono_of_strict hpw') 0 (e - s) hhead hlast]; omega

end Proofs.RLIndex
