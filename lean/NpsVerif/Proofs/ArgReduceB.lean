import NpsVerif.Proofs.ArgReduceA
import NpsVerif.Props.C04
import NpsVerif.Props.C05
/-!
# `_first_position_of`, `argmax`, `argmin` row by row (helpers for property C05, part B)
-/
namespace Proofs.ArgReduce
open Model Np Proofs.StructA Proofs.UfuncRows

variable {α : Type}

/-- the column comparison returns the RaggedArray of the compared rows (same shape) -/
theorem column_right_ra {β γ : Type} [XorLike β] (f : α → β → γ) (rows : List (List α)) (col : List β)
    (h : col.length = rows.length) :
    ufuncRight f (RA.ofRows rows) (.column col)
      = some (RA.ofRows (List.zipWith (fun r c => r.map (f · c)) rows col)) := by
  simp only [ufuncRight, RA.ofRows]
  rw [column_right_flat f _ _ col rows.flatten (by simpa using h) (by simp [List.length_flatten]),
    zipWith_flatten_column_right, lengths_zipWith_map f rows col h]

theorem findIdx_rows (eq : α → α → Bool) (rows : List (List α)) (vals : List α) :
    (List.zipWith (fun r c => r.map (eq · c)) rows vals).map (fun b => (b.findIdx? id).getD 0)
      = List.zipWith (fun row v => (row.findIdx? (fun x => eq x v)).getD 0) rows vals := by
  induction rows generalizing vals with
  | nil => simp
  | cons r rs ih =>
    cases vals with
    | nil => simp
    | cons v vs =>
      simp only [List.zipWith_cons_cons, List.map_cons, ih vs, List.findIdx?_map]
      rfl

theorem first_position_of [XorLike α] (eq : α → α → Bool) (rows : List (List α)) (vals : List α)
    (h : vals.length = rows.length) :
    firstPositionOf eq (RA.ofRows rows) vals
      = some (List.zipWith (fun row v => (row.findIdx? (fun x => eq x v)).getD 0) rows vals) := by
  unfold firstPositionOf
  rw [column_right_ra eq rows vals h, Option.bind_some, Props.C08.C08_nonzero, Option.map_some,
    ofRows_len]
  simp only []
  have hl : (List.zipWith (fun r c => r.map (eq · c)) rows vals).length = rows.length := by
    simp [h]
  rw [← hl, scatter_firsts, findIdx_rows]

/-! ## maximum / minimum of a non-empty row -/

theorem foldl_max_spec (l : List Int) (a : Int) :
    (l.foldl max a = a ∨ l.foldl max a ∈ l) ∧ a ≤ l.foldl max a ∧ ∀ x ∈ l, x ≤ l.foldl max a := by
  induction l generalizing a with
  | nil => simp
  | cons y ys ih =>
    obtain ⟨h1, h2, h3⟩ := ih (max a y)
    simp only [List.foldl_cons, List.mem_cons]
    refine ⟨?_, by omega, ?_⟩
    · rcases h1 with h1 | h1
      · rw [h1]; omega
      · exact Or.inr (Or.inr h1)
    · intro x hx
      rcases hx with rfl | hx
      · omega
      · exact h3 x hx

theorem foldl_min_spec (l : List Int) (a : Int) :
    (l.foldl min a = a ∨ l.foldl min a ∈ l) ∧ l.foldl min a ≤ a ∧ ∀ x ∈ l, l.foldl min a ≤ x := by
  induction l generalizing a with
  | nil => simp
  | cons y ys ih =>
    obtain ⟨h1, h2, h3⟩ := ih (min a y)
    simp only [List.foldl_cons, List.mem_cons]
    refine ⟨?_, by omega, ?_⟩
    · rcases h1 with h1 | h1
      · rw [h1]; omega
      · exact Or.inr (Or.inr h1)
    · intro x hx
      rcases hx with rfl | hx
      · omega
      · exact h3 x hx

theorem maxOf_spec (row : List Int) (hne : row ≠ []) : maxOf row ∈ row ∧ ∀ x ∈ row, x ≤ maxOf row := by
  cases row with
  | nil => exact absurd rfl hne
  | cons a l =>
    obtain ⟨h1, h2, h3⟩ := foldl_max_spec (a :: l) a
    simp only [maxOf, List.headD_cons]
    refine ⟨?_, h3⟩
    rcases h1 with h1 | h1
    · rw [h1]; simp
    · exact h1

theorem minOf_spec (row : List Int) (hne : row ≠ []) : minOf row ∈ row ∧ ∀ x ∈ row, minOf row ≤ x := by
  cases row with
  | nil => exact absurd rfl hne
  | cons a l =>
    obtain ⟨h1, h2, h3⟩ := foldl_min_spec (a :: l) a
    simp only [minOf, List.headD_cons]
    refine ⟨?_, h3⟩
    rcases h1 with h1 | h1
    · rw [h1]; simp
    · exact h1

/-- first position of a value that occurs in the row -/
theorem findIdx_mem (row : List Int) (m : Int) (hm : m ∈ row) :
    ∃ j, (row.findIdx? (fun x => x == m)).getD 0 = j ∧ row[j]? = some m ∧
      ∀ k x, k < j → row[k]? = some x → x ≠ m := by
  induction row with
  | nil => simp at hm
  | cons a l ih =>
    rw [List.findIdx?_cons]
    by_cases ha : a = m
    · subst ha
      refine ⟨0, by simp, by simp, fun k x hk => absurd hk (Nat.not_lt_zero _)⟩
    · have hm' : m ∈ l := by
        rcases List.mem_cons.mp hm with h | h
        · exact absurd h.symm ha
        · exact h
      obtain ⟨j, hj, hjm, hlt⟩ := ih hm'
      have hbeq : (a == m) = false := by simpa using ha
      obtain ⟨j', hj'⟩ : ∃ j', l.findIdx? (fun x => x == m) = some j' := by
        cases hf : l.findIdx? (fun x => x == m) with
        | some j' => exact ⟨j', rfl⟩
        | none =>
          rw [List.findIdx?_eq_none_iff] at hf
          have := hf m hm'
          simp at this
      rw [hj'] at hj
      simp only [Option.getD_some] at hj
      subst hj
      refine ⟨j' + 1, by simp [hbeq, hj'], by simpa using hjm, ?_⟩
      intro k x hk hx
      cases k with
      | zero =>
        simp only [List.getElem?_cons_zero, Option.some.injEq] at hx
        subst hx; exact ha
      | succ k =>
        simp only [List.getElem?_cons_succ] at hx
        exact hlt k x (by omega) hx

/-- `reduceRows red none 0` then `_first_position_of` with `==` -/
theorem arg_generic (red : List Int → Int) (rows : List (List Int)) :
    ∃ r, (reduceRows red none 0 (RA.ofRows rows)).bind
            (firstPositionOf (fun x y => x == y) (RA.ofRows rows)) = some r ∧
      r.length = rows.length ∧
      (∀ (i : Nat) (row : List Int), rows[i]? = some row → row ≠ [] →
        r[i]? = some ((row.findIdx? (fun x => x == red row)).getD 0)) ∧
      (∀ i : Nat, rows[i]? = some [] → r[i]? = some 0) := by
  obtain ⟨v, hv, hlen, hspec⟩ := Props.C05.C05_reduce_no_identity red (0 : Int) rows
  refine ⟨_, by rw [hv, Option.bind_some, first_position_of _ rows v hlen], by simp [hlen], ?_, ?_⟩
  · intro i row hi hne
    rw [List.getElem?_zipWith, hi, hspec i row hi hne]
  · intro i hi
    have hlt : i < v.length := by
      have := (List.getElem?_eq_some_iff.mp hi).1
      omega
    rw [List.getElem?_zipWith, hi, List.getElem?_eq_getElem hlt]
    rfl

theorem argmax_spec (rows : List (List Int)) :
    ∃ r, argmaxRows (RA.ofRows rows) = some r ∧ r.length = rows.length ∧
      (∀ (i : Nat) (row : List Int), rows[i]? = some row → row ≠ [] →
        ∃ j m, r[i]? = some j ∧ row[j]? = some m ∧ (∀ x ∈ row, x ≤ m) ∧
          ∀ k x, k < j → row[k]? = some x → x < m) ∧
      (∀ i : Nat, rows[i]? = some [] → r[i]? = some 0) := by
  obtain ⟨r, hr, hlen, hne, hemp⟩ := arg_generic maxOf rows
  refine ⟨r, hr, hlen, ?_, hemp⟩
  intro i row hi hrow
  obtain ⟨hmem, hmax⟩ := maxOf_spec row hrow
  obtain ⟨j, hj, hjm, hlt⟩ := findIdx_mem row (maxOf row) hmem
  refine ⟨j, maxOf row, by rw [hne i row hi hrow, hj], hjm, hmax, ?_⟩
  intro k x hk hx
  have h1 := hlt k x hk hx
  have h2 := hmax x (List.mem_of_getElem? hx)
  omega

theorem argmin_spec (rows : List (List Int)) :
    ∃ r, argminRows (RA.ofRows rows) = some r ∧ r.length = rows.length ∧
      (∀ (i : Nat) (row : List Int), rows[i]? = some row → row ≠ [] →
        ∃ j m, r[i]? = some j ∧ row[j]? = some m ∧ (∀ x ∈ row, m ≤ x) ∧
          ∀ k x, k < j → row[k]? = some x → m < x) ∧
      (∀ i : Nat, rows[i]? = some [] → r[i]? = some 0) := by
  obtain ⟨r, hr, hlen, hne, hemp⟩ := arg_generic minOf rows
  refine ⟨r, hr, hlen, ?_, hemp⟩
  intro i row hi hrow
  obtain ⟨hmem, hmin⟩ := minOf_spec row hrow
  obtain ⟨j, hj, hjm, hlt⟩ := findIdx_mem row (minOf row) hmem
  refine ⟨j, minOf row, by rw [hne i row hi hrow, hj], hjm, hmin, ?_⟩
  intro k x hk hx
  have h1 := hlt k x hk hx
  have h2 := hmin x (List.mem_of_getElem? hx)
  omega

end Proofs.ArgReduce
