import NpsVerif.Model.RunLength2dArg
import NpsVerif.Proofs.RL2Basic
import NpsVerif.Proofs.RLIndexBase
import NpsVerif.Proofs.ArgReduceB
/-!
# Ragged run-length arrays: `argmax(axis=-1)` (C17, part D)

Per row: the first run holding the maximum of the run values starts at the first position of the
maximum of the decoded row.
* `mem_dec`: every decoded cell is a run value;
* `dec_before`: a cell left of boundary `j` belongs to a run `c < j`;
* `row_argmax`: the per-row statement on a valid run-length row;
* `argmax_spec`: the whole array (through `Proofs.ArgReduce.argmax_spec` on the run values).
-/
namespace Proofs.RL2Argmax
open Model Model.RL2 Model.RLA Proofs.RLIndex Proofs.RL2

variable {α β γ : Type}

/-- every decoded cell is one of the run values -/
theorem mem_dec (lo : Nat) (es : List Nat) (vs : List α) (x : α) (h : x ∈ dec lo es vs) : x ∈ vs := by
  induction es generalizing lo vs with
  | nil => simp [dec] at h
  | cons e es ih =>
    cases vs with
    | nil => simp [dec] at h
    | cons v vs =>
      simp only [dec, List.mem_append] at h
      rcases h with h | h
      · have := (List.mem_replicate.1 h).2
        simp [this]
      · exact List.mem_cons_of_mem _ (ih e vs h)

/-- a cell left of boundary number `j` belongs to a run `c < j` -/
theorem dec_before (lo : Nat) (es : List Nat) (vs : List α) (hlen : es.length = vs.length)
    (hmono : (lo :: es).Pairwise (· ≤ ·)) (j p : Nat) (hp : (lo :: es)[j]? = some p)
    (k : Nat) (x : α) (hk : k + lo < p) (hx : (dec lo es vs)[k]? = some x) :
    ∃ c, c < j ∧ vs[c]? = some x := by
  induction es generalizing lo vs j k with
  | nil => simp [dec] at hx
  | cons e es ih =>
    cases vs with
    | nil => simp at hlen
    | cons v vs =>
      have hm := List.pairwise_cons.1 hmono
      have hloe : lo ≤ e := hm.1 e List.mem_cons_self
      cases j with
      | zero =>
        simp only [List.getElem?_cons_zero, Option.some.injEq] at hp
        omega
      | succ j =>
        simp only [List.getElem?_cons_succ] at hp
        simp only [dec] at hx
        by_cases hk1 : k < e - lo
        · rw [List.getElem?_append_left (by simpa using hk1), List.getElem?_replicate,
            if_pos hk1] at hx
          exact ⟨0, by omega, by simpa using hx⟩
        · rw [List.getElem?_append_right (by simp; omega)] at hx
          simp only [List.length_replicate] at hx
          obtain ⟨c, hc, hv⟩ := ih e vs (by simpa using hlen) hm.2 j hp (k - (e - lo)) (by omega) hx
          exact ⟨c + 1, by omega, by simpa using hv⟩

/-- the per-row statement: if `j` is the first run holding the maximum `m` of the run values, boundary
`ix[j]` is the first position of the maximum of the decoded row -/
theorem row_argmax (ix : List Nat) (vs : List Int) (hv : (RLA.mk ix vs).Valid) (j : Nat) (m : Int)
    (hj : vs[j]? = some m) (hmax : ∀ x ∈ vs, x ≤ m)
    (hfirst : ∀ k x, k < j → vs[k]? = some x → x < m) :
    ∃ p, ix[j]? = some p ∧ (RLA.mk ix vs).decode[p]? = some m ∧
      (∀ x ∈ (RLA.mk ix vs).decode, x ≤ m) ∧
      ∀ k x, k < p → (RLA.mk ix vs).decode[k]? = some x → x < m := by
  obtain ⟨es, hev, hlen, hpw⟩ := valid_cons hv
  simp only at hev hlen
  subst hev
  rw [decode_cons]
  have hmono := mono_of_strict hpw
  have hjl : j < vs.length := (List.getElem?_eq_some_iff.1 hj).1
  have hj1 : j < (0 :: es).length := by simp; omega
  have hj2 : j < es.length := by omega
  have ha : (0 :: es)[j]? = some ((0 :: es)[j]) := List.getElem?_eq_getElem hj1
  have hb : es[j]? = some (es[j]) := List.getElem?_eq_getElem hj2
  have hlt : (0 :: es)[j] < es[j] := by
    have := (List.pairwise_iff_getElem.1 hpw) j (j + 1) hj1 (by simp; omega) (by omega)
    simpa using this
  refine ⟨(0 :: es)[j], ha, ?_, ?_, ?_⟩
  · have := dec_run 0 es vs hlen hmono j _ _ _ ha hb (Nat.le_refl _) hlt
    rw [hj] at this
    simpa using this
  · intro x hx
    exact hmax x (mem_dec _ _ _ _ hx)
  · intro k x hk hx
    obtain ⟨c, hc, hcv⟩ := dec_before 0 es vs hlen hmono j _ ha k x (by omega) hx
    exact hfirst c x hc hcv

/-- a `mapM` whose function succeeds on every member succeeds -/
theorem mapM_exists (f : β → Option γ) (l : List β) (h : ∀ a ∈ l, ∃ y, f a = some y) :
    ∃ ys, l.mapM f = some ys := by
  induction l with
  | nil => exact ⟨[], by simp⟩
  | cons a l ih =>
    obtain ⟨y, hy⟩ := h a (by simp)
    obtain ⟨ys, hys⟩ := ih (fun b hb => h b (by simp [hb]))
    exact ⟨y :: ys, by rw [mapM_cons', hy, hys]; rfl⟩

/-- `argmax(axis=-1)` of the ragged run-length array: the first position of every row's maximum -/
theorem argmax_spec (r : RL2 Int) (hrl : r.rowLen = none) (hl : r.indices.length = r.values.length)
    (dense : List (List Int)) (hd : r.toRows = some dense) (hne : ∀ row ∈ dense, row ≠ []) :
    ∃ res, r.argmax = some res ∧ res.length = dense.length ∧
      ∀ (i : Nat) (row : List Int), dense[i]? = some row →
        ∃ j m, res[i]? = some j ∧ row[j]? = some m ∧ (∀ x ∈ row, x ≤ m) ∧
          ∀ k x, k < j → row[k]? = some x → x < m := by
  obtain ⟨cols, hcols, hclen, hcne, _⟩ := Proofs.ArgReduce.argmax_spec r.values
  have hdl := toRows_length r dense hd
  -- per row: the boundary picked exists and is the first position of the maximum
  have key : ∀ i, i < dense.length → ∃ ix j p m row, r.indices[i]? = some ix ∧ cols[i]? = some j ∧
      ix[j]? = some p ∧ dense[i]? = some row ∧ row[p]? = some m ∧ (∀ x ∈ row, x ≤ m) ∧
      ∀ k x, k < p → row[k]? = some x → x < m := by
    intro i hi
    obtain ⟨rla, hrow, hdi⟩ := toRows_row r dense hd i hi
    obtain ⟨ix, vs, hix, hvs, he, hval⟩ := row_some r i rla hrow
    rw [hrl] at he hval
    simp only [evs] at he hval
    subst he
    have hvne : vs ≠ [] := by
      intro h0
      subst h0
      have : (RLA.mk ix ([] : List Int)).decode = [] := by simp [decode]
      rw [this] at hdi
      exact hne [] (List.mem_of_getElem? hdi) rfl
    obtain ⟨j, m, hcj, hvj, hmax, hfirst⟩ := hcne i vs hvs hvne
    obtain ⟨p, hp, h1, h2, h3⟩ := row_argmax ix vs hval j m hvj hmax hfirst
    exact ⟨ix, j, p, m, _, hix, hcj, hp, hdi, h1, h2, h3⟩
  -- the `mapM` succeeds
  have hex : ∃ res, (r.indices.zip cols).mapM (fun ic => ic.1[ic.2]?) = some res := by
    apply mapM_exists
    intro a ha
    obtain ⟨i, hi, hai⟩ := List.getElem_of_mem ha
    have hi' : i < dense.length := by
      rw [List.length_zip] at hi
      omega
    obtain ⟨ix, j, p, m, row, hix, hcj, hp, _⟩ := key i hi'
    have hz : (r.indices.zip cols)[i]? = some (ix, j) := List.getElem?_zip_eq_some.2 ⟨hix, hcj⟩
    rw [List.getElem?_eq_getElem hi, hai] at hz
    have := Option.some.inj hz
    subst this
    exact ⟨p, hp⟩
  obtain ⟨res, hres⟩ := hex
  have hmap := (mapM_eq_some_iff _ _ _).1 hres
  have hrlen : res.length = dense.length := by
    have := congrArg List.length hmap
    simp only [List.length_map, List.length_zip] at this
    omega
  refine ⟨res, ?_, hrlen, ?_⟩
  · unfold RL2.argmax
    rw [hcols]
    exact hres
  · intro i row hrowi
    have hi : i < dense.length := (List.getElem?_eq_some_iff.1 hrowi).1
    obtain ⟨ix, j, p, m, row', hix, hcj, hp, hdi, h1, h2, h3⟩ := key i hi
    rw [hrowi] at hdi
    have := Option.some.inj hdi
    subst this
    refine ⟨p, m, ?_, h1, h2, h3⟩
    have hz : (r.indices.zip cols)[i]? = some (ix, j) := List.getElem?_zip_eq_some.2 ⟨hix, hcj⟩
    have h4 := congrArg (·[i]?) hmap
    simp only [List.getElem?_map, hz, Option.map_some, hp] at h4
    cases hri : res[i]? with
    | none => rw [hri] at h4; simp at h4
    | some q =>
      rw [hri] at h4
      simp only [Option.map_some, Option.some.injEq] at h4
      rw [h4]

end Proofs.RL2Argmax
