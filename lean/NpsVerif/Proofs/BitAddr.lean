import NpsVerif.Model.BitArray
import NpsVerif.Gen.Bridge.bit_addr
/-! The generated addressing kernel K11 computes `(idx / n, idx % n)` (C13). -/
namespace Proofs.BitAddr
open Model.BitArray

theorem ref_bit_addr (n i : Nat) (hn : 0 < n) :
    Gen.Ref.bit_addr 0 (n : Int) (i : Int) = (((i / n : Nat) : Int), ((i % n : Nat) : Int)) := by
  unfold Gen.Ref.bit_addr
  simp only [Int.add_zero]
  rw [Int.fdiv_eq_ediv_of_nonneg _ (Int.natCast_nonneg n), Int.fmod_eq_emod_of_nonneg _ (Int.natCast_nonneg n)]
  rfl

theorem getitemK_eq (data : List Nat) (b idx : Nat) (hn : 0 < 64 / b) :
    getitemK data b idx = getitem data b idx := by
  unfold getitemK getitem
  simp only []
  rw [Gen.Bridge.bit_addr_bridge 0 _ _ (by exact_mod_cast hn), ref_bit_addr _ _ hn]
  simp only [Int.toNat_natCast]
  rw [if_neg (by
    intro h
    rcases h with h | h
    · exact absurd h (Int.not_lt.mpr (Int.natCast_nonneg _))
    · exact absurd h (Int.not_lt.mpr (Int.natCast_nonneg _)))]

end Proofs.BitAddr
