import NpsVerif.Np.Basic
/-! Lemmas about prefix sums (shared by C01, C02, C05, C07, C09). -/
namespace Np

@[simp] theorem cumsumNatFrom_length (acc : Nat) (l : List Nat) : (cumsumNatFrom acc l).length = l.length := by
  induction l generalizing acc with
  | nil => rfl
  | cons x xs ih => simp [cumsumNatFrom, ih]

@[simp] theorem exclScanFrom_length (acc : Nat) (l : List Nat) : (exclScanFrom acc l).length = l.length := by
  induction l generalizing acc with
  | nil => rfl
  | cons x xs ih => simp [exclScanFrom, ih]

@[simp] theorem exclScan_length (l : List Nat) : (exclScan l).length = l.length := exclScanFrom_length 0 l

theorem cons_cumsumNatFrom_dropLast (acc : Nat) (l : List Nat) (h : l ≠ []) :
    acc :: (cumsumNatFrom acc l).dropLast = exclScanFrom acc l := by
  induction l generalizing acc with
  | nil => exact absurd rfl h
  | cons x xs ih =>
    cases xs with
    | nil => simp [cumsumNatFrom, exclScanFrom]
    | cons y t =>
      have := ih (acc + x) (by simp)
      simp only [cumsumNatFrom, exclScanFrom] at this ⊢
      simp only [List.dropLast_cons_cons]
      rw [this]

/-- the last inclusive prefix sum is the total -/
theorem cumsumNatFrom_getLast? (acc : Nat) (l : List Nat) (h : l ≠ []) :
    (cumsumNatFrom acc l).getLast? = some (acc + l.sum) := by
  induction l generalizing acc with
  | nil => exact absurd rfl h
  | cons x xs ih =>
    cases xs with
    | nil => simp [cumsumNatFrom]
    | cons y t =>
      have := ih (acc + x) (by simp)
      simp only [cumsumNatFrom] at this ⊢
      rw [List.getLast?_cons_cons, this]
      simp [Nat.add_assoc]

theorem exclScanFrom_getElem? (acc : Nat) (l : List Nat) (i : Nat) (hi : i < l.length) :
    (exclScanFrom acc l)[i]? = some (acc + (l.take i).sum) := by
  induction l generalizing acc i with
  | nil => simp at hi
  | cons x xs ih =>
    cases i with
    | zero => simp [exclScanFrom]
    | succ i =>
      simp only [exclScanFrom, List.getElem?_cons_succ, List.take_succ_cons, List.sum_cons]
      rw [ih (acc + x) i (by simpa using hi)]
      simp [Nat.add_assoc]

theorem exclScan_getElem? (l : List Nat) (i : Nat) (hi : i < l.length) :
    (exclScan l)[i]? = some ((l.take i).sum) := by
  simpa [exclScan] using exclScanFrom_getElem? 0 l i hi

end Np
