import NpsVerif.Proofs.RLIndexStep
import NpsVerif.Gen.Bridge.rl_slice_bounds
/-! # Run-length arrays: `_get_slice` = CPython's slice of the dense array -/
namespace Proofs.RLIndex
open Model Model.RLA Proofs.ColSlice
variable {α : Type}

/-! ## the reference kernel K8 -/

theorem ref_bounds_neg (n : Int) (a b k : Option Int) (hneg : k.getD 1 < 0) :
    Gen.Ref.rl_slice_bounds n a b k =
      (Py.adjStop n b (k.getD 1) + 1, Py.adjStart n a (k.getD 1) + 1, k.getD 1,
        decide (Py.adjStop n b (k.getD 1) + 1 ≥ Py.adjStart n a (k.getD 1) + 1)) := by
  simp [Gen.Ref.rl_slice_bounds, Gen.sliceIndices, hneg]

theorem ref_bounds_pos (n : Int) (a b k : Option Int) (hpos : ¬ k.getD 1 < 0) :
    Gen.Ref.rl_slice_bounds n a b k =
      (Py.adjStart n a (k.getD 1), Py.adjStop n b (k.getD 1), k.getD 1,
        decide (Py.adjStart n a (k.getD 1) ≥ Py.adjStop n b (k.getD 1))) := by
  simp [Gen.Ref.rl_slice_bounds, Gen.sliceIndices, hpos]

/-! ## a slice is a stride over the normalised forward range -/

theorem sliceLen_pos (n : Int) (a b : Option Int) (k : Int) (hk : 0 < k) :
    Py.sliceLen n a b k =
      if Py.adjStart n a k < Py.adjStop n b k then (Py.adjStop n b k - Py.adjStart n a k - 1) / k + 1 else 0 := by
  simp only [Py.sliceLen]; rw [if_neg (by omega)]

theorem sliceLen_neg (n : Int) (a b : Option Int) (k : Int) (hk : k < 0) :
    Py.sliceLen n a b k =
      if Py.adjStop n b k < Py.adjStart n a k then (Py.adjStart n a k - Py.adjStop n b k - 1) / (-k) + 1 else 0 := by
  simp only [Py.sliceLen]; rw [if_pos hk]

theorem slice_sub_pos (l : List α) (a b : Option Int) (K : Nat) (hK : 0 < K) :
    Py.slice l a b K =
      Py.slice ((l.drop (Py.adjStart l.length a K).toNat).take
        ((Py.adjStop l.length b K).toNat - (Py.adjStart l.length a K).toNat)) none none K := by
  have hK' : (0 : Int) < K := by omega
  obtain ⟨s1, s2⟩ := adjStart_bounds_pos l.length (by omega) a K hK'
  obtain ⟨e1, e2⟩ := adjStop_bounds_pos l.length (by omega) b K hK'
  apply List.ext_getElem?
  intro j
  rw [slice_getElem? l a b K (by omega), slice_pos_getElem? _ K hK, sliceLen_pos _ a b K hK',
    List.getElem?_take, List.getElem?_drop]
  generalize Py.adjStart l.length a K = S at *
  generalize Py.adjStop l.length b K = E at *
  have key := lt_sliceLen_iff (E - S) K j hK'
  have ecast : ((j * K : Nat) : Int) = (K : Int) * (j : Int) := by
    rw [Int.natCast_mul, Int.mul_comm]
  have hnn : (0 : Int) ≤ (K : Int) * (j : Int) := Int.mul_nonneg (by omega) (by omega)
  by_cases hlt : (K : Int) * (j : Int) < E - S
  · rw [if_pos (by split <;> omega), if_pos (by omega)]
    congr 1; omega
  · rw [if_neg (by split <;> omega), if_neg (by omega)]

theorem slice_sub_neg (l : List α) (a b : Option Int) (K : Nat) (hK : 0 < K) :
    Py.slice l a b (-(K : Int)) =
      Py.slice ((l.drop (Py.adjStop l.length b (-(K : Int)) + 1).toNat).take
        ((Py.adjStart l.length a (-(K : Int)) + 1).toNat - (Py.adjStop l.length b (-(K : Int)) + 1).toNat))
        none none (-(K : Int)) := by
  have hK' : -(K : Int) < 0 := by omega
  obtain ⟨s1, s2⟩ := adjStart_bounds_neg l.length (by omega) a _ hK'
  obtain ⟨e1, e2⟩ := adjStop_bounds_neg l.length (by omega) b _ hK'
  apply List.ext_getElem?
  intro j
  rw [slice_getElem? l a b _ (by omega), slice_neg_getElem? _ K hK, sliceLen_neg _ a b _ hK',
    Int.neg_neg]
  generalize Py.adjStart l.length a (-(K : Int)) = S at *
  generalize Py.adjStop l.length b (-(K : Int)) = E at *
  have key := lt_sliceLen_iff (S - E) K j (by omega)
  have ecast : ((j * K : Nat) : Int) = (K : Int) * (j : Int) := by
    rw [Int.natCast_mul, Int.mul_comm]
  have hnn : (0 : Int) ≤ (K : Int) * (j : Int) := Int.mul_nonneg (by omega) (by omega)
  have hsublen : ((l.drop (E + 1).toNat).take ((S + 1).toNat - (E + 1).toNat)).length =
      (S + 1).toNat - (E + 1).toNat := by
    simp only [List.length_take, List.length_drop]; omega
  rw [Int.neg_mul]
  by_cases hlt : (K : Int) * (j : Int) < S - E
  · rw [if_pos (by split <;> omega), List.getElem?_reverse (by omega), hsublen,
      List.getElem?_take, List.getElem?_drop, if_pos (by omega)]
    congr 1; omega
  · rw [if_neg (by split <;> omega), List.getElem?_eq_none]
    simp only [List.length_reverse, hsublen]; omega

theorem slice_empty_of_len (l : List α) (a b : Option Int) (k : Int) (hk : k ≠ 0)
    (h0 : Py.sliceLen l.length a b k = 0) : Py.slice l a b k = [] := by
  apply List.ext_getElem?
  intro j
  rw [slice_getElem? l a b k hk, h0]; simp

theorem slice_one (l : List α) : Py.slice l none none 1 = l := by
  apply List.ext_getElem?
  intro j
  have := slice_pos_getElem? l 1 (by omega) j
  simpa using this

/-- what the normalised bounds mean for the dense list -/
theorem bounds_spec (l : List α) (a b k : Option Int) (hk : k ≠ some 0) :
    (Gen.Ref.rl_slice_bounds l.length a b k).2.2.1 = k.getD 1 ∧
    ((Gen.Ref.rl_slice_bounds l.length a b k).2.2.2 = true → Py.slice l a b (k.getD 1) = []) ∧
    ((Gen.Ref.rl_slice_bounds l.length a b k).2.2.2 = false →
      0 ≤ (Gen.Ref.rl_slice_bounds l.length a b k).1 ∧
      (Gen.Ref.rl_slice_bounds l.length a b k).1 < (Gen.Ref.rl_slice_bounds l.length a b k).2.1 ∧
      (Gen.Ref.rl_slice_bounds l.length a b k).2.1 ≤ l.length ∧
      Py.slice l a b (k.getD 1) =
        Py.slice ((l.drop (Gen.Ref.rl_slice_bounds l.length a b k).1.toNat).take
          ((Gen.Ref.rl_slice_bounds l.length a b k).2.1.toNat -
            (Gen.Ref.rl_slice_bounds l.length a b k).1.toNat)) none none (k.getD 1)) := by
  have hk0 : k.getD 1 ≠ 0 := fun h => hk ((Model.getD_one_eq_zero k).1 h)
  rcases Int.eq_nat_or_neg (k.getD 1) with ⟨K, hK | hK⟩
  · have hK0 : 0 < K := by omega
    have hpos : ¬ k.getD 1 < 0 := by omega
    rw [ref_bounds_pos _ a b k hpos, hK]
    dsimp only
    have hK' : (0 : Int) < K := by omega
    obtain ⟨s1, s2⟩ := adjStart_bounds_pos l.length (by omega) a K hK'
    obtain ⟨e1, e2⟩ := adjStop_bounds_pos l.length (by omega) b K hK'
    refine ⟨rfl, ?_, ?_⟩
    · intro hemp
      simp only [decide_eq_true_eq] at hemp
      apply slice_empty_of_len l a b K (by omega)
      rw [sliceLen_pos _ a b K hK', if_neg (by omega)]
    · intro hne
      simp only [decide_eq_false_iff_not] at hne
      exact ⟨s1, by omega, e2, slice_sub_pos l a b K hK0⟩
  · have hK0 : 0 < K := by omega
    have hneg : k.getD 1 < 0 := by omega
    rw [ref_bounds_neg _ a b k hneg, hK]
    dsimp only
    have hK' : -(K : Int) < 0 := by omega
    obtain ⟨s1, s2⟩ := adjStart_bounds_neg l.length (by omega) a _ hK'
    obtain ⟨e1, e2⟩ := adjStop_bounds_neg l.length (by omega) b _ hK'
    refine ⟨rfl, ?_, ?_⟩
    · intro hemp
      simp only [decide_eq_true_eq] at hemp
      apply slice_empty_of_len l a b _ (by omega)
      rw [sliceLen_neg _ a b _ hK', if_neg (by omega)]
    · intro hne
      simp only [decide_eq_false_iff_not] at hne
      exact ⟨by omega, by omega, by omega, slice_sub_neg l a b K hK0⟩

/-! ## `_get_slice` -/

theorem mk?_of_valid (ev : List Nat) (vs : List α) (h : (RLA.mk ev vs).Valid) :
    mk? ev vs = some ⟨ev, vs⟩ := by
  unfold mk?; exact if_pos h

theorem getSlice_spec (eq : α → α → Bool) (heq : ∀ x y, eq x y = true → x = y) (r : RLA α)
    (h : r.Valid) (a b k : Option Int) (hk : k ≠ some 0) :
    ∃ r', r.getSlice eq a b k = some r' ∧ r'.Valid ∧ r'.decode = Py.slice r.decode a b (k.getD 1) := by
  have hdl := len_eq_decode_length r h
  have hk0 : k.getD 1 ≠ 0 := fun h => hk ((Model.getD_one_eq_zero k).1 h)
  unfold getSlice
  rw [if_neg hk]
  simp only []
  rw [Gen.Bridge.rl_slice_bounds_bridge _ a b k (by omega) hk, hdl]
  obtain ⟨hstep, hemp, hne⟩ := bounds_spec r.decode a b k hk
  generalize Gen.Ref.rl_slice_bounds (r.decode.length : Int) a b k = t at *
  cases ht : t.2.2.2 with
  | true =>
    refine ⟨⟨[0], []⟩, by simp, rfl, ?_⟩
    rw [hemp ht]; rfl
  | false =>
    obtain ⟨b1, b2, b3, hsl⟩ := hne ht
    have hse : t.1.toNat < t.2.1.toNat := by omega
    have he : t.2.1.toNat ≤ r.len := by omega
    have hv := startToEnd_valid r h _ _ hse he
    have hd := startToEnd_decode r h _ _ hse he
    rw [mk?_of_valid _ _ hv]
    have hlen : (RLA.mk (r.startToEnd t.1.toNat t.2.1.toNat).1 (r.startToEnd t.1.toNat t.2.1.toNat).2).len
        = (t.2.1 - t.1).toNat := by
      rw [len_eq_decode_length _ hv, hd, List.length_take, List.length_drop]; omega
    rw [if_neg (by simp : ¬ (false = true))]
    simp only [Option.bind_some]
    rw [if_neg (by rw [hlen]; simp)]
    rw [hstep]
    by_cases h1 : k.getD 1 = 1
    · rw [if_neg (by simp [h1])]
      refine ⟨_, rfl, hv, ?_⟩
      rw [hd, hsl, h1, slice_one]
    · rw [if_pos h1]
      obtain ⟨sv, sd⟩ := stepSubset_spec eq heq _ hv (k.getD 1) hk0
      rw [mk?_of_valid _ _ sv]
      refine ⟨_, rfl, sv, ?_⟩
      rw [sd, hd, hsl]

theorem getSlice_zero_step (eq : α → α → Bool) (r : RLA α) (a b : Option Int) :
    r.getSlice eq a b (some 0) = none := by
  unfold getSlice; rw [if_pos rfl]

end Proofs.RLIndex
