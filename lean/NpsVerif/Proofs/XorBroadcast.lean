import NpsVerif.Model.Ufunc
import NpsVerif.Proofs.C01
/-!
# `_raw_broadcast`: XOR scatter at the row ends / row starts + prefix XOR = every entry repeated
over its row (core of property C04)

Rows are handled as pairs `(length, value)`; `k` is the flat offset of the first row of the
remaining list.  Three structural facts are proved by induction over the rows, for every placement
of empty rows:

* `scatter_endsW`: the reversed scatter at the ends (first row with a given end wins) turns the
  zero builder into `segE rows`;
* `scatter_starts`: the buffered XOR scatter at the starts (last row with a given start wins) turns
  `w :: tailE rows` into `bld x w rows`;
* `acc_bld`: the prefix XOR of `bld x w rows` without its last cell is the broadcast.
-/
namespace Proofs.XorBroadcast
open Model Model.RLA Np

variable {α : Type}

theorem scatterSet_append (a : List α) (ws₁ ws₂ : List (Nat × α)) :
    scatterSet a (ws₁ ++ ws₂) = scatterSet (scatterSet a ws₁) ws₂ := by
  induction ws₁ generalizing a with
  | nil => rfl
  | cons w ws ih => obtain ⟨i, v⟩ := w; simp only [List.cons_append, scatterSet]; exact ih _

theorem reverse_zip {β : Type} (a : List β) (b : List α) (h : a.length = b.length) :
    (a.zip b).reverse = a.reverse.zip b.reverse := by
  simp only [List.zip_eq_zipWith]; exact List.reverse_zipWith h

/-- the writes `(end_i, v_i)` of the first statement, in row order -/
def endsW (k : Nat) : List (Nat × α) → List (Nat × α)
  | [] => []
  | (l, v) :: rs => (k + l, v) :: endsW (k + l) rs

theorem endsW_eq (k : Nat) (ls : List Nat) (vals : List α) :
    (((exclScanFrom k ls).zip ls).map (fun c => c.1 + c.2)).zip vals = endsW k (ls.zip vals) := by
  induction ls generalizing k vals with
  | nil => simp [exclScanFrom, endsW]
  | cons l ls ih =>
    cases vals with
    | nil => simp [endsW]
    | cons v vs => simp [exclScanFrom, endsW, ih]

theorem ends_le (k : Nat) (ls : List Nat) :
    ∀ e ∈ ((exclScanFrom k ls).zip ls).map (fun c => c.1 + c.2), e ≤ k + ls.sum := by
  induction ls generalizing k with
  | nil => simp [exclScanFrom]
  | cons l ls ih =>
    intro e he
    simp only [exclScanFrom, List.zip_cons_cons, List.map_cons, List.mem_cons, List.sum_cons] at he ⊢
    rcases he with rfl | he
    · omega
    · have := ih (k + l) e he; omega

theorem starts_le (k : Nat) (ls : List Nat) : ∀ s ∈ exclScanFrom k ls, s ≤ k + ls.sum := by
  induction ls generalizing k with
  | nil => simp [exclScanFrom]
  | cons l ls ih =>
    intro s hs
    simp only [exclScanFrom, List.mem_cons, List.sum_cons] at hs ⊢
    rcases hs with rfl | hs
    · omega
    · have := ih (k + l) s hs; omega

theorem filterMap_const (b : List α) (z : α) (idx : List Nat) (h : ∀ i ∈ idx, b[i]? = some z) :
    idx.filterMap (b[·]?) = List.replicate idx.length z := by
  induction idx with
  | nil => rfl
  | cons i idx ih =>
    rw [List.filterMap_cons, h i (by simp)]
    simp only [List.length_cons, List.replicate_succ]
    rw [ih (fun j hj => h j (by simp [hj]))]

section Xor
variable [XorLike α]

theorem zipWith_zero_xor (n : Nat) (vs : List α) (h : vs.length ≤ n) :
    List.zipWith XorLike.xor (List.replicate n (XorLike.zero : α)) vs = vs := by
  induction vs generalizing n with
  | nil => simp
  | cons v vs ih =>
    cases n with
    | zero => simp at h
    | succ n =>
      simp only [List.replicate_succ, List.zipWith_cons_cons, XorLike.zero_xor]
      rw [ih n (by simpa using h)]

/-- builder from the current offset on, after the first statement -/
def segE : List (Nat × α) → List α
  | [] => [XorLike.zero]
  | (l, v) :: rs => List.replicate l XorLike.zero ++ (segE rs).set 0 v

/-- the same without its first cell (which an earlier row ending here, or `builder[0] = 0`,
overwrites) -/
def tailE : List (Nat × α) → List α
  | [] => []
  | (0, _) :: rs => tailE rs
  | (l + 1, v) :: rs => List.replicate l XorLike.zero ++ v :: tailE rs

theorem segE_set_zero (w : α) (rs : List (Nat × α)) : (segE rs).set 0 w = w :: tailE rs := by
  induction rs generalizing w with
  | nil => simp [segE, tailE]
  | cons r rs ih =>
    obtain ⟨l, v⟩ := r
    cases l with
    | zero => simp [segE, tailE, ih]
    | succ l => simp [segE, tailE, ih, List.replicate_succ]

theorem tailE_length (rs : List (Nat × α)) : (tailE rs).length = (rs.map (·.1)).sum := by
  induction rs with
  | nil => rfl
  | cons r rs ih =>
    obtain ⟨l, v⟩ := r
    cases l with
    | zero => simp [tailE, ih]
    | succ l => simp [tailE, ih]; omega

/-- statement 1: reversed scatter at the ends = first row with a given end wins -/
theorem scatter_endsW (k : Nat) (rs : List (Nat × α)) (pre : List α) (hp : pre.length = k) :
    scatterSet (pre ++ List.replicate ((rs.map (·.1)).sum + 1) XorLike.zero) (endsW k rs).reverse
      = pre ++ segE rs := by
  induction rs generalizing k pre with
  | nil => simp [endsW, segE, scatterSet]
  | cons r rs ih =>
    obtain ⟨l, v⟩ := r
    simp only [endsW, List.reverse_cons, scatterSet_append, scatterSet, segE, List.map_cons,
      List.sum_cons]
    have e : pre ++ List.replicate (l + (rs.map (·.1)).sum + 1) (XorLike.zero : α)
        = (pre ++ List.replicate l XorLike.zero)
            ++ List.replicate ((rs.map (·.1)).sum + 1) XorLike.zero := by
      rw [List.append_assoc, List.replicate_append_replicate, Nat.add_assoc]
    rw [e, ih (k + l) _ (by simp [hp])]
    have hlen : k + l = (pre ++ List.replicate l (XorLike.zero : α)).length := by simp [hp]
    rw [hlen, List.set_append_right _ _ (Nat.le_refl _)]
    simp

/-- the writes of the second statement: `(start_i, b[start_i] ^ v_i)` (all reads from `b`) -/
def startsW (b : List α) (k : Nat) (rs : List (Nat × α)) : List (Nat × α) :=
  (exclScanFrom k (rs.map (·.1))).zip
    (List.zipWith XorLike.xor ((exclScanFrom k (rs.map (·.1))).filterMap (b[·]?)) (rs.map (·.2)))

theorem startsW_cons (b : List α) (k l : Nat) (u v : α) (rs : List (Nat × α)) (h : b[k]? = some u) :
    startsW b k ((l, v) :: rs) = (k, XorLike.xor u v) :: startsW b (k + l) rs := by
  simp [startsW, exclScanFrom, h]

/-- builder from the current offset on, after the second statement; `x` is what the cell at the
current offset holds now, `u` what it held before the statement -/
def bld (x u : α) : List (Nat × α) → List α
  | [] => [x]
  | (0, v) :: rs => bld (XorLike.xor u v) u rs
  | (l + 1, v) :: rs => XorLike.xor u v :: (List.replicate l XorLike.zero ++ bld v v rs)

theorem bld_ne_nil (x u : α) (rs : List (Nat × α)) : bld x u rs ≠ [] := by
  induction rs generalizing x u with
  | nil => simp [bld]
  | cons r rs ih =>
    obtain ⟨l, v⟩ := r
    cases l with
    | zero => simpa [bld] using ih _ _
    | succ l => simp [bld]

/-- statement 2: buffered XOR scatter at the starts = last row with a given start wins -/
theorem scatter_starts (k : Nat) (rs : List (Nat × α)) (pa pb : List α) (x u : α)
    (ha : pa.length = k) (hb : pb.length = k) :
    scatterSet (pa ++ x :: tailE rs) (startsW (pb ++ u :: tailE rs) k rs) = pa ++ bld x u rs := by
  induction rs generalizing k pa pb x u with
  | nil => simp [startsW, exclScanFrom, scatterSet, tailE, bld]
  | cons r rs ih =>
    obtain ⟨l, v⟩ := r
    have hk : ∀ t : List α, (pb ++ u :: t)[k]? = some u := by
      intro t; rw [← hb, List.getElem?_append_right (Nat.le_refl _)]; simp
    have hset : ∀ (t : List α) (y : α), (pa ++ x :: t).set k y = pa ++ y :: t := by
      intro t y
      rw [← ha, List.set_append_right _ _ (Nat.le_refl _)]; simp
    rw [startsW_cons _ _ _ _ _ _ (hk _)]
    simp only [scatterSet]
    rw [hset]
    cases l with
    | zero =>
      simp only [tailE, bld, Nat.add_zero]
      exact ih k pa pb _ u ha hb
    | succ l =>
      simp only [tailE, bld]
      have ea : pa ++ XorLike.xor u v :: (List.replicate l (XorLike.zero : α) ++ v :: tailE rs)
          = (pa ++ XorLike.xor u v :: List.replicate l XorLike.zero) ++ v :: tailE rs := by simp
      have eb : pb ++ u :: (List.replicate l (XorLike.zero : α) ++ v :: tailE rs)
          = (pb ++ u :: List.replicate l XorLike.zero) ++ v :: tailE rs := by simp
      rw [ea, eb, ih (k + (l + 1)) _ _ v v (by simp [ha]) (by simp [hb])]
      simp

theorem xor_cancel (v w : α) : XorLike.xor v (XorLike.xor v w) = w := by
  rw [← XorLike.xor_assoc, XorLike.xor_self, XorLike.zero_xor]

theorem xorAccumulateFrom_replicate_zero (v : α) (m : Nat) (l : List α) :
    xorAccumulateFrom v (List.replicate m XorLike.zero ++ l)
      = List.replicate m v ++ xorAccumulateFrom v l := by
  induction m with
  | zero => simp
  | succ m ih =>
    simp only [List.replicate_succ, List.cons_append, xorAccumulateFrom, XorLike.xor_zero]
    rw [ih]

/-- the prefix XOR telescopes over the non-empty rows; the dropped last cell absorbs the rest -/
theorem acc_bld (x w : α) (rs : List (Nat × α)) :
    xorAccumulateFrom w (bld x w rs).dropLast
      = (rs.map (fun r => List.replicate r.1 r.2)).flatten := by
  induction rs generalizing x w with
  | nil => simp [bld, xorAccumulateFrom]
  | cons r rs ih =>
    obtain ⟨l, v⟩ := r
    cases l with
    | zero => simpa [bld] using ih _ w
    | succ l =>
      simp only [bld, List.map_cons, List.flatten_cons]
      rw [List.dropLast_cons_of_ne_nil (by simp [bld_ne_nil]),
        List.dropLast_append_of_ne_nil (bld_ne_nil _ _ _)]
      simp only [xorAccumulateFrom, xor_cancel]
      rw [xorAccumulateFrom_replicate_zero, ih v v, List.replicate_succ]
      simp

/-- `_raw_broadcast` on the rows `(l_i, v_i)` -/
theorem rawBroadcast_pairs (ls : List Nat) (vals : List α) (h : vals.length = ls.length) :
    rawBroadcast (Shape.ofLens ls) vals
      = ((ls.zip vals).map (fun r => List.replicate r.1 r.2)).flatten := by
  have hfst : (ls.zip vals).map (·.1) = ls := List.map_fst_zip (by omega)
  have hsnd : (ls.zip vals).map (·.2) = vals := List.map_snd_zip (by omega)
  have hends : (Shape.ofLens ls).ends = ((exclScanFrom 0 ls).zip ls).map (fun c => c.1 + c.2) := by
    simp [Shape.ends, ofLens_codes, exclScan]
  have hstarts : (Shape.ofLens ls).starts = exclScanFrom 0 ls := by
    rw [ofLens_starts]; rfl
  have hS : (Shape.ofLens ls).size = ((ls.zip vals).map (·.1)).sum := by rw [hfst, ofLens_size]
  -- statement 1
  have h1 : xorScatter (List.replicate ((Shape.ofLens ls).size + 1) (XorLike.zero : α))
      (Shape.ofLens ls).ends.reverse vals.reverse = segE (ls.zip vals) := by
    unfold xorScatter
    have hlen : (Shape.ofLens ls).ends.length = ls.length := by simp [hends]
    have hc : (Shape.ofLens ls).ends.reverse.filterMap
          ((List.replicate ((Shape.ofLens ls).size + 1) (XorLike.zero : α))[·]?)
        = List.replicate ls.length XorLike.zero := by
      rw [filterMap_const _ XorLike.zero]
      · simp [hlen]
      · intro i hi
        have := ends_le 0 ls i (by rw [← hends]; simpa using hi)
        rw [List.getElem?_replicate, if_pos (by rw [ofLens_size]; omega)]
    simp only [hc]
    rw [zipWith_zero_xor _ _ (by simp [h]), ← reverse_zip _ _ (by simp [hlen, h]), hends,
      endsW_eq, hS]
    simpa using scatter_endsW 0 (ls.zip vals) [] rfl
  unfold rawBroadcast
  simp only [h1, segE_set_zero]
  -- statement 2
  have h2 : xorScatter (XorLike.zero :: tailE (ls.zip vals)) (Shape.ofLens ls).starts vals
      = bld XorLike.zero XorLike.zero (ls.zip vals) := by
    have := scatter_starts 0 (ls.zip vals) [] [] (XorLike.zero : α) XorLike.zero rfl rfl
    simp only [startsW, hfst, hsnd, List.nil_append] at this
    unfold xorScatter
    rw [hstarts]
    exact this
  rw [h2]
  exact acc_bld _ _ _

end Xor

end Proofs.XorBroadcast
