import NpsVerif.Proofs.DataClass
/-! # C18: `getitem`, `getitemInt`, `iter`, `concat`, `astype` on the entries -/
namespace Proofs.DataClass
open Model Model.DC Np
variable {α : Type}

/-! ### `getitem` -/

theorem getitem_entries (t : Table α) (ht : mk? t.cols = some t) (sel : RowSel) :
    (DC.getitem t sel).map entries = selCol (entries t) sel := by
  obtain ⟨hne, _⟩ := wf_cols ht
  have hcol : ∀ (j : Nat) (c : String × List α), t.cols[j]? = some c →
      (selCol c.2 sel).map (·.map some) = (selCol (entries t) sel).map (·.map (·[j]?)) := by
    intro j c hc
    rw [← selCol_map, col_of_entries ht j c hc, selCol_map]
  cases hE : selCol (entries t) sel with
  | none =>
    obtain ⟨c, hc⟩ := List.exists_mem_of_ne_nil _ hne
    obtain ⟨j, hj⟩ := List.mem_iff_getElem?.mp hc
    have h := hcol j c hj
    rw [hE] at h
    simp only [Option.map_none, Option.map_eq_none_iff] at h
    unfold DC.getitem
    rw [mapM_eq_none_of_mem _ _ c hc (by simp [h])]
    rfl
  | some E' =>
    let g : String × List α → String × List α := fun c => (c.1, (selCol c.2 sel).getD [])
    have hsome : ∀ (j : Nat) (c : String × List α), t.cols[j]? = some c →
        selCol c.2 sel = some (g c).2 ∧ (g c).2.map some = E'.map (·[j]?) := by
      intro j c hj
      have h := hcol j c hj
      rw [hE] at h
      cases hs : selCol c.2 sel with
      | none => simp [hs] at h
      | some s =>
        simp only [hs, Option.map_some, Option.some.injEq] at h
        exact ⟨by simp [g, hs], by simpa [g, hs] using h⟩
    have hmap : t.cols.mapM (fun c => (selCol c.2 sel).map (fun v => (c.1, v))) = some (t.cols.map g) := by
      apply mapM_eq_some_map
      intro c hc
      obtain ⟨j, hj⟩ := List.mem_iff_getElem?.mp hc
      rw [(hsome j c hj).1]
      rfl
    unfold DC.getitem
    rw [hmap, Option.bind_some]
    have hrect : ∀ e ∈ E', e.length = (t.cols.map g).length := by
      intro e he
      rw [List.length_map]
      exact entries_rect ht e (selCol_mem _ _ _ hE e he)
    have hcols : ∀ (j : Nat) (c : String × List α), (t.cols.map g)[j]? = some c →
        c.2.map some = E'.map (·[j]?) := by
      intro j c' hj
      rw [List.getElem?_map] at hj
      cases hc : t.cols[j]? with
      | none => simp [hc] at hj
      | some c =>
        simp only [hc, Option.map_some, Option.some.injEq] at hj
        subst hj
        exact (hsome j c hc).2
    obtain ⟨h1, h2⟩ := mk?_entries (t.cols.map g) E' (by simpa using hne) hrect hcols
    rw [h1, Option.map_some, h2]

theorem mapM_names (sel : RowSel) (l cols' : List (String × List α))
    (hm : l.mapM (fun c => (selCol c.2 sel).map (fun v => (c.1, v))) = some cols') :
    cols'.map (·.1) = l.map (·.1) := by
  induction l generalizing cols' with
  | nil => simp at hm; subst hm; rfl
  | cons c cs ih =>
    rw [mapM_cons'] at hm
    cases hc : selCol c.2 sel with
    | none => simp [hc] at hm
    | some s =>
      cases hcs : cs.mapM (fun c => (selCol c.2 sel).map (fun v => (c.1, v))) with
      | none => simp [hc, hcs] at hm
      | some ys =>
        simp [hc, hcs] at hm
        subst hm
        simp [ih ys hcs]

theorem getitem_names (t : Table α) (sel : RowSel) (u : Table α) (h : DC.getitem t sel = some u) :
    u.cols.map (·.1) = t.cols.map (·.1) := by
  unfold DC.getitem at h
  cases hm : t.cols.mapM (fun c => (selCol c.2 sel).map (fun v => (c.1, v))) with
  | none => simp [hm] at h
  | some cols' =>
    rw [hm, Option.bind_some] at h
    have hu : u.cols = cols' := ((mk?_eq_some_iff cols' u).mp h).1
    rw [hu]
    exact mapM_names sel _ _ hm

/-! ### integer index, iteration -/

theorem getitemInt_nat (t : Table α) (ht : mk? t.cols = some t) (m : Nat) (hm : m < len t) :
    t.cols.mapM (fun c => c.2[m]?) = some (row t m) :=
  mapM_eq_filterMap _ _ (row_all ht m hm)

theorem getitemInt_eq (t : Table α) (ht : mk? t.cols = some t) (i : Int) :
    getitemInt t i = getIdx (entries t) i := by
  obtain ⟨hne, hlen⟩ := wf_cols ht
  unfold getitemInt
  have hcong : t.cols.mapM (fun c => getIdx c.2 i)
      = t.cols.mapM (fun c => (normIdx (len t) i).bind (c.2[·]?)) := by
    apply mapM_congr
    intro c hc
    unfold getIdx
    rw [hlen c hc]
  rw [hcong]
  unfold getIdx
  rw [length_entries]
  cases hn : normIdx (len t) i with
  | none =>
    obtain ⟨c, hc⟩ := List.exists_mem_of_ne_nil _ hne
    simp only [Option.bind_none]
    exact mapM_eq_none_of_mem _ _ c hc rfl
  | some m =>
    simp only [Option.bind_some]
    have hm := normIdx_lt hn
    rw [getitemInt_nat t ht m hm, getElem?_entries t m hm]

theorem normIdx_nat (n m : Nat) (h : m < n) : normIdx n (m : Int) = some m := by
  unfold normIdx
  simp [h]

theorem iter_eq (t : Table α) (ht : mk? t.cols = some t) : iter t = some (entries t) := by
  unfold iter
  rw [entries_eq]
  apply mapM_eq_some_map
  intro i hi
  have hi' := List.mem_range.mp hi
  rw [getitemInt_eq t ht]
  unfold getIdx
  rw [length_entries, normIdx_nat _ _ hi', Option.bind_some, getElem?_entries t i hi']

end Proofs.DataClass
