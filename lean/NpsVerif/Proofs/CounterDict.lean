import NpsVerif.Model.HashTable
/-! Lemmas for property C12, dictionary side: what a history of `count` batches does to the
plain dictionary `Spec.Dict`, and what the final `getVec keys` / `items` observes. -/
namespace Spec.Dict
open Model.HT

/-- the dictionary after a history -/
def final (d : Dict Int) : List Op → Dict Int
  | [] => d
  | op :: rest => final (step d op).1 rest

theorem run_append (d : Dict Int) (a b : List Op) :
    run d (a ++ b) = run d a ++ run (final d a) b := by
  induction a generalizing d with
  | nil => rfl
  | cons op rest ih => simp [run, final, ih]

theorem run_concat_getLast? (d : Dict Int) (a : List Op) (op : Op) :
    (run d (a ++ [op])).getLast? = some (step (final d a) op).2 := by
  rw [run_append]
  simp [run]

/-- adding the counts of a dictionary: every key gains the number of its occurrences -/
def addCounts (d : Dict Int) (s : List Int) : Dict Int :=
  d.map (fun p => (p.1, p.2 + ((s.count p.1 : Nat) : Int)))

theorem step_count (d : Dict Int) (s : List Int) : (step d (.count s)).1 = addCounts d s := rfl

theorem addCounts_nil (d : Dict Int) : addCounts d [] = d := by
  unfold addCounts
  simp

theorem addCounts_addCounts (d : Dict Int) (s1 s2 : List Int) :
    addCounts (addCounts d s1) s2 = addCounts d (s1 ++ s2) := by
  unfold addCounts
  rw [List.map_map]
  apply List.map_congr_left
  intro p _
  simp only [Function.comp, List.count_append, Int.natCast_add]
  congr 1
  omega

/-- the state of the dictionary after the batches: all the samples counted at once -/
theorem final_count_batches (d : Dict Int) (batches : List (List Int)) :
    final d (batches.map Op.count) = addCounts d batches.flatten := by
  induction batches generalizing d with
  | nil => simp [final, addCounts_nil]
  | cons b bs ih =>
    simp only [List.map_cons, final, step_count, List.flatten_cons]
    rw [ih, addCounts_addCounts]

theorem addCounts_keys (d : Dict Int) (s : List Int) : (addCounts d s).map (·.1) = d.map (·.1) := by
  unfold addCounts
  simp [List.map_map, Function.comp_def]

theorem addCounts_vals (d : Dict Int) (s : List Int) :
    (addCounts d s).map (·.2) = d.map (fun p => p.2 + ((s.count p.1 : Nat) : Int)) := by
  unfold addCounts
  simp [List.map_map, Function.comp_def]

/-- counting depends only on the multiset of samples -/
theorem addCounts_perm (d : Dict Int) (s1 s2 : List Int) (h : s1.Perm s2) :
    addCounts d s1 = addCounts d s2 := by
  unfold addCounts
  apply List.map_congr_left
  intro p _
  rw [h.count_eq]

theorem mapM_congr_mem {α β : Type} (f g : α → Option β) (l : List α) (h : ∀ x ∈ l, f x = g x) :
    l.mapM f = l.mapM g := by
  induction l with
  | nil => rfl
  | cons x xs ih =>
    rw [List.mapM_cons, List.mapM_cons, h x (by simp), ih (fun y hy => h y (by simp [hy]))]

variable {v : Type}

theorem lookup_cons_self (k : Int) (x : v) (d : Dict v) : lookup ((k, x) :: d) k = some x := by
  simp [lookup]

theorem lookup_cons_ne (k k' : Int) (x : v) (d : Dict v) (h : k ≠ k') :
    lookup ((k, x) :: d) k' = lookup d k' := by
  simp [lookup, h]

/-- looking up all keys of a dictionary with distinct keys, in key order: all the values -/
theorem mapM_lookup_keys (d : Dict v) (hnd : (d.map (·.1)).Nodup) :
    (d.map (·.1)).mapM d.lookup = some (d.map (·.2)) := by
  induction d with
  | nil => rfl
  | cons p rest ih =>
    obtain ⟨k, x⟩ := p
    simp only [List.map_cons, List.nodup_cons] at hnd
    rw [List.map_cons, List.mapM_cons, lookup_cons_self]
    have : (rest.map (·.1)).mapM (lookup ((k, x) :: rest)) = (rest.map (·.1)).mapM (lookup rest) := by
      apply mapM_congr_mem
      intro k' hk'
      apply lookup_cons_ne
      intro e
      exact hnd.1 (e ▸ hk')
    rw [this, ih hnd.2]
    rfl

/-- the observation of `getVec keys` after counting the batches -/
theorem run_counts_getVec (d : Dict Int) (hnd : (d.map (·.1)).Nodup) (batches : List (List Int)) :
    (run d (batches.map Op.count ++ [.getVec (d.map (·.1))])).getLast? =
      some (.vals (some (d.map (fun p => p.2 + ((batches.flatten.count p.1 : Nat) : Int))))) := by
  rw [run_concat_getLast?, final_count_batches]
  simp only [step]
  have h := mapM_lookup_keys (addCounts d batches.flatten) (by rw [addCounts_keys]; exact hnd)
  rw [addCounts_keys, addCounts_vals] at h
  rw [h]

/-- the observation of `items` after counting the batches -/
theorem run_counts_items (d : Dict Int) (batches : List (List Int)) :
    (run d (batches.map Op.count ++ [.items])).getLast? =
      some (.pairs (sortPairs (addCounts d batches.flatten))) := by
  rw [run_concat_getLast?, final_count_batches]
  rfl

/- the counting lemma on a concrete dictionary: non-keys (9) are ignored, batches add up -/
example : final [(5, 10), (2, 0), (7, -1)] ([[2, 9, 2], [], [7, 2, 5]].map Op.count) =
    [(5, 11), (2, 3), (7, 0)] := by decide

example : (run [(5, 10), (2, 0), (7, -1)] ([[2, 9, 2], [], [7, 2, 5]].map Op.count ++ [.getVec [5, 2, 7]])).getLast? =
    some (.vals (some [11, 3, 0])) := by decide

end Spec.Dict
