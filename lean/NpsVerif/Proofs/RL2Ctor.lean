import NpsVerif.Proofs.RL2Basic
import NpsVerif.Proofs.DataClass
import NpsVerif.Proofs.RLCodec
import NpsVerif.Proofs.RLIndexBase
import NpsVerif.Props.C14
/-!
# 2-D / ragged run-length arrays: the three constructors (C17)

* `fromArray_eq_changeStarts`: the 1-D encoder in terms of `changeStarts`;
* `ragged_row`, `matrix_row`, `interval_row`: the row built by each constructor is a valid
  run-length array that decodes to the input row;
* `maps_spec`: an array built by two maps over a list of rows reads back row by row.
-/
namespace Proofs.RL2
open Model Model.RL2 Np

variable {α β : Type}

/-! ## `changeStarts` and the 1-D encoder -/

theorem flatnonzeroFrom_append_true (k : Nat) (m : List Bool) :
    flatnonzeroFrom k (m ++ [true]) = flatnonzeroFrom k m ++ [k + m.length] := by
  induction m generalizing k with
  | nil => simp [flatnonzeroFrom]
  | cons b bs ih =>
    cases b
    · simp only [List.cons_append, flatnonzeroFrom, Bool.false_eq_true, if_false, ih,
        List.length_cons]
      congr 2; omega
    · simp only [List.cons_append, flatnonzeroFrom, if_true, ih, List.length_cons]
      congr 3; omega

theorem changeStarts_cons (ne : α → α → Bool) (x : α) (xs : List α) :
    changeStarts ne (x :: xs) = 0 :: flatnonzeroFrom 1 (List.zipWith ne (x :: xs) xs) := by
  simp [changeStarts, flatnonzero, flatnonzeroFrom]

/-- the 1-D encoder: boundaries = change positions plus the end, values read at the change
positions -/
theorem fromArray_eq_changeStarts (ne : α → α → Bool) (a : List α) (ha : a ≠ []) :
    RLA.fromArray ne a =
      ⟨changeStarts ne a ++ [a.length], (changeStarts ne a).filterMap (a[·]?)⟩ := by
  cases a with
  | nil => exact absurd rfl ha
  | cons x xs =>
    have hm : flatnonzero (true :: List.zipWith ne (x :: xs) ((x :: xs).drop 1) ++ [true])
        = changeStarts ne (x :: xs) ++ [(x :: xs).length] := by
      rw [changeStarts_cons]
      simp only [List.drop_succ_cons, List.drop_zero, List.cons_append, flatnonzero,
        flatnonzeroFrom, if_true, Nat.zero_add, flatnonzeroFrom_append_true]
      simp only [List.length_zipWith, List.length_cons]
      congr 3; omega
    unfold RLA.fromArray
    simp only [hm, List.dropLast_concat]

/-- the row of the ragged encoder -/
theorem ragged_row (ne : α → α → Bool) (hne : ∀ x y, ne x y = false → x = y) (a : List α)
    (ha : a ≠ []) :
    (RLA.mk (changeStarts ne a ++ [a.length]) ((changeStarts ne a).filterMap (a[·]?))).Valid ∧
    (RLA.mk (changeStarts ne a ++ [a.length]) ((changeStarts ne a).filterMap (a[·]?))).decode = a := by
  rw [← fromArray_eq_changeStarts ne a ha]
  exact ⟨Props.C14.C14_encode_valid ne a, Props.C14.C14_decode_encode_of_eq ne hne a⟩

/-- without the hypothesis on `ne` the row is still valid -/
theorem ragged_row_valid (ne : α → α → Bool) (a : List α) (ha : a ≠ []) :
    (RLA.mk (changeStarts ne a ++ [a.length]) ((changeStarts ne a).filterMap (a[·]?))).Valid := by
  rw [← fromArray_eq_changeStarts ne a ha]
  exact Props.C14.C14_encode_valid ne a

/-! ## the constructors as maps over the rows -/

theorem fromRagged_eq (ne : α → α → Bool) (rows : List (List α)) :
    fromRagged ne rows =
      ⟨rows.map (fun a => changeStarts ne a ++ [a.length]),
       rows.map (fun a => (changeStarts ne a).filterMap (a[·]?)), none⟩ := by
  unfold fromRagged
  simp only [List.zipWith_map_right, List.zipWith_self]

/-- the boundaries the matrix encoder stores for one row -/
def matrixStarts (ne : α → α → Bool) (a : List α) : List Nat :=
  if a.length ≥ 1 ∧ ¬ (changeStarts ne a).contains (a.length - 1) then
    changeStarts ne a ++ [a.length - 1] else changeStarts ne a

theorem fromMatrix_eq (ne : α → α → Bool) (m : List (List α)) (c : Nat) :
    fromMatrix ne m c =
      ⟨m.map (matrixStarts ne), m.map (fun a => (matrixStarts ne a).filterMap (a[·]?)), some c⟩ := by
  unfold fromMatrix
  simp only [List.zipWith_map_right, List.zipWith_self]
  rfl

/-! ## splitting the last run -/

open Proofs.RLIndex in
theorem dec_snoc_snoc (lo : Nat) (E : List Nat) (m c : Nat) (V : List α) (w : α)
    (hl : V.length = E.length + 1) :
    dec lo (E ++ [m, c]) (V ++ [w]) = dec lo (E ++ [m]) V ++ List.replicate (c - m) w := by
  induction E generalizing lo V with
  | nil =>
    cases V with
    | nil => simp at hl
    | cons v V =>
      cases V with
      | nil => simp [dec]
      | cons _ _ => simp at hl
  | cons e E ih =>
    cases V with
    | nil => simp at hl
    | cons v V =>
      simp only [List.cons_append, dec, List.append_assoc]
      rw [ih e V (by simpa using hl)]

open Proofs.RLIndex in
theorem dec_move_end (lo : Nat) (E : List Nat) (m c : Nat) (V : List α) (w : α)
    (hl : V.length = E.length) (hm : ∀ e ∈ lo :: E, e ≤ m) (hc : m ≤ c) :
    dec lo (E ++ [c]) (V ++ [w]) = dec lo (E ++ [m]) (V ++ [w]) ++ List.replicate (c - m) w := by
  induction E generalizing lo V with
  | nil =>
    cases V with
    | nil =>
      have : lo ≤ m := hm lo (by simp)
      simp only [List.nil_append, dec, List.append_nil, List.replicate_append_replicate]
      congr 1; omega
    | cons _ _ => simp at hl
  | cons e E ih =>
    cases V with
    | nil => simp at hl
    | cons v V =>
      simp only [List.cons_append, dec, List.append_assoc]
      rw [ih e V (by simpa using hl) (fun x hx => hm x (List.mem_cons_of_mem _ hx))]

/-- the row of the matrix encoder -/
theorem matrix_row (ne : α → α → Bool) (hne : ∀ x y, ne x y = false → x = y) (a : List α)
    (ha : 1 ≤ a.length) :
    (RLA.mk (matrixStarts ne a ++ [a.length]) ((matrixStarts ne a).filterMap (a[·]?))).Valid ∧
    (RLA.mk (matrixStarts ne a ++ [a.length]) ((matrixStarts ne a).filterMap (a[·]?))).decode = a := by
  have hane : a ≠ [] := by intro h; rw [h] at ha; simp at ha
  obtain ⟨hV0, hD0⟩ := ragged_row ne hne a hane
  unfold matrixStarts
  by_cases hc : (changeStarts ne a).contains (a.length - 1) = true
  · rw [if_neg (fun h => h.2 hc)]
    exact ⟨hV0, hD0⟩
  · rw [if_pos ⟨ha, hc⟩]
    have hnm : a.length - 1 ∉ changeStarts ne a := fun h => hc (List.contains_iff_mem.mpr h)
    obtain ⟨x, xs, hax⟩ : ∃ x xs, a = x :: xs := by
      cases a with
      | nil => exact absurd rfl hane
      | cons x xs => exact ⟨x, xs, rfl⟩
    obtain ⟨s', hs⟩ : ∃ s', changeStarts ne a = 0 :: s' := by
      rw [hax, changeStarts_cons]; exact ⟨_, rfl⟩
    generalize hvs : (changeStarts ne a).filterMap (a[·]?) = vs at hV0 hD0
    obtain ⟨w, hw⟩ : ∃ w, a[a.length - 1]? = some w :=
      ⟨a[a.length - 1], List.getElem?_eq_getElem (by omega)⟩
    have hfm : (changeStarts ne a ++ [a.length - 1]).filterMap (a[·]?) = vs ++ [w] := by
      rw [List.filterMap_append, hvs]; simp [hw]
    rw [hfm]
    rw [hs] at hV0 hD0 hnm ⊢
    obtain ⟨h0, hlen, hpw⟩ := (Proofs.RLIndex.valid_iff _).1 hV0
    simp only [List.cons_append, List.length_cons, List.length_append, List.length_nil] at hlen
    have hpw' := List.pairwise_append.1 hpw
    have hlt : ∀ e ∈ 0 :: s', e < a.length := fun e he => hpw'.2.2 e he a.length (by simp)
    have hle : ∀ e ∈ 0 :: s', e ≤ a.length - 1 := fun e he => by have := hlt e he; omega
    -- the last value is the last cell
    have hvne : vs ≠ [] := by intro h; rw [h] at hlen; simp at hlen
    obtain ⟨V', w', hV'⟩ : ∃ V' w', vs = V' ++ [w'] := by
      rcases List.eq_nil_or_concat vs with h | ⟨V', w', h⟩
      · exact absurd h hvne
      · exact ⟨V', w', by simpa using h⟩
    have hV'len : V'.length = s'.length := by
      rw [hV'] at hlen; simp at hlen; omega
    rw [List.cons_append, Proofs.RLIndex.decode_cons, hV',
      dec_move_end 0 s' (a.length - 1) a.length V' w' hV'len hle (by omega)] at hD0
    have hww : w' = w := by
      have h1 : (Proofs.RLIndex.dec 0 (s' ++ [a.length - 1]) (V' ++ [w'])).length = a.length - 1 := by
        have := congrArg List.length hD0
        simp only [List.length_append, List.length_replicate] at this
        omega
      have h2 := congrArg (·[a.length - 1]?) hD0
      simp only [hw] at h2
      rw [List.getElem?_append_right (by omega), h1] at h2
      have h3 : a.length - (a.length - 1) = 1 := by omega
      simp [h3] at h2
      exact h2
    subst hww
    refine ⟨?_, ?_⟩
    · rw [Proofs.RLIndex.valid_iff]
      refine ⟨rfl, by simp; omega, ?_⟩
      simp only [List.append_assoc, List.cons_append, List.nil_append]
      have : (0 :: (s' ++ [a.length - 1, a.length])) = (0 :: s') ++ [a.length - 1, a.length] := rfl
      rw [this, List.pairwise_append]
      refine ⟨hpw'.1, by simp; omega, ?_⟩
      intro e he b hb
      have h1 := hlt e he
      have h2 : e ≠ a.length - 1 := fun h => hnm (h ▸ he)
      simp only [List.mem_cons, List.not_mem_nil, or_false] at hb
      rcases hb with rfl | rfl <;> omega
    · have : (0 :: s' ++ [a.length - 1] ++ [a.length]) = 0 :: (s' ++ [a.length - 1, a.length]) := by
        simp
      rw [this, Proofs.RLIndex.decode_cons, hV',
        dec_snoc_snoc 0 s' (a.length - 1) a.length (V' ++ [w']) w' (by simp [hV'len])]
      exact hD0

/-! ## an array built by two maps over a list of rows -/

/-- if every built row is valid and decodes to `D a`, the array reads back as `L.map D`, every row
reads back as a valid run-length array, and stored rows have the constructor's length relation -/
theorem maps_spec (L : List β) (f : β → List Nat) (g : β → List α) (rl : Option Nat)
    (D : β → List α)
    (h : ∀ a ∈ L, (RLA.mk (evs rl (f a)) (g a)).Valid ∧ (RLA.mk (evs rl (f a)) (g a)).decode = D a) :
    (RL2.mk (L.map f) (L.map g) rl).toRows = some (L.map D) ∧
    (∀ i, i < L.length → ∃ rla, (RL2.mk (L.map f) (L.map g) rl).row i = some rla ∧ rla.Valid) ∧
    (∀ (i : Nat) (ix : List Nat) (vs : List α), (L.map f)[i]? = some ix → (L.map g)[i]? = some vs →
      (evs rl ix).length = vs.length + 1) := by
  refine ⟨?_, ?_, ?_⟩
  · rw [toRows_of_maps]
    apply Proofs.DataClass.mapM_eq_some_map
    intro a ha
    rw [mk?_of_valid (h a ha).1, Option.map_some, (h a ha).2]
  · intro i hi
    rw [row_of_maps, List.getElem?_eq_getElem hi]
    have ha := h L[i] (List.getElem_mem hi)
    exact ⟨_, mk?_of_valid ha.1, ha.1⟩
  · intro i ix vs h1 h2
    rw [List.getElem?_map] at h1 h2
    cases hLi : L[i]? with
    | none => rw [hLi] at h1; simp at h1
    | some a =>
      rw [hLi] at h1 h2
      simp only [Option.map_some, Option.some.injEq] at h1 h2
      subst h1 h2
      have ha := (h a (List.mem_of_getElem? hLi)).1
      exact ((Proofs.RLIndex.valid_iff _).1 ha).2.1

/-! ## intervals -/

theorem indicator_eq (zero one : α) (s e L : Nat) (h1 : s ≤ e) (h2 : e ≤ L) :
    (List.range L).map (fun c => if s ≤ c ∧ c < e then one else zero) =
      List.replicate s zero ++ (List.replicate (e - s) one ++ List.replicate (L - e) zero) := by
  apply List.ext_getElem?
  intro i
  simp only [List.getElem?_map, List.getElem?_append, List.getElem?_replicate, List.length_replicate]
  by_cases hi : i < L
  · rw [List.getElem?_range hi]
    simp only [Option.map_some]
    by_cases c1 : i < s
    · rw [if_pos c1, if_pos c1, if_neg (by omega)]
    · rw [if_neg c1]
      by_cases c2 : i < e
      · rw [if_pos (by omega), if_pos (by omega), if_pos (by omega)]
      · rw [if_neg (by omega), if_neg (by omega), if_pos (by omega)]
  · rw [List.getElem?_eq_none (by simpa using Nat.le_of_not_lt hi)]
    simp only [Option.map_none]
    rw [if_neg (by omega), if_neg (by omega), if_neg (by omega)]

/-- the row of the interval constructor -/
theorem interval_row (zero one : α) (s e L : Nat) (h1 : s < e) (h2 : e ≤ L) :
    (RLA.mk (((if s > 0 then [0] else []) ++ [s] ++ (if e < L then [e] else [])) ++ [L])
        ((if s > 0 then [zero] else []) ++ [one] ++ (if e < L then [zero] else []))).Valid ∧
    (RLA.mk (((if s > 0 then [0] else []) ++ [s] ++ (if e < L then [e] else [])) ++ [L])
        ((if s > 0 then [zero] else []) ++ [one] ++ (if e < L then [zero] else []))).decode =
      (List.range L).map (fun c => if s ≤ c ∧ c < e then one else zero) := by
  rw [indicator_eq zero one s e L (Nat.le_of_lt h1) h2]
  by_cases c1 : s > 0
  · by_cases c2 : e < L
    · simp only [if_pos c1, if_pos c2]
      refine ⟨?_, ?_⟩
      · rw [Proofs.RL.valid_iff]
        simp [RLA.strictInc]; omega
      · simp [RLA.decode, RLA.runLens]
    · have : e = L := by omega
      subst this
      simp only [if_pos c1, if_neg c2]
      refine ⟨?_, ?_⟩
      · rw [Proofs.RL.valid_iff]
        simp [RLA.strictInc]; omega
      · simp [RLA.decode, RLA.runLens]
  · have : s = 0 := by omega
    subst this
    by_cases c2 : e < L
    · simp only [if_neg c1, if_pos c2]
      refine ⟨?_, ?_⟩
      · rw [Proofs.RL.valid_iff]
        simp [RLA.strictInc]; omega
      · simp [RLA.decode, RLA.runLens]
    · have : e = L := by omega
      subst this
      simp only [if_neg c1, if_neg c2]
      refine ⟨?_, ?_⟩
      · rw [Proofs.RL.valid_iff]
        simp [RLA.strictInc]; omega
      · simp [RLA.decode, RLA.runLens]

end Proofs.RL2
