import NpsVerif.Model.Structural
import NpsVerif.Spec.Rows
import NpsVerif.Proofs.Materialise
import NpsVerif.Proofs.ColSlice
/-! Lemmas for property C08 (second half): `ragged_slice`. -/
namespace Model
open Np

/-! ## gathering a list of windows `(start, len)` of a flat buffer -/

theorem filterMap_prog_one' {α} (data : List α) (s : Int) (l : Nat)
    (h : l = 0 ∨ (0 ≤ s ∧ s + l ≤ data.length)) :
    (Py.prog s 1 l).filterMap (fun i => data[i.toNat]?) = (data.drop s.toNat).take l := by
  rcases h with rfl | ⟨h0, h1⟩
  · simp [Py.prog]
  · have := filterMap_prog_one data s.toNat l (by omega)
    rwa [Int.toNat_of_nonneg h0] at this

/-- gather through the cumsum builder over windows that are empty or inside the buffer, then cut at
the window lengths: the windows -/
theorem gather_windows {α} (data : List α) (R : List (Int × Nat))
    (h : ∀ r ∈ R, r.2 = 0 ∨ (0 ≤ r.1 ∧ r.1 + r.2 ≤ data.length)) :
    (gather data (buildIndices 1 (R.map (vrow 1)))).map (fun d => cutRows d (R.map (·.2)))
      = some (R.map (fun r => (data.drop r.1.toNat).take r.2)) := by
  have hin : ∀ i ∈ (R.map (fun r => Py.prog r.1 1 r.2)).flatten,
      0 ≤ i ∧ i < (data.length : Int) := by
    intro i hi
    obtain ⟨l, hl, hil⟩ := List.mem_flatten.mp hi
    obtain ⟨r, hr, rfl⟩ := List.mem_map.mp hl
    obtain ⟨j, hj, he⟩ := Proofs.ColSlice.mem_prog hil
    rcases h r hr with h0 | ⟨h0, h1⟩
    · omega
    · omega
  rw [buildIndices_vrow, gather_in_range data _ hin, Option.map_some, List.filterMap_flatten,
    List.map_map]
  congr 1
  have e : R.map ((List.filterMap fun i => data[i.toNat]?) ∘ fun r => Py.prog r.1 1 r.2)
      = R.map (fun r => (data.drop r.1.toNat).take r.2) := by
    apply List.map_congr_left
    intro r hr
    exact filterMap_prog_one' data r.1 r.2 (h r hr)
  rw [e]
  apply cutRows_flatten
  rw [List.map_map]
  apply List.map_congr_left
  intro r hr
  simp only [Function.comp, List.length_take, List.length_drop]
  rcases h r hr with h0 | ⟨h0, h1⟩ <;> omega

/-! ## the windows of `ragged_slice` -/

/-- (flat start, length) of the window of every row; rows start at flat position `k` -/
def winRows (k : Nat) : List Nat → List Int → List Int → List (Int × Nat)
  | l :: ls, s :: ss, e :: es =>
      ((k : Int) + s,
        (max ((if e < 0 then ((k + l : Nat) : Int) + e else min ((k : Int) + e) ((k + l : Nat) : Int))
          - ((k : Int) + s)) 0).toNat) :: winRows (k + l) ls ss es
  | _, _, _ => []

/-- the (start, end, length) triples and the lengths `ragged_slice` computes -/
theorem slice_triples (k : Nat) (ls : List Nat) (ss es : List Int)
    (hs : ss.length = ls.length) (he : es.length = ls.length) :
    let codes := (exclScanFrom k ls).zip ls
    let baseS : List Int := (codes.map (·.1)).map (fun (s : Nat) => (s : Int))
    let baseE : List Int := (codes.map (fun c => c.1 + c.2)).map (fun (e : Nat) => (e : Int))
    let starts := List.zipWith (· + ·) baseS ss
    let ends := (baseS.zip (baseE.zip es)).map
      (fun t => if t.2.2 < 0 then t.2.1 + t.2.2 else min (t.1 + t.2.2) t.2.1)
    let lens := List.zipWith (fun e s => max (e - s) 0) ends starts
    (starts.zip lens).map (fun p => (p.1, p.1 + p.2, p.2.toNat)) = (winRows k ls ss es).map (vrow 1)
      ∧ lens.map Int.toNat = (winRows k ls ss es).map (·.2) := by
  induction ls generalizing k ss es with
  | nil => simp [exclScanFrom, winRows]
  | cons l ls ih =>
    cases ss with
    | nil => simp at hs
    | cons s ss =>
      cases es with
      | nil => simp at he
      | cons e es =>
        have := ih (k + l) ss es (by simpa using hs) (by simpa using he)
        dsimp only at this ⊢
        simp only [exclScanFrom, List.zip_cons_cons, List.map_cons, List.zipWith_cons_cons,
          winRows]
        rw [this.1, this.2]
        refine ⟨?_, rfl⟩
        congr 1
        simp only [vrow, rowEnd]
        congr 2
        omega

theorem window_cut {α} (pre r rest : List α) (a c : Nat) (h : a + c ≤ r.length ∨ c = 0) :
    ((pre ++ (r ++ rest)).drop (pre.length + a)).take c = (r.drop a).take c := by
  rcases h with h | rfl
  · rw [← List.drop_drop, List.drop_left, List.drop_append_of_le_length (by omega),
      List.take_append_of_le_length (by simp; omega)]
  · simp

/-- reading the windows from `pre ++ flatten rows` gives the specified window of every row -/
theorem winRows_window {α} (pre : List α) (rows : List (List α)) (ss es : List Int)
    (hs : ss.length = rows.length) (he : es.length = rows.length) (hpos : ∀ s ∈ ss, 0 ≤ s) :
    (winRows pre.length (rows.map List.length) ss es).map
        (fun r => ((pre ++ rows.flatten).drop r.1.toNat).take r.2)
      = List.zipWith (fun (r : List α) (se : Int × Int) => Spec.window r (some se.1) (some se.2))
          rows (ss.zip es) := by
  induction rows generalizing pre ss es with
  | nil => simp [winRows]
  | cons r rows ih =>
    cases ss with
    | nil => simp at hs
    | cons s ss =>
      cases es with
      | nil => simp at he
      | cons e es =>
        have h0 : 0 ≤ s := hpos s (by simp)
        have := ih (pre ++ r) ss es (by simpa using hs) (by simpa using he)
          (fun x hx => hpos x (by simp [hx]))
        simp only [List.length_append, List.append_assoc] at this
        simp only [List.map_cons, winRows, List.zip_cons_cons, List.zipWith_cons_cons,
          List.flatten_cons]
        rw [this]
        congr 1
        simp only [Spec.window, Option.getD_some]
        have e1 : ((pre.length : Int) + s).toNat = pre.length + s.toNat := by omega
        rw [e1]
        by_cases hneg : e < 0
        · simp only [hneg, if_true]
          have e2 : (max (((pre.length + r.length : Nat) : Int) + e - ((pre.length : Int) + s)) 0).toNat
              = ((r.length : Int) + e - s).toNat := by omega
          rw [e2]
          apply window_cut
          omega
        · simp only [hneg, if_false]
          have e2 : (max (min ((pre.length : Int) + e) ((pre.length + r.length : Nat) : Int)
                - ((pre.length : Int) + s)) 0).toNat
              = (min e (r.length : Int) - s).toNat := by omega
          rw [e2]
          apply window_cut
          omega

theorem winRows_bound (k : Nat) (ls : List Nat) (ss es : List Int) (hpos : ∀ s ∈ ss, 0 ≤ s) :
    ∀ r ∈ winRows k ls ss es, r.2 = 0 ∨ (0 ≤ r.1 ∧ r.1 + r.2 ≤ ((k + ls.sum : Nat) : Int)) := by
  induction ls generalizing k ss es with
  | nil => simp [winRows]
  | cons l ls ih =>
    cases ss with
    | nil => simp [winRows]
    | cons s ss =>
      cases es with
      | nil => simp [winRows]
      | cons e es =>
        have h0 : 0 ≤ s := hpos s (by simp)
        intro r hr
        simp only [winRows, List.mem_cons] at hr
        rcases hr with rfl | hr
        · simp only [List.sum_cons]
          by_cases hneg : e < 0
          · simp only [hneg, if_true]; omega
          · simp only [hneg, if_false]; omega
        · have := ih (k + l) ss es (fun x hx => hpos x (by simp [hx])) r hr
          simp only [List.sum_cons]
          omega

/-- the triples of `ragged_slice(a)` with default starts and ends -/
theorem default_triples (k : Nat) (ls : List Nat) :
    let codes := (exclScanFrom k ls).zip ls
    let baseS : List Int := (codes.map (·.1)).map (fun (s : Nat) => (s : Int))
    let baseE : List Int := (codes.map (fun c => c.1 + c.2)).map (fun (e : Nat) => (e : Int))
    let lens := List.zipWith (fun e s => max (e - s) 0) baseE baseS
    (baseS.zip lens).map (fun p => (p.1, p.1 + p.2, p.2.toNat))
        = (codes.map (fun c => ((c.1 : Int), c.2))).map (vrow 1)
      ∧ lens.map Int.toNat = (codes.map (fun c => ((c.1 : Int), c.2))).map (·.2) := by
  induction ls generalizing k with
  | nil => simp [exclScanFrom]
  | cons l ls ih =>
    have := ih (k + l)
    dsimp only at this ⊢
    simp only [exclScanFrom, List.zip_cons_cons, List.map_cons, List.zipWith_cons_cons]
    rw [this.1, this.2]
    refine ⟨?_, ?_⟩
    · congr 1
      simp only [vrow, rowEnd]
      congr 2
      · omega
      · omega
    · congr 1
      omega

end Model
