import NpsVerif.Model.Index
/-! C02, step 1: the row selectors commute with mapping a function over the rows, and only select
members of the list.  Generic `Option`/`mapM` plumbing used by the `getitem` proof. -/
namespace Model
open Np

theorem filterMap_congr' {α β} {f g : α → Option β} {l : List α} (h : ∀ x ∈ l, f x = g x) :
    l.filterMap f = l.filterMap g := by
  induction l with
  | nil => rfl
  | cons x xs ih =>
    simp only [List.filterMap_cons, h x (by simp), ih (fun y hy => h y (by simp [hy]))]

/-! ### `mapM` on `Option` -/

theorem mapM_nil' {α β} (f : α → Option β) : ([] : List α).mapM f = some [] := by
  simp

theorem mapM_cons' {α β} (f : α → Option β) (x : α) (xs : List α) :
    (x :: xs).mapM f = (f x).bind (fun y => (xs.mapM f).map (y :: ·)) := by
  rw [List.mapM_cons]
  cases f x <;> simp [bind, Option.bind]
  rename_i y
  cases xs.mapM f <;> simp

/-- `mapM` then `mapM` in the continuation = one `mapM` of the composed function -/
theorem mapM_bind_mapM {α β γ} (f : α → Option β) (g : β → Option γ) (l : List α) :
    (l.mapM f).bind (fun ys => ys.mapM g) = l.mapM (fun x => (f x).bind g) := by
  induction l with
  | nil => simp
  | cons x xs ih =>
    rw [mapM_cons', mapM_cons']
    cases hx : f x with
    | none => simp
    | some y =>
      simp only [Option.bind_some]
      rw [← ih]
      cases hxs : xs.mapM f with
      | none => cases g y <;> simp
      | some ys => simp only [Option.map_some, Option.bind_some]; rw [mapM_cons']

theorem mapM_map {α β γ} (f : β → Option γ) (g : α → β) (l : List α) :
    (l.map g).mapM f = l.mapM (fun x => f (g x)) := by
  induction l with
  | nil => simp
  | cons x xs ih => simp only [List.map_cons, mapM_cons', ih]

theorem mapM_congr {α β} (f g : α → Option β) (l : List α) (h : ∀ x ∈ l, f x = g x) :
    l.mapM f = l.mapM g := by
  induction l with
  | nil => simp
  | cons x xs ih =>
    rw [mapM_cons', mapM_cons', h x (by simp), ih (fun y hy => h y (by simp [hy]))]

/-- `mapM` of a function that post-composes a pure map -/
theorem mapM_map_post {α β γ} (f : α → Option β) (g : β → γ) (l : List α) :
    l.mapM (fun x => (f x).map g) = (l.mapM f).map (·.map g) := by
  induction l with
  | nil => simp
  | cons x xs ih =>
    rw [mapM_cons', mapM_cons', ih]
    cases f x <;> simp
    cases xs.mapM f <;> simp

theorem mapM_some_mem {α β} (f : α → Option β) (l : List α) (ys : List β) (h : l.mapM f = some ys) :
    ∀ y ∈ ys, ∃ x ∈ l, f x = some y := by
  induction l generalizing ys with
  | nil => simp at h; subst h; simp
  | cons x xs ih =>
    rw [mapM_cons'] at h
    cases hx : f x with
    | none => simp [hx] at h
    | some y0 =>
      cases hxs : xs.mapM f with
      | none => simp [hx, hxs] at h
      | some ys0 =>
        simp [hx, hxs] at h
        subst h
        intro y hy
        rcases List.mem_cons.mp hy with rfl | hy
        · exact ⟨x, by simp, hx⟩
        · obtain ⟨x', hx', hf⟩ := ih ys0 hxs y hy
          exact ⟨x', by simp [hx'], hf⟩

/-- an all-`some` `mapM` -/
theorem mapM_some {α β} (f : α → β) (l : List α) : l.mapM (fun x => some (f x)) = some (l.map f) := by
  induction l with
  | nil => simp
  | cons x xs ih => rw [mapM_cons', ih]; simp

/-! ### `getIdx`, `gather` -/

theorem normIdx_lt {n : Nat} {i : Int} {m : Nat} (h : normIdx n i = some m) : m < n := by
  unfold normIdx at h
  split at h <;> split at h <;> simp at h <;> omega

theorem getIdx_map {α β} (f : α → β) (l : List α) (i : Int) :
    getIdx (l.map f) i = (getIdx l i).map f := by
  unfold getIdx
  rw [List.length_map]
  cases normIdx l.length i <;> simp

theorem getIdx_mem {α} {l : List α} {i : Int} {x : α} (h : getIdx l i = some x) : x ∈ l := by
  unfold getIdx at h
  cases hn : normIdx l.length i with
  | none => simp [hn] at h
  | some m =>
    simp [hn] at h
    exact List.mem_of_getElem? h

theorem getIdx_some_lt {α} {l : List α} {i : Int} {x : α} (h : getIdx l i = some x) :
    i < (l.length : Int) := by
  unfold getIdx at h
  cases hn : normIdx l.length i with
  | none => simp [hn] at h
  | some m =>
    unfold normIdx at hn
    split at hn <;> split at hn <;> simp at hn <;> omega

theorem gather_map {α β} (f : α → β) (l : List α) (is : List Int) :
    gather (l.map f) is = (gather l is).map (·.map f) := by
  unfold gather
  rw [← mapM_map_post]
  exact mapM_congr _ _ _ (fun i _ => getIdx_map f l i)

theorem gather_mem {α} {l : List α} {is : List Int} {ys : List α} (h : gather l is = some ys) :
    ∀ y ∈ ys, y ∈ l := by
  intro y hy
  obtain ⟨i, _, hi⟩ := mapM_some_mem _ _ _ h y hy
  exact getIdx_mem hi

/-- an in-range non-negative index reads the cell -/
theorem getIdx_nonneg {α} (l : List α) (i : Int) (h0 : 0 ≤ i) (h1 : i < l.length) :
    getIdx l i = l[i.toNat]? := by
  unfold getIdx normIdx
  simp [h0, h1]

/-! ### `Py.slice` -/

theorem slice_map {α β} (f : α → β) (l : List α) (a b : Option Int) (k : Int) :
    Py.slice (l.map f) a b k = (Py.slice l a b k).map f := by
  unfold Py.slice
  rw [List.length_map, List.map_filterMap]
  apply filterMap_congr'
  intro i _
  split <;> simp

theorem slice_mem {α} (l : List α) (a b : Option Int) (k : Int) : ∀ x ∈ Py.slice l a b k, x ∈ l := by
  intro x hx
  unfold Py.slice at hx
  rw [List.mem_filterMap] at hx
  obtain ⟨i, _, hi⟩ := hx
  split at hi
  · exact List.mem_of_getElem? hi
  · simp at hi

theorem getD_one_eq_zero (k : Option Int) : k.getD 1 = 0 ↔ k = some 0 := by
  cases k <;> simp

/-! ### masks -/

theorem mask_map {α β} (f : α → β) (l : List α) (bs : List Bool) :
    ((l.map f).zip bs).filterMap (fun rb => if rb.2 then some rb.1 else none)
      = (((l.zip bs).filterMap (fun cb => if cb.2 then some cb.1 else none))).map f := by
  rw [List.zip_map_left, List.filterMap_map, List.map_filterMap]
  apply filterMap_congr'
  intro x _
  obtain ⟨x1, x2⟩ := x
  cases x2 <;> simp

theorem mask_mem {α} (l : List α) (bs : List Bool) :
    ∀ x ∈ (l.zip bs).filterMap (fun cb => if cb.2 then some cb.1 else none), x ∈ l := by
  intro x hx
  rw [List.mem_filterMap] at hx
  obtain ⟨p, hp, hpx⟩ := hx
  split at hpx
  · simp at hpx; subst hpx; exact (List.of_mem_zip hp).1
  · simp at hpx

/-! ### the row selectors -/

/-- selecting rows of `codes.map f` = mapping `f` over the selected codes -/
theorem selectRows_map {α} (f : Nat × Nat → List α) (codes : List (Nat × Nat)) (sel : RowSel) :
    Py.selectRows (codes.map f) sel = (indexRows codes sel).map (·.map f) := by
  cases sel with
  | int i =>
    simp only [Py.selectRows, indexRows, Py.index, getIdx_map]
    cases getIdx codes i <;> simp
  | slice a b k =>
    simp only [Py.selectRows, indexRows, sliceList, getD_one_eq_zero]
    split <;> simp [slice_map]
  | list is =>
    simp only [Py.selectRows, indexRows]
    exact gather_map f codes is
  | mask bs =>
    simp only [Py.selectRows, indexRows, List.length_map]
    split <;> simp [mask_map]
  | all => simp [Py.selectRows, indexRows]

/-- a row selector only returns codes of the array -/
theorem indexRows_mem (codes : List (Nat × Nat)) (sel : RowSel) (sc : List (Nat × Nat))
    (h : indexRows codes sel = some sc) : ∀ c ∈ sc, c ∈ codes := by
  cases sel with
  | int i =>
    simp only [indexRows] at h
    cases hi : getIdx codes i with
    | none => simp [hi] at h
    | some c0 =>
      simp [hi] at h; subst h
      intro c hc; simp at hc; subst hc; exact getIdx_mem hi
  | slice a b k =>
    simp only [indexRows, sliceList] at h
    split at h
    · simp at h
    · simp at h; subst h; exact slice_mem _ _ _ _
  | list is => exact gather_mem h
  | mask bs =>
    simp only [indexRows] at h
    split at h
    · simp at h; subst h; exact mask_mem _ _
    · simp at h
  | all => simp [indexRows] at h; subst h; exact fun _ hc => hc

end Model
