import NpsVerif.Model.HashTable
import NpsVerif.Model.Scan
import NpsVerif.Proofs.BuildIndices
import NpsVerif.Proofs.Materialise
/-! Lemmas for property C12, fast paths: `_get_flat_indices_fast` and `_broadcast_values_fast`
(scatter into `ones` / `zeros` at `starts[1:]`, then `cumsum`) on shapes without empty rows.
Both are instances of the structural builder of `Proofs/BuildIndices.lean` (step 1 and step 0). -/
namespace Model
open Np

/-- `scatter_builder` without the sentinel cell: the fast builders have exactly `size` cells -/
theorem scatter_builder_exact (step : Int) (pre : List Int) (e : Int) (rs : List (Int × Nat))
    (hne : ∀ r ∈ rs, 0 < r.2) :
    scatterSet (pre ++ List.replicate ((rs.map (·.2)).sum) step) (writesFrom step pre.length e rs)
      = pre ++ builderFrom step e rs := by
  induction rs generalizing pre e with
  | nil => simp [scatterSet, writesFrom, builderFrom]
  | cons r rs ih =>
    obtain ⟨s, l⟩ := r
    have hl : 0 < l := hne (s, l) (by simp)
    obtain ⟨m, rfl⟩ : ∃ m, l = m + 1 := ⟨l - 1, by omega⟩
    simp only [writesFrom, scatterSet, builderFrom, List.map_cons, List.sum_cons,
      Nat.add_sub_cancel]
    have e1 : (pre ++ List.replicate (m + 1 + (rs.map (·.2)).sum) step).set pre.length (s - e + 1)
        = (pre ++ (s - e + 1) :: List.replicate m step)
            ++ List.replicate ((rs.map (·.2)).sum) step := by
      have : m + 1 + (rs.map (·.2)).sum = (m + ((rs.map (·.2)).sum)) + 1 := by omega
      rw [this, List.replicate_succ, List.set_append_right _ _ (Nat.le_refl _)]
      simp [List.replicate_append_replicate]
    have e2 : pre.length + (m + 1) = (pre ++ (s - e + 1) :: List.replicate m step).length := by
      simp
    rw [e1, e2, ih _ _ (fun r hr => hne r (by simp [hr]))]
    simp

/-- the whole fast builder (scatter at `starts[1:]`, then `builder[0] = first start`) for non-empty
rows `r0 :: rs`, the writes being given in structural form -/
theorem fast_builder_core (step : Int) (s : Int) (m : Nat) (rs : List (Int × Nat))
    (hne : ∀ r ∈ rs, 0 < r.2) :
    (scatterSet (List.replicate ((((s, m + 1) :: rs).map (·.2)).sum) step)
        (writesFrom step (m + 1) (rowEnd step (s, m + 1)) rs)).set 0 s
      = builderFrom step 1 ((s, m + 1) :: rs) := by
  have e0 : List.replicate ((((s, m + 1) :: rs).map (·.2)).sum) step
      = List.replicate (m + 1) step ++ List.replicate ((rs.map (·.2)).sum) step := by
    rw [List.replicate_append_replicate]; simp
  have e1 : m + 1 = (List.replicate (m + 1) step).length := by simp
  rw [e0]
  conv => lhs; arg 1; arg 2; rw [e1]
  rw [scatter_builder_exact _ _ _ _ hne]
  simp [builderFrom, List.replicate_succ]

theorem prog_zero_step (s : Int) (n : Nat) : Py.prog s 0 n = List.replicate n s := by
  induction n with
  | zero => rfl
  | succ n ih => simp [Py.prog, List.replicate_succ, ih]

/-! ### `_get_flat_indices_fast` -/

/-- the writes of `flatIndicesFast` in structural form -/
theorem fast_writes_eq (k : Nat) (s : Int) (l : Nat) (rs : List (Int × Nat)) :
    (exclScanFrom k (rs.map (·.2))).zip
        (List.zipWith (fun (d : Int) (l : Nat) => d - (l : Int) + 1) (Np.diff (s :: rs.map (·.1)))
          ((l :: rs.map (·.2)).dropLast))
      = writesFrom 1 k (rowEnd 1 (s, l)) rs := by
  induction rs generalizing k s l with
  | nil => simp [exclScanFrom, writesFrom, Np.diff]
  | cons r rs ih =>
    obtain ⟨s', l'⟩ := r
    simp only [List.map_cons, exclScanFrom, Np.diff, List.dropLast_cons_cons,
      List.zipWith_cons_cons, List.zip_cons_cons, writesFrom]
    rw [ih]
    congr 2
    simp [rowEnd]
    omega

/-- `flatIndicesFast` on (start, length) rows with integer starts -/
theorem flatIndicesFast_rows (rows : List (Int × Nat)) (hne : ∀ r ∈ rows, 0 < r.2) :
    cumsum ((scatterSet (List.replicate ((rows.map (·.2)).sum) (1 : Int))
        (((exclScan (rows.map (·.2))).drop 1).zip
          (List.zipWith (fun (d : Int) (l : Nat) => d - (l : Int) + 1) (Np.diff (rows.map (·.1)))
            (rows.map (·.2)).dropLast))).set 0 ((rows.map (·.1)).headD 0))
      = (rows.map (fun r => Py.prog r.1 1 r.2)).flatten := by
  cases rows with
  | nil => simp [scatterSet, cumsum, cumsumFrom, exclScan, exclScanFrom, Np.diff]
  | cons r0 rs =>
    obtain ⟨s, l⟩ := r0
    have hl : 0 < l := hne (s, l) (by simp)
    obtain ⟨m, rfl⟩ : ∃ m, l = m + 1 := ⟨l - 1, by omega⟩
    have hrs : ∀ r ∈ rs, 0 < r.2 := fun r hr => hne r (by simp [hr])
    simp only [List.map_cons, exclScan, exclScanFrom, List.drop_succ_cons, List.drop_zero,
      Nat.zero_add, List.headD_cons]
    rw [fast_writes_eq]
    have := fast_builder_core 1 s m rs hrs
    simp only [List.map_cons] at this
    rw [this, cumsum]
    have := cumsum_builder 1 1 ((s, m + 1) :: rs) hne
    simpa using this

theorem flatIndicesFast_eq (codes : List (Nat × Nat)) (hne : ∀ c ∈ codes, 0 < c.2) :
    HT.flatIndicesFast codes = (codes.map (fun c => Py.prog (c.1 : Int) 1 c.2)).flatten := by
  have h := flatIndicesFast_rows (codes.map (fun c => ((c.1 : Int), c.2))) (by
    intro r hr
    obtain ⟨c, hc, rfl⟩ := List.mem_map.mp hr
    exact hne c hc)
  simp only [List.map_map, Function.comp_def] at h
  unfold HT.flatIndicesFast
  exact h

/-! ### `_broadcast_values_fast` -/

/-- the writes of `broadcastFast` in structural form (step 0: the "row end" of value `v` is `v + 1`) -/
theorem bcast_writes_eq (k : Nat) (v : Int) (ws : List Int) (ls : List Nat) (h : ws.length = ls.length) :
    (exclScanFrom k ls).zip (Np.diff (v :: ws)) = writesFrom 0 k (v + 1) (ws.zip ls) := by
  induction ws generalizing k v ls with
  | nil =>
    cases ls with
    | nil => simp [exclScanFrom, writesFrom, Np.diff]
    | cons _ _ => simp at h
  | cons w ws ih =>
    cases ls with
    | nil => simp at h
    | cons l ls =>
      simp only [exclScanFrom, Np.diff, List.zip_cons_cons, writesFrom]
      rw [ih _ _ _ (by simpa using h)]
      congr 2
      · congr 1; omega
      · simp [rowEnd]

theorem broadcastFast_eq (lens : List Nat) (vals : List Int) (hne : ∀ l ∈ lens, 0 < l)
    (hl : vals.length = lens.length) :
    HT.broadcastFast lens vals = repeatRows lens vals := by
  unfold HT.broadcastFast repeatRows
  cases vals with
  | nil =>
    cases lens with
    | nil => simp [scatterSet, cumsum, cumsumFrom, exclScan, exclScanFrom, Np.diff]
    | cons _ _ => simp at hl
  | cons v ws =>
    cases lens with
    | nil => simp at hl
    | cons l ls =>
      have hl' : ws.length = ls.length := by simpa using hl
      have h0 : 0 < l := hne l (by simp)
      obtain ⟨m, rfl⟩ : ∃ m, l = m + 1 := ⟨l - 1, by omega⟩
      have hrs : ∀ r ∈ ws.zip ls, 0 < r.2 := by
        intro r hr
        exact hne r.2 (by simp [(List.of_mem_zip hr).2])
      have hsnd : (ws.zip ls).map (·.2) = ls := List.map_snd_zip (by omega)
      simp only [exclScan, exclScanFrom, List.drop_succ_cons, List.drop_zero, Nat.zero_add,
        List.headD_cons]
      rw [bcast_writes_eq _ _ _ _ hl']
      have hb := fast_builder_core 0 v m (ws.zip ls) hrs
      simp only [List.map_cons, hsnd] at hb
      have he : rowEnd 0 (v, m + 1) = v + 1 := by simp [rowEnd]
      rw [he] at hb
      rw [hb, cumsum]
      have hc := cumsum_builder 0 1 ((v, m + 1) :: ws.zip ls) (by
        intro r hr
        rcases List.mem_cons.mp hr with rfl | hr
        · simp
        · exact hrs r hr)
      simp only [Int.sub_self] at hc
      rw [hc]
      simp only [prog_zero_step, List.map_cons, List.zipWith_cons_cons]
      congr 2
      clear hb hc hrs hsnd he hl hne
      induction ws generalizing ls with
      | nil => simp
      | cons w ws ih =>
        cases ls with
        | nil => simp at hl'
        | cons l ls => simp [ih ls (by simpa using hl')]

end Model
