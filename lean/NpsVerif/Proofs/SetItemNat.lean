import NpsVerif.Proofs.GetItemSel
import NpsVerif.Proofs.SetItemCells
/-! C03: `Py.getitem` is natural in the cell type (it only moves cells around), hence only returns
cells of the rows it reads. -/
namespace Model.SI
open Np

/-- apply a function to every cell of a result -/
def Res.mapCells {β γ} (f : β → γ) : Res β → Res γ
  | .scalar x => .scalar (f x)
  | .vec xs => .vec (xs.map f)
  | .ragged rs => .ragged (rs.map (·.map f))

/-- row lengths of a result that keeps a shape -/
def shapeOf {β} : Res β → Option (List Nat)
  | .ragged rs => some (rs.map List.length)
  | _ => none

theorem resCells_mapCells {β γ} (f : β → γ) (r : Res β) :
    Py.resCells (Res.mapCells f r) = (Py.resCells r).map f := by
  cases r with
  | scalar x => rfl
  | vec xs => rfl
  | ragged rs => simp [Res.mapCells, Py.resCells, List.map_flatten]

theorem shapeOf_mapCells {β γ} (f : β → γ) (r : Res β) : shapeOf (Res.mapCells f r) = shapeOf r := by
  cases r with
  | scalar x => rfl
  | vec xs => rfl
  | ragged rs => simp [Res.mapCells, shapeOf, Function.comp_def]

theorem selectRows_natural {β γ} (f : β → γ) (rows : List (List β)) (sel : RowSel) :
    Py.selectRows (rows.map (·.map f)) sel = (Py.selectRows rows sel).map (·.map (·.map f)) := by
  cases sel with
  | int i =>
    simp only [Py.selectRows, Py.index, getIdx_map]
    cases getIdx rows i <;> simp
  | slice a b k =>
    simp only [Py.selectRows]
    split <;> simp [slice_map]
  | list is =>
    simp only [Py.selectRows]
    exact gather_map (·.map f) rows is
  | mask bs =>
    simp only [Py.selectRows, List.length_map]
    split <;> simp [mask_map]
  | all => simp [Py.selectRows]

theorem mapM_index_natural {β γ} (f : β → γ) (rs : List (List β)) (j : Int) :
    (rs.map (·.map f)).mapM (Py.index · j) = (rs.mapM (Py.index · j)).map (·.map f) := by
  rw [mapM_map, ← mapM_map_post]
  apply mapM_congr
  intro r _
  simp only [Py.index, getIdx_map]

theorem getitem_natural {β γ} (f : β → γ) (rows : List (List β)) (idx : Index) :
    Py.getitem (rows.map (·.map f)) idx = (Py.getitem rows idx).map (Res.mapCells f) := by
  have hsel_int : ∀ (sel : RowSel) (j : Int),
      (Py.selectRows (rows.map (·.map f)) sel).bind (fun rs => (rs.mapM (Py.index · j)).map Res.vec)
        = ((Py.selectRows rows sel).bind (fun rs => (rs.mapM (Py.index · j)).map Res.vec)).map
            (Res.mapCells f) := by
    intro sel j
    rw [selectRows_natural]
    cases Py.selectRows rows sel with
    | none => rfl
    | some rs =>
      simp only [Option.map_some, Option.bind_some, mapM_index_natural]
      cases rs.mapM (Py.index · j) <;> rfl
  have hsel_slice : ∀ (sel : RowSel) (x y k : Option Int),
      (if k = some 0 then none else (Py.selectRows (rows.map (·.map f)) sel).map
          (fun rs => Res.ragged (rs.map (fun r => Py.slice r x y (k.getD 1)))))
        = (if k = some 0 then none else (Py.selectRows rows sel).map
          (fun rs => Res.ragged (rs.map (fun r => Py.slice r x y (k.getD 1))))).map (Res.mapCells f) := by
    intro sel x y k
    split
    · rfl
    · rw [selectRows_natural]
      cases Py.selectRows rows sel with
      | none => rfl
      | some rs =>
        simp only [Option.map_some, Res.mapCells, List.map_map]
        congr 2
        apply List.map_congr_left
        intro r _
        simp [slice_map]
  have hsel : ∀ sel : RowSel, (Py.selectRows (rows.map (·.map f)) sel).map Res.ragged
      = ((Py.selectRows rows sel).map Res.ragged).map (Res.mapCells f) := by
    intro sel
    rw [selectRows_natural]
    cases Py.selectRows rows sel <;> rfl
  cases idx with
  | rows sel =>
    cases sel with
    | int i =>
      simp only [Py.getitem, Py.index, getIdx_map]
      cases getIdx rows i <;> rfl
    | slice a b k => simp only [Py.getitem]; exact hsel _
    | list is => simp only [Py.getitem]; exact hsel _
    | mask bs => simp only [Py.getitem]; exact hsel _
    | all => simp only [Py.getitem]; exact hsel _
  | rowcol sel col =>
    cases col with
    | int j =>
      cases sel with
      | int i =>
        simp only [Py.getitem, Py.index, getIdx_map]
        cases getIdx rows i with
        | none => rfl
        | some r =>
          simp only [Option.map_some, Option.bind_some, getIdx_map]
          cases getIdx r j <;> rfl
      | list is => simp only [Py.getitem]; exact hsel_int _ j
      | slice a b k => simp only [Py.getitem]; exact hsel_int _ j
      | mask bs => simp only [Py.getitem]; exact hsel_int _ j
      | all => simp only [Py.getitem]; exact hsel_int _ j
    | slice x y k =>
      cases sel with
      | int i =>
        simp only [Py.getitem, Py.index, getIdx_map]
        split
        · rfl
        · cases getIdx rows i with
          | none => rfl
          | some r => simp [Res.mapCells, slice_map]
      | list is => simp only [Py.getitem]; exact hsel_slice _ x y k
      | slice a b k' => simp only [Py.getitem]; exact hsel_slice _ x y k
      | mask bs => simp only [Py.getitem]; exact hsel_slice _ x y k
      | all => simp only [Py.getitem]; exact hsel_slice _ x y k

/-- free theorem: every cell of the result is a cell of the rows that were read -/
theorem getitem_cells_mem {β} [DecidableEq β] (rows : List (List β)) (idx : Index) (sel : Res β)
    (h : Py.getitem rows idx = some sel) : ∀ x ∈ Py.resCells sel, x ∈ rows.flatten := by
  have h1 := getitem_natural (fun x => decide (x ∈ rows.flatten)) rows idx
  have h2 := getitem_natural (fun _ => true) rows idx
  have e : rows.map (·.map (fun x => decide (x ∈ rows.flatten))) = rows.map (·.map (fun _ => true)) := by
    apply List.map_congr_left
    intro r hr
    apply List.map_congr_left
    intro x hx
    simp only [decide_eq_true_eq]
    exact List.mem_flatten.mpr ⟨r, hr, hx⟩
  rw [e, h2, h] at h1
  simp only [Option.map_some, Option.some.injEq] at h1
  have h3 := congrArg Py.resCells h1
  rw [resCells_mapCells, resCells_mapCells] at h3
  intro x hx
  have : (fun _ => true) x = (fun y => decide (y ∈ rows.flatten)) x :=
    List.map_inj_left.mp h3 x hx
  simpa using this.symm

end Model.SI
