import NpsVerif.Model.Structural
import NpsVerif.Spec.Rows
import NpsVerif.Proofs.StructB
import NpsVerif.Proofs.C01
/-! Lemmas for property C08 (part C): `ragged_slice` on 1-D and 2-D ndarray inputs. -/
namespace Model
open Np
variable {α : Type}

/-! ## `sliceByBounds` over arbitrary absolute windows -/

/-- the (start, end, length) triples and the lengths `sliceByBounds` computes -/
theorem bounds_triples (starts ends : List Int) :
    let lens := List.zipWith (fun e s => max (e - s) 0) ends starts
    let R : List (Int × Nat) := (starts.zip ends).map (fun p => (p.1, (p.2 - p.1).toNat))
    (starts.zip lens).map (fun p => (p.1, p.1 + p.2, p.2.toNat)) = R.map (vrow 1)
      ∧ lens.map Int.toNat = R.map (·.2) := by
  induction starts generalizing ends with
  | nil => simp
  | cons s ss ih =>
    cases ends with
    | nil => simp
    | cons e es =>
      have := ih es
      dsimp only at this ⊢
      simp only [List.zip_cons_cons, List.map_cons, List.zipWith_cons_cons]
      rw [this.1, this.2]
      refine ⟨?_, ?_⟩
      · congr 1
        simp only [vrow, rowEnd]
        congr 2
        · omega
        · omega
      · congr 1
        omega

/-- `sliceByBounds` over windows that are empty or inside the buffer -/
theorem sliceByBounds_eq (data : List α) (starts ends : List Int)
    (h : ∀ p ∈ starts.zip ends, (p.2 - p.1).toNat = 0 ∨ (0 ≤ p.1 ∧ p.2 ≤ (data.length : Int))) :
    sliceByBounds data starts ends
      = some ((starts.zip ends).map (fun p => (data.drop p.1.toNat).take (p.2 - p.1).toNat)) := by
  obtain ⟨h1, h2⟩ := bounds_triples starts ends
  unfold sliceByBounds
  dsimp only at h1 h2 ⊢
  rw [h1, h2, gather_windows data _ ?_, List.map_map]
  · rfl
  · intro r hr
    obtain ⟨p, hp, rfl⟩ := List.mem_map.mp hr
    rcases h p hp with h0 | ⟨h0, h1⟩
    · left; exact h0
    · by_cases hz : (p.2 - p.1).toNat = 0
      · left; exact hz
      · right
        dsimp only
        omega

/-! ## equal-length rows: the shape's starts are the multiples of the row length -/

theorem exclScanFrom_replicate (k n c : Nat) :
    exclScanFrom k (List.replicate n c) = (List.range n).map (fun i => k + i * c) := by
  induction n generalizing k with
  | zero => simp [exclScanFrom]
  | succ n ih =>
    rw [List.replicate_succ, exclScanFrom, ih, List.range_succ_eq_map, List.map_cons, List.map_map]
    congr 1
    · simp
    · apply List.map_congr_left
      intro i _
      simp only [Function.comp, Nat.succ_eq_add_one, Nat.add_mul, Nat.one_mul]
      omega

theorem exclScanFrom_replicate_ends (k n c : Nat) :
    ((exclScanFrom k (List.replicate n c)).zip (List.replicate n c)).map (fun p => p.1 + p.2)
      = (List.range n).map (fun i => k + i * c + c) := by
  induction n generalizing k with
  | zero => simp [exclScanFrom]
  | succ n ih =>
    rw [List.replicate_succ, exclScanFrom, List.zip_cons_cons, List.map_cons, ih,
      List.range_succ_eq_map, List.map_cons, List.map_map]
    congr 1
    · simp
    · apply List.map_congr_left
      intro i _
      simp only [Function.comp, Nat.succ_eq_add_one, Nat.add_mul, Nat.one_mul]
      omega

theorem lengths_eq_replicate (m : List (List α)) (c : Nat) (hm : ∀ r ∈ m, r.length = c) :
    m.map List.length = List.replicate m.length c := by
  rw [List.eq_replicate_iff]
  refine ⟨by simp, ?_⟩
  intro b hb
  obtain ⟨r, hr, rfl⟩ := List.mem_map.mp hb
  exact hm r hr

/-- for a matrix (rows of equal length) `raggedSlice2d` is `raggedSlice` of the rows -/
theorem raggedSlice2d_eq_raggedSlice (m : List (List α)) (c : Nat) (hm : ∀ r ∈ m, r.length = c)
    (ss es : List Int) :
    raggedSlice2d m c ss es = raggedSlice (RA.ofRows m) (some ss) (some es) := by
  have hls := lengths_eq_replicate m c hm
  have hS : (RA.ofRows m).shape.starts.map (fun (s : Nat) => (s : Int))
      = (List.range m.length).map (fun i => ((i * c : Nat) : Int)) := by
    simp only [RA.ofRows, Shape.starts, ofLens_codes, exclScan]
    rw [List.map_fst_zip (by simp [exclScanFrom_length]), hls, exclScanFrom_replicate, List.map_map]
    apply List.map_congr_left
    intro i _
    simp
  have hE : (RA.ofRows m).shape.ends.map (fun (e : Nat) => (e : Int))
      = ((List.range m.length).map (fun i => ((i * c : Nat) : Int))).map (· + (c : Int)) := by
    simp only [RA.ofRows, Shape.ends, ofLens_codes, exclScan]
    rw [hls, exclScanFrom_replicate_ends, List.map_map, List.map_map]
    apply List.map_congr_left
    intro i _
    simp
  have hn : (RA.ofRows m).shape.nRows = m.length := by
    simp [RA.ofRows, ofLens_nRows]
  unfold raggedSlice2d raggedSlice sliceByBounds
  simp only [hS, hE, hn]
  by_cases h : ss.length ≠ m.length ∨ es.length ≠ m.length
  · rw [if_pos h, if_pos]
    rcases h with h | h <;> simp [h]
  · have h1 : ss.length = m.length := by omega
    have h2 : es.length = m.length := by omega
    rw [if_neg h, if_neg (by simp [h1, h2])]
    rfl

end Model
