import NpsVerif.Model.DataClass
import NpsVerif.Proofs.GetItemSel
/-!
# C18 helpers: entries of a table vs. its columns

The bridge is the pair
* `col_of_entries`: column `j` of a well-formed table is the `j`-th projection of its entries
  (`c.map some = (entries t).map (·[j]?)`),
* `mk?_entries`: conversely a list of `k ≥ 1` columns that are the projections of a rectangular
  list `E` of records of width `k` is accepted by the constructor and its entries are `E`.

Every selector (`selCol`) commutes with `List.map`, hence with the projections.
-/
namespace Proofs.DataClass
open Model Model.DC Np
variable {α : Type}

/-! ### generic list / option plumbing -/

theorem option_map_some_inj {β} {o : Option β} {x : Option β} (h : o.map some = some x) : o = x := by
  cases o <;> simp at h <;> simp [h]

theorem list_map_some_inj {β} {l l' : List β} (h : l.map some = l'.map some) : l = l' := by
  have := congrArg (List.filterMap id) h
  simpa [List.filterMap_map] using this

/-- a `filterMap` that drops nothing is a `map` -/
theorem filterMap_map_some {β γ} (f : β → Option γ) (l : List β) (h : ∀ x ∈ l, ∃ y, f x = some y) :
    (l.filterMap f).map some = l.map f := by
  induction l with
  | nil => rfl
  | cons x xs ih =>
    obtain ⟨y, hy⟩ := h x (by simp)
    simp only [List.filterMap_cons, hy, List.map_cons, ih (fun z hz => h z (by simp [hz]))]

theorem getElem?_filterMap_all {β γ} (f : β → Option γ) (l : List β) (h : ∀ x ∈ l, ∃ y, f x = some y)
    (j : Nat) : (l.filterMap f)[j]? = l[j]?.bind f := by
  have := congrArg (·[j]?) (filterMap_map_some f l h)
  simp only [List.getElem?_map] at this
  cases hl : l[j]? with
  | none => simp [hl] at this; simpa using this
  | some x =>
    simp only [hl, Option.map_some, Option.bind_some] at this ⊢
    exact option_map_some_inj this

theorem length_filterMap_all {β γ} (f : β → Option γ) (l : List β) (h : ∀ x ∈ l, ∃ y, f x = some y) :
    (l.filterMap f).length = l.length := by
  have := congrArg List.length (filterMap_map_some f l h)
  simpa using this

theorem mapM_eq_some_map {β γ} (f : β → Option γ) (g : β → γ) (l : List β)
    (h : ∀ x ∈ l, f x = some (g x)) : l.mapM f = some (l.map g) := by
  rw [mapM_congr f (fun x => some (g x)) l h, mapM_some]

theorem mapM_eq_none_of_mem {β γ} (f : β → Option γ) (l : List β) (x : β) (hx : x ∈ l)
    (h : f x = none) : l.mapM f = none := by
  induction l with
  | nil => simp at hx
  | cons y ys ih =>
    rw [mapM_cons']
    rcases List.mem_cons.mp hx with rfl | hx
    · simp [h]
    · cases f y <;> simp [ih hx]

/-- a `mapM` that refuses nowhere is a `filterMap` -/
theorem mapM_eq_filterMap {β γ} (f : β → Option γ) (l : List β) (h : ∀ x ∈ l, ∃ y, f x = some y) :
    l.mapM f = some (l.filterMap f) := by
  induction l with
  | nil => simp
  | cons x xs ih =>
    obtain ⟨y, hy⟩ := h x (by simp)
    rw [mapM_cons', ih (fun z hz => h z (by simp [hz]))]
    simp [hy]

/-! ### the selectors -/

/-- for the non-integer selectors the specification's row selection is `selCol` -/
theorem selectRows_eq_selCol (E : List (List α)) (sel : RowSel)
    (hs : match sel with | .int _ => False | _ => True) : Py.selectRows E sel = selCol E sel := by
  cases sel with
  | int i => exact hs.elim
  | slice a b k =>
    simp only [Py.selectRows, selCol, sliceList, getD_one_eq_zero]
  | list is => rfl
  | mask bs => rfl
  | all => rfl

theorem selCol_map {β γ} (f : β → γ) (l : List β) (sel : RowSel) :
    selCol (l.map f) sel = (selCol l sel).map (·.map f) := by
  cases sel with
  | int i => simp [selCol]
  | slice a b k =>
    simp only [selCol, sliceList]
    split <;> simp [slice_map]
  | list is => exact gather_map f l is
  | mask bs =>
    simp only [selCol, List.length_map]
    split <;> simp [mask_map]
  | all => simp [selCol]

theorem selCol_mem {β} (l : List β) (sel : RowSel) (s : List β) (h : selCol l sel = some s) :
    ∀ x ∈ s, x ∈ l := by
  cases sel with
  | int i => simp [selCol] at h
  | slice a b k =>
    simp only [selCol, sliceList] at h
    split at h
    · simp at h
    · simp at h; subst h; exact slice_mem _ _ _ _
  | list is => exact gather_mem h
  | mask bs =>
    simp only [selCol] at h
    split at h
    · simp at h; subst h; exact mask_mem _ _
    · simp at h
  | all => simp [selCol] at h; subst h; exact fun _ hx => hx

/-! ### the constructor -/

theorem mk?_eq_some_iff (cols : List (String × List α)) (t : Table α) :
    mk? cols = some t ↔
      (t.cols = cols ∧ cols ≠ [] ∧ ∀ c ∈ cols, c.2.length = len t) := by
  cases cols with
  | nil => simp [mk?]
  | cons c rest =>
    simp only [mk?]
    constructor
    · intro h
      split at h
      · rename_i hall
        simp at h; subst h
        refine ⟨rfl, by simp, ?_⟩
        intro d hd
        rcases List.mem_cons.mp hd with rfl | hd
        · simp [len]
        · simpa [len] using (List.all_eq_true.mp hall) d hd
      · simp at h
    · rintro ⟨h1, _, h3⟩
      have hall : rest.all (fun d => d.2.length == c.2.length) = true := by
        rw [List.all_eq_true]
        intro d hd
        have a := h3 d (by simp [hd])
        have b := h3 c (by simp)
        simp [a, b]
      rw [if_pos hall]
      cases t; simp at h1; simp [h1]

theorem mk?_some_of_len (cols : List (String × List α)) (n : Nat) (hne : cols ≠ [])
    (h : ∀ c ∈ cols, c.2.length = n) : mk? cols = some ⟨cols⟩ ∧ len (⟨cols⟩ : Table α) = n := by
  cases cols with
  | nil => exact absurd rfl hne
  | cons c rest =>
    have hl : len (⟨c :: rest⟩ : Table α) = n := by simp [len, h c (by simp)]
    refine ⟨?_, hl⟩
    rw [mk?_eq_some_iff]
    refine ⟨rfl, hne, ?_⟩
    intro d hd
    rw [hl]; exact h d hd

/-- a well-formed table: non-empty, every column has the common length -/
theorem wf_cols {t : Table α} (ht : mk? t.cols = some t) :
    t.cols ≠ [] ∧ ∀ c ∈ t.cols, c.2.length = len t := by
  have := (mk?_eq_some_iff t.cols t).mp ht
  exact ⟨this.2.1, this.2.2⟩

/-! ### entries -/

/-- the `i`-th record -/
def row (t : Table α) (i : Nat) : List α := t.cols.filterMap (fun c => c.2[i]?)

theorem entries_eq (t : Table α) : entries t = (List.range (len t)).map (row t) := rfl

theorem length_entries (t : Table α) : (entries t).length = len t := by
  simp [entries]

theorem getElem?_entries (t : Table α) (i : Nat) (hi : i < len t) :
    (entries t)[i]? = some (row t i) := by
  simp [entries_eq, List.getElem?_map, List.getElem?_range hi]

theorem row_all {t : Table α} (ht : mk? t.cols = some t) (i : Nat) (hi : i < len t) :
    ∀ c ∈ t.cols, ∃ y, (fun c : String × List α => c.2[i]?) c = some y := by
  intro c hc
  have := (wf_cols ht).2 c hc
  exact ⟨c.2[i]'(by omega), by simp⟩

theorem row_getElem? {t : Table α} (ht : mk? t.cols = some t) (i : Nat) (hi : i < len t) (j : Nat) :
    (row t i)[j]? = t.cols[j]?.bind (fun c => c.2[i]?) :=
  getElem?_filterMap_all _ _ (row_all ht i hi) j

theorem row_length {t : Table α} (ht : mk? t.cols = some t) (i : Nat) (hi : i < len t) :
    (row t i).length = t.cols.length :=
  length_filterMap_all _ _ (row_all ht i hi)

/-- the entries are rectangular -/
theorem entries_rect {t : Table α} (ht : mk? t.cols = some t) :
    ∀ e ∈ entries t, e.length = t.cols.length := by
  intro e he
  rw [entries_eq, List.mem_map] at he
  obtain ⟨i, hi, rfl⟩ := he
  exact row_length ht i (List.mem_range.mp hi)

/-- column `j` is the `j`-th projection of the entries -/
theorem col_of_entries {t : Table α} (ht : mk? t.cols = some t) (j : Nat) (c : String × List α)
    (hc : t.cols[j]? = some c) : c.2.map some = (entries t).map (·[j]?) := by
  have hlen : c.2.length = len t := (wf_cols ht).2 c (List.mem_of_getElem? hc)
  apply List.ext_getElem?
  intro i
  rw [List.getElem?_map, List.getElem?_map]
  by_cases hi : i < len t
  · rw [getElem?_entries t i hi]
    simp only [Option.map_some, row_getElem? ht i hi j, hc, Option.bind_some]
    have : i < c.2.length := by omega
    simp [this]
  · rw [List.getElem?_eq_none (by omega), List.getElem?_eq_none (by rw [length_entries]; omega)]
    rfl

/-- converse: `k ≥ 1` columns that are the projections of a rectangular `E` of width `k` form a
table whose entries are `E` -/
theorem mk?_entries (cols : List (String × List α)) (E : List (List α)) (hk : cols ≠ [])
    (hrect : ∀ e ∈ E, e.length = cols.length)
    (hcols : ∀ (j : Nat) (c : String × List α), cols[j]? = some c → c.2.map some = E.map (·[j]?)) :
    mk? cols = some ⟨cols⟩ ∧ entries (⟨cols⟩ : Table α) = E := by
  have hlen : ∀ c ∈ cols, c.2.length = E.length := by
    intro c hc
    obtain ⟨j, hj⟩ := List.mem_iff_getElem?.mp hc
    have := congrArg List.length (hcols j c hj)
    simpa using this
  obtain ⟨hmk, hl⟩ := mk?_some_of_len cols E.length hk hlen
  refine ⟨hmk, ?_⟩
  have hwf : mk? (⟨cols⟩ : Table α).cols = some ⟨cols⟩ := hmk
  apply List.ext_getElem?
  intro i
  by_cases hi : i < E.length
  · rw [getElem?_entries _ i (by omega)]
    have hE : E[i]? = some E[i] := by simp [hi]
    rw [hE]
    congr 1
    apply List.ext_getElem?
    intro j
    rw [row_getElem? hwf i (by omega) j]
    show cols[j]?.bind (fun c => c.2[i]?) = E[i][j]?
    cases hj : cols[j]? with
    | none =>
      have : cols.length ≤ j := by
        rcases Nat.lt_or_ge j cols.length with h | h
        · simp [h] at hj
        · exact h
      have h2 := hrect E[i] (by simp)
      rw [List.getElem?_eq_none (by omega)]; rfl
    | some c =>
      have := congrArg (·[i]?) (hcols j c hj)
      simp only [List.getElem?_map, hE, Option.map_some] at this
      simp only [Option.bind_some]
      exact option_map_some_inj this
  · rw [List.getElem?_eq_none (by rw [length_entries]; omega), List.getElem?_eq_none (by omega)]

end Proofs.DataClass
