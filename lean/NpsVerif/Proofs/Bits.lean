import NpsVerif.Model.BitArray
/-! Lemmas about `stream b a = Σ a[i]·2^(b·i)` and a few pure bit-arithmetic facts (C13). -/
namespace Proofs.Bits
open Model.BitArray

theorem stream_nil (b : Nat) : stream b [] = 0 := rfl
theorem stream_cons (b x : Nat) (xs : List Nat) : stream b (x :: xs) = x + 2 ^ b * stream b xs := rfl

theorem stream_mod (b : Nat) (x : Nat) (xs : List Nat) (hx : x < 2 ^ b) :
    stream b (x :: xs) % 2 ^ b = x := by
  simp [stream, Nat.add_mul_mod_self_left, Nat.mod_eq_of_lt hx]

theorem stream_div (b : Nat) (x : Nat) (xs : List Nat) (hx : x < 2 ^ b) :
    stream b (x :: xs) / 2 ^ b = stream b xs := by
  have hp : 0 < 2 ^ b := Nat.two_pow_pos b
  simp [stream, Nat.add_mul_div_left _ _ hp, Nat.div_eq_of_lt hx]

/-- the stream of `len` digits is below `2^(b·len)` -/
theorem stream_lt (b : Nat) (l : List Nat) (hl : ∀ x ∈ l, x < 2 ^ b) :
    stream b l < 2 ^ (b * l.length) := by
  induction l with
  | nil => simp [stream]
  | cons x xs ih =>
    have hx : x < 2 ^ b := hl x (by simp)
    have ih' := ih (fun y hy => hl y (by simp [hy]))
    have h1 : 2 ^ b * (stream b xs + 1) ≤ 2 ^ b * 2 ^ (b * xs.length) := Nat.mul_le_mul_left _ ih'
    rw [Nat.mul_add, Nat.mul_one] at h1
    simp only [stream, List.length_cons, Nat.mul_add, Nat.mul_one, Nat.pow_add]
    rw [Nat.mul_comm (2 ^ (b * xs.length))]
    omega

/-- shifting the stream right by `m` digits drops `m` elements -/
theorem stream_shiftRight (b : Nat) (l : List Nat) (hl : ∀ x ∈ l, x < 2 ^ b) (m : Nat) :
    stream b l >>> (b * m) = stream b (l.drop m) := by
  induction l generalizing m with
  | nil => simp [stream]
  | cons x xs ih =>
    cases m with
    | zero => simp
    | succ m =>
      have hx : x < 2 ^ b := hl x (by simp)
      have : b * (m + 1) = b + b * m := by rw [Nat.mul_add, Nat.mul_one, Nat.add_comm]
      rw [this, Nat.shiftRight_add, Nat.shiftRight_eq_div_pow _ b, stream_div b x xs hx]
      simpa using ih (fun y hy => hl y (by simp [hy])) m

/-- the low `k` digits of the stream are the stream of the first `k` elements -/
theorem stream_mod_pow (b : Nat) (l : List Nat) (hl : ∀ x ∈ l, x < 2 ^ b) (k : Nat) :
    stream b l % 2 ^ (b * k) = stream b (l.take k) := by
  induction l generalizing k with
  | nil => simp [stream, Nat.zero_mod]
  | cons x xs ih =>
    cases k with
    | zero => simp [stream, Nat.mod_one]
    | succ k =>
      have hx : x < 2 ^ b := hl x (by simp)
      have : b * (k + 1) = b + b * k := by rw [Nat.mul_add, Nat.mul_one, Nat.add_comm]
      rw [this, Nat.pow_add, Nat.mod_mul, stream_mod b x xs hx, stream_div b x xs hx,
        ih (fun y hy => hl y (by simp [hy])) k]
      simp [stream]

theorem stream_append (b : Nat) (l₁ l₂ : List Nat) :
    stream b (l₁ ++ l₂) = stream b l₁ + 2 ^ (b * l₁.length) * stream b l₂ := by
  induction l₁ with
  | nil => simp [stream]
  | cons x xs ih =>
    simp only [List.cons_append, stream, ih, List.length_cons, Nat.mul_add, Nat.mul_one, Nat.pow_add]
    rw [Nat.mul_comm (2 ^ (b * xs.length)) (2 ^ b), Nat.mul_assoc, Nat.add_assoc]

theorem stream_toList (b : Nat) (o : Option Nat) : stream b o.toList = o.getD 0 := by
  cases o <;> simp [stream]

theorem stream_take_succ (b : Nat) (l : List Nat) (k : Nat) :
    stream b (l.take (k + 1)) = stream b (l.take k) + 2 ^ (b * k) * l[k]?.getD 0 := by
  rw [List.take_add_one, stream_append, stream_toList]
  cases h : l[k]? with
  | none => simp
  | some x =>
    have hk : k < l.length := by
      rcases List.getElem?_eq_some_iff.mp h with ⟨h', _⟩; exact h'
    simp [Nat.min_eq_left (Nat.le_of_lt hk)]

/-- every `b`-bit digit of the stream, including those beyond the end (which are 0) -/
theorem stream_digit_getD (b : Nat) (a : List Nat) (ha : ∀ x ∈ a, x < 2 ^ b) (m : Nat) :
    (stream b a >>> (b * m)) % 2 ^ b = a[m]?.getD 0 := by
  have h1 : ∀ x ∈ a.drop m, x < 2 ^ b := fun x hx => ha x (List.mem_of_mem_drop hx)
  have := stream_mod_pow b (a.drop m) h1 1
  rw [Nat.mul_one] at this
  rw [stream_shiftRight b a ha, this, List.take_one, List.head?_drop, stream_toList]

theorem stream_digit (b : Nat) (a : List Nat) (ha : ∀ x ∈ a, x < 2 ^ b) (i : Nat) (hi : i < a.length) :
    (stream b a >>> (b * i)) % 2 ^ b = a[i] := by
  rw [stream_digit_getD b a ha]; simp [hi]

/-! ### pure bit arithmetic -/

/-- reading `d` bits at offset `c` from the low `N` bits of `t` = reading them from `t`, if they fit -/
theorem mod_shiftRight_mod (t N c d : Nat) (h : c + d ≤ N) :
    ((t % 2 ^ N) >>> c) % 2 ^ d = (t >>> c) % 2 ^ d := by
  apply Nat.eq_of_testBit_eq
  intro j
  simp only [Nat.testBit_mod_two_pow, Nat.testBit_shiftRight]
  by_cases hj : j < d
  · have : c + j < N := by omega
    simp [hj, this]
  · simp [hj]

/-- `x & (~0 >> (64 - k)) = x mod 2^k` -/
theorem and_mask (x k : Nat) (hk : k ≤ 64) : x &&& ((W - 1) >>> (64 - k)) = x % 2 ^ k := by
  apply Nat.eq_of_testBit_eq
  intro j
  simp only [W, Nat.testBit_and, Nat.testBit_shiftRight, Nat.testBit_two_pow_sub_one,
    Nat.testBit_mod_two_pow]
  by_cases hj : j < k
  · have : 64 - k + j < 64 := by omega
    simp [hj, this]
  · have : ¬ (64 - k + j < 64) := by omega
    simp [hj, this]

/-- splice of two consecutive 64-bit registers of `t`, read at bit offset `c < 64` -/
theorem splice (t c : Nat) (hc : c < 64) :
    ((t % 2 ^ 64) >>> c) ||| shl64 ((t >>> 64) % 2 ^ 64) (64 - c) = (t >>> c) % 2 ^ 64 := by
  unfold shl64
  by_cases h0 : c = 0
  · subst h0; simp
  · have : ¬ (64 - c ≥ 64) := by omega
    rw [if_neg this]
    apply Nat.eq_of_testBit_eq
    intro j
    simp only [W, Nat.testBit_or, Nat.testBit_mod_two_pow, Nat.testBit_shiftRight,
      Nat.testBit_shiftLeft]
    by_cases hj : j < 64
    · by_cases hcj : c + j < 64
      · have h2 : ¬ (j ≥ 64 - c) := by omega
        simp [hj, hcj, h2]
      · have h2 : j ≥ 64 - c := by omega
        have h3 : j - (64 - c) < 64 := by omega
        have h4 : 64 + (j - (64 - c)) = c + j := by omega
        simp [hj, hcj, h2, h3, h4]
    · have hcj : ¬ (c + j < 64) := by omega
      simp [hj, hcj]

end Proofs.Bits
