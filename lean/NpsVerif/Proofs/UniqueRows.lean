import NpsVerif.Model.Scan
import NpsVerif.Spec.Rows
import NpsVerif.Proofs.C01Maps
import NpsVerif.Proofs.RLBasic
import NpsVerif.Proofs.Materialise
/-!
# `uniqueRows` (property C07): the masked run-length encoding of a buffer of sorted rows

For a buffer `R.flatten` (rows `R`, any element type, any `ne`):
* `scatter_rows` / `mask1_eq`: the change mask with the forced `True` at every row start is
  `(R.map rowMask).flatten ++ [true]`, `rowMask (x :: xs) = true :: zipWith ne (x :: xs) xs`;
* `counts_rows`: `diff(flatnonzero(mask))` is the concatenation of the run lengths of every row;
* `data_rows`: the cells selected by the mask are the first cells of the runs;
* `startCounts_eq`, `endCounts_eq`, `newLens_rows`: the `cumsum` bookkeeping (with the `-1` hack)
  yields the number of runs of every row;
* `unique_core`: everything put together.
-/
namespace Proofs.UniqueRows
open Model Np Proofs.RL

variable {α : Type}

/-! ## the mask -/

/-- change mask of a buffer whose predecessor cell is `prev`, closed by the final `True` -/
def chg (ne : α → α → Bool) : Option α → List α → List Bool
  | _, [] => [true]
  | prev, x :: xs => (match prev with | none => true | some p => ne p x) :: chg ne (some x) xs

/-- mask of one row: first cell forced, then the changes -/
def rowMask (ne : α → α → Bool) : List α → List Bool
  | [] => []
  | x :: xs => true :: List.zipWith ne (x :: xs) xs

@[simp] theorem rowMask_length (ne : α → α → Bool) (r : List α) : (rowMask ne r).length = r.length := by
  cases r with
  | nil => rfl
  | cons x xs => simp [rowMask]

theorem chg_some (ne : α → α → Bool) (x : α) (xs : List α) :
    chg ne (some x) xs = List.zipWith ne (x :: xs) xs ++ [true] := by
  induction xs generalizing x with
  | nil => simp [chg]
  | cons y ys ih => simp [chg, ih]

theorem mask0_eq (ne : α → α → Bool) (s : List α) (h : s ≠ []) :
    true :: List.zipWith ne s (s.drop 1) ++ [true] = chg ne none s := by
  cases s with
  | nil => exact absurd rfl h
  | cons x xs => simp [chg, chg_some]

theorem chg_append (ne : α → α → Bool) (x : α) (xs rest : List α) :
    ∃ prev, chg ne (some x) (xs ++ rest) = List.zipWith ne (x :: xs) xs ++ chg ne prev rest := by
  induction xs generalizing x with
  | nil => exact ⟨some x, by simp⟩
  | cons y ys ih =>
    obtain ⟨prev, h⟩ := ih y
    exact ⟨prev, by simp [chg, h]⟩

theorem set_head (ne : α → α → Bool) (preM : List Bool) (prev : Option α) (l : List α) :
    (preM ++ chg ne prev l).set preM.length true = preM ++ chg ne none l := by
  cases l <;> simp [chg]

/-- the forced `True`s at the row starts turn the change mask into the per-row masks -/
theorem scatter_rows (ne : α → α → Bool) (R : List (List α)) (preM : List Bool) (prev : Option α) :
    scatterSet (preM ++ chg ne prev R.flatten)
        ((exclScanFrom preM.length (R.map List.length)).map (fun i => (i, true)))
      = preM ++ (R.map (rowMask ne)).flatten ++ [true] := by
  induction R generalizing preM prev with
  | nil => simp [exclScanFrom, scatterSet, chg]
  | cons r R ih =>
    simp only [List.map_cons, exclScanFrom, scatterSet]
    rw [set_head]
    cases r with
    | nil =>
      simp only [List.flatten_cons, List.nil_append, List.length_nil, Nat.add_zero, rowMask]
      exact ih preM none
    | cons x xs =>
      obtain ⟨prev', hp⟩ := chg_append ne x xs R.flatten
      have e : preM ++ chg ne none ((x :: xs) :: R).flatten
          = (preM ++ true :: List.zipWith ne (x :: xs) xs) ++ chg ne prev' R.flatten := by
        simp only [List.flatten_cons, List.cons_append, chg, hp]
        simp
      have hl : (preM ++ true :: List.zipWith ne (x :: xs) xs).length = preM.length + (x :: xs).length := by
        simp
      rw [e, ← hl, ih]
      simp [rowMask]

theorem mask1_eq (ne : α → α → Bool) (R : List (List α)) (h : R.flatten ≠ []) :
    scatterSet (true :: List.zipWith ne R.flatten (R.flatten.drop 1) ++ [true])
        ((exclScan (R.map List.length)).map (fun i => (i, true)))
      = (R.map (rowMask ne)).flatten ++ [true] := by
  rw [mask0_eq ne _ h]
  have := scatter_rows ne R [] none
  simpa [exclScan] using this

theorem masks_head (ne : α → α → Bool) (R : List (List α)) :
    ∃ T, (R.map (rowMask ne)).flatten ++ [true] = true :: T := by
  induction R with
  | nil => exact ⟨[], rfl⟩
  | cons r R ih =>
    cases r with
    | nil => simpa [rowMask] using ih
    | cons x xs =>
      exact ⟨List.zipWith ne (x :: xs) xs ++ (R.map (rowMask ne)).flatten ++ [true], by simp [rowMask]⟩

theorem masks_length (ne : α → α → Bool) (R : List (List α)) :
    (R.map (rowMask ne)).flatten.length = R.flatten.length := by
  induction R with
  | nil => rfl
  | cons r R ih => simp [ih]

/-- writing `true` keeps a `true` -/
theorem scatter_true_keeps (a : List Bool) (idx : List Nat) (i : Nat) (h : a[i]? = some true) :
    (scatterSet a (idx.map (fun i => (i, true))))[i]? = some true := by
  induction idx generalizing a with
  | nil => simpa [scatterSet] using h
  | cons j js ih =>
    simp only [List.map_cons, scatterSet]
    apply ih
    rw [List.getElem?_set]
    split
    · rename_i hji
      subst hji
      have : j < a.length := by
        rcases Nat.lt_or_ge j a.length with hlt | hge
        · exact hlt
        · rw [List.getElem?_eq_none hge] at h; simp at h
      simp [this]
    · exact h

theorem scatter_length {β : Type} (a : List β) (ws : List (Nat × β)) : (scatterSet a ws).length = a.length := by
  induction ws generalizing a with
  | nil => rfl
  | cons w ws ih => obtain ⟨i, v⟩ := w; simp [scatterSet, ih]

theorem scatter_true_mem (a : List Bool) (idx : List Nat) (i : Nat) (hi : i ∈ idx) (hlt : i < a.length) :
    (scatterSet a (idx.map (fun i => (i, true))))[i]? = some true := by
  induction idx generalizing a with
  | nil => simp at hi
  | cons j js ih =>
    simp only [List.map_cons, scatterSet]
    by_cases hij : i = j
    · subst hij
      apply scatter_true_keeps
      simp [hlt]
    · rcases List.mem_cons.1 hi with h | h
      · exact absurd h hij
      · exact ih _ h (by simpa using hlt)

/-! ## run lengths: `diff(flatnonzero(mask))` -/

/-- `np.diff` on naturals (truncated subtraction; the inputs are increasing) -/
def natDiff : List Nat → List Nat
  | x :: y :: rest => (y - x) :: natDiff (y :: rest)
  | _ => []

theorem diff_cast (l : List Nat) :
    (Np.diff (l.map (fun (i : Nat) => (i : Int)))).map Int.toNat = natDiff l := by
  induction l with
  | nil => rfl
  | cons x xs ih =>
    cases xs with
    | nil => rfl
    | cons y ys =>
      simp only [List.map_cons, Np.diff, natDiff] at ih ⊢
      rw [ih, Int.toNat_sub]

theorem dedup_head (ne : α → α → Bool) (y : α) (ys : List α) :
    ∃ c rest, Spec.dedupCounts ne (y :: ys) = (y, c) :: rest := by
  rw [Spec.dedupCounts]
  split
  · split
    · exact ⟨_, _, rfl⟩
    · exact ⟨_, _, rfl⟩
  · exact ⟨_, _, rfl⟩

theorem dedup_cons_cons (ne : α → α → Bool) (x y : α) (c : Nat) (ys : List α) (rest : List (α × Nat))
    (h : Spec.dedupCounts ne ys = (y, c) :: rest) :
    Spec.dedupCounts ne (x :: ys) = if ne x y then (x, 1) :: (y, c) :: rest else (x, c + 1) :: rest := by
  rw [Spec.dedupCounts, h]

theorem tail_nonempty (ne : α → α → Bool) (k : Nat) (x : α) (xs : List α) (T : List Bool) :
    ∃ g G, flatnonzeroFrom (k + 1) (List.zipWith ne (x :: xs) xs ++ true :: T) = g :: G ∧ k < g := by
  induction xs generalizing x k with
  | nil => exact ⟨k + 1, flatnonzeroFrom (k + 1 + 1) T, by simp [flatnonzeroFrom], by omega⟩
  | cons y ys ih =>
    obtain ⟨g, G, h, hg⟩ := ih (k + 1) y
    simp only [List.zipWith_cons_cons, List.cons_append, flatnonzeroFrom]
    split
    · exact ⟨k + 1, _, rfl, by omega⟩
    · exact ⟨g, G, h, by omega⟩

/-- one row: the distances between the marked cells are the multiplicities -/
theorem runs_row (ne : α → α → Bool) (k : Nat) (x : α) (xs : List α) (T0 T : List Bool)
    (hT : T0 = true :: T) :
    natDiff (k :: flatnonzeroFrom (k + 1) (List.zipWith ne (x :: xs) xs ++ T0))
      = (Spec.dedupCounts ne (x :: xs)).map (·.2)
          ++ natDiff (flatnonzeroFrom (k + 1 + xs.length) T0) := by
  induction xs generalizing x k with
  | nil =>
    subst hT
    simp [flatnonzeroFrom, natDiff, Spec.dedupCounts]
  | cons y ys ih =>
    have ih' := ih (k + 1) y
    obtain ⟨c, rest, hd⟩ := dedup_head ne y ys
    obtain ⟨g, G, hg, hlt⟩ := tail_nonempty ne (k + 1) y ys T
    rw [← hT] at hg
    rw [dedup_cons_cons ne x y c (y :: ys) rest hd]
    rw [hd, hg] at ih'
    have e : k + 1 + (y :: ys).length = k + 1 + 1 + ys.length := by simp; omega
    rw [e]
    generalize natDiff (flatnonzeroFrom (k + 1 + 1 + ys.length) T0) = Z at ih' ⊢
    simp only [natDiff, List.map_cons, List.cons_append, List.cons.injEq] at ih'
    simp only [List.zipWith_cons_cons, List.cons_append, flatnonzeroFrom, hg]
    by_cases hxy : ne x y = true
    · simp only [hxy, if_true, natDiff, List.map_cons, List.cons_append, List.cons.injEq]
      exact ⟨by omega, ih'.1, ih'.2⟩
    · simp only [hxy, Bool.false_eq_true, if_false, natDiff, List.map_cons, List.cons_append,
        List.cons.injEq]
      exact ⟨by omega, ih'.2⟩

theorem counts_rows (ne : α → α → Bool) (R : List (List α)) (k : Nat) :
    natDiff (flatnonzeroFrom k ((R.map (rowMask ne)).flatten ++ [true]))
      = (R.map (fun r => (Spec.dedupCounts ne r).map (·.2))).flatten := by
  induction R generalizing k with
  | nil => simp [flatnonzeroFrom, natDiff]
  | cons r R ih =>
    cases r with
    | nil => simpa [rowMask, Spec.dedupCounts] using ih k
    | cons x xs =>
      obtain ⟨T, hT⟩ := masks_head ne R
      simp only [List.map_cons, rowMask, List.flatten_cons, List.cons_append, List.append_assoc,
        flatnonzeroFrom, if_true]
      rw [runs_row ne k x xs _ T hT, ih]

/-! ## selected cells -/

theorem vals_row (ne : α → α → Bool) (x : α) (xs : List α) :
    x :: (xs.zip (List.zipWith ne (x :: xs) xs)).filterMap (fun p => if p.2 then some p.1 else none)
      = (Spec.dedupCounts ne (x :: xs)).map (·.1) := by
  induction xs generalizing x with
  | nil => simp [Spec.dedupCounts]
  | cons y ys ih =>
    obtain ⟨c, rest, hd⟩ := dedup_head ne y ys
    have ih' := ih y
    rw [hd] at ih'
    simp only [List.map_cons, List.cons.injEq, true_and] at ih'
    rw [dedup_cons_cons ne x y c (y :: ys) rest hd]
    simp only [List.zipWith_cons_cons, List.zip_cons_cons, List.filterMap_cons]
    by_cases hxy : ne x y = true
    · simp [hxy, ih']
    · simp [hxy, ih']

theorem vals_rowMask (ne : α → α → Bool) (r : List α) :
    (r.zip (rowMask ne r)).filterMap (fun p => if p.2 then some p.1 else none)
      = (Spec.dedupCounts ne r).map (·.1) := by
  cases r with
  | nil => simp [rowMask, Spec.dedupCounts]
  | cons x xs =>
    rw [← vals_row]
    simp [rowMask]

theorem data_rows (ne : α → α → Bool) (R : List (List α)) :
    (R.flatten.zip (R.map (rowMask ne)).flatten).filterMap (fun p => if p.2 then some p.1 else none)
      = (R.map (fun r => (Spec.dedupCounts ne r).map (·.1))).flatten := by
  induction R with
  | nil => rfl
  | cons r R ih =>
    simp only [List.flatten_cons, List.map_cons]
    rw [List.zip_append (by simp), List.filterMap_append, ih, vals_rowMask]

theorem count_rowMask (ne : α → α → Bool) (r : List α) :
    (rowMask ne r).count true = (Spec.dedupCounts ne r).length := by
  cases r with
  | nil => simp [rowMask, Spec.dedupCounts]
  | cons x xs =>
    simp only [rowMask, List.count_cons_self]
    induction xs generalizing x with
    | nil => simp [Spec.dedupCounts]
    | cons y ys ih =>
      obtain ⟨c, rest, hd⟩ := dedup_head ne y ys
      have ih' := ih y
      rw [hd] at ih'
      rw [dedup_cons_cons ne x y c (y :: ys) rest hd]
      simp only [List.zipWith_cons_cons, List.count_cons]
      by_cases hxy : ne x y = true
      · simp only [hxy, if_true, List.length_cons] at ih' ⊢
        simp; omega
      · simp only [hxy, List.length_cons] at ih' ⊢
        simp at ih' ⊢; omega

/-! ## the `cumsum` bookkeeping -/

theorem cumsum_ind_getElem? (acc : Int) (m : List Bool) (p : Nat) (hp : p < m.length) :
    (cumsumFrom acc (m.map (fun b => if b then (1 : Int) else 0)))[p]?
      = some (acc + (((m.take (p + 1)).count true : Nat) : Int)) := by
  induction m generalizing acc p with
  | nil => simp at hp
  | cons b bs ih =>
    cases p with
    | zero => cases b <;> simp [cumsumFrom]
    | succ p =>
      simp only [List.map_cons, cumsumFrom, List.getElem?_cons_succ, List.take_succ_cons]
      rw [ih _ p (by simpa using hp)]
      cases b <;> simp <;> omega

theorem cumsumFrom_length (acc : Int) (l : List Int) : (cumsumFrom acc l).length = l.length := by
  induction l generalizing acc with
  | nil => rfl
  | cons x xs ih => simp [cumsumFrom, ih]

/-- `total_counts[starts] - 1`: number of marked cells strictly before the row start -/
theorem startCounts_eq (m : List Bool) (idx : List Nat) (h : ∀ s ∈ idx, m[s]? = some true) :
    idx.filterMap (fun i => ((cumsum (m.map (fun b => if b then (1 : Int) else 0)))[i]?).map (· - 1))
      = idx.map (fun s => (((m.take s).count true : Nat) : Int)) := by
  induction idx with
  | nil => rfl
  | cons s idx ih =>
    have hs := h s (by simp)
    have hlt : s < m.length := by
      rcases Nat.lt_or_ge s m.length with hlt | hge
      · exact hlt
      · rw [List.getElem?_eq_none hge] at hs; simp at hs
    have hget : m[s] = true := by
      rw [List.getElem?_eq_getElem hlt] at hs; simpa using hs
    have hc := cumsum_ind_getElem? 0 m s hlt
    have ih' := ih (fun t ht => h t (List.mem_cons_of_mem _ ht))
    simp only [cumsum] at ih' ⊢
    simp only [List.filterMap_cons, List.map_cons, hc, Option.map_some, ih', List.cons.injEq, and_true]
    rw [List.take_add_one, List.getElem?_eq_getElem hlt, hget]
    simp [List.count_append]

theorem mapM_eq_some_map {β γ : Type} (g : β → Option γ) (f : β → γ) (l : List β)
    (h : ∀ x ∈ l, g x = some (f x)) : l.mapM g = some (l.map f) := by
  induction l with
  | nil => rfl
  | cons x xs ih =>
    rw [List.mapM_cons, h x (by simp), ih (fun y hy => h y (List.mem_cons_of_mem _ hy))]
    rfl

/-- `total_counts[-1] = 0; total_counts[ends - 1]`: number of marked cells before the row end
(row end `0` reads the hacked last entry) -/
theorem endCounts_eq (m : List Bool) (idx : List Nat) (h2 : 2 ≤ m.length) (h : ∀ e ∈ idx, e < m.length) :
    idx.mapM (fun (e : Nat) =>
        getIdx ((cumsum (m.map (fun b => if b then (1 : Int) else 0))).set
          ((cumsum (m.map (fun b => if b then (1 : Int) else 0))).length - 1) 0) ((e : Int) - 1))
      = some (idx.map (fun e => (((m.take e).count true : Nat) : Int))) := by
  apply mapM_eq_some_map
  intro e he
  have hlt := h e he
  have hlen : (cumsum (m.map (fun b => if b then (1 : Int) else 0))).length = m.length := by
    simp [cumsum, cumsumFrom_length]
  simp only [getIdx, List.length_set, hlen]
  by_cases h0 : e = 0
  · subst h0
    have : normIdx m.length (((0 : Nat) : Int) - 1) = some (m.length - 1) := by
      unfold normIdx
      rw [if_neg (by omega), if_pos (by omega)]
      congr 1; omega
    rw [this]
    simp only [Option.bind_some, List.take_zero, List.count_nil]
    rw [List.getElem?_set]
    simp [hlen]; omega
  · have : normIdx m.length ((e : Int) - 1) = some (e - 1) := by
      unfold normIdx
      rw [if_pos (by omega), if_pos (by omega)]
      congr 1; omega
    rw [this]
    simp only [Option.bind_some]
    rw [List.getElem?_set, if_neg (by omega)]
    simp only [cumsum]
    rw [cumsum_ind_getElem? 0 m (e - 1) (by omega), show e - 1 + 1 = e by omega]
    simp

theorem zipWith_map_map {β γ δ ε : Type} (f : γ → δ → ε) (g : β → γ) (h : β → δ) (l : List β) :
    List.zipWith f (l.map g) (l.map h) = l.map (fun x => f (g x) (h x)) := by
  induction l with
  | nil => rfl
  | cons x xs ih => simp [ih]

/-- per row, marked cells before the end minus marked cells before the start = runs of the row -/
theorem newLens_rows (ne : α → α → Bool) (R : List (List α)) (preM tail : List Bool) :
    ((exclScanFrom preM.length (R.map List.length)).zip (R.map List.length)).map
        (fun c => ((preM ++ (R.map (rowMask ne)).flatten ++ tail).take (c.1 + c.2)).count true
          - ((preM ++ (R.map (rowMask ne)).flatten ++ tail).take c.1).count true)
      = R.map (fun r => (Spec.dedupCounts ne r).length) := by
  induction R generalizing preM with
  | nil => simp [exclScanFrom]
  | cons r R ih =>
    simp only [List.map_cons, exclScanFrom, List.zip_cons_cons, List.flatten_cons]
    congr 1
    · have e1 : (preM ++ (rowMask ne r ++ (R.map (rowMask ne)).flatten) ++ tail).take (preM.length + r.length)
          = preM ++ rowMask ne r := by
        have : preM ++ (rowMask ne r ++ (R.map (rowMask ne)).flatten) ++ tail
            = (preM ++ rowMask ne r) ++ ((R.map (rowMask ne)).flatten ++ tail) := by simp
        rw [this, List.take_left' (by simp)]
      have e2 : (preM ++ (rowMask ne r ++ (R.map (rowMask ne)).flatten) ++ tail).take preM.length = preM := by
        rw [List.append_assoc, List.take_left' rfl]
      rw [e1, e2, List.count_append, count_rowMask]
      omega
    · have := ih (preM ++ rowMask ne r)
      simp only [List.length_append, rowMask_length, List.append_assoc] at this ⊢
      exact this

/-! ## everything together -/

theorem mem_zip_exclScan_le (acc : Nat) (ls : List Nat) :
    ∀ c ∈ (exclScanFrom acc ls).zip ls, c.1 + c.2 ≤ acc + ls.sum := by
  induction ls generalizing acc with
  | nil => simp [exclScanFrom]
  | cons x xs ih =>
    intro c hc
    simp only [exclScanFrom, List.zip_cons_cons, List.mem_cons] at hc
    rcases hc with rfl | hc
    · simp
    · have := ih (acc + x) c hc
      simp only [List.sum_cons]; omega

/-- the body of `uniqueRows` (case `size ≠ 0`) on a buffer `R.flatten` read through the shape of `R` -/
theorem unique_core (ne : α → α → Bool) (R : List (List α)) (hne : R.flatten ≠ []) :
    let s := R.flatten
    let sh := Shape.ofLens (R.map List.length)
    let mask0 : List Bool := true :: (List.zipWith ne s (s.drop 1)) ++ [true]
    let mask1 : List Bool := Np.scatterSet mask0 (sh.starts.map (fun i => (i, true)))
    let counts := Np.diff ((Np.flatnonzero mask1).map (fun (i : Nat) => (i : Int)))
    let total : List Int := Np.cumsum (mask1.map (fun b => if b then 1 else 0))
    let startCounts := sh.starts.filterMap (fun i => (total[i]?).map (· - 1))
    let total' := total.set (total.length - 1) 0
    (sh.ends.mapM (fun (e : Nat) => Np.getIdx total' ((e : Int) - 1))).map (fun endCounts =>
      let newLens := (List.zipWith (· - ·) endCounts startCounts).map Int.toNat
      let mask2 := mask1.dropLast
      let newData := (s.zip mask2).filterMap (fun p => if p.2 then some p.1 else none)
      (cutRows newData newLens, cutRows (counts.map Int.toNat) newLens))
    = some (R.map (fun r => (Spec.dedupCounts ne r).map (·.1)),
            R.map (fun r => (Spec.dedupCounts ne r).map (·.2))) := by
  intro s sh mask0 mask1 counts total startCounts total'
  have hstarts : sh.starts = exclScan (R.map List.length) := ofLens_starts _
  have hends : sh.ends = ((exclScan (R.map List.length)).zip (R.map List.length)).map (fun c => c.1 + c.2) := by
    simp [sh, Shape.ends, ofLens_codes]
  have hstarts' : sh.starts = ((exclScan (R.map List.length)).zip (R.map List.length)).map (·.1) := by
    rw [hstarts, List.map_fst_zip (by simp)]
  have hm1 : mask1 = (R.map (rowMask ne)).flatten ++ [true] := by
    simp only [mask1, mask0, s, hstarts]
    exact mask1_eq ne R hne
  have hsum : (R.map List.length).sum = R.flatten.length := by
    simp [List.length_flatten]
  have hlen1 : mask1.length = R.flatten.length + 1 := by
    rw [hm1, List.length_append, masks_length]; rfl
  have hpos : 0 < R.flatten.length := List.length_pos_iff.2 hne
  -- marked row starts
  have hst : ∀ t ∈ sh.starts, mask1[t]? = some true := by
    intro t ht
    have hle : t ≤ R.flatten.length := by
      rw [hstarts] at ht
      have := exclScanFrom_le 0 _ t ht
      omega
    apply scatter_true_mem _ _ _ ht
    simp only [mask0, s, List.length_append, List.length_cons, List.length_zipWith, List.length_drop,
      List.length_nil]
    omega
  have hen : ∀ e ∈ sh.ends, e < mask1.length := by
    intro e he
    rw [hends] at he
    obtain ⟨c, hc, rfl⟩ := List.mem_map.1 he
    have := mem_zip_exclScan_le 0 _ c hc
    omega
  have hsc : startCounts = sh.starts.map (fun t => (((mask1.take t).count true : Nat) : Int)) :=
    startCounts_eq mask1 sh.starts hst
  have hec := endCounts_eq mask1 sh.ends (by omega) hen
  show Option.map _ (sh.ends.mapM (fun (e : Nat) => Np.getIdx total' ((e : Int) - 1))) = _
  rw [show (sh.ends.mapM (fun (e : Nat) => Np.getIdx total' ((e : Int) - 1))) = _ from hec]
  simp only [Option.map_some, Option.some.injEq]
  -- lengths
  have hnl : (List.zipWith (· - ·) (sh.ends.map (fun e => (((mask1.take e).count true : Nat) : Int)))
        startCounts).map Int.toNat = R.map (fun r => (Spec.dedupCounts ne r).length) := by
    rw [hsc, hends, hstarts', List.map_map, List.map_map, zipWith_map_map, List.map_map]
    have := newLens_rows ne R [] [true]
    simp only [List.length_nil, List.nil_append] at this
    rw [← this, hm1]
    apply List.map_congr_left
    intro c _
    simp only [Function.comp]
    exact Int.toNat_sub _ _
  rw [hnl]
  have hdata : (s.zip mask1.dropLast).filterMap (fun p => if p.2 then some p.1 else none)
      = (R.map (fun r => (Spec.dedupCounts ne r).map (·.1))).flatten := by
    rw [hm1, List.dropLast_concat]
    exact data_rows ne R
  have hcounts : counts.map Int.toNat = (R.map (fun r => (Spec.dedupCounts ne r).map (·.2))).flatten := by
    simp only [counts]
    rw [diff_cast, hm1]
    exact counts_rows ne R 0
  rw [hdata, hcounts]
  congr 1
  · apply cutRows_flatten; simp [Function.comp_def]
  · apply cutRows_flatten; simp [Function.comp_def]

end Proofs.UniqueRows
