import NpsVerif.Proofs.RL2Rows
import NpsVerif.Proofs.ColAgg
import NpsVerif.Proofs.Scan
/-!
# `col_counts` of a ragged run-length array: `np.unique(lengths, return_counts=True)` + cumulative
sum, read as a run-length array, is the number of rows longer than `j` at every column `j`
-/
open Model Model.RLA Model.RL2 Np

namespace Proofs.RL2B

/-! ## sorted distinct values -/

/-- dropping duplicates from a sorted list leaves a strictly increasing list -/
theorem eraseDups_sorted (T : List Nat) (h : T.Pairwise (· ≤ ·)) : T.eraseDups.Pairwise (· < ·) := by
  match T, h with
  | [], _ => simp
  | a :: as, h =>
    rw [List.eraseDups_cons]
    have hp := List.pairwise_cons.1 h
    have : (as.filter fun b => !b == a).length < as.length + 1 :=
      Nat.lt_succ_of_le (List.length_filter_le _ as)
    refine List.pairwise_cons.2 ⟨?_, eraseDups_sorted _ (hp.2.filter _)⟩
    intro b hb
    rw [List.mem_eraseDups, List.mem_filter] at hb
    have h1 := hp.1 b hb.1
    have h2 : b ≠ a := by simpa using hb.2
    omega
termination_by T.length

theorem uniq_facts (ls : List Nat) :
    ((ls.mergeSort (fun a b => decide (a ≤ b))).eraseDups).Pairwise (· < ·) ∧
    ∀ x, x ∈ (ls.mergeSort (fun a b => decide (a ≤ b))).eraseDups ↔ x ∈ ls := by
  constructor
  · apply eraseDups_sorted
    have := List.pairwise_mergeSort (le := fun (a b : Nat) => decide (a ≤ b))
      (by intro a b c; simp only [decide_eq_true_eq]; omega)
      (by intro a b; simp only [Bool.or_eq_true, decide_eq_true_eq]; omega) ls
    exact this.imp (by intro a b h; simpa using h)
  · intro x
    rw [List.mem_eraseDups]
    exact (List.mergeSort_perm ls _).mem_iff

/-- in a sorted list the entries `≤ j` form a prefix -/
theorem take_countP_eq_filter (U : List Nat) (h : U.Pairwise (· ≤ ·)) (j : Nat) :
    U.take (U.countP (· ≤ j)) = U.filter (· ≤ j) := by
  induction U with
  | nil => rfl
  | cons u U ih =>
    have hp := List.pairwise_cons.1 h
    by_cases hu : u ≤ j
    · rw [List.countP_cons_of_pos (by simpa using hu), List.take_succ_cons,
        List.filter_cons_of_pos (by simpa using hu), ih hp.2]
    · have h0 : (u :: U).filter (· ≤ j) = [] := by
        rw [List.filter_eq_nil_iff]
        intro x hx
        rcases List.mem_cons.1 hx with rfl | hx
        · simpa using hu
        · have := hp.1 x hx
          simp; omega
      have h1 : (u :: U).countP (· ≤ j) = 0 := by
        rw [List.countP_eq_length_filter, h0]; rfl
      rw [h0, h1]; rfl

theorem pairwise_lt_le_getLast (l : List Nat) (h : l.Pairwise (· < ·)) (L x : Nat)
    (hL : l.getLast? = some L) (hx : x ∈ l) : x ≤ L := by
  have hne : l ≠ [] := List.ne_nil_of_mem hx
  have hsplit := List.dropLast_concat_getLast hne
  have hL' : l.getLast hne = L := by
    rw [List.getLast?_eq_some_getLast hne] at hL
    exact Option.some.inj hL
  rw [← hsplit, hL'] at h hx
  rcases List.mem_append.1 hx with hx | hx
  · exact Nat.le_of_lt ((List.pairwise_append.1 h).2.2 x hx L (by simp))
  · simp at hx; omega

/-! ## multiplicities -/

theorem sum_map_add (V : List Nat) (A B : Nat → Nat) :
    (V.map (fun u => A u + B u)).sum = (V.map A).sum + (V.map B).sum := by
  induction V with
  | nil => rfl
  | cons v V ih => simp only [List.map_cons, List.sum_cons, ih]; omega

theorem sum_map_ite_eq (V : List Nat) (l : Nat) :
    (V.map (fun u => if (l == u) = true then 1 else 0)).sum = V.count l := by
  induction V with
  | nil => rfl
  | cons v V ih =>
    rw [List.map_cons, List.sum_cons, ih, List.count_cons]
    by_cases h : l = v
    · subst h; simp; omega
    · have h' : ¬ v = l := fun e => h e.symm
      simp [h, h']

/-- the multiplicities of the distinct values selected by `p` add up to the number of entries
selected by `p` -/
theorem sum_count_filter (U T : List Nat) (hU : U.Nodup) (hT : ∀ l ∈ T, l ∈ U) (p : Nat → Bool) :
    ((U.filter p).map (fun u => T.count u)).sum = T.countP p := by
  induction T with
  | nil =>
    simp only [List.count_nil, List.countP_nil]
    induction (U.filter p) with
    | nil => rfl
    | cons a t ih => simpa using ih
  | cons l T ih =>
    have hl : l ∈ U := hT l (by simp)
    have e : (fun u => (l :: T).count u) = (fun u => T.count u + (if (l == u) = true then 1 else 0)) := by
      funext u; exact List.count_cons
    rw [e, sum_map_add, ih (fun x hx => hT x (List.mem_cons_of_mem _ hx)), sum_map_ite_eq,
      List.countP_cons]
    congr 1
    by_cases hp : p l = true
    · rw [List.count_filter hp, hU.count]
      simp [hl, hp]
    · rw [List.count_eq_zero_of_not_mem (by rw [List.mem_filter]; exact fun h => hp h.2)]
      simp [hp]

theorem countP_le_add_countP_gt (xs : List Nat) (j : Nat) :
    xs.countP (· ≤ j) + xs.countP (fun l => decide (l > j)) = xs.length := by
  induction xs with
  | nil => rfl
  | cons x xs ih =>
    simp only [List.countP_cons, List.length_cons, decide_eq_true_eq]
    by_cases h : x ≤ j
    · have h' : ¬ x > j := by omega
      simp only [h, h', if_true, if_false]; omega
    · have h' : x > j := by omega
      simp only [h, h', if_true, if_false]; omega

theorem foldl_max_mem (xs : List Nat) (a : Nat) : xs.foldl max a = a ∨ xs.foldl max a ∈ xs := by
  induction xs generalizing a with
  | nil => exact Or.inl rfl
  | cons x xs ih =>
    simp only [List.foldl_cons]
    rcases ih (max a x) with h | h
    · rw [h]
      rcases Nat.le_total a x with hax | hax
      · right; rw [Nat.max_eq_right hax]; simp
      · left; exact Nat.max_eq_left hax
    · right; exact List.mem_cons_of_mem _ h

theorem cons_cumsum_dropLast (c : List Nat) : (0 :: cumsumNat c).dropLast = exclScan c := by
  cases c with
  | nil => rfl
  | cons x xs =>
    unfold cumsumNat exclScan
    rw [List.dropLast_cons_of_ne_nil (by simp [cumsumNatFrom]),
      cons_cumsumNatFrom_dropLast 0 (x :: xs) (by simp)]

/-! ## the run-length array of column counts -/

theorem colCounts_core (ls : List Nat) (hpos : ∀ l ∈ ls, 0 < l) :
    ∃ r, RLA.mk? (0 :: (ls.mergeSort (fun a b => decide (a ≤ b))).eraseDups)
        ((0 :: cumsumNat (((ls.mergeSort (fun a b => decide (a ≤ b))).eraseDups).map
            (fun u => ls.count u))).dropLast.map
          (fun (c : Nat) => ((ls.length : Nat) : Int) - (c : Int))) = some r ∧ r.Valid ∧
      r.decode = (List.range (ls.foldl max 0)).map
        (fun j => ((ls.countP (fun l => decide (l > j)) : Nat) : Int)) := by
  obtain ⟨hU1, hU2⟩ := uniq_facts ls
  generalize (ls.mergeSort (fun a b => decide (a ≤ b))).eraseDups = U at hU1 hU2
  rw [cons_cumsum_dropLast]
  generalize hvs : (exclScan (U.map (fun u => ls.count u))).map
      (fun (c : Nat) => ((ls.length : Nat) : Int) - (c : Int)) = vs
  have hvl : vs.length = U.length := by rw [← hvs]; simp
  have hE : (0 :: U).Pairwise (· < ·) :=
    List.pairwise_cons.2 ⟨fun u hu => hpos u ((hU2 u).1 hu), hU1⟩
  have hvalid : (RLA.mk (0 :: U) vs).Valid :=
    (Model.RLA.valid_iff _).2 ⟨rfl, by simp [hvl], hE⟩
  refine ⟨⟨0 :: U, vs⟩, by unfold mk?; exact if_pos hvalid, hvalid, ?_⟩
  rw [decode_eq_dec]
  by_cases hnil : ls = []
  · subst hnil
    have : U = [] := by
      cases U with
      | nil => rfl
      | cons u U => exact absurd ((hU2 u).1 (by simp)) (by simp)
    subst this
    simp [dec]
  -- the widest row is the last distinct length
  have hWmem : ls.foldl max 0 ∈ ls := by
    rcases foldl_max_mem ls 0 with h | h
    · exfalso
      cases ls with
      | nil => exact hnil rfl
      | cons x xs =>
        have h1 := le_foldl_max (x :: xs) 0 x (by simp)
        have h2 := hpos x (by simp)
        omega
    · exact h
  generalize hW : ls.foldl max 0 = W at hWmem
  have hWU : W ∈ U := (hU2 W).2 hWmem
  have hUne : U ≠ [] := List.ne_nil_of_mem hWU
  have hlast : (0 :: U).getLast? = some W := by
    cases hL : (0 :: U).getLast? with
    | none => simp at hL
    | some L =>
      have hLU : L ∈ U := by
        cases U with
        | nil => exact absurd rfl hUne
        | cons u U' =>
          rw [List.getLast?_cons_cons] at hL
          exact List.mem_of_getLast? hL
      have h1 : L ≤ W := by
        rw [← hW]; exact le_foldl_max ls 0 L ((hU2 L).1 hLU)
      have h2 := pairwise_lt_le_getLast (0 :: U) hE L W hL (List.mem_cons_of_mem _ hWU)
      congr 1; omega
  have hlen : (dec (0 :: U) vs).length = W := by
    rw [dec_length 0 U vs W (hE.imp Nat.le_of_lt) (by simp [hvl]) hlast]; rfl
  apply List.ext_getElem?
  intro p
  by_cases hp : p < W
  · have hd := dec_getElem? 0 U vs W p hE (by simp [hvl]) hlast (Nat.zero_le _) hp
    rw [Nat.sub_zero] at hd
    rw [hd, List.countP_cons_of_pos (by simp), Nat.add_sub_cancel]
    have hk : U.countP (· ≤ p) < U.length := by
      have h1 := List.countP_le_length (p := (fun x => decide (x ≤ p))) (l := U)
      have h2 : U.countP (· ≤ p) ≠ U.length := by
        intro he
        have := (List.countP_eq_length.1 he) W hWU
        simp at this; omega
      omega
    rw [← hvs, List.getElem?_map, exclScan_getElem? _ _ (by simpa using hk), ← List.map_take,
      take_countP_eq_filter U (hU1.imp Nat.le_of_lt) p,
      sum_count_filter U ls (hU1.imp Nat.ne_of_lt) (fun l hl => (hU2 l).2 hl)]
    rw [List.getElem?_map, List.getElem?_range hp]
    simp only [Option.map_some, Option.some.injEq]
    have := countP_le_add_countP_gt ls p
    omega
  · rw [List.getElem?_eq_none (by omega), List.getElem?_eq_none (by simp; omega)]

end Proofs.RL2B
