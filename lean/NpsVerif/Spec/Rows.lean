import NpsVerif.Np.Basic
/-!
# S layer: list-of-rows specifications for C07 / C08 / C09
Each is "numpy applied to every row on its own" or the obvious row-wise meaning.
-/
namespace Spec

/-- write `v` at position `k` of the row-major enumeration of the cells (rows keep their lengths) -/
def setFlat {α} : List (List α) → Nat → α → List (List α)
  | [], _, _ => []
  | r :: rs, k, v => if k < r.length then r.set k v :: rs else r :: setFlat rs (k - r.length) v

/-- prefix sums of one row (`np.cumsum(row)`) -/
def prefixSums (l : List Int) : List Int := Np.cumsum l

/-- `op.accumulate(row)`: `r₀ = d₀, rᵢ = op rᵢ₋₁ dᵢ` -/
def accumulateFrom {α} (op : α → α → α) (acc : α) : List α → List α
  | [] => []
  | x :: xs => op acc x :: accumulateFrom op (op acc x) xs
def accumulate {α} (op : α → α → α) : List α → List α
  | [] => []
  | x :: xs => x :: accumulateFrom op x xs

/-- sorted distinct values of a sorted list, with multiplicities -/
def dedupCounts {α} (ne : α → α → Bool) : List α → List (α × Nat)
  | [] => []
  | x :: xs =>
    match dedupCounts ne xs with
    | (y, c) :: rest => if ne x y then (x, 1) :: (y, c) :: rest else (x, c + 1) :: rest
    | [] => [(x, 1)]

/-- n-th differences of one row -/
def diffN : Nat → List Int → List Int
  | 0, l => l
  | n + 1, l => diffN n (Np.diff l)

/-- (row, col) coordinates of the true cells, row-major -/
def nonzeroCoords (rows : List (List Bool)) : List (Nat × Nat) :=
  ((List.range rows.length).zip rows).flatMap (fun ir =>
    ((List.range ir.2.length).zip ir.2).filterMap (fun cb => if cb.2 then some (ir.1, cb.1) else none))

/-- row padded to width `w` on the right / left -/
def padRow {α} (w : Nat) (fill : α) (right : Bool) (r : List α) : List α :=
  if right then r ++ List.replicate (w - r.length) fill else List.replicate (w - r.length) fill ++ r

/-- window `[s, e)` of a row, negative `e` counted from the row end, `e` clamped to the row end -/
def window {α} (r : List α) (s : Option Int) (e : Option Int) : List α :=
  let n : Int := r.length
  let s' := (s.getD 0)
  let e' := match e with
    | none => n
    | some x => if x < 0 then n + x else min x n
  (r.drop s'.toNat).take (e' - s').toNat

/-- column sums: entry j = Σ of row[j] over the rows that have more than j cells -/
def colSum (rows : List (List Int)) : List Int :=
  let w := (rows.map List.length).foldl max 0
  (List.range w).map (fun j => (rows.filterMap (·[j]?)).sum)

/-- number of rows reaching column j -/
def colCounts {α} (rows : List (List α)) : List Int :=
  let w := (rows.map List.length).foldl max 0
  (List.range w).map (fun j => (((rows.filter (fun r => decide (r.length > j))).length : Nat) : Int))

end Spec
