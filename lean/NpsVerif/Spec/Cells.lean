import NpsVerif.Spec.Py
namespace Props.C02
/-- cells addressed by a (start, length, step) row -/
def cellsOf (t : Int × Int × Int) : List Int := Py.prog t.1 t.2.2 t.2.1.toNat
end Props.C02
