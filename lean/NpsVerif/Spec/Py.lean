import NpsVerif.Np.Basic
/-!
# S layer: CPython list / slice semantics

`adjStart`/`adjStop`/`sliceLen` are `PySlice_AdjustIndices` (CPython `Objects/sliceobject.c`);
`sliceIdx` lists the selected positions; `slice` applies them to a list.  Validated on every run
against CPython itself (`range(n)[slice(a,b,k)]`) by the harness.
-/
namespace Py

/-- adjusted start of `slice(start, stop, step)` on a sequence of length `len` (`step ≠ 0`). -/
def adjStart (len : Int) (start : Option Int) (step : Int) : Int :=
  match start with
  | none => if step < 0 then len - 1 else 0
  | some s =>
    if s < 0 then (if s + len < 0 then (if step < 0 then -1 else 0) else s + len)
    else (if s ≥ len then (if step < 0 then len - 1 else len) else s)

def adjStop (len : Int) (stop : Option Int) (step : Int) : Int :=
  match stop with
  | none => if step < 0 then -1 else len
  | some s =>
    if s < 0 then (if s + len < 0 then (if step < 0 then -1 else 0) else s + len)
    else (if s ≥ len then (if step < 0 then len - 1 else len) else s)

/-- `len(range(len)[start:stop:step])`. -/
def sliceLen (len : Int) (start stop : Option Int) (step : Int) : Int :=
  let a := adjStart len start step
  let b := adjStop len stop step
  if step < 0 then (if b < a then (a - b - 1) / (-step) + 1 else 0)
  else (if a < b then (b - a - 1) / step + 1 else 0)

/-- arithmetic progression `s, s+k, …` with `n` terms. -/
def prog (s k : Int) : Nat → List Int
  | 0 => []
  | n + 1 => s :: prog (s + k) k n

/-- the positions `range(len)[start:stop:step]`. -/
def sliceIdx (len : Nat) (start stop : Option Int) (step : Int) : List Int :=
  prog (adjStart len start step) step (sliceLen len start stop step).toNat

/-- `l[start:stop:step]` (`step ≠ 0`).  All positions of `sliceIdx` are in range, so the
`filterMap` never drops anything (theorem `Py.slice_length`). -/
def slice {α} (l : List α) (start stop : Option Int) (step : Int) : List α :=
  (sliceIdx l.length start stop step).filterMap (fun i => if 0 ≤ i then l[i.toNat]? else none)

/-- `l[i]` with negative wrap-around; `none` = `IndexError`. -/
def index {α} (l : List α) (i : Int) : Option α := Np.getIdx l i

end Py
