import NpsVerif.Model.Heap
import NpsVerif.Proofs.HeapReads
/-!
# Property C10: reads change nothing

Read-only statements (`tolist`, `x[idx]` as an expression, `sum(axis=-1)`) leave the heap model's
state (buffers and variable table) unchanged; hence inserting one anywhere in any history changes
nothing but its own observation.  Helpers in `Proofs/HeapReads.lean`.
-/
namespace Props.C10
open Model Model.Heap

/-- sanity instance -/
theorem alias_example : run init [.new [[1, 2], []], .alias 0, .assign 1 (.rowcol (.int 0) (.int 0)) (.scalar 9), .read 0] =
    [.made true, .made true, .made true, .rows (some [[9, 2], []])] := by decide

/-- a read-only statement leaves the state of the heap model unchanged -/
theorem C10_read_pure (s : State) (st : Stmt) (h : st.isRead = true) : (step s st).1 = s :=
  Proofs.HeapReads.step_read s st h

theorem C10_read_pure_ref (s : Store) (st : Stmt) (h : st.isRead = true) : (stepS s st).1 = s :=
  Proofs.HeapReads.stepS_read s st h

/-- HEADLINE: inserting a read-only statement anywhere in any history changes nothing but its own
observation -/
theorem C10_read_insertion (p1 p2 : List Stmt) (r : Stmt) (h : r.isRead = true) :
    (run init (p1 ++ r :: p2)).eraseIdx p1.length = run init (p1 ++ p2) :=
  Proofs.HeapReads.read_insertion init p1 p2 r h

/-- an array obtained by selection has one definite content: reading it before or after a write to
its source gives the same rows (the two orders of `read b` and `a[i] = v` after `b = a[sel]`) -/
theorem C10_selection_definite (pre : List Stmt) (a b : Nat) (idx : Index) (v : Value Int) (post : List Stmt) :
    (run init (pre ++ [.read b, .assign a idx v, .read b] ++ post)).eraseIdx pre.length =
      run init (pre ++ [.assign a idx v, .read b] ++ post) := by
  have h := C10_read_insertion pre ([.assign a idx v, .read b] ++ post) (.read b) rfl
  simpa using h

/-! ## non-vacuity -/

/- the two reads of the selection around a write to its source observe the same rows -/
example : run init [.new [[0,1,2,3],[],[4,5,6],[7]], .select 0 (.rows (.slice (some 1) (some 3) none)),
      .read 1, .assign 0 (.rows (.int 2)) (.scalar 99), .read 1] =
    [.made true, .made true, .rows (some [[], [4,5,6]]), .made true, .rows (some [[], [4,5,6]])] := by decide

/- an instance of the insertion theorem, evaluated: dropping the inserted `readIdx` observation -/
example : (run init [.new [[1,2],[3]], .alias 0, .readIdx 1 (.rows (.int 0)),
      .assign 1 (.rowcol (.int 0) (.int 1)) (.scalar 7), .readSum 0]).eraseIdx 2 =
    run init [.new [[1,2],[3]], .alias 0, .assign 1 (.rowcol (.int 0) (.int 1)) (.scalar 7), .readSum 0] := by decide

end Props.C10
