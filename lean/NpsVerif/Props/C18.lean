import NpsVerif.Model.DataClass
namespace Props.C18
open Model Model.DC
/-- sanity instance; the universally quantified theorems are added as they are proved -/
theorem entries_example : (mk? [("a", [1, 2, 3]), ("b", [4, 5, 6])]).map entries = some [[1, 4], [2, 5], [3, 6]] := by decide
end Props.C18
