import NpsVerif.Model.DataClass
import NpsVerif.Proofs.DataClass
import NpsVerif.Proofs.DataClassOps
import NpsVerif.Proofs.DataClassConcat
/-!
# C18 (npdataclass): the column-wise operations act on the entries

`entries t` is the list of records of a table (entry i = the i-th cell of every column).
Helper lemmas: `NpsVerif/Proofs/DataClass.lean` (entries ↔ columns bridge, selectors),
`NpsVerif/Proofs/DataClassOps.lean` (getitem, integer index, iteration),
`NpsVerif/Proofs/DataClassConcat.lean` (concat, astype).
-/
namespace Props.C18
open Model Model.DC
open Proofs.DataClass
variable {α : Type}

/-- sanity instance -/
theorem entries_example : (mk? [("a", [1, 2, 3]), ("b", [4, 5, 6])]).map entries = some [[1, 4], [2, 5], [3, 6]] := by decide

/-- construction is accepted iff there is at least one field and every field is as long as the first;
the length is then that common length -/
theorem C18_ctor (cols : List (String × List α)) :
    (∃ t, mk? cols = some t ∧ t.cols = cols ∧ ∀ c ∈ cols, c.2.length = len t) ↔
    (cols ≠ [] ∧ ∀ c ∈ cols, ∀ d ∈ cols, c.2.length = d.2.length) := by
  constructor
  · rintro ⟨t, hmk, _, hlen⟩
    refine ⟨((mk?_eq_some_iff cols t).mp hmk).2.1, ?_⟩
    intro c hc d hd
    rw [hlen c hc, hlen d hd]
  · rintro ⟨hne, hall⟩
    obtain ⟨c0, hc0⟩ := List.exists_mem_of_ne_nil _ hne
    obtain ⟨hmk, hl⟩ := mk?_some_of_len cols c0.2.length hne (fun c hc => hall c hc c0 hc0)
    exact ⟨⟨cols⟩, hmk, rfl, fun c hc => by rw [hl]; exact hall c hc c0 hc0⟩

/-- indexing with a slice / integer list / boolean mask acts on every field with the same selector:
the entries of the result are exactly the selected entries; it refuses exactly when the selection
of entries does -/
theorem C18_getitem_aligned (t : Table α) (ht : mk? t.cols = some t) (sel : RowSel)
    (hs : match sel with | .int _ => False | _ => True) :
    (getitem t sel).map entries = Py.selectRows (entries t) sel := by
  rw [selectRows_eq_selCol _ sel hs]
  exact getitem_entries t ht sel

/-- the result of indexing keeps the field names -/
theorem C18_getitem_names (t : Table α) (sel : RowSel) (u : Table α) (h : getitem t sel = some u) :
    u.cols.map (·.1) = t.cols.map (·.1) :=
  getitem_names t sel u h

/-- an integer index returns that entry (negative from the end) or refuses -/
theorem C18_getitem_int (t : Table α) (ht : mk? t.cols = some t) (i : Int) :
    getitemInt t i = Py.index (entries t) i :=
  getitemInt_eq t ht i

/-- iteration yields the entries in order -/
theorem C18_iter (t : Table α) (ht : mk? t.cols = some t) : iter t = some (entries t) :=
  iter_eq t ht

/-- concatenating objects of one class concatenates their entries -/
theorem C18_concat (ts : List (Table α)) (hne : ts ≠ []) (hok : ∀ t ∈ ts, mk? t.cols = some t)
    (hsame : ∀ t ∈ ts, ∀ u ∈ ts, t.cols.map (·.1) = u.cols.map (·.1)) :
    (concat ts).map entries = some (ts.map entries).flatten :=
  concat_entries ts hne hok hsame

set_option linter.unusedVariables false in -- `hnd` is not needed: `find?` and `idxOf?` both take the first match
/-- conversion to a narrower class projects every entry onto the target's fields, in the target's
order; a missing field is refused -/
theorem C18_astype (t : Table α) (ht : mk? t.cols = some t) (names : List String) (hn : names ≠ [])
    (hnd : (t.cols.map (·.1)).Nodup) :
    (astype t names).map entries =
      if names.all (fun n => t.cols.any (fun c => c.1 == n)) then
        some ((entries t).map (fun e => names.filterMap (fun n => ((t.cols.map (·.1)).idxOf? n).bind (e[·]?))))
      else none :=
  astype_entries t ht names hn

set_option linter.unusedVariables false in -- `hw` is not needed
/-- VarLenArray concatenation: every row is right-aligned in the maximal width, zeros on the left
(blocks given as (rows, width) with every row of that width) -/
theorem C18_varlen_concat (zero : α) (ms : List (List (List α) × Nat)) (hw : ∀ p ∈ ms, ∀ r ∈ p.1, r.length = p.2) :
    varlenConcat zero ms =
      (ms.map (fun p => p.1.map (fun r => List.replicate (ms.foldl (fun m q => max m q.2) 0 - p.2) zero ++ r))).flatten := by
  unfold varlenConcat
  simp only []
  split
  · rename_i hall
    rw [List.all_eq_true] at hall
    congr 1
    apply List.map_congr_left
    intro p hp
    have h := hall p hp
    simp only [beq_iff_eq] at h
    rw [← h]
    simp
  · rfl

/-! ### concrete instances -/

/-- a 3-field table -/
def t3 : Table Nat := ⟨[("a", [1, 2, 3, 4, 5]), ("b", [10, 20, 30, 40, 50]), ("c", [7, 8, 9, 10, 11])]⟩

example : (mk? t3.cols).map (·.cols) = some t3.cols := by decide

/-- `t3[::-2]` -/
example : (getitem t3 (.slice none none (some (-2)))).map entries
    = some [[5, 50, 11], [3, 30, 9], [1, 10, 7]] := by decide
example : Py.selectRows (entries t3) (.slice none none (some (-2)))
    = some [[5, 50, 11], [3, 30, 9], [1, 10, 7]] := by decide
example : (getitem t3 (.slice none none (some (-2)))).map (·.cols)
    = some [("a", [5, 3, 1]), ("b", [50, 30, 10]), ("c", [11, 9, 7])] := by decide

/-- an out-of-range integer list is refused on both sides -/
example : (getitem t3 (.list [0, 5])).map entries = none := by decide
example : Py.selectRows (entries t3) (.list [0, 5]) = none := by decide
example : (getitem t3 (.list [0, -5, 4])).map entries = some [[1, 10, 7], [1, 10, 7], [5, 50, 11]] := by decide
example : (getitem t3 (.list [0, -6])).map entries = none ∧ Py.selectRows (entries t3) (.list [0, -6]) = none := by decide

/-- a mask of the wrong length is refused on both sides -/
example : (getitem t3 (.mask [true, false, true, true])).map entries = none := by decide
example : Py.selectRows (entries t3) (.mask [true, false, true, true]) = none := by decide
example : (getitem t3 (.mask [true, false, true, true, false])).map entries
    = some [[1, 10, 7], [3, 30, 9], [4, 40, 10]] := by decide
/-- an empty selection has no entries -/
example : (getitem t3 (.mask [false, false, false, false, false])).map entries = some [] ∧
    Py.selectRows (entries t3) (.mask [false, false, false, false, false]) = some [] := by decide

/-- unequal field lengths are refused by the constructor -/
example : (mk? [("a", [1, 2, 3]), ("b", [4, 5])]).map entries = none := by decide
example : (mk? ([] : List (String × List Nat))).map entries = none := by decide

/-- integer index and iteration -/
example : getitemInt t3 (-1) = some [5, 50, 11] ∧ getitemInt t3 5 = none := by decide
example : iter t3 = some (entries t3) := by decide

/-- concatenation -/
example : (concat [t3, ⟨[("a", [6]), ("b", [60]), ("c", [12])]⟩]).map entries
    = some [[1, 10, 7], [2, 20, 8], [3, 30, 9], [4, 40, 10], [5, 50, 11], [6, 60, 12]] := by decide

/-- projection onto a narrower class (new order), a missing field is refused -/
example : (astype t3 ["c", "a"]).map entries = some [[7, 1], [8, 2], [9, 3], [10, 4], [11, 5]] := by decide
example : (astype t3 ["c", "z"]).map entries = none := by decide

/-- `varlenConcat` of widths 3, 2, 1 -/
example : varlenConcat 0 [([[1, 2, 3]], 3), ([[4, 5], [6, 7]], 2), ([[8]], 1)]
    = [[1, 2, 3], [0, 4, 5], [0, 6, 7], [0, 0, 8]] := by decide
example : varlenConcat 0 [([[1, 2]], 2), ([[4, 5], [6, 7]], 2)] = [[1, 2], [4, 5], [6, 7]] := by decide

end Props.C18
