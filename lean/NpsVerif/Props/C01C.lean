import NpsVerif.Proofs.C01Offsets
/-!
# Property C01 (c) — the legacy `offsets` form of `RaggedShape.from_dict`

`from_dict({"offsets": o})` is `RaggedShape(np.diff(o))`.  The offsets of a row-length vector (from any base) give back
exactly the geometry of those lengths; in particular `np.insert(ends, 0, 0)` of a geometry loads as that geometry.
-/
namespace Props.C01C
open Model Np Proofs.C01Offsets

/-- the legacy `offsets` form: the offsets `[a, a+l0, a+l0+l1, …]` of any row-length vector, from any base `a`, give back
the geometry of those lengths (the geometry restarts at 0 whatever the base). -/
theorem C01_offsets_form (a : Int) (ls : List Nat) :
    Shape.ofOffsets (a :: cumsumFrom a (ls.map Int.ofNat)) = some (Shape.ofLens ls) := by
  unfold Shape.ofOffsets
  rw [diff_cumsumFrom]
  simp [Function.comp_def]

/-- what `np.insert(ends, 0, 0)` of a geometry is: the offsets with base 0 -/
theorem C01_offsets_roundtrip (ls : List Nat) :
    Shape.ofOffsets (0 :: (Shape.ofLens ls).ends.map Int.ofNat) = some (Shape.ofLens ls) := by
  have h : (Shape.ofLens ls).ends.map Int.ofNat = cumsumFrom 0 (ls.map Int.ofNat) := by
    rw [ofLens_ends]
    apply List.ext_getElem?
    intro i
    by_cases hi : i < ls.length
    · rw [cumsumFrom_getElem? 0 _ i (by simpa using hi)]
      simp [hi, ← List.map_take, sum_map_ofNat]
    · have h1 : ls.length ≤ i := by omega
      rw [List.getElem?_eq_none (by simpa using h1), List.getElem?_eq_none (by simpa [length_cumsumFrom] using h1)]
  rw [h]; exact C01_offsets_form 0 ls

/-- offsets that decrease somewhere are refused by the model -/
example : Shape.ofOffsets [0, 3, 2] = none := by decide
example : Shape.ofOffsets [0, 0, 2, 2, 5] = some (Shape.ofLens [0, 2, 0, 3]) := by decide
example : Shape.ofOffsets [7, 7, 9] = some (Shape.ofLens [0, 2]) := by decide
example : Shape.ofOffsets [] = some (Shape.ofLens []) := by decide
example : Shape.ofOffsets [4] = some (Shape.ofLens []) := by decide
end Props.C01C
