import NpsVerif.Model.Structural
import NpsVerif.Spec.Rows
import NpsVerif.Proofs.ColAgg
import NpsVerif.Props.C02GetItem
/-! Property C09: column aggregates of a RaggedArray (`sum(axis=0)`, `col_counts`,
`get_column_values`) against their list-of-rows meaning. -/
namespace Props.C09
open Model Np
variable {α : Type}

/-- sanity instance -/
theorem colsum_example : colSum (RA.ofRows [[1, 2], [], [3, 4, 5], []]) = some [4, 6, 5] := by decide

/-- column j of `sum(axis=0)` is the sum of row[j] over exactly the rows with more than j cells -/
theorem C09_col_sum (rows : List (List Int)) :
    colSum (RA.ofRows rows) = some (Spec.colSum rows) := by
  obtain ⟨rc, h1, h2⟩ := unravel_all (rows.map List.length)
  have hsz : (RA.ofRows rows).size = (rows.map List.length).sum := by
    simp [RA.size, RA.ofRows, ofLens_lengths]
  unfold colSum
  simp only [hsz]
  simp only [RA.ofRows, ofLens_lengths] at h1 ⊢
  rw [h1, Option.map_some, h2]
  simp only [Spec.colSum, col_filter]

/-- col_counts()[j] is the number of rows with more than j cells -/
theorem C09_col_counts (rows : List (List α)) :
    colCounts (RA.ofRows rows) = Spec.colCounts rows := by
  unfold colCounts Spec.colCounts
  simp only [RA.ofRows, RA.len, ofLens_lengths, ofLens_nRows]
  refine Eq.trans (colCounts_core (rows.map List.length)) ?_
  apply List.map_congr_left
  intro j _
  rw [List.countP_map, ← List.countP_eq_length_filter]
  rfl

/-- selecting the rows that reach column `j` and reading their cell `j` -/
theorem mask_column {α} (rows : List (List α)) (j : Nat) :
    ((rows.zip ((rows.map List.length).map (fun l => decide (l > j)))).filterMap
        (fun rb => if rb.2 then some rb.1 else none)).mapM (Py.index · (j : Int))
      = some (rows.filterMap (·[j]?)) := by
  induction rows with
  | nil => simp
  | cons r rs ih =>
    simp only [List.map_cons, List.zip_cons_cons, List.filterMap_cons]
    by_cases h : r.length > j
    · have hlt : j < r.length := h
      have hidx : Py.index r (j : Int) = some r[j] := by
        unfold Py.index
        rw [getIdx_in_range r j (by omega)]
        simp [List.getElem?_eq_getElem hlt]
      simp only [h, decide_true, if_true, List.getElem?_eq_getElem hlt]
      rw [mapM_cons', hidx, ih]
      simp
    · have hn : r[j]? = none := List.getElem?_eq_none (by omega)
      simp only [h, decide_false, hn]
      exact ih

/-- get_column_values(j): the j-th cells of the rows that have one, in row order -/
theorem C09_column_values (rows : List (List α)) (j : Nat) :
    columnValues (RA.ofRows rows) j = some (.vec (rows.filterMap (·[j]?))) := by
  unfold columnValues
  rw [Props.C02.C02_getitem]
  have hl : (RA.ofRows rows).shape.lengths = rows.map List.length := by
    simp [RA.ofRows, ofLens_lengths]
  rw [hl]
  simp only [Py.getitem, Py.selectRows, List.length_map, if_true, Option.bind_some]
  rw [mask_column]
  rfl

/- non-vacuity: empty rows at the start, in the middle and at the end -/
example : colSum (RA.ofRows [[], [1, 2], [], [3, 4, 5], [-7], []]) = some [-3, 6, 5] ∧
    Spec.colSum [[], [1, 2], [], [3, 4, 5], [-7], []] = [-3, 6, 5] := by decide
example : colSum (RA.ofRows [[], []]) = some [] ∧ colSum (RA.ofRows []) = some [] := by decide
example : colCounts (RA.ofRows [[], [1, 2], [], [3, 4, 5], [-7], []]) = [3, 2, 1] ∧
    Spec.colCounts [[], [1, 2], [], [3, 4, 5], [-7], []] = [3, 2, 1] := by decide
example : colCounts (RA.ofRows ([] : List (List Nat))) = [] ∧
    colCounts (RA.ofRows [([] : List Nat), []]) = [] := by decide
example : columnValues (RA.ofRows [[], [1, 2], [], [3, 4, 5], [7], []]) 1 = some (.vec [2, 4]) ∧
    columnValues (RA.ofRows [[], [1, 2], [], [3, 4, 5], [7], []]) 3 = some (.vec []) := by decide

end Props.C09
