import NpsVerif.Model.Structural
import NpsVerif.Spec.Rows
namespace Props.C09
open Model
/-- sanity instance; the universally quantified theorems are added as they are proved -/
theorem colsum_example : colSum (RA.ofRows [[1, 2], [], [3, 4, 5], []]) = some [4, 6, 5] := by decide
end Props.C09
