import NpsVerif.Proofs.C01
import NpsVerif.Proofs.C01Maps
/-!
# Property C01 — a RaggedArray holds exactly the rows it was built from

Statements only (helper lemmas live in `Proofs/`).  All theorems quantify over every vector of
row lengths (any placement of empty rows, zero rows), every element type `α` and every content.
-/
namespace Props.C01
open Model Np

/-- The geometry of `RaggedShape(lengths)` is the exclusive-prefix-sum geometry of the lengths. -/
theorem C01_geometry (ls : List Nat) :
    (Shape.ofLens ls).starts = exclScan ls ∧
    (Shape.ofLens ls).lengths = ls ∧
    (Shape.ofLens ls).ends = (List.range ls.length).map (fun i => (ls.take (i+1)).sum) ∧
    (Shape.ofLens ls).size = ls.sum ∧
    (Shape.ofLens ls).nRows = ls.length :=
  ⟨ofLens_starts ls, ofLens_lengths ls, ofLens_ends ls, ofLens_size ls, ofLens_nRows ls⟩

/-- `RaggedArray(list_of_rows)` reads back exactly those rows through iteration / `tolist`,
`len`, `size`, `lengths` and `ravel`. -/
theorem C01_of_rows {α} (rows : List (List α)) :
    (RA.ofRows rows).rows = rows ∧
    (RA.ofRows rows).len = rows.length ∧
    (RA.ofRows rows).size = (rows.map List.length).sum ∧
    (RA.ofRows rows).shape.lengths = rows.map List.length ∧
    (RA.ofRows rows).ravel = rows.flatten := by
  refine ⟨?_, ?_, ?_, ?_, rfl⟩
  · have := rows_of_scan ([] : List α) rows
    simpa [RA.rows, RA.ofRows, ofLens_codes, exclScan] using this
  · simp [RA.len, RA.ofRows, ofLens_nRows]
  · simp [RA.size, RA.ofRows, ofLens_lengths]
  · simp [RA.ofRows, ofLens_lengths]

/-- A flat buffer whose size matches the lengths is accepted, and reads back as the buffer cut
at the lengths. -/
theorem C01_of_flat {α} (data : List α) (ls : List Nat) (h : ls.sum = data.length) :
    ∃ a, RA.ofFlat data ls = some a ∧ a.rows.flatten = data ∧ a.rows.map List.length = ls ∧
      a.ravel = data ∧ a.shape.lengths = ls := by
  refine ⟨⟨data, Shape.ofLens ls⟩, ?_, ?_, ?_, rfl, ofLens_lengths ls⟩
  · simp [RA.ofFlat, ofLens_size, h]
  · have := cut_flatten data 0 ls
    simp only [RA.rows, ofLens_codes, exclScan]
    rw [this, h]; simp
  · have := cut_lengths data 0 ls (by omega)
    simpa [RA.rows, ofLens_codes, exclScan] using this

/-- A flat buffer whose size disagrees with the lengths is rejected. -/
theorem C01_of_flat_refuses {α} (data : List α) (ls : List Nat) (h : ls.sum ≠ data.length) :
    RA.ofFlat data ls = none := by
  simp [RA.ofFlat, ofLens_size, h]

/-- `astype` converts every cell and keeps the rows. -/
theorem C01_astype {α β} (c : α → β) (rows : List (List α)) :
    ((RA.ofRows rows).astype c).rows = rows.map (·.map c) := by
  have h := (C01_of_rows (rows.map (·.map c))).1
  have e : (RA.ofRows rows).astype c = RA.ofRows (rows.map (·.map c)) := by
    simp [RA.astype, RA.ofRows, List.map_flatten, Function.comp_def]
  rw [e, h]

/- non-vacuity: concrete shapes with empty rows at the start, middle and end -/
example : (Shape.ofLens [0, 2, 0, 0, 3, 0]).starts = [0, 0, 2, 2, 2, 5] := by decide
example : (RA.ofRows [[], [1, 2], [], [3]]).rows = [[], [1, 2], [], [3]] := by decide
example : RA.ofFlat [1, 2, 3] [1, 1] = none := by decide

/-! ## index maps: `ravel_multi_index`, `unravel_multi_index`, `index_array`, numpy round trip -/

/-- (row, col) -> flat -> (row, col): for every placement of empty rows (the `side="right"` choice is
what makes a run of equal starts resolve to its last, non-empty, row) -/
theorem C01_unravel_ravel (ls : List Nat) (r c : Nat) (hr : r < ls.length) (hc : c < ls[r]) :
    (Shape.ofLens ls).ravelIdx r c = some ((ls.take r).sum + c) ∧
    (Shape.ofLens ls).unravelIdx ((ls.take r).sum + c) = some (r, c) :=
  ⟨ofLens_ravelIdx ls r c hr, ofLens_unravelIdx ls r c hr hc⟩

/-- flat -> (row, col) -> flat, and the column is inside the row -/
theorem C01_ravel_unravel (ls : List Nat) (p : Nat) (hp : p < ls.sum) :
    ∃ r c, (Shape.ofLens ls).unravelIdx p = some (r, c) ∧ (∃ h : r < ls.length, c < ls[r]) ∧
      (Shape.ofLens ls).ravelIdx r c = some p := by
  obtain ⟨r, c, hr, hc, he⟩ := exists_row_col ls p hp
  refine ⟨r, c, ?_, ⟨hr, hc⟩, ?_⟩
  · rw [he]; exact ofLens_unravelIdx ls r c hr hc
  · rw [he]; exact ofLens_ravelIdx ls r c hr

/-- `index_array()` lists the row of every flat position -/
theorem C01_index_array (ls : List Nat) :
    (Shape.ofLens ls).indexArray = ((List.range ls.length).zip ls).flatMap (fun rl => List.replicate rl.2 rl.1) := by
  rw [ofLens_indexArray, List.range_eq_range', flatMap_range'_zip]

/-- rectangular numpy array -> RaggedArray -> numpy array is the identity -/
theorem C01_numpy_roundtrip {α} (m : List (List α)) (w : Nat) (h : ∀ r ∈ m, r.length = w) :
    (RA.fromNumpy m w).bind RA.toNumpy = some m := by
  have hsz : (Shape.ofLens (List.replicate m.length w)).size = m.flatten.length := by
    rw [ofLens_size, List.sum_replicate_nat, flatten_length_of_const m w h]
  simp only [RA.fromNumpy, RA.ofFlat, hsz, if_true, Option.bind_some, RA.toNumpy, ofLens_lengths,
    ofLens_nRows, List.length_replicate]
  cases m with
  | nil => simp
  | cons r rs =>
    simp only [List.length_cons, List.replicate_succ]
    rw [if_pos (by simp [List.all_replicate])]
    have := chunks_flatten (r :: rs) w h
    simpa using this

/-- `to_numpy_array` accepts exactly the arrays whose rows all have the length of the first row -/
theorem C01_to_numpy_accepts {α} (rows : List (List α)) :
    (RA.ofRows rows).toNumpy = if rows.all (fun r => r.length == (rows.head?.map List.length).getD 0) then some rows else none := by
  cases rows with
  | nil => simp [RA.toNumpy, RA.ofRows, ofLens_lengths]
  | cons r rs =>
    simp only [RA.toNumpy, RA.ofRows, ofLens_lengths, ofLens_nRows, List.map_cons, List.length_cons,
      List.length_map, List.head?_cons, Option.map_some, Option.getD_some, List.all_cons, beq_self_eq_true,
      Bool.true_and, List.all_map, Function.comp_def]
    split
    · rename_i hall
      have hall' : ∀ x ∈ r :: rs, x.length = r.length := by
        intro x hx
        rcases List.mem_cons.mp hx with rfl | hx
        · rfl
        · simpa using (List.all_eq_true.mp hall) x hx
      have := chunks_flatten (r :: rs) r.length hall'
      simpa using this
    · rfl

/- non-vacuity of the index maps: empty rows at the start, middle and end -/
example : (Shape.ofLens [0, 2, 0, 0, 3, 0]).ravelIdx 4 1 = some 3 := by decide
example : (Shape.ofLens [0, 2, 0, 0, 3, 0]).unravelIdx 3 = some (4, 1) := by decide
example : (List.range 5).map (Shape.ofLens [0, 2, 0, 0, 3, 0]).unravelIdx
    = [some (1, 0), some (1, 1), some (4, 0), some (4, 1), some (4, 2)] := by decide
example : (Shape.ofLens [0, 2, 0, 0, 3, 0]).indexArray = [1, 1, 4, 4, 4] := by decide
example : (Shape.ofLens []).indexArray = [] := by decide
example : (RA.fromNumpy [[1, 2], [3, 4], [5, 6]] 2).bind RA.toNumpy = some [[1, 2], [3, 4], [5, 6]] := by decide
example : (RA.fromNumpy [([] : List Nat), [], []] 0).bind RA.toNumpy = some [[], [], []] := by decide
example : (RA.ofRows [[1, 2], [], [3, 4]]).toNumpy = none := by decide
example : (RA.ofRows [([] : List Nat), []]).toNumpy = some [[], []] := by decide

end Props.C01
