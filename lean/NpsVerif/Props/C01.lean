import NpsVerif.Proofs.C01
/-!
# Property C01 — a RaggedArray holds exactly the rows it was built from

Statements only (helper lemmas live in `Proofs/`).  All theorems quantify over every vector of
row lengths (any placement of empty rows, zero rows), every element type `α` and every content.
-/
namespace Props.C01
open Model Np

/-- The geometry of `RaggedShape(lengths)` is the exclusive-prefix-sum geometry of the lengths. -/
theorem C01_geometry (ls : List Nat) :
    (Shape.ofLens ls).starts = exclScan ls ∧
    (Shape.ofLens ls).lengths = ls ∧
    (Shape.ofLens ls).ends = (List.range ls.length).map (fun i => (ls.take (i+1)).sum) ∧
    (Shape.ofLens ls).size = ls.sum ∧
    (Shape.ofLens ls).nRows = ls.length :=
  ⟨ofLens_starts ls, ofLens_lengths ls, ofLens_ends ls, ofLens_size ls, ofLens_nRows ls⟩

/-- `RaggedArray(list_of_rows)` reads back exactly those rows through iteration / `tolist`,
`len`, `size`, `lengths` and `ravel`. -/
theorem C01_of_rows {α} (rows : List (List α)) :
    (RA.ofRows rows).rows = rows ∧
    (RA.ofRows rows).len = rows.length ∧
    (RA.ofRows rows).size = (rows.map List.length).sum ∧
    (RA.ofRows rows).shape.lengths = rows.map List.length ∧
    (RA.ofRows rows).ravel = rows.flatten := by
  refine ⟨?_, ?_, ?_, ?_, rfl⟩
  · have := rows_of_scan ([] : List α) rows
    simpa [RA.rows, RA.ofRows, ofLens_codes, exclScan] using this
  · simp [RA.len, RA.ofRows, ofLens_nRows]
  · simp [RA.size, RA.ofRows, ofLens_lengths]
  · simp [RA.ofRows, ofLens_lengths]

/-- A flat buffer whose size matches the lengths is accepted, and reads back as the buffer cut
at the lengths. -/
theorem C01_of_flat {α} (data : List α) (ls : List Nat) (h : ls.sum = data.length) :
    ∃ a, RA.ofFlat data ls = some a ∧ a.rows.flatten = data ∧ a.rows.map List.length = ls ∧
      a.ravel = data ∧ a.shape.lengths = ls := by
  refine ⟨⟨data, Shape.ofLens ls⟩, ?_, ?_, ?_, rfl, ofLens_lengths ls⟩
  · simp [RA.ofFlat, ofLens_size, h]
  · have := cut_flatten data 0 ls
    simp only [RA.rows, ofLens_codes, exclScan]
    rw [this, h]; simp
  · have := cut_lengths data 0 ls (by omega)
    simpa [RA.rows, ofLens_codes, exclScan] using this

/-- A flat buffer whose size disagrees with the lengths is rejected. -/
theorem C01_of_flat_refuses {α} (data : List α) (ls : List Nat) (h : ls.sum ≠ data.length) :
    RA.ofFlat data ls = none := by
  simp [RA.ofFlat, ofLens_size, h]

/-- `astype` converts every cell and keeps the rows. -/
theorem C01_astype {α β} (c : α → β) (rows : List (List α)) :
    ((RA.ofRows rows).astype c).rows = rows.map (·.map c) := by
  have h := (C01_of_rows (rows.map (·.map c))).1
  have e : (RA.ofRows rows).astype c = RA.ofRows (rows.map (·.map c)) := by
    simp [RA.astype, RA.ofRows, List.map_flatten, Function.comp_def]
  rw [e, h]

/- non-vacuity: concrete shapes with empty rows at the start, middle and end -/
example : (Shape.ofLens [0, 2, 0, 0, 3, 0]).starts = [0, 0, 2, 2, 2, 5] := by decide
example : (RA.ofRows [[], [1, 2], [], [3]]).rows = [[], [1, 2], [], [3]] := by decide
example : RA.ofFlat [1, 2, 3] [1, 1] = none := by decide

end Props.C01
