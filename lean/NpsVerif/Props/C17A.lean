import NpsVerif.Model.RunLength2d
import NpsVerif.Spec.Rows
import NpsVerif.Props.C14
import NpsVerif.Props.C15
import NpsVerif.Props.C16
import NpsVerif.Proofs.RL2Basic
import NpsVerif.Proofs.RL2Ops
import NpsVerif.Proofs.RL2Ctor
import NpsVerif.Proofs.RL2Col
/-!
# C17 (part A): 2-D / ragged run-length arrays — constructors, rows, elements, columns, reductions

`toRows` (every row decoded) is the specification.  The proofs are in
`NpsVerif/Proofs/RL2Basic.lean` (generic `row` / `toRows` lemmas), `RL2Ctor.lean` (the three
constructors through the 1-D encoder, C14), `RL2Ops.lean` (selection, element, sums, run values,
map; C15 / C16) and `RL2Col.lean` (the integer column).  All statements are exactly as given.
-/
open Model Model.RL2

namespace Props.C17
variable {α β : Type}

/-- lock-step invariant of the ragged variant: one more boundary than values in every row, every
row a valid RunLengthArray -/
def LockstepRagged (r : RL2 α) : Prop :=
  r.rowLen = none ∧ r.indices.length = r.values.length ∧
  ∀ (i : Nat) (rla : RLA α), r.row i = some rla → rla.Valid

/-- all rows can be read back as valid run-length arrays -/
def AllRowsValid (r : RL2 α) : Prop :=
  r.indices.length = r.values.length ∧ ∀ i, i < r.indices.length → ∃ rla, r.row i = some rla ∧ rla.Valid

/-- ragged encoder: rows of length ≥ 1 decode to themselves, in lock-step -/
theorem C17_roundtrip_ragged (ne : α → α → Bool) (hne : ∀ x y, ne x y = false → x = y)
    (rows : List (List α)) (hpos : ∀ r ∈ rows, r ≠ []) :
    (fromRagged ne rows).toRows = some rows ∧ AllRowsValid (fromRagged ne rows) ∧
    (fromRagged ne rows).rowLen = none ∧
    ∀ (i : Nat) (ix : List Nat) (vs : List α), (fromRagged ne rows).indices[i]? = some ix → (fromRagged ne rows).values[i]? = some vs →
      ix.length = vs.length + 1 := by
  rw [Proofs.RL2.fromRagged_eq]
  obtain ⟨h1, h2, h3⟩ := Proofs.RL2.maps_spec rows (fun a => changeStarts ne a ++ [a.length])
    (fun a => (changeStarts ne a).filterMap (a[·]?)) none id
    (fun a ha => Proofs.RL2.ragged_row ne hne a (hpos a ha))
  refine ⟨by simpa using h1, ⟨by simp, fun i hi => h2 i (by simpa using hi)⟩, rfl, ?_⟩
  intro i ix vs hi hv
  exact h3 i ix vs hi hv

/-- matrix encoder (RunLength2dArray): an `n × c` matrix with `c ≥ 1` decodes to itself; one boundary per
value, row length kept aside -/
theorem C17_roundtrip_matrix (ne : α → α → Bool) (hne : ∀ x y, ne x y = false → x = y)
    (m : List (List α)) (c : Nat) (hc : 1 ≤ c) (hm : ∀ r ∈ m, r.length = c) :
    (fromMatrix ne m c).toRows = some m ∧ AllRowsValid (fromMatrix ne m c) ∧
    ∀ (i : Nat) (ix : List Nat) (vs : List α), (fromMatrix ne m c).indices[i]? = some ix → (fromMatrix ne m c).values[i]? = some vs →
      ix.length = vs.length := by
  rw [Proofs.RL2.fromMatrix_eq]
  obtain ⟨h1, h2, h3⟩ := Proofs.RL2.maps_spec m (Proofs.RL2.matrixStarts ne)
    (fun a => (Proofs.RL2.matrixStarts ne a).filterMap (a[·]?)) (some c) id
    (fun a ha => by
      have := Proofs.RL2.matrix_row ne hne a (by rw [hm a ha]; exact hc)
      rw [hm a ha] at this
      exact this)
  refine ⟨by simpa using h1, ⟨by simp, fun i hi => h2 i (by simpa using hi)⟩, ?_⟩
  intro i ix vs hi hv
  have := h3 i ix vs hi hv
  simpa [Proofs.RL2.evs] using this

/-- interval constructor: row i is the indicator of [start_i, end_i) -/
theorem C17_from_intervals (zero one : α) (ivs : List (Nat × Nat)) (L : Nat)
    (h : ∀ se ∈ ivs, se.1 < se.2 ∧ se.2 ≤ L) :
    (fromIntervals zero one ivs L).toRows =
      some (ivs.map (fun se => (List.range L).map (fun c => if se.1 ≤ c ∧ c < se.2 then one else zero))) := by
  unfold fromIntervals
  exact (Proofs.RL2.maps_spec ivs _ _ (some L) _
    (fun se hse => Proofs.RL2.interval_row zero one se.1 se.2 L (h se hse).1 (h se hse).2)).1

/-- length -/
theorem C17_len (ne : α → α → Bool) (rows : List (List α)) : (fromRagged ne rows).len = rows.length := by
  rw [Proofs.RL2.fromRagged_eq]
  simp [RL2.len]

/-- row selection (slice / list / mask): rows of the decoded data; refusal agrees -/
theorem C17_rows (r : RL2 α) (dense : List (List α)) (hd : r.toRows = some dense) (hl : r.indices.length = r.values.length)
    (sel : RowSel) (hs : match sel with | .int _ => False | _ => True) :
    (r.selectRows sel).bind RL2.toRows = Py.selectRows dense sel :=
  Proofs.RL2.selectRows_toRows r dense hd hl sel hs

/-- integer row: that row -/
theorem C17_row_int (r : RL2 α) (dense : List (List α)) (hd : r.toRows = some dense) (i : Nat) (hi : i < dense.length) :
    (r.row i).map RLA.decode = dense[i]? :=
  Proofs.RL2.row_int r dense hd i hi

set_option linter.unusedVariables false in
/-- single element `rl[i, j]` (negative indices allowed, out of range refused) -/
theorem C17_element (r : RL2 α) (dense : List (List α)) (hd : r.toRows = some dense) (hv : AllRowsValid r) (i j : Int) :
    r.element i j = (Py.index dense i).bind (fun row => Py.index row j) :=
  Proofs.RL2.element_eq r dense hd i j

/-- integer column on the ragged variant, in range for every row -/
theorem C17_column_int (ne : α → α → Bool) (hne : ∀ x y, ne x y = false → x = y) (rows : List (List α))
    (hpos : ∀ r ∈ rows, r ≠ []) (j : Int) (hin : ∀ r ∈ rows, -(r.length : Int) ≤ j ∧ j < r.length) :
    some ((fromRagged ne rows).columnInt j) = rows.mapM (fun r => Py.index r j) :=
  Proofs.RL2.columnInt_fromRagged ne hne rows hpos j hin

/-- row sums: Σ run length · value = sum of the decoded row -/
theorem C17_row_sums (r : RL2 Int) (dense : List (List Int)) (hd : r.toRows = some dense) (hv : AllRowsValid r) :
    r.rowSums = dense.map List.sum :=
  Proofs.RL2.rowSums_eq r dense hd hv.1

set_option linter.unusedVariables false in
/-- any / all / max over run values see exactly the values occurring in the row -/
theorem C17_row_values_mem (r : RL2 α) (dense : List (List α)) (hd : r.toRows = some dense) (hv : AllRowsValid r)
    (i : Nat) (vs row : List α) (h1 : r.values[i]? = some vs) (h2 : dense[i]? = some row) (x : α) :
    x ∈ vs ↔ x ∈ row :=
  Proofs.RL2.row_values_mem r dense hd i vs row h1 h2 x

set_option linter.unusedVariables false in
/-- unary ufunc / scalar / column operand on either side (g gets the row index): applied cell by cell -/
theorem C17_map_values (g : Nat → α → β) (r : RL2 α) (dense : List (List α)) (hd : r.toRows = some dense)
    (hl : r.indices.length = r.values.length) :
    (r.mapValues g).toRows = some (((List.range dense.length).zip dense).map (fun ir => ir.2.map (g ir.1))) :=
  Proofs.RL2.mapValues_toRows g r dense hd

/-! ## consequences used by callers -/

/-- a readable array with as many value rows as boundary rows has all rows valid (the constructor
`RLA.mk?` checks it) -/
theorem allRowsValid_of_toRows (r : RL2 α) (dense : List (List α)) (hd : r.toRows = some dense)
    (hl : r.indices.length = r.values.length) : AllRowsValid r := by
  refine ⟨hl, fun i hi => ?_⟩
  have hlen := Proofs.RL2.toRows_length r dense hd
  obtain ⟨rla, hrow, _⟩ := Proofs.RL2.toRows_row r dense hd i (by omega)
  obtain ⟨ix, vs, _, _, he, hv⟩ := Proofs.RL2.row_some r i rla hrow
  exact ⟨rla, hrow, by rw [he]; exact hv⟩

/-- the ragged encoder establishes the lock-step invariant -/
theorem lockstepRagged_fromRagged (ne : α → α → Bool) (rows : List (List α)) :
    LockstepRagged (fromRagged ne rows) := by
  rw [Proofs.RL2.fromRagged_eq]
  refine ⟨rfl, by simp, fun i rla h => ?_⟩
  obtain ⟨ix, vs, _, _, he, hv⟩ := Proofs.RL2.row_some _ i rla h
  rw [he]; exact hv

/-! ## concrete instances (`decide`, no axioms) -/

/-- `!=` on naturals -/
def neN (x y : Nat) : Bool := x != y

-- ragged [[1,1,2],[2],[2,2,1,1]]
example : fromRagged neN [[1, 1, 2], [2], [2, 2, 1, 1]] =
    ⟨[[0, 2, 3], [0, 1], [0, 2, 4]], [[1, 2], [2], [2, 1]], none⟩ := by decide
example : (fromRagged neN [[1, 1, 2], [2], [2, 2, 1, 1]]).toRows =
    some [[1, 1, 2], [2], [2, 2, 1, 1]] := by decide
example : (fromRagged neN [[1, 1, 2], [2], [2, 2, 1, 1]]).len = 3 := by decide
example : (fromRagged neN [[1, 1, 2], [2], [2, 2, 1, 1]]).row 2 = some ⟨[0, 2, 4], [2, 1]⟩ := by decide
example : (fromRagged neN [[1, 1, 2], [2], [2, 2, 1, 1]]).row 3 = none := by decide
-- matrix [[1,1,2],[2,2,2]]: the last column always starts a run
example : fromMatrix neN [[1, 1, 2], [2, 2, 2]] 3 =
    ⟨[[0, 2], [0, 2]], [[1, 2], [2, 2]], some 3⟩ := by decide
example : (fromMatrix neN [[1, 1, 2], [2, 2, 2]] 3).toRows = some [[1, 1, 2], [2, 2, 2]] := by decide
example : (fromMatrix neN [[1, 1, 2], [2, 2, 2]] 3).row 1 = some ⟨[0, 2, 3], [2, 2]⟩ := by decide
-- a single column: the forced last column is the forced first column
example : fromMatrix neN [[5], [6]] 1 = ⟨[[0], [0]], [[5], [6]], some 1⟩ := by decide
example : (fromMatrix neN [[5], [6]] 1).toRows = some [[5], [6]] := by decide
-- intervals [(0,2),(1,3),(1,2)] with L = 3
example : fromIntervals 0 1 [(0, 2), (1, 3), (1, 2)] 3 =
    ⟨[[0, 2], [0, 1], [0, 1, 2]], [[1, 0], [0, 1], [0, 1, 0]], some 3⟩ := by decide
example : (fromIntervals 0 1 [(0, 2), (1, 3), (1, 2)] 3).toRows =
    some [[1, 1, 0], [0, 1, 1], [0, 1, 0]] := by decide
example : (fromIntervals 0 1 [(0, 3)] 3).toRows = some [[1, 1, 1]] := by decide
-- an empty interval is refused by the row constructor (hypothesis `se.1 < se.2` is needed)
example : (fromIntervals 0 1 [(1, 1)] 3).toRows = none := by decide
-- row selection: slice with negative step, list with negative entries, mask; refusals
example : ((fromRagged neN [[1, 1, 2], [2], [2, 2, 1, 1]]).selectRows (.slice none none (some (-2)))).bind
    RL2.toRows = some [[2, 2, 1, 1], [1, 1, 2]] := by decide
example : ((fromRagged neN [[1, 1, 2], [2], [2, 2, 1, 1]]).selectRows (.list [-1, 0, 0])).bind
    RL2.toRows = some [[2, 2, 1, 1], [1, 1, 2], [1, 1, 2]] := by decide
example : ((fromRagged neN [[1, 1, 2], [2], [2, 2, 1, 1]]).selectRows (.mask [true, false, true])).bind
    RL2.toRows = some [[1, 1, 2], [2, 2, 1, 1]] := by decide
example : ((fromRagged neN [[1, 1, 2], [2], [2, 2, 1, 1]]).selectRows (.list [3])).bind
    RL2.toRows = none := by decide
example : ((fromRagged neN [[1, 1, 2], [2], [2, 2, 1, 1]]).selectRows (.mask [true, false])).bind
    RL2.toRows = none := by decide
example : ((fromRagged neN [[1, 1, 2], [2], [2, 2, 1, 1]]).selectRows (.slice none none (some 0))).bind
    RL2.toRows = none := by decide
-- elements, negative indices, refusals
example : (fromRagged neN [[1, 1, 2], [2], [2, 2, 1, 1]]).element 2 (-1) = some 1 := by decide
example : (fromRagged neN [[1, 1, 2], [2], [2, 2, 1, 1]]).element (-3) 2 = some 2 := by decide
example : (fromRagged neN [[1, 1, 2], [2], [2, 2, 1, 1]]).element 1 1 = none := by decide
example : (fromRagged neN [[1, 1, 2], [2], [2, 2, 1, 1]]).element 3 0 = none := by decide
example : (fromMatrix neN [[1, 1, 2], [2, 2, 2]] 3).element (-1) (-3) = some 2 := by decide
-- integer column, non-negative and negative (from each row's end)
example : (fromRagged neN [[1, 1, 2], [2], [2, 2, 1, 1]]).columnInt 0 = [1, 2, 2] := by decide
example : (fromRagged neN [[1, 1, 2], [2], [2, 2, 1, 1]]).columnInt (-1) = [2, 2, 1] := by decide
example : [[1, 1, 2], [2], [2, 2, 1, 1]].mapM (fun r => Py.index r (-1)) = some [2, 2, 1] := by decide
example : (fromRagged neN [[1, 1, 2], [2, 3], [2, 2, 1, 1]]).columnInt (-2) = [1, 2, 1] := by decide
example : [[1, 1, 2], [2, 3], [2, 2, 1, 1]].mapM (fun r => Py.index r (-2)) = some [1, 2, 1] := by decide
-- out of range for one row: the model silently drops the row, the specification refuses
-- (the hypothesis `hin` of `C17_column_int` is needed)
example : (fromRagged neN [[1, 1, 2], [2], [2, 2, 1, 1]]).columnInt 1 = [1, 2] := by decide
example : [[1, 1, 2], [2], [2, 2, 1, 1]].mapM (fun r => Py.index r 1) = none := by decide
-- row sums, run values, map with the row index
example : (fromRagged (fun (x y : Int) => x != y) [[1, 1, 2], [2], [2, 2, -1, -1]]).rowSums = [4, 2, 2] := by decide
example : (fromMatrix (fun (x y : Int) => x != y) [[1, 1, 2], [2, 2, 2]] 3).rowSums = [4, 6] := by decide
example : (fromRagged neN [[1, 1, 2], [2], [2, 2, 1, 1]]).rowReduce (fun vs => vs.foldl max 0) = [2, 2, 2] := by decide
example : ((fromRagged neN [[1, 1, 2], [2], [2, 2, 1, 1]]).mapValues (fun i v => 10 * i + v)).toRows =
    some [[1, 1, 2], [12], [22, 22, 21, 21]] := by decide
-- the invariants are inhabited
example : AllRowsValid (fromRagged neN [[1, 1, 2], [2], [2, 2, 1, 1]]) :=
  (C17_roundtrip_ragged neN (by intro x y h; simpa [neN] using h) _ (by decide)).2.1
example : LockstepRagged (fromRagged neN [[1, 1, 2], [2], [2, 2, 1, 1]]) := lockstepRagged_fromRagged _ _
-- an empty row is stored as boundaries `[0]` and no run (the MODEL reads it back; the theorems
-- only speak about rows of length ≥ 1, the domain on which the model follows the Python code)
example : fromRagged neN [[1], []] = ⟨[[0, 1], [0]], [[1], []], none⟩ := by decide

end Props.C17
