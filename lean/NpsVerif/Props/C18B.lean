import NpsVerif.Props.C18
import NpsVerif.Proofs.DataClassEq
/-!
# Property C18, continued — equality of two npdataclass objects is equality of their entries
-/
namespace Props.C18
open Model Model.DC
variable {α : Type} [DecidableEq α]

/-- `a == b` (field by field) holds exactly when the two tables have the same entries, for well-formed tables of the
same class (same number of fields) -/
theorem C18_eq (t u : Table α) (ht : mk? t.cols = some t) (hu : mk? u.cols = some u)
    (hn : t.cols.length = u.cols.length) :
    DC.eq t u = true ↔ entries t = entries u :=
  Proofs.DataClass.eq_iff_entries t u ht hu hn

/- non-vacuity -/
example : DC.eq (⟨[("a", [1, 2, 3]), ("b", [4, 5, 6])]⟩ : Table Nat) ⟨[("a", [1, 2, 3]), ("b", [4, 5, 6])]⟩ = true := by decide
example : DC.eq (⟨[("a", [1, 2, 3]), ("b", [4, 5, 6])]⟩ : Table Nat) ⟨[("a", [1, 2, 3]), ("b", [4, 5, 7])]⟩ = false := by decide

end Props.C18
