import NpsVerif.Model.Scan
import NpsVerif.Spec.Rows
namespace Props.C07
open Model
/-- sanity instance; the universally quantified theorems are added as they are proved -/
theorem cumsum_example : (cumsumRows (RA.ofRows [[1, 2], [], [3, 4, 5], []])).rows = [[1, 3], [], [3, 7, 12], []] := by decide
end Props.C07
