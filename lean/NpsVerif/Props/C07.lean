import NpsVerif.Props.C07Scan
import NpsVerif.Props.C07Sort
/-! Property C07: theorems in `Props/C07Scan.lean` (cumsum, accumulate, diff) and `Props/C07Sort.lean`
(sort, unique with counts). -/
