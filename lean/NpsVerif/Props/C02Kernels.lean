import NpsVerif.Model.Index
import NpsVerif.Gen.Bridge.col_slice_slice
import NpsVerif.Gen.Bridge.col_slice_int
import NpsVerif.Proofs.C01
import NpsVerif.Proofs.ColSlice
import NpsVerif.Spec.Cells
/-!
# Property C02, kernel level — the generated column-slice kernels (K1–K4) agree with CPython

Each proof first crosses the bridge `Gen.Cur.k = Gen.Ref.k` (re-proved on every run) and then uses
the arithmetic facts about the committed reference kernels `Gen.Ref.*` from `Proofs/ColSlice.lean`.
`Gen.Cur.*` is never unfolded here.
-/
namespace Props.C02
open Model Gen


/-- every position of CPython's slice lies inside the sequence -/
theorem C02_sliceIdx_in_range (n : Nat) (a b : Option Int) (k : Int) (hk : k ≠ 0) :
    ∀ i ∈ Py.sliceIdx n a b k, 0 ≤ i ∧ i < n :=
  Proofs.ColSlice.sliceIdx_in_range n a b k hk

-- non-vacuity: `range(3)[::-1]` and `range(5)[1::2]` are non-empty and in range
example : Py.sliceIdx 3 none none (-1) = [2, 1, 0] := by decide
example : Py.sliceIdx 5 (some 1) none 2 = [1, 3] := by decide

/-- K3 (slice branch) = CPython: length, stride and (when non-empty) first position -/
theorem C02_col_slice_triple (len : Nat) (s0 c : Int) (a b k : Option Int) (hk : k ≠ some 0) :
    (Cur.col_slice_slice len s0 c a b k).2.1 = Py.sliceLen len a b (k.getD 1) ∧
    (Cur.col_slice_slice len s0 c a b k).2.2 = c * (k.getD 1) ∧
    (0 < Py.sliceLen len a b (k.getD 1) →
      (Cur.col_slice_slice len s0 c a b k).1 = s0 + c * Py.adjStart len a (k.getD 1)) := by
  rw [Gen.Bridge.col_slice_slice_bridge (len : Int) s0 c a b k (by omega) hk]
  exact Proofs.ColSlice.ref_col_slice_triple (len : Int) s0 c (by omega) a b k hk

-- non-vacuity: row of length 3 at offset 10, `[::-1]` and `[-2::-1]`; row of length 5, `[1:4:2]`
example : Cur.col_slice_slice 3 10 1 none none (some (-1)) = (12, 3, -1) ∧
    Py.sliceLen 3 none none (-1) = 3 ∧ Py.adjStart 3 none (-1) = 2 := by decide
example : Cur.col_slice_slice 3 10 1 (some (-2)) none (some (-1)) = (11, 2, -1) ∧
    Py.sliceLen 3 (some (-2)) none (-1) = 2 ∧ Py.adjStart 3 (some (-2)) (-1) = 1 := by decide
example : Cur.col_slice_slice 5 7 1 (some 1) (some 4) (some 2) = (8, 2, 2) ∧
    Py.sliceLen 5 (some 1) (some 4) 2 = 2 := by decide

/-- the new triple addresses exactly the cells `s0 + c*i` for `i` in CPython's slice of the row -/
theorem C02_col_slice_cells (len : Nat) (s0 c : Int) (a b k : Option Int) (hk : k ≠ some 0) :
    cellsOf (Cur.col_slice_slice len s0 c a b k) =
      (Py.sliceIdx len a b (k.getD 1)).map (fun i => s0 + c * i) := by
  rw [Gen.Bridge.col_slice_slice_bridge (len : Int) s0 c a b k (by omega) hk]
  exact Proofs.ColSlice.ref_col_slice_cells len s0 c a b k hk

-- non-vacuity: negative-step slice of a row of length 3, and a slice of an already strided row
example : cellsOf (Cur.col_slice_slice 3 10 1 none none (some (-1))) = [12, 11, 10] := by decide
example : cellsOf (Cur.col_slice_slice 3 10 2 (some 5) (some 0) (some (-1))) = [14, 12] ∧
    Py.sliceIdx 3 (some 5) (some 0) (-1) = [2, 1] := by decide

/-- K3 (integer branch): refused exactly outside `[-len, len)`, else the addressed cell -/
theorem C02_col_int (len : Nat) (s0 j : Int) :
    Cur.col_slice_int len s0 1 j = (Np.normIdx len j).map (fun i => (s0 + (i : Int), (1 : Int))) := by
  rw [Gen.Bridge.col_slice_int_bridge (len : Int) s0 1 j (by omega)]
  exact Proofs.ColSlice.ref_col_int len s0 j

-- non-vacuity: accepted negative index, refused index
example : Cur.col_slice_int 3 10 1 (-1) = some (12, 1) ∧ Np.normIdx 3 (-1) = some 2 := by decide
example : Cur.col_slice_int 3 10 1 3 = none ∧ Cur.col_slice_int 3 10 1 (-4) = none := by decide

end Props.C02
