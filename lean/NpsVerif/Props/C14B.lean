import NpsVerif.Model.RunLength
import NpsVerif.Proofs.RLArithClean
import NpsVerif.Proofs.RLIndexStep
import NpsVerif.Proofs.RLIndexSlice
/-!
# C14 (b): the canonical form of STEPPED slices

C14 promises that the result of a stepped slice has no two adjacent runs with equal values — whatever the
source looks like: a RunLengthArray that is itself a result (a scalar ufunc, a concatenation) keeps its
operand's run boundaries and may hold equal neighbours, and its stepped slice is joined all the same.
`_step_subset` ends with `join_runs`, so the statement needs no hypothesis on the source at all, only that the
value test `eq` is a right congruence (true of every genuine equality test and of IEEE `==`).
-/
open Model Model.RLA

namespace Props.C14B
variable {α : Type}

/-- the stride step (`_step_subset`, any step, any source — joined or not, valid or not) leaves no two
`eq`-equal neighbours -/
theorem C14_step_canonical (eq : α → α → Bool)
    (hcongr : ∀ a b c, eq b a = true → eq c b = eq c a) (r : RLA α) (k : Int) :
    ∀ i, ∀ u v, (r.stepSubset eq k).2[i]? = some u → (r.stepSubset eq k).2[i+1]? = some v → eq v u = false := by
  intro i u v hu hv
  have h : adjOK eq (r.stepSubset eq k).2 := by
    unfold stepSubset stepSubsetCore
    exact joinRuns_canonical eq hcongr _ _
  exact adjOK_getElem eq _ h i u v hu hv

/-- every slice with a step other than 1 (`rla[a:b:k]`, any bounds) that is not empty is joined: its values have no two
`eq`-equal neighbours, even if the array sliced is not in joined form itself -/
theorem C14_slice_canonical (eq : α → α → Bool)
    (hcongr : ∀ a b c, eq b a = true → eq c b = eq c a) (r : RLA α) (a b : Option Int) (k : Int) (hk1 : k ≠ 1)
    (r' : RLA α) (h : r.getSlice eq a b (some k) = some r') :
    ∀ i, ∀ u v, r'.values[i]? = some u → r'.values[i+1]? = some v → eq v u = false := by
  intro i u v hu hv
  by_cases hk0 : k = 0
  · subst hk0
    rw [Proofs.RLIndex.getSlice_zero_step] at h
    exact absurd h (by simp)
  have hk : (some k : Option Int) ≠ some 0 := by simpa using hk0
  have hlen : (0 : Int) ≤ (r.len : Int) := by omega
  unfold getSlice at h
  rw [if_neg hk] at h
  simp only [] at h
  rw [Gen.Bridge.rl_slice_bounds_bridge _ a b (some k) hlen hk] at h
  have hstep : (Gen.Ref.rl_slice_bounds (r.len : Int) a b (some k)).2.2.1 = k := rfl
  generalize Gen.Ref.rl_slice_bounds (r.len : Int) a b (some k) = t at h hstep
  split at h
  · have : r' = ⟨[0], []⟩ := (Option.some.inj h).symm
    subst this
    simp at hu
  · simp only [Option.bind_eq_some_iff] at h
    obtain ⟨sub, _, h2⟩ := h
    split at h2
    · exact absurd h2 (by simp)
    · rw [hstep, if_pos hk1] at h2
      unfold mk? at h2
      split at h2
      · have hr : r' = ⟨(sub.stepSubset eq k).1, (sub.stepSubset eq k).2⟩ := (Option.some.inj h2).symm
        subst hr
        exact C14_step_canonical eq hcongr sub k i u v hu hv
      · exact absurd h2 (by simp)

example : (RLA.mk [0, 2, 3, 5] [4, 4, 7]).getSlice (· == ·) none none (some 2) = some ⟨[0, 2, 3], [4, 7]⟩ := by decide

-- non-vacuity: a source with equal neighbours (`[4,4 | 4 | 7,7]` stored as three runs), step 2
example : ((RLA.mk [0, 2, 3, 5] [4, 4, 7]).stepSubset (· == ·) 2).2 = [4, 7] := by decide
example : ((RLA.mk [0, 2, 3, 5] [4, 4, 7]).stepSubset (· == ·) (-1)).2 = [7, 4] := by decide

end Props.C14B
