import NpsVerif.Model.Structural
import NpsVerif.Spec.Rows
import NpsVerif.Proofs.StructB
import NpsVerif.Proofs.GetItem
import NpsVerif.Proofs.Padded
/-! Property C08, second half: `ragged_slice` and the padded-matrix conversion. -/
namespace Props.C08
open Model Np
variable {α : Type}

/-- ragged_slice: for every row the window [start_i, end_i) (negative ends from the row end) -/
theorem C08_ragged_slice (rows : List (List α)) (ss es : List Int)
    (hs : ss.length = rows.length) (he : es.length = rows.length) (hpos : ∀ s ∈ ss, 0 ≤ s) :
    raggedSlice (RA.ofRows rows) (some ss) (some es) =
      some (List.zipWith (fun (r : List α) (se : Int × Int) => Spec.window r (some se.1) (some se.2)) rows (ss.zip es)) := by
  have hl1 : ss.length = (rows.map List.length).length := by simpa using hs
  have hl2 : es.length = (rows.map List.length).length := by simpa using he
  obtain ⟨h1, h2⟩ := slice_triples 0 (rows.map List.length) ss es hl1 hl2
  unfold raggedSlice
  simp only [RA.ofRows, Shape.starts, Shape.ends, Shape.nRows, ofLens_codes, exclScan]
  rw [h1, h2, if_neg (by simp [hs, he])]
  have hb := winRows_bound 0 (rows.map List.length) ss es hpos
  have hlen : (rows.map List.length).sum = rows.flatten.length := by
    rw [List.length_flatten]
  simp only [Nat.zero_add, hlen] at hb
  rw [gather_windows rows.flatten _ hb]
  have := winRows_window ([] : List α) rows ss es hs he hpos
  simp only [List.length_nil, List.nil_append] at this
  rw [this]

theorem C08_ragged_slice_default (rows : List (List α)) :
    raggedSlice (RA.ofRows rows) none none = some rows := by
  obtain ⟨h1, h2⟩ := default_triples 0 (rows.map List.length)
  unfold raggedSlice
  simp only [RA.ofRows, Shape.starts, Shape.ends, ofLens_codes, exclScan]
  rw [h1, h2]
  simp only [Bool.and_self, Bool.not_true, Bool.false_eq_true, if_false]
  have hb : ∀ r ∈ ((exclScanFrom 0 (rows.map List.length)).zip (rows.map List.length)).map
      (fun c => (((c.1 : Int), c.2) : Int × Nat)),
      r.2 = 0 ∨ (0 ≤ r.1 ∧ r.1 + (r.2 : Int) ≤ (rows.flatten.length : Int)) := by
    intro r hr
    obtain ⟨c, hc, rfl⟩ := List.mem_map.mp hr
    have := exclScanFrom_zip_bound 0 _ c hc
    rw [List.length_flatten]
    right
    simp only
    omega
  rw [gather_windows rows.flatten _ hb, List.map_map]
  have := rows_of_scan ([] : List α) rows
  simp only [List.length_nil, List.nil_append] at this
  simpa [Function.comp_def] using this

/-- the padded-matrix conversion pads each row to the longest row on the chosen side -/
theorem C08_padded (rows : List (List α)) (fill : α) (right : Bool) :
    paddedMatrix (RA.ofRows rows) fill right =
      some (rows.map (Spec.padRow ((rows.map List.length).foldl max 0) fill right)) := by
  unfold paddedMatrix
  simp only [ends_getLast, RA.size]
  simp only [RA.ofRows, ofLens_nRows, ofLens_lengths, ofLens_size]
  obtain ⟨ls, hls⟩ : ∃ ls, ls = rows.map List.length := ⟨_, rfl⟩
  rw [← hls]
  have hsum : ls.sum = rows.flatten.length := by rw [hls, List.length_flatten]
  by_cases h0 : ls.length = 0 ∨ ls.sum = 0
  · rw [if_pos h0]
    have hs0 : ls.sum = 0 := by
      rcases h0 with h | h
      · rw [List.length_eq_zero_iff.mp h]; rfl
      · exact h
    have hw0 : ls.foldl max 0 = 0 := foldl_max_eq_zero ls hs0
    rw [hw0]
    congr 1
    symm
    rw [List.eq_replicate_iff]
    refine ⟨by simp [hls], ?_⟩
    intro b hb
    obtain ⟨r, hr, rfl⟩ := List.mem_map.mp hb
    have hmem : r.length ∈ ls := by rw [hls]; exact List.mem_map_of_mem hr
    have hle := le_foldl_max ls 0 _ hmem
    have hr0 : r = [] := List.eq_nil_of_length_eq_zero (by omega)
    subst hr0
    cases right <;> rfl
  · rw [if_neg h0]
    have hcm : ((exclScanFrom 0 ls).zip ls).map (fun x => x.2) = ls := by
      rw [List.map_snd_zip]; simp
    have hcl : ((exclScanFrom 0 ls).zip ls).length = ls.length := by simp
    have hvs : (if right = true then List.map (fun (s : Nat) => (s : Int)) (Shape.ofLens ls).starts
        else List.map (fun (e : Nat) => (e : Int) - ((ls.foldl max 0 : Nat) : Int)) (Shape.ofLens ls).ends)
        = ((exclScanFrom 0 ls).zip ls).map (vs right (ls.foldl max 0)) := by
      cases right <;>
        simp [vs, Shape.starts, Shape.ends, ofLens_codes, exclScan, List.map_map, Function.comp_def]
    have hb : ∀ c ∈ (exclScanFrom 0 ls).zip ls, c.1 + c.2 ≤ rows.flatten.length := by
      intro c hc
      have := exclScanFrom_zip_bound 0 ls c hc
      omega
    have hl : ∀ c ∈ (exclScanFrom 0 ls).zip ls, c.2 ≤ ls.foldl max 0 := by
      intro c hc
      apply le_foldl_max
      rw [← hcm]
      exact List.mem_map_of_mem hc
    have key := padded_core rows.flatten fill right ((exclScanFrom 0 ls).zip ls) (ls.foldl max 0)
      (by omega) (by have := foldl_max_le_sum ls 0; omega) hb hl
    rw [hcm, hcl] at key
    have hrows : ((exclScanFrom 0 ls).zip ls).map (fun c => (rows.flatten.drop c.1).take c.2) = rows := by
      have := rows_of_scan ([] : List α) rows
      simp only [List.length_nil, List.nil_append] at this
      rw [hls]; exact this
    obtain ⟨arr, hga, harr⟩ := Option.map_eq_some_iff.mp key
    rw [hvs, hsum, hga, Option.map_some, harr]
    congr 1
    have hmm : ((exclScanFrom 0 ls).zip ls).map
          (fun c => Spec.padRow (ls.foldl max 0) fill right ((rows.flatten.drop c.1).take c.2))
        = rows.map (Spec.padRow (ls.foldl max 0) fill right) := by
      conv => rhs; rw [← hrows]
      rw [List.map_map]; rfl
    rw [hmm]
    have hlen : ls.length = (rows.map (Spec.padRow (ls.foldl max 0) fill right)).length := by
      simp [hls]
    rw [hlen]
    apply chunks_flatten
    intro r hr
    obtain ⟨r0, hr0, rfl⟩ := List.mem_map.mp hr
    have hmem : r0.length ∈ ls := by rw [hls]; exact List.mem_map_of_mem hr0
    have hle := le_foldl_max ls 0 _ hmem
    unfold Spec.padRow
    cases right <;> simp <;> omega

/- non-vacuity: padding on both sides, empty rows in the middle and at the end / at the start -/
example : paddedMatrix (RA.ofRows [[1, 2], [], [3, 4, 5], []]) 0 true
      = some [[1, 2, 0], [0, 0, 0], [3, 4, 5], [0, 0, 0]] ∧
    [[1, 2], [], [3, 4, 5], []].map (Spec.padRow 3 0 true)
      = [[1, 2, 0], [0, 0, 0], [3, 4, 5], [0, 0, 0]] := by decide
example : paddedMatrix (RA.ofRows [[1, 2], [], [3, 4, 5], []]) 0 false
      = some [[0, 1, 2], [0, 0, 0], [3, 4, 5], [0, 0, 0]] ∧
    [[1, 2], [], [3, 4, 5], []].map (Spec.padRow 3 0 false)
      = [[0, 1, 2], [0, 0, 0], [3, 4, 5], [0, 0, 0]] := by decide
/- the longest row first: `side="left"` view starts are negative for the later rows (wrap-around) -/
example : paddedMatrix (RA.ofRows [[], [1, 2, 3], [4]]) 9 false
      = some [[9, 9, 9], [1, 2, 3], [9, 9, 4]] := by decide
example : paddedMatrix (RA.ofRows [([] : List Nat), []]) 7 true = some [[], []] ∧
    paddedMatrix (RA.ofRows ([] : List (List Nat))) 7 false = some [] := by decide

/- non-vacuity: negative ends, ends beyond the row (clamped), empty windows (start past the end, end
before the start), empty rows -/
example : raggedSlice (RA.ofRows [[1, 2, 3], [], [4, 5, 6, 7], [8], [9, 10]])
      (some [1, 0, 0, 2, 1]) (some [-1, 5, -2, 3, 0])
      = some [[2], [], [4, 5], [], []] ∧
    List.zipWith (fun (r : List Nat) (se : Int × Int) => Spec.window r (some se.1) (some se.2))
      [[1, 2, 3], [], [4, 5, 6, 7], [8], [9, 10]] ([1, 0, 0, 2, 1].zip [-1, 5, -2, 3, 0])
      = [[2], [], [4, 5], [], []] := by decide
example : raggedSlice (RA.ofRows [[1, 2, 3], [], [4, 5]]) none none = some [[1, 2, 3], [], [4, 5]] := by
  decide
/- a wrong number of starts is refused -/
example : raggedSlice (RA.ofRows [[1, 2, 3], [], [4, 5]]) (some [0, 0]) (some [1, 1, 1]) = none := by
  decide

end Props.C08
