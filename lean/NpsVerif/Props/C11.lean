import NpsVerif.Model.HashTable
import NpsVerif.Gen.Bridge.ht_hash
import NpsVerif.Proofs.HTInv
import NpsVerif.Proofs.HTDict
import NpsVerif.Proofs.HTSim
import NpsVerif.Proofs.HTCount
import NpsVerif.Proofs.HTBuild
/-!
# C11: `HashTable` refines a plain dictionary

The simulation relation `Proofs.HT.R`, the invariant `Proofs.HT.Inv`, the per-operation simulation
lemmas (`Proofs.HT.sim_*`, `sim_step`, `sim_run`, `sim_runState`) and the constructor lemmas
(`Proofs.HT.build_R_inl`, `build_R_inr`) are in `NpsVerif/Proofs/HT*.lean`; `build_R` below packages
them with the definitions of this file for reuse (C12).
-/
open Model Model.HT

namespace Props.C11
open Proofs.HT

/-- what `np.argsort(hashes)` may return: any permutation of the positions that sorts the hashes
(numpy's default sort is not stable) -/
def IsSortingPerm (args : List Nat) (hashes : List Nat) : Prop :=
  args.Perm (List.range hashes.length) ∧ (args.filterMap (hashes[·]?)).Pairwise (· ≤ ·)

/-- the dictionary a table is built from -/
def dict0 (keys : List Int) (vals : Sum Int (List Int)) : Spec.Dict Int :=
  match vals with
  | .inl s => keys.map (fun k => (k, s))
  | .inr vs => keys.zip vs

/-- an operation is inside the property's statement: a single lookup asks for a present key -/
def WF (keys : List Int) : Op → Prop
  | .get1 k => k ∈ keys
  | _ => True

/-- values handed to the constructor: a scalar, or one value per key -/
def ValsOK (keys : List Int) : Sum Int (List Int) → Prop
  | .inl _ => True
  | .inr vs => vs.length = keys.length

/-- sanity instance -/
theorem build_example : ((build [10, 19, 20] (.inr [1, 2, 3]) 3 [1, 0, 2]).map (·.buckets)) = some [[], [19, 10], [20]] := by decide

/-- the stable argsort the driver uses is one of the admissible permutations -/
theorem C11_stable_argsort_ok (hashes : List Nat) : IsSortingPerm (stableArgsort hashes) hashes :=
  stableArgsort_facts hashes

theorem WF.get1 {keys : List Int} {op : Op} (h : WF keys op) : ∀ k, op = .get1 k → k ∈ keys := by
  intro k e; subst e; exact h

/-- the constructor accepts, and establishes the simulation relation with the initial dictionary
(the entry point for everything about built tables; reused by C12) -/
theorem build_R (keys : List Int) (hnd : keys.Nodup) (vals : Sum Int (List Int)) (hv : ValsOK keys vals)
    (mod : Nat) (hm : 0 < mod) (args : List Nat) (hs : IsSortingPerm args (keys.map (hashOf mod))) :
    ∃ t, build keys vals mod args = some t ∧ t.mod = mod ∧ R keys t (dict0 keys vals) := by
  have H : SortedArgs keys mod args := ⟨hm, hs.1, hs.2⟩
  cases vals with
  | inl s => exact build_R_inl keys mod args H hnd s
  | inr vs => exact build_R_inr keys mod args H hnd vs hv

/-- the constructor accepts distinct keys with any modulus ≥ 1 and any sorting permutation, and bucket
`h` then holds exactly the keys whose hash is `h`, each once -/
theorem C11_build_buckets (keys : List Int) (hnd : keys.Nodup) (vals : Sum Int (List Int)) (hv : ValsOK keys vals)
    (mod : Nat) (hm : 0 < mod) (args : List Nat) (hs : IsSortingPerm args (keys.map (hashOf mod))) :
    ∃ t, build keys vals mod args = some t ∧ t.buckets.length = mod ∧
      (∀ (h : Nat) (row : List Int), t.buckets[h]? = some row → ∀ k, k ∈ row ↔ (k ∈ keys ∧ hashOf mod k = h)) ∧
      t.buckets.flatten.Perm keys := by
  obtain ⟨t, hb, hmod, r⟩ := build_R keys hnd vals hv mod hm args hs
  refine ⟨t, hb, by rw [r.inv.len, hmod], ?_, r.inv.perm⟩
  intro h row hr k
  rw [← hmod]
  exact r.inv.mem_bucket hr k

/-- HEADLINE (refinement): for every set of distinct keys, every initial values, every modulus ≥ 1,
every admissible sorting permutation and EVERY finite history of operations, the observation trace
of the hash table equals the trace of the plain dictionary -/
theorem C11_refines (keys : List Int) (hnd : keys.Nodup) (vals : Sum Int (List Int)) (hv : ValsOK keys vals)
    (mod : Nat) (hm : 0 < mod) (args : List Nat) (hs : IsSortingPerm args (keys.map (hashOf mod)))
    (ops : List Op) (hops : ∀ op ∈ ops, WF keys op) :
    ∃ t, build keys vals mod args = some t ∧ Model.HT.run t ops = Spec.Dict.run (dict0 keys vals) ops := by
  obtain ⟨t, hb, _, r⟩ := build_R keys hnd vals hv mod hm args hs
  exact ⟨t, hb, sim_run ops t _ r (fun op h => (hops op h).get1)⟩

/-- corollary: results do not depend on the modulus nor on the permutation the sort returned -/
theorem C11_mod_independent (keys : List Int) (hnd : keys.Nodup) (vals : Sum Int (List Int)) (hv : ValsOK keys vals)
    (m1 m2 : Nat) (h1 : 0 < m1) (h2 : 0 < m2) (a1 a2 : List Nat)
    (hs1 : IsSortingPerm a1 (keys.map (hashOf m1))) (hs2 : IsSortingPerm a2 (keys.map (hashOf m2)))
    (ops : List Op) (hops : ∀ op ∈ ops, WF keys op) :
    ∃ t1 t2, build keys vals m1 a1 = some t1 ∧ build keys vals m2 a2 = some t2 ∧
      Model.HT.run t1 ops = Model.HT.run t2 ops := by
  obtain ⟨t1, hb1, e1⟩ := C11_refines keys hnd vals hv m1 h1 a1 hs1 ops hops
  obtain ⟨t2, hb2, e2⟩ := C11_refines keys hnd vals hv m2 h2 a2 hs2 ops hops
  exact ⟨t1, t2, hb1, hb2, by rw [e1, e2]⟩

/-- dictionary facts that make the refinement meaningful: a vector lookup containing an absent key is
refused; assignment changes the assigned keys only; the key set never changes -/
theorem C11_dict_absent_refused (d : Spec.Dict Int) (ks : List Int) (k : Int) (hk : k ∈ ks) (ha : d.mem k = false) :
    (Spec.Dict.step d (.getVec ks)).2 = .vals none := by
  have hl : Spec.Dict.lookup d k = none := by
    rw [Dict.mem_eq] at ha
    exact Dict.lookup_none (by simpa using ha)
  have : ks.mapM (Spec.Dict.lookup d) = none := by
    induction ks with
    | nil => cases hk
    | cons q ks ih =>
      rw [mapM_cons']
      rcases List.mem_cons.1 hk with e | h
      · rw [← e, hl]; rfl
      · rw [ih h]
        cases Spec.Dict.lookup d q <;> rfl
  simp only [Spec.Dict.step, this]

theorem C11_dict_assign_frame (d : Spec.Dict Int) (k k' : Int) (x : Int) (hne : k' ≠ k) :
    (d.assign k x).lookup k' = d.lookup k' := by
  rw [Dict.lookup_assign, if_neg hne]

theorem assignAll_keys (ws : List (Int × Int)) (d : Spec.Dict Int) : (assignAll d ws).map (·.1) = d.map (·.1) := by
  induction ws generalizing d with
  | nil => rfl
  | cons w ws ih =>
    simp only [assignAll, List.foldl_cons] at ih ⊢
    rw [ih, Dict.keys_assign]

theorem C11_dict_keys_constant (d : Spec.Dict Int) (op : Op) :
    ((Spec.Dict.step d op).1).map (·.1) = d.map (·.1) := by
  cases op with
  | get1 k => rfl
  | getVec ks => rfl
  | setScalar ks x =>
    simp only [Spec.Dict.step]
    split
    · rw [foldl_assign_const, assignAll_keys]
    · rfl
  | setEach ks xs =>
    simp only [Spec.Dict.step]
    split
    · exact assignAll_keys _ d
    · rfl
  | fill x => exact Dict.keys_mapval d (fun _ _ => x)
  | contains ks => rfl
  | items => rfl
  | count s => exact Dict.keys_mapval d (fun k y => y + ((s.count k : Nat) : Int))

/-! ## concrete instances -/

/-- modulus 1: all keys collide in the single bucket -/
example : (build [5, 7, 9] (.inr [1, 2, 3]) 1 [0, 1, 2]).map (·.buckets) = some [[5, 7, 9]] := by decide

/-- an unstable but admissible sorting permutation: the bucket order differs, the observations do not -/
example : IsSortingPerm [1, 0, 3, 2] ([10, 19, 20, -1].map (hashOf 3)) := by unfold IsSortingPerm; decide
example : (build [10, 19, 20, -1] (.inl 0) 3 [1, 0, 3, 2]).map (·.buckets) = some [[], [19, 10], [-1, 20]] := by decide
example : (build [10, 19, 20, -1] (.inl 0) 3 [1, 0, 2, 3]).map (·.buckets) = some [[], [19, 10], [20, -1]] := by decide

/-- a history on the all-colliding table: a refused vector lookup (`4` is absent), a refused
assignment, a membership test, a count (the non-key sample `4` is ignored), a fill -/
def exampleOps : List Op :=
  [.getVec [9, 5], .setScalar [7] 100, .getVec [7, 4], .setEach [4] [1], .contains [4, 5],
   .count [5, 5, 9, 4], .getVec [5, 7, 9], .get1 7, .fill 3, .get1 5]

def exampleObs : List Obs :=
  [.vals (some [3, 1]), .done true, .vals none, .done false, .bools [false, true],
   .done true, .vals (some [3, 100, 4]), .vals (some [100]), .done true, .vals (some [3])]

example : (build [5, 7, 9] (.inr [1, 2, 3]) 1 [0, 1, 2]).map (fun t => Model.HT.run t exampleOps)
    = some exampleObs := by decide
example : Spec.Dict.run (dict0 [5, 7, 9] (.inr [1, 2, 3])) exampleOps = exampleObs := by decide

/-- the headline theorem at a concrete table, with the `items` observation in the history -/
example : ∃ t, build [10, 19, 20, -1] (.inl 0) 3 [1, 0, 3, 2] = some t ∧
    Model.HT.run t [.get1 19, .setEach [20, -1] [7, 8], .getVec [10, 3], .count [19, 19, 20, 4], .items]
      = Spec.Dict.run (dict0 [10, 19, 20, -1] (.inl 0))
          [.get1 19, .setEach [20, -1] [7, 8], .getVec [10, 3], .count [19, 19, 20, 4], .items] :=
  C11_refines [10, 19, 20, -1] (by decide) (.inl 0) trivial 3 (by decide) _ (by unfold IsSortingPerm; decide) _
    (by intro op hop
        simp only [List.mem_cons, List.mem_nil_iff, or_false] at hop
        rcases hop with h | h | h | h | h <;> subst h <;> simp [WF])

end Props.C11
