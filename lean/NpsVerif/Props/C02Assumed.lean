import NpsVerif.Props.C02Kernels
import NpsVerif.Props.C02Gather
/-! The seven statements the end-to-end proof `C02_getitem` builds on: proved in `C02Kernels.lean`
(column-slice kernels) and `C02Gather.lean` (gather-index builder, materialisation). -/
