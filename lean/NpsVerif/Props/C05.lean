import NpsVerif.Model.Reduce
import NpsVerif.Proofs.ReduceAt
/-!
# Property C05 — row reductions (`ufunc.reduceat`, trailing empty rows, identity patch-up)

All theorems quantify over every list of rows (any placement of empty rows: first, last,
consecutive, all rows empty, zero rows), every element / result type and every reduction `red`.
Helper lemmas live in `NpsVerif/Proofs/ReduceAt.lean`.
-/
namespace Props.C05
open Model
variable {α β : Type}

/-- sanity instance -/
theorem reduce_example : reduceRows List.sum (some 0) 0 (RA.ofRows [[], [1, 2], [], [3], [], []]) = some [0, 3, 0, 3, 0, 0] := by decide

/-- reductions without an identity (max / min): one entry per row, right for every non-empty row -/
theorem C05_reduce_no_identity (red : List α → β) (pad : β) (rows : List (List α)) :
    ∃ r, reduceRows red none pad (RA.ofRows rows) = some r ∧ r.length = rows.length ∧
      ∀ (i : Nat) (row : List α), rows[i]? = some row → row ≠ [] → r[i]? = some (red row) := by
  obtain ⟨rows', m, rfl, hlast⟩ := rows_split rows
  obtain ⟨r', hlen, hspec, heq⟩ := reduceRows_none_split red pad rows' m hlast
  refine ⟨_, heq, by simp [hlen], ?_⟩
  intro i row hi hne
  by_cases hlt : i < rows'.length
  · rw [List.getElem?_append_left hlt] at hi
    rw [List.getElem?_append_left (by omega)]
    exact hspec i row hi hne
  · rw [List.getElem?_append_right (by omega)] at hi
    have := List.mem_of_getElem? hi
    exact absurd (List.eq_of_mem_replicate this) hne

/-- reductions with an identity: every row gets `red row`, empty rows the identity, wherever they are
(first, last, consecutive, all rows empty, zero rows) -/
theorem C05_reduce_identity (red : List α → β) (pad : β) (rows : List (List α)) :
    reduceRows red (some (red [])) pad (RA.ofRows rows) = some (rows.map red) := by
  obtain ⟨r, heq, hlen, hspec⟩ := C05_reduce_no_identity red (red []) rows
  rw [reduceRows_some, heq]
  simp only [Option.map_some, Option.some.injEq, RA.ofRows, ofLens_lengths]
  apply List.ext_getElem?
  intro i
  by_cases hi : i < rows.length
  · have hr : r[i]? = some r[i] := List.getElem?_eq_getElem (by omega)
    have hrow : rows[i]? = some rows[i] := List.getElem?_eq_getElem hi
    have hz : (r.zip (rows.map List.length))[i]? = some (r[i], rows[i].length) := by
      rw [List.getElem?_zip_eq_some]
      exact ⟨hr, by simp [hrow]⟩
    simp only [List.getElem?_map, hz, hrow, Option.map_some, Option.some.injEq]
    by_cases hne : rows[i] = []
    · simp [hne]
    · have h1 := hspec i rows[i] hrow hne
      rw [hr] at h1
      have hpos : rows[i].length ≠ 0 := by
        have := List.length_pos_iff.mpr hne; omega
      simp only [hpos, if_false]
      exact Option.some.inj h1
  · rw [List.getElem?_eq_none (by simp; omega), List.getElem?_eq_none (by simp; omega)]

/-- `reduceat` on the starts of a contiguous shape whose last row is non-empty -/
theorem C05_reduceat (red : List α → β) (rows : List (List α)) (hlast : ∀ (r : List α), rows.getLast? = some r → r ≠ []) :
    ∃ r, reduceat red rows.flatten (Shape.ofLens (rows.map List.length)).starts = some r ∧
      r.length = rows.length ∧ ∀ (i : Nat) (row : List α), rows[i]? = some row → row ≠ [] → r[i]? = some (red row) := by
  rw [ofLens_starts]
  exact reduceat_starts_spec red rows hlast

/-! ## non-vacuity: concrete instances (`red := List.sum` over `Nat`, and a max without identity) -/

/- leading, interior and several trailing empty rows -/
example : reduceRows List.sum (some 0) 7 (RA.ofRows [[], [1, 2], [], [3], [], []]) = some [0, 3, 0, 3, 0, 0] := by decide
/- the trimmed `reduceat` call of that run: indices `starts[:4]`, empty rows give a single element -/
example : reduceat List.sum [1, 2, 3] [0, 0, 2, 2] = some [1, 3, 3, 3] := by decide
example : Np.searchsortedLeftNat (Shape.ofLens [0, 2, 0, 1, 0, 0]).starts 3 = 4 := by decide
/- an untrimmed start equal to the size is an IndexError -/
example : reduceat List.sum [1, 2, 3] [0, 0, 2, 2, 3, 3] = none := by decide
/- all rows empty; zero rows -/
example : reduceRows List.sum (some 0) 7 (RA.ofRows [([] : List Nat), [], []]) = some [0, 0, 0] := by decide
example : reduceRows List.sum (some 0) 7 (RA.ofRows ([] : List (List Nat))) = some [] := by decide
/- last row non-empty: plain `reduceat` on all starts -/
example : reduceRows List.sum (some 0) 7 (RA.ofRows [[], [1, 2], [], [], [3, 4, 5]]) = some [0, 3, 0, 0, 12] := by decide
example : reduceat List.sum [1, 2, 3] (Shape.ofLens [0, 2, 0, 1]).starts = some [1, 3, 3, 3] := by decide
/- a reduction without identity (maximum): non-empty rows right, empty rows unspecified / padded -/
example : reduceRows (List.foldl max 0) none 9 (RA.ofRows [[], [1, 5, 2], [], [3], [], []]) = some [1, 5, 3, 3, 9, 9] := by decide
example : reduceRows (List.foldl max 0) none 9 (RA.ofRows [([] : List Nat), []]) = some [9, 9] := by decide
example : reduceRows (List.foldl max 0) none 9 (RA.ofRows [[4, 1], [], [2, 7]]) = some [4, 2, 7] := by decide

end Props.C05
