import NpsVerif.Model.Reduce
namespace Props.C05
open Model
/-- sanity instance; the universally quantified theorems are added as they are proved -/
theorem reduce_example : reduceRows List.sum (some 0) 0 (RA.ofRows [[], [1, 2], [], [3], [], []]) = some [0, 3, 0, 3, 0, 0] := by decide
end Props.C05
