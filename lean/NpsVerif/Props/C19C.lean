import NpsVerif.Props.C19B
/-! Property C19 (b), kernel K1 (`RaggedView2._calculate_lengths`) in wrapping 32-bit arithmetic. -/
namespace Props.C19
open Gen
set_option linter.unusedSimpArgs false

set_option maxHeartbeats 4000000 in
/-- K1 (row length for any non-zero step): int32 computation = ideal computation -/
theorem C19_calc_lengths_w32 (len : Int) (a b k : Option Int)
    (hlen : 0 ≤ len) (hsize : len ≤ 2147483647)
    (ha : Clipped a) (hb : Clipped b) (hk : Clipped k) (hk0 : k ≠ some 0) :
    (CurW.calc_lengths (.lift len) (a.map .lift) (b.map .lift) (k.map .lift)).v = Cur.calc_lengths len a b k := by
  unfold Clipped B30 at ha hb hk
  simp only [CurW.calc_lengths, Cur.calc_lengths]
  cases k with
  | none =>
    cases a with
    | none =>
      cases b with
      | none => w32_arith
      | some b => have := hb b rfl; w32_arith
    | some a =>
      have := ha a rfl
      cases b with
      | none => w32_arith
      | some b => have := hb b rfl; w32_arith
  | some k =>
    have := hk k rfl
    have hk0' : k ≠ 0 := fun h => hk0 (by rw [h])
    cases a with
    | none =>
      cases b with
      | none => w32_arith
      | some b => have := hb b rfl; w32_arith
    | some a =>
      have := ha a rfl
      cases b with
      | none => w32_arith
      | some b => have := hb b rfl; w32_arith


end Props.C19
