import NpsVerif.Model.HashTable
import NpsVerif.Gen.Bridge.ht_hash
namespace Props.C12
open Model.HT
/-- sanity instance; the universally quantified theorems are added as they are proved -/
theorem build_example : ((build [10, 19, 20] (.inr [1, 2, 3]) 3 [1, 0, 2]).map (·.buckets)) = some [[], [19, 10], [20]] := by decide
end Props.C12
